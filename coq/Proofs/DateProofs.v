(* Proofs about NewPartition / Align (Model/Date.v) against Spec/DateSpec.v. *)
From Coq Require Import ZArith List Bool Lia.
From Knut Require Import Model.Date Spec.DateSpec Proofs.CalendarSweep Proofs.CalendarProofs.
Import ListNotations.
Open Scope bool_scope.
Open Scope Z_scope.

Ltac Zify.zify_post_hook ::= Z.div_mod_to_equations.

(* ------------------------------------------------------------ start_of *)

Lemma civil_le_mono d1 d2 : d1 <= d2 -> civil d1 = civil d2 \/ lex_lt (civil d1) (civil d2).
Proof.
  intros H. destruct (Z.eq_dec d1 d2) as [->|Hne]; [left; reflexivity|right].
  apply civil_lt_mono. lia.
Qed.

(* the first day of month q of e's year, for a month q not after e's month *)
Lemma month_start_facts e q :
  1 <= q <= month_of e ->
  let S := of_civil (year_of e) q 1 in
  S <= e /\
  (forall d, S <= d <= e -> year_of d = year_of e /\ q <= month_of d <= month_of e) /\
  (year_of (S - 1) < year_of e \/ (year_of (S - 1) = year_of e /\ month_of (S - 1) < q)).
Proof.
  intros Hq S.
  pose proof (month_range e) as Hm. pose proof (day_range e) as Hd.
  assert (HS : civil S = (year_of e, q, 1)).
  { apply civil_of_civil. unfold valid_civil. pose proof (dim_pos (year_of e) q). lia. }
  assert (HSe : S <= e).
  { destruct (Z_le_gt_dec S e) as [|Hgt]; [assumption|exfalso].
    assert (Hlt : e < S) by lia. apply civil_lt_mono in Hlt.
    rewrite HS, (year_month_day e) in Hlt. unfold lex_lt in Hlt. lia. }
  split; [exact HSe|split].
  - intros d [H1 H2].
    pose proof (month_range d) as Hmd. pose proof (day_range d) as Hdd.
    apply civil_le_mono in H1. apply civil_le_mono in H2.
    rewrite HS, (year_month_day d) in H1. rewrite (year_month_day d), (year_month_day e) in H2.
    unfold lex_lt in *.
    destruct H1 as [H1|H1]; [inversion H1|]; destruct H2 as [H2|H2]; try inversion H2; lia.
  - assert (Hlt : S - 1 < S) by lia. apply civil_lt_mono in Hlt.
    pose proof (day_range (S - 1)) as Hdd.
    rewrite HS, (year_month_day (S - 1)) in Hlt. unfold lex_lt in Hlt. lia.
Qed.

Lemma start_of_weekly e : start_of e Weekly = 7 * (e / 7).
Proof. unfold start_of, weekday. rewrite add_date_days. lia. Qed.

Lemma start_of_monthly e : start_of e Monthly = of_civil (year_of e) (month_of e) 1.
Proof.
  unfold start_of. pose proof (month_range e). rewrite go_date_valid_month by lia. lia.
Qed.

Definition quarter_month (m : Z) : Z := (m - 1) / 3 * 3 + 1.

Lemma start_of_quarterly e : start_of e Quarterly = of_civil (year_of e) (quarter_month (month_of e)) 1.
Proof.
  unfold start_of, quarter_month. pose proof (month_range e).
  rewrite go_date_valid_month by lia. lia.
Qed.

Lemma start_of_yearly e : start_of e Yearly = of_civil (year_of e) 1 1.
Proof. unfold start_of. rewrite go_date_valid_month by lia. lia. Qed.

Lemma start_of_le e iv : start_of e iv <= e.
Proof.
  pose proof (month_range e) as Hm.
  destruct iv.
  - cbn; lia.
  - cbn; lia.
  - rewrite start_of_weekly. lia.
  - rewrite start_of_monthly. apply (month_start_facts e (month_of e)). lia.
  - rewrite start_of_quarterly. apply (month_start_facts e (quarter_month (month_of e))).
    unfold quarter_month. lia.
  - rewrite start_of_yearly. apply (month_start_facts e 1). lia.
Qed.

Lemma start_of_unit e iv d : start_of e iv <= d <= e -> unit_key iv d = unit_key iv e.
Proof.
  pose proof (month_range e) as Hm.
  destruct iv; intros H.
  - reflexivity.
  - unfold unit_key, start_of in *. f_equal. lia.
  - rewrite start_of_weekly in H. unfold unit_key. f_equal. lia.
  - rewrite start_of_monthly in H.
    destruct (month_start_facts e (month_of e) ltac:(lia)) as (_ & Hin & _).
    destruct (Hin d H) as [Hy Hmm]. unfold unit_key. f_equal; lia.
  - rewrite start_of_quarterly in H.
    destruct (month_start_facts e (quarter_month (month_of e)) ltac:(unfold quarter_month; lia)) as (_ & Hin & _).
    destruct (Hin d H) as [Hy Hmm]. unfold unit_key. unfold quarter_month in Hmm. f_equal; lia.
  - rewrite start_of_yearly in H.
    destruct (month_start_facts e 1 ltac:(lia)) as (_ & Hin & _).
    destruct (Hin d H) as [Hy Hmm]. unfold unit_key. f_equal; lia.
Qed.

Lemma start_of_boundary e iv : iv <> Once -> unit_key iv (start_of e iv - 1) <> unit_key iv e.
Proof.
  pose proof (month_range e) as Hm.
  destruct iv; intros Hne Heq; try congruence.
  - unfold unit_key, start_of in Heq. apply pair_equal_spec in Heq. destruct Heq as [Hk1 Hk2]. lia.
  - rewrite start_of_weekly in Heq. unfold unit_key in Heq. apply pair_equal_spec in Heq. destruct Heq as [Hk1 Hk2]. lia.
  - rewrite start_of_monthly in Heq.
    destruct (month_start_facts e (month_of e) ltac:(lia)) as (_ & _ & Hb).
    unfold unit_key in Heq. apply pair_equal_spec in Heq. destruct Heq as [Hk1 Hk2]. lia.
  - rewrite start_of_quarterly in Heq.
    destruct (month_start_facts e (quarter_month (month_of e)) ltac:(unfold quarter_month; lia)) as (_ & _ & Hb).
    pose proof (month_range (of_civil (year_of e) (quarter_month (month_of e)) 1 - 1)) as Hm2.
    unfold unit_key in Heq. apply pair_equal_spec in Heq. destruct Heq as [Hk1 Hk2]. unfold quarter_month in *. lia.
  - rewrite start_of_yearly in Heq.
    destruct (month_start_facts e 1 ltac:(lia)) as (_ & _ & Hb).
    pose proof (month_range (of_civil (year_of e) 1 1 - 1)) as Hm2.
    unfold unit_key in Heq. apply pair_equal_spec in Heq. destruct Heq as [Hk1 Hk2]. lia.
Qed.

(* ------------------------------------------------------------ chains *)

(* [chain iv s e ps]: what the loop of NewPartition builds for the window [s, e] when it is
   not cut short by --last: either nothing (e = s - 1 ... more generally e < s) or periods
   tiling [s, e], each inside one unit, adjacent ones in different units. *)
Inductive chain (iv : interval) (s : Z) : Z -> list period -> Prop :=
| chain_nil e : e < s -> chain iv s e []
| chain_snoc e st ps :
    s <= st <= e ->
    (forall d, st <= d <= e -> unit_key iv d = unit_key iv e) ->
    (s < st -> unit_key iv (st - 1) <> unit_key iv e) ->
    chain iv s (st - 1) ps ->
    chain iv s e (ps ++ [mkPeriod st e]).

Lemma tiles_snoc s e st ps :
  st <= e -> (ps = [] -> st = s) -> (ps <> [] -> tiles s (st - 1) ps) ->
  tiles s e (ps ++ [mkPeriod st e]).
Proof.
  revert s. induction ps as [|p ps IH]; intros s Hle Hnil Hcons.
  - cbn. rewrite (Hnil eq_refl). lia.
  - specialize (Hcons ltac:(discriminate)).
    cbn [app tiles] in *. destruct Hcons as (Hs & Hpe & Hrest).
    split; [exact Hs|split; [exact Hpe|]].
    destruct ps as [|q ps].
    + cbn. lia.
    + cbn [app]. change (q :: ps ++ [mkPeriod st e]) with ((q :: ps) ++ [mkPeriod st e]).
      apply IH; [exact Hle|discriminate|intros _; exact Hrest].
Qed.

Lemma chain_empty iv s e ps : chain iv s e ps -> e < s -> ps = [].
Proof. intros H Hlt. inversion H; subst; [reflexivity|lia]. Qed.

Lemma chain_nonempty iv s e ps : chain iv s e ps -> s <= e -> ps <> [].
Proof. intros H Hle. inversion H; subst; [lia|]. destruct ps0; discriminate. Qed.

Lemma chain_tiles iv s e ps : chain iv s e ps -> s <= e -> tiles s e ps.
Proof.
  induction 1 as [e Hlt|e st ps Hst Hu Hb Hc IH]; intros Hle; [lia|].
  apply tiles_snoc; [lia| |].
  - intros ->. inversion Hc; subst; [lia|]. destruct ps; discriminate.
  - intros Hne. apply IH. destruct (Z_le_gt_dec s (st - 1)); [assumption|].
    exfalso. apply Hne. eapply chain_empty; eauto. lia.
Qed.

Lemma chain_within iv s e ps : chain iv s e ps -> Forall (within_unit iv) ps.
Proof.
  induction 1 as [e Hlt|e st ps Hst Hu Hb Hc IH]; [constructor|].
  apply Forall_app. split; [exact IH|]. constructor; [|constructor].
  intros d1 d2 H1 H2. cbn in *. unfold same_unit. rewrite (Hu d1 H1), (Hu d2 H2). reflexivity.
Qed.

Lemma chain_bounds iv s e ps : chain iv s e ps -> Forall (fun p => s <= p_start p /\ p_start p <= p_end p /\ p_end p <= e) ps.
Proof.
  induction 1 as [e Hlt|e st ps Hst Hu Hb Hc IH]; [constructor|].
  apply Forall_app. split.
  - eapply Forall_impl; [|exact IH]. cbn. intros p Hp. lia.
  - constructor; [cbn; lia|constructor].
Qed.

Lemma units_change_snoc iv ps q :
  units_change iv ps ->
  (forall p, ps <> [] -> last ps p = p -> True) ->
  (ps <> [] -> ~ same_unit iv (p_end (last ps q)) (p_start q)) ->
  units_change iv (ps ++ [q]).
Proof.
  induction ps as [|p ps IH]; intros Hu _ Hl.
  - cbn. tauto.
  - cbn [app units_change] in *. destruct Hu as [H1 H2].
    destruct ps as [|p2 ps].
    + cbn. split; [|tauto]. apply Hl. discriminate.
    + cbn [app]. split; [exact H1|].
      change (p2 :: ps ++ [q]) with ((p2 :: ps) ++ [q]).
      apply IH; [exact H2|trivial|]. intros _. apply Hl. discriminate.
Qed.

Lemma chain_last_end iv s e ps d : chain iv s e ps -> ps <> [] -> p_end (last ps d) = e.
Proof.
  intros H Hne. inversion H; subst; [congruence|].
  rewrite last_last. reflexivity.
Qed.

Lemma chain_units_change iv s e ps : chain iv s e ps -> units_change iv ps.
Proof.
  induction 1 as [e Hlt|e st ps Hst Hu Hb Hc IH]; [exact I|].
  apply units_change_snoc; [exact IH|trivial|].
  intros Hne. rewrite (chain_last_end _ _ _ _ _ Hc Hne). cbn.
  unfold same_unit. rewrite (Hu st ltac:(lia)).
  apply Hb. pose proof (chain_nonempty _ _ _ _ Hc) as Hn.
  destruct (Z_le_gt_dec s (st - 1)); [lia|].
  exfalso. apply Hne. eapply chain_empty; eauto. lia.
Qed.

(* ------------------------------------------------------------ the loop *)

Lemma np_loop_acc fuel s iv last c e acc :
  np_loop fuel s iv last c e acc = option_map (fun l => l ++ acc) (np_loop fuel s iv last c e []).
Proof.
  revert c e acc. induction fuel as [|f IH]; intros c e acc; cbn [np_loop].
  - destruct ((e <? s) || ((last <=? c) && (0 <? last))); reflexivity.
  - destruct ((e <? s) || ((last <=? c) && (0 <? last))); [reflexivity|].
    rewrite IH. rewrite (IH _ _ [_]).
    destruct (np_loop f s iv last (c + 1) _ []); cbn; [|reflexivity].
    rewrite <- app_assoc. reflexivity.
Qed.

Lemma np_loop_counter0 fuel s iv c c' e acc :
  np_loop fuel s iv 0 c e acc = np_loop fuel s iv 0 c' e acc.
Proof.
  revert c c' e acc. induction fuel as [|f IH]; intros c c' e acc; cbn [np_loop].
  - replace (0 <? 0) with false by reflexivity. rewrite !andb_false_r. reflexivity.
  - replace (0 <? 0) with false by reflexivity. rewrite !andb_false_r, !orb_false_r.
    destruct (e <? s); [reflexivity|]. apply IH.
Qed.

(* with enough fuel the unlimited loop builds a chain *)
Lemma np_loop_chain iv (Hiv : iv <> Once) fuel s c e :
  e - s + 1 <= Z.of_nat fuel ->
  exists ps, np_loop fuel s iv 0 c e [] = Some ps /\ chain iv s e ps.
Proof.
  revert c e. induction fuel as [|f IH]; intros c e Hf; cbn [np_loop];
    replace (0 <? 0) with false by reflexivity; rewrite !andb_false_r, !orb_false_r.
  - destruct (e <? s) eqn:E; [|lia]. exists []. split; [reflexivity|constructor; lia].
  - destruct (e <? s) eqn:E.
    + exists []. split; [reflexivity|constructor; lia].
    + rewrite add_date_days.
      set (st := if start_of e iv <? s then s else start_of e iv).
      pose proof (start_of_le e iv) as Hle.
      assert (Hst : s <= st <= e) by (unfold st; destruct (start_of e iv <? s) eqn:E2; lia).
      destruct (IH (c + 1) (st + -1) ltac:(lia)) as (ps & Hps & Hch).
      rewrite np_loop_acc, Hps. cbn [option_map].
      exists (ps ++ [mkPeriod st e]). split; [reflexivity|].
      constructor; try assumption.
      * intros d Hd. apply start_of_unit. unfold st in Hd. destruct (start_of e iv <? s) eqn:E2; lia.
      * intros Hlt. unfold st in *. destruct (start_of e iv <? s) eqn:E2; [lia|].
        apply start_of_boundary. exact Hiv.
Qed.

Lemma skipn_app_le {A} n (l1 l2 : list A) : (n <= length l1)%nat -> skipn n (l1 ++ l2) = skipn n l1 ++ l2.
Proof.
  intros H. rewrite skipn_app. replace (n - length l1)%nat with O by lia. reflexivity.
Qed.

Lemma lastn_snoc {A} k (l : list A) x : lastn (S k) (l ++ [x]) = lastn k l ++ [x].
Proof.
  unfold lastn. rewrite app_length. cbn [length].
  replace (length l + 1 - S k)%nat with (length l - k)%nat by lia.
  apply skipn_app_le. lia.
Qed.

Lemma lastn_all {A} k (l : list A) : (length l <= k)%nat -> lastn k l = l.
Proof. intros H. unfold lastn. replace (length l - k)%nat with O by lia. reflexivity. Qed.

(* the loop limited by --last yields the last (last - c) periods of the unlimited loop *)
Lemma np_loop_last fuel s iv last c e :
  0 < last -> 0 <= c <= last ->
  forall full, np_loop fuel s iv 0 0 e [] = Some full ->
  np_loop fuel s iv last c e [] = Some (lastn (Z.to_nat (last - c)) full).
Proof.
  intros Hl. revert c e. induction fuel as [|f IH]; intros c e Hc full Hfull; cbn [np_loop] in *;
    replace (0 <? 0) with false in Hfull by reflexivity;
    rewrite !andb_false_r, !orb_false_r in Hfull.
  - destruct (e <? s) eqn:E; [|discriminate]. inversion Hfull; subst. cbn. reflexivity.
  - destruct (e <? s) eqn:E.
    + inversion Hfull; subst. cbn. reflexivity.
    + cbn [orb]. destruct ((last <=? c) && (0 <? last)) eqn:E2.
      * assert (c = last) by lia. subst c. rewrite Z.sub_diag. cbn.
        unfold lastn. rewrite Nat.sub_0_r, skipn_all. reflexivity.
      * set (st := if start_of e iv <? s then s else start_of e iv) in *.
        rewrite np_loop_acc in Hfull. rewrite (np_loop_counter0 _ _ _ (0 + 1) 0) in Hfull.
        destruct (np_loop f s iv 0 0 (add_date st 0 0 (-1)) []) as [full'|] eqn:E3; [|discriminate].
        cbn in Hfull. inversion Hfull; subst full.
        rewrite np_loop_acc. rewrite (IH (c + 1) _ ltac:(lia) full' E3). cbn [option_map].
        f_equal. replace (Z.to_nat (last - c)) with (S (Z.to_nat (last - (c + 1)))) by lia.
        rewrite lastn_snoc. reflexivity.
Qed.

(* ------------------------------------------------------------ new_partition *)

Definition full_periods (s e : Z) (iv : interval) : list period :=
  match np_loop (Z.to_nat (e - s) + 1) s iv 0 0 e [] with Some l => l | None => [] end.

Lemma full_periods_chain s e iv : iv <> Once -> chain iv s e (full_periods s e iv).
Proof.
  intros Hiv. unfold full_periods.
  destruct (np_loop_chain iv Hiv (Z.to_nat (e - s) + 1) s 0 e ltac:(lia)) as (ps & Hps & Hch).
  rewrite Hps. exact Hch.
Qed.

Lemma new_partition_unlimited s e iv :
  iv <> Once -> s <> 0 ->
  new_partition (mkPeriod s e) iv 0 = POk (mkPartition (mkPeriod s e) iv (full_periods s e iv)).
Proof.
  intros Hiv Hs. unfold new_partition, full_periods. cbn [p_start p_end].
  destruct (s =? 0) eqn:E; [lia|].
  destruct (np_loop_chain iv Hiv (Z.to_nat (e - s) + 1) s 0 e ltac:(lia)) as (ps & Hps & Hch).
  rewrite Hps. destruct iv; congruence.
Qed.

Lemma new_partition_last s e iv n :
  iv <> Once -> s <> 0 -> 0 < n ->
  new_partition (mkPeriod s e) iv n =
  POk (mkPartition (mkPeriod s e) iv (lastn (Z.to_nat n) (full_periods s e iv))).
Proof.
  intros Hiv Hs Hn. unfold new_partition, full_periods. cbn [p_start p_end].
  destruct (s =? 0) eqn:E; [lia|].
  destruct (np_loop_chain iv Hiv (Z.to_nat (e - s) + 1) s 0 e ltac:(lia)) as (ps & Hps & Hch).
  rewrite Hps.
  rewrite (np_loop_last _ s iv n 0 e Hn ltac:(lia) ps Hps). rewrite Z.sub_0_r.
  destruct iv; congruence.
Qed.

Lemma np_loop_some iv fuel s last c e :
  e - s + 1 <= Z.of_nat fuel -> exists ps, np_loop fuel s iv last c e [] = Some ps.
Proof.
  revert c e. induction fuel as [|f IH]; intros c e Hf; cbn [np_loop].
  - destruct ((e <? s) || ((last <=? c) && (0 <? last))) eqn:E; [eexists; reflexivity|].
    apply orb_false_iff in E. lia.
  - destruct ((e <? s) || ((last <=? c) && (0 <? last))) eqn:E; [eexists; reflexivity|].
    apply orb_false_iff in E. destruct E as [E _].
    rewrite add_date_days, np_loop_acc.
    pose proof (start_of_le e iv) as Hle.
    set (st := if start_of e iv <? s then s else start_of e iv).
    assert (Hst : s <= st <= e) by (unfold st; destruct (start_of e iv <? s) eqn:E2; lia).
    destruct (IH (c + 1) (st + -1) ltac:(lia)) as [ps ->]. eexists; reflexivity.
Qed.

Lemma new_partition_no_fuel_exhaustion p iv n : new_partition p iv n <> POutOfFuel.
Proof.
  destruct p as [s e]. unfold new_partition. cbn [p_start p_end].
  destruct (s =? 0) eqn:E; [discriminate|].
  destruct iv; try discriminate.
  all: match goal with |- context [np_loop ?f ?s0 ?iv ?n0 0 ?e0 []] =>
         destruct (np_loop_some iv f s0 n0 0 e0 ltac:(lia)) as [ps ->] end; discriminate.
Qed.

(* ------------------------------------------------------------ lastn of a tiling *)

Lemma tiles_skipn s e ps k :
  tiles s e ps -> (k < length ps)%nat ->
  tiles (first_start (skipn k ps) s) e (skipn k ps).
Proof.
  revert s ps. induction k as [|k IH]; intros s ps Ht Hk.
  - cbn [skipn]. destruct ps as [|p ps]; [cbn in Ht; tauto|]. cbn [first_start].
    cbn [tiles] in *. destruct Ht as (Hs & Hrest). rewrite Hs. split; [reflexivity|].
    rewrite Hs in Hrest. exact Hrest.
  - destruct ps as [|p ps]; [cbn in Hk; lia|]. cbn [skipn].
    cbn [tiles] in Ht. destruct Ht as (Hs & Hpe & Hrest).
    destruct ps as [|q ps]; [cbn in Hk; lia|].
    specialize (IH _ _ Hrest ltac:(cbn in *; lia)).
    destruct (skipn k (q :: ps)) eqn:E.
    + cbn in IH. tauto.
    + cbn [first_start] in *. exact IH.
Qed.

Lemma units_change_skipn iv ps k : units_change iv ps -> units_change iv (skipn k ps).
Proof.
  revert ps; induction k as [|k IH]; intros ps H; [exact H|].
  destruct ps as [|p ps]; [exact I|]. cbn [skipn]. apply IH. cbn in H. tauto.
Qed.

Lemma Forall_skipn {A} (P : A -> Prop) l k : Forall P l -> Forall P (skipn k l).
Proof.
  revert l; induction k as [|k IH]; intros l H; [exact H|].
  destruct l; [constructor|]. cbn. apply IH. inversion H; assumption.
Qed.

(* ------------------------------------------------------------ align *)

Lemma tiles_end_ge s e ps : tiles s e ps -> Forall (fun p => p_end p <= e) ps /\ s <= e.
Proof.
  revert s. induction ps as [|p ps IH]; intros s H; [cbn in H; tauto|].
  cbn [tiles] in H. destruct H as (Hs & Hpe & Hrest).
  destruct ps as [|q ps].
  - split; [constructor; [lia|constructor]|lia].
  - destruct (IH _ Hrest) as [H1 H2]. split; [constructor; [lia|exact H1]|lia].
Qed.

Lemma align_in_period s e ps p d :
  tiles s e ps -> In p ps -> p_start p <= d <= p_end p -> align_list ps d = Some (p_end p).
Proof.
  revert s. induction ps as [|q ps IH]; intros s Ht Hin Hd; [destruct Hin|].
  cbn [tiles] in Ht. destruct Ht as (Hs & Hpe & Hrest).
  cbn [align_list]. destruct Hin as [->|Hin].
  - replace (p_end p <? d) with false by lia. reflexivity.
  - destruct ps as [|q2 ps]; [destruct Hin|].
    assert (Hge : p_end q + 1 <= p_start p).
    { clear IH. revert Hrest Hin. generalize (p_end q + 1). generalize (q2 :: ps).
      induction l as [|a l IHl]; intros z Ht Hin; [destruct Hin|].
      cbn [tiles] in Ht. destruct Ht as (Hs2 & Hpe2 & Hrest2).
      destruct Hin as [->|Hin]; [lia|].
      destruct l as [|b l]; [destruct Hin|].
      specialize (IHl _ Hrest2 Hin). lia. }
    replace (p_end q <? d) with true by lia. cbn [negb].
    eapply IH; eauto.
Qed.

Lemma align_before s e ps d :
  tiles s e ps -> d < s -> align_list ps d = option_map p_end (hd_error ps).
Proof.
  destruct ps as [|p ps]; intros Ht Hd; [reflexivity|].
  cbn [tiles] in Ht. destruct Ht as (Hs & Hpe & _).
  cbn. replace (p_end p <? d) with false by lia. reflexivity.
Qed.

Lemma align_after ps e d :
  Forall (fun p => p_end p <= e) ps -> e < d -> align_list ps d = None.
Proof.
  induction 1 as [|p ps Hp _ IH]; intros Hd; [reflexivity|].
  cbn. replace (p_end p <? d) with true by lia. cbn. apply IH. exact Hd.
Qed.

Lemma column_of_tiles s e ps d p :
  tiles s e ps -> In p ps -> p_start p <= d <= p_end p -> column_of ps d = Some (p_end p).
Proof.
  revert s. induction ps as [|q ps IH]; intros s Ht Hin Hd; [destruct Hin|].
  cbn [tiles] in Ht. destruct Ht as (Hs & Hpe & Hrest).
  cbn [column_of]. destruct Hin as [->|Hin].
  - replace ((p_start p <=? d) && (d <=? p_end p)) with true by lia. reflexivity.
  - destruct ps as [|q2 ps]; [destruct Hin|].
    assert (Hge : p_end q + 1 <= p_start p).
    { clear IH. revert Hrest Hin. generalize (p_end q + 1). generalize (q2 :: ps).
      induction l as [|a l IHl]; intros z Ht Hin; [destruct Hin|].
      cbn [tiles] in Ht. destruct Ht as (Hs2 & Hpe2 & Hrest2).
      destruct Hin as [->|Hin]; [lia|].
      destruct l as [|b l]; [destruct Hin|].
      specialize (IHl _ Hrest2 Hin). lia. }
    replace ((p_start q <=? d) && (d <=? p_end q)) with false by lia.
    eapply IH; eauto.
Qed.

Lemma tiles_cover s e ps d : tiles s e ps -> s <= d <= e -> exists p, In p ps /\ p_start p <= d <= p_end p.
Proof.
  revert s. induction ps as [|q ps IH]; intros s Ht Hd; [cbn in Ht; tauto|].
  cbn [tiles] in Ht. destruct Ht as (Hs & Hpe & Hrest).
  destruct (Z_le_gt_dec d (p_end q)) as [Hle|Hgt].
  - exists q. split; [left; reflexivity|lia].
  - destruct ps as [|q2 ps]; [lia|].
    destruct (IH _ Hrest ltac:(lia)) as (p & Hin & Hp). exists p. split; [right; exact Hin|exact Hp].
Qed.

(* Align agrees with the property's wording on every date *)
Lemma align_spec_ok s e ps d : tiles s e ps -> align_list ps d = align_spec ps d.
Proof.
  intros Ht. unfold align_spec. destruct ps as [|p0 ps0] eqn:Eps; [reflexivity|]. rewrite <- Eps in *.
  assert (Hs : p_start p0 = s) by (rewrite Eps in Ht; cbn in Ht; tauto).
  destruct (d <? p_start p0) eqn:E1.
  - rewrite (align_before s e ps d Ht ltac:(lia)). rewrite Eps. reflexivity.
  - destruct (Z_le_gt_dec d e) as [Hle|Hgt].
    + destruct (tiles_cover s e ps d Ht ltac:(lia)) as (p & Hin & Hp).
      rewrite (align_in_period s e ps p d Ht Hin Hp), (column_of_tiles s e ps d p Ht Hin Hp). reflexivity.
    + destruct (tiles_end_ge _ _ _ Ht) as [Hall _].
      rewrite (align_after ps e d Hall ltac:(lia)).
      clear - Hall Hgt. induction Hall as [|p ps Hp _ IH]; [reflexivity|].
      cbn. replace ((p_start p <=? d) && (d <=? p_end p)) with false by lia. exact IH.
Qed.

(* ------------------------------------------------------------ reflection of the spec *)

Lemma tiles_b_iff s e ps : tiles_b s e ps = true <-> tiles s e ps.
Proof.
  revert s. induction ps as [|p ps IH]; intros s; cbn [tiles tiles_b]; [split; [discriminate|tauto]|].
  rewrite !andb_true_iff, Z.eqb_eq, Z.leb_le.
  destruct ps as [|q ps]; [rewrite Z.eqb_eq; tauto|]. rewrite IH. tauto.
Qed.

(* ------------------------------------------------------------ sort.Search *)

Lemma bsearch_spec f : forall fuel i j,
  (forall a b, i <= a <= b -> b < j -> f a = true -> f b = true) ->
  i <= j -> j - i < 2 ^ Z.of_nat fuel ->
  let r := bsearch fuel f i j in
  i <= r <= j /\ (forall a, i <= a < r -> f a = false) /\ (r < j -> f r = true).
Proof.
  induction fuel as [|fu IH]; intros i j Hmono Hij Hf; cbn [bsearch].
  - cbn in Hf. assert (i = j) by lia. subst. cbn. repeat split; intros; lia.
  - destruct (i <? j) eqn:E; [|assert (i = j) by lia; subst; cbn; repeat split; intros; lia].
    assert (Hpow : 2 ^ Z.of_nat (S fu) = 2 * 2 ^ Z.of_nat fu).
    { rewrite Nat2Z.inj_succ, Z.pow_succ_r by lia. reflexivity. }
    set (h := (i + j) / 2). assert (Hh : i <= h < j) by (unfold h; lia).
    destruct (f h) eqn:Efh; cbn [negb].
    + destruct (IH i h) as (H1 & H2 & H3).
      * intros a b Ha Hb. apply Hmono; lia.
      * lia.
      * unfold h in *. lia.
      * cbv zeta. repeat split; try lia; [exact H2|].
        intros Hr. destruct (Z.eq_dec (bsearch fu f i h) h) as [->|Hne]; [exact Efh|apply H3; lia].
    + destruct (IH (h + 1) j) as (H1 & H2 & H3).
      * intros a b Ha Hb. apply Hmono; lia.
      * lia.
      * unfold h in *. lia.
      * cbv zeta. repeat split; try lia; [|exact H3].
        intros a Ha. destruct (Z_le_gt_dec a h) as [Hle|Hgt]; [|apply H2; lia].
        destruct (f a) eqn:Efa; [|reflexivity].
        rewrite (Hmono a h ltac:(lia) ltac:(lia) Efa) in Efh. discriminate.
Qed.

(* ------------------------------------------------------------ summary lemmas for Properties/C11.v *)

Lemma key_eqb_iff a b : key_eqb a b = true <-> a = b.
Proof.
  destruct a, b; unfold key_eqb; cbn [fst snd]. rewrite andb_true_iff, !Z.eqb_eq.
  split; [intros [-> ->]; reflexivity|intros H; inversion H; tauto].
Qed.

Lemma units_change_b_iff iv ps : units_change_b iv ps = true <-> units_change iv ps.
Proof.
  induction ps as [|p ps IH]; cbn [units_change units_change_b]; [tauto|].
  rewrite andb_true_iff, IH. destruct ps as [|q ps]; [tauto|].
  rewrite negb_true_iff. unfold same_unit_b, same_unit.
  rewrite <- (key_eqb_iff (unit_key iv (p_end p)) (unit_key iv (p_start q))).
  destruct (key_eqb _ _); intuition congruence.
Qed.

Theorem partition_unlimited s e iv :
  iv <> Once -> s <> 0 ->
  exists ps,
    new_partition (mkPeriod s e) iv 0 = POk (mkPartition (mkPeriod s e) iv ps) /\
    (e < s -> ps = []) /\
    (s <= e -> tiles s e ps) /\
    Forall (within_unit iv) ps /\
    units_change iv ps.
Proof.
  intros Hiv Hs. exists (full_periods s e iv).
  pose proof (full_periods_chain s e iv Hiv) as Hch.
  split; [apply new_partition_unlimited; assumption|].
  split; [eapply chain_empty; eauto|].
  split; [eapply chain_tiles; eauto|].
  split; [eapply chain_within; eauto|eapply chain_units_change; eauto].
Qed.

Theorem partition_last s e iv n :
  iv <> Once -> s <> 0 -> 0 < n ->
  exists full ps,
    new_partition (mkPeriod s e) iv 0 = POk (mkPartition (mkPeriod s e) iv full) /\
    new_partition (mkPeriod s e) iv n = POk (mkPartition (mkPeriod s e) iv ps) /\
    ps = lastn (Z.to_nat n) full /\
    (s <= e -> tiles (first_start ps s) e ps) /\
    Forall (within_unit iv) ps /\ units_change iv ps.
Proof.
  intros Hiv Hs Hn. exists (full_periods s e iv), (lastn (Z.to_nat n) (full_periods s e iv)).
  pose proof (full_periods_chain s e iv Hiv) as Hch.
  split; [apply new_partition_unlimited; assumption|].
  split; [apply new_partition_last; assumption|].
  split; [reflexivity|].
  split; [|split].
  - intros Hle. pose proof (chain_tiles _ _ _ _ Hch Hle) as Ht.
    pose proof (chain_nonempty _ _ _ _ Hch Hle) as Hne.
    unfold lastn. apply tiles_skipn; [exact Ht|].
    destruct (full_periods s e iv); [congruence|cbn [length]; lia].
  - unfold lastn. apply Forall_skipn. eapply chain_within; eauto.
  - unfold lastn. apply units_change_skipn. eapply chain_units_change; eauto.
Qed.

Theorem partition_once s e n :
  s <> 0 -> new_partition (mkPeriod s e) Once n = POk (mkPartition (mkPeriod s e) Once [mkPeriod s e]).
Proof. intros Hs. unfold new_partition. cbn [p_start]. destruct (s =? 0) eqn:E; [lia|reflexivity]. Qed.

Theorem partition_zero_start e iv n : new_partition (mkPeriod 0 e) iv n = PPanic.
Proof. reflexivity. Qed.

Lemma new_partition_span p iv n pt : new_partition p iv n = POk pt -> span pt = p /\ pt_interval pt = iv.
Proof.
  unfold new_partition. destruct (p_start p =? 0); [discriminate|].
  destruct iv; try (intros H; inversion H; subst; cbn; tauto).
  all: destruct (np_loop _ _ _ _ _ _ _); try discriminate; intros H; inversion H; subst; cbn; tauto.
Qed.

Theorem partition_contains_spec p iv n pt d :
  new_partition p iv n = POk pt -> (partition_contains pt d = true <-> p_start p <= d <= p_end p).
Proof.
  intros H. destruct (new_partition_span _ _ _ _ H) as [Hsp _].
  unfold partition_contains, period_contains. rewrite Hsp.
  rewrite andb_true_iff, !negb_true_iff. lia.
Qed.

(* every period list the model produces for a window with s <= e tiles [first shown start, e] *)
Lemma new_partition_tiles s e iv n pt :
  iv <> Once -> s <= e -> 0 <= n ->
  new_partition (mkPeriod s e) iv n = POk pt ->
  tiles (first_start (periods pt) s) e (periods pt) /\ s <= first_start (periods pt) s.
Proof.
  intros Hiv Hle Hn H.
  assert (Hs : s <> 0).
  { intros ->. cbn in H. discriminate. }
  pose proof (full_periods_chain s e iv Hiv) as Hch.
  pose proof (chain_tiles _ _ _ _ Hch Hle) as Ht.
  pose proof (chain_nonempty _ _ _ _ Hch Hle) as Hne.
  pose proof (chain_bounds _ _ _ _ Hch) as Hb.
  destruct (Z.eq_dec n 0) as [->|Hn0].
  - rewrite new_partition_unlimited in H by assumption. inversion H; subst; cbn [periods].
    destruct (full_periods s e iv) as [|p ps] eqn:E; [congruence|]. cbn [first_start].
    assert (p_start p = s) by (cbn in Ht; tauto). rewrite H0. split; [exact Ht|lia].
  - rewrite new_partition_last in H by (try assumption; lia). inversion H; subst; cbn [periods].
    unfold lastn. split.
    + apply tiles_skipn; [exact Ht|]. destruct (full_periods s e iv); [congruence|cbn [length]; lia].
    + pose proof (Forall_skipn _ _ (length (full_periods s e iv) - Z.to_nat n) Hb) as Hb2.
      destruct (skipn _ _) as [|p ps]; [cbn; lia|]. cbn [first_start]. inversion Hb2; subst. lia.
Qed.

Theorem align_correct s e iv n pt d :
  iv <> Once -> s <= e -> 0 <= n ->
  new_partition (mkPeriod s e) iv n = POk pt ->
  align pt d = align_spec (periods pt) d /\
  (e < d -> align pt d = None) /\
  (d <= e -> exists c, align pt d = Some c /\ d <= c <= e).
Proof.
  intros Hiv Hle Hn H.
  destruct (new_partition_tiles s e iv n pt Hiv Hle Hn H) as [Ht Hfs].
  unfold align. split; [eapply align_spec_ok; eauto|split].
  - intros Hd. destruct (tiles_end_ge _ _ _ Ht) as [Hall _]. eapply align_after; eauto.
  - intros Hd.
    destruct (tiles_end_ge _ _ _ Ht) as [Hall Hfe].
    destruct (Z_lt_ge_dec d (first_start (periods pt) s)) as [Hlt|Hge].
    + rewrite (align_before _ _ _ _ Ht Hlt).
      destruct (periods pt) as [|p ps] eqn:E; [cbn in Ht; tauto|]. cbn [hd_error option_map].
      exists (p_end p). split; [reflexivity|]. inversion Hall; subst.
      cbn [first_start tiles] in *. lia.
    + destruct (tiles_cover _ _ _ d Ht ltac:(lia)) as (p & Hin & Hp).
      rewrite (align_in_period _ _ _ p d Ht Hin Hp). exists (p_end p). split; [reflexivity|].
      rewrite Forall_forall in Hall. specialize (Hall p Hin). lia.
Qed.

Theorem align_once s e n pt d :
  new_partition (mkPeriod s e) Once n = POk pt ->
  align pt d = if d <=? e then Some e else None.
Proof.
  intros H. assert (Hs : s <> 0) by (intros ->; cbn in H; discriminate).
  rewrite partition_once in H by assumption. inversion H; subst. unfold align; cbn.
  destruct (e <? d) eqn:E1, (d <=? e) eqn:E2; try lia; reflexivity.
Qed.

Theorem align_expected s e iv n pt d :
  0 <= n -> new_partition (mkPeriod s e) iv n = POk pt ->
  align pt d = column_expected s e iv (periods pt) d.
Proof.
  intros Hn H. unfold column_expected.
  destruct (interval_eqb iv Once) eqn:Eiv.
  { destruct iv; try discriminate. eapply align_once; eauto. }
  assert (Hiv : iv <> Once) by (intros ->; discriminate).
  assert (Hs : s <> 0) by (intros ->; cbn in H; discriminate).
  assert (Hg : align pt d = if e <? s then None else align_spec (periods pt) d).
  2: { destruct iv; try exact Hg. congruence. }
  destruct (e <? s) eqn:Ees.
  - pose proof (full_periods_chain s e iv Hiv) as Hch.
    pose proof (chain_empty _ _ _ _ Hch ltac:(lia)) as Hnil.
    destruct (Z.eq_dec n 0) as [->|Hn0].
    + rewrite new_partition_unlimited in H by assumption. inversion H; subst. unfold align; cbn. rewrite Hnil. reflexivity.
    + rewrite new_partition_last in H by (try assumption; lia). inversion H; subst. unfold align; cbn.
      rewrite Hnil. unfold lastn. rewrite skipn_nil. reflexivity.
  - apply (align_correct s e iv n pt d Hiv ltac:(lia) Hn H).
Qed.

(* the executable specification used on the implementation's output accepts the model's output *)
Lemma within_unit_b_of iv p : p_start p <= p_end p -> within_unit iv p -> within_unit_b iv p = true.
Proof.
  intros Hle H. unfold within_unit_b, same_unit_b. apply key_eqb_iff. apply H; lia.
Qed.

Lemma length_lastn {A} n (l : list A) : length (lastn n l) = Nat.min n (length l).
Proof. unfold lastn. rewrite skipn_length. lia. Qed.

Theorem model_meets_spec s e iv n pt :
  0 <= n -> new_partition (mkPeriod s e) iv n = POk pt ->
  is_partition_b s e iv n (periods pt) = true.
Proof.
  intros Hn H.
  assert (Hs : s <> 0) by (intros ->; cbn in H; discriminate).
  destruct (interval_eqb iv Once) eqn:Eiv.
  { destruct iv; try discriminate. rewrite partition_once in H by assumption.
    inversion H; subst. cbn. rewrite !Z.eqb_refl. reflexivity. }
  assert (Hiv : iv <> Once) by (intros ->; discriminate).
  assert (Hgoal :
    (if e <? s then match periods pt with [] => true | _ => false end
     else tiles_b (first_start (periods pt) s) e (periods pt)
          && forallb (within_unit_b iv) (periods pt)
          && units_change_b iv (periods pt)
          && (if 0 <? n
              then (Z.of_nat (length (periods pt)) <=? n)
                   && ((Z.of_nat (length (periods pt)) =? n) || (first_start (periods pt) s =? s))
              else first_start (periods pt) s =? s)
          && (s <=? first_start (periods pt) s)) = true).
  2: { unfold is_partition_b. destruct iv; try exact Hgoal. congruence. }
  pose proof (full_periods_chain s e iv Hiv) as Hch.
  destruct (e <? s) eqn:Ees.
  - pose proof (chain_empty _ _ _ _ Hch ltac:(lia)) as Hnil.
    destruct (Z.eq_dec n 0) as [->|Hn0].
    + rewrite new_partition_unlimited in H by assumption. inversion H; subst; cbn. rewrite Hnil. reflexivity.
    + rewrite new_partition_last in H by (try assumption; lia). inversion H; subst; cbn.
      rewrite Hnil. unfold lastn. rewrite skipn_nil. reflexivity.
  - assert (Hle : s <= e) by lia.
    destruct (new_partition_tiles s e iv n pt Hiv Hle Hn H) as [Ht Hfs].
    pose proof (chain_bounds _ _ _ _ Hch) as Hb.
    pose proof (chain_within _ _ _ _ Hch) as Hw.
    pose proof (chain_units_change _ _ _ _ Hch) as Hu.
    pose proof (chain_tiles _ _ _ _ Hch Hle) as Htf.
    assert (Hfull_start : first_start (full_periods s e iv) s = s).
    { destruct (full_periods s e iv) as [|p ps]; [reflexivity|]. cbn in *. tauto. }
    rewrite !andb_true_iff. repeat split.
    + apply tiles_b_iff. exact Ht.
    + apply forallb_forall. intros p Hin.
      assert (Hin' : In p (full_periods s e iv)).
      { destruct (Z.eq_dec n 0) as [->|Hn0].
        - rewrite new_partition_unlimited in H by assumption. inversion H; subst; exact Hin.
        - rewrite new_partition_last in H by (try assumption; lia). inversion H; subst. cbn in Hin.
          unfold lastn in Hin. rewrite <- (firstn_skipn (length (full_periods s e iv) - Z.to_nat n)).
          apply in_or_app. right. exact Hin. }
      rewrite Forall_forall in Hb, Hw. apply within_unit_b_of; [apply (Hb p Hin')|apply (Hw p Hin')].
    + apply units_change_b_iff.
      destruct (Z.eq_dec n 0) as [->|Hn0].
      * rewrite new_partition_unlimited in H by assumption. inversion H; subst; exact Hu.
      * rewrite new_partition_last in H by (try assumption; lia). inversion H; subst. cbn.
        unfold lastn. apply units_change_skipn. exact Hu.
    + destruct (Z.eq_dec n 0) as [->|Hn0].
      * rewrite new_partition_unlimited in H by assumption. inversion H; subst; cbn [periods].
        cbn. rewrite Hfull_start. apply Z.eqb_refl.
      * rewrite new_partition_last in H by (try assumption; lia). inversion H; subst; cbn [periods].
        replace (0 <? n) with true by lia. rewrite length_lastn.
        rewrite andb_true_iff, orb_true_iff. split; [apply Z.leb_le; lia|].
        destruct (Nat.le_gt_cases (Z.to_nat n) (length (full_periods s e iv))) as [Hc|Hc].
        -- left. apply Z.eqb_eq. lia.
        -- right. rewrite lastn_all by lia. rewrite Hfull_start. apply Z.eqb_refl.
    + lia.
Qed.
