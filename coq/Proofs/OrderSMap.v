(* C05: insertion into the sorted association lists (Model/Price.v sm_put) commutes on distinct
   keys and overwrites on equal keys -- without any sortedness assumption on the map. *)
From Coq Require Import ZArith List Bool Lia.
From Knut Require Import Model.Str Model.Price Proofs.SMapProofs.
Import ListNotations.
Open Scope Z_scope.

Section SMapComm.
  Context {V : Type}.
  Implicit Types (m : smap V) (k : str) (v : V).

  Lemma sm_put_put_same m k v v' : sm_put (sm_put m k v) k v' = sm_put m k v'.
  Proof.
    induction m as [|[k0 v0] m IH]; cbn [sm_put].
    - rewrite str_cmp_refl. reflexivity.
    - destruct (str_cmp k k0) eqn:E; cbn [sm_put].
      + rewrite str_cmp_refl. reflexivity.
      + rewrite str_cmp_refl. reflexivity.
      + rewrite E, IH. reflexivity.
  Qed.

  Lemma str_cmp_gt_trans a b c : str_cmp a b = Gt -> str_cmp b c = Gt -> str_cmp a c = Gt.
  Proof.
    intros H1 H2. apply str_cmp_gt_lt in H1. apply str_cmp_gt_lt in H2.
    pose proof (str_cmp_lt_trans _ _ _ H2 H1) as H. rewrite (str_cmp_antisym c a), H. reflexivity.
  Qed.

  Lemma sm_put_comm m k1 v1 k2 v2 :
    k1 <> k2 -> sm_put (sm_put m k1 v1) k2 v2 = sm_put (sm_put m k2 v2) k1 v1.
  Proof.
    intros Hne.
    assert (N12 : str_cmp k1 k2 <> Eq) by (intros E; apply str_cmp_eq in E; contradiction).
    assert (A : str_cmp k2 k1 = CompOpp (str_cmp k1 k2)) by apply str_cmp_antisym.
    assert (T : forall a b c, str_cmp a b = Lt -> str_cmp c b = Gt -> str_cmp c a = Gt /\ str_cmp a c = Lt).
    { intros a b c H1 H2. apply str_cmp_gt_lt in H2. pose proof (str_cmp_lt_trans _ _ _ H1 H2) as H.
      split; [rewrite (str_cmp_antisym a c), H; reflexivity|exact H]. }
    induction m as [|[k0 v0] m IH]; cbn [sm_put].
    - destruct (str_cmp k1 k2) eqn:E12; [contradiction| |]; rewrite A; cbn [CompOpp]; reflexivity.
    - destruct (str_cmp k1 k0) eqn:E1, (str_cmp k2 k0) eqn:E2;
        try (apply str_cmp_eq in E1; subst k0); try (apply str_cmp_eq in E2; subst k0);
        try (destruct (T _ _ _ E1 E2) as [G1 G2]); try (destruct (T _ _ _ E2 E1) as [G1 G2]);
        (destruct (str_cmp k1 k2) eqn:E12; [contradiction| |]; cbn [CompOpp] in A); try congruence;
        repeat (cbn [sm_put CompOpp];
                repeat match goal with H : str_cmp _ _ = _ |- _ => rewrite H end;
                rewrite ?str_cmp_refl);
        try reflexivity; rewrite IH; reflexivity.
  Qed.
End SMapComm.
