(* C09 (a), part 4: the text of journal.Print is read back as the printed sequence with re-read
   quantities ([reparse_print_journal]): RoundTripFile.parse_woven on the woven form
   (PrintWeave.print_journal_woven) with the lexical facts of PrintLex.v, then ToModel on the
   meaning (PrintSem.sem_get_all_printed).  With the model-level normal form (PrintNormal.v) this
   gives the text-level statements of Properties/C09.v. *)
From Coq Require Import ZArith List Bool Lia Permutation.
From Knut Require Import Model.Bytes Model.Utf8 Model.UnicodeTables Model.Scanner Model.Parser Model.SynPrinter
     Spec.FormatSpec Model.SynRender.
From Knut Require Import Model.Str Model.Dec Model.Date Model.Account Model.Ledger Model.Journal Model.Check Model.Pipeline
     Model.Table Model.Report Model.JPrinter Model.Cli Model.ToModel.
From Knut Require Import Spec.PrintSpec.
From Knut Require Import Proofs.ScannerProofs Proofs.RoundTripBase Proofs.RoundTripLeaf Proofs.RoundTripInv Proofs.RoundTripRuns
     Proofs.RoundTripFile Proofs.RoundTripTop Proofs.OrderCmd
     Proofs.PrintProofs Proofs.PrintRegroup Proofs.PrintRequant Proofs.PrintNormal Proofs.PrintSem Proofs.PrintWeave Proofs.PrintLex.
Import ListNotations.
Open Scope bool_scope.
Open Scope Z_scope.

Theorem parse_print_journal D : Forall mdir_lex (printed_model_dirs D) ->
  exists f, parse_text uletter udigit (print_journal D) = ParseOk f /\
            sem (print_journal D) f = map sem_of_mdir (printed_model_dirs D).
Proof.
  intros HL. set (t := print_journal D). set (E := mk_env udec uletter udigit t).
  assert (Hfuel : (length (e_text E) < e_fuel E)%nat) by (cbn [E mk_env e_text e_fuel]; lia).
  destruct (parse_woven E eq_refl Hfuel utf8_decoder_ok utf8_decoder_local unicode_class_ok
              (padding_of (sort_days D)) [] (days_gaps (sort_days D))
              (map sem_of_mdir (printed_model_dirs D))
              (map (mdir_text (padding_of (sort_days D))) (printed_model_dirs D))) as (f & Hp & Hs & _).
  - apply FL_newline_gaps.
    + apply Forall_forall. intros x Hx. apply in_map_iff in Hx. destruct Hx as (d & <- & Hd).
      rewrite Forall_forall in HL. apply lex_mdir. now apply HL.
    + rewrite map_length. unfold printed_model_dirs. symmetry. apply days_gaps_length.
    + apply days_gaps_nl.
  - apply render_all_mdirs. eapply Forall_impl; [|exact HL]. intros d. apply rc_mdir.
  - apply print_journal_woven.
  - exists f. split; [exact Hp|exact Hs].
Qed.

(* gap (a) of Properties/C09.v *)
Theorem reparse_print_journal D : Forall mdir_lex (printed_model_dirs D) ->
  reparse (print_journal D) = MOk (reparsed_dirs D).
Proof.
  intros HL. destruct (parse_print_journal D HL) as (f & Hp & Hs).
  unfold reparse. rewrite Hp, to_model_sem, Hs.
  unfold reparsed_dirs, printed_dirs. apply sem_get_all_printed.
  eapply Forall_impl; [|exact HL]. intros d. apply printable_mdir.
Qed.

(* ------------------------------------------------------------------ the property, text level *)

(* what the parser guarantees of every journal it has read, stated on what the model layer makes
   of it (PrintLex.mdir_lex), and C04/C05's condition on account names *)
Definition lex_ok (ss : list sdirective) : Prop :=
  sd_syntactic ss /\ forall ds, parse_directives ss = MOk ds -> Forall mdir_lex ds.

Lemma printed_text l ss text :
  lex_ok ss -> printed (print_cmd l) ss text ->
  exists b, load ss = COk b /\ text = print_journal (b_days b) /\ reparse text = MOk (reparsed_dirs (b_days b)).
Proof.
  intros (Hs & HL) Hpr.
  destruct (accepted_loads l ss (printed_fixed_accepted l ss text Hpr)) as (ds & Hp).
  assert (Hl : load ss = COk (builder_of ds)) by (unfold load; now rewrite Hp).
  exists (builder_of ds). split; [exact Hl|].
  pose proof (print_cmd_text l ss text _ Hl Hpr) as Ht. split; [exact Ht|]. rewrite Ht.
  apply reparse_print_journal.
  eapply Permutation_Forall; [apply Permutation_sym, printed_model_dirs_perm|]. exact (HL ds Hp).
Qed.

(* C09_accepted and C09_idem: the printed text is read back, accepted, and printed again byte for byte *)
Theorem print_normal_form l ss text :
  lex_ok ss -> printed (print_cmd l) ss text -> normal_form (print_cmd l) l text.
Proof.
  intros HL Hpr. destruct (printed_text l ss text HL Hpr) as (b & Hl & _ & Hr).
  exists (reparsed_dirs (b_days b)). split; [exact Hr|]. split.
  - apply (accepted_reparsed l ss b (proj1 HL) Hl). exact (printed_fixed_accepted l ss text Hpr).
  - exact (print_reparsed_dirs l ss b text (proj1 HL) Hl Hpr).
Qed.

(* C09_same_reports, as far as it is proved: the text is read back as the re-quantised form of a
   permutation of the denoted directives whose reports are the journal's *)
Theorem print_same_reports_upto_requant l ss text :
  lex_ok ss -> no_conflicting_prices ss -> printed (print_cmd l) ss text ->
  exists ss1, reparse text = MOk (map rq_sdir ss1) /\ Permutation ss1 (denote ss) /\
    (forall cfg, ceq eq (balance_csv cfg ss1) (balance_csv cfg ss)) /\
    (forall cfg tc, ceq eq (balance_text cfg tc ss1) (balance_text cfg tc ss)).
Proof.
  intros HL Hn Hpr. destruct (printed_text l ss text HL Hpr) as (b & Hl & _ & Hr).
  exists (printed_dirs (b_days b)). split; [exact Hr|].
  destruct (load_days ss b Hl) as (ds & Hp & ->).
  split; [exact (printed_dirs_perm ss ds Hp)|].
  apply (reports_printed_dirs ss (builder_of ds) (proj1 HL) Hn Hl).
Qed.
