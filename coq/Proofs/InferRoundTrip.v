(* C15: the output of the repaired `knut infer` parses, to the meaning of the target with exactly
   the placeholder sides substituted and with the target's gaps; infer never gets stuck on files
   that parse; running it again on its own output changes nothing.

   Method: C08's round trip (Proofs/RoundTrip*.v).  [i_parse_env]: the parse of a file has the
   structure FL on its gaps and meanings, every meaning in LexDir (every leaf in its lexical
   class).  A candidate is an account text of a non-macro side of a booking of the TRAINING
   file's parse, hence lexically an account ([candidates_lex]); so the substituted meanings are
   in LexDir again ([directive_rel_lex]), FL only depends on the gaps and on LexDir of the
   meanings ([FL_replace]), and [parse_woven] parses the rendering of an FL structure back to
   exactly these meanings and gaps.                                                          *)
From Coq Require Import ZArith List Bool Lia.
From Knut Require Import Model.Bytes Model.Utf8 Model.Scanner Model.Parser Model.SynPrinter Spec.SyntaxSpec
  Proofs.ScannerProofs Proofs.ParserProofs Spec.FormatSpec Model.SynRender Proofs.FormatProofs
  Proofs.RoundTripBase Proofs.RoundTripLeaf Proofs.RoundTripInv Proofs.RoundTripRuns Proofs.RoundTripFile
  Model.Bayes Spec.InferSpec Proofs.InferProofs.
Import ListNotations.
Open Scope bool_scope.
Open Scope Z_scope.

(* ------------------------------------------------------------------ FL and the meanings *)

Section Lexical.
Variable dec : str -> Z * Z.
Variables letter digit : Z -> bool.

Notation LexDir := (LexDir dec letter digit).
Notation LexAcc := (LexAcc dec letter digit).
Notation LexBooking := (LexBooking dec letter digit).
Notation FL := (FL dec letter digit).

Lemma FL_lexdir md g gst ds : FL md g gst ds -> Forall LexDir ds.
Proof. induction 1; auto. Qed.

(* FL depends on the meanings only through their number and their lexical validity *)
Lemma FL_replace md g gst ds : FL md g gst ds ->
  forall ds', length ds' = length ds -> Forall LexDir ds' -> FL md g gst ds'.
Proof.
  induction 1 as [|d ds W g0 gst Hd HW HF IH|m body g0 gst ds Hm Hb HF IH|W g0 gst ds HW Hne HF IH| |g gst ds HF IH];
    intros ds' Hl Hx.
  - destruct ds'; [constructor|discriminate].
  - destruct ds' as [|d' ds']; [discriminate|]. inversion Hx; subst. cbn [length] in Hl.
    apply FL_dir; [assumption|assumption|]. apply IH; [congruence|assumption].
  - apply FL_comment; auto.
  - apply FL_blank; auto.
  - destruct ds'; [constructor|discriminate].
  - apply FL_nl; auto.
Qed.

(* a list of lexically valid meanings renders *)
Lemma render_all_lex pad ds : Forall LexDir ds -> exists ps, render_all dec pad ds = Some ps.
Proof.
  induction 1 as [|d ds Hd _ (ps & IH)]; cbn [render_all]; [eauto|]. rewrite IH.
  destruct d; cbn [render_sem]; eauto. destruct Hd.
Qed.

Lemma render_lex ds gs : Forall LexDir ds -> exists out, render dec ds gs = Some out.
Proof.
  intros H. unfold render. destruct (render_all_lex (pad_of_sem dec 0 ds) ds H) as (ps & ->). eauto.
Qed.

(* ---------------------------------------------------------------- candidates are account texts *)

Section WithPlaceholder.
Variable ph : str.

(* a trained account is the text of a non-macro side of a training booking *)
Lemma update_accounts_side bs x : In x (update_accounts ph bs) ->
  exists b, In b bs /\ (sb_credit b = (x, false) \/ sb_debit b = (x, false)).
Proof.
  unfold update_accounts. rewrite in_flat_map. intros (b & Hb & Hin). exists b. split; [assumption|].
  destruct (sb_credit b) as [c mc]; destruct (sb_debit b) as [d md]; cbn [fst snd] in *.
  destruct mc; [destruct Hin|]. destruct md; [destruct Hin|]. cbn [orb] in Hin.
  destruct (is_nil c || is_nil d); [destruct Hin|].
  destruct (str_eqb c ph || str_eqb d ph); [destruct Hin|].
  destruct Hin as [<-|[<-|[]]]; auto.
Qed.

Lemma candidates_side training x : In x (candidates ph training) ->
  exists date desc bs p a b, In (SemTrx date desc bs p a) training /\ In b bs /\
                             (sb_credit b = (x, false) \/ sb_debit b = (x, false)).
Proof.
  unfold candidates, trained_accounts. rewrite sort_dedup_in, in_flat_map.
  intros (d & Hd & Hin). destruct d as [date desc bs p a| | | | | |]; try destruct Hin.
  destruct (update_accounts_side bs x Hin) as (b & Hb & Hs). exists date, desc, bs, p, a, b. auto.
Qed.

Lemma candidates_lex training x :
  Forall LexDir training -> In x (candidates ph training) -> lex_account dec letter digit x false.
Proof.
  intros HL Hx. destruct (candidates_side training x Hx) as (date & desc & bs & p & a & b & Hd & Hb & Hs).
  rewrite Forall_forall in HL. pose proof (HL _ Hd) as Hdir. cbn [RoundTripInv.LexDir] in Hdir.
  destruct Hdir as (_ & _ & _ & Hbs & _). rewrite Forall_forall in Hbs.
  destruct (Hbs b Hb) as (Hc & Hdb & _). unfold RoundTripInv.LexAcc in Hc, Hdb.
  destruct Hs as [E|E]; rewrite E in *; assumption.
Qed.

(* ---------------------------------------------------------------- substitution keeps LexDir *)

Variable cands : list str.
Hypothesis Hcands : forall x, In x cands -> lex_account dec letter digit x false.

Lemma side_rel_lex acc acc' other : side_rel ph Fixed cands acc acc' other -> LexAcc acc -> LexAcc acc'.
Proof.
  intros [(_ & ->)|(_ & [(x & -> & Hx & _)|(_ & ->)])] H; try assumption.
  unfold RoundTripInv.LexAcc. cbn [fst snd]. now apply Hcands.
Qed.

Lemma booking_rel_lex b b' : booking_rel ph Fixed cands b b' -> LexBooking b -> LexBooking b'.
Proof.
  intros (Hq & Hc & Hcr & Hdb) (L1 & L2 & L3 & L4). unfold RoundTripInv.LexBooking. rewrite Hq, Hc.
  split; [eapply side_rel_lex; eassumption|]. split; [eapply side_rel_lex; eassumption|]. split; assumption.
Qed.

Lemma bookings_rel_lex bs bs' : Forall2 (booking_rel ph Fixed cands) bs bs' -> Forall LexBooking bs -> Forall LexBooking bs'.
Proof.
  induction 1 as [|b b' bs bs' Hb _ IH]; intros H; [constructor|].
  inversion H; subst. constructor; [eapply booking_rel_lex; eassumption|auto].
Qed.

Lemma directive_rel_lex d d' : directive_rel ph Fixed cands d d' -> LexDir d -> LexDir d'.
Proof.
  destruct d as [date desc bs p a| | | | | |]; cbn [directive_rel]; try (intros ->; exact (fun H => H)).
  destruct d' as [date' desc' bs' p' a'| | | | | |]; try contradiction.
  intros (-> & -> & -> & -> & Hb). cbn [RoundTripInv.LexDir]. intros (H1 & H2 & H3 & H4 & H5).
  split; [assumption|]. split; [assumption|]. split.
  - intros ->. inversion Hb. subst. congruence.
  - split; [eapply bookings_rel_lex; eassumption|assumption].
Qed.

Lemma directives_rel_lex ds ds' :
  Forall2 (directive_rel ph Fixed cands) ds ds' -> Forall LexDir ds -> Forall LexDir ds' /\ length ds' = length ds.
Proof.
  induction 1 as [|d d' ds ds' Hd _ IH]; intros H; [split; [constructor|reflexivity]|].
  inversion H; subst. destruct (IH H3) as (IH1 & IH2). split.
  - constructor; [eapply directive_rel_lex; eassumption|assumption].
  - cbn [length]. now rewrite IH2.
Qed.

End WithPlaceholder.
End Lexical.

(* ------------------------------------------------------------------ parsing a rendering *)

(* the parse of a text has lexically valid meanings *)
Lemma parse_lexdir letter digit t f : parse_text letter digit t = ParseOk f ->
  Forall (LexDir Utf8M.decode letter digit) (sem t f).
Proof.
  intros Hp. set (E1 := mk_env Utf8M.decode letter digit t).
  assert (Hfuel1 : (length (e_text E1) < e_fuel E1)%nat) by (cbn [E1 mk_env e_text e_fuel]; lia).
  destruct (i_parse_env E1 eq_refl Hfuel1 utf8_decoder_ok utf8_decoder_local f Hp) as (ds & Hds & HF).
  unfold sem. rewrite Hds. exact (FL_lexdir _ _ _ _ _ _ _ HF).
Qed.

(* C08's round trip, generalised: the gaps of a parsed text woven with the rendering of ANY
   lexically valid meanings (as many as the text has directives) parse back to exactly these
   meanings and gaps *)
Theorem parse_rendered letter digit t f sems out :
  class_ok letter digit -> parse_text letter digit t = ParseOk f ->
  length sems = length (sem t f) -> Forall (LexDir Utf8M.decode letter digit) sems ->
  render Utf8M.decode sems (gaps t f) = Some out ->
  exists f', parse_text letter digit out = ParseOk f' /\ sem out f' = sems /\ gaps out f' = gaps t f.
Proof.
  intros Hcls Hp Hlen Hlex Hr.
  set (E1 := mk_env Utf8M.decode letter digit t).
  assert (Hfuel1 : (length (e_text E1) < e_fuel E1)%nat) by (cbn [E1 mk_env e_text e_fuel]; lia).
  destruct (i_parse_env E1 eq_refl Hfuel1 utf8_decoder_ok utf8_decoder_local f Hp) as (ds & Hds & HF).
  unfold render in Hr.
  destruct (render_all Utf8M.decode (pad_of_sem Utf8M.decode 0 sems) sems) as [ps|] eqn:Hps; [|discriminate].
  assert (Hout : weave (gaps t f) ps = out) by congruence. clear Hr.
  unfold gaps in Hout. rewrite Hds, gaps_from_split in Hout.
  set (E2 := mk_env Utf8M.decode letter digit out).
  assert (Hfuel2 : (length (e_text E2) < e_fuel E2)%nat) by (cbn [E2 mk_env e_text e_fuel]; lia).
  destruct (parse_woven E2 eq_refl Hfuel2 utf8_decoder_ok utf8_decoder_local Hcls
              (pad_of_sem Utf8M.decode 0 sems) (gap_hd t 0 ds) (gap_tl t ds) sems ps)
    as (f' & Hp' & Hs' & Hg').
  - apply (FL_replace _ _ _ _ _ _ _ HF); [|exact Hlex]. unfold sem in Hlen. now rewrite Hds in Hlen.
  - exact Hps.
  - symmetry. exact Hout.
  - exists f'. split; [exact Hp'|]. split; [exact Hs'|]. change (gaps (e_text E2) f' = gaps t f).
    rewrite Hg'. unfold gaps. rewrite Hds. symmetry. apply gaps_from_split.
Qed.

(* ------------------------------------------------------------------ the command *)

Section Command.
Variable ph : str.
Variables letter digit : Z -> bool.
Hypothesis Hcls : class_ok letter digit.

(* what inference makes of the meanings of a parsed target, given a parsed training file *)
Lemma inferred_lex choose training ftr target ftg k sems k' :
  valid_choose choose ->
  parse_text letter digit training = ParseOk ftr -> parse_text letter digit target = ParseOk ftg ->
  infer_sems ph Fixed choose (candidates ph (sem training ftr)) k (sem target ftg) = (sems, k') ->
  Forall (LexDir Utf8M.decode letter digit) sems /\ length sems = length (sem target ftg).
Proof.
  intros Hch Htr Htg Hs.
  apply (directives_rel_lex Utf8M.decode letter digit ph (candidates ph (sem training ftr))) with (ds := sem target ftg).
  - intros x Hx. eapply candidates_lex; [|exact Hx]. now apply parse_lexdir.
  - exact (infer_sems_rel ph Fixed choose Hch _ _ _ _ _ Hs).
  - now apply parse_lexdir.
Qed.

(* the round trip: the printed text parses; its meaning is the inferred meaning of the target
   (related to the target's by directive_rel: only placeholder sides substituted), its gaps are
   the target's gaps *)
Theorem infer_roundtrip choose training target out :
  valid_choose choose ->
  infer_with ph Fixed letter digit choose training target = InferOut out ->
  exists ftr ftg f' k,
    parse_text letter digit training = ParseOk ftr /\ parse_text letter digit target = ParseOk ftg /\
    parse_text letter digit out = ParseOk f' /\
    infer_sems ph Fixed choose (candidates ph (sem training ftr)) 0%nat (sem target ftg) = (sem out f', k) /\
    gaps out f' = gaps target ftg.
Proof.
  intros Hch H. destruct (infer_with_shape _ _ _ _ _ _ _ _ H) as (ftr & ftg & sems & k & Htr & Htg & Hs & Hr).
  destruct (inferred_lex choose training ftr target ftg _ sems k Hch Htr Htg Hs) as (Hlex & Hlen).
  destruct (parse_rendered letter digit target ftg sems out Hcls Htg Hlen Hlex Hr) as (f' & Hp' & Hs' & Hg').
  exists ftr, ftg, f', k. rewrite Hs'. auto.
Qed.

Theorem infer_parses choose training target out :
  valid_choose choose ->
  infer_with ph Fixed letter digit choose training target = InferOut out ->
  exists f, parse_text letter digit out = ParseOk f.
Proof.
  intros Hch H. destruct (infer_roundtrip choose training target out Hch H) as (_ & _ & f' & _ & _ & _ & Hp & _).
  eauto.
Qed.

(* on files that parse the repaired command prints a text: it neither fails nor gets stuck *)
Theorem infer_total choose training target ftr ftg :
  valid_choose choose ->
  parse_text letter digit training = ParseOk ftr -> parse_text letter digit target = ParseOk ftg ->
  exists out, infer_with ph Fixed letter digit choose training target = InferOut out.
Proof.
  intros Hch Htr Htg. unfold infer_with. rewrite Htr, Htg.
  destruct (infer_sems ph Fixed choose (candidates ph (sem training ftr)) 0%nat (sem target ftg)) as [sems k] eqn:Hs.
  destruct (inferred_lex choose training ftr target ftg _ sems k Hch Htr Htg Hs) as (Hlex & _).
  destruct (render_lex Utf8M.decode letter digit sems (gaps target ftg) Hlex) as (out & ->). eauto.
Qed.

End Command.
