(* C15: the output of the repaired `knut infer` parses, to the meaning of the target with exactly
   the placeholder sides substituted and with the target's gaps; infer never gets stuck on files
   that parse; running it again on its own output changes nothing.

   Method: C08's round trip (Proofs/RoundTrip*.v).  [i_parse_env]: the parse of a file has the
   structure FL on its gaps and meanings, every meaning in LexDir (every leaf in its lexical
   class).  A candidate is an account text of a non-macro side of a booking of the TRAINING
   file's parse, hence lexically an account ([candidates_lex]); so the substituted meanings are
   in LexDir again ([directive_rel_lex]), FL only depends on the gaps and on LexDir of the
   meanings ([FL_replace]), and [parse_woven] parses the rendering of an FL structure back to
   exactly these meanings and gaps.                                                          *)
From Coq Require Import ZArith List Bool Lia.
From Knut Require Import Model.Bytes Model.Utf8 Model.Scanner Model.Parser Model.SynPrinter Spec.SyntaxSpec
  Proofs.ScannerProofs Proofs.ParserProofs Spec.FormatSpec Model.SynRender Proofs.FormatProofs
  Proofs.RoundTripBase Proofs.RoundTripLeaf Proofs.RoundTripInv Proofs.RoundTripRuns Proofs.RoundTripFile
  Model.Bayes Spec.InferSpec Proofs.InferProofs.
Import ListNotations.
Open Scope bool_scope.
Open Scope Z_scope.

(* ------------------------------------------------------------------ FL and the meanings *)

Section Lexical.
Variable dec : str -> Z * Z.
Variables letter digit : Z -> bool.

Notation LexDir := (LexDir dec letter digit).
Notation LexAcc := (LexAcc dec letter digit).
Notation LexBooking := (LexBooking dec letter digit).
Notation FL := (FL dec letter digit).

Lemma FL_lexdir md g gst ds : FL md g gst ds -> Forall LexDir ds.
Proof. induction 1; auto. Qed.

(* FL depends on the meanings only through their number and their lexical validity *)
Lemma FL_replace md g gst ds : FL md g gst ds ->
  forall ds', length ds' = length ds -> Forall LexDir ds' -> FL md g gst ds'.
Proof.
  induction 1 as [|d ds W g0 gst Hd HW HF IH|m body g0 gst ds Hm Hb HF IH|W g0 gst ds HW Hne HF IH| |g gst ds HF IH];
    intros ds' Hl Hx.
  - destruct ds'; [constructor|discriminate].
  - destruct ds' as [|d' ds']; [discriminate|]. inversion Hx; subst. cbn [length] in Hl.
    apply FL_dir; [assumption|assumption|]. apply IH; [congruence|assumption].
  - apply FL_comment; auto.
  - apply FL_blank; auto.
  - destruct ds'; [constructor|discriminate].
  - apply FL_nl; auto.
Qed.

(* a list of lexically valid meanings renders *)
Lemma render_all_lex pad ds : Forall LexDir ds -> exists ps, render_all dec pad ds = Some ps.
Proof.
  induction 1 as [|d ds Hd _ (ps & IH)]; cbn [render_all]; [eauto|]. rewrite IH.
  destruct d; cbn [render_sem]; eauto. destruct Hd.
Qed.

Lemma render_lex ds gs : Forall LexDir ds -> exists out, render dec ds gs = Some out.
Proof.
  intros H. unfold render. destruct (render_all_lex (pad_of_sem dec 0 ds) ds H) as (ps & ->). eauto.
Qed.

(* ---------------------------------------------------------------- candidates are account texts *)

Section WithPlaceholder.
Variable ph : str.

(* a trained account is the text of a non-macro side of a training booking *)
Lemma update_accounts_side bs x : In x (update_accounts ph bs) ->
  exists b, In b bs /\ (sb_credit b = (x, false) \/ sb_debit b = (x, false)).
Proof.
  unfold update_accounts. rewrite in_flat_map. intros (b & Hb & Hin). exists b. split; [assumption|].
  destruct (sb_credit b) as [c mc]; destruct (sb_debit b) as [d md]; cbn [fst snd] in *.
  destruct mc; [destruct Hin|]. destruct md; [destruct Hin|]. cbn [orb] in Hin.
  destruct (is_nil c || is_nil d); [destruct Hin|].
  destruct (str_eqb c ph || str_eqb d ph); [destruct Hin|].
  destruct Hin as [<-|[<-|[]]]; auto.
Qed.

Lemma candidates_side training x : In x (candidates ph training) ->
  exists date desc bs p a b, In (SemTrx date desc bs p a) training /\ In b bs /\
                             (sb_credit b = (x, false) \/ sb_debit b = (x, false)).
Proof.
  unfold candidates, trained_accounts. rewrite sort_dedup_in, in_flat_map.
  intros (d & Hd & Hin). destruct d as [date desc bs p a| | | | | |]; try destruct Hin.
  destruct (update_accounts_side bs x Hin) as (b & Hb & Hs). exists date, desc, bs, p, a, b. auto.
Qed.

Lemma candidates_lex training x :
  Forall LexDir training -> In x (candidates ph training) -> lex_account dec letter digit x false.
Proof.
  intros HL Hx. destruct (candidates_side training x Hx) as (date & desc & bs & p & a & b & Hd & Hb & Hs).
  rewrite Forall_forall in HL. pose proof (HL _ Hd) as Hdir. cbn [RoundTripInv.LexDir] in Hdir.
  destruct Hdir as (_ & _ & _ & Hbs & _). rewrite Forall_forall in Hbs.
  destruct (Hbs b Hb) as (Hc & Hdb & _). unfold RoundTripInv.LexAcc in Hc, Hdb.
  destruct Hs as [E|E]; rewrite E in *; assumption.
Qed.

(* ---------------------------------------------------------------- substitution keeps LexDir *)

Variable cands : list str.
Hypothesis Hcands : forall x, In x cands -> lex_account dec letter digit x false.

Lemma side_rel_lex acc acc' other : side_rel ph Fixed cands acc acc' other -> LexAcc acc -> LexAcc acc'.
Proof.
  intros [(_ & ->)|(_ & [(x & -> & Hx & _)|(_ & ->)])] H; try assumption.
  unfold RoundTripInv.LexAcc. cbn [fst snd]. now apply Hcands.
Qed.

Lemma booking_rel_lex b b' : booking_rel ph Fixed cands b b' -> LexBooking b -> LexBooking b'.
Proof.
  intros (Hq & Hc & Hcr & Hdb) (L1 & L2 & L3 & L4). unfold RoundTripInv.LexBooking. rewrite Hq, Hc.
  split; [eapply side_rel_lex; eassumption|]. split; [eapply side_rel_lex; eassumption|]. split; assumption.
Qed.

Lemma bookings_rel_lex bs bs' : Forall2 (booking_rel ph Fixed cands) bs bs' -> Forall LexBooking bs -> Forall LexBooking bs'.
Proof.
  induction 1 as [|b b' bs bs' Hb _ IH]; intros H; [constructor|].
  inversion H; subst. constructor; [eapply booking_rel_lex; eassumption|auto].
Qed.

Lemma directive_rel_lex d d' : directive_rel ph Fixed cands d d' -> LexDir d -> LexDir d'.
Proof.
  destruct d as [date desc bs p a| | | | | |]; cbn [directive_rel]; try (intros ->; exact (fun H => H)).
  destruct d' as [date' desc' bs' p' a'| | | | | |]; try contradiction.
  intros (-> & -> & -> & -> & Hb). cbn [RoundTripInv.LexDir]. intros (H1 & H2 & H3 & H4 & H5).
  split; [assumption|]. split; [assumption|]. split.
  - intros ->. inversion Hb. subst. congruence.
  - split; [eapply bookings_rel_lex; eassumption|assumption].
Qed.

Lemma directives_rel_lex ds ds' :
  Forall2 (directive_rel ph Fixed cands) ds ds' -> Forall LexDir ds -> Forall LexDir ds' /\ length ds' = length ds.
Proof.
  induction 1 as [|d d' ds ds' Hd _ IH]; intros H; [split; [constructor|reflexivity]|].
  inversion H; subst. destruct (IH H3) as (IH1 & IH2). split.
  - constructor; [eapply directive_rel_lex; eassumption|assumption].
  - cbn [length]. now rewrite IH2.
Qed.

End WithPlaceholder.
End Lexical.

(* ------------------------------------------------------------------ parsing a rendering *)

(* the parse of a text has lexically valid meanings *)
Lemma parse_lexdir letter digit t f : parse_text letter digit t = ParseOk f ->
  Forall (LexDir Utf8M.decode letter digit) (sem t f).
Proof.
  intros Hp. set (E1 := mk_env Utf8M.decode letter digit t).
  assert (Hfuel1 : (length (e_text E1) < e_fuel E1)%nat) by (cbn [E1 mk_env e_text e_fuel]; lia).
  destruct (i_parse_env E1 eq_refl Hfuel1 utf8_decoder_ok utf8_decoder_local f Hp) as (ds & Hds & HF).
  unfold sem. rewrite Hds. exact (FL_lexdir _ _ _ _ _ _ _ HF).
Qed.

(* C08's round trip, generalised: the gaps of a parsed text woven with the rendering of ANY
   lexically valid meanings (as many as the text has directives) parse back to exactly these
   meanings and gaps *)
Theorem parse_rendered letter digit t f sems out :
  class_ok letter digit -> parse_text letter digit t = ParseOk f ->
  length sems = length (sem t f) -> Forall (LexDir Utf8M.decode letter digit) sems ->
  render Utf8M.decode sems (gaps t f) = Some out ->
  exists f', parse_text letter digit out = ParseOk f' /\ sem out f' = sems /\ gaps out f' = gaps t f.
Proof.
  intros Hcls Hp Hlen Hlex Hr.
  set (E1 := mk_env Utf8M.decode letter digit t).
  assert (Hfuel1 : (length (e_text E1) < e_fuel E1)%nat) by (cbn [E1 mk_env e_text e_fuel]; lia).
  destruct (i_parse_env E1 eq_refl Hfuel1 utf8_decoder_ok utf8_decoder_local f Hp) as (ds & Hds & HF).
  unfold render in Hr.
  destruct (render_all Utf8M.decode (pad_of_sem Utf8M.decode 0 sems) sems) as [ps|] eqn:Hps; [|discriminate].
  assert (Hout : weave (gaps t f) ps = out) by congruence. clear Hr.
  unfold gaps in Hout. rewrite Hds, gaps_from_split in Hout.
  set (E2 := mk_env Utf8M.decode letter digit out).
  assert (Hfuel2 : (length (e_text E2) < e_fuel E2)%nat) by (cbn [E2 mk_env e_text e_fuel]; lia).
  destruct (parse_woven E2 eq_refl Hfuel2 utf8_decoder_ok utf8_decoder_local Hcls
              (pad_of_sem Utf8M.decode 0 sems) (gap_hd t 0 ds) (gap_tl t ds) sems ps)
    as (f' & Hp' & Hs' & Hg').
  - apply (FL_replace _ _ _ _ _ _ _ HF); [|exact Hlex]. unfold sem in Hlen. now rewrite Hds in Hlen.
  - exact Hps.
  - symmetry. exact Hout.
  - exists f'. split; [exact Hp'|]. split; [exact Hs'|]. change (gaps (e_text E2) f' = gaps t f).
    rewrite Hg'. unfold gaps. rewrite Hds. symmetry. apply gaps_from_split.
Qed.

(* ------------------------------------------------------------------ inferred meanings are stable *)

Lemma filter_all {A} (f : A -> bool) l : (forall x, In x l -> f x = true) -> filter f l = l.
Proof.
  induction l as [|x l IH]; intros H; cbn [filter]; [reflexivity|].
  rewrite (H x (or_introl eq_refl)), IH; [reflexivity|]. intros y Hy. apply H. now right.
Qed.

Section Stable.
Variable ph : str.
Variable cands : list str.
Hypothesis Hnph : ~ In ph cands.

(* a side on which inference has nothing to do: not the placeholder, or no candidate *)
Definition side_stable (acc : sem_account) (other : str) : Prop := fst acc = ph -> without other cands = [].
Definition booking_stable (b : sem_booking) : Prop :=
  side_stable (sb_credit b) (fst (sb_debit b)) /\ side_stable (sb_debit b) (fst (sb_credit b)).
Definition directive_stable (d : sem_directive) : Prop :=
  match d with SemTrx _ _ bs _ _ => Forall booking_stable bs | _ => True end.

Lemma without_ph : without ph cands = cands.
Proof.
  unfold without. apply filter_all. intros x Hx. apply negb_true_iff. apply ne_str_eqb. intros ->. contradiction.
Qed.

(* whatever the repaired inference returns is stable: a placeholder it left has no candidate,
   also with respect to the other side AS IT IS NOW *)
Lemma booking_rel_stable b b' : booking_rel ph Fixed cands b b' -> booking_stable b'.
Proof.
  intros (_ & _ & Hcr & Hdb). split.
  - intros Hph. destruct Hcr as [(Hne & Ec)|(Hc & [(x & Ec & Hx & _)|(Hw & Ec)])].
    + rewrite Ec in Hph. contradiction.
    + rewrite Ec in Hph. cbn [fst] in Hph. subst x. contradiction.
    + rewrite Ec in Hdb. destruct Hdb as [(_ & Ed)|(Hd & [(y & Ed & Hy & _)|(_ & Ed)])].
      * rewrite Ed. exact Hw.
      * rewrite Hd, without_ph in Hw. rewrite Hw in Hy. destruct Hy.
      * rewrite Ed. exact Hw.
  - intros Hph. destruct Hdb as [(Hne & Ed)|(Hd & [(y & Ed & Hy & _)|(Hw & Ed)])].
    + rewrite Ed in Hph. contradiction.
    + rewrite Ed in Hph. cbn [fst] in Hph. subst y. contradiction.
    + exact Hw.
Qed.

Lemma directive_rel_stable d d' : directive_rel ph Fixed cands d d' -> directive_stable d'.
Proof.
  destruct d as [date desc bs p a| | | | | |]; cbn [directive_rel]; try (intros ->; exact I).
  destruct d' as [date' desc' bs' p' a'| | | | | |]; try contradiction.
  intros (_ & _ & _ & _ & Hb). cbn [directive_stable].
  induction Hb as [|b b' bs bs' Hbb _ IH]; constructor; [eapply booking_rel_stable; eassumption|assumption].
Qed.

Lemma directives_rel_stable ds ds' : Forall2 (directive_rel ph Fixed cands) ds ds' -> Forall directive_stable ds'.
Proof. induction 1; constructor; [eapply directive_rel_stable; eassumption|assumption]. Qed.

(* inference leaves stable meanings as they are, for every valid choice function *)
Variable choose : nat -> list str -> option str.
Hypothesis Hch : valid_choose choose.

Lemma infer_side_stable k acc other : side_stable acc other ->
  exists k', infer_side ph Fixed choose cands k acc other = (acc, k').
Proof.
  unfold side_stable, infer_side. intros H. destruct (str_eqb (fst acc) ph) eqn:E; [|eauto].
  apply str_eqb_true in E. rewrite (H E). destruct (choose k []) as [x|] eqn:Hc; [|eauto].
  apply (proj1 Hch) in Hc. destruct Hc.
Qed.

Lemma infer_booking_stable k b : booking_stable b -> exists k', infer_booking ph Fixed choose cands k b = (b, k').
Proof.
  intros (Hc & Hd). unfold infer_booking.
  destruct (infer_side_stable k _ _ Hc) as (k1 & ->). cbv beta iota. cbn [fst].
  destruct (infer_side_stable k1 _ _ Hd) as (k2 & ->). exists k2. destruct b; reflexivity.
Qed.

Lemma infer_bookings_stable : forall bs k, Forall booking_stable bs ->
  exists k', infer_bookings ph Fixed choose cands k bs = (bs, k').
Proof.
  induction bs as [|b bs IH]; intros k H; cbn [infer_bookings]; [eauto|].
  inversion H as [|? ? Hb Hr]; subst. destruct (infer_booking_stable k b Hb) as (k1 & ->).
  destruct (IH k1 Hr) as (k2 & ->). eauto.
Qed.

Lemma infer_sems_stable : forall ds k, Forall directive_stable ds ->
  exists k', infer_sems ph Fixed choose cands k ds = (ds, k').
Proof.
  induction ds as [|d ds IH]; intros k H; cbn [infer_sems]; [eauto|].
  inversion H as [|? ? Hd Hr]; subst.
  destruct d as [date desc bs p a| | | | | |]; try (destruct (IH k Hr) as (k2 & ->); eauto).
  cbn [directive_stable] in Hd. destruct (infer_bookings_stable bs k Hd) as (k1 & ->).
  destruct (IH k1 Hr) as (k2 & ->). eauto.
Qed.

End Stable.

(* ------------------------------------------------------------------ the command *)

Section Command.
Variable ph : str.
Variables letter digit : Z -> bool.
Hypothesis Hcls : class_ok letter digit.

(* what inference makes of the meanings of a parsed target, given a parsed training file *)
Lemma inferred_lex choose training ftr target ftg k sems k' :
  valid_choose choose ->
  parse_text letter digit training = ParseOk ftr -> parse_text letter digit target = ParseOk ftg ->
  infer_sems ph Fixed choose (candidates ph (sem training ftr)) k (sem target ftg) = (sems, k') ->
  Forall (LexDir Utf8M.decode letter digit) sems /\ length sems = length (sem target ftg).
Proof.
  intros Hch Htr Htg Hs.
  apply (directives_rel_lex Utf8M.decode letter digit ph (candidates ph (sem training ftr))) with (ds := sem target ftg).
  - intros x Hx. eapply candidates_lex; [|exact Hx]. now apply parse_lexdir.
  - exact (infer_sems_rel ph Fixed choose Hch _ _ _ _ _ Hs).
  - now apply parse_lexdir.
Qed.

(* the round trip: the printed text parses; its meaning is the inferred meaning of the target
   (related to the target's by directive_rel: only placeholder sides substituted), its gaps are
   the target's gaps; and it is in formatted form (formatting it changes nothing) *)
Theorem infer_roundtrip choose training target out :
  valid_choose choose ->
  infer_with ph Fixed letter digit choose training target = InferOut out ->
  exists ftr ftg f' k,
    parse_text letter digit training = ParseOk ftr /\ parse_text letter digit target = ParseOk ftg /\
    parse_text letter digit out = ParseOk f' /\
    infer_sems ph Fixed choose (candidates ph (sem training ftr)) 0%nat (sem target ftg) = (sem out f', k) /\
    gaps out f' = gaps target ftg /\
    format_text letter digit out f' = FOk out.
Proof.
  intros Hch H. destruct (infer_with_shape _ _ _ _ _ _ _ _ H) as (ftr & ftg & sems & k & Htr & Htg & Hs & Hr).
  destruct (inferred_lex choose training ftr target ftg _ sems k Hch Htr Htg Hs) as (Hlex & Hlen).
  destruct (parse_rendered letter digit target ftg sems out Hcls Htg Hlen Hlex Hr) as (f' & Hp' & Hs' & Hg').
  exists ftr, ftg, f', k. rewrite Hs'. repeat (split; [assumption|]).
  destruct (format_parsed _ _ _ _ Hp') as (o' & Ho'). rewrite Ho'. f_equal.
  pose proof (format_text_render _ _ _ _ _ Ho') as Hr'. rewrite Hs', Hg' in Hr'. congruence.
Qed.

Theorem infer_parses choose training target out :
  valid_choose choose ->
  infer_with ph Fixed letter digit choose training target = InferOut out ->
  exists f, parse_text letter digit out = ParseOk f.
Proof.
  intros Hch H. destruct (infer_roundtrip choose training target out Hch H) as (_ & _ & f' & _ & _ & _ & Hp & _).
  eauto.
Qed.

(* on files that parse the repaired command prints a text: it neither fails nor gets stuck *)
Theorem infer_total choose training target ftr ftg :
  valid_choose choose ->
  parse_text letter digit training = ParseOk ftr -> parse_text letter digit target = ParseOk ftg ->
  exists out, infer_with ph Fixed letter digit choose training target = InferOut out.
Proof.
  intros Hch Htr Htg. unfold infer_with. rewrite Htr, Htg.
  destruct (infer_sems ph Fixed choose (candidates ph (sem training ftr)) 0%nat (sem target ftg)) as [sems k] eqn:Hs.
  destruct (inferred_lex choose training ftr target ftg _ sems k Hch Htr Htg Hs) as (Hlex & _).
  destruct (render_lex Utf8M.decode letter digit sems (gaps target ftg) Hlex) as (out & ->). eauto.
Qed.

(* idempotence: running the repaired infer on its own output, with the same training file and
   ANY valid choice function, prints the same text again -- a placeholder the first run left
   has no candidate in the second run either *)
Theorem infer_idempotent choose choose' training target out :
  valid_choose choose -> valid_choose choose' ->
  infer_with ph Fixed letter digit choose training target = InferOut out ->
  infer_with ph Fixed letter digit choose' training out = InferOut out.
Proof.
  intros Hch Hch' H.
  destruct (infer_roundtrip choose training target out Hch H) as (ftr & ftg & f' & k & Htr & Htg & Hp' & Hs & Hg & Hf).
  pose proof (infer_sems_rel ph Fixed choose Hch _ _ _ _ _ Hs) as Hrel.
  pose proof (directives_rel_stable ph _ (candidates_not_ph ph (sem training ftr)) _ _ Hrel) as Hst.
  destruct (infer_sems_stable ph _ choose' Hch' (sem out f') 0%nat Hst) as (k' & Hs').
  unfold infer_with. rewrite Htr, Hp', Hs'. now rewrite (format_text_render _ _ _ _ _ Hf).
Qed.

(* "the result is, apart from those account names and the column alignment they imply,
   identical to the formatted input", at full strength: on files that parse, the repaired
   command prints a text [out], `knut format` prints a text [fmt] for the target; both parse, to
   THE SAME GAPS (all text outside directives, byte for byte) and to meanings that are related
   one by one by directive_rel (only placeholder sides differ); both are the rendering of their
   meaning and these gaps by the same function, and both are in formatted form. *)
Theorem infer_rest_is_format choose training target ftr ftg :
  valid_choose choose ->
  parse_text letter digit training = ParseOk ftr -> parse_text letter digit target = ParseOk ftg ->
  exists out fmt f' ff,
    infer_with ph Fixed letter digit choose training target = InferOut out /\
    format_text letter digit target ftg = FOk fmt /\
    parse_text letter digit out = ParseOk f' /\ parse_text letter digit fmt = ParseOk ff /\
    sem fmt ff = sem target ftg /\
    Forall2 (directive_rel ph Fixed (candidates ph (sem training ftr))) (sem target ftg) (sem out f') /\
    gaps out f' = gaps target ftg /\ gaps fmt ff = gaps target ftg /\
    render Utf8M.decode (sem out f') (gaps target ftg) = Some out /\
    render Utf8M.decode (sem target ftg) (gaps target ftg) = Some fmt /\
    format_text letter digit out f' = FOk out /\ format_text letter digit fmt ff = FOk fmt.
Proof.
  intros Hch Htr Htg. destruct (infer_total choose training target ftr ftg Hch Htr Htg) as (out & Ho).
  destruct (format_parsed _ _ _ _ Htg) as (fmt & Hfmt).
  destruct (infer_roundtrip choose training target out Hch Ho) as (ftr' & ftg' & f' & k & Htr' & Htg' & Hp' & Hs & Hg & Hf).
  assert (ftr' = ftr) by congruence. assert (ftg' = ftg) by congruence. subst ftr' ftg'.
  destruct (roundtrip letter digit target ftg fmt Hcls Htg Hfmt) as (ff & Hpf & Hsf & Hgf).
  exists out, fmt, f', ff. repeat (split; [assumption|]).
  split; [exact (infer_sems_rel ph Fixed choose Hch _ _ _ _ _ Hs)|]. split; [assumption|]. split; [assumption|].
  split; [rewrite <- Hg; exact (format_text_render _ _ _ _ _ Hf)|].
  split; [exact (format_text_render _ _ _ _ _ Hfmt)|]. split; [assumption|].
  exact (idem_of_roundtrip letter digit target ftg fmt ff Htg Hfmt Hpf Hsf Hgf).
Qed.

End Command.
