(* C05: Query.Into over equivalent day lists gives report trees that are equal up to the order of
   each node's amounts list (an association list in first-insertion order). *)
From Coq Require Import ZArith List Bool Lia Permutation.
From Knut Require Import Model.Str Model.Dec Model.Date Model.Account Model.Ledger Model.Price Model.Journal
     Model.Check Model.Pipeline Model.Table Model.Report Proofs.DecProofs Proofs.SMapProofs Proofs.ReportSum
     Proofs.Conservation Proofs.CheckPerm Proofs.OrderProofs Proofs.OrderStages.
Import ListNotations.
Open Scope bool_scope.
Open Scope Z_scope.

(* ------------------------------------------------------------------ amounts *)

Lemma rkey_eqb_false a b : rkey_eqb a b = false <-> a <> b.
Proof.
  split.
  - intros H E. apply rkey_eqb_eq in E. congruence.
  - intros H. destruct (rkey_eqb a b) eqn:E; [|reflexivity]. apply rkey_eqb_eq in E. contradiction.
Qed.

Lemma ra_get_add a k v k' :
  ra_get (ra_add a k v) k' = if rkey_eqb k' k then Some (add (ra_get0 a k) v) else ra_get a k'.
Proof.
  induction a as [|[k0 v0] m IH]; cbn [ra_add ra_get].
  - unfold ra_get0. cbn [ra_get]. reflexivity.
  - destruct (rkey_eqb k k0) eqn:E; cbn [ra_get].
    + apply rkey_eqb_eq in E. subst k0. unfold ra_get0. cbn [ra_get]. rewrite rkey_eqb_refl.
      destruct (rkey_eqb k' k); reflexivity.
    + rewrite IH. unfold ra_get0. cbn [ra_get]. rewrite E.
      destruct (rkey_eqb k' k0) eqn:E0, (rkey_eqb k' k) eqn:E1; try reflexivity.
      apply rkey_eqb_eq in E0. apply rkey_eqb_eq in E1. subst. rewrite rkey_eqb_refl in E. discriminate.
Qed.

Lemma ra_get0_add a k v k' :
  ra_get0 (ra_add a k v) k' = if rkey_eqb k' k then add (ra_get0 a k) v else ra_get0 a k'.
Proof. unfold ra_get0 at 1. rewrite ra_get_add. destruct (rkey_eqb k' k); reflexivity. Qed.

(* the same bindings, whatever the order *)
Definition ra_eqv (a b : ramounts) : Prop :=
  ra_unique a /\ ra_unique b /\ forall k, ra_get a k = ra_get b k.

Lemma ra_eqv_refl a : ra_unique a -> ra_eqv a a.
Proof. intros H. repeat split; assumption. Qed.

Lemma ra_eqv_trans a b c : ra_eqv a b -> ra_eqv b c -> ra_eqv a c.
Proof. intros (A1 & A2 & A3) (B1 & B2 & B3). repeat split; try assumption. intros k. rewrite A3. apply B3. Qed.

Lemma ra_eqv_get0 a b k : ra_eqv a b -> ra_get0 a k = ra_get0 b k.
Proof. intros (_ & _ & H). unfold ra_get0. rewrite H. reflexivity. Qed.

Lemma ra_add_resp a b k v : ra_eqv a b -> ra_eqv (ra_add a k v) (ra_add b k v).
Proof.
  intros H. pose proof H as (A1 & A2 & A3). repeat split; try (apply ra_add_unique; assumption).
  intros k'. rewrite !ra_get_add, (ra_eqv_get0 a b k H), A3. reflexivity.
Qed.

Lemma ra_add_comm a k v k' v' :
  ra_unique a -> ra_eqv (ra_add (ra_add a k v) k' v') (ra_add (ra_add a k' v') k v).
Proof.
  intros H. repeat split; try (apply ra_add_unique, ra_add_unique; assumption).
  intros x. rewrite !ra_get_add, !ra_get0_add, ?rkey_eqb_refl.
  destruct (rkey_eqb k' k) eqn:E.
  - apply rkey_eqb_eq in E. subst k'. rewrite rkey_eqb_refl.
    destruct (rkey_eqb x k); [|reflexivity]. f_equal. rewrite !add_assoc. f_equal. apply add_comm.
  - assert (E' : rkey_eqb k k' = false).
    { apply rkey_eqb_false. apply rkey_eqb_false in E. congruence. }
    rewrite E'. destruct (rkey_eqb x k') eqn:E1, (rkey_eqb x k) eqn:E2; try reflexivity.
    apply rkey_eqb_eq in E1. apply rkey_eqb_eq in E2. subst. rewrite rkey_eqb_refl in E. discriminate.
Qed.

(* ------------------------------------------------------------------ trees *)

Inductive node_eq : node -> node -> Prop :=
| NodeEq s p hv a a' ch ch' :
    ra_eqv a a' -> Forall2 node_eq ch ch' -> node_eq (Node s p hv a ch) (Node s p hv a' ch').

Lemma node_eq_seg n n' : node_eq n n' -> n_seg n = n_seg n'.
Proof. intros H. inversion H; reflexivity. Qed.

Lemma Forall2_trans_in {A} (R : A -> A -> Prop) l1 : forall l2 l3,
  Forall (fun x => forall y z, R x y -> R y z -> R x z) l1 ->
  Forall2 R l1 l2 -> Forall2 R l2 l3 -> Forall2 R l1 l3.
Proof.
  induction l1 as [|x l1 IH]; intros l2 l3 HT H12 H23; inversion H12; subst; inversion H23; subst; constructor.
  - inversion HT; subst. eauto.
  - inversion HT; subst. eapply IH; eassumption.
Qed.

Lemma node_eq_trans a : forall b c, node_eq a b -> node_eq b c -> node_eq a c.
Proof.
  induction a as [s p hv am ch IH] using node_ind_size. intros b c H1 H2.
  inversion H1; subst. inversion H2; subst. constructor.
  - eapply ra_eqv_trans; eassumption.
  - eapply Forall2_trans_in; eassumption.
Qed.

Lemma node_eq_left n n' : node_eq n n' -> node_eq n n.
Proof.
  revert n'. induction n as [s p hv am ch IH] using node_ind_size. intros n' H. inversion H as [? ? ? ? a' ? ch' Ha Hch]; subst.
  constructor; [apply ra_eqv_refl; apply Ha|].
  clear - IH Hch. revert ch' Hch. induction IH as [|c ch Hc _ IHch]; intros ch' Hch; inversion Hch; subst; constructor; eauto.
Qed.

Definition new_child (h : str) (path : account) : node := Node h path false [] [].

Lemma new_child_wf h path : node_eq (new_child h path) (new_child h path).
Proof. constructor; [apply ra_eqv_refl; constructor|constructor]. Qed.

Lemma children_insert_resp_gen rec h p l l' :
  (forall c c', node_eq c c' -> node_eq (rec c) (rec c')) ->
  Forall2 node_eq l l' -> Forall2 node_eq (children_insert rec h p l) (children_insert rec h p l').
Proof.
  intros resp. induction 1 as [|c c' l l' Hc Hl IH]; cbn [children_insert].
  - constructor; [apply resp, new_child_wf|constructor].
  - rewrite <- (node_eq_seg c c' Hc). destruct (str_cmp h (n_seg c)).
    + constructor; [apply resp; exact Hc|exact Hl].
    + constructor; [apply resp, new_child_wf|]. constructor; assumption.
    + constructor; assumption.
Qed.

Section ChildrenInsert.
  Variables (rec1 rec2 : node -> node) (h1 h2 : str) (p1 p2 : account).
  Hypothesis resp1 : forall c c', node_eq c c' -> node_eq (rec1 c) (rec1 c').
  Hypothesis resp2 : forall c c', node_eq c c' -> node_eq (rec2 c) (rec2 c').
  Hypothesis seg1 : forall c, n_seg (rec1 c) = n_seg c.
  Hypothesis seg2 : forall c, n_seg (rec2 c) = n_seg c.
  Hypothesis comm : h1 = h2 -> p1 = p2 /\ forall c, node_eq c c -> node_eq (rec1 (rec2 c)) (rec2 (rec1 c)).

  Lemma children_insert_resp l l' :
    Forall2 node_eq l l' -> Forall2 node_eq (children_insert rec1 h1 p1 l) (children_insert rec1 h1 p1 l').
  Proof.
    induction 1 as [|c c' l l' Hc Hl IH]; cbn [children_insert].
    - constructor; [apply resp1, new_child_wf|constructor].
    - rewrite <- (node_eq_seg c c' Hc). destruct (str_cmp h1 (n_seg c)).
      + constructor; [apply resp1; exact Hc|exact Hl].
      + constructor; [apply resp1, new_child_wf|]. constructor; assumption.
      + constructor; assumption.
  Qed.

  Ltac ci_simp :=
    repeat (cbn [children_insert new_child n_seg CompOpp];
            repeat match goal with H : str_cmp _ _ = _ |- _ => rewrite H end;
            rewrite ?str_cmp_refl).

  Lemma children_insert_comm l :
    Forall2 node_eq l l ->
    Forall2 node_eq (children_insert rec1 h1 p1 (children_insert rec2 h2 p2 l))
                    (children_insert rec2 h2 p2 (children_insert rec1 h1 p1 l)).
  Proof.
    assert (A : str_cmp h2 h1 = CompOpp (str_cmp h1 h2)) by apply str_cmp_antisym.
    assert (T : forall a b c, str_cmp a b = Lt -> str_cmp c b = Gt -> str_cmp c a = Gt /\ str_cmp a c = Lt).
    { intros a b c H1 H2. apply str_cmp_gt_lt in H2. pose proof (str_cmp_lt_trans _ _ _ H1 H2) as H.
      split; [rewrite (str_cmp_antisym a c), H; reflexivity|exact H]. }
    assert (W1 : node_eq (rec1 (new_child h1 p1)) (rec1 (new_child h1 p1))) by apply resp1, new_child_wf.
    assert (W2 : node_eq (rec2 (new_child h2 p2)) (rec2 (new_child h2 p2))) by apply resp2, new_child_wf.
    assert (S1 : forall c, str_cmp h2 (n_seg (rec1 c)) = str_cmp h2 (n_seg c)) by (intros; rewrite seg1; reflexivity).
    assert (S2 : forall c, str_cmp h1 (n_seg (rec2 c)) = str_cmp h1 (n_seg c)) by (intros; rewrite seg2; reflexivity).
    induction l as [|c l IH]; intros HF.
    - cbn [children_insert]. rewrite S1, S2. cbn [n_seg].
      destruct (str_cmp h1 h2) eqn:E12; rewrite A; cbn [CompOpp].
      + apply str_cmp_eq in E12. destruct (comm E12) as [E C]. rewrite <- E, <- E12.
        constructor; [apply C, new_child_wf|constructor].
      + repeat constructor; assumption.
      + repeat constructor; assumption.
    - assert (Wc : node_eq c c) by (inversion HF; assumption).
      assert (Wl : Forall2 node_eq l l) by (inversion HF; assumption).
      assert (R1 : node_eq (rec1 c) (rec1 c)) by (apply resp1; exact Wc).
      assert (R2 : node_eq (rec2 c) (rec2 c)) by (apply resp2; exact Wc).
      specialize (IH Wl). unfold new_child in W1, W2.
      destruct (str_cmp h1 h2) eqn:E12; cbn [CompOpp] in A;
        destruct (str_cmp h1 (n_seg c)) eqn:E1; destruct (str_cmp h2 (n_seg c)) eqn:E2;
        try (destruct (T _ _ _ E1 E2) as [G1 G2]); try (destruct (T _ _ _ E2 E1) as [G1 G2]); try congruence;
        try (pose proof (str_cmp_eq _ _ E12) as Q12);
        try (pose proof (str_cmp_eq _ _ E1) as Q1; assert (E2' : str_cmp h2 h1 = str_cmp h2 (n_seg c)) by (rewrite Q1; reflexivity));
        try (pose proof (str_cmp_eq _ _ E2) as Q2; assert (E1' : str_cmp h1 h2 = str_cmp h1 (n_seg c)) by (rewrite Q2; reflexivity));
        try congruence;
        repeat (cbn [children_insert n_seg CompOpp]; rewrite ?S1, ?S2, ?str_cmp_refl;
                repeat match goal with H : str_cmp _ _ = _ |- _ => rewrite H end).
      all: try (repeat constructor; assumption).
      all: try (destruct (comm Q12) as [EP C]; rewrite <- ?EP, <- ?Q12; repeat constructor; try assumption; try (apply C; first [assumption|apply new_child_wf])).
      all: repeat (constructor; try assumption); apply children_insert_resp_gen; assumption.
  Qed.
End ChildrenInsert.

(* ------------------------------------------------------------------ Report.Insert *)

Lemma node_insert_seg f pre rest k v n : n_seg (node_insert f pre rest k v n) = n_seg n.
Proof. destruct n, rest, f; reflexivity. Qed.

Lemma node_insert_resp : forall f pre rest k v n n',
  node_eq n n' -> node_eq (node_insert f pre rest k v n) (node_insert f pre rest k v n').
Proof.
  induction f as [|f IH]; intros pre rest k v n n' H; inversion H as [s p hv a a' ch ch' Ha Hch]; subst;
    destruct rest as [|h t]; cbn [node_insert].
  - constructor; [apply ra_add_resp|]; assumption.
  - exact H.
  - constructor; [apply ra_add_resp|]; assumption.
  - constructor; [assumption|]. apply children_insert_resp_gen; [intros; apply IH; assumption|assumption].
Qed.

Lemma node_insert_comm : forall f1 f2 pre rest1 rest2 k1 v1 k2 v2 n,
  node_eq n n ->
  node_eq (node_insert f1 pre rest1 k1 v1 (node_insert f2 pre rest2 k2 v2 n))
          (node_insert f2 pre rest2 k2 v2 (node_insert f1 pre rest1 k1 v1 n)).
Proof.
  induction f1 as [|f1 IH]; intros f2 pre rest1 rest2 k1 v1 k2 v2 n H;
    pose proof H as H0; destruct n as [s p hv a ch]; inversion H as [? ? ? ? ? ? ? Ha Hch]; subst;
    assert (Ua : ra_unique a) by apply Ha;
    destruct rest1 as [|h1 t1], rest2 as [|h2 t2], f2 as [|f2]; cbn [node_insert];
    try (constructor;
         [first [apply ra_add_comm; exact Ua | apply ra_eqv_refl; repeat apply ra_add_unique; exact Ua]
         |first [assumption | apply children_insert_resp_gen; [intros; apply node_insert_resp; assumption|assumption]]]).
  constructor; [exact Ha|]. apply children_insert_comm.
  - intros; apply node_insert_resp; assumption.
  - intros; apply node_insert_resp; assumption.
  - intros; apply node_insert_seg.
  - intros; apply node_insert_seg.
  - intros E. subst h2. split; [reflexivity|]. intros c Hc. apply IH. exact Hc.
  - exact Hch.
Qed.

Definition report_eq (r r' : report) : Prop := node_eq (r_al r) (r_al r') /\ node_eq (r_eie r) (r_eie r').

Lemma report_eq_trans a b c : report_eq a b -> report_eq b c -> report_eq a c.
Proof. intros [A1 A2] [B1 B2]. split; eapply node_eq_trans; eassumption. Qed.

Lemma new_report_wf : report_eq new_report new_report.
Proof. split; constructor; try constructor; apply ra_eqv_refl; constructor. Qed.

Lemma report_insert_resp r r' d a c v : report_eq r r' -> report_eq (report_insert r d a c v) (report_insert r' d a c v).
Proof.
  intros [H1 H2]. unfold report_insert. destruct (is_AL a); split; cbn [r_al r_eie]; try assumption; apply node_insert_resp; assumption.
Qed.

Lemma report_insert_comm r d a c v d' a' c' v' :
  report_eq r r ->
  report_eq (report_insert (report_insert r d a c v) d' a' c' v') (report_insert (report_insert r d' a' c' v') d a c v).
Proof.
  intros [H1 H2]. unfold report_insert.
  destruct (is_AL a), (is_AL a'); split; cbn [r_al r_eie]; try assumption;
    try (apply node_insert_resp; assumption); apply node_insert_comm; assumption.
Qed.

(* ------------------------------------------------------------------ Query.Into *)

(* what a posting does to the collection: panic (Shorten), nothing, or one insertion *)
Inductive qaction := QPanic | QSkip | QInsert (d : option Z) (a : account) (c : commodity) (v : dec).

Definition qact (q : query) (tp : txn * posting) : qaction :=
  let p := snd tp in
  if q_where q (p_acc p) (p_com p) then
    match q_account q (p_acc p) with
    | ShPanic => QPanic
    | ShHidden => QSkip
    | ShAcc a => QInsert (q_date q (t_date (fst tp))) a (p_com p) (if q_valued q then p_val p else p_qty p)
    end
  else QSkip.

Lemma query_pstep_eq q r tp :
  pstep (query_posting q report_insert) r tp =
  match qact q tp with
  | QPanic => RPanic k_shorten
  | QSkip => ROk r
  | QInsert d a c v => ROk (report_insert r d a c v)
  end.
Proof.
  unfold pstep, query_posting, qact. destruct (q_where q (p_acc (snd tp)) (p_com (snd tp))); [|reflexivity].
  destruct (q_account q (p_acc (snd tp))); reflexivity.
Qed.

Lemma query_txns_rel q r1 r2 ts1 ts2 :
  report_eq r1 r1 -> report_eq r1 r2 -> Permutation ts1 ts2 ->
  req (fun a b => report_eq (fst a) (fst b) /\ snd a = ts1 /\ snd b = ts2)
      (fold_txns (query_proc q report_insert) r1 ts1) (fold_txns (query_proc q report_insert) r2 ts2).
Proof.
  intros Hw Hr P.
  assert (Hout : forall r ts s' ts', fold_txns (query_proc q report_insert) r ts = ROk (s', ts') -> ts' = ts).
  { intros r ts s' ts' E.
    destruct (fold_txns_out (query_proc q report_insert) (query_posting q report_insert) (fun _ => True) (fun x => x) eq_refl eq_refl)
      with (ts := ts) (s := r) (s' := s') (ts' := ts') as [-> _]; auto.
    - intros s t x s0 x' _ H. unfold query_posting in H.
      destruct (q_where q (p_acc x) (p_com x)); [|inversion H; auto].
      destruct (q_account q (p_acc x)); inversion H; auto.
    - apply map_txn_map_id. }
  apply (req_from_rfst report_eq (fun t => t = ts1) (fun t => t = ts2)).
  - rewrite !(fold_txns_state (query_proc q report_insert) (query_posting q report_insert)) by reflexivity.
    apply (fold_res_perm report_eq (pstep (query_posting q report_insert)) (fun _ => True)).
    + exact report_eq_trans.
    + intros s s' a _ H. rewrite !query_pstep_eq. destruct (qact q a); cbn [req]; [exact I|exact H|apply report_insert_resp; exact H].
    + intros s a b _ _ H. rewrite !query_pstep_eq.
      destruct (qact q a) as [| |d1 a1 c1 v1] eqn:Ea, (qact q b) as [| |d2 a2 c2 v2] eqn:Eb; cbn [rbind];
        rewrite ?query_pstep_eq, ?Ea, ?Eb; cbn [req]; try exact I; try exact H;
        try (apply report_insert_resp; exact H).
      apply report_insert_comm. exact H.
    + apply items_perm. exact P.
    + apply Forall_forall. intros; exact I.
    + exact Hw.
    + exact Hr.
  - intros [s' ts'] E. cbn [snd]. eapply Hout. exact E.
  - intros [s' ts'] E. cbn [snd]. eapply Hout. exact E.
Qed.

Definition Rrep (r r' : report) : Prop := report_eq r r /\ report_eq r r'.

Lemma report_eq_left r r' : report_eq r r' -> report_eq r r.
Proof. intros [H1 H2]. split; eapply node_eq_left; eassumption. Qed.

Lemma query_day_rel q r1 r2 d1 d2 :
  Rrep r1 r2 -> day_equiv d1 d2 ->
  req (fun a b => Rrep (fst a) (fst b) /\ True)
      (process_day (query_proc q report_insert) r1 d1) (process_day (query_proc q report_insert) r2 d2).
Proof.
  intros [Hw Hr] (E0 & E1 & E2 & E3 & E4 & E5 & E6).
  unfold process_day. cbn [query_proc pr_day_start pr_price pr_open pr_close pr_day_end rbind fst snd].
  eapply req_bind; [apply query_txns_rel; [exact Hw|exact Hr|exact E3]|].
  intros [a1 t1] [a2 t2] (Ha & _ & _). cbn [fst snd].
  rewrite !fold_asserts_none by reflexivity. cbn [rbind req fst snd].
  split; [|exact I]. split; [eapply report_eq_left; exact Ha|exact Ha].
Qed.

Theorem query_stage_rel q l1 l2 :
  Forall2 day_equiv l1 l2 ->
  req (fun a b => report_eq (fst a) (fst b))
      (process_days (query_proc q report_insert) new_report l1) (process_days (query_proc q report_insert) new_report l2).
Proof.
  intros HF.
  eapply req_impl; [|apply (process_days_rel (query_proc q report_insert) Rrep day_equiv (fun _ _ => True));
                     [intros; apply query_day_rel; assumption|exact HF|split; apply new_report_wf]].
  intros a b [[_ H] _]. exact H.
Qed.
