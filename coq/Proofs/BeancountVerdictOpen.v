(* C16: where the violations of beancount_check on the model's items come from.  With
   C16_chronological, C16_balanced, C16_open_before_use and C16_adjusted_account_open: every
   violation is a posting violation (no open directive in force) raised by a posting of a VALUE
   ADJUSTMENT on an account that is not an asset or liability account -- the Income:... account of
   F16/F16b.  (That check_posting then classifies it as the known shape, and that complete_check
   finds nothing, is not proved here.) *)
From Coq Require Import ZArith List Bool Lia Sorted.
From Knut Require Import Model.Str Model.Dec Model.Date Model.Account Model.Ledger Model.Journal
     Model.Cli Model.Beancount Model.CliTranscode
     Spec.LedgerSyntax Spec.BeancountSpec Spec.BeancountErase Spec.BeancountLex
     Proofs.BeancountProofs Proofs.TranscodeOpenAL Proofs.BeancountRead Proofs.BeancountVerdict
     Proofs.BeancountLexDays.
Import ListNotations.
Open Scope bool_scope.
Open Scope Z_scope.

(* ---- a violation belongs to one entry, checked in the state after the entries before it *)
Lemma check_entries_in v es : forall st x, In x (check_entries v st es) ->
  exists pre e post, es = pre ++ e :: post /\ In x (fst (check_entry v (fold_left next_state pre st) e)).
Proof.
  induction es as [|e es IH]; intros st x Hx; cbn [check_entries] in Hx; [destruct Hx|].
  destruct (check_entry v st e) as [vs st'] eqn:E.
  assert (Est : st' = next_state st e) by (unfold check_entry in E; inversion E; reflexivity).
  apply in_app_or in Hx. destruct Hx as [Hx|Hx].
  - exists [], e, es. split; [reflexivity|]. cbn [fold_left]. rewrite E. exact Hx.
  - destruct (IH st' x Hx) as (pre & e' & post & -> & Hin). exists (e :: pre), e', post.
    split; [reflexivity|]. cbn [fold_left]. rewrite <- Est. exact Hin.
Qed.

(* ---- the open directives in force are dated on or before the last entry *)
Definition open_dates_ok (st : bstate) : Prop := forall a d, In (a, d) (st_open st) -> d <= st_last st.

Lemma next_state_dates_ok st e : open_dates_ok st -> open_dates_ok (next_state st e).
Proof.
  intros H a d Hin. destruct e as [d' a'|d' a'|d' desc ps]; cbn [next_state st_open st_last entry_date] in *.
  - destruct Hin as [E|Hin]; [inversion E; subst; lia|]. specialize (H a d Hin). lia.
  - apply filter_In in Hin. destruct Hin as [Hin _]. specialize (H a d Hin). lia.
  - specialize (H a d Hin). lia.
Qed.

Lemma fold_dates_ok es : forall st, open_dates_ok st -> open_dates_ok (fold_left next_state es st).
Proof. induction es as [|e es IH]; intros st H; [exact H|]. cbn [fold_left]. apply IH. apply next_state_dates_ok. exact H. Qed.

Lemma fold_last_le D es : forall st, st_last st <= D -> Forall (fun e => entry_date e <= D) es ->
  st_last (fold_left next_state es st) <= D.
Proof.
  induction es as [|e es IH]; intros st Hst Hes; [exact Hst|]. inversion Hes; subst. cbn [fold_left]. apply IH; [|assumption].
  assert (E : st_last (next_state st e) = Z.max (entry_date e) (st_last st)) by (destruct e; reflexivity). rewrite E. lia.
Qed.

Lemma sorted_app_le l1 x l2 : StronglySorted Z.le (l1 ++ x :: l2) -> Forall (fun y => y <= x) l1.
Proof.
  induction l1 as [|y l1 IH]; intros H; [constructor|]. cbn [app] in H. inversion H as [|? ? H1 H2]; subst.
  constructor; [|apply IH; exact H1]. rewrite Forall_forall in H2. apply H2. apply in_or_app. right. left. reflexivity.
Qed.

Lemma mem_dated_of_mem a date (l : list (str * Z)) : mem a (map fst l) = true ->
  (forall a' d', In (a', d') l -> d' <= date) -> mem_dated a date l = true.
Proof.
  unfold mem. induction l as [|[a' d'] l IH]; cbn [map existsb mem_dated fst]; [discriminate|].
  intros H Hd. apply orb_true_iff in H. apply orb_true_iff. destruct H as [H|H].
  - left. rewrite H. cbn [andb]. apply Z.leb_le. apply (Hd a' d'). left. reflexivity.
  - right. apply IH; [exact H|]. intros a2 d2 Hin. apply (Hd a2 d2). right. exact Hin.
Qed.

(* ---- the theorem *)
Definition adjustment_income_posting (v : commodity) (days : list day) (x : violation) : Prop :=
  exists pre t post p,
    transcode_entries days [] = pre ++ BTxn t :: post /\ adjustment (t_date t) t /\
    In p (t_postings t) /\ is_AL (p_acc p) = false /\ v_detail x = acc_name (p_acc p).

Theorem beancount_check_model l v sds dl days :
  parse_directives sds = MOk dl -> postings_syntactic dl -> journal_lex_b dl = true ->
  transcode_days l v sds = COk days ->
  Forall (fun x => posting_kind x /\ adjustment_income_posting v days x)
         (beancount_check v (erase_entries v (transcode_entries days []))).
Proof.
  intros Hp Hsyn Hj H.
  pose proof (transcode_days_entries_lex l v sds dl days Hp Hj H) as Hlex.
  pose proof (transcode_chronological l v sds days H) as Hsorted.
  pose proof (entries_balanced v days [] (transcode_days_ok _ _ _ _ H)) as Hbal.
  pose proof (beancount_check_posting_only v _ Hlex Hsorted Hbal) as Hkind.
  apply Forall_forall. intros x Hx. split; [rewrite Forall_forall in Hkind; exact (Hkind x Hx)|].
  unfold beancount_check in Hx. apply check_entries_in in Hx. destruct Hx as (pre & e & post & Hsplit & Hin).
  unfold erase_entries in Hsplit. apply map_eq_app in Hsplit. destruct Hsplit as (bpre & brest & Hb & Epre & Erest).
  apply map_eq_cons in Erest. destruct Erest as (b & bpost & -> & Ee & Epost). subst pre e post.
  fold (erase_entries v bpre) in *. fold (state_after (erase_entries v bpre)) in Hin.
  set (st := state_after (erase_entries v bpre)) in *.
  (* the state: dates of the open directives, and of the last entry *)
  assert (Hdok : open_dates_ok st) by (apply fold_dates_ok; intros a d []).
  assert (Hlast : st_last st <= entry_date (erase_entry v b)).
  { apply fold_last_le.
    - cbn [bst_init st_last]. pose proof (entries_lex_min v _ Hlex) as Hm. rewrite Forall_forall in Hm.
      apply Hm. unfold erase_entries. rewrite Hb, map_app. apply in_or_app. right. left. reflexivity.
    - unfold erase_entries in Hsorted. rewrite Hb, !map_app in Hsorted. cbn [map] in Hsorted.
      apply sorted_app_le in Hsorted. rewrite Forall_forall in Hsorted |- *. intros e He.
      apply Hsorted. apply in_map. exact He. }
  (* only a transaction raises posting violations *)
  unfold check_entry in Hin. cbn [fst] in Hin.
  replace (entry_date (erase_entry v b) <? st_last st) with false in Hin by (symmetry; apply Z.ltb_ge; exact Hlast).
  cbn [app] in Hin. destruct b as [d a|d a|t]; cbn [erase_entry] in Hin; try (destruct Hin).
  assert (Hbal1 : txn_balanced_b (map (erase_posting v) (t_postings t)) = true).
  { rewrite Forall_forall in Hbal. apply (Hbal (erase_entry v (BTxn t))). unfold erase_entries. rewrite Hb, map_app.
    apply in_or_app. right. left. reflexivity. }
  rewrite Hbal1 in Hin. cbn [app] in Hin.
  assert (Hcom : forallb (fun x0 => commodity_ok v (commodity_of x0)) (map (erase_posting v) (t_postings t)) = true).
  { pose proof (erased_commodity_ok v [BTxn t]) as Hc. inversion Hc as [|? ? Hc1 _]; subst. exact Hc1. }
  rewrite Hcom in Hin. cbn [app] in Hin.
  apply in_flat_map in Hin. destruct Hin as (sp & Hsp & Hin). apply in_map_iff in Hsp. destruct Hsp as (p & <- & Hp_in).
  cbn [entry_date erase_entry] in *.
  (* a posting with an open directive in force raises nothing *)
  assert (Hnone : mem (acc_name (p_acc p)) (map fst (st_open st)) = true -> False).
  { intros Hmem. unfold check_posting in Hin. unfold erase_posting, account_of in Hin. cbn [fst] in Hin.
    rewrite (mem_dated_of_mem _ (t_date t) _ Hmem) in Hin; [destruct Hin|].
    intros a' d' Ha'. specialize (Hdok a' d' Ha'). lia. }
  assert (Hdetail : v_detail x = acc_name (p_acc p)).
  { unfold check_posting in Hin. unfold erase_posting, account_of in Hin. cbn [fst] in Hin.
    destruct (mem_dated (acc_name (p_acc p)) (t_date t) (st_open st)); [destruct Hin|].
    destruct (valuation_posting st (t_desc t) (acc_name (p_acc p)));
      [|destruct (mem (acc_name (p_acc p)) (st_closed st))]; destruct Hin as [<-|[]]; reflexivity. }
  exists bpre, t, bpost, p.
  pose proof (transcode_open_before_use l v sds days bpre t bpost H Hb) as Hobu.
  pose proof (transcode_AL_open_before_use l v sds dl days bpre t bpost Hp Hsyn H Hb) as Hal.
  rewrite Forall_forall in Hal. specialize (Hal p Hp_in). fold st in Hal.
  repeat split; try assumption.
  - destruct Hobu as [Hadj|Hall]; [exact Hadj|exfalso]. rewrite Forall_forall in Hall. apply Hnone. apply (Hall p Hp_in).
  - destruct (is_AL (p_acc p)); [exfalso; apply Hnone; apply Hal; reflexivity|reflexivity].
Qed.
