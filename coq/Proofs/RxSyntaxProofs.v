(* The parser side of Model/RxSyntax.v: neither the parse loop nor factor runs out of fuel, and the branch
   that stands for "cannot happen in the Go code" (ErrInternal) is not reached: rx_parse is total. *)
From Coq Require Import ZArith List Bool Lia.
From Knut Require Import Model.Str Model.Utf8 Model.RxTables Model.RxClass Model.RxSyntax Proofs.RxLexProofs.
Import ListNotations.
Open Scope Z_scope.

(* ---------------------------------------------------------------- induction on the tree *)
Section NodeInd.
Variable P : node -> Prop.
Hypothesis H : forall i o f subs r c a b k m, Forall P subs -> P (Node i o f subs r c a b k m).
Fixpoint node_ind2 (n : node) : P n :=
  match n with
  | Node i o f subs r c a b k m =>
    H i o f subs r c a b k m
      ((fix go (l : list node) : Forall P l :=
          match l with [] => Forall_nil _ | x :: t => Forall_cons _ (node_ind2 x) (go t) end) subs)
  end.
End NodeInd.

(* ---------------------------------------------------------------- results that are neither of the two *)
Definition clean {A} (r : res A) : Prop := r <> OutOfFuel /\ r <> Err ErrInternal.

Lemma clean_ok {A} (a : A) : clean (Ok a).
Proof. split; discriminate. Qed.
Lemma clean_err {A} e : e <> ErrInternal -> clean (Err e : res A).
Proof. intros He. split; [discriminate|]. intros H. injection H as H. exact (He H). Qed.

Ltac clean_err := apply clean_err; discriminate.

Lemma clean_err_cast {A B} e : clean (@Err A e) -> clean (@Err B e).
Proof. intros [_ H]. apply clean_err. intros ->. exact (H eq_refl). Qed.
Lemma clean_fuel_false {A} : clean (@OutOfFuel A) -> False.
Proof. intros [H _]. exact (H eq_refl). Qed.

Lemma clean_bind (r : res pst) f : clean r -> (forall p, clean (f p)) -> clean (bind r f).
Proof. intros Hr Hf. destruct r; cbn [bind]; auto. Qed.

(* ---------------------------------------------------------------- the limits *)
Lemma check_size_clean re p : clean (check_size re p).
Proof.
  unfold check_size. destruct (p_size p).
  - destruct (calc_size true re p0). destruct (max_size <? z); [clean_err|apply clean_ok].
  - match goal with |- clean (if ?c then _ else _) => destruct c end; [apply clean_ok|].
    match goal with |- clean (match ?c with _ => _ end) => destruct c end; [|clean_err].
    match goal with |- clean (let '(_, _) := ?c in _) => destruct c end.
    destruct (max_size <? z); [clean_err|apply clean_ok].
Qed.

Lemma check_height_clean re p : clean (check_height re p).
Proof.
  unfold check_height. destruct (num_regexp p <? max_height); [apply clean_ok|].
  destruct (p_height p).
  - destruct (calc_height true re p0). destruct (max_height <? z); [clean_err|apply clean_ok].
  - match goal with |- clean (match ?c with _ => _ end) => destruct c end; [|clean_err].
    match goal with |- clean (let '(_, _) := ?c in _) => destruct c end.
    destruct (max_height <? z); [clean_err|apply clean_ok].
Qed.

Lemma check_limits_clean re p : clean (check_limits re p).
Proof.
  unfold check_limits. destruct (max_runes <? p_numrunes p); [clean_err|].
  pose proof (check_size_clean re p) as Hs. destruct (check_size re p); auto. apply check_height_clean.
Qed.

Lemma push_raw_clean re p : clean (push_raw re p).
Proof. apply check_limits_clean. Qed.

Lemma push_clean re p : clean (push re p).
Proof.
  unfold push. cbv zeta.
  assert (Hlit : forall c fl q, clean (let '(pushed, p') := maybe_concat (Some c) fl q in
                                      if pushed then Ok p' else push_raw (set_flags (set_cls (set_runes (set_op re OpLiteral) [c]) []) fl) p')).
  { intros c fl q. destruct (maybe_concat (Some c) fl q) as [[|] p']; [apply clean_ok|apply push_raw_clean]. }
  destruct (n_op re); try apply push_raw_clean.
  destruct (n_cls re) as [|[a b] [|[a' b'] [|? ?]]]; try apply push_raw_clean.
  - destruct (a =? b); [apply Hlit|]. destruct (_ && _)%bool; [apply Hlit|apply push_raw_clean].
  - destruct (_ && _)%bool; [apply Hlit|apply push_raw_clean].
Qed.

Lemma literal_clean r p : clean (literal r p).
Proof. unfold literal. destruct (new_regexp p OpLiteral). apply push_clean. Qed.

Lemma push_op_clean o p : clean (push_op o p).
Proof. unfold push_op. destruct (new_regexp p o). apply push_clean. Qed.

Lemma repeat_clean o mn mx lz lr p : clean (repeat o mn mx lz lr p).
Proof.
  unfold repeat. destruct lr; [clean_err|]. destruct (p_stack p) as [|sub rest]; [clean_err|].
  destruct (is_pseudo (n_op sub)); [clean_err|]. destruct (new_regexp p o) as [re q]. destruct re.
  match goal with |- clean (match ?c with _ => _ end) => pose proof (check_limits_clean _ _ : clean c) as Hc; destruct c end; auto.
  destruct (_ && _)%bool; [clean_err|apply clean_ok].
Qed.

(* ---------------------------------------------------------------- weights *)
Lemma wsum_eq l : (fix go (l : list node) : nat := match l with [] => O | s :: t => (weight s + go t)%nat end) l = weights l.
Proof. induction l as [|x t IH]; cbn [weights fold_right]; [reflexivity|]. rewrite IH. reflexivity. Qed.

Lemma weight_unfold i o f subs r c a b k m :
  weight (Node i o f subs r c a b k m) =
  match o with
  | OpLiteral => length r
  | OpEmptyMatch => O
  | OpConcat | OpAlternate => weights subs
  | OpCapture | OpStar | OpPlus | OpQuest | OpRepeat => S (weights subs)
  | _ => 1%nat
  end.
Proof. cbn [weight]. rewrite wsum_eq. reflexivity. Qed.

Lemma weights_cons x l : weights (x :: l) = (weight x + weights l)%nat.
Proof. reflexivity. Qed.
Lemma weights_app a b : weights (a ++ b) = (weights a + weights b)%nat.
Proof. induction a as [|x t IH]; cbn [app]; [reflexivity|]. rewrite !weights_cons, IH. lia. Qed.
Lemma weights_rev l : weights (rev l) = weights l.
Proof. induction l as [|x t IH]; [reflexivity|]. cbn [rev]. rewrite weights_app, IH, !weights_cons. cbn [weights fold_right]. lia. Qed.

Lemma weight_add_eq n : forall acc, weight_add n acc = (weight n + acc)%nat.
Proof.
  induction n as [i o f subs r c a b k m IH] using node_ind2. intros acc.
  assert (Hgo : forall acc, (fix go (l : list node) (acc : nat) : nat :=
                               match l with [] => acc | s :: t => go t (weight_add s acc) end) subs acc = (weights subs + acc)%nat).
  { induction IH as [|x t Hx Ht IHt]; intros acc0; [reflexivity|]. rewrite IHt, Hx, weights_cons. lia. }
  rewrite weight_unfold. cbn [weight_add]. rewrite Hgo. destruct o; lia.
Qed.

Lemma weights_add_eq l : weights_add l = weights l.
Proof.
  unfold weights_add.
  assert (H : forall acc, fold_left (fun a n => weight_add n a) l acc = (weights l + acc)%nat).
  { induction l as [|x t IH]; intros acc; cbn [fold_left]; [reflexivity|]. rewrite IH, weight_add_eq, weights_cons. lia. }
  rewrite H. lia.
Qed.

Lemma op_eqb_eq a b : op_eqb a b = true -> a = b.
Proof. unfold op_eqb. intros H. apply Z.eqb_eq in H. destruct a, b; cbn in H; try reflexivity; discriminate. Qed.

Lemma weight_blank i o : (weight (blank i o) <= 1)%nat.
Proof. unfold blank. rewrite weight_unfold. destruct o; cbn; lia. Qed.
Lemma weight_blank_empty i : weight (blank i OpEmptyMatch) = O.
Proof. reflexivity. Qed.
Lemma weight_new_empty p : weight (fst (new_regexp p OpEmptyMatch)) = O.
Proof. unfold new_regexp. destruct (p_free p); reflexivity. Qed.

Lemma weight_set_subs_alt re l : n_op re = OpAlternate -> weight (set_subs re l) = weights l.
Proof. destruct re. cbn [n_op set_subs]. intros ->. apply weight_unfold. Qed.
Lemma weight_set_subs_concat re l : n_op re = OpConcat -> weight (set_subs re l) = weights l.
Proof. destruct re. cbn [n_op set_subs]. intros ->. apply weight_unfold. Qed.
Lemma new_regexp_op p o : n_op (fst (new_regexp p o)) = o.
Proof. unfold new_regexp. destruct (p_free p); reflexivity. Qed.

(* removeLeadingString *)
Lemma rls_le x : forall n, (weight (fst (remove_leading_string x n)) <= weight x)%nat.
Proof.
  induction x as [i o f subs r c a b k m IH] using node_ind2. intros n. cbn [remove_leading_string].
  destruct o; try (cbn [fst]; lia).
  - (* literal *) cbn [fst]. rewrite !weight_unfold. pose proof (skipn_length n r) as Hs.
    destruct (skipn n r) eqn:E; cbn [length] in *; lia.
  - (* concat *) destruct subs as [|s0 rest]; [cbn [fst]; lia|].
    inversion IH as [|? ? Hs0 _]; subst. specialize (Hs0 n).
    destruct (remove_leading_string s0 n) as [s0' freed]. cbn [fst] in Hs0.
    destruct (op_eqb (n_op s0') OpEmptyMatch).
    + destruct rest as [|y [|z rest']]; cbn [fst]; rewrite ?weight_unfold, ?weights_cons; cbn [weights fold_right]; lia.
    + cbn [fst]. rewrite !weight_unfold, !weights_cons. lia.
Qed.

Lemma rls_exact x n : (n <= length (fst (leading_string x)))%nat ->
  (weight (fst (remove_leading_string x n)) + n <= weight x)%nat.
Proof.
  intros Hn. destruct n as [|n']; [pose proof (rls_le x 0); lia|].
  destruct x as [i o f subs r c a b k m].
  assert (Hlit : forall i f subs r c a b k m n, (n <= length r)%nat ->
            (weight (fst (remove_leading_string (Node i OpLiteral f subs r c a b k m) n)) + n = length r)%nat).
  { intros. cbn [remove_leading_string fst]. rewrite weight_unfold. pose proof (skipn_length n r0) as Hs.
    destruct (skipn n r0) eqn:E; cbn [length] in *; lia. }
  unfold leading_string in Hn. cbn [n_op n_subs] in Hn.
  destruct o; try (cbn in Hn; lia).
  - (* literal *) change (S n' <= length r)%nat in Hn.
    rewrite (weight_unfold _ OpLiteral). pose proof (Hlit i f subs r c a b k m (S n') Hn). lia.
  - (* concat *) destruct subs as [|s0 rest]; [cbn in Hn; lia|].
    destruct (is_lit s0) eqn:El; [|cbn [fst length] in Hn; lia]. cbn [fst] in Hn.
    destruct s0 as [i0 o0 f0 subs0 r0 c0 a0 b0 k0 m0]. unfold is_lit in El. cbn [n_op] in El. apply op_eqb_eq in El. subst o0.
    cbn [n_runes] in Hn. pose proof (Hlit i0 f0 subs0 r0 c0 a0 b0 k0 m0 (S n') Hn) as Hw.
    cbn [remove_leading_string] in *.
    set (r' := skipn (S n') r0) in *. cbn [fst] in Hw.
    rewrite (weight_unfold _ OpConcat), weights_cons, (weight_unfold _ OpLiteral).
    destruct r' as [|z r'']; cbn [n_op op_eqb op_num Z.eqb Pos.eqb].
    + destruct rest as [|y [|z' rest']]; cbn [fst]; rewrite ?weight_unfold, ?weights_cons in *; cbn [weights fold_right] in *; lia.
    + cbn [fst]. rewrite !weight_unfold, !weights_cons, weight_unfold in *. lia.
Qed.

(* removeLeadingRegexp *)
Lemma rlr_le x r p : (weight (fst (remove_leading_regexp x r p)) <= weight x)%nat.
Proof.
  unfold remove_leading_regexp. destruct x as [i o f subs rs c a b k m]. cbn [n_op n_subs].
  assert (Hnew : forall q, (weight (fst (new_regexp q OpEmptyMatch)) <= weight (Node i o f subs rs c a b k m))%nat)
    by (intros q; rewrite weight_new_empty; lia).
  destruct o; try apply Hnew.
  destruct subs as [|s0 [|y [|z rest]]]; try apply Hnew; cbn [fst set_subs set_op];
    rewrite ?weight_unfold, ?weights_cons; cbn [weights fold_right]; lia.
Qed.

Lemma rlr_exact x g r p : leading_regexp x = Some g ->
  (weight (fst (remove_leading_regexp x r p)) + weight g = weight x)%nat.
Proof.
  unfold remove_leading_regexp, leading_regexp. destruct x as [i o f subs rs c a b k m]. cbn [n_op n_subs].
  destruct o; try (intros H; injection H as <-; rewrite weight_new_empty; lia); [discriminate|].
  destruct subs as [|s0 rest]; [intros H; injection H as <-; rewrite weight_new_empty; lia|].
  destruct (op_eqb (n_op s0) OpEmptyMatch); [discriminate|]. intros H. injection H as <-.
  destruct rest as [|y [|z rest]]; cbn [fst set_subs set_op]; rewrite ?weight_unfold, ?weights_cons; cbn [weights fold_right]; lia.
Qed.

(* ---------------------------------------------------------------- collapse and factor *)
Definition F_ok (F : list node -> pst -> res (list node * pst)) (b : nat) : Prop :=
  forall l p, (weights l < b)%nat ->
    clean (F l p) /\ forall l' p', F l p = Ok (l', p') -> (weights l' <= weights l)%nat.

Definition good (r : res (list node * pst)) (w : nat) : Prop :=
  clean r /\ forall l' p', r = Ok (l', p') -> (weights l' <= w)%nat.
Definition good1 (r : res (node * pst)) (w : nat) : Prop :=
  clean r /\ forall x p', r = Ok (x, p') -> (weight x <= w)%nat.

Lemma good_weaken r w w' : good r w -> (w <= w')%nat -> good r w'.
Proof. intros [Hc Hw] Hle. split; [exact Hc|]. intros l' p' E. specialize (Hw l' p' E). lia. Qed.

Lemma weight_op_subs s o : (o = OpAlternate \/ o = OpConcat) -> op_eqb (n_op s) o = true -> weight s = weights (n_subs s).
Proof. intros Ho E. apply op_eqb_eq in E. destruct s as [i o' f subs r c a b k m]. cbn [n_op n_subs] in *. subst o'. rewrite weight_unfold. destruct Ho; subst o; reflexivity. Qed.

Lemma flatten_weights o subs : (o = OpAlternate \/ o = OpConcat) -> forall acc p,
  weights (fst (fold_left (fun st s => if op_eqb (n_op s) o then (fst st ++ n_subs s, reuse (snd st) s) else (fst st ++ [s], snd st))
                          subs (acc, p))) = (weights acc + weights subs)%nat.
Proof.
  intros Ho. induction subs as [|s t IH]; intros acc p; cbn [fold_left]; [cbn [fst]; change (weights []) with O; lia|].
  destruct (op_eqb (n_op s) o) eqn:E; cbn [fst snd]; rewrite IH, weights_app, !weights_cons; change (weights []) with O.
  - rewrite (weight_op_subs s o Ho E). lia.
  - lia.
Qed.

Lemma collapse_f_good F b subs p : F_ok F b -> (weights subs < b)%nat ->
  good1 (collapse_f F subs OpAlternate p) (weights subs).
Proof.
  intros HF Hb. unfold collapse_f.
  assert (Hgen :
    good1 (let '(re, p0) := new_regexp p OpAlternate in
           let '(l, p1) := fold_left (fun st s => if op_eqb (n_op s) OpAlternate then (fst st ++ n_subs s, reuse (snd st) s) else (fst st ++ [s], snd st)) subs ([], p0) in
           match F l p1 with
           | Ok ([x], p') => Ok (x, reuse p' re)
           | Ok (l', p') => Ok (set_subs re l', p')
           | Err e => Err e
           | OutOfFuel => OutOfFuel
           end) (weights subs)).
  { pose proof (new_regexp_op p OpAlternate) as Hop. destruct (new_regexp p OpAlternate) as [re p0]. cbn [fst] in Hop.
    pose proof (flatten_weights OpAlternate subs (or_introl eq_refl) [] p0) as Hfl.
    destruct (fold_left _ subs ([], p0)) as [l p1]. cbn [fst] in Hfl. change (weights []) with O in Hfl.
    destruct (HF l p1 ltac:(lia)) as [Hc Hw]. destruct (F l p1) as [[l' p']| |] eqn:EF.
    - specialize (Hw l' p' eq_refl).
      assert (Hset : good1 (Ok (set_subs re l', p')) (weights subs)).
      { split; [apply clean_ok|]. intros x q E. injection E as <- _. rewrite (weight_set_subs_alt _ _ Hop). lia. }
      destruct l' as [|x [|y t]]; try exact Hset.
      split; [apply clean_ok|]. intros x' q E. injection E as <- _. cbn [weights fold_right] in Hw. lia.
    - split; [exact (clean_err_cast _ Hc)|discriminate].
    - destruct (clean_fuel_false Hc). }
  destruct subs as [|x [|y t]]; try exact Hgen.
  split; [apply clean_ok|]. intros x' q E. injection E as <- _. cbn [weights fold_right]. lia.
Qed.

(* the loop of a run of round 1 *)
Lemma fold_step1 n run : forall (r0 : res (list node * pst)),
  let step := (fun (st : res (list node * pst)) (x : node) =>
      match st with
      | Ok (acc, p) =>
        let '(x', freed) := remove_leading_string x n in
        match check_limits x' (reuse_ids p freed) with
        | Ok p' => Ok (acc ++ [x'], p')
        | Err e => Err e
        | OutOfFuel => OutOfFuel
        end
      | r => r
      end) in
  clean r0 -> clean (fold_left step run r0) /\
  forall acc p l' p', r0 = Ok (acc, p) -> fold_left step run r0 = Ok (l', p') ->
    l' = acc ++ map (fun x => fst (remove_leading_string x n)) run.
Proof.
  induction run as [|x t IH]; intros r0 step Hc; cbn [fold_left].
  - split; [exact Hc|]. intros acc p l' p' -> E. injection E as <- _. cbn [map]. now rewrite app_nil_r.
  - destruct r0 as [[acc p]| |].
    + cbn [step]. destruct (remove_leading_string x n) as [x' freed] eqn:Ex.
      pose proof (check_limits_clean x' (reuse_ids p freed)) as Hcl.
      destruct (check_limits x' (reuse_ids p freed)) as [p1| |] eqn:El.
      * destruct (IH (Ok (acc ++ [x'], p1)) (clean_ok _)) as [H1 H2]. split; [exact H1|].
        intros acc0 p0 l' p' E0 E. injection E0 as <- <-. rewrite (H2 _ _ _ _ eq_refl E). cbn [map]. rewrite Ex. cbn [fst].
        now rewrite <- app_assoc.
      * destruct (IH (Err e) (clean_err_cast _ Hcl)) as [H1 H2]. split; [exact H1|]. intros acc0 p0 l' p' E0 E.
        exfalso. clear - E. induction t as [|y t IHt]; cbn [fold_left] in E; [discriminate|]. exact (IHt E).
      * exfalso. exact (proj1 Hcl eq_refl).
    + destruct (IH (Err e) Hc) as [H1 H2]. split; [exact H1|]. intros; discriminate.
    + exfalso. exact (proj1 Hc eq_refl).
Qed.

Lemma weights_map_rls n l : (weights (map (fun x => fst (remove_leading_string x n)) l) <= weights l)%nat.
Proof. induction l as [|x t IH]; cbn [map]; [lia|]. rewrite !weights_cons. pose proof (rls_le x n). lia. Qed.

Lemma flush1_good F b run str sf out p :
  F_ok F b -> (weights run <= b)%nat ->
  ((2 <= length run)%nat -> str <> [] /\ exists x0 rest suffix, run = x0 :: rest /\ fst (leading_string x0) = str ++ suffix) ->
  good (flush1 F run str sf out p) (weights run + weights out).
Proof.
  intros HF Hb Hinv. unfold flush1.
  destruct run as [|x0 [|x1 rest]].
  - split; [apply clean_ok|]. intros l' p' E. injection E as <- _. cbn [weights fold_right]. lia.
  - split; [apply clean_ok|]. intros l' p' E. injection E as <- _. rewrite !weights_cons. cbn [weights fold_right]. lia.
  - destruct (Hinv ltac:(cbn [length]; lia)) as [Hstr (y0 & rest0 & suffix & Erun & Elead)]. injection Erun as <- <-.
    pose proof (new_regexp_op p OpLiteral) as Hop0. destruct (new_regexp p OpLiteral) as [prefix p0]. cbn [fst] in Hop0. cbv zeta.
    destruct (fold_step1 (length str) (x0 :: x1 :: rest) (Ok ([], p0)) (clean_ok _)) as [Hc Hl].
    match goal with |- good (match ?f with _ => _ end) _ => destruct f as [[run' p1]| |] eqn:Ef end.
    + specialize (Hl [] p0 run' p1 eq_refl eq_refl). cbn [app] in Hl.
      assert (Hw : (weights run' + length str <= weights (x0 :: x1 :: rest))%nat).
      { rewrite Hl. cbn [map]. rewrite !weights_cons. pose proof (weights_map_rls (length str) rest) as Hr.
        pose proof (rls_le x1 (length str)).
        assert (Hx0 : (length str <= length (fst (leading_string x0)))%nat) by (rewrite Elead, app_length; lia).
        pose proof (rls_exact x0 (length str) Hx0). lia. }
      assert (Hpos : (1 <= length str)%nat) by (destruct str; [congruence|cbn [length]; lia]).
      destruct (collapse_f_good F b run' p1 HF ltac:(lia)) as [Hcc Hcw].
      destruct (collapse_f F run' OpAlternate p1) as [[suffix0 p2]| |] eqn:Ec.
      * pose proof (new_regexp_op p2 OpConcat) as Hop. destruct (new_regexp p2 OpConcat) as [re p3]. cbn [fst] in Hop.
        split; [apply clean_ok|]. intros l' p' E. injection E as <- _.
        rewrite weights_cons, (weight_set_subs_concat _ _ Hop), !weights_cons. cbn [weights fold_right].
        specialize (Hcw _ _ eq_refl).
        (* the prefix is a literal: its weight is the length of str *)
        assert (Hpre' : weight (set_runes (set_flags prefix (if sf then fFoldCase else 0)) str) = length str).
        { destruct prefix as [pi po pf ps pr pc pa pb pk pm]. cbn [n_op] in Hop0. subst po.
          cbn [set_flags set_runes]. apply weight_unfold. }
        rewrite Hpre'. rewrite !weights_cons in Hw. lia.
      * split; [exact (clean_err_cast _ Hcc)|discriminate].
      * destruct (clean_fuel_false Hcc).
    + split; [exact Hc|discriminate].
    + destruct (clean_fuel_false Hc).
Qed.

Lemma common_prefix_l a : forall b, exists s, a = common_prefix a b ++ s.
Proof.
  induction a as [|x a' IH]; intros b; cbn [common_prefix]; [exists []; reflexivity|].
  destruct b as [|y b']; [exists (x :: a'); reflexivity|]. destruct (x =? y); [|exists (x :: a'); reflexivity].
  destruct (IH b') as [s Hs]. exists s. cbn [app]. now rewrite <- Hs.
Qed.
Lemma common_prefix_r a : forall b, exists s, b = common_prefix a b ++ s.
Proof.
  induction a as [|x a' IH]; intros b; cbn [common_prefix]; [exists b; reflexivity|].
  destruct b as [|y b']; [exists []; reflexivity|]. destruct (x =? y) eqn:E; [|exists (y :: b'); reflexivity].
  apply Z.eqb_eq in E. subst y. destruct (IH b') as [s Hs]. exists s. cbn [app]. now rewrite <- Hs.
Qed.

Lemma good_bind_list (r : res (list node * pst)) w (k : list node * pst -> res (list node * pst)) w' :
  good r w -> (forall l p, (weights l <= w)%nat -> good (k (l, p)) w') ->
  good (match r with Ok (l, p) => k (l, p) | Err e => Err e | OutOfFuel => OutOfFuel end) w'.
Proof.
  intros [Hc Hw] Hk. destruct r as [[l p]| |].
  - apply Hk. exact (Hw l p eq_refl).
  - split; [exact Hc|discriminate].
  - destruct (clean_fuel_false Hc).
Qed.

Lemma factor1_good F b : F_ok F b -> forall l run str sf out p,
  (weights l + weights run <= b)%nat ->
  (run <> [] -> exists x0 rest suffix, rev run = x0 :: rest /\ fst (leading_string x0) = str ++ suffix) ->
  ((2 <= length run)%nat -> str <> []) ->
  good (factor1 F l run str sf out p) (weights l + weights run + weights out).
Proof.
  intros HF. induction l as [|x t IH]; intros run str sf out p Hb Hinv Hstr; cbn [factor1].
  - assert (Hfl : good (flush1 F (rev run) str sf out p) (weights run + weights out)).
    { rewrite <- (weights_rev run). apply (flush1_good F b); [exact HF|rewrite weights_rev; lia|].
      rewrite rev_length. intros H2. split; [exact (Hstr H2)|].
      apply Hinv. destruct run; [cbn [length] in H2; lia|discriminate]. }
    destruct Hfl as [Hc Hw]. destruct (flush1 F (rev run) str sf out p) as [[out' p']| |].
    + split; [apply clean_ok|]. intros l' q E. injection E as <- _. rewrite weights_rev. specialize (Hw _ _ eq_refl).
      change (weights []) with O. lia.
    + split; [exact Hc|discriminate].
    + destruct (clean_fuel_false Hc).
  - destruct (leading_string x) as [istr ifold] eqn:El.
    set (same := if Bool.eqb ifold sf then common_prefix str istr else []).
    assert (Hsame : exists s1 s2, str = same ++ s1 /\ (same <> [] -> istr = same ++ s2)).
    { subst same. destruct (Bool.eqb ifold sf).
      - destruct (common_prefix_l str istr) as [s1 H1]. destruct (common_prefix_r str istr) as [s2 H2]. exists s1, s2. split; [exact H1|intros _; exact H2].
      - exists str, []. split; [reflexivity|congruence]. }
    destruct Hsame as (s1 & s2 & Hs1 & Hs2).
    destruct same as [|c same'] eqn:Esame.
    + (* the run ends before x *)
      assert (Hfl : good (flush1 F (rev run) str sf out p) (weights run + weights out)).
      { rewrite <- (weights_rev run). apply (flush1_good F b); [exact HF|rewrite weights_rev; rewrite weights_cons in Hb; lia|].
        rewrite rev_length. intros H2. split; [exact (Hstr H2)|].
        apply Hinv. destruct run; [cbn [length] in H2; lia|discriminate]. }
      apply (good_weaken _ (weights t + weights [x] + (weights run + weights out))%nat);
        [|rewrite !weights_cons; change (weights []) with O; lia].
      refine (good_bind_list _ _ (fun lp => factor1 F t [x] istr ifold (fst lp) (snd lp)) _ Hfl _).
      intros out' p' Hout'. cbn [fst snd].
      apply (good_weaken _ (weights t + weights [x] + weights out')%nat); [|lia].
      apply IH.
      * rewrite !weights_cons in *. change (weights []) with O. lia.
      * intros _. exists x, [], []. split; [reflexivity|]. rewrite El. cbn [fst]. now rewrite app_nil_r.
      * cbn [length]. lia.
    + (* x joins the run *)
      apply (good_weaken _ (weights t + weights (x :: run) + weights out)%nat); [|rewrite !weights_cons; lia].
      apply IH.
      * rewrite !weights_cons in *. lia.
      * intros _. destruct run as [|y run'].
        -- exists x, [], s2. split; [reflexivity|]. rewrite El. cbn [fst]. apply Hs2. discriminate.
        -- destruct (Hinv ltac:(discriminate)) as (x0 & rest & suffix & Hr & Hl).
           exists x0, (rest ++ [x]), (s1 ++ suffix). split.
           ++ change (rev (x :: y :: run')) with (rev (y :: run') ++ [x]). rewrite Hr. reflexivity.
           ++ rewrite Hl, Hs1, <- app_assoc. reflexivity.
      * intros _. discriminate.
Qed.

(* round 2 *)
Lemma fold_step2 run : forall (r0 : res (list node * pst * bool)),
  let step := (fun (st : res (list node * pst * bool)) (x : node) =>
        match st with
        | Ok (acc, p, do_reuse) =>
          let '(x', p) := remove_leading_regexp x do_reuse p in
          match check_limits x' p with
          | Ok p' => Ok (acc ++ [x'], p', true)
          | Err e => Err e
          | OutOfFuel => OutOfFuel
          end
        | r => r
        end) in
  clean r0 -> clean (fold_left step run r0) /\
  forall acc p d l' p' d', r0 = Ok (acc, p, d) -> fold_left step run r0 = Ok (l', p', d') ->
    exists run', l' = acc ++ run' /\ (weights run' <= weights run)%nat /\
      (forall x0 rest g, run = x0 :: rest -> leading_regexp x0 = Some g -> (weights run' + weight g <= weights run)%nat).
Proof.
  induction run as [|x t IH]; intros r0 step Hc; cbn [fold_left].
  - split; [exact Hc|]. intros acc p d l' p' d' -> E. injection E as <- _ _. exists []. rewrite app_nil_r.
    split; [reflexivity|]. split; [lia|]. intros; discriminate.
  - destruct r0 as [[[acc p] d]| |].
    + cbn [step]. destruct (remove_leading_regexp x d p) as [x' p0] eqn:Ex.
      pose proof (check_limits_clean x' p0) as Hcl.
      destruct (check_limits x' p0) as [p1| |] eqn:El.
      * destruct (IH (Ok (acc ++ [x'], p1, true)) (clean_ok _)) as [H1 H2]. split; [exact H1|].
        intros acc0 q0 d0 l' p' d' E0 E. injection E0 as <- <- <-.
        destruct (H2 _ _ _ _ _ _ eq_refl E) as (run'' & Hl & Hw & _).
        exists (x' :: run''). split; [rewrite Hl, <- app_assoc; reflexivity|].
        assert (Hx : x' = fst (remove_leading_regexp x d p)) by (rewrite Ex; reflexivity).
        rewrite !weights_cons. split.
        -- pose proof (rlr_le x d p). rewrite <- Hx in *. lia.
        -- intros x0 rest g Er Hg. injection Er as <- <-. pose proof (rlr_exact x g d p Hg). rewrite <- Hx in *. lia.
      * destruct (IH (Err e) (clean_err_cast _ Hcl)) as [H1 H2]. split; [exact H1|]. intros acc0 q0 d0 l' p' d' E0 E.
        exfalso. clear - E. induction t as [|y t IHt]; cbn [fold_left] in E; [discriminate|]. exact (IHt E).
      * destruct (clean_fuel_false Hcl).
    + destruct (IH (Err e) Hc) as [H1 H2]. split; [exact H1|]. intros; discriminate.
    + destruct (clean_fuel_false Hc).
Qed.

Lemma is_char_class_weight x : is_char_class x = true -> weight x = 1%nat.
Proof.
  destruct x as [i o f subs r c a b k m]. unfold is_char_class. cbn [n_op n_runes]. rewrite weight_unfold.
  destruct o; try discriminate; try reflexivity. unfold zlen. intros H. apply Z.eqb_eq in H. lia.
Qed.

Lemma round2_ok_weight f : round2_ok f = true -> (1 <= weight f)%nat.
Proof.
  unfold round2_ok. destruct (is_char_class f) eqn:E; [rewrite (is_char_class_weight _ E); lia|]. cbn [orb].
  destruct f as [i o ff subs r c a b k m]. cbn [n_op]. destruct o; try discriminate. rewrite weight_unfold. lia.
Qed.

Lemma flush2_good F b run out p : F_ok F b -> (weights run <= b)%nat ->
  ((2 <= length run)%nat -> exists x0 rest f, run = x0 :: rest /\ leading_regexp x0 = Some f /\ round2_ok f = true) ->
  good (flush2 F run out p) (weights run + weights out).
Proof.
  intros HF Hb Hinv. unfold flush2.
  destruct run as [|x0 [|x1 rest]].
  - split; [apply clean_ok|]. intros l' p' E. injection E as <- _. change (weights []) with O. lia.
  - split; [apply clean_ok|]. intros l' p' E. injection E as <- _. rewrite !weights_cons. lia.
  - destruct (Hinv ltac:(cbn [length]; lia)) as (y0 & rest0 & f & Erun & Hlead & Hok). injection Erun as <- <-.
    rewrite Hlead. cbv zeta.
    destruct (fold_step2 (x0 :: x1 :: rest) (Ok ([], p, false)) (clean_ok _)) as [Hc Hl].
    match goal with |- good (match ?ff with _ => _ end) _ => destruct ff as [[[run' p1] d1]| |] eqn:Ef end.
    + destruct (Hl [] p false run' p1 d1 eq_refl eq_refl) as (run'' & Er & _ & Hex). cbn [app] in Er. subst run''.
      specialize (Hex _ _ _ eq_refl Hlead). pose proof (round2_ok_weight f Hok) as Hf.
      destruct (collapse_f_good F b run' p1 HF ltac:(lia)) as [Hcc Hcw].
      destruct (collapse_f F run' OpAlternate p1) as [[suffix0 p2]| |] eqn:Ec.
      * pose proof (new_regexp_op p2 OpConcat) as Hop. destruct (new_regexp p2 OpConcat) as [re p3]. cbn [fst] in Hop.
        split; [apply clean_ok|]. intros l' p' E. injection E as <- _.
        rewrite weights_cons, (weight_set_subs_concat _ _ Hop), !weights_cons. change (weights []) with O.
        specialize (Hcw _ _ eq_refl). rewrite ?weights_cons in Hex. lia.
      * split; [exact (clean_err_cast _ Hcc)|discriminate].
      * destruct (clean_fuel_false Hcc).
    + split; [exact (clean_err_cast _ Hc)|discriminate].
    + destruct (clean_fuel_false Hc).
Qed.

Lemma factor2_good F b : F_ok F b -> forall l run first out p,
  (weights l + weights run <= b)%nat ->
  match rev run with [] => first = None | x0 :: _ => first = leading_regexp x0 end ->
  ((2 <= length run)%nat -> exists f, first = Some f /\ round2_ok f = true) ->
  good (factor2 F l run first out p) (weights l + weights run + weights out).
Proof.
  intros HF. induction l as [|x t IH]; intros run first out p Hb Hinv H2; cbn [factor2].
  - assert (Hfl : good (flush2 F (rev run) out p) (weights run + weights out)).
    { rewrite <- (weights_rev run). apply (flush2_good F b); [exact HF|rewrite weights_rev; lia|].
      rewrite rev_length. intros Hlen. destruct (H2 Hlen) as (f & Hf & Hok).
      destruct (rev run) as [|x0 rest] eqn:Hr; [congruence|].
      exists x0, rest, f. split; [reflexivity|]. split; [congruence|exact Hok]. }
    destruct Hfl as [Hc Hw]. destruct (flush2 F (rev run) out p) as [[out' p']| |].
    + split; [apply clean_ok|]. intros l' q E. injection E as <- _. rewrite weights_rev. specialize (Hw _ _ eq_refl).
      change (weights []) with O. lia.
    + split; [exact Hc|discriminate].
    + destruct (clean_fuel_false Hc).
  - match goal with |- good (if ?c then _ else _) _ => destruct c eqn:Econt end.
    + (* x joins the run *)
      apply (good_weaken _ (weights t + weights (x :: run) + weights out)%nat); [|rewrite !weights_cons; lia].
      destruct first as [f|]; [|discriminate]. destruct (leading_regexp x) as [g|] eqn:Eg; [|discriminate].
      apply andb_prop in Econt. destruct Econt as [_ Hok].
      apply IH.
      * rewrite !weights_cons in *. lia.
      * cbn [rev]. destruct (rev run) as [|x0 rest]; [discriminate|]. exact Hinv.
      * intros _. exists f. split; [reflexivity|exact Hok].
    + (* the run ends before x *)
      assert (Hfl : good (flush2 F (rev run) out p) (weights run + weights out)).
      { rewrite <- (weights_rev run). apply (flush2_good F b); [exact HF|rewrite weights_rev; rewrite weights_cons in Hb; lia|].
        rewrite rev_length. intros Hlen. destruct (H2 Hlen) as (f & Hf & Hok).
        destruct (rev run) as [|x0 rest] eqn:Hr; [congruence|].
        exists x0, rest, f. split; [reflexivity|]. split; [congruence|exact Hok]. }
      apply (good_weaken _ (weights t + weights [x] + (weights run + weights out))%nat);
        [|rewrite !weights_cons; change (weights []) with O; lia].
      refine (good_bind_list _ _ (fun lp => factor2 F t [x] (leading_regexp x) (fst lp) (snd lp)) _ Hfl _).
      intros out' p' Hout'. cbn [fst snd].
      apply (good_weaken _ (weights t + weights [x] + weights out')%nat); [|lia].
      apply IH.
      * rewrite !weights_cons in *. change (weights []) with O. lia.
      * reflexivity.
      * cbn [length]. lia.
Qed.

(* round 3 *)
Definition small (x : node) : Prop := (weight x <= 1)%nat.

Lemma small_leaf i o f subs r c a b k m :
  match o with OpCharClass | OpAnyChar | OpAnyCharNotNL => True | _ => False end -> small (Node i o f subs r c a b k m).
Proof. unfold small. rewrite weight_unfold. destruct o; intros H; try destruct H; lia. Qed.

Lemma merge_small dst src : small dst -> small (merge_char_class dst src).
Proof.
  intros Hd. unfold merge_char_class. destruct dst as [i o f subs r c a b k m]. cbn [n_op].
  destruct o; try exact Hd.
  - destruct (_ && _)%bool; [exact Hd|]. cbn [set_op set_cls set_runes]. apply small_leaf. exact I.
  - destruct (is_lit src); cbn [set_cls]; apply small_leaf; exact I.
  - destruct (match_rune src 10); [|exact Hd]. cbn [set_op]. apply small_leaf. exact I.
Qed.

Lemma clean_alt_small x : small x -> small (clean_alt x).
Proof.
  intros Hx. unfold clean_alt. destruct x as [i o f subs r c a b k m]. cbn [n_op n_cls].
  destruct o; try exact Hx.
  repeat match goal with
         | |- small (match ?e with _ => _ end) => destruct e
         | |- small (if ?e then _ else _) => destruct e
         end; cbn [set_op set_cls]; apply small_leaf; exact I.
Qed.

Lemma swap_first_forall (P : node -> Prop) l k : Forall P l -> Forall P (swap_first l k).
Proof.
  intros Hl. unfold swap_first. destruct l as [|a t]; [destruct k; exact Hl|]. destruct k as [|k']; [exact Hl|].
  destruct (nth_error t k') as [bb|] eqn:En; [|exact Hl].
  inversion Hl as [|? ? Ha Ht]; subst.
  constructor; [exact (proj1 (Forall_forall P t) Ht bb (nth_error_In _ _ En))|].
  apply Forall_app. split; [apply Forall_forall; intros y Hy; apply (proj1 (Forall_forall P t) Ht y); rewrite <- (firstn_skipn k' t); apply in_or_app; left; exact Hy|].
  constructor; [exact Ha|]. apply Forall_forall. intros y Hy. apply (proj1 (Forall_forall P t) Ht y).
  rewrite <- (firstn_skipn (S k') t). apply in_or_app. right. exact Hy.
Qed.

Lemma merge_run_small run p : Forall small run -> small (fst (merge_run run p)).
Proof.
  intros Hr. unfold merge_run. destruct run as [|first rest]; [cbn [fst]; unfold small; pose proof (weight_blank 1 OpNoMatch); lia|].
  pose proof (swap_first_forall small (first :: rest) (max_index (tl (first :: rest)) 1 first 0) Hr) as Hs.
  destruct (swap_first (first :: rest) _) as [|a t]; [cbn [fst]; inversion Hr; assumption|].
  inversion Hs as [|? ? Ha _]; subst.
  assert (Hf : forall t a q, small a -> small (fst (fold_left (fun st x => (merge_char_class (fst st) x, reuse (snd st) x)) t (a, q)))).
  { clear. induction t as [|y t IH]; intros a q Ha; cbn [fold_left fst snd]; [exact Ha|]. apply IH. apply merge_small. exact Ha. }
  specialize (Hf t a p Ha). destruct (fold_left _ t (a, p)) as [a' p']. cbn [fst] in *. apply clean_alt_small. exact Hf.
Qed.

Lemma factor3_le : forall l run out p, Forall (fun x => is_char_class x = true) run ->
  (weights (fst (factor3 l run out p)) <= weights l + weights run + weights out)%nat.
Proof.
  assert (Hflush : forall run out p, Forall (fun x => is_char_class x = true) run ->
    (weights (fst (match run with
                   | [] => (out, p)
                   | [x] => (x :: out, p)
                   | _ => let '(m, p') := merge_run (rev run) p in (m :: out, p')
                   end)) <= weights run + weights out)%nat).
  { intros run out p Hr. destruct run as [|x [|y t]]; cbn [fst]; rewrite ?weights_cons; change (weights []) with O; try lia.
    assert (Hs : Forall small (rev (x :: y :: t))).
    { apply Forall_rev. apply Forall_forall. intros z Hz. unfold small.
      rewrite (is_char_class_weight z (proj1 (Forall_forall _ _) Hr z Hz)). lia. }
    pose proof (merge_run_small _ p Hs) as Hm. destruct (merge_run (rev (x :: y :: t)) p) as [m p']. cbn [fst] in *.
    rewrite weights_cons. unfold small in Hm.
    inversion Hr as [|? ? Hx _]; subst. rewrite (is_char_class_weight x Hx). lia. }
  induction l as [|x t IH]; intros run out p Hr; cbn [factor3].
  - specialize (Hflush run out p Hr).
    destruct (match run with [] => (out, p) | [x] => (x :: out, p) | _ => _ end) as [out' p']. cbn [fst] in *.
    rewrite weights_rev. change (weights []) with O. lia.
  - destruct (is_char_class x) eqn:Ex.
    + specialize (IH (x :: run) out p (Forall_cons _ Ex Hr)). rewrite !weights_cons in *. lia.
    + specialize (Hflush run out p Hr).
      destruct (match run with [] => (out, p) | [x] => (x :: out, p) | _ => _ end) as [out' p']. cbn [fst] in *.
      specialize (IH [] (x :: out') p' (Forall_nil _)). rewrite !weights_cons in *. change (weights []) with O in *. lia.
Qed.

(* round 4 *)
Lemma factor4_le l : (weights (factor4 l) <= weights l)%nat.
Proof.
  induction l as [|x t IH]; [cbn; lia|]. cbn [factor4]. destruct t as [|y t']; [lia|].
  destruct (_ && _)%bool; rewrite ?weights_cons in *; lia.
Qed.

Lemma factor_body_good F sub p : F_ok F (weights sub) -> good (factor_body F sub p) (weights sub).
Proof.
  intros HF. unfold factor_body.
  assert (Hmain : good (match factor1 F sub [] [] false [] p with
                        | Ok (sub1, p1) =>
                          match factor2 F sub1 [] None [] p1 with
                          | Ok (sub2, p2) => let '(sub3, p3) := factor3 sub2 [] [] p2 in Ok (factor4 sub3, p3)
                          | r => r
                          end
                        | r => r
                        end) (weights sub)).
  { pose proof (factor1_good F (weights sub) HF sub [] [] false [] p) as H1.
    change (weights []) with O in H1. specialize (H1 ltac:(lia) ltac:(congruence) ltac:(cbn [length]; lia)).
    destruct H1 as [Hc1 Hw1]. destruct (factor1 F sub [] [] false [] p) as [[sub1 p1]| |]; [|split; [exact Hc1|discriminate]|destruct (clean_fuel_false Hc1)].
    specialize (Hw1 _ _ eq_refl).
    assert (HF1 : F_ok F (weights sub1 + 0)).
    { intros l q Hl. apply HF. lia. }
    pose proof (factor2_good F (weights sub1 + 0) HF1 sub1 [] None [] p1) as H2.
    change (weights []) with O in H2. specialize (H2 ltac:(lia) eq_refl ltac:(cbn [length]; lia)).
    destruct H2 as [Hc2 Hw2]. destruct (factor2 F sub1 [] None [] p1) as [[sub2 p2]| |]; [|split; [exact Hc2|discriminate]|destruct (clean_fuel_false Hc2)].
    specialize (Hw2 _ _ eq_refl).
    pose proof (factor3_le sub2 [] [] p2 (Forall_nil _)) as H3. change (weights []) with O in H3.
    destruct (factor3 sub2 [] [] p2) as [sub3 p3]. cbn [fst] in H3.
    split; [apply clean_ok|]. intros l' q E. injection E as <- _. pose proof (factor4_le sub3). lia. }
  destruct sub as [|x [|y t]]; try exact Hmain.
  split; [apply clean_ok|]. intros l' q E. injection E as <- _. lia.
Qed.

Theorem factor_ok fuel : F_ok (factor fuel) fuel.
Proof.
  induction fuel as [|f IH]; intros l p Hl; [lia|]. cbn [factor].
  apply (factor_body_good (factor f) l p). intros l0 q Hl0. apply IH. lia.
Qed.

Lemma collapse_f_clean F subs o p : F_ok F (S (weights subs)) -> clean (collapse_f F subs o p).
Proof.
  intros HF. unfold collapse_f.
  assert (Hgen :
    clean (let '(re, p0) := new_regexp p o in
           let '(l, p1) := fold_left (fun st s => if op_eqb (n_op s) o then (fst st ++ n_subs s, reuse (snd st) s) else (fst st ++ [s], snd st)) subs ([], p0) in
           match o with
           | OpAlternate =>
             match F l p1 with
             | Ok ([x], p') => Ok (x, reuse p' re)
             | Ok (l', p') => Ok (set_subs re l', p')
             | Err e => Err e
             | OutOfFuel => OutOfFuel
             end
           | _ => Ok (set_subs re l, p1)
           end)).
  { destruct (new_regexp p o) as [re p0].
    destruct (fold_left _ subs ([], p0)) as [l p1] eqn:El.
    destruct o; try apply clean_ok.
    pose proof (flatten_weights OpAlternate subs (or_introl eq_refl) [] p0) as Hfl. rewrite El in Hfl. cbn [fst] in Hfl.
    change (weights []) with O in Hfl.
    destruct (HF l p1 ltac:(lia)) as [Hc _].
    destruct (F l p1) as [[[|z [|? ?]] ?]| |]; try apply clean_ok;
      [exact (clean_err_cast _ Hc)|destruct (clean_fuel_false Hc)]. }
  destruct subs as [|x [|y t]]; try exact Hgen. apply clean_ok.
Qed.

Lemma collapse_clean subs o p : clean (collapse subs o p).
Proof.
  unfold collapse. apply collapse_f_clean. rewrite weights_add_eq.
  intros l q Hl. exact (factor_ok (S (weights subs)) l q Hl).
Qed.

(* ---------------------------------------------------------------- the parser *)
Lemma concat_clean p : clean (concat p).
Proof.
  unfold concat. destruct (split_pseudo _ []) as [subs rest]. destruct subs as [|x t].
  - destruct (new_regexp _ OpEmptyMatch). apply push_clean.
  - pose proof (collapse_clean (x :: t) OpConcat (with_stack (snd (maybe_concat None 0 p)) rest)) as Hc.
    destruct (collapse (x :: t) OpConcat _) as [[re q]| |]; [apply push_clean|exact (clean_err_cast _ Hc)|destruct (clean_fuel_false Hc)].
Qed.

Lemma alternate_clean p : clean (alternate p).
Proof.
  unfold alternate. destruct (split_pseudo _ []) as [subs rest]. destruct (rev subs) as [|last before].
  - destruct (new_regexp _ OpNoMatch). apply push_clean.
  - pose proof (collapse_clean (rev (clean_alt last :: before)) OpAlternate (with_stack p rest)) as Hc.
    destruct (collapse _ OpAlternate _) as [[re q]| |]; [apply push_clean|exact (clean_err_cast _ Hc)|destruct (clean_fuel_false Hc)].
Qed.

Lemma parse_vertical_bar_clean p : clean (parse_vertical_bar p).
Proof.
  unfold parse_vertical_bar. apply clean_bind; [apply concat_clean|]. intros q.
  destruct (swap_vertical_bar q) as [[|] q']; [apply clean_ok|apply push_op_clean].
Qed.

Lemma close_group_clean p : clean (close_group p).
Proof.
  unfold close_group. apply clean_bind; [apply concat_clean|]. intros q.
  destruct (swap_vertical_bar q) as [sw q']. apply alternate_clean.
Qed.

Lemma parse_right_paren_clean p : clean (parse_right_paren p).
Proof.
  unfold parse_right_paren. apply clean_bind; [apply close_group_clean|]. intros q.
  destruct (p_stack q) as [|re1 [|re2 rest]]; try clean_err.
  destruct (negb _); [clean_err|]. destruct (n_cap re2 =? 0); apply push_clean.
Qed.

Lemma act_clean tok lr p : clean (act tok lr p).
Proof.
  destruct tok; cbn [act].
  - apply literal_clean.
  - destruct (new_regexp p OpCharClass). apply literal_clean.
  - unfold left_paren. destruct (new_regexp _ OpLeftParen) as [re q]. destruct re. apply push_clean.
  - unfold left_paren. destruct (new_regexp _ OpLeftParen) as [re q]. destruct re. apply push_clean.
  - apply clean_bind; [destruct group; [apply push_op_clean|apply clean_ok]|]. intros q. apply clean_ok.
  - apply parse_vertical_bar_clean.
  - apply parse_right_paren_clean.
  - apply push_op_clean.
  - destruct (has (p_flags p) fOneLine); [destruct (new_regexp p OpEndText); apply push_clean|apply push_op_clean].
  - apply push_op_clean.
  - unfold push_class. destruct (new_regexp p OpCharClass). apply push_clean.
  - apply repeat_clean.
  - apply push_op_clean.
  - apply clean_bind; [|intros q; destruct bad; [clean_err|apply clean_ok]].
    assert (H : forall r0, clean r0 -> clean (fold_left (fun r c => bind r (literal c)) runes r0)).
    { induction runes as [|c t IH]; intros r0 Hr; cbn [fold_left]; [exact Hr|]. apply IH. apply clean_bind; [exact Hr|]. intros q. apply literal_clean. }
    apply H. apply clean_ok.
Qed.

Lemma parse_loop_clean fuel : forall t lr p, (length t < fuel)%nat -> clean (parse_loop fuel t lr p).
Proof.
  induction fuel as [|f IH]; intros t lr p Hf; [lia|]. cbn [parse_loop].
  destruct t as [|b t']; [apply clean_ok|].
  assert (Hlf : lex f (p_flags p) b t' <> OutOfFuel) by (apply lex_fuel; cbn [length] in Hf; lia).
  destruct (lex f (p_flags p) b t') as [[tok rest]| |] eqn:Hl.
  - apply lex_lt in Hl. pose proof (act_clean tok lr p) as Ha. destruct (act tok lr p) as [p'| |]; try exact Ha.
    apply IH. cbn [length] in Hf. lia.
  - split; [discriminate|]. intros H. injection H as ->. exact (lex_internal _ _ _ _ Hl).
  - congruence.
Qed.

(* syntax.Parse never runs out of fuel and never takes the branch the Go code cannot take *)
Theorem rx_parse_clean s : clean (rx_parse s).
Proof.
  unfold rx_parse.
  assert (Hb : clean (bind (parse_loop (S (length s)) s false p_init) close_group)).
  { apply clean_bind; [apply parse_loop_clean; lia|intros q; apply close_group_clean]. }
  destruct (bind _ close_group) as [p| |].
  - destruct (p_stack p) as [|re [|? ?]]; try clean_err. apply clean_ok.
  - exact (clean_err_cast _ Hb).
  - destruct (clean_fuel_false Hb).
Qed.

Theorem rx_parse_fuel_enough s : rx_parse s <> OutOfFuel.
Proof. exact (proj1 (rx_parse_clean s)). Qed.

Theorem rx_parse_total s :
  (exists re, rx_parse s = Ok re) \/ (exists e, rx_parse s = Err e /\ e <> ErrInternal).
Proof.
  destruct (rx_parse_clean s) as [Hf Hi]. destruct (rx_parse s) as [re|e|].
  - left. exists re. reflexivity.
  - right. exists e. split; [reflexivity|]. intros ->. exact (Hi eq_refl).
  - congruence.
Qed.

(* rx_valid is false only because of an error of regexp/syntax *)
Theorem rx_valid_spec s :
  (rx_valid s = true /\ exists re, rx_parse s = Ok re) \/
  (rx_valid s = false /\ exists e, rx_parse s = Err e /\ e <> ErrInternal).
Proof.
  unfold rx_valid. destruct (rx_parse_total s) as [[re H]|[e [H He]]]; rewrite H.
  - left. split; [reflexivity|]. exists re. reflexivity.
  - right. split; [reflexivity|]. exists e. split; [reflexivity|exact He].
Qed.

(* the orbits of SimpleFold close within the four steps fold_orbit walks *)
Lemma fold_orbit_closes :
  forallb (fun rf => let c := fst rf in
                     let o := fold_orbit c in
                     simple_fold (last o c) =? c) simple_fold_pairs = true.
Proof. vm_compute. reflexivity. Qed.

