(* C20: the statements of Properties/C20.v assembled from PortfolioDays (processed days, one
   return per period), PortfolioReturns (return laws), PortfolioWeights (weights report) and
   PortfolioWitness (vm_compute witnesses for the pinned code). *)
From Coq Require Import ZArith QArith Qfield List Bool Lia.
From Knut Require Import Model.Str Model.Dec Model.Date Model.Account Model.Ledger Model.Price
     Model.Journal Model.Cli Model.Perf Model.Weights Model.CliPortfolio Spec.PortfolioSpec
     Proofs.PortfolioDays Proofs.PortfolioReturns Proofs.PortfolioWeights Proofs.PortfolioWitness.
Import ListNotations.
Open Scope Q_scope.

(* ------------------------------------------------------------ weights: the value used *)

Lemma weights_value_record cfg pre d post vs :
  day_values cfg (pre ++ d :: post) = COk vs ->
  exists v0, nth_error (fst vs) (length pre) =
             Some (d_date d, (v0, vals_pcv (fold_left (values_step (pf_calc cfg)) (flat_map day_postings (pre ++ [d])) []))).
Proof.
  unfold day_values, run_stage, compute_values_proc. rewrite pure_proc_days. cbn [of_presult cbind fst snd].
  intros H. inversion H; subst. cbn [fst]. apply cv_record.
Qed.

(* ------------------------------------------------------------ weights: definition *)

Lemma weight_def v total :
  (forall q, qdiv v total = Some q -> ~ total == 0 /\ q == v / total) /\ (qdiv v total = None <-> total == 0).
Proof. split; [intros q; apply qdiv_some|apply qdiv_none]. Qed.

(* ------------------------------------------------------------ weights: top level *)

Lemma day_entries_dates u m date total v1 es :
  day_entries u m date total v1 = WOk es -> Forall (fun e => entry_date e = date) es.
Proof.
  revert es. induction v1 as [|[c v] v1 IH]; intros es H; cbn [day_entries] in H.
  - inversion H; constructor.
  - destruct (map_path m (locate u c)); try discriminate. destruct (day_entries u m date total v1); try discriminate.
    inversion H; subst. constructor; [reflexivity|apply IH; reflexivity].
Qed.

Definition dated (d : Z) (es : list entry) : Q :=
  qsum (map (fun e => if (entry_date e =? d)%Z then entry_w e else 0) es).

Lemma dated_other d es : Forall (fun e => entry_date e <> d) es -> dated d es == 0.
Proof.
  unfold dated, qsum. induction es as [|e es IH]; intros H; cbn [map fold_right]; [reflexivity|].
  inversion H; subst. replace (entry_date e =? d)%Z with false by (symmetry; apply Z.eqb_neq; assumption).
  rewrite (IH H3). ring.
Qed.

Lemma dated_same d es : Forall (fun e => entry_date e = d) es -> dated d es == qsum (map entry_w es).
Proof.
  unfold dated, qsum. induction es as [|e es IH]; intros H; cbn [map fold_right]; [reflexivity|].
  inversion H; subst. rewrite Z.eqb_refl, (IH H3). reflexivity.
Qed.

Lemma dated_app d a b : dated d (a ++ b) == dated d a + dated d b.
Proof. unfold dated. rewrite map_app. apply qsum_app. Qed.

Lemma defined_app a b : defined_entries a -> defined_entries b -> defined_entries (a ++ b).
Proof. unfold defined_entries. intros. apply Forall_app. split; assumption. Qed.

(* the report of a run: the entries of the date in question, between entries of other dates *)
Lemma top_100 u m date v1 day_es before after :
  day_entries u m date (pcv_sum v1) v1 = WOk day_es -> ~ pcv_sum v1 == 0 ->
  defined_entries before -> defined_entries after ->
  Forall (fun e => entry_date e <> date) before -> Forall (fun e => entry_date e <> date) after ->
  Forall (fun e => entry_path e <> []) (before ++ day_es ++ after) ->
  qsum (map (fun c => nweight c date) (wn_children (propagate (report_of (before ++ day_es ++ after))))) == 1.
Proof.
  intros Hd Hnz Hb Ha Hbd Had Hp. destruct (day_entries_top _ _ _ _ _ Hd Hnz) as [Hdef Hsum].
  rewrite top_level_sum; [|apply defined_app; [exact Hb|apply defined_app; assumption]|exact Hp].
  fold (dated date (before ++ day_es ++ after)). rewrite !dated_app, (dated_other _ _ Hbd), (dated_other _ _ Had).
  rewrite (dated_same _ _ (day_entries_dates _ _ _ _ _ _ Hd)), Hsum. ring.
Qed.

(* ------------------------------------------------------------ returns: the two laws per period *)

Definition reported (part : partition) (ends : list Z) (l : list perf) (p : perf) : option Q :=
  match run (l ++ [p]) (Some 1) with Some x => Some (qsub x 1) | None => None end.

(* the processed days of one period, after a reported period end (or at the start of the
   window): perf_loop reports [reported] for the period end *)
Lemma period_reported part ends l p rest :
  Forall (fun x => partition_contains part (pf_date x) = true /\ mem ends (pf_date x) = false) l ->
  partition_contains part (pf_date p) = true -> mem ends (pf_date p) = true ->
  perf_loop part ends (Some 1) (l ++ p :: rest) = (pf_date p, reported part ends l p) :: perf_loop part ends (Some 1) rest.
Proof. intros. apply perf_loop_period; assumption. Qed.

Lemma external_flows_zero part ends l p :
  Forall (fun x => p_v1 x == p_v0 x + p_inflow x + p_outflow x) (l ++ [p]) ->
  is_or_undef (reported part ends l p) 0.
Proof.
  intros H. unfold reported.
  assert (Hr : is_or_undef (run (l ++ [p]) (Some 1)) 1).
  { apply run_ones.
    - eapply Forall_impl; [|exact H]. intros x Hx. apply performance_external. exact Hx.
    - right. exists 1. split; reflexivity. }
  destruct Hr as [->|[q [-> Hq]]]; [left; reflexivity|]. right. exists (qsub q 1). split; [reflexivity|].
  rewrite qsub_eq, Hq. ring.
Qed.

Lemma chained_join prev vs fs : records_chain prev vs -> chained (pcv_sum prev) (join_perf vs fs).
Proof.
  revert prev. induction vs as [|[d [v0 v1]] vs IH]; intros prev H; cbn [join_perf map chained]; [exact I|].
  destruct H as [-> H]. split; [reflexivity|]. apply IH. exact H.
Qed.

Lemma no_flow_ratio part ends l p v :
  chained v (l ++ [p]) -> ~ v == 0 ->
  Forall (fun x => p_inflow x == 0 /\ p_outflow x == 0 /\ ~ p_v0 x == 0) (l ++ [p]) ->
  exists q, reported part ends l p = Some q /\ q == p_v1 p / v - 1.
Proof.
  intros Hc Hv Hf. unfold reported. destruct (run_telescopes (l ++ [p]) v 1 Hc Hf Hv) as [q [Hr Hq]].
  rewrite Hr. exists (qsub q 1). split; [reflexivity|]. rewrite qsub_eq, Hq.
  unfold last_v1. rewrite fold_left_app. cbn [fold_left]. ring.
Qed.
