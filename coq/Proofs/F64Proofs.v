(* Bounds for the percent cell of a weight in [0, 1] (Model/F64.v, Model/WeightsTable.v): the
   float64 product n * 100 is a number not above 100 (rounding to nearest never crosses the
   representable 100), its numeral at p places has at most p + 4 runes; hence such a cell
   fits the ten runes of a date column for p <= 5, and the weights report of a portfolio
   without short positions is rectangular at --digits 0..5. *)
From Coq Require Import ZArith List Bool Lia.
From Knut Require Import Model.Str Model.Dec Model.Table Model.F64 Model.WeightsTable
     Spec.TableSpec Spec.WeightsTableSpec Spec.BeancountLex
     Proofs.DecStringProofs Proofs.TableProofs Proofs.WeightsTableProofs.
Import ListNotations.
Open Scope bool_scope.
Open Scope Z_scope.

(* m * 2^e <= 100, without rationals *)
Definition le100 (m e : Z) : Prop := if 0 <=? e then m * 2 ^ e <= 100 else m <= 100 * 2 ^ (- e).

(* ------------------------------------------------------------------ rounding to nearest *)
Lemma rhe_div_le a b K : 0 < b -> 0 <= a -> a <= K * b -> rhe_div a b <= K.
Proof.
  intros Hb Ha HK. unfold rhe_div.
  pose proof (Z.div_mod a b ltac:(lia)) as E. pose proof (Z.mod_pos_bound a b Hb) as Hr.
  set (q := a / b) in *. set (r := a mod b) in *.
  destruct ((b <? 2 * r) || ((2 * r =? b) && Z.odd q)) eqn:C.
  - assert (Hr0 : 0 < r).
    { apply orb_true_iff in C. destruct C as [C|C]; [apply Z.ltb_lt in C; lia|].
      apply andb_prop in C. destruct C as [C _]. apply Z.eqb_eq in C. lia. }
    nia.
  - nia.
Qed.

Lemma rhe_div_nonneg a b : 0 < b -> 0 <= a -> 0 <= rhe_div a b.
Proof.
  intros Hb Ha. unfold rhe_div. pose proof (Z.div_pos a b Ha Hb) as Hq.
  destruct ((b <? 2 * (a mod b)) || ((2 * (a mod b) =? b) && Z.odd (a / b))); lia.
Qed.

Lemma bitlen_le M k : 0 < M -> M < 2 ^ k -> bitlen M <= k.
Proof.
  intros HM Hk. unfold bitlen. replace (M <=? 0) with false by lia.
  assert (Z.log2 M < k) by (apply Z.log2_lt_pow2; assumption). lia.
Qed.

Lemma pow2_pos k : 0 < 2 ^ k \/ k < 0.
Proof. destruct (Z_lt_ge_dec k 0); [right; lia|left; apply Z.pow_pos_nonneg; lia]. Qed.

(* a value not above 100 has at most 7 bits before the binary point *)
Lemma le100_bits M E : 0 < M -> le100 M E -> bitlen M + E <= 7.
Proof.
  intros HM H. unfold le100 in H. destruct (0 <=? E) eqn:HE.
  - apply Z.leb_le in HE.
    assert (HE7 : E < 7).
    { destruct (Z_lt_ge_dec E 7) as [|Hge]; [assumption|].
      pose proof (Z.pow_le_mono_r 2 7 E ltac:(lia) ltac:(lia)) as Hp. change (2 ^ 7) with 128 in Hp. nia. }
    assert (Hb : bitlen M <= 7 - E).
    { apply bitlen_le; [exact HM|].
      assert (Hs : 2 ^ 7 = 2 ^ (7 - E) * 2 ^ E) by (rewrite <- Z.pow_add_r by lia; f_equal; lia).
      change (2 ^ 7) with 128 in Hs.
      pose proof (Z.pow_pos_nonneg 2 E ltac:(lia) HE) as HpE.
      pose proof (Z.pow_pos_nonneg 2 (7 - E) ltac:(lia) ltac:(lia)) as Hp7. nia. }
    lia.
  - apply Z.leb_gt in HE.
    assert (Hb : bitlen M <= 7 - E).
    { apply bitlen_le; [exact HM|].
      assert (Hs : 2 ^ (7 - E) = 128 * 2 ^ (- E)).
      { replace (7 - E) with (7 + - E) by lia. rewrite Z.pow_add_r by lia. reflexivity. }
      pose proof (Z.pow_pos_nonneg 2 (- E) ltac:(lia) ltac:(lia)) as HpE. lia. }
    lia.
Qed.

(* the float64 nearest to a value in (0, 100] is a number not above 100 *)
Lemma f64_round_le100 M E : 0 < M -> le100 M E ->
  exists q e', f64_round false M E = FFin false q e' /\ 0 <= q /\ le100 q e'.
Proof.
  intros HM H. pose proof (le100_bits M E HM H) as Hbits.
  unfold f64_round. replace (M <=? 0) with false by lia. cbv zeta.
  set (e' := Z.max (E + bitlen M - 53) (- 1074)).
  assert (He'neg : e' < 0) by (unfold e'; lia).
  assert (He'lb : - 1074 <= e') by (unfold e'; lia).
  pose proof (Z.pow_pos_nonneg 2 (- e') ltac:(lia) ltac:(lia)) as HPe.
  set (q := if e' <=? E then M * 2 ^ (E - e') else rhe_div M (2 ^ (e' - E))).
  assert (Hq : 0 <= q /\ q <= 100 * 2 ^ (- e')).
  { unfold q. destruct (e' <=? E) eqn:C.
    - apply Z.leb_le in C.
      pose proof (Z.pow_pos_nonneg 2 (E - e') ltac:(lia) ltac:(lia)) as HP1.
      split; [nia|].
      unfold le100 in H. destruct (0 <=? E) eqn:HE.
      + apply Z.leb_le in HE.
        assert (Hs : 2 ^ (E - e') = 2 ^ E * 2 ^ (- e')) by (rewrite <- Z.pow_add_r by lia; f_equal; lia).
        rewrite Hs. nia.
      + apply Z.leb_gt in HE.
        assert (Hs : 2 ^ (- e') = 2 ^ (- E) * 2 ^ (E - e')) by (rewrite <- Z.pow_add_r by lia; f_equal; lia).
        rewrite Hs. nia.
    - apply Z.leb_gt in C.
      pose proof (Z.pow_pos_nonneg 2 (e' - E) ltac:(lia) ltac:(lia)) as HP1.
      split; [apply rhe_div_nonneg; lia|].
      apply rhe_div_le; [exact HP1|lia|].
      unfold le100 in H. replace (0 <=? E) with false in H by lia.
      assert (Hs : 2 ^ (- E) = 2 ^ (- e') * 2 ^ (e' - E)) by (rewrite <- Z.pow_add_r by lia; f_equal; lia).
      rewrite <- Z.mul_assoc, <- Hs. exact H. }
  destruct Hq as [Hq0 Hq100].
  assert (Hov : (1024 <? bitlen q + e') = false).
  { apply Z.ltb_ge. destruct (Z.eq_dec q 0) as [->|Hqn]; [cbn; lia|].
    assert (Hb : bitlen q <= 7 - e').
    { apply bitlen_le; [lia|].
      assert (Hs : 2 ^ (7 - e') = 128 * 2 ^ (- e')).
      { replace (7 - e') with (7 + - e') by lia. rewrite Z.pow_add_r by lia. reflexivity. }
      lia. }
    lia. }
  rewrite Hov. exists q, e'. split; [reflexivity|]. split; [exact Hq0|].
  unfold le100. replace (0 <=? e') with false by lia. exact Hq100.
Qed.

Lemma f64_scaled_le p q e : 0 <= p -> 0 <= q -> le100 q e -> 0 <= f64_scaled p q e <= 100 * 10 ^ p.
Proof.
  intros Hp Hq H. unfold f64_scaled, le100 in *.
  pose proof (Z.pow_pos_nonneg 10 p ltac:(lia) Hp) as H10.
  destruct (0 <=? e) eqn:He.
  - apply Z.leb_le in He. pose proof (Z.pow_pos_nonneg 2 e ltac:(lia) He) as H2. split; nia.
  - apply Z.leb_gt in He. pose proof (Z.pow_pos_nonneg 2 (- e) ltac:(lia) ltac:(lia)) as H2.
    split; [apply rhe_div_nonneg; nia|]. apply rhe_div_le; [exact H2|nia|nia].
Qed.

(* ------------------------------------------------------------------ length of the numeral *)
Lemma rune_count_le_length s : rune_count s <= Z.of_nat (length s).
Proof.
  unfold rune_count. apply inj_le. induction s as [|c s IH]; [cbn; lia|].
  cbn [filter]. destruct (negb _); cbn [length]; lia.
Qed.

Lemma digits_len_le N k : 0 <= N < 10 ^ k -> 0 < k -> Z.of_nat (length (digits N)) <= k.
Proof.
  intros HN Hk. destruct (Z.eq_dec N 0) as [->|Hn]; [rewrite digits_zero; cbn; lia|].
  pose proof (digits_length_bounds N ltac:(lia)) as [Hlo _].
  set (len := Z.of_nat (length (digits N))) in *.
  destruct (Z_le_gt_dec len k) as [|Hgt]; [assumption|].
  pose proof (Z.pow_le_mono_r 10 k (len - 1) ltac:(lia) ltac:(lia)). lia.
Qed.

Lemma fixed_numeral_len N p :
  0 <= p -> 0 <= N <= 10 ^ (p + 2) ->
  Z.of_nat (length (to_string_gen false (mkDec N (- p)))) <= p + 4.
Proof.
  intros Hp HN.
  assert (HN3 : N < 10 ^ (p + 3)).
  { replace (p + 3) with (p + 2 + 1) by lia. rewrite Z.pow_add_r by lia.
    pose proof (Z.pow_pos_nonneg 10 (p + 2) ltac:(lia) ltac:(lia)). lia. }
  pose proof (digits_len_le N (p + 3) ltac:(lia) ltac:(lia)) as Hlen.
  destruct (Z.eq_dec p 0) as [->|Hp0].
  - rewrite to_string_gen_int by (cbn; lia). unfold sgn. cbn [coef ex].
    replace (N <? 0) with false by lia. cbn [app Z.opp]. change (10 ^ 0) with 1.
    rewrite Z.mul_1_r, Z.abs_eq by lia.
    pose proof (digits_len_le N 3 ltac:(change (0 + 2) with 2 in HN; change (10 ^ 2) with 100 in HN; change (10 ^ 3) with 1000; lia) ltac:(lia)).
    lia.
  - rewrite to_string_gen_neg_ex by (cbn [ex]; lia). unfold sgn. cbn [coef].
    replace (N <? 0) with false by lia. cbn [app].
    destruct (frac_split_spec (mkDec N (- p)) ltac:(cbn [ex]; lia)) as (_ & _ & _ & Hfp & _).
    cbn [ex] in Hfp.
    assert (Hip : Z.of_nat (length (fst (frac_split (mkDec N (- p))))) <= 3).
    { unfold frac_split. cbn [coef ex]. rewrite Z.abs_eq by lia.
      destruct (- - p <? Z.of_nat (length (digits N))) eqn:C; cbn [fst].
      - rewrite firstn_length. lia.
      - cbn. lia. }
    rewrite app_length. unfold frac_tail.
    destruct (snd (frac_split (mkDec N (- p)))) as [|c fp] eqn:Efp; [cbn [length] in *; lia|].
    rewrite app_length. cbn [length] in *. lia.
Qed.

(* ------------------------------------------------------------------ a weight in [0, 1] *)
Theorem pct_len_unit round n : 0 <= round <= 1000000 -> f64_in_unit n -> pct_len round n <= round + 5.
Proof.
  intros Hr Hu. destruct n as [|s|s m e]; try contradiction. destruct s; [contradiction|].
  destruct Hu as [Hm Hv].
  unfold pct_len, pct_num, pct_prec, pct_badprec.
  replace (round <? 0) with false by lia. replace (1000000 <? round) with false by lia. cbn [orb].
  assert (Hr0 : 0 <= round) by lia.
  cbn [f64_mul100].
  assert (Hx : exists q e', f64_round false (m * 100) e = FFin false q e' /\ 0 <= q /\ le100 q e').
  { destruct (Z.eq_dec m 0) as [->|Hm0].
    - exists 0, 0. split; [reflexivity|]. split; [lia|]. unfold le100. cbn. lia.
    - apply f64_round_le100; [lia|]. unfold le100. destruct (0 <=? e) eqn:He.
      + apply Z.leb_le in He. pose proof (Z.pow_pos_nonneg 2 e ltac:(lia) He). nia.
      + lia. }
  destruct Hx as (q & e' & -> & Hq & Hle). cbn [fmt_f app].
  pose proof (f64_scaled_le round q e' Hr0 Hq Hle) as [HN0 HN].
  pose proof (fixed_numeral_len (f64_scaled round q e') round Hr0) as Hlen.
  assert (H100 : 100 * 10 ^ round = 10 ^ (round + 2)) by (rewrite Z.pow_add_r by lia; change (10 ^ 2) with 100; lia).
  specialize (Hlen ltac:(lia)).
  pose proof (rune_count_le_length (to_string_gen false (mkDec (f64_scaled round q e') (- round)))). lia.
Qed.

Lemma unit_fits round n : 0 <= round <= 5 -> f64_in_unit n -> pcell_fits_b round (WPct n) 10 = true.
Proof.
  intros Hr Hu. pose proof (pct_len_unit round n ltac:(lia) Hu) as Hl.
  cbn [pcell_fits_b]. destruct n as [|s|s m e]; try contradiction. cbn [f64_is_nan].
  apply andb_true_iff. split; [|apply Z.leb_le; lia].
  unfold pct_badprec. replace (round <? 0) with false by lia. replace (1000000 <? round) with false by lia. reflexivity.
Qed.

Theorem weights_text_rect_unit round dates rows :
  0 <= round <= 5 ->
  Forall (fun d => date_lex_b d = true) dates ->
  Forall (frow_ok (length dates)) rows ->
  Forall frow_unit rows ->
  rect_b (S (length dates)) (weights_text round dates rows) = true.
Proof.
  intros Hr Hd Hrows Hu. apply weights_text_rect; try assumption.
  eapply Forall_impl; [|exact Hu]. intros [[ind s] cells] Hc. cbn [frow_unit frow_fits] in *.
  eapply Forall_impl; [|exact Hc]. intros [n|] Hn; [apply unit_fits; assumption|exact I].
Qed.
