(* C02 (3), the sort order: with --sort-alphabetically the account rows of the table (depth-first
   over the sorted report tree: top level by account type, below by segment name) are in the
   order of LedgerSpec.all_rows (insertion by row_ltb: account type, then the path
   lexicographically).  Both lists are strictly increasing for row_ltb and have the same members
   (C02_rows); a strictly increasing list is determined by its members. *)
From Coq Require Import ZArith QArith List Bool Lia Permutation Sorting.
From Knut Require Import Model.Str Model.Dec Model.Date Model.Account Model.Ledger Model.Price
     Model.Journal Model.Check Model.Pipeline Model.Table Model.Report Model.Cli
     Spec.WellformedSpec Spec.LedgerSpec Spec.LedgerSyntax Spec.BalanceTableSpec
     Proofs.DecValue Proofs.StrProofs Proofs.CheckLemmas Proofs.StableSort Proofs.MapOrderProofs
     Proofs.ReportSum Proofs.Conservation Proofs.LedgerProofs
     Proofs.CloseProofs Proofs.LayoutProofs Proofs.MarkToMarketMapped
     Proofs.BalanceTableLayout Proofs.BalanceTableTree Proofs.BalanceTableCells Proofs.BalanceTableTotals
     Proofs.BalanceTableDates Proofs.BalanceTableLines Proofs.BalanceCsv.
Import ListNotations.
Open Scope Z_scope.

(* ------------------------------------------------------------ path_cmp and row_ltb *)

Lemma path_cmp_refl a : path_cmp a a = Eq.
Proof. induction a as [|x a IH]; cbn [path_cmp]; [reflexivity|]. rewrite str_cmp_refl. exact IH. Qed.

Lemma path_cmp_eq : forall a b, path_cmp a b = Eq -> a = b.
Proof.
  induction a as [|x a IH]; intros [|y b]; cbn [path_cmp]; intros H; try reflexivity; try discriminate.
  destruct (str_cmp x y) eqn:E; try discriminate. apply str_cmp_eq in E. subst y. f_equal. apply IH. exact H.
Qed.

Lemma path_cmp_antisym : forall a b, path_cmp b a = CompOpp (path_cmp a b).
Proof.
  induction a as [|x a IH]; intros [|y b]; cbn [path_cmp]; try reflexivity.
  rewrite (str_cmp_antisym x y). destruct (str_cmp x y); cbn [CompOpp]; [apply IH|reflexivity|reflexivity].
Qed.

Lemma str_cmp_lt_irrefl a : str_cmp a a <> Lt.
Proof. rewrite str_cmp_refl. discriminate. Qed.

Lemma path_cmp_lt_trans : forall a b c, path_cmp a b = Lt -> path_cmp b c = Lt -> path_cmp a c = Lt.
Proof.
  induction a as [|x a IH]; intros [|y b] [|z c]; cbn [path_cmp]; intros H1 H2; try reflexivity; try discriminate.
  destruct (str_cmp x y) eqn:E1; try discriminate.
  - apply str_cmp_eq in E1. subst y. destruct (str_cmp x z) eqn:E2; try discriminate; [|reflexivity]. exact (IH _ _ H1 H2).
  - destruct (str_cmp y z) eqn:E2; try discriminate.
    + apply str_cmp_eq in E2. subst z. rewrite E1. reflexivity.
    + rewrite (str_cmp_lt_trans _ _ _ E1 E2). reflexivity.
Qed.

Lemma path_cmp_prefix p : forall suf, suf <> [] -> path_cmp p (p ++ suf) = Lt.
Proof.
  induction p as [|x p IH]; intros suf Hne; cbn [app path_cmp].
  - destruct suf; [contradiction|reflexivity].
  - rewrite str_cmp_refl. apply IH. exact Hne.
Qed.

Lemma path_cmp_diverge p a b s1 s2 : str_cmp a b = Lt -> path_cmp (p ++ a :: s1) (p ++ b :: s2) = Lt.
Proof.
  intros H. induction p as [|x p IH]; cbn [app path_cmp]; [rewrite H; reflexivity|]. rewrite str_cmp_refl. exact IH.
Qed.

Definition rlt (a b : account) : Prop := row_ltb a b = true.

Lemma rlt_spec a b : rlt a b <-> acc_rank a < acc_rank b \/ (acc_rank a = acc_rank b /\ path_cmp a b = Lt).
Proof.
  unfold rlt, row_ltb. destruct (acc_rank a <? acc_rank b) eqn:E1; [split; [intros _; left; lia|reflexivity]|].
  destruct (acc_rank b <? acc_rank a) eqn:E2; [split; [discriminate|intros [H|[H _]]; lia]|].
  destruct (path_cmp a b); split; try discriminate; try reflexivity; try (intros _; right; split; [lia|reflexivity]);
    intros [H|[_ H]]; try lia; discriminate.
Qed.

Lemma rlt_irrefl a : ~ rlt a a.
Proof. rewrite rlt_spec. rewrite path_cmp_refl. intros [H|[_ H]]; [lia|discriminate]. Qed.

Lemma rlt_trans a b c : rlt a b -> rlt b c -> rlt a c.
Proof.
  rewrite !rlt_spec. intros [H1|[H1 P1]] [H2|[H2 P2]]; try (left; lia).
  right. split; [lia|exact (path_cmp_lt_trans _ _ _ P1 P2)].
Qed.

Lemma rlt_total a b : ~ rlt a b -> ~ rlt b a -> a = b.
Proof.
  rewrite !rlt_spec. intros H1 H2.
  assert (Hr : acc_rank a = acc_rank b) by lia.
  apply path_cmp_eq. pose proof (path_cmp_antisym a b) as Hanti.
  destruct (path_cmp a b) eqn:E; [reflexivity|exfalso; apply H1; right; split; [exact Hr|reflexivity]|].
  exfalso. apply H2. right. split; [lia|]. rewrite Hanti. reflexivity.
Qed.

Definition rsorted (l : list account) : Prop := StronglySorted rlt l.

(* a strictly increasing list is determined by its members *)
Lemma rsorted_ext : forall l1 l2, rsorted l1 -> rsorted l2 -> (forall x, In x l1 <-> In x l2) -> l1 = l2.
Proof.
  induction l1 as [|a l1 IH]; intros l2 H1 H2 Hm.
  - destruct l2 as [|b l2]; [reflexivity|]. exfalso. apply (proj2 (Hm b)). left. reflexivity.
  - destruct l2 as [|b l2]; [exfalso; apply (proj1 (Hm a)); left; reflexivity|].
    inversion H1 as [|? ? S1 A1]; subst. inversion H2 as [|? ? S2 B1]; subst. rewrite Forall_forall in A1, B1.
    assert (Hab : a = b).
    { destruct (proj1 (Hm a) (or_introl eq_refl)) as [E|Hin]; [symmetry; exact E|].
      destruct (proj2 (Hm b) (or_introl eq_refl)) as [E|Hin2]; [exact E|].
      exfalso. apply (rlt_irrefl a). exact (rlt_trans _ _ _ (A1 _ Hin2) (B1 _ Hin)). }
    subst b. f_equal. apply IH; [exact S1|exact S2|]. intros x. split; intros Hx.
    + destruct (proj1 (Hm x) (or_intror Hx)) as [E|Hin]; [|exact Hin]. subst x. exfalso. exact (rlt_irrefl a (A1 _ Hx)).
    + destruct (proj2 (Hm x) (or_intror Hx)) as [E|Hin]; [|exact Hin]. subst x. exfalso. exact (rlt_irrefl a (B1 _ Hx)).
Qed.

(* ------------------------------------------------------------ all_rows *)

Lemma row_ltb_false a b : row_ltb a b = false <-> ~ rlt a b.
Proof. unfold rlt. destruct (row_ltb a b); split; try congruence; intros H; exfalso; apply H; reflexivity. Qed.

Lemma insert_row_in x r : forall l, In x (insert_row r l) <-> x = r \/ In x l.
Proof.
  induction l as [|y l IH]; cbn [insert_row]; [cbn [In]; intuition congruence|].
  destruct (row_ltb r y) eqn:E1; [cbn [In]; intuition congruence|].
  destruct (row_ltb y r) eqn:E2; [cbn [In]; rewrite IH; intuition congruence|].
  apply row_ltb_false in E1. apply row_ltb_false in E2. pose proof (rlt_total _ _ E1 E2) as ->. cbn [In]. intuition congruence.
Qed.

Lemma insert_row_sorted r : forall l, rsorted l -> rsorted (insert_row r l).
Proof.
  induction l as [|y l IH]; intros Hs; cbn [insert_row]; [repeat constructor|].
  inversion Hs as [|? ? Hl Hy]; subst.
  destruct (row_ltb r y) eqn:E1.
  - constructor; [exact Hs|]. constructor; [exact E1|]. rewrite Forall_forall in *. intros w Hw. exact (rlt_trans _ _ _ E1 (Hy w Hw)).
  - destruct (row_ltb y r) eqn:E2; [|exact Hs].
    constructor; [apply IH; exact Hl|]. rewrite Forall_forall in *. intros w Hw. apply insert_row_in in Hw.
    destruct Hw as [->|Hw]; [exact E2|exact (Hy w Hw)].
Qed.

Definition rows_step (l : list account) (e : entry) : list account :=
  let '(_, a, _, _) := e in fold_left (fun l r => insert_row r l) (prefixes_from [] a) l.

Lemma fold_insert_in x rs : forall l, In x (fold_left (fun l r => insert_row r l) rs l) <-> In x rs \/ In x l.
Proof.
  induction rs as [|r rs IH]; intros l; cbn [fold_left]; [cbn [In]; tauto|].
  rewrite IH, insert_row_in. cbn [In]. intuition congruence.
Qed.

Lemma fold_insert_sorted rs : forall l, rsorted l -> rsorted (fold_left (fun l r => insert_row r l) rs l).
Proof. induction rs as [|r rs IH]; intros l Hl; cbn [fold_left]; [exact Hl|]. apply IH, insert_row_sorted, Hl. Qed.

Lemma all_rows_fold es : all_rows es = fold_left rows_step es [].
Proof. reflexivity. Qed.

Lemma all_rows_in x es : In x (all_rows es) <-> exists e, In e es /\ In x (prefixes_from [] (e_acc e)).
Proof.
  rewrite all_rows_fold.
  assert (G : forall l, In x (fold_left rows_step es l) <-> In x l \/ exists e, In e es /\ In x (prefixes_from [] (e_acc e))).
  { induction es as [|e es IH]; intros l; cbn [fold_left].
    - split; [tauto|]. intros [H|(e & [] & _)]. exact H.
    - rewrite IH. destruct e as [[[col a] c] v]. change (rows_step l (col, a, c, v)) with (fold_left (fun l r => insert_row r l) (prefixes_from [] a) l). rewrite fold_insert_in. split.
      + intros [[H|H]|(e & He & Hx)]; [right; exists (col, a, c, v); split; [left; reflexivity|exact H]|tauto|right; exists e; split; [right; exact He|exact Hx]].
      + intros [H|(e & [<-|He] & Hx)]; [tauto|left; left; exact Hx|right; exists e; tauto]. }
  rewrite G. cbn [In]. tauto.
Qed.

Lemma all_rows_sorted es : rsorted (all_rows es).
Proof.
  rewrite all_rows_fold. assert (G : forall l, rsorted l -> rsorted (fold_left rows_step es l)).
  { induction es as [|[[[col a] c] v] es IH]; intros l Hl; cbn [fold_left]; [exact Hl|]. apply IH. apply fold_insert_sorted. exact Hl. }
  apply G. constructor.
Qed.

(* ------------------------------------------------------------ the depth-first order of a sorted tree *)

Lemma SS_app {A} (R : A -> A -> Prop) l1 l2 :
  StronglySorted R l1 -> StronglySorted R l2 -> (forall x y, In x l1 -> In y l2 -> R x y) -> StronglySorted R (l1 ++ l2).
Proof.
  intros H1 H2 H. induction H1 as [|a l1 S1 IH A1]; cbn [app]; [exact H2|].
  constructor; [apply IH; intros x y Hx Hy; apply H; [right; exact Hx|exact Hy]|].
  rewrite Forall_forall in *. intros y Hy. apply in_app_or in Hy. destruct Hy as [Hy|Hy]; [exact (A1 y Hy)|apply H; [left; reflexivity|exact Hy]].
Qed.

(* sorted for the comparator + pairwise different keys + totality on keys = strictly sorted *)
Lemma sorted_strict {A B} (lt : A -> A -> bool) (key : A -> B) l :
  sorted lt l -> NoDup (map key l) ->
  (forall x y, In x l -> In y l -> lt x y = false -> lt y x = false -> key x = key y) ->
  StronglySorted (fun x y => lt x y = true) l.
Proof.
  unfold sorted. intros Hs. induction Hs as [|a l Hl IH Ha]; intros Hnd Htot; [constructor|].
  cbn [map] in Hnd. inversion Hnd as [|? ? Hnot Hnd']; subst.
  constructor; [apply IH; [exact Hnd'|intros x y Hx Hy; apply Htot; right; assumption]|].
  rewrite Forall_forall in *. intros y Hy. destruct (lt a y) eqn:E; [reflexivity|]. exfalso. apply Hnot.
  rewrite (Htot a y (or_introl eq_refl) (or_intror Hy) E (Ha y Hy)). apply in_map. exact Hy.
Qed.

Lemma seg_sorted_SS l : seg_sorted l <-> StronglySorted (fun a b => by_name a b = true) l.
Proof.
  induction l as [|c l IH]; cbn [seg_sorted]; [split; [constructor|trivial]|].
  split.
  - intros [H1 H2]. constructor; [apply IH; exact H2|]. eapply Forall_impl; [|exact H1]. intros d Hd. unfold by_name, str_ltb. rewrite Hd. reflexivity.
  - intros H. inversion H as [|? ? S1 A1]; subst. split; [|apply IH; exact S1].
    eapply Forall_impl; [|exact A1]. intros d Hd. unfold by_name, str_ltb in Hd. destruct (str_cmp (n_seg c) (n_seg d)); congruence.
Qed.

Lemma seg_sorted_nodup l : seg_sorted l -> NoDup (map n_seg l).
Proof.
  induction l as [|c l IH]; cbn [seg_sorted map]; [constructor|]. intros [H1 H2]. constructor; [|exact (IH H2)].
  intros Hin. apply in_map_iff in Hin. destruct Hin as (d & E & Hd). rewrite Forall_forall in H1. specialize (H1 d Hd).
  rewrite E, str_cmp_refl in H1. discriminate.
Qed.

(* without -a an unvalued report sorts by weight, and every weight is zero: nothing moves *)
Lemma insert_sorted_false {A} (x : A) l : insert_sorted (fun _ _ => false) x l = l ++ [x].
Proof. induction l as [|y l IH]; cbn [insert_sorted app]; [reflexivity|]. rewrite IH. reflexivity. Qed.

Lemma sort_by_false {A} (lt : A -> A -> bool) l : (forall x y, In x l -> In y l -> lt x y = false) -> sort_by lt l = l.
Proof.
  intros H. rewrite (sort_by_ext_in lt (fun _ _ => false) l H). clear H.
  induction l as [|x l IH] using rev_ind; [reflexivity|]. rewrite sort_by_snoc, IH. apply insert_sorted_false.
Qed.

Lemma node_weight_false_zero n : (dvalue (node_weight false n) == 0)%Q.
Proof.
  induction n as [s p hv a ch IH] using node_ind_size. cbn [node_weight].
  assert (G : forall w, (dvalue w == 0)%Q -> (dvalue (fold_left (fun w c => add w (node_weight false c)) ch w) == 0)%Q).
  { induction IH as [|c ch Hc _ IHch]; intros w Hw; cbn [fold_left]; [exact Hw|]. apply IHch. rewrite dvalue_add, Hw, Hc. reflexivity. }
  apply G. reflexivity.
Qed.

Lemma by_weight_false_never a b : by_weight false a b = false.
Proof.
  unfold by_weight. destruct (less_than (node_weight false a) (node_weight false b)) eqn:E; [|reflexivity].
  apply less_than_value in E. rewrite !node_weight_false_zero in E. exfalso. exact (Qlt_irrefl 0 E).
Qed.

Lemma seg_sorted_map f l : (forall c, n_seg (f c) = n_seg c) -> seg_sorted l -> seg_sorted (map f l).
Proof.
  intros Hf. induction l as [|c l IH]; cbn [seg_sorted map]; [trivial|]. intros [H1 H2]. split; [|exact (IH H2)].
  rewrite Forall_forall in *. intros d' Hd'. apply in_map_iff in Hd'. destruct Hd' as (d & <- & Hd). rewrite !Hf. exact (H1 d Hd).
Qed.

(* siblings below the top level stay in segment order, with and without -a *)
Lemma children_sorted alpha l :
  (forall c, In c l -> acc_level (n_path c) <> 1) -> seg_sorted l -> sort_by (sibling_ltb alpha false) l = l.
Proof.
  intros Hlev Hseg. destruct alpha.
  - rewrite (sort_by_ext_in (sibling_ltb true false) by_name).
    2: { intros x y Hx _. exact (sibling_ltb_below true false x y (Hlev x Hx)). }
    apply seg_sorted_SS in Hseg. clear Hlev.
    induction l as [|x l IH] using rev_ind; [reflexivity|]. rewrite sort_by_snoc.
    assert (Hl : StronglySorted (fun a b => by_name a b = true) l /\ Forall (fun y => by_name y x = true) l).
    { clear IH. induction l as [|y l IHl]; [split; constructor|]. cbn [app] in Hseg. inversion Hseg as [|? ? S1 A1]; subst.
      destruct (IHl S1) as [I1 I2]. rewrite Forall_forall in A1. split.
      - constructor; [exact I1|]. rewrite Forall_forall. intros z Hz. apply A1. apply in_or_app. left. exact Hz.
      - constructor; [apply A1; apply in_or_app; right; left; reflexivity|exact I2]. }
    destruct Hl as [Hl1 Hl2]. rewrite (IH Hl1). clear IH Hseg Hl1.
    induction l as [|y l IHl]; [reflexivity|]. inversion Hl2 as [|? ? Hy Hrest]; subst. cbn [insert_sorted app].
    assert (Hxy : by_name x y = false).
    { destruct (by_name x y) eqn:E; [|reflexivity]. pose proof (by_name_trans _ _ _ E Hy) as H. rewrite by_name_irrefl in H. discriminate. }
    rewrite Hxy, (IHl Hrest). reflexivity.
  - apply sort_by_false. intros x y Hx _. rewrite (sibling_ltb_below false false x y (Hlev x Hx)). apply by_weight_false_never.
Qed.

(* below the top level the sort keeps the children in segment order *)
Lemma node_sort_sib_sorted alpha : forall n,
  wf_node n -> n_path n <> [] -> sib_sorted n -> sib_sorted (node_sort alpha false n).
Proof.
  induction n as [s p hv a ch IH] using node_ind_size. intros Hwf Hp Hs. cbn [n_path] in Hp.
  apply sib_sorted_unfold in Hs. destruct Hs as [Hseg Hall]. apply wf_node_children in Hwf. unfold wf_children in Hwf.
  cbn [node_sort]. apply sib_sorted_unfold.
  assert (Hlev : forall c, In c (map (node_sort alpha false) ch) -> acc_level (n_path c) <> 1).
  { intros c' Hc'. apply in_map_iff in Hc'. destruct Hc' as (c & <- & Hc). rewrite node_sort_path.
    rewrite Forall_forall in Hwf. destruct (Hwf c Hc) as [E _]. rewrite E. unfold acc_level. rewrite app_length. cbn [length].
    destruct p; [contradiction|cbn [length]; lia]. }
  assert (Hseg' : seg_sorted (map (node_sort alpha false) ch)) by (apply seg_sorted_map; [intros c; apply node_sort_seg|exact Hseg]).
  rewrite (children_sorted alpha _ Hlev Hseg'). split; [exact Hseg'|].
  rewrite Forall_forall in *.
  intros c' Hc'. apply in_map_iff in Hc'. destruct Hc' as (c & <- & Hc). destruct (Hwf c Hc) as [E Hwc].
  apply (IH c Hc); [exact Hwc|rewrite E; intros H; apply app_eq_nil in H; destruct H; discriminate|exact (Hall c Hc)].
Qed.

Definition plt (a b : account) : Prop := path_cmp a b = Lt.

Lemma cpaths_app a b : cpaths (a ++ b) = cpaths a ++ cpaths b.
Proof. unfold cpaths. induction a as [|c a IH]; cbn [app fold_right]; [reflexivity|]. rewrite IH, app_assoc. reflexivity. Qed.

(* the paths of a subtree whose children are in segment order, depth first, increase lexicographically *)
Lemma npaths_plt : forall n, wf_node n -> sib_sorted n -> StronglySorted plt (npaths n).
Proof.
  induction n as [s p hv a ch IH] using node_ind_size. intros Hwf Hs.
  apply sib_sorted_unfold in Hs. destruct Hs as [Hseg Hall]. pose proof Hwf as Hwf0. apply wf_node_children in Hwf. unfold wf_children in Hwf.
  rewrite npaths_unfold. constructor.
  - (* the children, one after the other *)
    clear Hwf0. induction ch as [|c ch IHch]; [constructor|].
    inversion IH as [|? ? IHc IHrest]; subst. inversion Hwf as [|? ? [Ec Hwc] Hwrest]; subst. inversion Hall as [|? ? Hsc Hsrest]; subst.
    cbn [seg_sorted] in Hseg. destruct Hseg as [Hlt Hseg'].
    change (cpaths (c :: ch)) with (npaths c ++ cpaths ch). apply SS_app.
    + apply IHc; assumption.
    + apply IHch; assumption.
    + intros x y Hx Hy. destruct (npaths_prefix c Hwc x Hx) as (s1 & ->).
      rewrite cpaths_flat_map in Hy. apply in_flat_map in Hy. destruct Hy as (d & Hd & Hy).
      rewrite Forall_forall in Hwrest, Hlt. destruct (Hwrest d Hd) as [Ed Hwd].
      destruct (npaths_prefix d Hwd y Hy) as (s2 & ->). rewrite Ec, Ed, <- !app_assoc. cbn [app].
      apply path_cmp_diverge. exact (Hlt d Hd).
  - rewrite Forall_forall. intros y Hy. rewrite cpaths_flat_map in Hy. apply in_flat_map in Hy. destruct Hy as (d & Hd & Hy).
    rewrite Forall_forall in Hwf. destruct (Hwf d Hd) as [Ed Hwd]. destruct (npaths_prefix d Hwd y Hy) as (s2 & ->).
    rewrite Ed, <- app_assoc. apply path_cmp_prefix. cbn [app]. discriminate.
Qed.

Lemma acc_rank_prefix s t suf : acc_rank ((s :: t) ++ suf) = acc_rank [s].
Proof. reflexivity. Qed.

Lemma parse_atype_name s t : parse_atype s = Some t ->
  s = match t with Assets => s_Assets | Liabilities => s_Liabilities | Equity => s_Equity | Income => s_Income | Expenses => s_Expenses end.
Proof.
  unfold parse_atype.
  destruct (str_eqb s s_Assets) eqn:E1; [intros H; inversion H; apply str_eqb_eq; exact E1|].
  destruct (str_eqb s s_Liabilities) eqn:E2; [intros H; inversion H; apply str_eqb_eq; exact E2|].
  destruct (str_eqb s s_Equity) eqn:E3; [intros H; inversion H; apply str_eqb_eq; exact E3|].
  destruct (str_eqb s s_Income) eqn:E4; [intros H; inversion H; apply str_eqb_eq; exact E4|].
  destruct (str_eqb s s_Expenses) eqn:E5; [intros H; inversion H; apply str_eqb_eq; exact E5|discriminate].
Qed.

Lemma rank_seg_inj s1 s2 : account_ok [s1] = true -> account_ok [s2] = true -> acc_rank [s1] = acc_rank [s2] -> s1 = s2.
Proof.
  intros H1 H2 Hr. apply account_ok_cons in H1. apply account_ok_cons in H2.
  destruct H1 as ([t1 E1] & _). destruct H2 as ([t2 E2] & _).
  unfold acc_rank, acc_type in Hr. rewrite E1, E2 in Hr.
  rewrite (parse_atype_name _ _ E1), (parse_atype_name _ _ E2).
  destruct t1, t2; cbn [atype_rank] in Hr; try reflexivity; lia.
Qed.

Lemma account_ok_top s t : account_ok (s :: t) = true -> account_ok [s] = true.
Proof.
  intros H. apply account_ok_cons in H. destruct H as (H1 & H2 & _). apply account_ok_cons.
  split; [exact H1|split; [exact H2|intros x []]].
Qed.

(* the whole tree: top level by account type *)
Lemma root_rows_sorted alpha root :
  wf_node root -> n_path root = [] -> sib_sorted root ->
  (forall x, In x (cpaths (n_children root)) -> account_ok x = true) ->
  rsorted (cpaths (n_children (node_sort alpha false root))).
Proof.
  destruct root as [s p hv a ch]. cbn [n_path n_children]. intros Hwf -> Hs Hok.
  apply sib_sorted_unfold in Hs. destruct Hs as [Hseg Hall]. apply wf_node_children in Hwf. unfold wf_children in Hwf. cbn [app] in Hwf.
  rewrite Forall_forall in Hwf, Hall.
  cbn [node_sort n_children].
  set (ch' := map (node_sort alpha false) ch).
  assert (Hch' : forall c', In c' ch' -> exists c, In c ch /\ c' = node_sort alpha false c /\ n_path c' = [n_seg c'] /\ wf_node c' /\ sib_sorted c' /\ account_ok [n_seg c'] = true).
  { intros c' Hc'. apply in_map_iff in Hc'. destruct Hc' as (c & <- & Hc). exists c. split; [exact Hc|split; [reflexivity|]].
    destruct (Hwf c Hc) as [E Hwc]. rewrite node_sort_path, node_sort_seg. split; [exact E|].
    split; [apply node_sort_wf; exact Hwc|]. split.
    - apply node_sort_sib_sorted; [exact Hwc|rewrite E; discriminate|exact (Hall c Hc)].
    - rewrite <- E. apply Hok. rewrite cpaths_flat_map. apply in_flat_map. exists c. split; [exact Hc|apply npaths_head]. }
  assert (Hlev : forall c', In c' ch' -> acc_level (n_path c') = 1).
  { intros c' Hc'. destruct (Hch' c' Hc') as (_ & _ & _ & E & _). rewrite E. reflexivity. }
  rewrite (sort_by_ext_in (sibling_ltb alpha false) by_rank).
  2: { intros x y Hx Hy. apply sibling_ltb_top; apply Hlev; assumption. }
  assert (Hperm : Permutation (sort_by by_rank ch') ch') by apply sort_by_perm.
  assert (Hstrict : StronglySorted (fun x y => by_rank x y = true) (sort_by by_rank ch')).
  { apply (sorted_strict by_rank n_seg).
    - apply sort_by_sorted; [exact by_rank_irrefl|exact by_rank_trans].
    - eapply Permutation_NoDup; [apply Permutation_map; symmetry; exact Hperm|].
      unfold ch'. rewrite map_map. rewrite (map_ext _ n_seg) by (intros c; apply node_sort_seg). apply seg_sorted_nodup. exact Hseg.
    - intros x y Hx Hy H1 H2. apply (Permutation_in _ Hperm) in Hx. apply (Permutation_in _ Hperm) in Hy.
      destruct (Hch' x Hx) as (_ & _ & _ & Ex & _ & _ & Okx). destruct (Hch' y Hy) as (_ & _ & _ & Ey & _ & _ & Oky).
      unfold by_rank, top_ltb in H1, H2. rewrite Ex, Ey in H1, H2. apply rank_seg_inj; [exact Okx|exact Oky|lia]. }
  assert (Hin : forall c', In c' (sort_by by_rank ch') -> In c' ch') by (intros c'; apply Permutation_in; exact Hperm).
  clear Hperm. induction Hstrict as [|c l Sl IHl Al]; [constructor|].
  change (cpaths (c :: l)) with (npaths c ++ cpaths l).
  destruct (Hch' c (Hin c (or_introl eq_refl))) as (_ & _ & _ & Ec & Hwc & Hsc & Okc).
  apply SS_app.
  - (* inside one top-level account: the same type, lexicographic *)
    pose proof (npaths_plt c Hwc Hsc) as Hp.
    assert (Hpre : forall x, In x (npaths c) -> exists suf, x = [n_seg c] ++ suf) by (intros x Hx; rewrite <- Ec; exact (npaths_prefix c Hwc x Hx)).
    revert Hpre. induction Hp as [|x l0 S0 IH0 A0]; intros Hpre; [constructor|].
    constructor; [apply IH0; intros y Hy; apply Hpre; right; exact Hy|].
    rewrite Forall_forall in *. intros y Hy. apply rlt_spec. right. split; [|exact (A0 y Hy)].
    destruct (Hpre x (or_introl eq_refl)) as (s1 & ->). destruct (Hpre y (or_intror Hy)) as (s2 & ->). reflexivity.
  - apply IHl. intros c' Hc'. apply Hin. right. exact Hc'.
  - intros x y Hx Hy. rewrite cpaths_flat_map in Hy. apply in_flat_map in Hy. destruct Hy as (d & Hd & Hy).
    destruct (Hch' d (Hin d (or_intror Hd))) as (_ & _ & _ & Ed & Hwd & _ & _).
    destruct (npaths_prefix c Hwc x Hx) as (s1 & ->). destruct (npaths_prefix d Hwd y Hy) as (s2 & ->).
    apply rlt_spec. left. rewrite Ec, Ed. change (acc_rank ([n_seg c] ++ s1)) with (acc_rank [n_seg c]). change (acc_rank ([n_seg d] ++ s2)) with (acc_rank [n_seg d]).
    rewrite Forall_forall in Al. specialize (Al d Hd). unfold by_rank, top_ltb in Al. rewrite Ec, Ed in Al. lia.
Qed.

(* ------------------------------------------------------------ the rows of the table = all_rows *)

Section Order.
  Variables (cfg : balance_cfg) (ds : list sdirective) (r : report) (part : partition) (dl : list directive).
  Hypothesis Hv : bc_valuation cfg = None.
  Hypothesis Hrun : balance_report cfg ds = COk (r, part).
  Hypothesis Hp : parse_directives ds = MOk dl.
  Hypothesis Hsyn : postings_syntactic dl.

  Let es := ledger_entries cfg dl part.
  Let rc := balance_render_cfg cfg.
  Let al := filter is_AL_entry es.
  Let eie := filter (fun e => negb (is_AL_entry e)) es.

  Lemma ledger_row_entry x : ledger_row cfg dl x <-> exists e, In e es /\ In x (prefixes_from [] (e_acc e)).
  Proof.
    destruct (report_cells cfg ds r part Hv Hrun) as (dl' & Hp' & Hpart & _). rewrite Hp in Hp'. inversion Hp'; subst dl'. clear Hp'.
    unfold ledger_row. rewrite Hpart. fold (ledger_entries cfg dl part). fold es.
    split; intros ([[[col a] c] v] & He & Hx); exists (col, a, c, v); (split; [exact He|exact Hx]).
  Qed.

  Lemma tree_rows_order (b : bool) :
    map l_path (flat_map tree_lines (n_children (if b then sorted_al rc r else sorted_eie rc r))) =
    all_rows (if b then al else eie).
  Proof.
    pose proof (balance_report_ok _ _ _ _ Hrun) as ((W1 & W2 & P1 & P2) & S1 & S2 & T1 & T2 & _).
    pose proof (Hacc cfg ds r part dl Hv Hrun Hp Hsyn) as Hok.
    pose proof (Hrows cfg ds r part dl Hv Hrun Hp Hsyn) as Hrw.
    rewrite clines_paths. apply rsorted_ext.
    - unfold sorted_al, sorted_eie, rc, balance_render_cfg. cbn [rc_alpha rc_valuation]. rewrite Hv.
      destruct b; apply root_rows_sorted; try assumption; intros x Hx; apply Hok; unfold rows; apply in_or_app; [left|right]; exact Hx.
    - apply all_rows_sorted.
    - intros x. rewrite all_rows_in.
      assert (Hside : In x (cpaths (n_children (if b then sorted_al rc r else sorted_eie rc r))) <->
                      In x (rows r) /\ is_AL x = b).
      { destruct b; unfold sorted_al, sorted_eie; rewrite cpaths_sort_in; unfold rows; rewrite in_app_iff; split.
        - intros H. split; [left; exact H|exact (T1 x H)].
        - intros [[H|H] E]; [exact H|rewrite (T2 x H) in E; discriminate].
        - intros H. split; [right; exact H|exact (T2 x H)].
        - intros [[H|H] E]; [rewrite (T1 x H) in E; discriminate|exact H]. }
      rewrite Hside, Hrw, ledger_row_entry. split.
      + intros [(e & He & Hx) Hb]. exists e. split; [|exact Hx].
        assert (Hty : is_AL_entry e = b).
        { destruct e as [[[col a] c] v]. unfold e_acc in Hx. cbn [fst snd] in Hx. cbn [is_AL_entry]. rewrite <- (prefixes_from_type _ _ Hx). exact Hb. }
        destruct b; unfold al, eie; apply filter_In; (split; [exact He|]); rewrite Hty; reflexivity.
      + intros (e & He & Hx).
        assert (He' : In e es /\ is_AL_entry e = b).
        { destruct b; unfold al, eie in He; apply filter_In in He; destruct He as [H1 H2]; (split; [exact H1|]);
            [exact H2|destruct (is_AL_entry e); [discriminate|reflexivity]]. }
        destruct He' as [He1 He2]. split; [exists e; split; assumption|].
        destruct e as [[[col a] c] v]. unfold e_acc in Hx. cbn [fst snd] in Hx. cbn [is_AL_entry] in He2.
        rewrite (prefixes_from_type _ _ Hx). exact He2.
  Qed.

  (* the records of the CSV are the rows of ledger_csv *)
  Theorem csv_rows_are_ledger_rows :
    exists rows, ledger_csv cfg dl = Some rows /\ render_csv_rows (render_report rc r (end_dates part)) = rows.
  Proof.
    exact (csv_rows_ledger cfg ds r part dl Hv Hrun Hp Hsyn (tree_rows_order true) (tree_rows_order false)).
  Qed.
End Order.

(* the text that `knut balance --csv` prints (with or without -a) = the text of the ledger's CSV *)
Theorem balance_csv_is_ledger_csv cfg ds text :
  bc_valuation cfg = None ->
  balance_csv cfg ds = COk text ->
  exists dl,
    parse_directives ds = MOk dl /\
    (postings_syntactic dl ->
     exists rows, ledger_csv cfg dl = Some rows /\ text = concat (map (fun rec => join [44] rec ++ [10]) rows)).
Proof.
  intros Hv H. unfold balance_csv in H. apply cbind_ok in H. destruct H as (t & Ht & H). inversion H; subst text. clear H.
  unfold balance_table in Ht. apply cbind_ok in Ht. destruct Ht as ([r part] & Hrun & Ht). cbn [fst snd] in Ht. inversion Ht; subst t. clear Ht.
  destruct (balance_report_parsed _ _ _ _ Hrun) as (dl & Hp). exists dl. split; [exact Hp|]. intros Hsyn.
  destruct (csv_rows_are_ledger_rows cfg ds r part dl Hv Hrun Hp Hsyn) as (rows & Hl & Hr).
  exists rows. split; [exact Hl|]. unfold render_csv. rewrite <- Hr. reflexivity.
Qed.
