(* `knut check --write`, second layer: which positions the checker's quantity map holds.
   [Keys pre s]: after the events [pre] the map has an entry for (a, c) iff the position is live
   in the sense of Spec/CheckWriteSpec.v (an asset or liability account booked in c after its
   last close).  Together with the invariant [Inv] of Proofs/CheckProofs.v (the entry's quantity
   is, in value, [quantity pre a c]) this says what Checker.dayEnd sees. *)
From Coq Require Import ZArith List Bool Lia Sorting.Sorted.
From Knut Require Import Model.Str Model.Dec Model.Account Model.Ledger Model.Price Model.Journal Model.Check
     Spec.WellformedSpec Spec.CheckWriteSpec Proofs.DecProofs Proofs.DecEqProofs Proofs.CheckLemmas
     Proofs.CheckProofs.
Import ListNotations.
Open Scope bool_scope.
Open Scope Z_scope.

Definition has (m : positions) (a : account) (c : commodity) : bool :=
  match pos_get m a c with Some _ => true | None => false end.

Definition Keys (pre : list event) (s : check_state) : Prop :=
  forall a c, account_ok a = true -> has (ck_qty s) a c = live pre a c.

Lemma live_snoc pre e a c :
  live (pre ++ [e]) a c = is_AL a && live_step a c (fold_left (live_step a c) pre false) e.
Proof. unfold live. rewrite fold_left_app. reflexivity. Qed.

Lemma has_put_same m a c v : has (sm_put m (pos_key a c) v) a c = true.
Proof. unfold has, pos_get. rewrite sm_get_put_same. destruct v as [[? ?] ?]. reflexivity. Qed.

Lemma has_put_other m a c v b c' :
  pos_key b c' <> pos_key a c -> has (sm_put m (pos_key a c) v) b c' = has m b c'.
Proof. intros H. unfold has, pos_get. rewrite sm_get_put_other by exact H. reflexivity. Qed.

Lemma has_filter_other m a b c :
  keys_sorted m -> (forall x, In x m -> entry_ok x) ->
  account_ok a = true -> account_ok b = true -> a <> b ->
  has (filter (fun x => negb (acc_eqb a (entry_acc x))) m) b c = has m b c.
Proof.
  intros Hs He Ha Hb Hab.
  set (f := fun x : str * (account * commodity * dec) => negb (acc_eqb a (entry_acc x))).
  pose proof (keys_sorted_filter f m Hs) as Hs'.
  unfold has, pos_get.
  destruct (sm_get m (pos_key b c)) as [[[a' c'] q]|] eqn:G.
  - apply sm_get_some_in in G.
    pose proof (He _ G) as [K [Oa _]]. cbn [fst snd] in K, Oa.
    apply pos_key_inj in K; [|assumption|assumption]. destruct K as [K1 K2]. subst a' c'.
    assert (Hin : In (pos_key b c, (b, c, q)) (filter f m)).
    { apply filter_In. split; [exact G|]. unfold f, entry_acc. cbn [fst snd].
      rewrite (acc_eqb_ok a b Ha Hb). unfold same_acc. destruct (acc_eq_dec a b); [contradiction|reflexivity]. }
    rewrite (sm_get_in_sorted _ _ _ Hs' Hin). reflexivity.
  - destruct (sm_get (filter f m) (pos_key b c)) as [[[a' c'] q]|] eqn:G'; [|reflexivity].
    apply sm_get_some_in in G'. apply filter_In in G'. destruct G' as [G' _].
    rewrite (sm_get_in_sorted _ _ _ Hs G') in G. discriminate.
Qed.

Lemma has_filter_same m a c :
  (forall x, In x m -> entry_ok x) -> account_ok a = true ->
  has (filter (fun x => negb (acc_eqb a (entry_acc x))) m) a c = false.
Proof.
  intros He Ha. unfold has, pos_get.
  destruct (sm_get _ (pos_key a c)) as [[[a' c'] q]|] eqn:G; [|reflexivity].
  apply sm_get_some_in in G. apply filter_In in G. destruct G as [G F].
  pose proof (He _ G) as [K [Oa _]]. cbn [fst snd] in K, Oa.
  apply pos_key_inj in K; [|assumption|assumption]. destruct K as [K1 K2]. subst a' c'.
  unfold entry_acc in F. cbn [fst snd] in F. rewrite acc_eqb_refl in F. discriminate.
Qed.

Lemma keys_init : Keys [] check_init.
Proof. intros a c _. unfold live. cbn. rewrite andb_false_r. reflexivity. Qed.

Lemma step_keys pre s e s' :
  Inv pre s -> Keys pre s -> account_ok (ev_acc e) = true ->
  ck_event s e = ROk s' -> Keys (pre ++ [e]) s'.
Proof.
  intros I K Hok H. destruct I as [Io Iq Is Ie].
  destruct e as [a|a c q|a c q|a]; cbn [ev_acc] in Hok; cbn [ck_event] in H.
  - (* open *)
    unfold ck_open_cb in H. destruct (is_open s a); [discriminate|]. inversion H. subst s'.
    intros b c Hb. rewrite live_snoc. cbn [live_step ck_qty]. apply K. exact Hb.
  - (* posting *)
    unfold ck_post in H. destruct (negb (is_open s a)); [discriminate|].
    destruct (is_AL a) eqn:Al; inversion H; subst s'.
    + intros b c' Hb. rewrite live_snoc. cbn [live_step ck_qty]. unfold pos_add.
      destruct (pair_neq_cases b a c' c) as [[E1 E2]|N].
      * subst b c'. rewrite same_acc_refl, same_com_refl. cbn [andb].
        rewrite has_put_same, Al. reflexivity.
      * rewrite N. rewrite has_put_other; [apply K; exact Hb|].
        intros Kk. apply pos_key_inj in Kk; [|assumption|assumption]. destruct Kk as [K1 K2]. subst b c'.
        rewrite same_acc_refl, same_com_refl in N. discriminate.
    + intros b c' Hb. rewrite live_snoc. cbn [live_step].
      destruct (same_acc b a && same_com c' c) eqn:N.
      * apply andb_true_iff in N. destruct N as [N _]. apply same_acc_eq in N. subst b.
        rewrite Al. cbn [andb]. rewrite (K a c' Hb). unfold live. rewrite Al. reflexivity.
      * apply K. exact Hb.
  - (* assertion *)
    assert (E : s' = s).
    { unfold ck_balance_fixed in H. cbn [bal_acc] in H.
      destruct (negb (is_open s a)); [discriminate|].
      destruct (negb (is_AL a)); [inversion H; reflexivity|].
      unfold ck_balance_cb in H. cbn [bal_acc bal_com bal_qty] in H.
      destruct (negb (is_open s a)); [discriminate|].
      destruct (pos_get (ck_qty s) a c) as [x|].
      - destruct (dec_equal x q); [inversion H; reflexivity|discriminate].
      - destruct (true && dec_equal dec_nil q); [inversion H; reflexivity|discriminate]. }
    subst s'. intros b c' Hb. rewrite live_snoc. cbn [live_step]. apply K. exact Hb.
  - (* close *)
    unfold ck_close_cb in H.
    destruct (close_positions (ck_qty s) a) as [m'|] eqn:C; [|discriminate].
    apply close_positions_some in C. destruct C as [Em _].
    destruct (negb (is_open s a)); [discriminate|]. inversion H. subst s'. subst m'.
    intros b c Hb. rewrite live_snoc. cbn [live_step ck_qty].
    destruct (acc_eq_dec a b) as [Eab|Nab].
    + subst b. rewrite has_filter_same by assumption. rewrite same_acc_refl. rewrite andb_false_r. reflexivity.
    + rewrite has_filter_other by assumption.
      assert (N : same_acc b a = false).
      { unfold same_acc. destruct (acc_eq_dec b a); [subst; contradiction|reflexivity]. }
      rewrite N. apply K. exact Hb.
Qed.

(* a run of the checker over events keeps both invariants *)
Lemma run_keys evs : forall pre s s',
  Inv pre s -> Keys pre s -> (forall e, In e evs -> account_ok (ev_acc e) = true) ->
  run_events s evs = ROk s' ->
  Inv (pre ++ evs) s' /\ Keys (pre ++ evs) s' /\ all_ok_before pre evs.
Proof.
  intros pre s s' I K Hacc H.
  pose proof (run_refines evs pre s I Hacc) as R. rewrite H in R. destruct R as [All I'].
  split; [exact I'|]. split; [|exact All]. clear All I'.
  revert pre s I K Hacc H. induction evs as [|e evs IH]; intros pre s I K Hacc H; cbn [run_events] in H.
  - inversion H. subst s'. rewrite app_nil_r. exact K.
  - pose proof (step_refines pre s e I (Hacc e (or_introl eq_refl))) as St.
    destruct (ck_event s e) as [s1|k d|m] eqn:E; cbn [rbind] in H; try discriminate.
    destruct St as [_ I1].
    pose proof (step_keys pre s e s1 I K (Hacc e (or_introl eq_refl)) E) as K1.
    specialize (IH (pre ++ [e]) s1 I1 K1 (fun e' He => Hacc e' (or_intror He)) H).
    rewrite <- app_assoc in IH. exact IH.
Qed.

(* ------------------------------------------------------------------ live positions, on the specification side *)

Lemma live_posted pre a c : live pre a c = true -> exists q, In (EPost a c q) pre.
Proof.
  unfold live. intros H. apply andb_true_iff in H. destruct H as [_ H].
  revert H. induction pre as [|e pre IH] using rev_ind; [cbn; discriminate|].
  rewrite fold_left_app. cbn [fold_left]. intros H.
  assert (Hrec : fold_left (live_step a c) pre false = true -> exists q, In (EPost a c q) (pre ++ [e])).
  { intros H1. destruct (IH H1) as [q Hq]. exists q. apply in_or_app. left. exact Hq. }
  destruct e as [a'|a' c' x|a' c' x|a']; cbn [live_step] in H; try (apply Hrec; exact H).
  - destruct (same_acc a a' && same_com c c') eqn:N; [|apply Hrec; exact H].
    apply andb_true_iff in N. destruct N as [N1 N2]. apply same_acc_eq in N1. apply same_com_eq in N2. subst a' c'.
    exists x. apply in_or_app. right. left. reflexivity.
  - destruct (same_acc a a'); [discriminate|apply Hrec; exact H].
Qed.

(* on a well-formed sequence a live position belongs to an open account *)
Lemma live_open pre a c : wellformed_events pre -> live pre a c = true -> open_after pre a = true.
Proof.
  unfold live. intros W H. apply andb_true_iff in H. destruct H as [_ H].
  revert W H. induction pre as [|e pre IH] using rev_ind; [cbn; discriminate|].
  intros W. rewrite fold_left_app. cbn [fold_left]. rewrite open_after_snoc. intros H.
  assert (W' : wellformed_events pre).
  { intros p x q E. apply (W p x (q ++ [e])). rewrite E. rewrite <- app_assoc. reflexivity. }
  assert (Oke : ok_event pre e).
  { apply (W pre e []). reflexivity. }
  destruct e as [a'|a' c' x|a' c' x|a']; cbn [live_step open_step] in *.
  - destruct (same_acc a a'); [reflexivity|apply IH; assumption].
  - destruct (same_acc a a' && same_com c c') eqn:N; [|apply IH; assumption].
    apply andb_true_iff in N. destruct N as [N1 _]. apply same_acc_eq in N1. subst a'. exact Oke.
  - apply IH; assumption.
  - destruct (same_acc a a'); [discriminate|apply IH; assumption].
Qed.
