(* C11: Period.Clip is the intersection of two periods *)
From Coq Require Import ZArith List Bool Lia.
From Knut Require Import Model.Date Spec.DateSpec.
Open Scope Z_scope.

Lemma clip_contains : forall w j d,
  period_contains (clip w j) d = period_contains w d && period_contains j d.
Proof.
  intros [ws we] [js je] d. unfold period_contains, clip. cbn [p_start p_end].
  destruct (ws <? js) eqn:H1; destruct (je <? we) eqn:H2; cbn [p_start p_end];
    repeat match goal with
    | |- context [?a <? ?b] => destruct (Z.ltb_spec a b)
    end; cbn; try reflexivity; try lia.
Qed.

Lemma clip_meets_spec : forall w j, clip_ok_b w j (clip w j) = true.
Proof.
  intros [ws we] [js je]. unfold clip_ok_b, clip. cbn [p_start p_end].
  destruct (ws <? js) eqn:H1; destruct (je <? we) eqn:H2; cbn [p_start p_end];
    apply Z.ltb_lt in H1 || apply Z.ltb_ge in H1; apply Z.ltb_lt in H2 || apply Z.ltb_ge in H2;
    destruct (Z.leb_spec (Z.max ws js) (Z.min we je)) as [H|H];
    rewrite ?andb_true_iff, ?Z.eqb_eq, ?Z.ltb_lt; lia.
Qed.

(* an empty intersection contains no date, whatever the inputs *)
Lemma clip_empty : forall w j d,
  Z.min (p_end w) (p_end j) < Z.max (p_start w) (p_start j) -> period_contains (clip w j) d = false.
Proof.
  intros w j d H. rewrite clip_contains. unfold period_contains.
  destruct (Z.ltb_spec d (p_start w)); destruct (Z.ltb_spec (p_end w) d);
  destruct (Z.ltb_spec d (p_start j)); destruct (Z.ltb_spec (p_end j) d); cbn; try reflexivity; lia.
Qed.
