(* C20: a vm_compute witness for the mapping law (W3).  The universe has the classes Equity:US
   (AAPL), Equity:CH (NESN) and Cash (CHF); the rule `-m 1,^Equity:US` folds AAPL into the row
   Equity, which keeps its member CH: the node Equity is a leaf (booked on) and a group at once. *)
From Coq Require Import ZArith QArith List Bool.
From Knut Require Import Model.Str Model.Dec Model.Date Model.Account Model.Ledger Model.Price
     Model.Journal Model.Check Model.Pipeline Model.Report Model.Cli Model.Perf Model.Weights
     Model.CliPortfolio Spec.PortfolioSpec Spec.PortfolioMapSpec Proofs.PortfolioWitness.
Import ListNotations.
Open Scope Z_scope.

Definition NESN : str := [78;69;83;78].
Definition s_US : str := [85;83].
Definition s_CH : str := [67;72].
Definition s_Cash : str := [67;97;115;104].
Definition c_EquityUS : str := s_Equity ++ [colon] ++ s_US.     (* Equity:US *)
Definition c_EquityCH : str := s_Equity ++ [colon] ++ s_CH.     (* Equity:CH *)

Definition w3_universe : list (str * list commodity) :=
  [ (c_EquityUS, [AAPL]); (c_EquityCH, [NESN]); (s_Cash, [CHF]) ].

Definition w3_journal : list sdirective :=
  [ SOpen (jan 1) a_bank; SOpen (jan 1) a_broker; SOpen (jan 1) a_opening;
    SPrice (jan 1) AAPL (of_int 100) CHF; SPrice (jan 1) NESN (of_int 50) CHF;
    plain (jan 5) a_opening a_bank 1000 CHF;
    plain (jan 10) a_opening a_broker 5 AAPL;
    plain (jan 10) a_opening a_broker 10 NESN;
    SPrice (feb 10) AAPL (of_int 200) CHF ].

(* -m 1,^Equity:US *)
Definition w3_rule : rule := mkRule 1 0 (Some (mkRx true c_EquityUS false)).

Definition w3_cfg : pf_cfg :=
  mkPfCfg 0 (feb 28) Monthly 0 (Some CHF) [] [] [w3_rule] true (Some w3_universe) true.

Definition w3_entries : list entry := match weights_entries w3_cfg w3_journal with COk es => es | _ => [] end.
Definition w3_entries0 : list entry :=
  match weights_entries (pf_unmapped w3_cfg) w3_journal with COk es => es | _ => [] end.
Definition w3_table : list Z * list wrow := match weights_table w3_cfg w3_journal with COk t => t | _ => ([], []) end.
Definition w3_table0 : list Z * list wrow :=
  match weights_table (pf_unmapped w3_cfg) w3_journal with COk t => t | _ => ([], []) end.

Lemma w3_runs :
  weights_entries w3_cfg w3_journal = COk w3_entries /\ weights_entries (pf_unmapped w3_cfg) w3_journal = COk w3_entries0 /\
  weights_table w3_cfg w3_journal = COk w3_table /\ weights_table (pf_unmapped w3_cfg) w3_journal = COk w3_table0.
Proof. vm_compute. repeat split; reflexivity. Qed.

(* the run without -m: AAPL below Equity > US, NESN below Equity > CH *)
Lemma w3_entries0_eq :
  w3_entries0 =
  [ ([s_Equity; s_US; AAPL], jan 31, Some (1 # 4)%Q); ([s_Cash; CHF], jan 31, Some (1 # 2)%Q);
    ([s_Equity; s_CH; NESN], jan 31, Some (1 # 4)%Q);
    ([s_Equity; s_US; AAPL], feb 10, Some (2 # 5)%Q); ([s_Cash; CHF], feb 10, Some (2 # 5)%Q);
    ([s_Equity; s_CH; NESN], feb 10, Some (1 # 5)%Q) ].
Proof. vm_compute. reflexivity. Qed.

(* with -m: AAPL is booked on the node Equity itself *)
Lemma w3_entries_eq :
  w3_entries =
  [ ([s_Equity], jan 31, Some (1 # 4)%Q); ([s_Cash; CHF], jan 31, Some (1 # 2)%Q);
    ([s_Equity; s_CH; NESN], jan 31, Some (1 # 4)%Q);
    ([s_Equity], feb 10, Some (2 # 5)%Q); ([s_Cash; CHF], feb 10, Some (2 # 5)%Q);
    ([s_Equity; s_CH; NESN], feb 10, Some (1 # 5)%Q) ].
Proof. vm_compute. reflexivity. Qed.

(* the rendered table with -m: Equity = 1/4 (AAPL, folded) + 1/4 (CH) on the first date, 2/5 + 1/5 on the second *)
Lemma w3_table_eq :
  w3_table =
  ([jan 31; feb 10],
   [ (0, s_Cash, [Some (Some (1 # 2)%Q); Some (Some (2 # 5)%Q)]);
     (2, CHF, [Some (Some (1 # 2)%Q); Some (Some (2 # 5)%Q)]);
     (0, s_Equity, [Some (Some (1 # 2)%Q); Some (Some (3 # 5)%Q)]);
     (2, s_CH, [Some (Some (1 # 4)%Q); Some (Some (1 # 5)%Q)]);
     (4, NESN, [Some (Some (1 # 4)%Q); Some (Some (1 # 5)%Q)]) ]).
Proof. vm_compute. reflexivity. Qed.

(* the node Equity of the mapped report is a leaf (Report.Add ended there) and has a child *)
Lemma w3_leaf_and_group :
  match wn_find [s_Equity] (propagate (report_of w3_entries)) with
  | Some n => wn_leaf n = true /\ map wn_seg (wn_children n) = [s_CH]
  | None => False
  end.
Proof. vm_compute. split; reflexivity. Qed.

(* the sum of the members alone does not give the group: the plain group law fails, the mapping law holds *)
Lemma w3_laws :
  groups_ok_b 0 2 (srows w3_table) = false /\
  mapping_law_b 0 2 (pc_mapping w3_cfg) (srows w3_table0) (srows w3_table) = true.
Proof. vm_compute. split; reflexivity. Qed.

Lemma w3_node_law :
  (node_weight (propagate (report_of w3_entries)) [s_Equity] (jan 31) == 1 # 2)%Q /\
  (folded_weight (pc_mapping w3_cfg) w3_entries0 [s_Equity] (jan 31) == 1 # 4)%Q /\
  (node_weight (propagate (report_of w3_entries)) [s_Equity; s_CH] (jan 31) == 1 # 4)%Q /\
  (mapped_weight (pc_mapping w3_cfg) w3_entries0 [s_Equity] (jan 31) == 1 # 2)%Q.
Proof. vm_compute. repeat split; reflexivity. Qed.

Lemma w3_defined : defined_entries w3_entries0.
Proof. rewrite w3_entries0_eq. repeat constructor; discriminate. Qed.

Lemma w3_prefix_free : prefix_free w3_entries0.
Proof.
  unfold prefix_free. rewrite w3_entries0_eq. intros e1 e2 H1 H2. cbn [In] in H1, H2.
  repeat (destruct H1 as [<-|H1]; [repeat (destruct H2 as [<-|H2]; [vm_compute; reflexivity|]); destruct H2|]). destruct H1.
Qed.

Lemma w3_nonempty : Forall (fun e : entry => (let '(ss, _, _) := e in ss) <> []) w3_entries.
Proof. rewrite w3_entries_eq. repeat constructor; discriminate. Qed.

(* ---------------------------------------------------------------- W4 *)

(* a class named like the path of a classified commodity: Equity (AAPL) and Equity:AAPL (NESN).
   In the table WITHOUT -m the row Equity > AAPL is a commodity and a group at once, so it is
   not among the leaf rows from which mapping_law_b reads the folded commodities: the executable
   statement is false on the (correct) tables of such a universe, whatever the mapping. *)
Definition w4_universe : list (str * list commodity) :=
  [ (s_Equity, [AAPL]); (s_Equity ++ [colon] ++ AAPL, [NESN]); (s_Cash, [CHF]) ].

(* -m 1,^Cash *)
Definition w4_cfg : pf_cfg :=
  mkPfCfg 0 (feb 28) Monthly 0 (Some CHF) [] [] [mkRule 1 0 (Some (mkRx true s_Cash false))] true (Some w4_universe) true.

Definition w4_entries0 : list entry :=
  match weights_entries (pf_unmapped w4_cfg) w3_journal with COk es => es | _ => [] end.
Definition w4_entries : list entry := match weights_entries w4_cfg w3_journal with COk es => es | _ => [] end.
Definition w4_table : list Z * list wrow := match weights_table w4_cfg w3_journal with COk t => t | _ => ([], []) end.
Definition w4_table0 : list Z * list wrow :=
  match weights_table (pf_unmapped w4_cfg) w3_journal with COk t => t | _ => ([], []) end.

Lemma w4_runs :
  weights_entries (pf_unmapped w4_cfg) w3_journal = COk w4_entries0 /\ weights_entries w4_cfg w3_journal = COk w4_entries /\
  weights_table (pf_unmapped w4_cfg) w3_journal = COk w4_table0 /\ weights_table w4_cfg w3_journal = COk w4_table.
Proof. vm_compute. repeat split; reflexivity. Qed.

Lemma w4_hyps :
  defined_entries w4_entries0 /\ Forall (fun e : entry => (let '(ss, _, _) := e in ss) <> []) w4_entries.
Proof. vm_compute. split; repeat constructor; discriminate. Qed.

Lemma w4_not_prefix_free :
  In ([s_Equity; AAPL], jan 31, Some (1 # 4)%Q) w4_entries0 /\ In ([s_Equity; AAPL; NESN], jan 31, Some (1 # 4)%Q) w4_entries0.
Proof. vm_compute. split; [left; reflexivity|right; right; left; reflexivity]. Qed.

Lemma w4_law_fails : mapping_law_b 0 2 (pc_mapping w4_cfg) (srows w4_table0) (srows w4_table) = false.
Proof. vm_compute. reflexivity. Qed.
