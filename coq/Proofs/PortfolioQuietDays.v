(* C20, part 9: days without price declarations get no value adjustment.
   Through the stages both portfolio commands run (ComputePrices, Check, Valuate): a day of
   the journal that declares no price is valued at the prices of the day before, so Valuate's
   DayStart books no adjustment on it, and its transactions are the journal's, with their
   @performance targets.  Hence the hypothesis "untargeted" of external_flows_zero_full can be
   read off the days the builder makes from the directives: no price directive, and no
   transaction with a @performance annotation (or none: an accrual keeps its transaction's). *)
From Coq Require Import ZArith QArith List Bool Lia.
From Knut Require Import Model.Str Model.Dec Model.Date Model.Account Model.Ledger Model.Price
     Model.Journal Model.Check Model.Pipeline Model.Cli Model.Perf Model.Weights Model.CliPortfolio
     Spec.PortfolioSpec
     Proofs.LedgerProofs Proofs.PriceDayProofs Proofs.MarkToMarket
     Proofs.PortfolioDays Proofs.PortfolioReturns Proofs.PortfolioProofs Proofs.PortfolioFlowsFull.
Import ListNotations.
Open Scope Z_scope.

(* ------------------------------------------------------------ the targets survive every stage *)

Lemma fold_txns_targets {S} (p : processor S) ts : forall s s' ts',
  fold_txns p s ts = ROk (s', ts') -> map t_targets ts' = map t_targets ts.
Proof.
  induction ts as [|t ts IH]; intros s s' ts' H; cbn [fold_txns] in H.
  - injection H as <- <-. reflexivity.
  - destruct (match pr_txn p with Some f => f s t | None => ROk s end) as [s1| |]; cbn [rbind] in H; try discriminate.
    destruct (match pr_posting p with
              | Some f => rbind (fold_postings f t s1 (t_postings t)) (fun sp =>
                          ROk (fst sp, mkTxn (t_date t) (t_desc t) (snd sp) (t_targets t)))
              | None => ROk (s1, t)
              end) as [[s2 t2]| |] eqn:E2; cbn [rbind fst snd] in H; try discriminate.
    destruct (fold_txns p s2 ts) as [[s3 r]| |] eqn:E3; cbn [rbind fst snd] in H; try discriminate.
    injection H as <- <-. cbn [map]. rewrite (IH _ _ _ E3). f_equal.
    destruct (pr_posting p) as [f|].
    + destruct (fold_postings f t s1 (t_postings t)) as [[s4 ps]| |]; cbn [rbind fst snd] in E2; try discriminate.
      injection E2 as <- <-. reflexivity.
    + injection E2 as <- <-. reflexivity.
Qed.

(* ------------------------------------------------------------ ComputePrices carries prices forward *)

Fixpoint carried (prev : option nprices) (ds ds' : list day) : Prop :=
  match ds, ds' with
  | [], [] => True
  | d :: r, d' :: r' =>
    d_date d' = d_date d /\ d_txns d' = d_txns d /\ (d_prices d = [] -> d_normalized d' = prev) /\
    carried (d_normalized d') r r'
  | _, _ => False
  end.

Lemma cp_day_carried v s d s1 d1 :
  process_day (compute_prices_proc v) s d = ROk (s1, d1) ->
  d_date d1 = d_date d /\ d_txns d1 = d_txns d /\ (d_prices d = [] -> d_normalized d1 = cp_previous s) /\
  cp_previous s1 = d_normalized d1.
Proof.
  intros H. unfold process_day in H.
  cbn [compute_prices_proc pr_day_start pr_price pr_open pr_close pr_day_end rbind fst snd] in H.
  destruct (d_prices d) as [|x l] eqn:Ep.
  - cbn [fold_res rbind] in H. rewrite fold_txns_cp in H. cbn [rbind fst snd] in H.
    rewrite fold_asserts_cp in H. cbn [rbind] in H.
    unfold cp_day_end in H. cbn [d_prices d_date d_opens d_txns d_asserts d_closes d_normalized] in H.
    injection H as <- <-. cbn [set_normalized d_date d_txns d_normalized]. repeat split; reflexivity.
  - destruct (fold_res cp_price_cb s (x :: l)) as [s2| |]; cbn [rbind] in H; try discriminate.
    rewrite fold_txns_cp in H. cbn [rbind fst snd] in H.
    rewrite fold_asserts_cp in H. cbn [rbind] in H.
    unfold cp_day_end in H. cbn [d_prices d_date d_opens d_txns d_asserts d_closes d_normalized] in H.
    destruct (normalize (cp_prices s2) v); [|discriminate]. injection H as <- <-.
    cbn [set_normalized d_date d_txns d_normalized cp_previous]. repeat split; try reflexivity. discriminate.
Qed.

Lemma prices_stage_carried v ds : forall s s' ds',
  process_days (compute_prices_proc v) s ds = ROk (s', ds') -> carried (cp_previous s) ds ds'.
Proof.
  induction ds as [|d ds IH]; intros s s' ds' H; cbn [process_days] in H.
  - injection H as <- <-. exact I.
  - destruct (process_day (compute_prices_proc v) s d) as [[s1 d1]| |] eqn:E1; cbn [rbind fst snd] in H; try discriminate.
    destruct (process_days (compute_prices_proc v) s1 ds) as [[s2 ds2]| |] eqn:E2; cbn [rbind fst snd] in H; try discriminate.
    injection H as <- <-. destruct (cp_day_carried _ _ _ _ _ E1) as (A1 & A2 & A3 & A4).
    cbn [carried]. split; [exact A1|]. split; [exact A2|]. split; [exact A3|]. rewrite <- A4. apply (IH _ _ _ E2).
Qed.

(* ------------------------------------------------------------ Valuate: same prices, no adjustment *)

Lemma is_zero_sub_same x : is_zero (sub x x) = true.
Proof. unfold sub, rescale_pair. rewrite Z.eqb_refl. unfold is_zero. cbn [coef]. apply Z.eqb_eq. ring. Qed.

Lemma val_adjustments_same v date n pos : forall ts, val_adjustments v date n n pos = ROk ts -> ts = [].
Proof.
  induction pos as [|[k [[a c] q]] rest IH]; intros ts H; cbn [val_adjustments] in H.
  - injection H as <-. reflexivity.
  - destruct (str_eqb c v || negb (is_AL a) || is_zero q); [apply IH; exact H|].
    destruct (np_price_opt n c) as [pp|]; [|discriminate].
    rewrite is_zero_sub_same in H. apply IH. exact H.
Qed.

Fixpoint quiet_from (prev : option nprices) (ds ds' : list day) : Prop :=
  match ds, ds' with
  | [], [] => True
  | d :: r, d' :: r' =>
    d_date d' = d_date d /\ (prev = d_normalized d -> map t_targets (d_txns d') = map t_targets (d_txns d)) /\
    quiet_from (d_normalized d) r r'
  | _, _ => False
  end.

Lemma valuate_stage_quiet v ds : forall s s' ds',
  process_days (valuate_proc v) s ds = ROk (s', ds') -> quiet_from (v_prev s) ds ds'.
Proof.
  induction ds as [|d ds IH]; intros s s' ds' H; cbn [process_days] in H.
  - injection H as <- <-. exact I.
  - destruct (process_day (valuate_proc v) s d) as [[s1 d1]| |] eqn:E1; cbn [rbind fst snd] in H; try discriminate.
    destruct (process_days (valuate_proc v) s1 ds) as [[s2 ds2]| |] eqn:E2; cbn [rbind fst snd] in H; try discriminate.
    injection H as <- <-.
    destruct (valuate_day_inv _ _ _ _ _ E1) as (ts & s3 & txns' & Eadj & Efold & Es1 & Etx & En & Ed).
    cbn [quiet_from]. split; [exact Ed|]. split.
    + intros Hsame. rewrite Hsame in Eadj. apply val_adjustments_same in Eadj. subst ts.
      rewrite app_nil_r in Efold. rewrite Etx. exact (fold_txns_targets _ _ _ _ _ Efold).
    + specialize (IH _ _ _ E2). rewrite Es1 in IH. cbn [v_prev] in IH. exact IH.
Qed.

(* ------------------------------------------------------------ the three stages together *)

Definition kept (d d' : day) : Prop :=
  d_date d' = d_date d /\ (d_prices d = [] -> map t_targets (d_txns d') = map t_targets (d_txns d)).

Lemma carried_quiet prev ds : forall d1 d3,
  carried prev ds d1 -> quiet_from prev d1 d3 -> Forall2 kept ds d3.
Proof.
  revert prev. induction ds as [|d ds IH]; intros prev [|x d1] [|y d3] Hc Hq; cbn [carried quiet_from] in *; try contradiction.
  - constructor.
  - destruct Hc as (C1 & C2 & C3 & C4). destruct Hq as (Q1 & Q2 & Q3). constructor.
    + split; [congruence|]. intros Hp. rewrite <- C2. apply Q2. symmetry. apply C3. exact Hp.
    + exact (IH _ _ _ C4 Q3).
Qed.

Lemma kept_refl ds : Forall2 kept ds ds.
Proof. induction ds as [|d ds IH]; constructor; [split; reflexivity|exact IH]. Qed.

Lemma valued_days_kept cfg days days' : valued_days cfg days = COk days' -> Forall2 kept days days'.
Proof.
  unfold valued_days. intros H. destruct (pc_valuation cfg) as [v|].
  - destruct (run_stage (compute_prices_proc v) _ days) as [[s1 d1]| |] eqn:E1; cbn [cbind snd] in H; try discriminate.
    destruct (run_stage (check_proc _) _ d1) as [[s2 d2]| |] eqn:E2; cbn [cbind snd] in H; try discriminate.
    destruct (run_stage (valuate_proc v) _ d2) as [[s3 d3]| |] eqn:E3; cbn [cbind snd] in H; try discriminate.
    injection H as <-. apply run_stage_inv in E1, E2, E3.
    apply check_stage_id in E2. subst d2.
    apply prices_stage_carried in E1. apply valuate_stage_quiet in E3. cbn [cp_previous v_prev] in *.
    exact (carried_quiet _ _ _ _ E1 E3).
  - destruct (run_stage (check_proc _) _ days) as [[s2 d2]| |] eqn:E2; cbn [cbind snd] in H; try discriminate.
    injection H as <-. apply run_stage_inv in E2. apply check_stage_id in E2. subst d2. apply kept_refl.
Qed.

(* a day of the journal without price declaration and without @performance annotation *)
Definition quiet (x : day) : Prop := d_prices x = [] /\ untargeted x.

Lemma kept_untargeted d d' : kept d d' -> quiet d -> untargeted d'.
Proof.
  intros [_ Hk] [Hp Hu]. specialize (Hk Hp). unfold untargeted in *. revert Hk Hu.
  generalize (d_txns d) (d_txns d'). intros l l'. revert l.
  induction l' as [|t' l' IH]; intros [|t l] Hk Hu; cbn [map] in Hk; try discriminate; constructor.
  - inversion Hu; subst. injection Hk as Ht _. congruence.
  - inversion Hu; subst. injection Hk as _ Hr. exact (IH _ Hr H2).
Qed.

Lemma quiet_days_valued cfg days days' :
  valued_days cfg days = COk days' ->
  Forall2 (fun d d' => d_date d' = d_date d /\
                       (d_prices d = [] -> map t_targets (d_txns d') = map t_targets (d_txns d)) /\
                       (quiet d -> untargeted d')) days days'.
Proof.
  intros H. pose proof (valued_days_kept cfg days days' H) as Hk. clear H.
  induction Hk as [|d d' l l' Hd Hrest IH]; constructor; [|exact IH].
  destruct Hd as [H1 H2]. split; [exact H1|]. split; [exact H2|]. apply kept_untargeted. split; assumption.
Qed.

(* ------------------------------------------------------------ the statement of Properties/C20.v *)

Theorem external_flows_zero_source cfg ds out :
  returns_fixed cfg ds = COk out ->
  exists b part perfs,
    load ds = COk b /\ pf_partition cfg b = COk part /\
    map pf_date perfs = map d_date (b_days (builder_touch b (end_dates part))) /\
    out = perf_loop part (end_dates part) (Some 1%Q) perfs /\
    forall pre l p rest, perfs = pre ++ l ++ p :: rest ->
      boundary part (end_dates part) pre ->
      Forall (fun x => partition_contains part (pf_date x) = true /\ mem (end_dates part) (pf_date x) = false) l ->
      partition_contains part (pf_date p) = true -> mem (end_dates part) (pf_date p) = true ->
      (forall x, In x (b_days (builder_touch b (end_dates part))) -> In (d_date x) (map pf_date (l ++ [p])) -> quiet x) ->
      exists r, In (pf_date p, r) out /\ is_or_undef r 0%Q.
Proof.
  intros H. destruct (external_flows_zero_full cfg ds out H) as (b & part & days & vs & fs & El & Ep & Ev & _ & _ & Hout & Hdates & Hlaw).
  exists b, part, (join_perf (fst vs) fs).
  pose proof (valued_days_kept _ _ _ Ev) as Hkept.
  split; [exact El|]. split; [exact Ep|]. split; [rewrite Hdates; exact (valued_days_dates _ _ _ Ev)|]. split; [exact Hout|].
  intros pre l p rest Hsplit Hb Hl Hc Hm Hquiet.
  assert (Hunt : forall x, In x days -> In (d_date x) (map pf_date (l ++ [p])) -> untargeted x).
  { intros x' Hx' Hd'. destruct (Forall2_in_r _ _ _ Hkept x' Hx') as [x [Hx Hk]].
    apply (kept_untargeted x x' Hk). apply Hquiet; [exact Hx|]. destruct Hk as [Hdt _]. rewrite <- Hdt. exact Hd'. }
  destruct (Hlaw l p (ex_intro _ pre (ex_intro _ rest Hsplit)) Hunt) as [_ Hzero].
  exists (reported part (end_dates part) l p). split; [|exact Hzero].
  rewrite Hout, Hsplit, (perf_loop_boundary _ _ _ _ Hb), (period_reported part (end_dates part) l p rest Hl Hc Hm).
  apply in_or_app. right. left. reflexivity.
Qed.
