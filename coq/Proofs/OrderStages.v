(* C05: every stage of the balance pipeline maps equivalent day lists (same dates, each kind's
   list permuted, [OrderProofs.day_equiv]) to equivalent day lists, or fails on both.
   Generic part: the transaction loop of Processor.Process as a fold over (transaction, posting)
   items; then the checker. *)
From Coq Require Import ZArith List Bool Lia Permutation.
From Knut Require Import Model.Str Model.Dec Model.Date Model.Account Model.Ledger Model.Price Model.Journal
     Model.Check Model.Pipeline Spec.WellformedSpec Proofs.DecProofs Proofs.CheckLemmas Proofs.CheckProofs
     Proofs.CheckPerm Proofs.OrderSMap Proofs.OrderProofs.
Import ListNotations.
Open Scope bool_scope.
Open Scope Z_scope.

(* ------------------------------------------------------------------ results *)

Definition rfst {A B} (x : presult (A * B)) : presult A :=
  match x with ROk p => ROk (fst p) | RErr k d => RErr k d | RPanic m => RPanic m end.

Lemma req_from_rfst {A B} (R : A -> A -> Prop) (P Q : B -> Prop) (x y : presult (A * B)) :
  req R (rfst x) (rfst y) -> (forall a, x = ROk a -> P (snd a)) -> (forall b, y = ROk b -> Q (snd b)) ->
  req (fun a b => R (fst a) (fst b) /\ P (snd a) /\ Q (snd b)) x y.
Proof.
  destruct x as [a| |], y as [b| |]; cbn; try tauto. intros H HP HQ. repeat split; auto.
Qed.

(* ------------------------------------------------------------------ folds *)

Lemma fold_res_app {S A} (f : S -> A -> presult S) l1 : forall s l2,
  fold_res f s (l1 ++ l2) = rbind (fold_res f s l1) (fun s' => fold_res f s' l2).
Proof.
  induction l1 as [|x l1 IH]; intros s l2; cbn [app fold_res rbind]; [reflexivity|].
  destruct (f s x); cbn [rbind]; [apply IH|reflexivity|reflexivity].
Qed.

Definition items (ts : list txn) : list (txn * posting) := flat_map (fun t => map (pair t) (t_postings t)) ts.

Definition pstep {S} (f : S -> txn -> posting -> presult (S * posting)) (s : S) (tp : txn * posting) : presult S :=
  rfst (f s (fst tp) (snd tp)).

Definition txn_map (g : posting -> posting) (t : txn) : txn :=
  mkTxn (t_date t) (t_desc t) (map g (t_postings t)) (t_targets t).

Lemma txn_map_id t : txn_map (fun p => p) t = t.
Proof. destruct t. unfold txn_map. cbn. rewrite map_id. reflexivity. Qed.

Lemma map_txn_map_id ts : map (txn_map (fun p => p)) ts = ts.
Proof. induction ts as [|t ts IH]; cbn [map]; [reflexivity|]. rewrite txn_map_id, IH. reflexivity. Qed.

Lemma items_perm ts1 ts2 : Permutation ts1 ts2 -> Permutation (items ts1) (items ts2).
Proof. apply perm_flat_map. Qed.

Lemma fold_postings_state {S} (f : S -> txn -> posting -> presult (S * posting)) t ps : forall s,
  rfst (fold_postings f t s ps) = fold_res (pstep f) s (map (pair t) ps).
Proof.
  induction ps as [|x ps IH]; intros s; cbn [fold_postings map fold_res]; [reflexivity|].
  unfold pstep at 1. cbn [fst snd].
  destruct (f s t x) as [[s1 x1]| |]; cbn [rbind rfst fst snd]; try reflexivity.
  rewrite <- IH. destruct (fold_postings f t s1 ps) as [[s2 r]| |]; reflexivity.
Qed.

Lemma fold_txns_state {S} (p : processor S) f ts :
  pr_txn p = None -> pr_posting p = Some f ->
  forall s, rfst (fold_txns p s ts) = fold_res (pstep f) s (items ts).
Proof.
  intros Hn Hf. induction ts as [|t ts IH]; intros s; cbn [fold_txns items flat_map]; [reflexivity|].
  rewrite Hn, Hf. cbn [rbind]. rewrite fold_res_app, <- fold_postings_state.
  destruct (fold_postings f t s (t_postings t)) as [[s1 ps]| |]; cbn [rbind rfst fst snd]; try reflexivity.
  fold (items ts). rewrite <- IH. destruct (fold_txns p s1 ts) as [[s2 r]| |]; reflexivity.
Qed.

Lemma fold_txns_none {S} (p : processor S) ts :
  pr_txn p = None -> pr_posting p = None -> forall s, fold_txns p s ts = ROk (s, ts).
Proof.
  intros Hn Hf. induction ts as [|t ts IH]; intros s; cbn [fold_txns]; [reflexivity|].
  rewrite Hn, Hf. cbn [rbind fst snd]. rewrite IH. reflexivity.
Qed.

Section TxnOut.
  Context {S : Type} (p : processor S) (f : S -> txn -> posting -> presult (S * posting))
          (I : S -> Prop) (g : posting -> posting).
  Hypothesis Hn : pr_txn p = None.
  Hypothesis Hf : pr_posting p = Some f.
  Hypothesis Hg : forall s t x s' x', I s -> f s t x = ROk (s', x') -> x' = g x /\ I s'.

  Lemma fold_postings_out t ps : forall s s' ps',
    I s -> fold_postings f t s ps = ROk (s', ps') -> ps' = map g ps /\ I s'.
  Proof.
    induction ps as [|x ps IH]; intros s s' ps' Hs H; cbn [fold_postings] in H.
    - inversion H; subst. split; [reflexivity|exact Hs].
    - destruct (f s t x) as [[s1 x1]| |] eqn:E; cbn [rbind fst snd] in H; try discriminate.
      destruct (Hg _ _ _ _ _ Hs E) as [-> Hs1].
      destruct (fold_postings f t s1 ps) as [[s2 r]| |] eqn:E2; cbn [rbind fst snd] in H; try discriminate.
      inversion H; subst. destruct (IH _ _ _ Hs1 E2) as [-> Hs2]. split; [reflexivity|exact Hs2].
  Qed.

  Lemma fold_txns_out ts : forall s s' ts',
    I s -> fold_txns p s ts = ROk (s', ts') -> ts' = map (txn_map g) ts /\ I s'.
  Proof.
    induction ts as [|t ts IH]; intros s s' ts' Hs H; cbn [fold_txns] in H.
    - inversion H; subst. split; [reflexivity|exact Hs].
    - rewrite Hn, Hf in H. cbn [rbind] in H.
      destruct (fold_postings f t s (t_postings t)) as [[s1 ps]| |] eqn:E; cbn [rbind fst snd] in H; try discriminate.
      destruct (fold_postings_out _ _ _ _ _ Hs E) as [-> Hs1].
      destruct (fold_txns p s1 ts) as [[s2 r]| |] eqn:E2; cbn [rbind fst snd] in H; try discriminate.
      inversion H; subst. destruct (IH _ _ _ Hs1 E2) as [-> Hs2]. split; [reflexivity|exact Hs2].
  Qed.
End TxnOut.

(* the assertion loop as a fold over (assertion, balance line) items *)
Definition bitems (l : list (list balance)) : list (list balance * balance) := flat_map (fun a => map (pair a) a) l.

Lemma fold_asserts_state {S} (p : processor S) f l :
  pr_balance p = Some f ->
  forall s, fold_asserts p s l = fold_res (fun s ab => f s (fst ab) (snd ab)) s (bitems l).
Proof.
  intros Hf. induction l as [|a l IH]; intros s; cbn [fold_asserts bitems flat_map]; [reflexivity|].
  rewrite Hf, fold_res_app. fold (bitems l).
  assert (E : forall (bs : list balance) s0, fold_res (fun s b => f s a b) s0 bs =
              fold_res (fun s ab => f s (fst ab) (snd ab)) s0 (map (pair a) bs)).
  { induction bs as [|b bs IHb]; intros s0; cbn [fold_res map fst snd]; [reflexivity|].
    destruct (f s0 a b); cbn [rbind]; [apply IHb|reflexivity|reflexivity]. }
  rewrite E. destruct (fold_res _ s (map (pair a) a)); cbn [rbind]; [apply IH|reflexivity|reflexivity].
Qed.

Lemma fold_asserts_none {S} (p : processor S) l : pr_balance p = None -> forall s, fold_asserts p s l = ROk s.
Proof.
  intros Hf. induction l as [|a l IH]; intros s; cbn [fold_asserts]; [reflexivity|].
  rewrite Hf. cbn [rbind]. apply IH.
Qed.

(* ------------------------------------------------------------------ a stage over all days *)

Lemma process_days_rel {S} (p : processor S) (R : S -> S -> Prop) (DI DO : day -> day -> Prop) :
  (forall s1 s2 d1 d2, R s1 s2 -> DI d1 d2 ->
     req (fun a b => R (fst a) (fst b) /\ DO (snd a) (snd b)) (process_day p s1 d1) (process_day p s2 d2)) ->
  forall l1 l2, Forall2 DI l1 l2 -> forall s1 s2, R s1 s2 ->
  req (fun a b => R (fst a) (fst b) /\ Forall2 DO (snd a) (snd b)) (process_days p s1 l1) (process_days p s2 l2).
Proof.
  intros Hd l1 l2 HF. induction HF as [|d1 d2 l1 l2 Hdd Hl IH]; intros s1 s2 Hs; cbn [process_days].
  - cbn. split; [exact Hs|constructor].
  - eapply req_bind; [apply Hd; eassumption|].
    intros [s1' d1'] [s2' d2'] [H1 H2]. cbn [fst snd] in *.
    eapply req_bind; [apply IH; exact H1|].
    intros [s1'' r1] [s2'' r2] [H3 H4]. cbn [fst snd req] in *. split; [exact H3|constructor; assumption].
Qed.

(* ------------------------------------------------------------------ accounts of a day *)

Definition txns_accs_ok (ts : list txn) : Prop :=
  forall t p, In t ts -> In p (t_postings t) -> account_ok (p_acc p) = true.
Definition day_accs_ok (d : day) : Prop := txns_accs_ok (d_txns d).

Lemma txns_accs_ok_perm ts1 ts2 : Permutation ts1 ts2 -> txns_accs_ok ts1 -> txns_accs_ok ts2.
Proof. intros P H t p Ht Hp. apply (H t p); [eapply Permutation_in; [apply Permutation_sym; eassumption|exact Ht]|exact Hp]. Qed.

Lemma txns_accs_ok_app ts1 ts2 : txns_accs_ok ts1 -> txns_accs_ok ts2 -> txns_accs_ok (ts1 ++ ts2).
Proof. intros H1 H2 t p Ht. apply in_app_or in Ht. destruct Ht; [apply H1|apply H2]; assumption. Qed.

Lemma items_accs_ok ts : txns_accs_ok ts -> Forall (fun tp : txn * posting => account_ok (p_acc (snd tp)) = true) (items ts).
Proof.
  intros H. apply Forall_forall. intros [t p] Hin. unfold items in Hin. apply in_flat_map in Hin.
  destruct Hin as [t' [Ht Hp]]. apply in_map_iff in Hp. destruct Hp as [p' [E Hp]]. inversion E; subst.
  cbn [snd]. eapply H; eassumption.
Qed.

(* ------------------------------------------------------------------ positions *)

Lemma pos_add_comm m a c q b c' q' :
  account_ok a = true -> account_ok b = true ->
  pos_add (pos_add m a c q) b c' q' = pos_add (pos_add m b c' q') a c q.
Proof.
  intros Ha Hb. unfold pos_add, pos_get.
  destruct (WellformedSpec.str_eq_dec (pos_key a c) (pos_key b c')) as [E|N].
  - destruct (pos_key_inj _ _ _ _ Ha Hb E) as [-> ->].
    rewrite !CheckLemmas.sm_get_put_same, !sm_put_put_same.
    f_equal. f_equal. rewrite !add_assoc. f_equal. apply add_comm.
  - rewrite (CheckLemmas.sm_get_put_other m (pos_key a c) _ (pos_key b c')) by congruence.
    rewrite (CheckLemmas.sm_get_put_other m (pos_key b c') _ (pos_key a c)) by congruence.
    apply sm_put_comm. exact N.
Qed.

(* ------------------------------------------------------------------ the checker *)

(* checker states that mean the same: the same accounts are open (the list of open accounts is
   in arrival order), the same quantities *)
Definition Rck (s s' : check_state) : Prop :=
  (forall a, is_open s a = is_open s' a) /\ ck_qty s = ck_qty s'.

Lemma Rck_refl s : Rck s s.
Proof. split; reflexivity. Qed.

Lemma Rck_trans a b c : Rck a b -> Rck b c -> Rck a c.
Proof. intros [H1 H2] [K1 K2]. split; [intros x; rewrite H1; apply K1|congruence]. Qed.

Lemma acc_eqb_sym a b : acc_eqb a b = acc_eqb b a.
Proof. unfold acc_eqb. apply SMapProofs.str_eqb_sym. Qed.

Lemma ck_open_resp s s' a : Rck s s' -> req Rck (ck_open_cb s a) (ck_open_cb s' a).
Proof.
  intros [Ho Hq]. unfold ck_open_cb. rewrite (Ho a). destruct (is_open s' a); cbn [req]; [exact I|].
  split; [|exact Hq]. intros b. rewrite !is_open_cons. f_equal.
  specialize (Ho b). unfold is_open in *. exact Ho.
Qed.

Lemma ck_open_comm s a b :
  req Rck (rbind (ck_open_cb s a) (fun s1 => ck_open_cb s1 b)) (rbind (ck_open_cb s b) (fun s1 => ck_open_cb s1 a)).
Proof.
  unfold ck_open_cb. destruct (is_open s a) eqn:Ea, (is_open s b) eqn:Eb; cbn [rbind].
  - exact I.
  - rewrite is_open_cons. replace (is_open (mkCheck (ck_open s) (ck_qty s)) a) with true by (symmetry; exact Ea).
    rewrite orb_true_r. exact I.
  - rewrite is_open_cons. replace (is_open (mkCheck (ck_open s) (ck_qty s)) b) with true by (symmetry; exact Eb).
    rewrite orb_true_r. exact I.
  - rewrite !is_open_cons.
    replace (is_open (mkCheck (ck_open s) (ck_qty s)) a) with false by (symmetry; exact Ea).
    replace (is_open (mkCheck (ck_open s) (ck_qty s)) b) with false by (symmetry; exact Eb).
    rewrite !orb_false_r, (acc_eqb_sym b a). destruct (acc_eqb a b); cbn [req]; [exact I|].
    split; [|reflexivity]. intros c. cbn [ck_open ck_qty]. rewrite !is_open_cons.
    destruct (acc_eqb c a), (acc_eqb c b); reflexivity.
Qed.

Lemma ck_pstep_eq s tp :
  pstep ck_posting_cb s tp =
  if negb (is_open s (p_acc (snd tp))) then RErr k_not_open (acc_name (p_acc (snd tp)))
  else if is_AL (p_acc (snd tp))
       then ROk (mkCheck (ck_open s) (pos_add (ck_qty s) (p_acc (snd tp)) (p_com (snd tp)) (p_qty (snd tp))))
       else ROk s.
Proof.
  unfold pstep, ck_posting_cb. destruct (negb (is_open s (p_acc (snd tp)))); [reflexivity|].
  destruct (is_AL (p_acc (snd tp))); reflexivity.
Qed.

Lemma ck_pstep_resp s s' tp : Rck s s' -> req Rck (pstep ck_posting_cb s tp) (pstep ck_posting_cb s' tp).
Proof.
  intros [Ho Hq]. rewrite !ck_pstep_eq, (Ho (p_acc (snd tp))), Hq.
  destruct (negb (is_open s' (p_acc (snd tp)))); cbn [req]; [exact I|].
  destruct (is_AL (p_acc (snd tp))); cbn [req]; (split; [|first [reflexivity|exact Hq]]); intros b; apply Ho.
Qed.

Lemma ck_pstep_comm s x y :
  account_ok (p_acc (snd x)) = true -> account_ok (p_acc (snd y)) = true ->
  req Rck (rbind (pstep ck_posting_cb s x) (fun s1 => pstep ck_posting_cb s1 y))
          (rbind (pstep ck_posting_cb s y) (fun s1 => pstep ck_posting_cb s1 x)).
Proof.
  intros Hx Hy. rewrite !ck_pstep_eq.
  assert (K : forall q a, is_open (mkCheck (ck_open s) q) a = is_open s a) by reflexivity.
  destruct (is_open s (p_acc (snd x))) eqn:Ex, (is_open s (p_acc (snd y))) eqn:Ey; cbn [negb rbind];
    destruct (is_AL (p_acc (snd x))) eqn:Ax, (is_AL (p_acc (snd y))) eqn:Ay; cbn [negb rbind];
    rewrite ?ck_pstep_eq, ?K, ?Ex, ?Ey, ?Ax, ?Ay; cbn [negb rbind req ck_open ck_qty]; try exact I;
    (split; [intros b; reflexivity|]); try reflexivity.
  cbn [ck_qty]. apply pos_add_comm; assumption.
Qed.

(* ---- closes *)
Definition close_ok (m : positions) (a : account) : bool :=
  forallb (fun x => negb (acc_eqb a (entry_acc x)) || is_zero (snd (snd x))) m.
Definition close_rest (m : positions) (a : account) : positions :=
  filter (fun x => negb (acc_eqb a (entry_acc x))) m.

Lemma close_positions_eq m a : close_positions m a = if close_ok m a then Some (close_rest m a) else None.
Proof.
  induction m as [|[k [[a' c] q]] rest IH]; cbn [close_positions close_ok close_rest forallb filter]; [reflexivity|].
  unfold entry_acc at 1 3. cbn [fst snd]. fold (close_ok rest a). fold (close_rest rest a).
  destruct (acc_eqb a a'); cbn [negb orb andb].
  - destruct (is_zero q); cbn [andb]; [exact IH|reflexivity].
  - rewrite IH. destruct (close_ok rest a); reflexivity.
Qed.

Lemma filter_comm {A} (f g : A -> bool) l : filter f (filter g l) = filter g (filter f l).
Proof.
  induction l as [|x l IH]; cbn [filter]; [reflexivity|].
  destruct (f x) eqn:Ef, (g x) eqn:Eg; cbn [filter]; rewrite ?Ef, ?Eg, IH; reflexivity.
Qed.

Lemma close_ok_rest m a b : acc_eqb a b = false -> close_ok (close_rest m a) b = close_ok m b.
Proof.
  intros N. unfold close_ok, close_rest. induction m as [|x m IH]; cbn [filter forallb]; [reflexivity|].
  destruct (acc_eqb a (entry_acc x)) eqn:E; cbn [negb forallb].
  - rewrite IH. assert (acc_eqb b (entry_acc x) = false) as ->.
    { destruct (acc_eqb b (entry_acc x)) eqn:E2; [|reflexivity].
      apply acc_eqb_name in E. apply acc_eqb_name in E2.
      assert (acc_eqb a b = true) by (apply acc_eqb_name; congruence). congruence. }
    reflexivity.
  - rewrite IH. reflexivity.
Qed.

Lemma ck_close_eq s a :
  ck_close_cb s a =
  if close_ok (ck_qty s) a then
    if negb (is_open s a) then RErr k_not_open (acc_name a)
    else ROk (mkCheck (filter (fun x => negb (acc_eqb a x)) (ck_open s)) (close_rest (ck_qty s) a))
  else RErr k_nonzero (acc_name a).
Proof. unfold ck_close_cb. rewrite close_positions_eq. destruct (close_ok (ck_qty s) a); reflexivity. Qed.

Lemma is_open_filtered o q a b :
  is_open (mkCheck (filter (fun x => negb (acc_eqb a x)) o) q) b = negb (acc_eqb a b) && existsb (acc_eqb b) o.
Proof. unfold is_open. cbn [ck_open]. apply existsb_filter_acc. Qed.

Lemma ck_close_resp s s' a : Rck s s' -> req Rck (ck_close_cb s a) (ck_close_cb s' a).
Proof.
  intros [Ho Hq]. rewrite !ck_close_eq, (Ho a), Hq.
  destruct (close_ok (ck_qty s') a); cbn [req]; [|exact I].
  destruct (negb (is_open s' a)); cbn [req]; [exact I|].
  split; [|reflexivity]. intros b. rewrite !is_open_filtered. f_equal. apply Ho.
Qed.

Lemma ck_close_comm s a b :
  req Rck (rbind (ck_close_cb s a) (fun s1 => ck_close_cb s1 b)) (rbind (ck_close_cb s b) (fun s1 => ck_close_cb s1 a)).
Proof.
  rewrite !ck_close_eq.
  destruct (acc_eqb a b) eqn:Eab.
  - (* the same account twice: the second close finds it closed *)
    assert (Eba : acc_eqb b a = true) by (rewrite acc_eqb_sym; exact Eab).
    destruct (close_ok (ck_qty s) a), (close_ok (ck_qty s) b); cbn [rbind]; try exact I;
      destruct (negb (is_open s a)), (negb (is_open s b)); cbn [rbind]; try exact I;
      rewrite ?ck_close_eq; cbn [ck_qty ck_open];
      try (destruct (close_ok (close_rest (ck_qty s) a) b)); try (destruct (close_ok (close_rest (ck_qty s) b) a));
      rewrite ?is_open_filtered, ?Eab, ?Eba; cbn [negb andb req]; exact I.
  - assert (Eba : acc_eqb b a = false) by (rewrite acc_eqb_sym; exact Eab).
    destruct (close_ok (ck_qty s) a) eqn:Ca, (close_ok (ck_qty s) b) eqn:Cb; cbn [rbind];
      destruct (is_open s a) eqn:Oa, (is_open s b) eqn:Ob; cbn [negb rbind];
      rewrite ?ck_close_eq; cbn [ck_qty ck_open];
      rewrite ?(close_ok_rest _ _ _ Eab), ?(close_ok_rest _ _ _ Eba), ?Ca, ?Cb, ?is_open_filtered, ?Eab, ?Eba;
      unfold is_open in Oa, Ob; rewrite ?Oa, ?Ob; cbn [negb andb req]; try exact I.
    split.
    + intros c. unfold is_open. cbn [ck_open]. rewrite filter_comm. reflexivity.
    + cbn [ck_qty]. unfold close_rest. apply filter_comm.
Qed.

(* ---- the stage.  [fb] is the balance callback: any callback that leaves the state alone and
   respects equivalent states (all three variants of Checker.balance in Model/Check.v do) *)
Definition check_proc_with (fb : check_state -> list balance -> balance -> presult check_state) : processor check_state :=
  mkProc None None (Some ck_open_cb) None (Some ck_posting_cb) (Some fb) (Some ck_close_cb) None.

Section CheckStage.
  Variable fb : check_state -> list balance -> balance -> presult check_state.
  Hypothesis fb_pure : forall s a b s', fb s a b = ROk s' -> s' = s.
  Hypothesis fb_resp : forall s s' a b, Rck s s' -> req Rck (fb s a b) (fb s' a b).

  Let p := check_proc_with fb.

  Lemma check_txns_rel s1 s2 ts1 ts2 :
    Rck s1 s2 -> Permutation ts1 ts2 -> txns_accs_ok ts1 ->
    req (fun a b => Rck (fst a) (fst b) /\ snd a = ts1 /\ snd b = ts2) (fold_txns p s1 ts1) (fold_txns p s2 ts2).
  Proof.
    intros Hs P Hok. apply (req_from_rfst Rck (fun t => t = ts1) (fun t => t = ts2)).
    - rewrite !(fold_txns_state p ck_posting_cb) by reflexivity.
      apply (fold_res_perm Rck (pstep ck_posting_cb) (fun tp => account_ok (p_acc (snd tp)) = true)).
      + exact Rck_trans.
      + intros; apply ck_pstep_resp; assumption.
      + intros; apply ck_pstep_comm; assumption.
      + apply items_perm. exact P.
      + apply items_accs_ok. exact Hok.
      + apply Rck_refl.
      + exact Hs.
    - intros [s' ts'] E. cbn [snd].
      destruct (fold_txns_out p ck_posting_cb (fun _ => True) (fun x => x) eq_refl eq_refl) with (ts := ts1) (s := s1) (s' := s') (ts' := ts') as [-> _]; auto.
      + intros s t x s0 x' _ H. unfold ck_posting_cb in H. destruct (negb (is_open s (p_acc x))); try discriminate.
        destruct (is_AL (p_acc x)); inversion H; auto.
      + apply map_txn_map_id.
    - intros [s' ts'] E. cbn [snd].
      destruct (fold_txns_out p ck_posting_cb (fun _ => True) (fun x => x) eq_refl eq_refl) with (ts := ts2) (s := s2) (s' := s') (ts' := ts') as [-> _]; auto.
      + intros s t x s0 x' _ H. unfold ck_posting_cb in H. destruct (negb (is_open s (p_acc x))); try discriminate.
        destruct (is_AL (p_acc x)); inversion H; auto.
      + apply map_txn_map_id.
  Qed.

  Lemma check_asserts_rel s1 s2 l1 l2 :
    Rck s1 s2 -> Permutation l1 l2 -> req Rck (fold_asserts p s1 l1) (fold_asserts p s2 l2).
  Proof.
    intros Hs P. rewrite !(fold_asserts_state p fb) by reflexivity.
    apply (fold_res_perm Rck _ (fun _ => True)).
    - exact Rck_trans.
    - intros; apply fb_resp; assumption.
    - intros s x y _ _ _.
      destruct (fb s (fst x) (snd x)) as [sx| |] eqn:Ex; destruct (fb s (fst y) (snd y)) as [sy| |] eqn:Ey; cbn [rbind];
        try (pose proof (fb_pure _ _ _ _ Ex); subst sx); try (pose proof (fb_pure _ _ _ _ Ey); subst sy);
        rewrite ?Ex, ?Ey; cbn [req]; try exact I.
      apply Rck_refl.
    - unfold bitems. apply perm_flat_map. exact P.
    - apply Forall_forall. intros; exact I.
    - apply Rck_refl.
    - exact Hs.
  Qed.

  Definition DIok (d1 d2 : day) : Prop := day_equiv d1 d2 /\ day_accs_ok d1.

  Lemma check_day_rel s1 s2 d1 d2 :
    Rck s1 s2 -> DIok d1 d2 ->
    req (fun a b => Rck (fst a) (fst b) /\ (snd a = d1 /\ snd b = d2)) (process_day p s1 d1) (process_day p s2 d2).
  Proof.
    intros Hs [(E0 & E1 & E2 & E3 & E4 & E5 & E6) Hok]. unfold process_day. cbn [p check_proc_with pr_day_start pr_price pr_open pr_close pr_day_end rbind fst snd].
    eapply req_bind.
    { apply (fold_res_perm Rck ck_open_cb (fun _ => True) Rck_trans).
      - intros; apply ck_open_resp; assumption.
      - intros; apply ck_open_comm.
      - exact E2.
      - apply Forall_forall. intros; exact I.
      - apply Rck_refl.
      - exact Hs. }
    intros a1 a2 Ha. eapply req_bind; [apply check_txns_rel; [exact Ha|exact E3|exact Hok]|].
    intros [b1 t1] [b2 t2] (Hb & -> & ->). cbn [fst snd].
    eapply req_bind; [apply check_asserts_rel; [exact Hb|exact E4]|].
    intros c1 c2 Hc. eapply req_bind.
    { apply (fold_res_perm Rck ck_close_cb (fun _ => True) Rck_trans).
      - intros; apply ck_close_resp; assumption.
      - intros; apply ck_close_comm.
      - exact E5.
      - apply Forall_forall. intros; exact I.
      - apply Rck_refl.
      - exact Hc. }
    intros e1 e2 He. cbn [req fst snd]. split; [exact He|]. split; [destruct d1|destruct d2]; reflexivity.
  Qed.

  (* the stage: same verdict, and the days come out as they went in *)
  Theorem check_stage_rel s1 s2 l1 l2 :
    Rck s1 s2 -> Forall2 DIok l1 l2 ->
    req (fun a b => Rck (fst a) (fst b) /\ snd a = l1 /\ snd b = l2) (process_days p s1 l1) (process_days p s2 l2).
  Proof.
    intros Hs HF.
    revert s1 s2 Hs. induction HF as [|d1 d2 l1 l2 Hd Hl IH]; intros s1 s2 Hs; cbn [process_days].
    - cbn. auto.
    - eapply req_bind; [apply check_day_rel; eassumption|].
      intros [s1' d1'] [s2' d2'] (H1 & -> & ->). cbn [fst snd].
      eapply req_bind; [apply IH; exact H1|].
      intros [s1'' r1] [s2'' r2] (H3 & -> & ->). cbn [fst snd req]. auto.
  Qed.
End CheckStage.

(* the three variants of Checker.balance *)
Lemma ck_balance_cb_pure l s a b s' : ck_balance_cb l s a b = ROk s' -> s' = s.
Proof.
  unfold ck_balance_cb. destruct (negb (is_open s (bal_acc b))); [discriminate|].
  destruct (pos_get (ck_qty s) (bal_acc b) (bal_com b)).
  - destruct (dec_equal d (bal_qty b)); [intros H; inversion H; reflexivity|discriminate].
  - destruct (l && dec_equal dec_nil (bal_qty b)); [intros H; inversion H; reflexivity|discriminate].
Qed.

Lemma ck_balance_cb_resp l s s' a b : Rck s s' -> req Rck (ck_balance_cb l s a b) (ck_balance_cb l s' a b).
Proof.
  intros [Ho Hq]. unfold ck_balance_cb. rewrite (Ho (bal_acc b)), Hq.
  destruct (negb (is_open s' (bal_acc b))); cbn [req]; [exact I|].
  destruct (pos_get (ck_qty s') (bal_acc b) (bal_com b)).
  - destruct (dec_equal d (bal_qty b)); cbn [req]; [split; assumption|exact I].
  - destruct (l && dec_equal dec_nil (bal_qty b)); cbn [req]; [split; assumption|exact I].
Qed.

Lemma ck_balance_fixed_pure s a b s' : ck_balance_fixed s a b = ROk s' -> s' = s.
Proof.
  unfold ck_balance_fixed. destruct (negb (is_open s (bal_acc b))); [discriminate|].
  destruct (negb (is_AL (bal_acc b))); [intros H; inversion H; reflexivity|apply ck_balance_cb_pure].
Qed.

Lemma ck_balance_fixed_resp s s' a b : Rck s s' -> req Rck (ck_balance_fixed s a b) (ck_balance_fixed s' a b).
Proof.
  intros H. unfold ck_balance_fixed. rewrite (proj1 H (bal_acc b)).
  destruct (negb (is_open s' (bal_acc b))); cbn [req]; [exact I|].
  destruct (negb (is_AL (bal_acc b))); cbn [req]; [exact H|apply ck_balance_cb_resp; exact H].
Qed.
