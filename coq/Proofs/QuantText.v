(* C09 (b), reports: the text renderer of the balance table sees values only ([render_text_v]):
   Decimal.StringFixed rounds the value (DecRoundProofs.round_haz_eqv), the division by 1000 of
   --thousands gives the same record for value-equal amounts (QuantNum.div_deqv). *)
From Coq Require Import ZArith List Bool Lia.
From Knut Require Import Model.Str Model.Dec Model.Table.
From Knut Require Import Spec.TableSpec Proofs.DecProofs Proofs.DecEqProofs Proofs.DecRoundProofs Proofs.CheckQuant
     Proofs.QuantReport Proofs.QuantNum.
Import ListNotations.
Open Scope bool_scope.
Open Scope Z_scope.

Lemma to_string_fixed_deqv a b p : deqv a b -> to_string_fixed a p = to_string_fixed b p.
Proof. intros H. unfold to_string_fixed. rewrite !round_eq_haz, (round_haz_eqv a b p (eqv_of_deqv _ _ H)). reflexivity. Qed.

Lemma num_str_deqv cfg a b : deqv a b -> num_str cfg a = num_str cfg b.
Proof.
  intros H. unfold num_str, num_to_string. destruct (tc_thousands cfg).
  - rewrite (div_deqv a b k1000 k1000 H (deqv_refl _)). reflexivity.
  - now rewrite (to_string_fixed_deqv a b _ H).
Qed.

Lemma min_length_cell_v cfg c c' : cell_v c c' -> min_length_cell cfg c = min_length_cell cfg c'.
Proof.
  destruct c, c'; cbn [cell_v min_length_cell]; intros H; try contradiction; try discriminate; try (now inversion H); try reflexivity.
  now rewrite (num_str_deqv cfg _ _ H).
Qed.

Lemma is_sep_v c c' : cell_v c c' -> is_sep c = is_sep c'.
Proof. destruct c, c'; cbn; intros H; try contradiction; try discriminate; reflexivity. Qed.

Lemma render_cell_v cfg c c' w : cell_v c c' -> render_cell cfg c w = render_cell cfg c' w.
Proof.
  destruct c, c'; cbn [cell_v render_cell]; intros H; try contradiction; try discriminate; try (now inversion H); try reflexivity.
  now rewrite (deqv_is_zero _ _ H), (num_str_deqv cfg _ _ H).
Qed.

Lemma map_min_length_v cfg r r' : Forall2 cell_v r r' -> map (min_length_cell cfg) r = map (min_length_cell cfg) r'.
Proof. induction 1 as [|c c' r r' Hc Hr IH]; cbn [map]; [reflexivity|]. now rewrite (min_length_cell_v cfg c c' Hc), IH. Qed.

Lemma col_widths_v cfg t t' : table_v t t' -> col_widths cfg t = col_widths cfg t'.
Proof.
  intros H. pose proof (t_width_v _ _ H) as Hw. destruct H as [_ Hr]. unfold col_widths. rewrite Hw.
  generalize (repeat 0 (t_width t')). induction Hr as [|r r' rows rows' Hrow Hrows IH]; intros ws; cbn [fold_left]; [reflexivity|].
  rewrite (map_min_length_v cfg r r' Hrow). apply IH.
Qed.

Lemma final_widths_v cfg t t' : table_v t t' -> final_widths cfg t = final_widths cfg t'.
Proof. intros H. unfold final_widths. rewrite (col_widths_v cfg t t' H), (proj1 H). reflexivity. Qed.

Lemma render_cells_v cfg cs cs' : Forall2 cell_v cs cs' -> forall ws, render_cells cfg cs ws = render_cells cfg cs' ws.
Proof.
  induction 1 as [|c c' cs cs' Hc Hcs IH]; intros ws; [reflexivity|].
  destruct Hcs as [|c2 c2' rest rest' Hc2 Hrest].
  - destruct ws as [|w ws']; [reflexivity|]. cbn [render_cells]. now apply render_cell_v.
  - destruct ws as [|w ws']; [reflexivity|].
    change (render_cells cfg (c :: c2 :: rest) (w :: ws')) with (render_cell cfg c w ++ create_sep c c2 ++ render_cells cfg (c2 :: rest) ws').
    change (render_cells cfg (c' :: c2' :: rest') (w :: ws')) with (render_cell cfg c' w ++ create_sep c' c2' ++ render_cells cfg (c2' :: rest') ws').
    rewrite (render_cell_v cfg c c' w Hc), (IH ws'). unfold create_sep. now rewrite (is_sep_v c c' Hc), (is_sep_v c2 c2' Hc2).
Qed.

Lemma last_v r r' : Forall2 cell_v r r' -> cell_v (last r CEmpty) (last r' CEmpty).
Proof.
  induction 1 as [|c c' r r' Hc Hr IH]; [reflexivity|]. destruct Hr as [|c2 c2' rest rest' Hc2 Hrest]; [exact Hc|exact IH].
Qed.

Lemma render_row_v cfg ws r r' : Forall2 cell_v r r' -> render_row cfg ws r = render_row cfg ws r'.
Proof.
  intros H. unfold render_row. pose proof (last_v r r' H) as Hl. pose proof (render_cells_v cfg r r' H ws) as Hc.
  destruct H as [|c c' rest rest' Hc0 Hrest]; [reflexivity|].
  rewrite Hc, (is_sep_v c c' Hc0), (is_sep_v _ _ Hl). reflexivity.
Qed.

Theorem render_text_v cfg t t' : table_v t t' -> render_text cfg t = render_text cfg t'.
Proof.
  intros H. unfold render_text. rewrite (final_widths_v cfg t t' H). f_equal. f_equal.
  destruct H as [_ Hr]. induction Hr as [|r r' rows rows' Hrow Hrows IH]; cbn [map]; [reflexivity|].
  now rewrite (render_row_v cfg _ r r' Hrow), IH.
Qed.
