(* Decimal.Equal (Model/Dec.v [dec_equal]) is equality of values: it is an equivalence relation
   on (coefficient, exponent) records, [add] respects it, and [is_zero] is invariant under it.
   Values are compared as integers after scaling both numbers to a common smaller exponent. *)
From Coq Require Import ZArith List Bool Lia.
From Knut Require Import Model.Dec Proofs.DecProofs.
Import ListNotations.
Open Scope bool_scope.
Open Scope Z_scope.

Lemma scale_to_self d : scale_to d (ex d) = coef d.
Proof. unfold scale_to. rewrite Z.sub_diag, pow10_0, Z.mul_1_r. reflexivity. Qed.

Lemma rescale_pair_normal a b :
  rescale_pair a b = (mkDec (scale_to a (Z.min (ex a) (ex b))) (Z.min (ex a) (ex b)),
                      mkDec (scale_to b (Z.min (ex a) (ex b))) (Z.min (ex a) (ex b))).
Proof.
  unfold rescale_pair.
  destruct (ex a =? ex b) eqn:E.
  - apply Z.eqb_eq in E. rewrite <- E, Z.min_id. unfold scale_to.
    rewrite <- E. rewrite !Z.sub_diag, pow10_0, !Z.mul_1_r. destruct a, b; cbn in *; subst; reflexivity.
  - apply Z.eqb_neq in E.
    destruct (Z.min (ex a) (ex b) =? ex a) eqn:E2; cbn [negb].
    + apply Z.eqb_eq in E2. rewrite E2.
      rewrite (rescale_down b (ex a)) by lia.
      rewrite scale_to_self. destruct a; reflexivity.
    + apply Z.eqb_neq in E2.
      assert (Hm : Z.min (ex a) (ex b) = ex b) by lia. rewrite Hm.
      rewrite (rescale_down a (ex b)) by lia.
      rewrite scale_to_self. destruct b; reflexivity.
Qed.

Lemma scale_to_lower d m0 m : m <= m0 -> m0 <= ex d -> scale_to d m = scale_to d m0 * pow10 (m0 - m).
Proof. intros H1 H2. symmetry. apply scale_to_trans; assumption. Qed.

Lemma dec_equal_min a b :
  dec_equal a b = true <-> scale_to a (Z.min (ex a) (ex b)) = scale_to b (Z.min (ex a) (ex b)).
Proof.
  unfold dec_equal, cmp. rewrite rescale_pair_normal. cbn [coef].
  destruct (Z.compare_spec (scale_to a (Z.min (ex a) (ex b))) (scale_to b (Z.min (ex a) (ex b)))) as [H|H|H];
    cbn; split; intro H0; try reflexivity; try assumption; try discriminate; lia.
Qed.

(* equality can be tested at any common exponent below both *)
Lemma dec_equal_scaled a b m :
  m <= ex a -> m <= ex b -> (dec_equal a b = true <-> scale_to a m = scale_to b m).
Proof.
  intros Ha Hb. rewrite dec_equal_min.
  set (m0 := Z.min (ex a) (ex b)).
  rewrite (scale_to_lower a m0 m), (scale_to_lower b m0 m) by (unfold m0; lia).
  pose proof (pow10_nonneg_pos (m0 - m) ltac:(unfold m0; lia)) as Hp.
  split; intro H.
  - rewrite H. reflexivity.
  - apply Z.mul_reg_r in H; [assumption|lia].
Qed.

Definition deqv (a b : dec) : Prop := dec_equal a b = true.

Lemma deqv_refl a : deqv a a.
Proof. unfold deqv. apply (dec_equal_scaled a a (ex a)); lia. Qed.

Lemma deqv_sym a b : deqv a b -> deqv b a.
Proof.
  unfold deqv. intros H.
  apply (dec_equal_scaled a b (Z.min (ex a) (ex b))) in H; try lia.
  apply (dec_equal_scaled b a (Z.min (ex a) (ex b))); try lia.
Qed.

Lemma deqv_trans a b c : deqv a b -> deqv b c -> deqv a c.
Proof.
  unfold deqv. intros H1 H2.
  set (m := Z.min (ex a) (Z.min (ex b) (ex c))).
  apply (dec_equal_scaled a b m) in H1; try (unfold m; lia).
  apply (dec_equal_scaled b c m) in H2; try (unfold m; lia).
  apply (dec_equal_scaled a c m); try (unfold m; lia). congruence.
Qed.

Lemma ex_add a b : ex (add a b) = Z.min (ex a) (ex b).
Proof. rewrite add_normal. reflexivity. Qed.

Lemma scale_to_add a b m :
  m <= ex a -> m <= ex b -> scale_to (add a b) m = scale_to a m + scale_to b m.
Proof.
  intros Ha Hb. rewrite add_normal.
  set (m0 := Z.min (ex a) (ex b)).
  unfold scale_to at 1. cbn [coef ex].
  rewrite Z.mul_add_distr_r.
  rewrite (scale_to_trans a m0 m), (scale_to_trans b m0 m) by (unfold m0; lia).
  reflexivity.
Qed.

Lemma deqv_add_l a a' b : deqv a a' -> deqv (add a b) (add a' b).
Proof.
  unfold deqv. intros H.
  set (m := Z.min (ex a) (Z.min (ex a') (ex b))).
  apply (dec_equal_scaled a a' m) in H; try (unfold m; lia).
  apply (dec_equal_scaled (add a b) (add a' b) m); try (rewrite ex_add; unfold m; lia).
  rewrite !scale_to_add by (unfold m; lia). rewrite H. reflexivity.
Qed.

Lemma deqv_is_zero a b : deqv a b -> is_zero a = is_zero b.
Proof.
  unfold deqv. intros H.
  apply (dec_equal_scaled a b (Z.min (ex a) (ex b))) in H; try lia.
  unfold scale_to in H. unfold is_zero.
  pose proof (pow10_nonneg_pos (ex a - Z.min (ex a) (ex b)) ltac:(lia)) as Hpa.
  pose proof (pow10_nonneg_pos (ex b - Z.min (ex a) (ex b)) ltac:(lia)) as Hpb.
  destruct (coef a =? 0) eqn:Ea, (coef b =? 0) eqn:Eb; try reflexivity.
  - apply Z.eqb_eq in Ea. apply Z.eqb_neq in Eb. rewrite Ea in H. nia.
  - apply Z.eqb_neq in Ea. apply Z.eqb_eq in Eb. rewrite Eb in H. nia.
Qed.

(* comparing with a third number gives the same answer for equal values *)
Lemma deqv_equal_l a b q : deqv a b -> dec_equal a q = dec_equal b q.
Proof.
  intros H.
  destruct (dec_equal a q) eqn:E1, (dec_equal b q) eqn:E2; try reflexivity.
  - assert (deqv b q) by (eapply deqv_trans; [apply deqv_sym; eassumption|exact E1]).
    unfold deqv in *. congruence.
  - assert (deqv a q) by (eapply deqv_trans; [eassumption|exact E2]).
    unfold deqv in *. congruence.
Qed.

Lemma deqv_zero a b : is_zero a = true -> is_zero b = true -> deqv a b.
Proof.
  unfold deqv, is_zero. intros Ha Hb. apply Z.eqb_eq in Ha. apply Z.eqb_eq in Hb.
  apply (dec_equal_scaled a b (Z.min (ex a) (ex b))); try lia.
  unfold scale_to. rewrite Ha, Hb. reflexivity.
Qed.
