(* C08 round trip, part 4: CONSTRUCTION for bookings, balances and the single-line directive
   kinds (and the multi-line assertion): in front of the rendered meaning
   (Model/SynRender.v render_sem) followed by r, r starting with a blank, a newline or
   nothing, parse_directive succeeds, consumes exactly the rendered text and returns a
   directive with that meaning.  Needs [class_ok] (blank, newline, ',' ')' '#' '*' '/' are not
   alphanumeric; 'i' is).                                                                    *)
From Coq Require Import ZArith List Bool Lia ZifyBool.
From Knut Require Import Model.Bytes Model.Utf8 Model.Scanner Model.Parser Model.SynPrinter Spec.SyntaxSpec
  Proofs.ScannerProofs Proofs.ParserProofs Spec.FormatSpec Model.SynRender
  Proofs.RoundTripBase Proofs.RoundTripLeaf Proofs.RoundTripInv.
Import ListNotations.
Open Scope bool_scope.
Open Scope Z_scope.

Section WithEnv.
Variable E : env.
Hypothesis Hlen : e_len E = Z.of_nat (length (e_text E)).
Hypothesis Hfuel : (length (e_text E) < e_fuel E)%nat.
Hypothesis Hdec : decoder_ok (e_decode E).
Hypothesis Hloc : decoder_local (e_decode E).
Hypothesis Hcls : class_ok (e_letter E) (e_digit E).

Notation t := (e_text E).
Notation dec := (e_decode E).
Notation letter := (e_letter E).
Notation digit := (e_digit E).
Notation fr := (fr dec).
Notation cls := (cls dec).
Notation At := (At E).
Notation stops := (stops dec).
Notation sepr := (sepr dec).
Notation wsl := (wsl dec).
Notation alnum := (alnum letter digit).
Notation lex_commodity := (lex_commodity dec letter digit).
Notation lex_decimal := (lex_decimal dec digit).
Notation lex_account := (lex_account dec letter digit).
Notation lex_date := (lex_date dec digit).
Notation lex_quoted := (lex_quoted dec).
Notation LexAcc := (LexAcc dec letter digit).
Notation LexBooking := (LexBooking dec letter digit).
Notation LexBal := (LexBal dec letter digit).
Notation LexDir := (LexDir dec letter digit).
Notation date_ok := (date_ok dec digit).

Local Notation At_cur := (RoundTripBase.At_cur E Hlen Hfuel Hdec Hloc).
Local Notation At_off := (RoundTripBase.At_off E Hlen Hfuel Hdec Hloc).
Local Notation At_slice := (RoundTripBase.At_slice E Hlen Hfuel Hdec Hloc).
Local Notation rw1_cons := (RoundTripBase.read_while1_cons E Hlen Hfuel Hdec Hloc).
Local Notation rs_cons := (RoundTripBase.read_string_cons E Hlen Hfuel Hdec Hloc).
Local Notation ra_cons := (RoundTripBase.read_alternative_cons E Hlen Hfuel Hdec Hloc).
Local Notation ws1_cons := (RoundTripLeaf.ws1_cons E Hlen Hfuel Hdec Hloc).
Local Notation rest_nl_cons := (RoundTripLeaf.rest_nl_cons E Hlen Hfuel Hdec Hloc).
Local Notation commodity_cons := (RoundTripLeaf.commodity_cons E Hlen Hfuel Hdec Hloc).
Local Notation decimal_cons := (RoundTripLeaf.decimal_cons E Hlen Hfuel Hdec Hloc).
Local Notation account_cons := (RoundTripLeaf.account_cons E Hlen Hfuel Hdec Hloc).
Local Notation date_cons := (RoundTripLeaf.date_cons E Hlen Hfuel Hdec Hloc).
Local Notation quoted_cons := (RoundTripLeaf.quoted_cons E Hlen Hfuel Hdec Hloc).
Local Notation wsl_sp := (RoundTripLeaf.wsl_sp E Hlen Hfuel Hdec Hloc).
Local Notation stops_ws_not := (RoundTripLeaf.stops_ws_not E Hlen Hfuel Hdec Hloc).
Local Notation sepr_stops_alnum := (RoundTripLeaf.sepr_stops_alnum dec letter digit Hcls).
Local Notation sepr_stops_digit := (RoundTripLeaf.sepr_stops_digit dec letter digit Hcls).
Local Notation sepr_stops_letter := (RoundTripLeaf.sepr_stops_letter dec letter digit Hcls).

(* ------------------------------------------------------------------ starts and ends of tokens *)

(* r starts with a blank or a newline, or is empty: what follows a directive *)
Definition blankstart (r : str) : Prop := is_whitespace_or_newline (fr r) || (fr r =? eof) = true.
(* r starts with something else *)
Definition tokstart (r : str) : Prop := is_whitespace_or_newline (fr r) || (fr r =? eof) = false.

Lemma blankstart_sepr r : blankstart r -> sepr r.
Proof using All.
  unfold blankstart, RoundTripLeaf.sepr, is_whitespace_or_newline, is_newline, is_whitespace, seps. cbn [In]. lia.
Qed.

Lemma tokstart_stops_ws r : tokstart r -> stops is_whitespace r.
Proof using All.
  unfold tokstart, RoundTripBase.stops, is_whitespace_or_newline, is_newline, is_whitespace. lia.
Qed.

Lemma tokstart_ascii b r : 0 <= b < 128 -> ~ In b [32; 9; 13; 10] -> tokstart (b :: r).
Proof using All.
  intros Hb Hn. unfold tokstart. rewrite (fr_ascii dec Hdec b r Hb).
  unfold is_whitespace_or_newline, is_newline, is_whitespace, eof. cbn [In] in Hn. lia.
Qed.

Lemma tokstart_alnum c : alnum c = true -> c <> eof ->
  is_whitespace_or_newline c || (c =? eof) = false.
Proof using All.
  intros Ha Hc. pose proof (alnum_not_sep letter digit Hcls c Ha) as Hn.
  unfold is_whitespace_or_newline, is_newline, is_whitespace. cbn [In] in Hn. lia.
Qed.

Lemma commodity_start w r : lex_commodity w -> tokstart (w ++ r).
Proof using All.
  intros (Hw & Hne). destruct (cls_first dec Hdec _ w r Hw Hne) as (H1 & H2).
  unfold tokstart. now apply tokstart_alnum.
Qed.

Lemma decimal_start w r : lex_decimal w -> tokstart (w ++ r).
Proof using All.
  intros (sg & ip & fp & -> & Hsg & Hip & Hipne & _).
  destruct Hsg as [->|(-> & _)].
  - cbn [app]. apply tokstart_ascii; [lia|cbn [In]; lia].
  - cbn [app]. rewrite <- app_assoc. destruct (cls_first dec Hdec _ ip (fp ++ r) Hip Hipne) as (H1 & H2).
    unfold tokstart. apply tokstart_alnum; [|assumption]. unfold RoundTripLeaf.alnum. rewrite H2. apply orb_true_r.
Qed.

Lemma account_start w m r : lex_account w m -> tokstart (w ++ r).
Proof using All.
  destruct m; cbn [RoundTripLeaf.lex_account].
  - intros (l & -> & _). cbn [app]. apply tokstart_ascii; [lia|cbn [In]; lia].
  - intros (_ & seg & segs & -> & (Hs & Hne) & _). rewrite <- app_assoc.
    destruct (cls_first dec Hdec _ seg (concat (map (cons 58) segs) ++ r) Hs Hne) as (H1 & H2).
    unfold tokstart. now apply tokstart_alnum.
Qed.

Lemma sepr_ws W r : wsl W -> W <> [] -> sepr (W ++ r).
Proof using All.
  intros HW Hne. right. pose proof (wsl_first dec Hdec W r HW Hne) as H. unfold seps. cbn [In] in *. lia.
Qed.

Lemma sepr_58 r : sepr r -> fr r <> 58.
Proof using All. unfold RoundTripLeaf.sepr, seps, eof. cbn [In]. lia. Qed.

Lemma sepr_46 r : sepr r -> fr r <> 46.
Proof using All. unfold RoundTripLeaf.sepr, seps, eof. cbn [In]. lia. Qed.

(* the leaves in front of a separator *)
Lemma acc_sep a r s : At s (fst a ++ r) -> LexAcc a -> sepr r ->
  exists s', parse_account E s = Ok (mkAccount (mkRange (off s) (off s')) (snd a)) s' /\ At s' r.
Proof using All.
  intros HA Hl Hr. apply (account_cons (fst a) (snd a) s r HA Hl).
  - now apply sepr_stops_alnum.
  - now apply sepr_stops_letter.
  - now apply sepr_58.
Qed.

Lemma dec_sep w r s : At s (w ++ r) -> lex_decimal w -> sepr r ->
  exists s', parse_decimal E s = Ok (mkRange (off s) (off s')) s' /\ At s' r.
Proof using All.
  intros HA Hl Hr. apply (decimal_cons w s r HA Hl); [now apply sepr_stops_digit|now apply sepr_46].
Qed.

Lemma comm_sep w r s : At s (w ++ r) -> lex_commodity w -> sepr r ->
  exists s', parse_commodity E s = Ok (mkRange (off s) (off s')) s' /\ At s' r.
Proof using All. intros HA Hl Hr. apply (commodity_cons w s r HA Hl). now apply sepr_stops_alnum. Qed.

Lemma sepr_32 r : sepr (32 :: r).
Proof using All. apply sepr_cons; [assumption|unfold seps; cbn [In]; lia]. Qed.

Lemma sepr_10 r : sepr (10 :: r).
Proof using All. apply sepr_cons; [assumption|unfold seps; cbn [In]; lia]. Qed.

(* one blank between tokens, read by readWhitespace1 *)
Lemma sp_cons r s : At s (32 :: r) -> tokstart r ->
  exists s', read_whitespace1 E s = Ok (mkRange (off s) (off s')) s' /\ At s' r.
Proof using All.
  intros HA Hr. apply (ws1_cons [32] s r HA wsl_sp); [now apply tokstart_stops_ws|left; discriminate].
Qed.

(* ------------------------------------------------------------------ booking *)

Lemma booking_cons c d q m W1 W2 W3 r s :
  At s (fst c ++ W1 ++ fst d ++ W2 ++ q ++ W3 ++ m ++ r) ->
  LexAcc c -> LexAcc d -> lex_decimal q -> lex_commodity m ->
  wsl W1 -> W1 <> [] -> wsl W2 -> W2 <> [] -> wsl W3 -> W3 <> [] -> sepr r ->
  exists b s', parse_booking E s = Ok b s' /\ At s' r /\
    sem_of_booking t b = mkSemBooking c d q m.
Proof using All.
  intros HA Hc Hd Hq Hm HW1 N1 HW2 N2 HW3 N3 Hr.
  destruct (acc_sep c _ s HA Hc) as (s1 & H1 & A1). { now apply sepr_ws. }
  destruct (rw1_cons is_whitespace W1 s1 _ A1 HW1 N1) as (s2 & H2 & A2).
  { apply tokstart_stops_ws. eapply account_start; eauto. }
  destruct (acc_sep d _ s2 A2 Hd) as (s3 & H3 & A3). { now apply sepr_ws. }
  destruct (rw1_cons is_whitespace W2 s3 _ A3 HW2 N2) as (s4 & H4 & A4).
  { apply tokstart_stops_ws. now apply decimal_start. }
  destruct (dec_sep q _ s4 A4 Hq) as (s5 & H5 & A5). { now apply sepr_ws. }
  destruct (rw1_cons is_whitespace W3 s5 _ A5 HW3 N3) as (s6 & H6 & A6).
  { apply tokstart_stops_ws. now apply commodity_start. }
  destruct (comm_sep m _ s6 A6 Hm Hr) as (s7 & H7 & A7).
  eexists _, s7. split; [|split; [exact A7|]].
  - unfold parse_booking. cbv zeta. apply annot_ok.
    run H1. run H2. run H3. run H4. run H5. run H6. run H7. reflexivity.
  - unfold sem_of_booking, sem_acc, cut. prj.
    rewrite (At_slice s _ _ s1 HA A1), (At_slice s2 _ _ s3 A2 A3), (At_slice s4 _ _ s5 A4 A5), (At_slice s6 _ _ s7 A6 A7).
    destruct c, d. reflexivity.
Qed.

Lemma render_posting_shape pad b r :
  render_posting dec pad b ++ r =
  fst (sb_credit b) ++ (spaces (pad - rune_count dec (fst (sb_credit b))) ++ [32]) ++
  fst (sb_debit b) ++ (spaces (pad - rune_count dec (fst (sb_debit b))) ++ [32] ++ spaces (10 - rune_count dec (sb_quantity b))) ++
  sb_quantity b ++ [32] ++ sb_commodity b ++ r.
Proof using. unfold render_posting, pad_right, pad_left, s_sp. rewrite <- !app_assoc. reflexivity. Qed.

Lemma posting_cons pad b r s : At s (render_posting dec pad b ++ r) -> LexBooking b -> sepr r ->
  exists b' s', parse_booking E s = Ok b' s' /\ At s' r /\ sem_of_booking t b' = b.
Proof using All.
  intros HA (Hc & Hd & Hq & Hm) Hr. rewrite render_posting_shape in HA.
  destruct (booking_cons _ _ _ _ _ _ _ _ _ HA Hc Hd Hq Hm) as (b' & s' & H & A & Hs); try assumption.
  - apply cls_app; [apply wsl_spaces; assumption|apply wsl_sp].
  - intros Hn. apply app_eq_nil in Hn. destruct Hn; discriminate.
  - apply cls_app; [apply wsl_spaces; assumption|]. apply cls_app; [apply wsl_sp|apply wsl_spaces; assumption].
  - intros Hn. apply app_eq_nil in Hn. destruct Hn as (_ & Hn). discriminate.
  - apply wsl_sp.
  - discriminate.
  - exists b', s'. split; [assumption|]. split; [assumption|]. rewrite Hs. destruct b; reflexivity.
Qed.

(* ------------------------------------------------------------------ balance *)

Lemma balance_cons b r s : At s (render_balance b ++ r) -> LexBal b -> sepr r ->
  exists b' s', parse_balance E s = Ok b' s' /\ At s' r /\ sem_of_balance t b' = b.
Proof using All.
  intros HA (Ha & Hq & Hm) Hr. unfold render_balance, s_sp in HA. rewrite <- !app_assoc in HA. cbn [app] in HA.
  destruct (acc_sep _ _ s HA Ha) as (s1 & H1 & A1). { apply sepr_32. }
  destruct (sp_cons _ s1 A1) as (s2 & H2 & A2). { now apply decimal_start. }
  destruct (dec_sep _ _ s2 A2 Hq) as (s3 & H3 & A3). { apply sepr_32. }
  destruct (sp_cons _ s3 A3) as (s4 & H4 & A4). { now apply commodity_start. }
  destruct (comm_sep _ _ s4 A4 Hm Hr) as (s5 & H5 & A5).
  eexists _, s5. split; [|split; [exact A5|]].
  - unfold parse_balance. cbv zeta. apply annot_ok. run H1. run H2. run H3. run H4. run H5. reflexivity.
  - unfold sem_of_balance, sem_acc, cut. prj.
    rewrite (At_slice s _ _ s1 HA A1), (At_slice s2 _ _ s3 A2 A3), (At_slice s4 _ _ s5 A4 A5).
    destruct b as [[[a1 a2] q] m]. reflexivity.
Qed.

Lemma balances_loop_cons : forall bs n s r,
  At s (concat (map (fun b => render_balance b ++ s_nl) bs) ++ r) -> bs <> [] -> Forall LexBal bs ->
  blankstart r -> (length (concat (map (fun b => render_balance b ++ s_nl) bs)) < n)%nat ->
  exists bs' s', balances_loop E n s = Ok bs' s' /\ At s' r /\ map (sem_of_balance t) bs' = bs.
Proof using All.
  induction bs as [|b bs IH]; intros n s r HA Hne Hl Hr Hn; [congruence|].
  destruct n as [|n]; [lia|]. cbn [balances_loop]. cbn [map concat] in HA, Hn.
  inversion Hl as [|? ? Hb Hl']. subst. unfold s_nl in HA. rewrite <- !app_assoc in HA. cbn [app] in HA.
  destruct (balance_cons b _ s HA Hb) as (b' & s1 & H1 & A1 & S1). { apply sepr_10. }
  destruct (rest_nl_cons [] s1 _ A1) as (rg & s2 & H2 & A2). { constructor. }
  destruct bs as [|b2 bs].
  - cbn [map concat app] in *. exists [b'], s2. split; [|split; [exact A2|cbn [map]; now rewrite S1]].
    run H1. run H2. apply ifM_true; [|reflexivity]. rewrite (At_cur s2 _ A2). exact Hr.
  - destruct (IH n s2 r A2) as (bs' & s3 & H3 & A3 & S3); try assumption; [discriminate| |].
    { rewrite !app_length in Hn. change (length s_nl) with 1%nat in Hn. lia. }
    exists (b' :: bs'), s3. split; [|split; [exact A3|cbn [map]; now rewrite S1, S3]].
    run H1. run H2. apply ifM_false.
    { rewrite (At_cur s2 _ A2). cbn [map concat]. inversion Hl' as [|? ? (Ha2 & _) _]. subst.
      unfold render_balance. rewrite <- !app_assoc. eapply account_start; eauto. }
    run H3. reflexivity.
Qed.

(* ------------------------------------------------------------------ include *)

Lemma include_start r : fr (s_include ++ r) = 105.
Proof using All. unfold s_include. cbn [app]. apply fr_ascii; [assumption|lia]. Qed.

Lemma include_cons p r s : At s (s_include ++ p ++ s_quote ++ r) -> lex_quoted p ->
  exists d s', parse_directive E s = Ok d s' /\ At s' r /\ d_range d = mkRange (off s) (off s') /\
               sem_of_directive t d = SemInclude p.
Proof using All.
  intros HA Hp.
  assert (Hc : cur s = 105) by (rewrite (At_cur s _ HA); apply include_start).
  change s_include with (kw_include ++ [32; 34]) in HA. rewrite <- app_assoc in HA. cbn [app] in HA.
  destruct (rs_cons kw_include s (32 :: 34 :: p ++ s_quote ++ r)) as (s1 & H1 & A1); [repeat constructor; unfold ascii; lia|exact HA|].
  destruct (sp_cons _ s1 A1) as (s2 & H2 & A2). { apply tokstart_ascii; [lia|cbn [In]; lia]. }
  unfold s_quote in A2. cbn [app] in A2.
  destruct (quoted_cons p s2 r A2 Hp) as (q & s3 & H3 & A3 & Hq & Hqc).
  eexists _, s3. split; [|split; [exact A3|split]].
  - unfold parse_directive. cbv zeta. apply annot_ok.
    eapply bind_ok. { apply ifM_false; [unfold cur_is; rewrite Hc; reflexivity|reflexivity]. }
    cbv beta. apply ifM_true. { unfold cur_is. rewrite Hc. reflexivity. }
    eapply bind_ok; [|reflexivity].
    unfold parse_include. cbv zeta. apply annot_ok. run H1. run H2. run H3. reflexivity.
  - reflexivity.
  - unfold sem_of_directive. prj. unfold cut. now rewrite Hqc.
Qed.

(* ------------------------------------------------------------------ date keyword ... *)

Definition dir_kws : list (list Z) := [kw_open; kw_close; kw_balance; kw_price].

Lemma date_start_facts date r : date_ok date ->
  fr (date ++ r) <> 64 /\ fr (date ++ r) <> 105 /\ alnum (fr (date ++ r)) = true.
Proof using All.
  intros (Hl & H64 & H105). destruct (lex_date_first dec digit Hdec date r Hl) as (-> & Hd & _).
  split; [assumption|]. split; [assumption|]. unfold RoundTripLeaf.alnum. rewrite Hd. apply orb_true_r.
Qed.

(* the common part of open / close / balance / price: date, blank, keyword, blanks *)
Lemma dir_kw_cons date kw W r s : date_ok date -> In kw dir_kws ->
  At s (date ++ 32 :: kw ++ W ++ r) -> wsl W -> stops is_whitespace r -> (W <> [] \/ fr r = 10) ->
  exists s2 s3 s4 rg5 s5,
    parse_date E s = Ok (mkRange (off s) (off s2)) s2 /\
    read_whitespace1 E s2 = Ok (mkRange (off s2) (off s3)) s3 /\
    cur_is 34 s3 = false /\
    read_alternative E dir_kws s3 = Ok (mkRange (off s3) (off s4)) s4 /\
    extract E (mkRange (off s3) (off s4)) = kw /\
    read_whitespace1 E s4 = Ok rg5 s5 /\ At s5 r /\
    slice t (off s) (off s2) = date /\ off s <= off s5.
Proof using All.
  intros Hd Hkw HA HW Hst Hw.
  destruct (date_cons date s _ HA (proj1 Hd)) as (s2 & H2 & A2).
  assert (Hk0 : tokstart (kw ++ W ++ r) /\ fr (kw ++ W ++ r) <> 34 /\ kw <> []).
  { unfold dir_kws in Hkw. cbn [In] in Hkw.
    destruct Hkw as [<-|[<-|[<-|[<-|[]]]]]; (split; [apply tokstart_ascii; [lia|cbn [In]; lia]|]);
      (split; [unfold kw_open, kw_close, kw_balance, kw_price; cbn [app]; rewrite (fr_ascii dec Hdec) by lia; lia|discriminate]). }
  destruct Hk0 as (Hk1 & Hk2 & Hk3).
  destruct (sp_cons _ s2 A2 Hk1) as (s3 & H3 & A3).
  assert (H4 : exists s4, read_alternative E dir_kws s3 = Ok (mkRange (off s3) (off s4)) s4 /\ At s4 (W ++ r)).
  { assert (Hasc : Forall (Forall ascii) dir_kws) by (repeat constructor; unfold ascii; lia).
    unfold dir_kws in *. cbn [In] in Hkw. destruct Hkw as [<-|[<-|[<-|[<-|[]]]]].
    - apply (ra_cons [] kw_open [kw_close; kw_balance; kw_price]); [exact Hasc|exact A3|discriminate|constructor].
    - apply (ra_cons [kw_open] kw_close [kw_balance; kw_price]); [exact Hasc|exact A3|discriminate|].
      repeat constructor; intros r' H; discriminate H.
    - apply (ra_cons [kw_open; kw_close] kw_balance [kw_price]); [exact Hasc|exact A3|discriminate|].
      repeat constructor; intros r' H; discriminate H.
    - apply (ra_cons [kw_open; kw_close; kw_balance] kw_price []); [exact Hasc|exact A3|discriminate|].
      repeat constructor; intros r' H; discriminate H. }
  destruct H4 as (s4 & H4 & A4).
  destruct (ws1_cons W s4 r A4 HW Hst) as (s5 & H5 & A5).
  { destruct Hw as [Hw|Hw]; [now left|right; now left]. }
  exists s2, s3, s4, (mkRange (off s4) (off s5)), s5. split; [exact H2|]. split; [exact H3|].
  split; [unfold cur_is; rewrite (At_cur s3 _ A3); now apply Z.eqb_neq|].
  split; [exact H4|]. split; [unfold extract; prj; apply (At_slice s3 kw _ s4 A3 A4)|].
  split; [exact H5|]. split; [exact A5|]. split; [apply (At_slice s date _ s2 HA A2)|].
  pose proof (At_off s _ _ s2 HA A2). change (32 :: kw ++ W ++ r) with ([32] ++ kw ++ W ++ r) in A2.
  pose proof (At_off s2 _ _ s3 A2 A3). pose proof (At_off s3 _ _ s4 A3 A4). pose proof (At_off s4 _ _ s5 A4 A5).
  pose proof (zlen_nonneg date). pose proof (zlen_nonneg kw). pose proof (zlen_nonneg W). rewrite zlen_cons, zlen_nil in *. lia.
Qed.

(* entering parseDirective in front of a date: no addons, no include *)
Lemma enter_date date r s : date_ok date -> At s (date ++ r) ->
  cur_is 64 s = false /\ cur_is 105 s = false.
Proof using All.
  intros Hd HA. destruct (date_start_facts date r Hd) as (H1 & H2 & _).
  unfold cur_is. rewrite (At_cur s _ HA). split; now apply Z.eqb_neq.
Qed.

Ltac enter_directive Hent :=
  unfold parse_directive; cbv zeta; apply annot_ok;
  eapply bind_ok; [apply ifM_false; [exact (proj1 Hent)|reflexivity]|];
  cbv beta; apply ifM_false; [exact (proj2 Hent)|].

Lemma open_cons date a r s : At s (date ++ s_open ++ fst a ++ r) -> date_ok date -> LexAcc a -> sepr r ->
  exists d s', parse_directive E s = Ok d s' /\ At s' r /\ d_range d = mkRange (off s) (off s') /\
               sem_of_directive t d = SemOpen date a.
Proof using All.
  intros HA Hd Ha Hr. pose proof (enter_date date _ s Hd HA) as Hent.
  change s_open with (32 :: kw_open ++ [32]) in HA. cbn [app] in HA. rewrite <- app_assoc in HA.
  destruct (dir_kw_cons date kw_open [32] (fst a ++ r) s Hd) with (2 := HA) as (s2 & s3 & s4 & rg5 & s5 & H2 & H3 & H34 & H4 & Hex & H5 & A5 & Hsl & Hle).
  { unfold dir_kws. cbn [In]. auto. } { apply wsl_sp. }
  { apply tokstart_stops_ws. eapply account_start; eauto. } { left; discriminate. }
  destruct (acc_sep a r s5 A5 Ha Hr) as (s6 & H6 & A6).
  eexists _, s6. split; [|split; [exact A6|split]].
  - enter_directive Hent. run H2. run H3. apply ifM_false; [exact H34|]. run H4. run H5. cbv zeta. rewrite Hex.
    change (str_eqb kw_open kw_open) with true. cbv iota.
    eapply bind_ok; [|reflexivity]. unfold parse_open. apply annot_ok. run H6. reflexivity.
  - reflexivity.
  - unfold sem_of_directive. prj. unfold sem_acc, cut. prj. rewrite Hsl, (At_slice s5 _ _ s6 A5 A6).
    destruct a; reflexivity.
Qed.

Lemma close_cons date a r s : At s (date ++ s_close ++ fst a ++ r) -> date_ok date -> LexAcc a -> sepr r ->
  exists d s', parse_directive E s = Ok d s' /\ At s' r /\ d_range d = mkRange (off s) (off s') /\
               sem_of_directive t d = SemClose date a.
Proof using All.
  intros HA Hd Ha Hr. pose proof (enter_date date _ s Hd HA) as Hent.
  change s_close with (32 :: kw_close ++ [32]) in HA. cbn [app] in HA. rewrite <- app_assoc in HA.
  destruct (dir_kw_cons date kw_close [32] (fst a ++ r) s Hd) with (2 := HA) as (s2 & s3 & s4 & rg5 & s5 & H2 & H3 & H34 & H4 & Hex & H5 & A5 & Hsl & Hle).
  { unfold dir_kws. cbn [In]. auto. } { apply wsl_sp. }
  { apply tokstart_stops_ws. eapply account_start; eauto. } { left; discriminate. }
  destruct (acc_sep a r s5 A5 Ha Hr) as (s6 & H6 & A6).
  eexists _, s6. split; [|split; [exact A6|split]].
  - enter_directive Hent. run H2. run H3. apply ifM_false; [exact H34|]. run H4. run H5. cbv zeta. rewrite Hex.
    change (str_eqb kw_close kw_open) with false. change (str_eqb kw_close kw_close) with true. cbv iota.
    eapply bind_ok; [|reflexivity]. unfold parse_close. apply annot_ok. run H6. reflexivity.
  - reflexivity.
  - unfold sem_of_directive. prj. unfold sem_acc, cut. prj. rewrite Hsl, (At_slice s5 _ _ s6 A5 A6).
    destruct a; reflexivity.
Qed.

Lemma price_cons date c p tg r s : At s (date ++ s_price ++ c ++ s_sp ++ p ++ s_sp ++ tg ++ r) ->
  date_ok date -> lex_commodity c -> lex_decimal p -> lex_commodity tg -> sepr r ->
  exists d s', parse_directive E s = Ok d s' /\ At s' r /\ d_range d = mkRange (off s) (off s') /\
               sem_of_directive t d = SemPrice date c p tg.
Proof using All.
  intros HA Hd Hc Hp Htg Hr. pose proof (enter_date date _ s Hd HA) as Hent.
  change s_price with (32 :: kw_price ++ [32]) in HA. unfold s_sp in HA. cbn [app] in HA. rewrite <- app_assoc in HA.
  destruct (dir_kw_cons date kw_price [32] (c ++ 32 :: p ++ 32 :: tg ++ r) s Hd) with (2 := HA) as (s2 & s3 & s4 & rg5 & s5 & H2 & H3 & H34 & H4 & Hex & H5 & A5 & Hsl & Hle).
  { unfold dir_kws. cbn [In]. auto. } { apply wsl_sp. }
  { apply tokstart_stops_ws. now apply commodity_start. } { left; discriminate. }
  destruct (comm_sep c _ s5 A5 Hc) as (s6 & H6 & A6). { apply sepr_32. }
  destruct (sp_cons _ s6 A6) as (s7 & H7 & A7). { now apply decimal_start. }
  destruct (dec_sep p _ s7 A7 Hp) as (s8 & H8 & A8). { apply sepr_32. }
  destruct (sp_cons _ s8 A8) as (s9 & H9 & A9). { now apply commodity_start. }
  destruct (comm_sep tg _ s9 A9 Htg Hr) as (s10 & H10 & A10).
  eexists _, s10. split; [|split; [exact A10|split]].
  - enter_directive Hent. run H2. run H3. apply ifM_false; [exact H34|]. run H4. run H5. cbv zeta. rewrite Hex.
    change (str_eqb kw_price kw_open) with false. change (str_eqb kw_price kw_close) with false.
    change (str_eqb kw_price kw_balance) with false. change (str_eqb kw_price kw_price) with true. cbv iota.
    eapply bind_ok; [|reflexivity]. unfold parse_price.
    eapply bind_ok. { apply annot_ok. run H6. run H7. run H8. run H9. reflexivity. }
    cbv beta. run H10. reflexivity.
  - reflexivity.
  - unfold sem_of_directive. prj. unfold cut. prj.
    rewrite Hsl, (At_slice s5 _ _ s6 A5 A6), (At_slice s7 _ _ s8 A7 A8), (At_slice s9 _ _ s10 A9 A10). reflexivity.
Qed.

Lemma assertion_cons date bs x r s :
  render_sem dec 0 (SemAssertion date bs) = Some x -> At s (x ++ r) ->
  date_ok date -> bs <> [] -> Forall LexBal bs -> blankstart r ->
  exists d s', parse_directive E s = Ok d s' /\ At s' r /\ d_range d = mkRange (off s) (off s') /\
               sem_of_directive t d = SemAssertion date bs.
Proof using All.
  intros Hx HA Hd Hne Hl Hr. cbn [render_sem] in Hx. inversion Hx as [Hx']. clear Hx. subst x.
  rewrite <- app_assoc in HA. pose proof (enter_date date _ s Hd HA) as Hent.
  change s_balance with (32 :: kw_balance) in HA. cbn [app] in HA.
  assert (Hcases : (exists b, bs = [b]) \/ (exists b1 b2 bs', bs = b1 :: b2 :: bs')).
  { destruct bs as [|b1 [|b2 bs']]; [congruence|left; eauto|right; eauto]. }
  destruct Hcases as [(b & ->)|(b1 & b2 & bs' & Hbs)].
  - (* one balance: on the same line *)
    inversion Hl as [|? ? Hb _]. subst.
    destruct (dir_kw_cons date kw_balance [32] (render_balance b ++ r) s Hd) as (s2 & s3 & s4 & rg5 & s5 & H2 & H3 & H34 & H4 & Hex & H5 & A5 & Hsl & Hle).
    { unfold dir_kws. cbn [In]. auto. } { exact HA. } { apply wsl_sp. }
    { apply tokstart_stops_ws. destruct Hb as (Ha & _). unfold render_balance. rewrite <- !app_assoc. eapply account_start; eauto. }
    { left; discriminate. }
    destruct (balance_cons b r s5 A5 Hb (blankstart_sepr r Hr)) as (b' & s6 & H6 & A6 & S6).
    eexists _, s6. split; [|split; [exact A6|split]].
    + enter_directive Hent. run H2. run H3. apply ifM_false; [exact H34|]. run H4. run H5. cbv zeta. rewrite Hex.
      change (str_eqb kw_balance kw_open) with false. change (str_eqb kw_balance kw_close) with false.
      change (str_eqb kw_balance kw_balance) with true. cbv iota.
      eapply bind_ok; [|reflexivity]. unfold parse_assertion. apply annot_ok.
      apply ifM_false.
      { rewrite (At_cur s5 _ A5). destruct Hb as (Ha & _).
        pose proof (account_start _ _ (s_sp ++ snd (fst b) ++ s_sp ++ snd b ++ r) Ha) as Hts.
        unfold render_balance. rewrite <- !app_assoc. unfold tokstart, is_whitespace_or_newline in Hts. lia. }
      run H6. reflexivity.
    + reflexivity.
    + unfold sem_of_directive. prj. unfold cut at 1. prj. rewrite Hsl. cbn [map]. f_equal.
      change (sem_of_balance t b' :: nil = [b]). now rewrite S6.
  - (* several balances: one per line *)
    assert (HA' : At s (date ++ 32 :: kw_balance ++ [] ++ 10 :: concat (map (fun b => render_balance b ++ s_nl) bs) ++ r)).
    { rewrite Hbs in HA |- *. exact HA. }
    destruct (dir_kw_cons date kw_balance [] (10 :: concat (map (fun b => render_balance b ++ s_nl) bs) ++ r) s Hd) with (2 := HA') as (s2 & s3 & s4 & rg5 & s5 & H2 & H3 & H34 & H4 & Hex & H5 & A5 & Hsl & Hle).
    { unfold dir_kws. cbn [In]. auto. } { constructor. }
    { apply stops_ws_not. rewrite (fr_ascii dec Hdec 10 _) by lia. cbn [In]. lia. }
    { right. apply fr_ascii; [assumption|lia]. }
    destruct (rest_nl_cons [] s5 _ A5) as (rg6 & s6 & H6 & A6). { constructor. }
    destruct (balances_loop_cons bs (loop_fuel E) s6 r A6 Hne Hl Hr) as (bs'' & s7 & H7 & A7 & S7).
    { pose proof (fuel_rest E Hlen Hfuel Hdec Hloc s6 (At_inv E _ _ A6)) as Hf. destruct A6 as (_ & Hr6 & _).
      rewrite Hr6, app_length in Hf. unfold loop_fuel. lia. }
    eexists _, s7. split; [|split; [exact A7|split]].
    + enter_directive Hent. run H2. run H3. apply ifM_false; [exact H34|]. run H4. run H5. cbv zeta. rewrite Hex.
      change (str_eqb kw_balance kw_open) with false. change (str_eqb kw_balance kw_close) with false.
      change (str_eqb kw_balance kw_balance) with true. cbv iota.
      eapply bind_ok; [|reflexivity]. unfold parse_assertion. apply annot_ok.
      apply ifM_true. { rewrite (At_cur s5 _ A5), (fr_ascii dec Hdec 10 _) by lia. reflexivity. }
      run H6. run H7. reflexivity.
    + reflexivity.
    + unfold sem_of_directive. prj. unfold cut at 1. prj. rewrite Hsl. f_equal. exact S7.
Qed.

End WithEnv.
