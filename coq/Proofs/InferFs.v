(* C15, training journal spread over an include tree (Model/InferFs.v).

   A. the skeleton of a text file system and the loader: the files `infer` trains on are, up to
      order, the visit list of the include tree ([training_files_visits], from C05_layout);
      a finite include tree loads ([visits_training_files], Proofs/LoaderVisits.v); the load
      never runs out of fuel (C14_load_terminates).
   B. the command on given training MEANINGS ([infer_with_sems], [infer_scored_on]): the
      theorems of Proofs/InferRoundTrip.v / InferChoice.v need of the training data only that
      its meanings are lexically valid ([LexDir]) -- true of the meanings of any number of parsed
      files.  Round trip, totality, idempotence, rest-is-format, scored = with a valid choice.
   C. the command on a file tree: the output is a function of the MULTISET OF TRAINING
      TRANSACTIONS ([infer_cmd_fs_layout]: two file trees, any shapes, whose visited files hold
      permutations of the same transactions; [infer_cmd_fs_arrival_irrelevant]: any arrival
      order of the files); an include cycle, a missing or an unparseable file anywhere in the
      tree is an error and nothing is printed; a training file without includes is the
      one-file command of Model/Bayes.v / BayesScore.v. *)
From Coq Require Import ZArith List Bool Lia Permutation.
From Knut Require Import Model.Str Model.Ledger Model.Loader Proofs.LoaderProofs Proofs.OrderLayout Proofs.LoaderVisits.
From Knut Require Import Model.Bytes Model.Utf8 Model.Scanner Model.Parser Model.SynPrinter Spec.SyntaxSpec
  Proofs.ScannerProofs Proofs.ParserProofs Spec.FormatSpec Model.SynRender Proofs.FormatProofs
  Proofs.RoundTripBase Proofs.RoundTripLeaf Proofs.RoundTripInv Proofs.RoundTripRuns Proofs.RoundTripFile
  Model.Bayes Model.BayesScore Spec.InferSpec Proofs.InferProofs Proofs.InferOrder Proofs.InferRoundTrip
  Proofs.InferChoice Model.InferFs.
Import ListNotations.
Open Scope bool_scope.
Open Scope Z_scope.

(* ================================================================== A. skeleton and loader *)

Section Skeleton.
Variables letter digit : Z -> bool.

Notation skeleton := (skeleton letter digit).
Notation skeleton_file := (skeleton_file letter digit).
Notation file_sems := (file_sems letter digit).
Notation training_files := (training_files letter digit).
Notation training_sems := (training_sems letter digit).

Lemma lookup_skeleton fs p : LoaderM.lookup (skeleton fs) p = option_map (skeleton_file p) (tlookup fs p).
Proof.
  induction fs as [|[q c] fs IH]; [reflexivity|]. cbn [InferFsM.skeleton map fst snd LoaderM.lookup tlookup].
  destruct (path_eqb p q) eqn:E; [|exact IH]. apply path_eqb_eq in E. subst. reflexivity.
Qed.

Lemma own_include_items ds : own_directives (include_items ds) = [].
Proof.
  unfold include_items, own_directives. induction ds as [|d ds IH]; [reflexivity|].
  cbn [flat_map]. rewrite flat_map_app, IH, app_nil_r. destruct d; reflexivity.
Qed.

Lemma inc_include_items ds t : In t (inc_targets (include_items ds)) <-> In (SemInclude t) ds.
Proof.
  unfold include_items, inc_targets. induction ds as [|d ds IH]; [cbn; tauto|].
  cbn [flat_map]. rewrite flat_map_app, in_app_iff, IH. cbn [In].
  destruct d; cbn [flat_map app In]; split;
    try (intros [[]|H]; right; exact H);
    try (intros [E|H]; [discriminate E|right; exact H]).
  - intros [[->|[]]|H]; [left; reflexivity|right; exact H].
  - intros [E|H]; [inversion E; left; left; reflexivity|right; exact H].
Qed.

(* a file of the skeleton that is not FBad is a file that parses *)
Lemma skeleton_ok fs p items : LoaderM.lookup (skeleton fs) p = Some (LoaderM.FOk items) ->
  exists text f, tlookup fs p = Some text /\ parse_text letter digit text = ParseOk f /\
                 items = LoaderM.IDir (tag p) :: include_items (sem text f).
Proof.
  rewrite lookup_skeleton. destruct (tlookup fs p) as [text|]; [|discriminate]. cbn [option_map].
  unfold InferFsM.skeleton_file. destruct (parse_text letter digit text) as [f|e|] eqn:Hp; try discriminate.
  intros H. inversion H. eauto.
Qed.

Lemma skeleton_bad fs p : LoaderM.lookup (skeleton fs) p = Some LoaderM.FBad ->
  exists text, tlookup fs p = Some text /\ forall f, parse_text letter digit text <> ParseOk f.
Proof.
  rewrite lookup_skeleton. destruct (tlookup fs p) as [text|]; [|discriminate]. cbn [option_map].
  unfold InferFsM.skeleton_file. destruct (parse_text letter digit text) as [f|e|] eqn:Hp; try discriminate;
    intros _; exists text; split; try reflexivity; intros f; congruence.
Qed.

Lemma skeleton_missing fs p : LoaderM.lookup (skeleton fs) p = None <-> tlookup fs p = None.
Proof. rewrite lookup_skeleton. destruct (tlookup fs p); cbn [option_map]; split; congruence. Qed.

(* the only directive of a skeleton file is its tag *)
Lemma file_directives_skeleton fs p items :
  LoaderM.lookup (skeleton fs) p = Some (LoaderM.FOk items) -> file_directives (skeleton fs) p = [tag p].
Proof.
  intros H. unfold file_directives. rewrite H. destruct (skeleton_ok fs p items H) as (text & f & _ & _ & ->).
  cbn [own_directives flat_map app]. fold (own_directives (include_items (sem text f))).
  now rewrite own_include_items.
Qed.

Lemma visits_tags fs : forall vs, (forall q, In q vs -> exists items, LoaderM.lookup (skeleton fs) q = Some (LoaderM.FOk items)) ->
  flat_map (file_directives (skeleton fs)) vs = map tag vs.
Proof.
  induction vs as [|p vs IH]; intros H; [reflexivity|]. cbn [flat_map map].
  destruct (H p (or_introl eq_refl)) as (items & Hl). rewrite (file_directives_skeleton fs p items Hl).
  cbn [app]. f_equal. apply IH. intros q Hq. apply H. now right.
Qed.

Lemma untag_tags vs : map untag (map tag vs) = vs.
Proof. rewrite map_map. cbn [untag tag]. apply map_id. Qed.

(* THE FILES THE TRAINER GETS ARE, UP TO ORDER, THE VISIT LIST OF THE INCLUDE TREE (C05_layout) *)
Theorem training_files_visits fs root files :
  training_files fs root = TrOk files ->
  exists vs, visits (skeleton fs) root vs /\ Permutation files vs.
Proof.
  unfold InferFsM.training_files.
  destruct (LoaderM.load (fuel_for (skeleton fs)) (skeleton fs) root) as [tags|e|] eqn:Hl; try discriminate.
  intros E. inversion E. subst files. clear E.
  destruct (load_layout _ _ _ _ Hl) as (vs & Hv & Hp). exists vs. split; [exact Hv|].
  rewrite (visits_tags fs vs (visits_lookup _ _ _ Hv)) in Hp.
  rewrite <- (untag_tags vs). now apply Permutation_map.
Qed.

(* a finite include tree of files that parse loads (Proofs/LoaderVisits.v) *)
Theorem visits_training_files fs root vs :
  visits (skeleton fs) root vs -> exists files, training_files fs root = TrOk files /\ Permutation files vs.
Proof.
  intros Hv. destruct (visits_load _ _ _ Hv) as (tags & Hl).
  assert (E : training_files fs root = TrOk (map untag tags)) by (unfold InferFsM.training_files; now rewrite Hl).
  exists (map untag tags). split; [exact E|].
  destruct (training_files_visits fs root _ E) as (vs' & Hv' & Hp). now rewrite (visits_det _ _ _ Hv _ Hv').
Qed.

(* the load ends (C14_load_terminates) *)
Theorem training_files_fuel fs root : training_files fs root <> TrFuel.
Proof.
  unfold InferFsM.training_files. pose proof (load_terminates (skeleton fs) root) as H.
  destruct (LoaderM.load (fuel_for (skeleton fs)) (skeleton fs) root); congruence.
Qed.

(* an include cycle is an error (C14_cycle_is_error) *)
Theorem training_files_cycle fs S root :
  closed (skeleton fs) S -> S root -> exists e, training_files fs root = TrErr e.
Proof.
  intros Hc Hr. destruct (cycle_is_error _ _ _ Hc Hr) as (e & He). exists e.
  unfold InferFsM.training_files. now rewrite He.
Qed.

(* "closed" on the texts: every file of the set parses and includes a file of the set *)
Definition tclosed (fs : tfs) (S : LoaderM.path -> Prop) : Prop :=
  forall p, S p -> exists text f t, tlookup fs p = Some text /\ parse_text letter digit text = ParseOk f /\
                                   In (SemInclude t) (sem text f) /\ S (resolve p t).

Lemma in_include_items t ds : In (SemInclude t) ds -> In (LoaderM.IInc t) (include_items ds).
Proof. intros H. unfold include_items. apply in_flat_map. exists (SemInclude t). split; [assumption|now left]. Qed.

Lemma tclosed_closed fs S : tclosed fs S -> closed (skeleton fs) S.
Proof.
  intros H p Hp. destruct (H p Hp) as (text & f & t & Hl & Hparse & Hin & Hs).
  exists (LoaderM.IDir (tag p) :: include_items (sem text f)), t. split; [|split; [|exact Hs]].
  - rewrite lookup_skeleton, Hl. cbn [option_map]. unfold InferFsM.skeleton_file. now rewrite Hparse.
  - right. now apply in_include_items.
Qed.

(* a missing or unparseable file anywhere in the include graph is an error (C14) *)
Theorem training_files_bad fs root p :
  reach (skeleton fs) root p ->
  (tlookup fs p = None \/ exists text, tlookup fs p = Some text /\ forall f, parse_text letter digit text <> ParseOk f) ->
  exists e, training_files fs root = TrErr e.
Proof.
  intros Hr Hbad. unfold InferFsM.training_files.
  destruct (LoaderM.load (fuel_for (skeleton fs)) (skeleton fs) root) as [tags|e|] eqn:Hl.
  - exfalso. revert Hl. apply (included_error_fails_all _ _ p Hr).
    destruct Hbad as [Hn|(text & Ht & Hnp)].
    + left. now apply skeleton_missing.
    + right. rewrite lookup_skeleton, Ht. cbn [option_map]. unfold InferFsM.skeleton_file.
      destruct (parse_text letter digit text) as [f|e|] eqn:Hp; try reflexivity. exfalso. exact (Hnp f eq_refl).
  - eauto.
  - exfalso. revert Hl. apply load_terminates.
Qed.

(* ---------------------------------------------------------------- the training meanings *)

Lemma file_sems_lex fs p : Forall (LexDir Utf8M.decode letter digit) (file_sems fs p).
Proof.
  unfold InferFsM.file_sems. destruct (tlookup fs p) as [text|]; [|constructor].
  destruct (parse_text letter digit text) as [f|e|] eqn:Hp; try constructor. now apply parse_lexdir.
Qed.

Lemma training_sems_lex fs files : Forall (LexDir Utf8M.decode letter digit) (training_sems fs files).
Proof.
  unfold InferFsM.training_sems. induction files as [|p files IH]; [constructor|].
  cbn [flat_map]. apply Forall_app. split; [apply file_sems_lex|exact IH].
Qed.

Lemma training_sems_perm fs l1 l2 : Permutation l1 l2 -> Permutation (training_sems fs l1) (training_sems fs l2).
Proof. intros H. unfold InferFsM.training_sems. now apply Permutation_flat_map. Qed.

(* a file without include directives: the tree is the file *)
Lemma training_files_single fs root text f :
  tlookup fs root = Some text -> parse_text letter digit text = ParseOk f ->
  (forall t, ~ In (SemInclude t) (sem text f)) ->
  training_files fs root = TrOk [root] /\ training_sems fs [root] = sem text f.
Proof.
  intros Hl Hp Hni. split.
  - unfold InferFsM.training_files, LoaderM.load, fuel_for.
    cbn [load_file mem_path existsb]. rewrite lookup_skeleton, Hl. cbn [option_map].
    unfold InferFsM.skeleton_file. rewrite Hp.
    assert (E : include_items (sem text f) = []).
    { unfold include_items. induction (sem text f) as [|d ds IH]; [reflexivity|]. cbn [flat_map].
      rewrite IH; [|intros t Ht; apply (Hni t); now right].
      destruct d as [| | | | |pth|]; try reflexivity. exfalso. apply (Hni pth). now left. }
    rewrite E. reflexivity.
  - unfold InferFsM.training_sems, InferFsM.file_sems. cbn [flat_map]. rewrite Hl, Hp. apply app_nil_r.
Qed.

Lemma training_files_single_bad fs root text :
  tlookup fs root = Some text -> (forall f, parse_text letter digit text <> ParseOk f) ->
  exists e, training_files fs root = TrErr e.
Proof.
  intros Hl Hp. apply (training_files_bad fs root root); [constructor|]. right. eauto.
Qed.

End Skeleton.

(* ================================================================== B. the command on training meanings *)

(* transactions only: everything else is ignored by the trainer *)
Definition is_trx (d : sem_directive) : bool := match d with SemTrx _ _ _ _ _ => true | _ => false end.
Definition trxs (ds : list sem_directive) : list sem_directive := filter is_trx ds.

Lemma trxs_perm l1 l2 : Permutation l1 l2 -> Permutation (trxs l1) (trxs l2).
Proof.
  unfold trxs. induction 1 as [|x l1 l2 _ IH|x y l|l1 l2 l3 _ IH1 _ IH2]; cbn [filter].
  - constructor.
  - destruct (is_trx x); [now constructor|exact IH].
  - destruct (is_trx x), (is_trx y); try apply Permutation_refl. apply perm_swap.
  - eapply Permutation_trans; eassumption.
Qed.

Lemma trained_accounts_trxs ph tr : trained_accounts ph (trxs tr) = trained_accounts ph tr.
Proof.
  unfold trained_accounts, trxs. induction tr as [|d tr IH]; [reflexivity|]. cbn [filter flat_map].
  destruct d; cbn [is_trx flat_map app]; try exact IH. now rewrite IH.
Qed.

Lemma candidates_trxs ph tr : candidates ph (trxs tr) = candidates ph tr.
Proof. unfold candidates. now rewrite trained_accounts_trxs. Qed.

Lemma candidates_perm ph tr1 tr2 : Permutation tr1 tr2 -> candidates ph tr1 = candidates ph tr2.
Proof.
  intros Hp. apply candidates_set. intros x. unfold trained_accounts.
  assert (Hq := Permutation_flat_map (fun d => match d with SemTrx _ _ bs _ _ => update_accounts ph bs | _ => [] end) Hp).
  split; intros H; [exact (Permutation_in x Hq H)|exact (Permutation_in x (Permutation_sym Hq) H)].
Qed.

Section OnSems.
Variable ph : str.
Variables letter digit : Z -> bool.

Notation infer_with_sems := (infer_with_sems letter digit ph).

(* the one-file commands are the commands on the meanings of that file *)
Lemma infer_with_as_sems v choose training target ftr :
  parse_text letter digit training = ParseOk ftr ->
  infer_with ph v letter digit choose training target = infer_with_sems v choose (sem training ftr) target.
Proof.
  intros H. unfold infer_with, InferFsM.infer_with_sems. rewrite H.
  destruct (parse_text letter digit target); reflexivity.
Qed.

Lemma infer_with_sems_shape v choose tr target out :
  infer_with_sems v choose tr target = InferOut out ->
  exists ftg sems k,
    parse_text letter digit target = ParseOk ftg /\
    infer_sems ph v choose (candidates ph tr) 0%nat (sem target ftg) = (sems, k) /\
    render Utf8M.decode sems (gaps target ftg) = Some out.
Proof.
  unfold InferFsM.infer_with_sems. intros H.
  destruct (parse_text letter digit target) as [ftg|e'|]; try discriminate.
  destruct (infer_sems ph v choose (candidates ph tr) 0%nat (sem target ftg)) as [sems k] eqn:Hs.
  destruct (render Utf8M.decode sems (gaps target ftg)) as [o|] eqn:Hr; [|discriminate].
  inversion H; subst. exists ftg, sems, k. auto.
Qed.

(* only the transactions of the training data matter, and not their order *)
Lemma infer_with_sems_trxs v choose tr target :
  infer_with_sems v choose (trxs tr) target = infer_with_sems v choose tr target.
Proof. unfold InferFsM.infer_with_sems. now rewrite candidates_trxs. Qed.

Lemma infer_with_sems_perm v choose tr1 tr2 target : Permutation (trxs tr1) (trxs tr2) ->
  infer_with_sems v choose tr1 target = infer_with_sems v choose tr2 target.
Proof.
  intros Hp. rewrite <- (infer_with_sems_trxs v choose tr1), <- (infer_with_sems_trxs v choose tr2).
  unfold InferFsM.infer_with_sems. now rewrite (candidates_perm ph _ _ Hp).
Qed.

Lemma infer_with_sems_without_placeholder v choose tr target ftg :
  parse_text letter digit target = ParseOk ftg -> Forall (directive_free ph) (sem target ftg) ->
  exists out, format_text letter digit target ftg = FOk out /\ infer_with_sems v choose tr target = InferOut out.
Proof.
  intros Htg Hfree. destruct (format_parsed _ _ _ _ Htg) as (out & Hout). exists out. split; [assumption|].
  unfold InferFsM.infer_with_sems. rewrite Htg, (infer_sems_free ph v choose _ _ 0%nat Hfree).
  now rewrite (format_text_render _ _ _ _ _ Hout).
Qed.

Section Lex.
Hypothesis Hcls : class_ok letter digit.
Variable tr : list sem_directive.
Hypothesis Htr : Forall (LexDir Utf8M.decode letter digit) tr.

Lemma inferred_lex_sems choose target ftg k sems k' :
  valid_choose choose -> parse_text letter digit target = ParseOk ftg ->
  infer_sems ph Fixed choose (candidates ph tr) k (sem target ftg) = (sems, k') ->
  Forall (LexDir Utf8M.decode letter digit) sems /\ length sems = length (sem target ftg).
Proof.
  intros Hch Htg Hs.
  apply (directives_rel_lex Utf8M.decode letter digit ph (candidates ph tr)) with (ds := sem target ftg).
  - intros x Hx. eapply candidates_lex; [exact Htr|exact Hx].
  - exact (infer_sems_rel ph Fixed choose Hch _ _ _ _ _ Hs).
  - now apply parse_lexdir.
Qed.

Theorem infer_sems_roundtrip choose target out :
  valid_choose choose ->
  infer_with_sems Fixed choose tr target = InferOut out ->
  exists ftg f' k,
    parse_text letter digit target = ParseOk ftg /\
    parse_text letter digit out = ParseOk f' /\
    infer_sems ph Fixed choose (candidates ph tr) 0%nat (sem target ftg) = (sem out f', k) /\
    Forall2 (directive_rel ph Fixed (candidates ph tr)) (sem target ftg) (sem out f') /\
    infer_ok_b ph tr (sem target ftg) (sem out f') = true /\
    gaps out f' = gaps target ftg /\
    format_text letter digit out f' = FOk out.
Proof.
  intros Hch H. destruct (infer_with_sems_shape _ _ _ _ _ H) as (ftg & sems & k & Htg & Hs & Hr).
  destruct (inferred_lex_sems choose target ftg _ sems k Hch Htg Hs) as (Hlex & Hlen).
  destruct (parse_rendered letter digit target ftg sems out Hcls Htg Hlen Hlex Hr) as (f' & Hp' & Hs' & Hg').
  exists ftg, f', k. rewrite Hs'. split; [assumption|]. split; [assumption|]. split; [assumption|].
  split; [exact (infer_sems_rel ph Fixed choose Hch _ _ _ _ _ Hs)|].
  split; [exact (fixed_meets_spec ph tr choose _ _ _ _ Hch Hs)|]. split; [assumption|].
  destruct (format_parsed _ _ _ _ Hp') as (o' & Ho'). rewrite Ho'. f_equal.
  pose proof (format_text_render _ _ _ _ _ Ho') as Hr'. rewrite Hs', Hg' in Hr'. congruence.
Qed.

Theorem infer_sems_total choose target ftg :
  valid_choose choose -> parse_text letter digit target = ParseOk ftg ->
  exists out, infer_with_sems Fixed choose tr target = InferOut out.
Proof.
  intros Hch Htg. unfold InferFsM.infer_with_sems. rewrite Htg.
  destruct (infer_sems ph Fixed choose (candidates ph tr) 0%nat (sem target ftg)) as [sems k] eqn:Hs.
  destruct (inferred_lex_sems choose target ftg _ sems k Hch Htg Hs) as (Hlex & _).
  destruct (render_lex Utf8M.decode letter digit sems (gaps target ftg) Hlex) as (out & ->). eauto.
Qed.

Theorem infer_sems_idempotent choose choose' target out :
  valid_choose choose -> valid_choose choose' ->
  infer_with_sems Fixed choose tr target = InferOut out ->
  infer_with_sems Fixed choose' tr out = InferOut out.
Proof.
  intros Hch Hch' H.
  destruct (infer_sems_roundtrip choose target out Hch H) as (ftg & f' & k & Htg & Hp' & Hs & Hrel & _ & Hg & Hf).
  pose proof (directives_rel_stable ph _ (candidates_not_ph ph tr) _ _ Hrel) as Hst.
  destruct (infer_sems_stable ph _ choose' Hch' (sem out f') 0%nat Hst) as (k' & Hs').
  unfold InferFsM.infer_with_sems. rewrite Hp', Hs'. now rewrite (format_text_render _ _ _ _ _ Hf).
Qed.

Theorem infer_sems_rest_is_format choose target ftg :
  valid_choose choose -> parse_text letter digit target = ParseOk ftg ->
  exists out fmt f' ff,
    infer_with_sems Fixed choose tr target = InferOut out /\
    format_text letter digit target ftg = FOk fmt /\
    parse_text letter digit out = ParseOk f' /\ parse_text letter digit fmt = ParseOk ff /\
    sem fmt ff = sem target ftg /\
    Forall2 (directive_rel ph Fixed (candidates ph tr)) (sem target ftg) (sem out f') /\
    gaps out f' = gaps target ftg /\ gaps fmt ff = gaps target ftg /\
    render Utf8M.decode (sem out f') (gaps target ftg) = Some out /\
    render Utf8M.decode (sem target ftg) (gaps target ftg) = Some fmt /\
    format_text letter digit out f' = FOk out /\ format_text letter digit fmt ff = FOk fmt.
Proof.
  intros Hch Htg. destruct (infer_sems_total choose target ftg Hch Htg) as (out & Ho).
  destruct (format_parsed _ _ _ _ Htg) as (fmt & Hfmt).
  destruct (infer_sems_roundtrip choose target out Hch Ho) as (ftg' & f' & k & Htg' & Hp' & Hs & Hrel & _ & Hg & Hf).
  assert (ftg' = ftg) by congruence. subst ftg'.
  destruct (roundtrip letter digit target ftg fmt Hcls Htg Hfmt) as (ff & Hpf & Hsf & Hgf).
  exists out, fmt, f', ff. repeat (split; [assumption|]).
  split; [rewrite <- Hg; exact (format_text_render _ _ _ _ _ Hf)|].
  split; [exact (format_text_render _ _ _ _ _ Hfmt)|]. split; [assumption|].
  exact (idem_of_roundtrip letter digit target ftg fmt ff Htg Hfmt Hpf Hsf Hgf).
Qed.

End Lex.
End OnSems.

(* ---------------------------------------------------------------- with the modelled choice *)

Section ScoredOn.
Variable F : Type.
Variable flog : Z -> Z -> F.
Variable fadd : F -> F -> F.
Variable fgt : F -> F -> bool.
Variable fields : str -> list str.
Variable lower : str -> str.
Variable ph : str.
Variables letter digit : Z -> bool.

Notation infer_account := (infer_account F flog fadd fgt fields lower).
Notation events := (events fields lower ph).
Notation infer_scored := (infer_scored F flog fadd fgt fields lower ph).
Notation infer_scored_sems := (infer_scored_sems F flog fadd fgt fields lower ph).
Notation infer_scored_on := (infer_scored_on letter digit ph F flog fadd fgt fields lower).
Notation infer_with_sems := (infer_with_sems letter digit ph).

Lemma infer_scored_as_on training target ftr :
  parse_text letter digit training = ParseOk ftr ->
  infer_scored letter digit training target = infer_scored_on (sem training ftr) target.
Proof.
  intros H. unfold BayesScoreM.infer_scored, InferFsM.infer_scored_on. rewrite H.
  destruct (parse_text letter digit target); reflexivity.
Qed.

Theorem infer_scored_on_is_with_sems tr target :
  exists choose, valid_choose choose /\ infer_scored_on tr target = infer_with_sems Fixed choose tr target.
Proof.
  unfold InferFsM.infer_scored_on, InferFsM.infer_with_sems.
  destruct (parse_text letter digit target) as [ftg|e|] eqn:Htg;
    [|exists (choose_of []); split; [apply choose_of_valid|reflexivity]
     |exists (choose_of []); split; [apply choose_of_valid|reflexivity]].
  unfold BayesScoreM.infer_scored_sems.
  destruct (infer_sems_c ph (infer_account (events tr)) (candidates_c (events tr)) (sem target ftg)) as [sems t] eqn:Hs.
  destruct (infer_sems_c_sim ph _ _ _ _ _ (infer_account_valid F flog fadd fgt fields lower _) Hs) as (Hv & Hi).
  exists (choose_of t). split; [exact Hv|].
  rewrite (candidates_c_candidates fields lower ph) in Hi. now rewrite Hi.
Qed.

Lemma events_trxs tr : events (trxs tr) = events tr.
Proof.
  unfold BayesScoreM.events, trxs. induction tr as [|d tr IH]; [reflexivity|]. cbn [filter flat_map].
  destruct d; cbn [is_trx flat_map app]; try exact IH. now rewrite IH.
Qed.

Lemma infer_scored_sems_trxs tr target : infer_scored_sems (trxs tr) target = infer_scored_sems tr target.
Proof. unfold BayesScoreM.infer_scored_sems. now rewrite events_trxs. Qed.

(* THE OUTPUT IS A FUNCTION OF THE MULTISET OF TRAINING TRANSACTIONS *)
Theorem infer_scored_on_perm tr1 tr2 target : Permutation (trxs tr1) (trxs tr2) ->
  infer_scored_on tr1 target = infer_scored_on tr2 target.
Proof.
  intros Hp. unfold InferFsM.infer_scored_on. destruct (parse_text letter digit target) as [ftg|e|]; try reflexivity.
  rewrite <- (infer_scored_sems_trxs tr1), <- (infer_scored_sems_trxs tr2).
  now rewrite (infer_scored_sems_perm F flog fadd fgt fields lower ph _ _ (sem target ftg) Hp).
Qed.

End ScoredOn.

(* ================================================================== C. the command on a file tree *)

Section OnFs.
Variable ph : str.
Variables letter digit : Z -> bool.

Notation skeleton := (skeleton letter digit).
Notation training_files := (training_files letter digit).
Notation training_sems := (training_sems letter digit).
Notation file_sems := (file_sems letter digit).
Notation infer_with_sems := (infer_with_sems letter digit ph).
Notation infer_with_fs := (infer_with_fs letter digit ph).
Notation infer_with_fs_arrival := (infer_with_fs_arrival letter digit ph).

(* what a run that printed something did *)
Lemma infer_with_fs_out v choose fs troot target out :
  infer_with_fs v choose fs troot target = InferOut out ->
  exists files, training_files fs troot = TrOk files /\
                infer_with_sems v choose (training_sems fs files) target = InferOut out.
Proof.
  unfold InferFsM.infer_with_fs, InferFsM.infer_with_fs_arrival.
  destruct (training_files fs troot) as [files|e|]; try discriminate. eauto.
Qed.

Lemma infer_with_fs_ok v choose fs troot target files :
  training_files fs troot = TrOk files ->
  infer_with_fs v choose fs troot target = infer_with_sems v choose (training_sems fs files) target.
Proof. intros H. unfold InferFsM.infer_with_fs, InferFsM.infer_with_fs_arrival. now rewrite H. Qed.

(* the files may reach the trainer in any order *)
Theorem infer_with_fs_arrival_irrelevant arrive v choose fs troot target :
  (forall l, Permutation l (arrive l)) ->
  infer_with_fs_arrival arrive v choose fs troot target = infer_with_fs v choose fs troot target.
Proof.
  intros Ha. unfold InferFsM.infer_with_fs, InferFsM.infer_with_fs_arrival.
  destruct (training_files fs troot) as [files|e|]; try reflexivity.
  apply infer_with_sems_perm. apply trxs_perm. apply training_sems_perm. apply Permutation_sym. apply Ha.
Qed.

(* an error while loading the training journal: exit 1, nothing printed *)
Lemma infer_with_fs_err v choose fs troot target e :
  training_files fs troot = TrErr e -> infer_with_fs v choose fs troot target = InferErr.
Proof. intros H. unfold InferFsM.infer_with_fs, InferFsM.infer_with_fs_arrival. now rewrite H. Qed.

(* candidates are accounts of bookings of transactions of visited files *)
Lemma candidates_from_files fs files x :
  In x (candidates ph (training_sems fs files)) ->
  x <> ph /\ exists p d, In p files /\ In d (file_sems fs p) /\ In x (booking_accounts d).
Proof.
  intros H. split.
  - intros E. subst. exact (candidates_not_ph ph _ H).
  - destruct (candidates_in_training ph _ x H) as (d & Hd & Hx).
    unfold InferFsM.training_sems in Hd. apply in_flat_map in Hd. destruct Hd as (p & Hp & Hd). eauto.
Qed.

Section WithScore.
Variable F : Type.
Variable flog : Z -> Z -> F.
Variable fadd : F -> F -> F.
Variable fgt : F -> F -> bool.
Variable fields : str -> list str.
Variable lower : str -> str.

Notation infer_scored := (infer_scored F flog fadd fgt fields lower ph).
Notation infer_scored_on := (infer_scored_on letter digit ph F flog fadd fgt fields lower).
Notation infer_cmd_fs := (infer_cmd_fs letter digit ph F flog fadd fgt fields lower).
Notation infer_cmd_fs_arrival := (infer_cmd_fs_arrival letter digit ph F flog fadd fgt fields lower).

Lemma infer_cmd_fs_ok fs troot target files :
  training_files fs troot = TrOk files ->
  infer_cmd_fs fs troot target = infer_scored_on (training_sems fs files) target.
Proof. intros H. unfold InferFsM.infer_cmd_fs, InferFsM.infer_cmd_fs_arrival. now rewrite H. Qed.

Lemma infer_cmd_fs_err fs troot target e :
  training_files fs troot = TrErr e -> infer_cmd_fs fs troot target = InferErr.
Proof. intros H. unfold InferFsM.infer_cmd_fs, InferFsM.infer_cmd_fs_arrival. now rewrite H. Qed.

Theorem infer_cmd_fs_arrival_irrelevant arrive fs troot target :
  (forall l, Permutation l (arrive l)) ->
  infer_cmd_fs_arrival arrive fs troot target = infer_cmd_fs fs troot target.
Proof.
  intros Ha. unfold InferFsM.infer_cmd_fs, InferFsM.infer_cmd_fs_arrival.
  destruct (training_files fs troot) as [files|e|]; try reflexivity.
  apply infer_scored_on_perm. apply trxs_perm. apply training_sems_perm. apply Permutation_sym. apply Ha.
Qed.

(* THE LAYOUT OF THE TRAINING JOURNAL DOES NOT MATTER: two file trees (any shapes, any file
   names) whose include trees are finite and whose visited files hold, all together,
   permutations of the same transactions give the same result on every target *)
Theorem infer_cmd_fs_layout fs1 root1 vs1 fs2 root2 vs2 target :
  visits (skeleton fs1) root1 vs1 -> visits (skeleton fs2) root2 vs2 ->
  Permutation (trxs (training_sems fs1 vs1)) (trxs (training_sems fs2 vs2)) ->
  infer_cmd_fs fs1 root1 target = infer_cmd_fs fs2 root2 target.
Proof.
  intros H1 H2 Hp.
  destruct (visits_training_files letter digit fs1 root1 vs1 H1) as (files1 & E1 & P1).
  destruct (visits_training_files letter digit fs2 root2 vs2 H2) as (files2 & E2 & P2).
  rewrite (infer_cmd_fs_ok _ _ _ _ E1), (infer_cmd_fs_ok _ _ _ _ E2).
  apply infer_scored_on_perm.
  eapply Permutation_trans; [apply trxs_perm; apply training_sems_perm; exact P1|].
  eapply Permutation_trans; [exact Hp|].
  apply trxs_perm. apply training_sems_perm. apply Permutation_sym. exact P2.
Qed.

(* in particular: a tree is as good as ONE file holding its transactions in any order *)
Theorem infer_cmd_fs_as_one_file fs root vs training ftr target :
  visits (skeleton fs) root vs -> parse_text letter digit training = ParseOk ftr ->
  Permutation (trxs (training_sems fs vs)) (trxs (sem training ftr)) ->
  infer_cmd_fs fs root target = infer_scored letter digit training target.
Proof.
  intros Hv Hp Hperm.
  destruct (visits_training_files letter digit fs root vs Hv) as (files & E & P).
  rewrite (infer_cmd_fs_ok _ _ _ _ E), (infer_scored_as_on F flog fadd fgt fields lower ph letter digit _ _ _ Hp).
  apply infer_scored_on_perm.
  eapply Permutation_trans; [apply trxs_perm; apply training_sems_perm; exact P|exact Hperm].
Qed.

(* a training file without include directives: the command of Model/BayesScore.v *)
Theorem infer_cmd_fs_no_includes fs root training target :
  tlookup fs root = Some training ->
  (forall ftr t, parse_text letter digit training = ParseOk ftr -> ~ In (SemInclude t) (sem training ftr)) ->
  infer_cmd_fs fs root target = infer_scored letter digit training target.
Proof.
  intros Hl Hni. destruct (parse_text letter digit training) as [ftr|e|] eqn:Hp.
  - destruct (training_files_single letter digit fs root training ftr Hl Hp (fun t => Hni ftr t eq_refl)) as (E & Es).
    rewrite (infer_cmd_fs_ok _ _ _ _ E), Es.
    symmetry. now apply infer_scored_as_on.
  - destruct (training_files_single_bad letter digit fs root training Hl) as (e' & E); [intros f; congruence|].
    rewrite (infer_cmd_fs_err _ _ _ _ E). unfold BayesScoreM.infer_scored. rewrite Hp.
    pose proof (parse_text_fuel letter digit target) as Hf.
    destruct (parse_text letter digit target); congruence.
  - exfalso. exact (parse_text_fuel letter digit training Hp).
Qed.

(* the command with its real choice is the command with a valid choice function *)
Theorem infer_cmd_fs_is_infer_with_fs fs troot target :
  exists choose, valid_choose choose /\ infer_cmd_fs fs troot target = infer_with_fs Fixed choose fs troot target.
Proof.
  unfold InferFsM.infer_cmd_fs, InferFsM.infer_cmd_fs_arrival, InferFsM.infer_with_fs, InferFsM.infer_with_fs_arrival.
  destruct (training_files fs troot) as [files|e|];
    [|exists (choose_of []); split; [apply choose_of_valid|reflexivity]
     |exists (choose_of []); split; [apply choose_of_valid|reflexivity]].
  apply infer_scored_on_is_with_sems.
Qed.

(* an include cycle in the training journal: exit 1, nothing printed *)
Theorem infer_cmd_fs_cycle fs S troot target :
  tclosed letter digit fs S -> S troot -> infer_cmd_fs fs troot target = InferErr.
Proof.
  intros Hc Hr. destruct (training_files_cycle letter digit fs S troot (tclosed_closed letter digit fs S Hc) Hr) as (e & He).
  exact (infer_cmd_fs_err _ _ _ _ He).
Qed.

(* a missing or unparseable file anywhere in the include graph: exit 1, nothing printed *)
Theorem infer_cmd_fs_bad_file fs troot p target :
  reach (skeleton fs) troot p ->
  (tlookup fs p = None \/ exists text, tlookup fs p = Some text /\ forall f, parse_text letter digit text <> ParseOk f) ->
  infer_cmd_fs fs troot target = InferErr.
Proof.
  intros Hr Hb. destruct (training_files_bad letter digit fs troot p Hr Hb) as (e & He).
  exact (infer_cmd_fs_err _ _ _ _ He).
Qed.

(* the whole property for the command on a file tree, with its real choice *)
Theorem infer_cmd_fs_correct fs troot files target ftg :
  class_ok letter digit ->
  training_files fs troot = TrOk files -> parse_text letter digit target = ParseOk ftg ->
  exists out f',
    infer_cmd_fs fs troot target = InferOut out /\
    parse_text letter digit out = ParseOk f' /\
    infer_ok_b ph (training_sems fs files) (sem target ftg) (sem out f') = true /\
    gaps out f' = gaps target ftg /\
    format_text letter digit out f' = FOk out /\
    infer_cmd_fs fs troot out = InferOut out.
Proof.
  intros Hcls E Htg. rewrite !(infer_cmd_fs_ok _ _ _ _ E).
  pose proof (training_sems_lex letter digit fs files) as Hlex.
  destruct (infer_scored_on_is_with_sems F flog fadd fgt fields lower ph letter digit (training_sems fs files) target)
    as (choose & Hch & Eq). rewrite Eq.
  destruct (infer_sems_total ph letter digit _ Hlex choose target ftg Hch Htg) as (out & Ho).
  destruct (infer_sems_roundtrip ph letter digit Hcls _ Hlex choose target out Hch Ho)
    as (ftg' & f' & k & Htg' & Hp' & _ & _ & Hok & Hg & Hf).
  assert (ftg' = ftg) by congruence. subst ftg'.
  exists out, f'. repeat (split; [assumption|]).
  rewrite (infer_cmd_fs_ok _ _ _ _ E).
  destruct (infer_scored_on_is_with_sems F flog fadd fgt fields lower ph letter digit (training_sems fs files) out)
    as (choose' & Hch' & Eq'). rewrite Eq'.
  exact (infer_sems_idempotent ph letter digit Hcls _ Hlex choose choose' target out Hch Hch' Ho).
Qed.

End WithScore.

(* ---- the theorems about every valid choice function, on a file tree ---- *)

Theorem infer_with_fs_roundtrip choose fs troot target out :
  class_ok letter digit -> valid_choose choose ->
  infer_with_fs Fixed choose fs troot target = InferOut out ->
  exists files ftg f' k,
    training_files fs troot = TrOk files /\
    parse_text letter digit target = ParseOk ftg /\
    parse_text letter digit out = ParseOk f' /\
    infer_sems ph Fixed choose (candidates ph (training_sems fs files)) 0%nat (sem target ftg) = (sem out f', k) /\
    Forall2 (directive_rel ph Fixed (candidates ph (training_sems fs files))) (sem target ftg) (sem out f') /\
    infer_ok_b ph (training_sems fs files) (sem target ftg) (sem out f') = true /\
    gaps out f' = gaps target ftg /\
    format_text letter digit out f' = FOk out.
Proof.
  intros Hcls Hch H. destruct (infer_with_fs_out _ _ _ _ _ _ H) as (files & E & Ho).
  destruct (infer_sems_roundtrip ph letter digit Hcls _ (training_sems_lex letter digit fs files) choose target out Hch Ho)
    as (ftg & f' & k & H1 & H2 & H3 & H4 & H5 & H6 & H7).
  exists files, ftg, f', k. repeat (split; [assumption|]). assumption.
Qed.

Theorem infer_with_fs_total choose fs troot files target ftg :
  valid_choose choose -> training_files fs troot = TrOk files -> parse_text letter digit target = ParseOk ftg ->
  exists out, infer_with_fs Fixed choose fs troot target = InferOut out.
Proof.
  intros Hch E Htg. rewrite (infer_with_fs_ok _ _ _ _ _ _ E).
  exact (infer_sems_total ph letter digit _ (training_sems_lex letter digit fs files) choose target ftg Hch Htg).
Qed.

Theorem infer_with_fs_idempotent choose choose' fs troot target out :
  class_ok letter digit -> valid_choose choose -> valid_choose choose' ->
  infer_with_fs Fixed choose fs troot target = InferOut out ->
  infer_with_fs Fixed choose' fs troot out = InferOut out.
Proof.
  intros Hcls Hch Hch' H. destruct (infer_with_fs_out _ _ _ _ _ _ H) as (files & E & Ho).
  rewrite (infer_with_fs_ok _ _ _ _ _ _ E).
  exact (infer_sems_idempotent ph letter digit Hcls _ (training_sems_lex letter digit fs files) choose choose' target out Hch Hch' Ho).
Qed.

Theorem infer_with_fs_rest_is_format choose fs troot files target ftg :
  class_ok letter digit -> valid_choose choose ->
  training_files fs troot = TrOk files -> parse_text letter digit target = ParseOk ftg ->
  exists out fmt f' ff,
    infer_with_fs Fixed choose fs troot target = InferOut out /\
    format_text letter digit target ftg = FOk fmt /\
    parse_text letter digit out = ParseOk f' /\ parse_text letter digit fmt = ParseOk ff /\
    sem fmt ff = sem target ftg /\
    Forall2 (directive_rel ph Fixed (candidates ph (training_sems fs files))) (sem target ftg) (sem out f') /\
    gaps out f' = gaps target ftg /\ gaps fmt ff = gaps target ftg /\
    render Utf8M.decode (sem out f') (gaps target ftg) = Some out /\
    render Utf8M.decode (sem target ftg) (gaps target ftg) = Some fmt /\
    format_text letter digit out f' = FOk out /\ format_text letter digit fmt ff = FOk fmt.
Proof.
  intros Hcls Hch E Htg. rewrite (infer_with_fs_ok _ _ _ _ _ _ E).
  exact (infer_sems_rest_is_format ph letter digit Hcls _ (training_sems_lex letter digit fs files) choose target ftg Hch Htg).
Qed.

End OnFs.
