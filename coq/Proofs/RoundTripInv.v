(* C08 round trip, part 3: INVERSION for the composite classes.  [LexDir d]: every string of the
   meaning d (Spec/FormatSpec.v) is in its lexical class, lists that the grammar makes
   non-empty are non-empty, and a date does not start with '@' or 'i' (the decisions
   parseDirective took).  [i_directive]: the meaning of every directive a successful
   parse_directive returns satisfies LexDir.                                                  *)
From Coq Require Import ZArith List Bool Lia ZifyBool.
From Knut Require Import Model.Bytes Model.Utf8 Model.Scanner Model.Parser Spec.SyntaxSpec
  Proofs.ScannerProofs Proofs.ParserProofs Spec.FormatSpec Proofs.RoundTripBase Proofs.RoundTripLeaf.
Import ListNotations.
Open Scope bool_scope.
Open Scope Z_scope.

Definition sem_accrual_of (t : str) (a : accrual) : sem_accrual :=
  mkSemAccrual (cut t (ac_interval a)) (cut t (ac_start a)) (cut t (ac_end a)) (sem_acc t (ac_account a)).

Definition sem_of_balance (t : str) (b : balance) : sem_account * str * str :=
  (sem_acc t (bl_account b), cut t (bl_quantity b), cut t (bl_commodity b)).

Section LexDir.
Variable dec : str -> Z * Z.
Variables letter digit : Z -> bool.

Definition LexAcc (a : sem_account) : Prop := lex_account dec letter digit (fst a) (snd a).

Definition LexBooking (b : sem_booking) : Prop :=
  LexAcc (sb_credit b) /\ LexAcc (sb_debit b) /\ lex_decimal dec digit (sb_quantity b) /\
  lex_commodity dec letter digit (sb_commodity b).

Definition LexBal (b : sem_account * str * str) : Prop :=
  LexAcc (fst (fst b)) /\ lex_decimal dec digit (snd (fst b)) /\ lex_commodity dec letter digit (snd b).

Definition LexAccrual (a : sem_accrual) : Prop :=
  lex_interval (sa_interval a) /\ lex_date dec digit (sa_start a) /\ lex_date dec digit (sa_end a) /\
  LexAcc (sa_account a).

Definition date_ok (w : str) : Prop := lex_date dec digit w /\ fr dec w <> 64 /\ fr dec w <> 105.

Definition LexDir (d : sem_directive) : Prop :=
  match d with
  | SemTrx date desc bs perf accr =>
    date_ok date /\ lex_quoted dec desc /\ bs <> [] /\ Forall LexBooking bs /\
    match perf with Some ts => Forall (lex_commodity dec letter digit) ts | None => True end /\
    match accr with Some a => LexAccrual a | None => True end
  | SemOpen date a => date_ok date /\ LexAcc a
  | SemClose date a => date_ok date /\ LexAcc a
  | SemAssertion date bs => date_ok date /\ bs <> [] /\ Forall LexBal bs
  | SemPrice date c p tg =>
    date_ok date /\ lex_commodity dec letter digit c /\ lex_decimal dec digit p /\
    lex_commodity dec letter digit tg
  | SemInclude p => lex_quoted dec p
  | SemNone => False
  end.

End LexDir.

Section WithEnv.
Variable E : env.
Hypothesis Hlen : e_len E = Z.of_nat (length (e_text E)).
Hypothesis Hfuel : (length (e_text E) < e_fuel E)%nat.
Hypothesis Hdec : decoder_ok (e_decode E).
Hypothesis Hloc : decoder_local (e_decode E).

Notation t := (e_text E).
Notation dec := (e_decode E).
Notation letter := (e_letter E).
Notation digit := (e_digit E).
Notation VInv := (VInv E).
Notation ipost := (@ipost E _).
Notation leafQ := (leafQ E).
Notation lex_commodity := (lex_commodity dec letter digit).
Notation lex_decimal := (lex_decimal dec digit).
Notation lex_date := (lex_date dec digit).
Notation lex_quoted := (lex_quoted dec).
Notation LexAcc := (LexAcc dec letter digit).
Notation LexBooking := (LexBooking dec letter digit).
Notation LexBal := (LexBal dec letter digit).
Notation LexAccrual := (LexAccrual dec letter digit).
Notation LexDir := (LexDir dec letter digit).
Notation date_ok := (date_ok dec digit).

Local Notation ipost_bind := (@RoundTripLeaf.ipost_bind E Hlen Hfuel Hdec Hloc _ _).
Local Notation ipost_annot := (@RoundTripLeaf.ipost_annot E Hlen Hfuel Hdec Hloc _).
Local Notation ipost_ret := (@RoundTripLeaf.ipost_ret E Hlen Hfuel Hdec Hloc _).
Local Notation ipost_ok := (@RoundTripLeaf.ipost_ok E Hlen Hfuel Hdec Hloc _).
Local Notation ipost_ret_with := (@RoundTripLeaf.ipost_ret_with E Hlen Hfuel Hdec Hloc _).
Local Notation ipost_weaken := (@RoundTripLeaf.ipost_weaken E Hlen Hfuel Hdec Hloc _).
Local Notation i_rw := (RoundTripLeaf.i_rw E Hlen Hfuel Hdec Hloc).
Local Notation i_rw1 := (RoundTripLeaf.i_rw1 E Hlen Hfuel Hdec Hloc).
Local Notation i_rc := (RoundTripLeaf.i_rc E Hlen Hfuel Hdec Hloc).
Local Notation i_rs := (RoundTripLeaf.i_rs E Hlen Hfuel Hdec Hloc).
Local Notation i_ra := (RoundTripLeaf.i_ra E Hlen Hfuel Hdec Hloc).
Local Notation i_ws1 := (RoundTripLeaf.i_ws1 E Hlen Hfuel Hdec Hloc).
Local Notation i_rest := (RoundTripLeaf.i_rest E Hlen Hfuel Hdec Hloc).
Local Notation i_commodity := (RoundTripLeaf.i_commodity E Hlen Hfuel Hdec Hloc).
Local Notation i_decimal := (RoundTripLeaf.i_decimal E Hlen Hfuel Hdec Hloc).
Local Notation i_account := (RoundTripLeaf.i_account E Hlen Hfuel Hdec Hloc).
Local Notation i_date := (RoundTripLeaf.i_date E Hlen Hfuel Hdec Hloc).
Local Notation i_quoted := (RoundTripLeaf.i_quoted E Hlen Hfuel Hdec Hloc).
Local Notation i_interval := (RoundTripLeaf.i_interval E Hlen Hfuel Hdec Hloc).
Local Notation vinv_cur_fr := (RoundTripBase.vinv_cur_fr E Hlen Hfuel Hdec Hloc).

Tactic Notation "istep" uconstr(L) "as" simple_intropattern(xpat) ident(s1) ident(HV) ident(Hle) simple_intropattern(HQ) :=
  eapply ipost_bind; [ eapply L; eauto | lia | intros xpat s1 HV Hle; cbv beta; intros HQ ].

Ltac semprj := unfold sem_of_booking, sem_of_balance, sem_accrual_of, sem_acc, cut; prj;
  cbn [sb_credit sb_debit sb_quantity sb_commodity sa_interval sa_start sa_end sa_account fst snd].

(* ------------------------------------------------------------------ bookings, balances *)

Lemma i_booking s : VInv s ->
  ipost (fun b s' => off s < off s' /\ LexBooking (sem_of_booking t b)) (off s) (parse_booking E s).
Proof using All.
  intros HV. unfold parse_booking. apply ipost_annot.
  istep i_account as c s1 HV1 L1 (Hc & Hclt & Hcl).
  istep i_rw1 as ? s2 HV2 L2 _.
  istep i_account as d s3 HV3 L3 (Hd & Hdlt & Hdl).
  istep i_rw1 as ? s4 HV4 L4 _.
  istep i_decimal as q s5 HV5 L5 (Hq & Hqlt & Hql).
  istep i_rw1 as ? s6 HV6 L6 _.
  istep i_commodity as m s7 HV7 L7 (Hm & Hmlt & Hml).
  apply ipost_ret_with; [assumption|lia|]. split; [lia|].
  unfold RoundTripInv.LexBooking, RoundTripInv.LexAcc. semprj. rewrite Hc, Hd, Hq, Hm. prj. auto.
Qed.

Lemma i_balance s : VInv s ->
  ipost (fun b s' => off s < off s' /\ LexBal (sem_of_balance t b)) (off s) (parse_balance E s).
Proof using All.
  intros HV. unfold parse_balance. apply ipost_annot.
  istep i_account as c s1 HV1 L1 (Hc & Hclt & Hcl).
  istep i_ws1 as ? s2 HV2 L2 _.
  istep i_decimal as q s3 HV3 L3 (Hq & Hqlt & Hql).
  istep i_ws1 as ? s4 HV4 L4 _.
  istep i_commodity as m s5 HV5 L5 (Hm & Hmlt & Hml).
  apply ipost_ret_with; [assumption|lia|]. split; [lia|].
  unfold RoundTripInv.LexBal, RoundTripInv.LexAcc. semprj. rewrite Hc, Hq, Hm. prj. auto.
Qed.

(* ------------------------------------------------------------------ addons *)

Definition lexc (rg : range) : Prop := lex_commodity (cut t rg).

Lemma i_perf_loop : forall n s, VInv s ->
  ipost (fun cs _ => Forall lexc cs) (off s) (performance_loop E n s).
Proof using All.
  induction n as [|n IH]; intros s HV; cbn [performance_loop]; [exact I|].
  unfold ifM. destruct (cur_is 44 s).
  - istep i_rc as ? s1 HV1 L1 _. { lia. }
    istep i_rw as ? s2 HV2 L2 _.
    istep i_commodity as c s3 HV3 L3 (Hc & _ & Hcl).
    istep i_rw as ? s4 HV4 L4 _.
    istep IH as cs s5 HV5 L5 Hcs.
    apply ipost_ret; [assumption|lia|]. constructor; [|assumption].
    unfold lexc, cut. rewrite Hc. prj. exact Hcl.
  - apply ipost_ret; [assumption|lia|]. constructor.
Qed.

Lemma i_performance s : VInv s ->
  ipost (fun p s' => off s < off s' /\ pf_range p = mkRange (off s) (off s') /\ Forall lexc (pf_targets p))
        (off s) (parse_performance E s).
Proof using All.
  intros HV. unfold parse_performance. apply ipost_annot.
  istep i_rc as ? s1 HV1 L1 (Ho1 & _). { lia. }
  istep i_rw as ? s2 HV2 L2 _.
  eapply ipost_bind with (Q1 := fun first _ => Forall lexc first); [|lia|].
  { unfold ifM. destruct (negb (cur s2 =? 41)).
    - istep i_commodity as c s3 HV3 L3 (Hc & _ & Hcl).
      istep i_rw as ? s4 HV4 L4 _.
      apply ipost_ret; [assumption|lia|]. constructor; [|constructor].
      unfold lexc, cut. rewrite Hc. prj. exact Hcl.
    - apply ipost_ret; [assumption|lia|]. constructor. }
  intros first s3 HV3 L3 Hfirst.
  istep i_perf_loop as more s4 HV4 L4 Hmore.
  istep i_rc as ? s5 HV5 L5 _. { lia. }
  apply ipost_ret_with; [assumption|lia|]. prj. split; [lia|]. split; [reflexivity|].
  apply Forall_app. split; assumption.
Qed.

Lemma i_accrual s : VInv s ->
  ipost (fun a s' => ac_range a = mkRange (off s) (off s') /\ LexAccrual (sem_accrual_of t a))
        (off s) (parse_accrual E s).
Proof using All.
  intros HV. unfold parse_accrual. apply ipost_annot.
  istep i_ws1 as ? s1 HV1 L1 _.
  istep i_interval as iv s2 HV2 L2 (Hiv & _ & Hivl).
  istep i_ws1 as ? s3 HV3 L3 _.
  istep i_date as st s4 HV4 L4 (Hst & _ & Hstl).
  istep i_ws1 as ? s5 HV5 L5 _.
  istep i_date as en s6 HV6 L6 (Hen & _ & Henl).
  istep i_ws1 as ? s7 HV7 L7 _.
  istep i_account as acc s8 HV8 L8 (Ha & _ & Hal).
  apply ipost_ret_with; [assumption|lia|]. prj. split; [reflexivity|].
  unfold RoundTripInv.LexAccrual, RoundTripInv.LexAcc. semprj. rewrite Hiv, Hst, Hen, Ha. prj. auto.
Qed.

Definition AdLex (ad : addons) : Prop :=
  Forall lexc (pf_targets (ad_perf ad)) /\
  (ad_accrual ad = zero_accrual \/ LexAccrual (sem_accrual_of t (ad_accrual ad))).

Lemma AdLex_zero : AdLex zero_addons.
Proof using. split; [constructor|now left]. Qed.

Lemma replace_err_ipost {A} (m : M A) s o (Q : A -> state -> Prop) :
  ipost Q o (m s) -> ipost Q o (replace_err m s).
Proof using. intros H. unfold replace_err. destruct (m s); cbn [RoundTripLeaf.ipost] in *; auto. Qed.

Lemma i_addons_loop sc : forall n s ad, VInv s -> AdLex ad ->
  ipost (fun a s' => AdLex a /\ cur s' <> 64 /\ off s < off s') (off s) (addons_loop E sc n ad s).
Proof using All.
  induction n as [|n IH]; intros s ad HV Had; cbn [addons_loop]; [exact I|].
  istep i_ra as r s1 HV1 L1 (Hr & kw & Hin & Hw). { repeat constructor; unfold ascii; lia. }
  assert (Hlt : off s < off s1).
  { pose proof (RoundTripBase.win_off E Hlen Hfuel Hdec Hloc s kw s1 (proj1 HV) (proj1 HV1) Hw) as Ho.
    assert (1 <= zlen kw) by (cbn [In] in Hin; destruct Hin as [<-|[<-|[]]]; vm_compute; discriminate).
    lia. }
  eapply ipost_bind with (Q1 := fun ad' _ => AdLex ad'); [|lia|].
  { destruct Had as (Hp & Ha).
    destruct (str_eqb (extract E r) kw_performance).
    - destruct (negb (range_empty (pf_range (ad_perf ad)))); [exact I|].
      istep i_performance as p s2 HV2 L2 (_ & _ & Hpt).
      apply ipost_ret; [assumption|lia|]. split; prj; assumption.
    - destruct (str_eqb (extract E r) kw_accrue).
      + destruct (negb (range_empty (ac_range (ad_accrual ad)))); [exact I|].
        istep i_accrual as acr s2 HV2 L2 (_ & Hal).
        apply ipost_ret; [assumption|lia|]. split; prj; [assumption|]. right. exact Hal.
      + apply ipost_ok; [assumption|lia|]. split; assumption. }
  intros ad' s2 HV2 L2 Had'.
  eapply ipost_bind with (Q1 := fun _ _ => True); [apply replace_err_ipost; eapply ipost_weaken; [apply i_rest; assumption|lia|auto]|lia|].
  intros _ s3 HV3 L3 _.
  unfold ifM. destruct (Z.eqb_spec (cur s3) 64) as [H64|H64]; cbn [negb].
  - eapply ipost_weaken; [apply (IH s3 ad' HV3 Had')|lia|].
    intros a s' _ L' (Ha & Hc & Hl). split; [assumption|]. split; [assumption|lia].
  - apply ipost_ret_with; [assumption|lia|]. split; [|split; [assumption|lia]].
    destruct Had' as (A1 & A2). split; prj; assumption.
Qed.

Lemma i_addons s : VInv s ->
  ipost (fun a s' => AdLex a /\ cur s' <> 64 /\ off s < off s') (off s) (parse_addons E s).
Proof using All.
  intros HV. unfold parse_addons. apply ipost_annot.
  apply i_addons_loop; [assumption|apply AdLex_zero].
Qed.

(* ------------------------------------------------------------------ directive kinds *)

Lemma i_include s : VInv s ->
  ipost (fun i s' => off s < off s' /\ lex_quoted (cut t (qs_content (in_path i)))) (off s) (parse_include E s).
Proof using All.
  intros HV. unfold parse_include. apply ipost_annot.
  istep i_rs as ? s1 HV1 L1 _. { repeat constructor; unfold ascii; lia. }
  istep i_ws1 as ? s2 HV2 L2 _.
  istep i_quoted as q s3 HV3 L3 (_ & Hlt & Hq).
  apply ipost_ret_with; [assumption|lia|]. prj. split; [lia|exact Hq].
Qed.

Lemma i_open sc date s : VInv s ->
  ipost (fun o s' => op_date o = date /\ LexAcc (sem_acc t (op_account o)) /\ off s < off s')
        (off s) (parse_open E sc date s).
Proof using All.
  intros HV. unfold parse_open. apply ipost_annot.
  istep i_account as a s1 HV1 L1 (Ha & Hlt & Hal).
  apply ipost_ret_with; [assumption|lia|]. prj. split; [reflexivity|]. split; [|lia].
  unfold RoundTripInv.LexAcc. semprj. rewrite Ha. prj. exact Hal.
Qed.

Lemma i_close sc date s : VInv s ->
  ipost (fun o s' => cl_date o = date /\ LexAcc (sem_acc t (cl_account o)) /\ off s < off s')
        (off s) (parse_close E sc date s).
Proof using All.
  intros HV. unfold parse_close. apply ipost_annot.
  istep i_account as a s1 HV1 L1 (Ha & Hlt & Hal).
  apply ipost_ret_with; [assumption|lia|]. prj. split; [reflexivity|]. split; [|lia].
  unfold RoundTripInv.LexAcc. semprj. rewrite Ha. prj. exact Hal.
Qed.

Lemma i_balances_loop : forall n s, VInv s ->
  ipost (fun bs s' => bs <> [] /\ Forall LexBal (map (sem_of_balance t) bs) /\ off s < off s')
        (off s) (balances_loop E n s).
Proof using All.
  induction n as [|n IH]; intros s HV; cbn [balances_loop]; [exact I|].
  istep i_balance as b s1 HV1 L1 (Hlt & Hb).
  istep i_rest as ? s2 HV2 L2 _.
  unfold ifM. destruct (is_whitespace_or_newline (cur s2) || (cur s2 =? eof)).
  - apply ipost_ret; [assumption|lia|]. split; [discriminate|]. split; [|lia]. cbn [map]. constructor; [assumption|constructor].
  - istep IH as bs s3 HV3 L3 (_ & Hbs & _).
    apply ipost_ret; [assumption|lia|]. split; [discriminate|]. split; [|lia]. cbn [map]. constructor; assumption.
Qed.

Lemma i_bookings_loop : forall n s, VInv s ->
  ipost (fun bs s' => bs <> [] /\ Forall LexBooking (map (sem_of_booking t) bs) /\ off s < off s')
        (off s) (bookings_loop E n s).
Proof using All.
  induction n as [|n IH]; intros s HV; cbn [bookings_loop]; [exact I|].
  istep i_booking as b s1 HV1 L1 (Hlt & Hb).
  istep i_rest as ? s2 HV2 L2 _.
  unfold ifM. destruct (is_whitespace_or_newline (cur s2) || (cur s2 =? eof)).
  - apply ipost_ret; [assumption|lia|]. split; [discriminate|]. split; [|lia]. cbn [map]. constructor; [assumption|constructor].
  - istep IH as bs s3 HV3 L3 (_ & Hbs & _).
    apply ipost_ret; [assumption|lia|]. split; [discriminate|]. split; [|lia]. cbn [map]. constructor; assumption.
Qed.

Lemma i_assertion sc date s : VInv s ->
  ipost (fun a s' => as_date a = date /\ as_balances a <> [] /\
                     Forall LexBal (map (sem_of_balance t) (as_balances a)) /\ off s < off s')
        (off s) (parse_assertion E sc date s).
Proof using All.
  intros HV. unfold parse_assertion. apply ipost_annot.
  unfold ifM. destruct (is_newline (cur s)).
  - istep i_rest as ? s1 HV1 L1 _.
    istep i_balances_loop as bs s2 HV2 L2 (Hne & Hbs & Hlt).
    apply ipost_ret_with; [assumption|lia|]. prj. split; [reflexivity|]. split; [assumption|]. split; [assumption|lia].
  - istep i_balance as b s1 HV1 L1 (Hlt & Hb).
    apply ipost_ret_with; [assumption|lia|]. prj. split; [reflexivity|]. split; [discriminate|].
    split; [|lia]. cbn [map]. constructor; [assumption|constructor].
Qed.

Lemma i_price sc date s : VInv s ->
  ipost (fun p s' => pr_date p = date /\ lex_commodity (cut t (pr_commodity p)) /\
                     lex_decimal (cut t (pr_price p)) /\ lex_commodity (cut t (pr_target p)) /\ off s < off s')
        (off s) (parse_price E sc date s).
Proof using All.
  intros HV. unfold parse_price.
  eapply ipost_bind with (Q1 := fun cp s4 => lex_commodity (cut t (fst cp)) /\ lex_decimal (cut t (snd cp)) /\ off s < off s4); [|lia|].
  { apply ipost_annot.
    istep i_commodity as c s1 HV1 L1 (Hc & Hclt & Hcl).
    istep i_ws1 as ? s2 HV2 L2 _.
    istep i_decimal as p s3 HV3 L3 (Hp & _ & Hpl).
    istep i_ws1 as ? s4 HV4 L4 _.
    apply ipost_ret; [assumption|lia|]. prj. unfold cut. rewrite Hc, Hp. prj. split; [assumption|]. split; [assumption|lia]. }
  intros cp s4 HV4 L4 (Hc & Hp & Hlt).
  istep i_commodity as tg s5 HV5 L5 (Htg & _ & Htl).
  apply ipost_ret_with; [assumption|lia|]. prj. split; [reflexivity|]. split; [assumption|]. split; [assumption|].
  split; [|lia]. unfold cut. rewrite Htg. prj. exact Htl.
Qed.

Lemma i_transaction sc date ad s : VInv s ->
  ipost (fun x s' => tx_date x = date /\ tx_addons x = ad /\ lex_quoted (cut t (qs_content (tx_desc x))) /\
                     tx_bookings x <> [] /\ Forall LexBooking (map (sem_of_booking t) (tx_bookings x)) /\
                     off s < off s')
        (off s) (parse_transaction E sc date ad s).
Proof using All.
  intros HV. unfold parse_transaction. apply ipost_annot.
  istep i_quoted as q s1 HV1 L1 (_ & Hlt & Hq).
  istep i_rest as ? s2 HV2 L2 _.
  istep i_bookings_loop as bs s3 HV3 L3 (Hne & Hbs & _).
  apply ipost_ret_with; [assumption|lia|]. prj. repeat split; try assumption; try reflexivity. lia.
Qed.

(* ------------------------------------------------------------------ directive *)

Lemma range_empty_zero : range_empty zero_range = true.
Proof using. reflexivity. Qed.

Lemma i_directive s : VInv s ->
  ipost (fun d s' => d_range d = mkRange (off s) (off s') /\ off s < off s' /\ LexDir (sem_of_directive t d))
        (off s) (parse_directive E s).
Proof using All.
  intros HV. unfold parse_directive. apply ipost_annot.
  set (sc := new_scope DDir s).
  eapply ipost_bind with (Q1 := fun ad s1 => AdLex ad /\ cur s1 <> 64); [|lia|].
  { unfold ifM, cur_is. destruct (Z.eqb_spec (cur s) 64) as [H64|H64].
    - eapply ipost_weaken; [apply i_addons; assumption|lia|]. intros a s' _ _ (Ha & Hc & _). auto.
    - apply ipost_ret; [assumption|lia|]. split; [apply AdLex_zero|assumption]. }
  intros ad s1 HV1 L1 (Had & H64).
  unfold ifM at 1. unfold cur_is at 1. destruct (Z.eqb_spec (cur s1) 105) as [H105|H105].
  - istep i_include as i s2 HV2 L2 (Hlt & Hi).
    apply ipost_ret_with; [assumption|lia|]. prj. split; [reflexivity|]. split; [lia|].
    unfold sem_of_directive. prj. exact Hi.
  - istep i_date as date s2 HV2 L2 (Hdate & Hdlt & Hdl).
    assert (Hdok : date_ok (cut t date)).
    { unfold cut. rewrite Hdate. prj. split; [exact Hdl|].
      pose proof (lex_date_first dec digit Hdec _ (skipn (Z.to_nat (off s2 - off s1)) (rest s1)) Hdl) as (Hf & _).
      assert (Hr : rest s1 = slice t (off s1) (off s2) ++ skipn (Z.to_nat (off s2 - off s1)) (rest s1)).
      { destruct HV1 as ((_ & Hr1 & _) & _). unfold slice. rewrite <- Hr1. symmetry. apply firstn_skipn. }
      rewrite (vinv_cur_fr s1 HV1), Hr, Hf in H64, H105. auto. }
    istep i_ws1 as ? s3 HV3 L3 _.
    unfold ifM at 1. destruct (cur_is 34 s3).
    + istep i_transaction as x s4 HV4 L4 (Hxd & Hxa & Hxq & Hxne & Hxb & Hxlt).
      apply ipost_ret_with; [assumption|lia|]. prj. split; [reflexivity|]. split; [lia|].
      unfold sem_of_directive. prj. rewrite Hxd, Hxa. cbn [RoundTripInv.LexDir].
      split; [assumption|]. split; [assumption|].
      split; [destruct (tx_bookings x); [congruence|discriminate]|]. split; [assumption|].
      destruct Had as (Hp & Ha). split.
      * destruct (range_empty (pf_range (ad_perf ad))); [exact I|].
        apply Forall_map. exact Hp.
      * destruct Ha as [Hz|Ha]; [rewrite Hz; change (range_empty (ac_range zero_accrual)) with true; exact I|].
        destruct (range_empty (ac_range (ad_accrual ad))); [exact I|exact Ha].
    + istep i_ra as kw s4 HV4 L4 (Hkw & k & Hin & Hw). { repeat constructor; unfold ascii; lia. }
      istep i_ws1 as ? s5 HV5 L5 _.
      assert (Hex : extract E kw = k).
      { rewrite Hkw. unfold extract. prj. apply (RoundTripBase.win_slice E Hlen Hfuel Hdec Hloc s3 k s4 (proj1 HV3) (proj1 HV4) Hw). }
      destruct (str_eqb (extract E kw) kw_open) eqn:E1; [|
      destruct (str_eqb (extract E kw) kw_close) eqn:E2; [|
      destruct (str_eqb (extract E kw) kw_balance) eqn:E3; [|
      destruct (str_eqb (extract E kw) kw_price) eqn:E4]]].
      * istep i_open as x s6 HV6 L6 (Hxd & Hxa & Hxlt).
        apply ipost_ret_with; [assumption|lia|]. prj. split; [reflexivity|]. split; [lia|].
        unfold sem_of_directive. prj. rewrite Hxd. cbn [RoundTripInv.LexDir]. auto.
      * istep i_close as x s6 HV6 L6 (Hxd & Hxa & Hxlt).
        apply ipost_ret_with; [assumption|lia|]. prj. split; [reflexivity|]. split; [lia|].
        unfold sem_of_directive. prj. rewrite Hxd. cbn [RoundTripInv.LexDir]. auto.
      * istep i_assertion as x s6 HV6 L6 (Hxd & Hxne & Hxb & Hxlt).
        apply ipost_ret_with; [assumption|lia|]. prj. split; [reflexivity|]. split; [lia|].
        unfold sem_of_directive. prj. rewrite Hxd. cbn [RoundTripInv.LexDir].
        split; [assumption|]. split; [destruct (as_balances x); [congruence|discriminate]|exact Hxb].
      * istep i_price as x s6 HV6 L6 (Hxd & Hc & Hp & Htg & Hxlt).
        apply ipost_ret_with; [assumption|lia|]. prj. split; [reflexivity|]. split; [lia|].
        unfold sem_of_directive. prj. rewrite Hxd. cbn [RoundTripInv.LexDir]. auto.
      * exfalso. rewrite Hex in E1, E2, E3, E4. cbn [In] in Hin.
        destruct Hin as [<-|[<-|[<-|[<-|[]]]]];
          [rewrite (str_eqb_refl E Hlen Hfuel Hdec) in E1|rewrite (str_eqb_refl E Hlen Hfuel Hdec) in E2|rewrite (str_eqb_refl E Hlen Hfuel Hdec) in E3|rewrite (str_eqb_refl E Hlen Hfuel Hdec) in E4];
          discriminate.
Qed.

End WithEnv.
