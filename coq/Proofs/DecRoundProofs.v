(* Decimal.Round is rounding half away from zero; Decimal.Div by 1000 is exact for amounts
   with at most 13 decimals.  Integer arithmetic at a common scale (no rationals). *)
From Coq Require Import ZArith List Bool Lia.
From Knut Require Import Model.Str Model.Dec Model.Table Spec.TableSpec Proofs.DecProofs.
Import ListNotations.
Open Scope bool_scope.
Open Scope Z_scope.
Ltac Zify.zify_post_hook ::= Z.div_mod_to_equations.

Lemma p10_pos k : 0 <= k -> 0 < 10 ^ k.
Proof. intros H. apply Z.pow_pos_nonneg; lia. Qed.

Lemma p10_succ k : 0 <= k -> 10 ^ (k + 1) = 10 * 10 ^ k.
Proof. intros H. rewrite Z.pow_add_r by lia. change (10 ^ 1) with 10. ring. Qed.

(* ------------------------------------------------------------------ the last step of Round *)
Definition rnd10 (c : Z) : Z :=
  let v := if c <? 0 then c - 5 else c + 5 in
  let q := v / 10 in
  let m := v mod 10 in
  if (q <? 0) && negb (m =? 0) then q + 1 else q.

Lemma rnd10_spec c : rnd10 c = Z.sgn c * ((Z.abs c + 5) / 10).
Proof.
  unfold rnd10.
  destruct (c <? 0) eqn:Hc.
  - apply Z.ltb_lt in Hc.
    replace (Z.sgn c) with (-1) by lia.
    destruct ((c - 5) / 10 <? 0) eqn:Hq; destruct ((c - 5) mod 10 =? 0) eqn:Hm; cbn [andb negb]; lia.
  - apply Z.ltb_ge in Hc.
    destruct ((c + 5) / 10 <? 0) eqn:Hq; [lia|]. cbn [andb].
    destruct (Z.eq_dec c 0) as [->|Hn]; [reflexivity|].
    replace (Z.sgn c) with 1 by lia. rewrite Z.abs_eq by lia. lia.
Qed.

Lemma ex_rescale d e : ex (rescale d e) = e.
Proof.
  unfold rescale. destruct (ex d =? e) eqn:E; [apply Z.eqb_eq in E; exact E|].
  destruct (ex d <? e); reflexivity.
Qed.

Lemma round_unfold d p :
  ex d <> - p -> round d p = mkDec (rnd10 (coef (rescale d (- p - 1)))) (- p).
Proof.
  intros H. unfold round. replace (ex d =? - p) with false by lia.
  rewrite ex_rescale. unfold rnd10. f_equal. lia.
Qed.

(* ------------------------------------------------------------------ Round = the specification *)
Lemma half_up_scaled a T :
  0 <= a -> 0 < T -> (a / T + 5) / 10 = (2 * a + 10 * T) / (2 * (10 * T)).
Proof.
  intros Ha HT.
  replace (2 * a + 10 * T) with (2 * (a + 5 * T)) by ring.
  rewrite Z.div_mul_cancel_l by lia.
  rewrite <- (Z.div_add a 5 T) by lia.
  rewrite Z.div_div by lia. rewrite (Z.mul_comm T 10). reflexivity.
Qed.

Theorem round_eq_haz d p : round d p = round_haz d p.
Proof.
  destruct (Z.eq_dec (ex d) (- p)) as [He|He].
  - (* nothing to round *)
    unfold round, round_haz, coef_at. replace (ex d =? - p) with true by lia.
    rewrite He, Z.min_id, !Z.sub_diag. change (10 ^ 0) with 1. rewrite Z.mul_1_r.
    destruct d as [c e]. cbn [coef ex] in *. subst e. f_equal.
    replace ((2 * Z.abs c + 1) / (2 * 1)) with (Z.abs c) by lia. lia.
  - rewrite round_unfold by exact He. unfold round_haz. f_equal.
    rewrite rnd10_spec.
    destruct (Z_lt_ge_dec (ex d) (- p - 1)) as [Hlt|Hge].
    + (* digits are dropped: rescale truncates *)
      replace (Z.min (ex d) (- p)) with (ex d) by lia.
      unfold coef_at. rewrite Z.sub_diag. change (10 ^ 0) with 1. rewrite Z.mul_1_r.
      unfold rescale. replace (ex d =? - p - 1) with false by lia.
      replace (ex d <? - p - 1) with true by lia. cbn [coef].
      replace (Z.abs (- p - 1 - ex d)) with (- p - 1 - ex d) by lia.
      unfold pow10.
      replace (- p - ex d) with ((- p - 1 - ex d) + 1) by ring.
      rewrite p10_succ by lia.
      pose proof (p10_pos (- p - 1 - ex d) ltac:(lia)) as HT.
      set (T := 10 ^ (- p - 1 - ex d)) in *.
      set (D := coef d).
      rewrite <- (half_up_scaled (Z.abs D) T) by lia.
      assert (Habs : Z.abs (D ÷ T) = Z.abs D / T).
      { rewrite <- Z.quot_abs by lia. rewrite (Z.abs_eq T) by lia.
        apply Z.quot_div_nonneg; lia. }
      rewrite Habs.
      destruct (Z.eq_dec (Z.abs D / T) 0) as [Hz|Hnz].
      * rewrite Hz. change ((0 + 5) / 10) with 0. lia.
      * assert (Hs : Z.sgn (D ÷ T) = Z.sgn D).
        { destruct (Z_lt_ge_dec D 0) as [Hn|Hp].
          - assert (D ÷ T <= 0).
            { rewrite <- (Z.opp_involutive D), Z.quot_opp_l by lia.
              pose proof (Z.quot_pos (- D) T ltac:(lia) HT). lia. }
            lia.
          - assert (0 <= D ÷ T) by (apply Z.quot_pos; lia). lia. }
        rewrite Hs. reflexivity.
    + (* no digit is dropped: rescale multiplies *)
      rewrite (rescale_down d (- p - 1)) by lia. cbn [coef]. unfold scale_to, pow10.
      destruct (Z.eq_dec (ex d) (- p - 1)) as [E1|E1].
      * replace (Z.min (ex d) (- p)) with (ex d) by lia.
        unfold coef_at. rewrite Z.sub_diag.
        replace (ex d - (- p - 1)) with 0 by lia.
        replace (- p - ex d) with 1 by lia.
        change (10 ^ 0) with 1. change (10 ^ 1) with 10. rewrite Z.mul_1_r.
        set (D := coef d).
        replace ((2 * Z.abs D + 10) / (2 * 10)) with ((Z.abs D + 5) / 10) by lia.
        reflexivity.
      * replace (Z.min (ex d) (- p)) with (- p) by lia.
        unfold coef_at. rewrite Z.sub_diag. change (10 ^ 0) with 1.
        replace (ex d - (- p - 1)) with ((ex d - - p) + 1) by ring.
        rewrite p10_succ by lia.
        pose proof (p10_pos (ex d - - p) ltac:(lia)) as HT.
        set (D := coef d * 10 ^ (ex d - - p)).
        replace (coef d * (10 * 10 ^ (ex d - - p))) with (10 * D) by (unfold D; ring).
        replace (Z.sgn (10 * D)) with (Z.sgn D) by lia.
        replace ((Z.abs (10 * D) + 5) / 10) with (Z.abs D) by lia.
        replace ((2 * Z.abs D + 1) / (2 * 1)) with (Z.abs D) by lia.
        reflexivity.
Qed.

(* the executable specification satisfies the declarative one *)
Theorem round_haz_is_round d p : is_round_haz d p (round_haz d p).
Proof.
  unfold is_round_haz, round_haz. cbn [coef ex]. split; [reflexivity|].
  cbv zeta.
  pose proof (p10_pos (- p - Z.min (ex d) (- p)) ltac:(lia)) as HU.
  set (U := 10 ^ (- p - Z.min (ex d) (- p))) in *.
  set (D := coef_at d (Z.min (ex d) (- p))).
  pose proof (Z.div_mod (2 * Z.abs D + U) (2 * U) ltac:(lia)) as Hdm.
  pose proof (Z.mod_pos_bound (2 * Z.abs D + U) (2 * U) ltac:(lia)) as Hb.
  set (q := (2 * Z.abs D + U) / (2 * U)) in *.
  set (r := (2 * Z.abs D + U) mod (2 * U)) in *.
  assert (HW : exists W, W = q * U) by (eexists; reflexivity).
  destruct HW as [W HW].
  replace (2 * U * q) with (2 * W) in Hdm by (rewrite HW; ring).
  destruct (Z_lt_ge_dec D 0) as [Hn|Hp].
  - replace (Z.sgn D) with (-1) by lia.
    replace (-1 * q * U) with (- W) by (rewrite HW; ring).
    clearbody q r U. lia.
  - destruct (Z.eq_dec D 0) as [Hz|Hnz].
    + replace (Z.sgn D) with 0 by lia. rewrite !Z.mul_0_l.
      clearbody q r U. lia.
    + replace (Z.sgn D) with 1 by lia.
      replace (1 * q * U) with W by (rewrite HW; ring).
      clearbody q r U. lia.
Qed.

(* Decimal.Round: half away from zero (brief's round_spec) *)
Theorem round_spec d p : is_round_haz d p (round d p).
Proof. rewrite round_eq_haz. apply round_haz_is_round. Qed.

Lemma ex_round d p : ex (round d p) = - p.
Proof. rewrite round_eq_haz. reflexivity. Qed.

(* the declarative specification determines the result *)
Theorem is_round_haz_unique d p r1 r2 : is_round_haz d p r1 -> is_round_haz d p r2 -> r1 = r2.
Proof.
  unfold is_round_haz. cbv zeta.
  pose proof (p10_pos (- p - Z.min (ex d) (- p)) ltac:(lia)) as HU.
  set (U := 10 ^ (- p - Z.min (ex d) (- p))) in *.
  set (D := coef_at d (Z.min (ex d) (- p))).
  intros [E1 [B1 T1]] [E2 [B2 T2]].
  destruct r1 as [c1 e1], r2 as [c2 e2]. cbn [coef ex] in *. subst e1 e2. f_equal.
  clearbody U D.
  assert (H : c1 * U = c2 * U \/ c1 * U <> c2 * U) by lia.
  destruct H as [H|H]; [apply (Z.mul_reg_r _ _ U); lia|]. exfalso.
  (* two distinct multiples of U both within U/2 of D: they are D - U/2 and D + U/2, both
     ties; but a tie must be the one of larger magnitude, on one side only *)
  assert (Hne : c1 <> c2) by (intros ->; apply H; reflexivity).
  assert (Hclose : Z.abs (c1 * U - c2 * U) <= U) by lia.
  assert (Hc : c2 = c1 + 1 \/ c1 = c2 + 1).
  { replace (c1 * U - c2 * U) with ((c1 - c2) * U) in Hclose by ring.
    destruct (Z_le_gt_dec 2 (c1 - c2)) as [G|G]; [exfalso; nia|].
    destruct (Z_le_gt_dec (c1 - c2) (-2)) as [G'|G']; [exfalso; nia|]. lia. }
  destruct Hc as [-> | ->].
  - replace ((c1 + 1) * U) with (c1 * U + U) in * by ring.
    set (W := c1 * U) in *. assert (HW : W = c1 * U) by reflexivity. clearbody W.
    assert (HA : 2 * Z.abs (D - W) = U) by lia.
    assert (HB : 2 * Z.abs (D - (W + U)) = U) by lia.
    specialize (T1 HA). specialize (T2 HB).
    assert (- U < W < 0) by lia. destruct (Z_le_gt_dec 0 c1); nia.
  - replace ((c2 + 1) * U) with (c2 * U + U) in * by ring.
    set (W := c2 * U) in *. assert (HW : W = c2 * U) by reflexivity. clearbody W.
    assert (HA : 2 * Z.abs (D - (W + U)) = U) by lia.
    assert (HB : 2 * Z.abs (D - W) = U) by lia.
    specialize (T1 HA). specialize (T2 HB).
    assert (- U < W < 0) by lia. destruct (Z_le_gt_dec 0 c2); nia.
Qed.

(* ------------------------------------------------------------------ value equivalence *)
Lemma dec_eqv_refl d : dec_eqv d d.
Proof. reflexivity. Qed.

Lemma dec_eqv_sym a b : dec_eqv a b -> dec_eqv b a.
Proof. unfold dec_eqv. rewrite (Z.min_comm (ex b) (ex a)). intros H. symmetry. exact H. Qed.

Lemma dec_eqv_b_true a b : dec_eqv_b a b = true <-> dec_eqv a b.
Proof. unfold dec_eqv_b, dec_eqv. apply Z.eqb_eq. Qed.

(* rounding depends on the value only, not on the representation *)
Lemma round_haz_eqv_le a b p : ex a <= ex b -> dec_eqv a b -> round_haz a p = round_haz b p.
Proof.
  intros Hle Heq. unfold dec_eqv in Heq. rewrite Z.min_l in Heq by lia.
  unfold coef_at in Heq. rewrite Z.sub_diag in Heq. change (10 ^ 0) with 1 in Heq.
  rewrite Z.mul_1_r in Heq.
  unfold round_haz. f_equal.
  set (ma := Z.min (ex a) (- p)). set (mb := Z.min (ex b) (- p)).
  assert (Hm : ma <= mb) by (unfold ma, mb; lia).
  pose proof (p10_pos (mb - ma) ltac:(lia)) as HJ.
  pose proof (p10_pos (- p - mb) ltac:(unfold mb; lia)) as HUb.
  assert (HU : 10 ^ (- p - ma) = 10 ^ (- p - mb) * 10 ^ (mb - ma)).
  { rewrite <- Z.pow_add_r by (unfold ma, mb; lia). f_equal. ring. }
  assert (HD : coef_at a ma = coef_at b mb * 10 ^ (mb - ma)).
  { unfold coef_at. rewrite Heq. rewrite <- !Z.mul_assoc. f_equal.
    rewrite <- !Z.pow_add_r by (unfold ma, mb; lia). f_equal. ring. }
  rewrite HU, HD.
  set (J := 10 ^ (mb - ma)) in *. set (Ub := 10 ^ (- p - mb)) in *. set (Db := coef_at b mb).
  replace (Z.sgn (Db * J)) with (Z.sgn Db) by nia.
  f_equal.
  rewrite Z.abs_mul, (Z.abs_eq J) by lia.
  replace (2 * (Z.abs Db * J) + Ub * J) with ((2 * Z.abs Db + Ub) * J) by ring.
  replace (2 * (Ub * J)) with ((2 * Ub) * J) by ring.
  apply Z.div_mul_cancel_r; lia.
Qed.

Theorem round_haz_eqv a b p : dec_eqv a b -> round_haz a p = round_haz b p.
Proof.
  intros H. destruct (Z_le_gt_dec (ex a) (ex b)) as [Hle|Hgt].
  - apply round_haz_eqv_le; assumption.
  - symmetry. apply round_haz_eqv_le; [lia|apply dec_eqv_sym; exact H].
Qed.

(* ------------------------------------------------------------------ division by 1000 *)
(* TextRenderer.numToString under --thousands: d.Div(1000) = DivRound(d, 1000, 16).  For an
   amount with at most 13 decimals the quotient is exact. *)
Theorem div1000_exact d :
  - ex d <= 13 ->
  div d k1000 = DOk (mkDec (coef d * 10 ^ (ex d + 13)) (- 16)) /\
  dec_eqv (mkDec (coef d * 10 ^ (ex d + 13)) (- 16)) (div1000 d).
Proof.
  intros H. split.
  - unfold div, div_round, quo_rem, division_precision, k1000, of_int. cbn [coef ex].
    change (1000 =? 0) with false. cbv iota.
    destruct (ex d - 0 - - (16) <? 0) eqn:E; [lia|]. clear E.
    unfold pow10.
    replace (ex d - 0 - - (16)) with ((ex d + 13) + 3) by ring.
    rewrite Z.pow_add_r by lia. change (10 ^ 3) with 1000.
    rewrite Z.mul_assoc.
    rewrite Z.quot_mul by lia. rewrite Z.rem_mul by lia.
    cbn [coef ex]. change (Z.abs 0 * 2) with 0.
    reflexivity.
  - unfold dec_eqv, div1000, coef_at. cbn [coef ex].
    replace (Z.min (-16) (ex d - 3)) with (-16) by lia.
    rewrite Z.sub_diag. change (10 ^ 0) with 1. rewrite Z.mul_1_r.
    f_equal. f_equal. ring.
Qed.

(* k1000 is not zero: numToString never panics *)
Lemma div_k1000_no_panic d : div d k1000 <> DPanic.
Proof.
  unfold div, div_round, quo_rem, k1000, of_int. cbn [coef ex]. change (1000 =? 0) with false.
  cbv iota.
  destruct (ex d - 0 - - division_precision <? 0); cbv zeta;
    repeat match goal with |- context [if ?c then _ else _] => destruct c end; discriminate.
Qed.
