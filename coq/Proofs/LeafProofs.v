(* C07, lexical classes of the leaves: a successful parse returns a tree whose every leaf is in
   its class, as the EXECUTABLE Spec/LeafSpec.v states it ([wf_leaves_b]).

   Part 1 (any decoder with [decoder_ok]): a string that is a sequence of chunks decodes
   ([decodes w rs -> runes w = Some rs]), and each lexical class of Proofs/RoundTripLeaf.v
   (predicates recording what the scanner consumed) implies the regular expression of
   Spec/LeafSpec.v over the decoded runes.
   Part 2: the inversion of the parser.  The leaf lemmas [i_date], [i_account], ... and the
   composite ones of Proofs/RoundTripInv.v are reused; new here are the quoted string with its
   two quote bytes, the addons kept for every transaction, and a generic induction over
   parseFile's loop.  No hypothesis on the classification of letters and digits is needed:
   the classes are regular expressions in terms of that classification.                     *)
From Coq Require Import ZArith List Bool Lia ZifyBool.
From Knut Require Import Model.Bytes Model.Utf8 Model.Scanner Model.Parser Spec.SyntaxSpec Spec.FormatSpec
  Spec.LeafSpec Proofs.ScannerProofs Proofs.ParserProofs Proofs.RoundTripBase Proofs.RoundTripLeaf
  Proofs.RoundTripInv.
Import ListNotations.
Open Scope bool_scope.
Open Scope Z_scope.

(* ================================================================== part 1: classes *)

Section Dec.
Variable dec : str -> Z * Z.
Hypothesis Hdec : decoder_ok dec.
Variables letter digit : Z -> bool.

Notation chunk := (chunk dec).
Notation cls := (cls dec).
Notation fr := (fr dec).
Notation runes := (runes dec).
Notation in_class := (in_class dec).

Inductive decodes : str -> list Z -> Prop :=
| decodes_nil : decodes [] []
| decodes_cons c b x rs : chunk c b -> decodes x rs -> decodes (b ++ x) (c :: rs).

Lemma decodes_fuel w rs : decodes w rs -> forall n, (length w <= n)%nat -> runes_fuel dec n w = Some rs.
Proof using.
  induction 1 as [|c b x rs Hc Hx IH]; intros n Hn.
  - destruct n; reflexivity.
  - pose proof Hc as (Hne & Hd & Hv). pose proof (chunk_len dec c b Hc) as Hl.
    destruct b as [|b0 b']; [congruence|].
    rewrite app_length in Hn. cbn [length] in Hn.
    destruct n as [|n]; [lia|].
    cbn [app runes_fuel]. change (b0 :: b' ++ x) with ((b0 :: b') ++ x). rewrite (Hd x).
    assert (H1 : (zlen (b0 :: b') <? 1) = false) by lia. rewrite H1. cbn [orb].
    assert (H2 : (c =? rune_error) && (zlen (b0 :: b') =? 1) = false).
    { destruct (Z.eqb_spec c rune_error) as [Hc1|Hc1]; [|reflexivity].
      destruct (Z.eqb_spec (zlen (b0 :: b')) 1) as [Hc2|Hc2]; [|reflexivity]. exfalso. apply Hv. auto. }
    rewrite H2. rewrite skipn_zlen_app. rewrite IH by lia. reflexivity.
Qed.

Lemma decodes_runes w rs : decodes w rs -> runes w = Some rs.
Proof using. intros H. unfold LeafSpec.runes. apply decodes_fuel; [assumption|lia]. Qed.

Lemma decodes_in_class (c : list Z -> bool) w rs : decodes w rs -> c rs = true -> in_class c w = true.
Proof using. intros H Hc. unfold LeafSpec.in_class. now rewrite (decodes_runes w rs H). Qed.

Lemma decodes_app x y a b : decodes x a -> decodes y b -> decodes (x ++ y) (a ++ b).
Proof using.
  induction 1 as [|c b0 x0 rs Hc Hx IH]; intros Hy; [exact Hy|].
  rewrite <- app_assoc. cbn [app]. constructor; auto.
Qed.

Lemma decodes_nil_inv w : decodes w [] -> w = [].
Proof using. intros H. inversion H. reflexivity. Qed.

Lemma decodes_fr w c rs : decodes w (c :: rs) -> fr w = c.
Proof using. intros H. inversion H as [|c' b x rs' Hc Hx]. subst. now apply fr_chunk. Qed.

Lemma decodes_nonnil w rs : decodes w rs -> w <> [] -> nonnil rs = true.
Proof using. intros H Hne. destruct rs; [apply decodes_nil_inv in H; congruence|reflexivity]. Qed.

Lemma cls_decodes p w : cls p w -> exists rs, decodes w rs /\ forallb p rs = true.
Proof using.
  induction 1 as [|c b x Hc Hp Hx (rs & Hr & Hf)].
  - exists []. split; [constructor|reflexivity].
  - exists (c :: rs). split; [now constructor|]. cbn [forallb]. now rewrite Hp, Hf.
Qed.

Lemma digs_decodes k w : digs dec digit k w ->
  exists rs, decodes w rs /\ length rs = k /\ forallb digit rs = true.
Proof using.
  induction 1 as [|k c b x Hc Hp Hx (rs & Hr & Hl & Hf)].
  - exists []. split; [constructor|]. split; reflexivity.
  - exists (c :: rs). split; [now constructor|]. cbn [length forallb]. rewrite Hp, Hf, Hl. split; reflexivity.
Qed.

Lemma ascii_decodes x : Forall ascii x -> decodes x x.
Proof using Hdec.
  induction 1 as [|a l Ha Hl IH]; [constructor|].
  change (a :: l) with ([a] ++ l). constructor; [|exact IH]. apply chunk_ascii; assumption.
Qed.

(* ---- patterns ---- *)

Lemma match_pat_app p1 r1 p2 r2 :
  match_pat p1 r1 = true -> match_pat p2 r2 = true -> match_pat (p1 ++ p2) (r1 ++ r2) = true.
Proof using.
  revert r1. induction p1 as [|p p1 IH]; intros [|c r1] H1 H2; cbn [match_pat app] in *; try discriminate; [exact H2|].
  apply andb_true_iff in H1. destruct H1 as (Hp & H1). rewrite Hp. cbn [andb]. now apply IH.
Qed.

Lemma match_pat_repeat (p : Z -> bool) rs : forallb p rs = true -> match_pat (repeat p (length rs)) rs = true.
Proof using.
  induction rs as [|c rs IH]; intros H; cbn [length repeat match_pat forallb] in *; [reflexivity|].
  apply andb_true_iff in H. destruct H as (Hp & H). rewrite Hp. cbn [andb]. now apply IH.
Qed.

(* ---- date ---- *)

Lemma date_class w : lex_date dec digit w -> in_class (date_rs digit) w = true.
Proof using Hdec.
  intros (y & m & d & -> & Hy & Hm & Hd).
  destruct (digs_decodes _ _ Hy) as (ry & Dy & Ly & Fy).
  destruct (digs_decodes _ _ Hm) as (rm & Dm & Lm & Fm).
  destruct (digs_decodes _ _ Hd) as (rd & Dd & Ld & Fd).
  assert (D45 : decodes [45] [45]) by (apply ascii_decodes; repeat constructor; unfold ascii; lia).
  apply (decodes_in_class _ _ (ry ++ [45] ++ rm ++ [45] ++ rd)).
  - change (45 :: m ++ 45 :: d) with ([45] ++ m ++ [45] ++ d).
    repeat (apply decodes_app; try assumption).
  - unfold date_rs, date_pat.
    change [digit; digit; digit; digit; is_b 45; digit; digit; is_b 45; digit; digit]
      with (repeat digit 4 ++ [is_b 45] ++ repeat digit 2 ++ [is_b 45] ++ repeat digit 2).
    pose proof (match_pat_repeat digit ry Fy) as My. rewrite Ly in My.
    pose proof (match_pat_repeat digit rm Fm) as Mm. rewrite Lm in Mm.
    pose proof (match_pat_repeat digit rd Fd) as Md. rewrite Ld in Md.
    apply match_pat_app; [exact My|]. apply (match_pat_app [is_b 45] [45]); [reflexivity|].
    apply match_pat_app; [exact Mm|]. apply (match_pat_app [is_b 45] [45]); [reflexivity|]. exact Md.
Qed.

(* ---- commodity ---- *)

Lemma commodity_class w : lex_commodity dec letter digit w -> in_class (commodity_rs letter digit) w = true.
Proof using.
  intros (Hc & Hne). destruct (cls_decodes _ _ Hc) as (rs & Dr & Fr).
  apply (decodes_in_class _ _ rs Dr). unfold commodity_rs.
  rewrite (decodes_nonnil _ _ Dr Hne). exact Fr.
Qed.

(* ---- decimal ---- *)

Lemma frac_ok : forall ip seen fp, forallb digit ip = true -> (ip = [] -> seen = true) ->
  (fp = [] \/ exists f, fp = 46 :: f /\ nonnil f = true /\ forallb digit f = true) ->
  frac_b digit seen (ip ++ fp) = true.
Proof using.
  induction ip as [|c ip IH]; intros seen fp Hd Hs Hfp.
  - rewrite (Hs eq_refl). cbn [app]. destruct Hfp as [->|(f & -> & Hn & Hf)]; [reflexivity|].
    cbn [frac_b]. rewrite Hn, Hf. reflexivity.
  - cbn [forallb] in Hd. apply andb_true_iff in Hd. destruct Hd as (Hc & Hd).
    cbn [app frac_b]. rewrite Hc, (IH true fp Hd (fun _ => eq_refl) Hfp). apply orb_true_r.
Qed.

Lemma decimal_class w : lex_decimal dec digit w -> in_class (decimal_rs digit) w = true.
Proof using Hdec.
  intros (sg & ip & fp & -> & Hsg & Hip & Hipne & Hfp).
  destruct (cls_decodes _ _ Hip) as (ri & Di & Fi).
  assert (Hfr : exists rf, decodes fp rf /\
            (rf = [] \/ exists f, rf = 46 :: f /\ nonnil f = true /\ forallb digit f = true)).
  { destruct Hfp as [->|(_ & f & -> & Hf & Hfne)].
    - exists []. split; [constructor|now left].
    - destruct (cls_decodes _ _ Hf) as (rf & Df & Ff). exists (46 :: rf). split.
      + change (46 :: f) with ([46] ++ f). change (46 :: rf) with ([46] ++ rf).
        apply decodes_app; [|exact Df]. apply ascii_decodes. repeat constructor. unfold ascii. lia.
      + right. exists rf. split; [reflexivity|]. split; [|exact Ff]. now apply (decodes_nonnil f). }
  destruct Hfr as (rf & Df & Hrf).
  assert (Hbody : frac_b digit false (ri ++ rf) = true).
  { apply frac_ok; [exact Fi| |exact Hrf]. intros ->. apply decodes_nil_inv in Di. congruence. }
  destruct Hsg as [->|(-> & _)].
  - apply (decodes_in_class _ _ ([45] ++ ri ++ rf)).
    + apply decodes_app; [|now apply decodes_app]. apply ascii_decodes. repeat constructor. unfold ascii. lia.
    + unfold decimal_rs. cbn [app]. rewrite Hbody, Z.eqb_refl. apply orb_true_r.
  - apply (decodes_in_class _ _ (ri ++ rf)).
    + cbn [app]. now apply decodes_app.
    + unfold decimal_rs. now rewrite Hbody.
Qed.

(* ---- account ---- *)

Notation alnum_b := (alnum_b letter digit).
Notation segs_b := (segs_b letter digit).

Lemma segs_run : forall x seen rest, segs_b true rest = true -> forallb alnum_b x = true ->
  (x = [] -> seen = true) -> segs_b seen (x ++ rest) = true.
Proof using.
  induction x as [|c x IH]; intros seen rest Hr Hx Hs.
  - now rewrite (Hs eq_refl).
  - cbn [forallb] in Hx. apply andb_true_iff in Hx. destruct Hx as (Hc & Hx).
    cbn [app LeafSpec.segs_b]. rewrite Hc, (IH true rest Hr Hx (fun _ => eq_refl)). apply orb_true_r.
Qed.

Definition seg_rs (x : list Z) : Prop := nonnil x = true /\ forallb alnum_b x = true.

Lemma segs_tail : forall l, Forall seg_rs l -> segs_b true (concat (map (cons 58) l)) = true.
Proof using.
  induction 1 as [|x l (Hn & Hx) Hl IH]; [reflexivity|].
  cbn [map concat app LeafSpec.segs_b]. rewrite Z.eqb_refl. cbn [andb].
  rewrite (segs_run x false _ IH Hx); [reflexivity|]. intros ->. discriminate.
Qed.

Lemma segs_decodes segs : Forall (seg_ok dec letter digit) segs ->
  exists l, decodes (concat (map (cons 58) segs)) (concat (map (cons 58) l)) /\ Forall seg_rs l.
Proof using Hdec.
  induction 1 as [|x segs (Hx & Hne) Hs (l & Dl & Fl)].
  - exists []. split; constructor.
  - destruct (cls_decodes _ _ Hx) as (rx & Dx & Fx). exists (rx :: l). split.
    + cbn [map concat]. change (58 :: x) with ([58] ++ x). change (58 :: rx) with ([58] ++ rx).
      rewrite <- !app_assoc. apply decodes_app; [|now apply decodes_app].
      apply ascii_decodes. repeat constructor. unfold ascii. lia.
    + constructor; [|exact Fl]. split; [now apply (decodes_nonnil x)|exact Fx].
Qed.

Lemma account_class w macro : lex_account dec letter digit w macro ->
  in_class (account_rs letter digit macro) w = true.
Proof using Hdec.
  destruct macro; cbn [lex_account].
  - intros (l & -> & Hl & Hne). destruct (cls_decodes _ _ Hl) as (rl & Dl & Fl).
    apply (decodes_in_class _ _ ([36] ++ rl)).
    + change (36 :: l) with ([36] ++ l). apply decodes_app; [|exact Dl].
      apply ascii_decodes. repeat constructor. unfold ascii. lia.
    + cbn [app account_rs]. rewrite Z.eqb_refl, (decodes_nonnil _ _ Dl Hne), Fl. reflexivity.
  - intros (H36 & seg & segs & -> & (Hseg & Hsegne) & Hsegs & _).
    destruct (cls_decodes _ _ Hseg) as (rs & Ds & Fs).
    destruct (segs_decodes segs Hsegs) as (l & Dl & Fl).
    pose proof (decodes_app _ _ _ _ Ds Dl) as D.
    apply (decodes_in_class _ _ _ D). cbn [account_rs].
    destruct rs as [|c rs]; [apply decodes_nil_inv in Ds; congruence|].
    cbn [app] in D |- *. rewrite (decodes_fr _ _ _ D) in H36.
    assert (Hc : negb (c =? 36) = true) by lia. rewrite Hc. cbn [andb].
    change (c :: rs ++ concat (map (cons 58) l)) with ((c :: rs) ++ concat (map (cons 58) l)).
    apply segs_run; [now apply segs_tail|exact Fs|discriminate].
Qed.

(* ---- quoted content, interval ---- *)

Lemma quoted_class c : lex_quoted dec c -> in_class (forallb notquote_b) c = true.
Proof using.
  intros H. destruct (cls_decodes _ _ H) as (rs & Dr & Fr). now apply (decodes_in_class _ _ rs Dr).
Qed.

Lemma str_eqb_refl x : str_eqb x x = true.
Proof using. now apply str_eqb_eq. Qed.

Lemma interval_class w : lex_interval w ->
  existsb (str_eqb w) [kw_daily; kw_weekly; kw_monthly; kw_quarterly] = true.
Proof using.
  unfold lex_interval. cbn [In existsb].
  intros [<-|[<-|[<-|[<-|[]]]]]; rewrite str_eqb_refl; rewrite ?orb_true_r; reflexivity.
Qed.

End Dec.

(* ================================================================== part 2: the parser *)

Section WithEnv.
Variable E : env.
Hypothesis Hlen : e_len E = Z.of_nat (length (e_text E)).
Hypothesis Hfuel : (length (e_text E) < e_fuel E)%nat.
Hypothesis Hdec : decoder_ok (e_decode E).
Hypothesis Hloc : decoder_local (e_decode E).

Notation t := (e_text E).
Notation dec := (e_decode E).
Notation letter := (e_letter E).
Notation digit := (e_digit E).
Notation VInv := (VInv E).
Notation ipost := (@ipost E _).
Notation AdLex := (AdLex E).
Notation LexBooking := (LexBooking dec letter digit).
Notation LexBal := (LexBal dec letter digit).
Notation LexAcc := (LexAcc dec letter digit).
Notation LexAccrual := (LexAccrual dec letter digit).

Notation leaf_date := (leaf_date dec digit t).
Notation leaf_decimal := (leaf_decimal dec digit t).
Notation leaf_commodity := (leaf_commodity dec letter digit t).
Notation leaf_account := (leaf_account dec letter digit t).
Notation leaf_interval := (leaf_interval t).
Notation leaf_quoted := (leaf_quoted dec t).
Notation leaves_booking := (leaves_booking dec letter digit t).
Notation leaves_balance := (leaves_balance dec letter digit t).
Notation leaves_accrual := (leaves_accrual dec letter digit t).
Notation leaves_addons := (leaves_addons dec letter digit t).
Notation leaves_body := (leaves_body dec letter digit t).
Notation leaves_directive := (leaves_directive dec letter digit t).

Local Notation ipost_bind := (@RoundTripLeaf.ipost_bind E Hlen Hfuel Hdec Hloc _ _).
Local Notation ipost_annot := (@RoundTripLeaf.ipost_annot E Hlen Hfuel Hdec Hloc _).
Local Notation ipost_ret := (@RoundTripLeaf.ipost_ret E Hlen Hfuel Hdec Hloc _).
Local Notation ipost_ret_with := (@RoundTripLeaf.ipost_ret_with E Hlen Hfuel Hdec Hloc _).
Local Notation ipost_weaken := (@RoundTripLeaf.ipost_weaken E Hlen Hfuel Hdec Hloc _).
Local Notation i_rw := (RoundTripLeaf.i_rw E Hlen Hfuel Hdec Hloc).
Local Notation i_rc := (RoundTripLeaf.i_rc E Hlen Hfuel Hdec Hloc).
Local Notation i_rs := (RoundTripLeaf.i_rs E Hlen Hfuel Hdec Hloc).
Local Notation i_ra := (RoundTripLeaf.i_ra E Hlen Hfuel Hdec Hloc).
Local Notation i_ws1 := (RoundTripLeaf.i_ws1 E Hlen Hfuel Hdec Hloc).
Local Notation i_rest := (RoundTripLeaf.i_rest E Hlen Hfuel Hdec Hloc).
Local Notation i_comment := (RoundTripLeaf.i_comment E Hlen Hfuel Hdec Hloc).
Local Notation i_date := (RoundTripLeaf.i_date E Hlen Hfuel Hdec Hloc).
Local Notation i_addons := (RoundTripInv.i_addons E Hlen Hfuel Hdec Hloc).
Local Notation i_open := (RoundTripInv.i_open E Hlen Hfuel Hdec Hloc).
Local Notation i_close := (RoundTripInv.i_close E Hlen Hfuel Hdec Hloc).
Local Notation i_assertion := (RoundTripInv.i_assertion E Hlen Hfuel Hdec Hloc).
Local Notation i_price := (RoundTripInv.i_price E Hlen Hfuel Hdec Hloc).
Local Notation i_bookings_loop := (RoundTripInv.i_bookings_loop E Hlen Hfuel Hdec Hloc).
Local Notation win_slice := (RoundTripBase.win_slice E Hlen Hfuel Hdec Hloc).

Tactic Notation "istep" uconstr(L) "as" simple_intropattern(xpat) ident(s1) ident(HV) ident(Hle) simple_intropattern(HQ) :=
  eapply ipost_bind; [ eapply L; eauto | lia | intros xpat s1 HV Hle; cbv beta; intros HQ ].

(* ---- from the classes of the meaning to the executable leaf checks ---- *)

Lemma acc_leaf a : LexAcc (sem_acc t a) -> leaf_account a = true.
Proof using Hdec. intros H. unfold LeafSpec.leaf_account. now apply account_class. Qed.

Lemma booking_leaves b : LexBooking (sem_of_booking t b) -> leaves_booking b = true.
Proof using Hdec.
  intros (Hc & Hd & Hq & Hm). unfold sem_of_booking in Hc, Hd, Hq, Hm.
  cbn [sb_credit sb_debit sb_quantity sb_commodity] in Hc, Hd, Hq, Hm. unfold LeafSpec.leaves_booking.
  rewrite (acc_leaf _ Hc), (acc_leaf _ Hd). cbn [andb].
  unfold LeafSpec.leaf_decimal, LeafSpec.leaf_commodity.
  rewrite (decimal_class dec Hdec digit _ Hq), (commodity_class dec letter digit _ Hm). reflexivity.
Qed.

Lemma balance_leaves b : LexBal (sem_of_balance t b) -> leaves_balance b = true.
Proof using Hdec.
  intros (Ha & Hq & Hm). unfold sem_of_balance in Ha, Hq, Hm. cbn [fst snd] in Ha, Hq, Hm.
  unfold LeafSpec.leaves_balance.
  rewrite (acc_leaf _ Ha). cbn [andb].
  unfold LeafSpec.leaf_decimal, LeafSpec.leaf_commodity.
  rewrite (decimal_class dec Hdec digit _ Hq), (commodity_class dec letter digit _ Hm). reflexivity.
Qed.

Lemma bookings_leaves bs : Forall LexBooking (map (sem_of_booking t) bs) -> forallb leaves_booking bs = true.
Proof using Hdec.
  induction bs as [|b bs IH]; intros H; [reflexivity|]. cbn [map] in H. inversion H as [|? ? Hb Hbs]. subst.
  cbn [forallb]. now rewrite (booking_leaves b Hb), IH.
Qed.

Lemma balances_leaves bs : Forall LexBal (map (sem_of_balance t) bs) -> forallb leaves_balance bs = true.
Proof using Hdec.
  induction bs as [|b bs IH]; intros H; [reflexivity|]. cbn [map] in H. inversion H as [|? ? Hb Hbs]. subst.
  cbn [forallb]. now rewrite (balance_leaves b Hb), IH.
Qed.

Lemma addons_leaves ad : AdLex ad -> leaves_addons ad = true.
Proof using Hdec.
  intros (Hp & Ha). unfold LeafSpec.leaves_addons. apply andb_true_iff. split.
  - apply forallb_forall. intros r Hr. rewrite Forall_forall in Hp. specialize (Hp r Hr).
    unfold LeafSpec.leaf_commodity. now apply commodity_class.
  - unfold LeafSpec.leaves_accrual. destruct Ha as [->|(Hi & Hs & He & Hacc)]; [reflexivity|].
    unfold sem_accrual_of in Hi, Hs, He, Hacc. cbn [sa_interval sa_start sa_end sa_account] in Hi, Hs, He, Hacc.
    apply orb_true_iff. right.
    unfold LeafSpec.leaf_interval, LeafSpec.leaf_date.
    rewrite (interval_class _ Hi), (date_class dec Hdec digit _ Hs), (date_class dec Hdec digit _ He).
    cbn [andb]. now apply acc_leaf.
Qed.

Lemma nonnil_ne {A} (l : list A) : l <> [] -> nonnil l = true.
Proof using. destruct l; [congruence|reflexivity]. Qed.

(* ---- quoted string: the content and the two quote bytes ---- *)

Lemma i_quoted_leaf s : VInv s ->
  ipost (fun q s' => qs_range q = mkRange (off s) (off s') /\ off s < off s' /\ leaf_quoted q = true)
        (off s) (parse_quoted_string E s).
Proof using All.
  intros HV. unfold parse_quoted_string. apply ipost_annot.
  istep i_rc as ? s1 HV1 L1 (Ho1 & _ & Hw1). { lia. }
  istep i_rw as c s2 HV2 L2 (Hc & x & Hx & Hw & _).
  istep i_rc as ? s3 HV3 L3 (Ho3 & _ & Hw3). { lia. }
  apply ipost_ret_with; [assumption|lia|]. prj. split; [reflexivity|]. split; [lia|].
  unfold LeafSpec.leaf_quoted. prj. rewrite Hc.
  pose proof (win_slice s _ s1 (proj1 HV) (proj1 HV1) Hw1) as S1.
  pose proof (win_slice s1 _ s2 (proj1 HV1) (proj1 HV2) Hw) as S2.
  pose proof (win_slice s2 _ s3 (proj1 HV2) (proj1 HV3) Hw3) as S3.
  replace (off s + 1) with (off s1) by lia. replace (off s3 - 1) with (off s2) by lia.
  rewrite S1, S3. unfold range_eqb, cut. prj. rewrite S2, !Z.eqb_refl.
  rewrite (quoted_class dec x Hx).
  assert (Hle : (off s + 2 <=? off s3) = true) by lia. rewrite Hle. reflexivity.
Qed.

Lemma i_include_leaf s : VInv s ->
  ipost (fun i s' => off s < off s' /\ leaf_quoted (in_path i) = true) (off s) (parse_include E s).
Proof using All.
  intros HV. unfold parse_include. apply ipost_annot.
  istep i_rs as ? s1 HV1 L1 _. { repeat constructor; unfold ascii; lia. }
  istep i_ws1 as ? s2 HV2 L2 _.
  istep i_quoted_leaf as q s3 HV3 L3 (_ & Hlt & Hq).
  apply ipost_ret_with; [assumption|lia|]. prj. split; [lia|exact Hq].
Qed.

Lemma i_transaction_leaf sc date ad s : VInv s ->
  ipost (fun x s' => tx_date x = date /\ tx_addons x = ad /\ leaf_quoted (tx_desc x) = true /\
                     nonnil (tx_bookings x) = true /\ forallb leaves_booking (tx_bookings x) = true /\
                     off s < off s')
        (off s) (parse_transaction E sc date ad s).
Proof using All.
  intros HV. unfold parse_transaction. apply ipost_annot.
  istep i_quoted_leaf as q s1 HV1 L1 (_ & Hlt & Hq).
  istep i_rest as ? s2 HV2 L2 _.
  istep i_bookings_loop as bs s3 HV3 L3 (Hne & Hbs & _).
  apply ipost_ret_with; [assumption|lia|]. prj.
  split; [reflexivity|]. split; [reflexivity|]. split; [exact Hq|].
  split; [now apply nonnil_ne|]. split; [now apply bookings_leaves|lia].
Qed.

(* ---- directive ---- *)

Lemma i_directive_leaf s : VInv s ->
  ipost (fun d s' => d_range d = mkRange (off s) (off s') /\ off s < off s' /\ leaves_directive d = true)
        (off s) (parse_directive E s).
Proof using All.
  intros HV. unfold parse_directive. apply ipost_annot.
  set (sc := new_scope DDir s).
  eapply ipost_bind with (Q1 := fun ad _ => AdLex ad); [|lia|].
  { unfold ifM, cur_is. destruct (cur s =? 64).
    - eapply ipost_weaken; [apply i_addons; assumption|lia|]. intros a s' _ _ (Ha & _ & _). exact Ha.
    - apply ipost_ret; [assumption|lia|]. apply AdLex_zero. }
  intros ad s1 HV1 L1 Had.
  unfold ifM at 1. destruct (cur_is 105 s1).
  - istep i_include_leaf as i s2 HV2 L2 (Hlt & Hi).
    apply ipost_ret_with; [assumption|lia|]. prj. split; [reflexivity|]. split; [lia|].
    unfold LeafSpec.leaves_directive. prj. exact Hi.
  - istep i_date as date s2 HV2 L2 (Hdate & Hdlt & Hdl).
    assert (Hd : leaf_date date = true).
    { unfold LeafSpec.leaf_date, cut. rewrite Hdate. prj. now apply date_class. }
    istep i_ws1 as ? s3 HV3 L3 _.
    unfold ifM at 1. destruct (cur_is 34 s3).
    + istep i_transaction_leaf as x s4 HV4 L4 (Hxd & Hxa & Hxq & Hxne & Hxb & Hxlt).
      apply ipost_ret_with; [assumption|lia|]. prj. split; [reflexivity|]. split; [lia|].
      unfold LeafSpec.leaves_directive. prj. cbn [LeafSpec.leaves_body].
      rewrite Hxd, Hxa, Hd, Hxq, Hxne, Hxb. cbn [andb]. now apply addons_leaves.
    + istep i_ra as kw s4 HV4 L4 (Hkw & k & Hin & Hw). { repeat constructor; unfold ascii; lia. }
      istep i_ws1 as ? s5 HV5 L5 _.
      assert (Hex : extract E kw = k).
      { rewrite Hkw. unfold extract. prj. apply (win_slice s3 k s4 (proj1 HV3) (proj1 HV4) Hw). }
      destruct (str_eqb (extract E kw) kw_open) eqn:E1; [|
      destruct (str_eqb (extract E kw) kw_close) eqn:E2; [|
      destruct (str_eqb (extract E kw) kw_balance) eqn:E3; [|
      destruct (str_eqb (extract E kw) kw_price) eqn:E4]]].
      * istep i_open as x s6 HV6 L6 (Hxd & Hxa & Hxlt).
        apply ipost_ret_with; [assumption|lia|]. prj. split; [reflexivity|]. split; [lia|].
        unfold LeafSpec.leaves_directive. prj. cbn [LeafSpec.leaves_body]. rewrite Hxd, Hd. now apply acc_leaf.
      * istep i_close as x s6 HV6 L6 (Hxd & Hxa & Hxlt).
        apply ipost_ret_with; [assumption|lia|]. prj. split; [reflexivity|]. split; [lia|].
        unfold LeafSpec.leaves_directive. prj. cbn [LeafSpec.leaves_body]. rewrite Hxd, Hd. now apply acc_leaf.
      * istep i_assertion as x s6 HV6 L6 (Hxd & Hxne & Hxb & Hxlt).
        apply ipost_ret_with; [assumption|lia|]. prj. split; [reflexivity|]. split; [lia|].
        unfold LeafSpec.leaves_directive. prj. cbn [LeafSpec.leaves_body].
        rewrite Hxd, Hd, (nonnil_ne _ Hxne). now apply balances_leaves.
      * istep i_price as x s6 HV6 L6 (Hxd & Hc & Hp & Htg & Hxlt).
        apply ipost_ret_with; [assumption|lia|]. prj. split; [reflexivity|]. split; [lia|].
        unfold LeafSpec.leaves_directive. prj. cbn [LeafSpec.leaves_body]. rewrite Hxd, Hd.
        unfold LeafSpec.leaf_commodity, LeafSpec.leaf_decimal.
        rewrite (commodity_class dec letter digit _ Hc), (decimal_class dec Hdec digit _ Hp),
          (commodity_class dec letter digit _ Htg). reflexivity.
      * exfalso. rewrite Hex in E1, E2, E3, E4. cbn [In] in Hin.
        destruct Hin as [<-|[<-|[<-|[<-|[]]]]];
          [rewrite str_eqb_refl in E1|rewrite str_eqb_refl in E2|rewrite str_eqb_refl in E3|rewrite str_eqb_refl in E4];
          discriminate.
Qed.

(* ---- parseFile's loop, for any property of the directives ---- *)

Lemma i_file_loop_all (P : directive -> Prop) :
  (forall s, VInv s -> ipost (fun d _ => P d) (off s) (parse_directive E s)) ->
  forall n s, VInv s -> ipost (fun ds _ => Forall P ds) (off s) (file_loop E n s).
Proof using All.
  intros HP. induction n as [|n IH]; intros s HV; [exact I|].
  cbn [file_loop]. unfold ifM at 1. destruct (cur_is eof s).
  { apply ipost_ret; [assumption|lia|]. constructor. }
  eapply ipost_bind with (Q1 := fun od _ => match od with Some d => P d | None => True end); [|lia|].
  { unfold ifM. destruct ((cur s =? 42) || (cur s =? 35) || (cur s =? 47)).
    - istep i_comment as ? s1 HV1 L1 _. apply ipost_ret; [assumption|lia|]. exact I.
    - destruct (is_alphanumeric E (cur s) || (cur s =? 64)).
      + istep HP as d s1 HV1 L1 Hd. apply ipost_ret; [assumption|lia|]. exact Hd.
      + apply ipost_ret; [assumption|lia|]. exact I. }
  intros od s1 HV1 L1 Hod.
  assert (Hcons : forall ds, Forall P ds -> Forall P (opt_cons od ds)).
  { intros ds Hds. destruct od; cbn [opt_cons]; [constructor|]; assumption. }
  unfold ifM. destruct (cur_is eof s1).
  - apply ipost_ret; [assumption|lia|]. apply Hcons. constructor.
  - istep i_rest as ? s2 HV2 L2 _.
    istep IH as ds s3 HV3 L3 Hds.
    apply ipost_ret; [assumption|lia|]. now apply Hcons.
Qed.

Lemma parse_env_leaves f : parse_env E = ParseOk f -> wf_leaves_gen dec letter digit t f = true.
Proof using All.
  unfold parse_env. destruct (advance E (init_state E)) as [u s|e s|] eqn:Ha; try discriminate.
  destruct (inv_advance_init E Hlen Hfuel Hdec Hloc u s Ha) as (HV & Ho).
  unfold parse_file, annot, bind.
  assert (Hf : ipost (fun ds _ => Forall (fun d => leaves_directive d = true) ds) (off s)
                     (file_loop E (loop_fuel E) s)).
  { apply i_file_loop_all; [|exact HV]. intros s0 HV0.
    eapply ipost_weaken; [apply i_directive_leaf; assumption|lia|]. intros d s' _ _ (_ & _ & H). exact H. }
  destruct (file_loop E (loop_fuel E) s) as [ds s'|e s'|]; cbn [RoundTripLeaf.ipost] in Hf; try discriminate.
  unfold ret_with. intros H. inversion H. subst f. unfold wf_leaves_gen. prj.
  destruct Hf as (_ & _ & Hf). apply forallb_forall. rewrite Forall_forall in Hf. exact Hf.
Qed.

End WithEnv.

(* ================================================================== the theorem *)

Theorem parse_text_leaves letter digit t f :
  parse_text letter digit t = ParseOk f -> wf_leaves_b letter digit t f = true.
Proof.
  intros Hp. set (E := mk_env Utf8M.decode letter digit t).
  assert (Hfuel : (length (e_text E) < e_fuel E)%nat) by (cbn [E mk_env e_text e_fuel]; lia).
  exact (parse_env_leaves E eq_refl Hfuel utf8_decoder_ok utf8_decoder_local f Hp).
Qed.
