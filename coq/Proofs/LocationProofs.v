(* Proofs about Spec/LocationSpec.v: the position that directives.Range.Location() renders.

   Part 1 (lists of runes, no decoder): the loop of Location() stops after a prefix
   [flat done ++ cur] of the runes -- [done] the complete lines with their newline runes, [cur]
   the runes of the current line -- and returns (1 + |done|, 1 + |cur|); such a position lies
   inside the text ([rloc_inside_prefix]) and denotes the byte offset of the end of the prefix
   ([roffset_prefix]); if the offset asked for is a boundary of the walk the loop stops exactly
   there ([loc_loop_prefix], last conjunct).
   Part 2 (decoder facts, [decoder_ok] of Proofs/ScannerProofs.v): a newline rune is one byte;
   the widths of the runes of t add up to |t|; boundaries lie in [0,|t|].
   Part 3: the theorems stated in Properties/C07.v.                                            *)
From Coq Require Import ZArith List Bool Lia ZifyBool.
From Knut Require Import Model.Bytes Model.Utf8 Model.Scanner Model.Parser
  Spec.SyntaxSpec Spec.LocationSpec Proofs.ScannerProofs Proofs.ParserProofs.
Import ListNotations.
Open Scope bool_scope.
Open Scope Z_scope.

(* ------------------------------------------------------------------ Part 1: runes *)

Definition nlfree (l : list rune_w) : Prop := Forall (fun r => is_nl r = false) l.
(* a newline rune is one byte wide *)
Definition nl1 (r : rune_w) : Prop := is_nl r = true -> snd r = 1.

(* a complete line: its runes and its newline rune *)
Definition cline := (list rune_w * rune_w)%type.
Definition cline_ok (p : cline) : Prop := nlfree (fst p) /\ is_nl (snd p) = true /\ snd (snd p) = 1.
Definition done_ok (done : list cline) : Prop := Forall cline_ok done.
Definition flat (done : list cline) : list rune_w := concat (map (fun p => fst p ++ [snd p]) done).

Lemma filter_none {A} (f : A -> bool) l : (forall x, In x l -> f x = false) -> filter f l = [].
Proof.
  induction l as [|a l IH]; intros H; [reflexivity|]. simpl. rewrite (H a) by now left.
  apply IH. intros x Hx. apply H. now right.
Qed.

Lemma sumw_app a b : sumw (a ++ b) = sumw a + sumw b.
Proof. induction a as [|r a IH]; simpl; [reflexivity|]. rewrite IH. lia. Qed.

Lemma flat_snoc done p : flat (done ++ [p]) = flat done ++ fst p ++ [snd p].
Proof. unfold flat. rewrite map_app, concat_app. simpl. now rewrite app_nil_r. Qed.

Lemma rlines_nonnil rs : exists x more, rlines rs = x :: more.
Proof.
  destruct rs as [|r rs]; simpl; [now exists [], []|].
  destruct (is_nl r); [now eexists; eexists|].
  destruct (rlines rs); now eexists; eexists.
Qed.

Lemma rlines_line l n rest : nlfree l -> is_nl n = true -> rlines (l ++ n :: rest) = l :: rlines rest.
Proof.
  intros Hl Hn. induction Hl as [|r l Hr Hl IH]; simpl; [now rewrite Hn|].
  now rewrite Hr, IH.
Qed.

Lemma rlines_flat done rest : done_ok done -> rlines (flat done ++ rest) = map fst done ++ rlines rest.
Proof.
  intros Hd. induction Hd as [|p done (Hp1 & Hp2 & _) Hd IH]; [reflexivity|].
  unfold flat in *. cbn [map concat]. rewrite <- !app_assoc. cbn [app].
  rewrite rlines_line by assumption. cbn [app]. now rewrite IH.
Qed.

Lemma rlines_head cur post : nlfree cur -> exists x more, rlines (cur ++ post) = (cur ++ x) :: more.
Proof.
  intros Hc. induction Hc as [|r cur Hr Hc IH]; [apply rlines_nonnil|].
  destruct IH as (x & more & IH). exists x, more. simpl. now rewrite Hr, IH.
Qed.

(* the lines of a text of which [flat done ++ cur] is a prefix *)
Lemma rlines_prefix done cur post : done_ok done -> nlfree cur ->
  exists x more, rlines (flat done ++ cur ++ post) = map fst done ++ (cur ++ x) :: more.
Proof.
  intros Hd Hc. destruct (rlines_head cur post Hc) as (x & more & H).
  exists x, more. now rewrite rlines_flat, H.
Qed.

(* the loop of Location() *)
Lemma loc_loop_prefix end_ : forall post done cur pos,
  Forall nl1 post -> done_ok done -> nlfree cur -> pos = sumw (flat done ++ cur) ->
  exists done' cur' post',
    flat done ++ cur ++ post = flat done' ++ cur' ++ post' /\ done_ok done' /\ nlfree cur' /\
    loc_loop post pos end_ (1 + Z.of_nat (length done)) (1 + Z.of_nat (length cur)) =
      (1 + Z.of_nat (length done'), 1 + Z.of_nat (length cur')) /\
    (In end_ (boundaries post pos) -> sumw (flat done' ++ cur') = end_).
Proof.
  induction post as [|r post IH]; intros done cur pos Hnl Hd Hc Hpos.
  - exists done, cur, []. repeat split; try assumption.
    simpl. intros [H|[]]. lia.
  - cbn [loc_loop]. destruct (Z.eqb_spec pos end_) as [He|He].
    + exists done, cur, (r :: post). repeat split; try assumption. intros _. lia.
    + inversion Hnl as [|r' post' Hr Hnl']; subst r' post'.
      destruct (is_nl r) eqn:Hn.
      * (* a newline: the current line is complete *)
        destruct (IH (done ++ [(cur, r)]) [] (pos + snd r) Hnl') as (done' & cur' & post' & Heq & Hd' & Hc' & Hl & Hb).
        { apply Forall_app. split; [assumption|]. constructor; [|constructor].
          unfold cline_ok. cbn [fst snd]. auto. }
        { constructor. }
        { rewrite flat_snoc, app_nil_r. cbn [fst snd]. rewrite Hpos, !sumw_app. simpl. lia. }
        exists done', cur', post'. repeat split; try assumption.
        -- rewrite <- Heq, flat_snoc. cbn [fst snd]. rewrite <- !app_assoc. reflexivity.
        -- rewrite <- Hl. rewrite app_length. cbn [length]. f_equal; lia.
        -- intros Hin. apply Hb. cbn [boundaries] in Hin. destruct Hin as [Hin|Hin]; [lia|exact Hin].
      * destruct (IH done (cur ++ [r]) (pos + snd r) Hnl' Hd) as (done' & cur' & post' & Heq & Hd' & Hc' & Hl & Hb).
        { apply Forall_app. split; [assumption|]. constructor; [assumption|constructor]. }
        { rewrite Hpos, !app_assoc, !sumw_app. simpl. lia. }
        exists done', cur', post'. repeat split; try assumption.
        -- rewrite <- Heq. rewrite <- !app_assoc. reflexivity.
        -- rewrite <- Hl. rewrite app_length. cbn [length]. f_equal; lia.
        -- intros Hin. apply Hb. cbn [boundaries] in Hin. destruct Hin as [Hin|Hin]; [lia|exact Hin].
Qed.

Lemma to_nat_succ n : Z.to_nat (1 + Z.of_nat n - 1) = n.
Proof. lia. Qed.

Lemma nth_error_mid {A} (a : list A) x b : nth_error (a ++ x :: b) (length a) = Some x.
Proof. rewrite nth_error_app2 by lia. now rewrite Nat.sub_diag. Qed.

Lemma rloc_inside_prefix done cur post : done_ok done -> nlfree cur ->
  rloc_inside_b (flat done ++ cur ++ post) (1 + Z.of_nat (length done), 1 + Z.of_nat (length cur)) = true.
Proof.
  intros Hd Hc. destruct (rlines_prefix done cur post Hd Hc) as (x & more & H).
  unfold rloc_inside_b. rewrite H, to_nat_succ.
  replace (length done) with (length (map fst done)) at 2 by apply map_length.
  rewrite nth_error_mid, app_length. lia.
Qed.

Lemma sum_done done : done_ok done ->
  fold_right (fun l a => sumw l + 1 + a) 0 (map fst done) = sumw (flat done).
Proof.
  intros Hd. induction Hd as [|p done (_ & _ & Hw) Hd IH]; [reflexivity|].
  unfold flat in *. cbn [map concat fold_right]. rewrite IH, !sumw_app. simpl. lia.
Qed.

Lemma roffset_prefix done cur post : done_ok done -> nlfree cur ->
  roffset_of (flat done ++ cur ++ post) (1 + Z.of_nat (length done), 1 + Z.of_nat (length cur)) =
  sumw (flat done ++ cur).
Proof.
  intros Hd Hc. destruct (rlines_prefix done cur post Hd Hc) as (x & more & H).
  unfold roffset_of. rewrite H, !to_nat_succ.
  replace (length done) with (length (map fst done)) by apply map_length.
  rewrite firstn_app, Nat.sub_diag, firstn_all, firstn_O, app_nil_r.
  rewrite app_nth2 by lia. rewrite Nat.sub_diag. cbn [nth].
  rewrite firstn_app, Nat.sub_diag, firstn_all, firstn_O, app_nil_r.
  rewrite sum_done by assumption. now rewrite sumw_app.
Qed.

(* Location() on any list of runes whose newlines are one byte wide *)
Lemma rlocation_prefix rs end_ : Forall nl1 rs ->
  exists done cur post, rs = flat done ++ cur ++ post /\ done_ok done /\ nlfree cur /\
    loc_loop rs 0 end_ 1 1 = (1 + Z.of_nat (length done), 1 + Z.of_nat (length cur)) /\
    (In end_ (boundaries rs 0) -> sumw (flat done ++ cur) = end_).
Proof.
  intros Hnl.
  destruct (loc_loop_prefix end_ rs [] [] 0 Hnl) as (done & cur & post & Heq & Hd & Hc & Hl & Hb);
    try constructor.
  exists done, cur, post. repeat split; assumption.
Qed.

Lemma rlocation_inside rs end_ : Forall nl1 rs -> rloc_inside_b rs (loc_loop rs 0 end_ 1 1) = true.
Proof.
  intros Hnl. destruct (rlocation_prefix rs end_ Hnl) as (done & cur & post & Heq & Hd & Hc & Hl & _).
  rewrite Hl. rewrite Heq at 1. now apply rloc_inside_prefix.
Qed.

Lemma rlocation_roundtrip rs end_ : Forall nl1 rs -> In end_ (boundaries rs 0) ->
  roffset_of rs (loc_loop rs 0 end_ 1 1) = end_.
Proof.
  intros Hnl Hin. destruct (rlocation_prefix rs end_ Hnl) as (done & cur & post & Heq & Hd & Hc & Hl & Hb).
  rewrite Hl. rewrite Heq at 1. rewrite roffset_prefix by assumption. now apply Hb.
Qed.

Lemma removelast_cons {A} (a : A) l : l <> [] -> removelast (a :: l) = a :: removelast l.
Proof. destruct l; [congruence|reflexivity]. Qed.

Lemma boundaries_nonnil rs pos : boundaries rs pos <> [].
Proof. destruct rs; discriminate. Qed.

(* when the offset is no boundary the comparison never succeeds: the loop runs to the end, as
   it does for the offset of the end of the text *)
Lemma loc_loop_miss e1 e2 : forall rs pos line col,
  ~ In e1 (removelast (boundaries rs pos)) -> ~ In e2 (removelast (boundaries rs pos)) ->
  loc_loop rs pos e1 line col = loc_loop rs pos e2 line col.
Proof.
  induction rs as [|r rs IH]; intros pos line col H1 H2; [reflexivity|].
  cbn [loc_loop]. cbn [boundaries] in H1, H2.
  rewrite removelast_cons in H1, H2 by apply boundaries_nonnil.
  destruct (Z.eqb_spec pos e1) as [He|He]; [exfalso; apply H1; now left|].
  destruct (Z.eqb_spec pos e2) as [He2|He2]; [exfalso; apply H2; now left|].
  destruct (is_nl r); apply IH; intros Hin; (apply H1 + apply H2); now right.
Qed.

Lemma boundaries_ge rs : Forall (fun r => 1 <= snd r) rs -> forall pos x, In x (boundaries rs pos) -> pos <= x.
Proof.
  induction 1 as [|r rs Hr Hrs IH]; intros pos x Hin; simpl in Hin.
  - destruct Hin as [Hin|[]]. lia.
  - destruct Hin as [Hin|Hin]; [lia|]. apply IH in Hin. lia.
Qed.

Lemma boundaries_last rs : forall pos, last (boundaries rs pos) 0 = pos + sumw rs.
Proof.
  induction rs as [|r rs IH]; intros pos; [simpl; lia|].
  cbn [boundaries]. pose proof (boundaries_nonnil rs (pos + snd r)) as Hb.
  destruct (boundaries rs (pos + snd r)) as [|y ys] eqn:Hy; [congruence|].
  change (last (pos :: y :: ys) 0) with (last (y :: ys) 0). rewrite <- Hy, IH. simpl. lia.
Qed.

Lemma boundaries_total_in rs pos : In (pos + sumw rs) (boundaries rs pos).
Proof.
  rewrite <- boundaries_last.
  assert (Hb : exists y ys, boundaries rs pos = y :: ys) by (destruct rs; simpl; eauto).
  destruct Hb as (y & ys & Hb). rewrite Hb.
  destruct (exists_last (l := y :: ys)) as (l' & a & Hl); [discriminate|].
  rewrite Hl, last_last. apply in_or_app. right. now left.
Qed.

(* with positive widths the end of the text is not among the earlier boundaries *)
Lemma total_not_earlier rs : Forall (fun r => 1 <= snd r) rs -> forall pos,
  ~ In (pos + sumw rs) (removelast (boundaries rs pos)).
Proof.
  induction 1 as [|r rs Hr Hrs IH]; intros pos; [simpl; tauto|].
  cbn [boundaries]. rewrite removelast_cons by apply boundaries_nonnil.
  intros [Hin|Hin].
  - assert (0 <= sumw rs). { clear -Hrs. induction Hrs; simpl; lia. } simpl in Hin. lia.
  - apply (IH (pos + snd r)). simpl in Hin. replace (pos + snd r + sumw rs) with (pos + (snd r + sumw rs)) by lia.
    exact Hin.
Qed.

Lemma removelast_in {A} (l : list A) x : In x (removelast l) -> In x l.
Proof.
  induction l as [|a l IH]; [simpl; tauto|]. destruct l as [|b l]; [simpl; tauto|].
  cbn [removelast]. intros [H|H]; [now left|right; now apply IH].
Qed.

(* ------------------------------------------------------------------ Part 2: the decoder *)

Section WithDecoder.
Variable dec : str -> Z * Z.
Hypothesis Hdec : decoder_ok dec.

Lemma dec_newline b l c w : dec (b :: l) = (c, w) -> c = 10 -> w = 1.
Proof using Hdec.
  intros H Hc. destruct (Z_le_dec 0 b) as [H0|H0]; [destruct (Z_lt_dec b 128) as [H1|H1]|].
  - rewrite (dec_ascii _ Hdec b l) in H by lia. now inversion H.
  - destruct (dec_high _ Hdec b l c w) as (Hr & _); [unfold high; lia|assumption|lia].
  - destruct (dec_high _ Hdec b l c w) as (Hr & _); [unfold high; lia|assumption|lia].
Qed.

(* a newline rune is one byte: the byte 10 *)
Lemma runes_newline_width : forall s skip, Forall nl1 (runes_go dec s skip).
Proof using Hdec.
  induction s as [|b s IH]; intros skip; [constructor|].
  destruct skip as [|k]; cbn [runes_go]; [|apply IH].
  constructor; [|apply IH].
  destruct (dec (b :: s)) as [c w] eqn:Hd. unfold nl1, is_nl. cbn [fst snd]. intros Hc.
  apply (dec_newline b s c w Hd). lia.
Qed.

Lemma runes_width_pos : forall s skip, Forall (fun r => 1 <= snd r) (runes_go dec s skip).
Proof using Hdec.
  induction s as [|b s IH]; intros skip; [constructor|].
  destruct skip as [|k]; cbn [runes_go]; [|apply IH].
  constructor; [|apply IH].
  destruct (dec (b :: s)) as [c w] eqn:Hd. cbn [snd].
  assert (Hne : b :: s <> []) by discriminate. pose proof (dec_width _ Hdec _ _ _ Hne Hd). lia.
Qed.

(* the widths add up to the length of the text *)
Lemma runes_sumw : forall s skip, (skip <= length s)%nat ->
  sumw (runes_go dec s skip) = Z.of_nat (length s) - Z.of_nat skip.
Proof using Hdec.
  induction s as [|b s IH]; intros skip Hs; [simpl in *; lia|].
  destruct skip as [|k]; cbn [runes_go].
  - destruct (dec (b :: s)) as [c w] eqn:Hd. cbn [sumw fold_right snd].
    assert (Hne : b :: s <> []) by discriminate. pose proof (dec_width _ Hdec _ _ _ Hne Hd) as Hw.
    cbn [length] in Hw. fold (sumw (runes_go dec s (Z.to_nat (w - 1)))). rewrite IH by lia.
    cbn [length]. lia.
  - cbn [length] in *. rewrite IH by lia. lia.
Qed.

Lemma runes_total t : sumw (runes_with dec t) = zlen t.
Proof using Hdec. unfold runes_with, zlen. rewrite runes_sumw by lia. lia. Qed.

Lemma boundary_in t o : rune_boundary_with dec t o = true <-> In o (boundaries (runes_with dec t) 0).
Proof.
  unfold rune_boundary_with. rewrite existsb_exists. split.
  - intros (x & Hin & Hx). apply Z.eqb_eq in Hx. now subst.
  - intros Hin. exists o. split; [assumption|apply Z.eqb_refl].
Qed.

Lemma boundary_bounds t o : rune_boundary_with dec t o = true -> 0 <= o <= zlen t.
Proof using Hdec.
  intros H. apply boundary_in in H. split.
  - apply (boundaries_ge _ (runes_width_pos t 0%nat) 0 o H).
  - destruct (exists_last (l := boundaries (runes_with dec t) 0)) as (l' & a & Hl); [destruct (runes_with dec t); discriminate|].
    pose proof (boundaries_last (runes_with dec t) 0) as Hlast. rewrite Hl, last_last in Hlast.
    rewrite runes_total in Hlast.
    (* every boundary is at most the last one *)
    assert (Hmono : forall rs pos x, Forall (fun r => 1 <= snd r) rs -> In x (boundaries rs pos) -> x <= pos + sumw rs).
    { clear. induction rs as [|r rs IH]; intros pos x Hw Hin; simpl in Hin.
      - destruct Hin as [Hin|[]]. simpl. lia.
      - inversion Hw as [|r' rs' Hr Hw']; subst. assert (0 <= sumw rs) by (clear -Hw'; induction Hw'; simpl; lia).
        destruct Hin as [Hin|Hin]; [simpl; lia|]. apply IH in Hin; [|assumption]. simpl. lia. }
    pose proof (Hmono _ 0 o (runes_width_pos t 0%nat) H) as Hle. unfold runes_with in *. rewrite runes_sumw in Hle by lia.
    unfold zlen. lia.
Qed.

Lemma boundary_zero t : rune_boundary_with dec t 0 = true.
Proof. apply boundary_in. destruct (runes_with dec t); simpl; auto. Qed.

Lemma boundary_end t : rune_boundary_with dec t (zlen t) = true.
Proof using Hdec.
  apply boundary_in. rewrite <- runes_total. apply (boundaries_total_in (runes_with dec t) 0).
Qed.

(* the walk, rune by rune *)
Lemma runes_go_skip : forall s k, (k <= length s)%nat -> runes_go dec s k = runes_go dec (skipn k s) 0.
Proof.
  induction s as [|b s IH]; intros k Hk.
  - simpl in Hk. assert (k = 0%nat) by lia. subst. reflexivity.
  - destruct k as [|k]; [reflexivity|]. cbn [runes_go skipn]. apply IH. simpl in Hk. lia.
Qed.

Lemma runes_unfold s c w : s <> [] -> dec s = (c, w) ->
  runes_with dec s = (c, w) :: runes_with dec (skipn (Z.to_nat w) s).
Proof using Hdec.
  intros Hne Hd. pose proof (dec_width _ Hdec _ _ _ Hne Hd) as Hw.
  destruct s as [|b s']; [congruence|]. unfold runes_with. cbn [runes_go]. rewrite Hd. cbn [snd]. f_equal.
  cbn [length] in Hw. rewrite runes_go_skip by lia.
  replace (Z.to_nat w) with (S (Z.to_nat (w - 1))) by lia. reflexivity.
Qed.

Lemma boundaries_head rs pos : In pos (boundaries rs pos).
Proof. destruct rs; simpl; auto. Qed.

(* from a boundary inside the text the next rune leads to a boundary: the scanner's Advance *)
Lemma boundary_step_gen : forall n s p o c w, (length s <= n)%nat ->
  In o (boundaries (runes_with dec s) p) -> o - p < Z.of_nat (length s) ->
  dec (skipn (Z.to_nat (o - p)) s) = (c, w) ->
  In (o + w) (boundaries (runes_with dec s) p).
Proof using Hdec.
  induction n as [|n IH]; intros s p o c w Hn Hin Hlt Hd.
  - destruct s; [|simpl in Hn; lia]. simpl in Hin. destruct Hin as [Hin|[]]. simpl in Hlt. lia.
  - destruct s as [|b s'] eqn:Hs; [simpl in Hin; destruct Hin as [Hin|[]]; simpl in Hlt; lia|].
    rewrite <- Hs in *. assert (Hne : s <> []) by (rewrite Hs; discriminate).
    destruct (dec s) as [c0 w0] eqn:Hd0.
    pose proof (dec_width _ Hdec _ _ _ Hne Hd0) as Hw0.
    rewrite (runes_unfold s c0 w0 Hne Hd0) in *. cbn [boundaries snd] in *.
    destruct Hin as [Hin|Hin].
    + subst o. replace (p - p) with 0 in Hd by lia. simpl in Hd. rewrite Hd0 in Hd. inversion Hd; subst.
      right. apply boundaries_head.
    + right.
      pose proof (boundaries_ge _ (runes_width_pos (skipn (Z.to_nat w0) s) 0%nat) _ _ Hin) as Hge.
      apply (IH (skipn (Z.to_nat w0) s) (p + w0) o c w).
      * rewrite skipn_length. lia.
      * exact Hin.
      * rewrite skipn_length. lia.
      * rewrite skipn_add. replace (Z.to_nat w0 + Z.to_nat (o - (p + w0)))%nat with (Z.to_nat (o - p)) by lia. exact Hd.
Qed.

Lemma boundary_step t o c w : In o (boundaries (runes_with dec t) 0) -> o < zlen t ->
  dec (skipn (Z.to_nat o) t) = (c, w) -> In (o + w) (boundaries (runes_with dec t) 0).
Proof using Hdec.
  intros Hin Hlt Hd. apply (boundary_step_gen (length t) t 0 o c w); try assumption; try lia.
  - unfold zlen in Hlt. lia.
  - now rewrite Z.sub_0_r.
Qed.

(* newlines: a rune is '\n' iff its bytes contain the byte 10 (then it is that byte) *)
Definition nlb (l : str) : nat := length (filter (fun b => b =? 10) l).
Definition nlr (rs : list rune_w) : nat := length (filter is_nl rs).

Lemma nlb_app a b : nlb (a ++ b) = (nlb a + nlb b)%nat.
Proof. unfold nlb. now rewrite filter_app, app_length. Qed.

Lemma nlr_app a b : nlr (a ++ b) = (nlr a + nlr b)%nat.
Proof. unfold nlr. now rewrite filter_app, app_length. Qed.

Lemma nlb_rune s c w : s <> [] -> dec s = (c, w) ->
  nlb (firstn (Z.to_nat w) s) = if c =? 10 then 1%nat else 0%nat.
Proof using Hdec.
  intros Hne Hd. destruct s as [|b s']; [congruence|].
  destruct (Z_le_dec 0 b) as [H0|H0]; [destruct (Z_lt_dec b 128) as [H1|H1]|].
  - rewrite (dec_ascii _ Hdec b s') in Hd by lia. inversion Hd; subst c w.
    change (Z.to_nat 1) with 1%nat. cbn [firstn]. unfold nlb. cbn [filter]. now destruct (b =? 10).
  - destruct (dec_high _ Hdec b s' c w) as (Hr & Hh); [unfold high; lia|assumption|].
    destruct (Z.eqb_spec c 10); [lia|]. unfold nlb.
    rewrite filter_none; [reflexivity|]. intros x Hx. rewrite Forall_forall in Hh. specialize (Hh x Hx).
    unfold high in Hh. lia.
  - destruct (dec_high _ Hdec b s' c w) as (Hr & Hh); [unfold high; lia|assumption|].
    destruct (Z.eqb_spec c 10); [lia|]. unfold nlb.
    rewrite filter_none; [reflexivity|]. intros x Hx. rewrite Forall_forall in Hh. specialize (Hh x Hx).
    unfold high in Hh. lia.
Qed.

(* the bytes of a prefix of the runes contain as many bytes 10 as the prefix has newline runes *)
Lemma nlb_prefix : forall pre s post, runes_with dec s = pre ++ post ->
  nlb (firstn (Z.to_nat (sumw pre)) s) = nlr pre.
Proof using Hdec.
  induction pre as [|r pre IH]; intros s post Hr; [reflexivity|].
  destruct s as [|b s'] eqn:Hs; [discriminate|]. rewrite <- Hs in *.
  assert (Hne : s <> []) by (rewrite Hs; discriminate).
  destruct (dec s) as [c w] eqn:Hd. pose proof (dec_width _ Hdec _ _ _ Hne Hd) as Hw.
  rewrite (runes_unfold s c w Hne Hd) in Hr. cbn [app] in Hr. inversion Hr as [[Hr0 Hr1]]. subst r.
  assert (Hp : 0 <= sumw pre).
  { pose proof (runes_width_pos (skipn (Z.to_nat w) s) 0%nat) as Hpos. fold (runes_with dec (skipn (Z.to_nat w) s)) in Hpos.
    rewrite Hr1 in Hpos. apply Forall_app in Hpos. destruct Hpos as (Hpos & _). clear -Hpos. induction Hpos; simpl; lia. }
  cbn [sumw fold_right snd]. fold (sumw pre).
  replace (Z.to_nat (w + sumw pre)) with (Z.to_nat w + Z.to_nat (sumw pre))%nat by lia.
  rewrite firstn_add, nlb_app, (IH _ _ Hr1), (nlb_rune s c w Hne Hd).
  unfold nlr. cbn [filter]. replace (is_nl (c, w)) with (c =? 10) by reflexivity. destruct (c =? 10); reflexivity.
Qed.

Lemma nlr_nlfree l : nlfree l -> nlr l = 0%nat.
Proof. intros H. unfold nlr. rewrite filter_none; [reflexivity|]. intros x Hx. unfold nlfree in H. rewrite Forall_forall in H. now apply H. Qed.

Lemma nlr_flat done : done_ok done -> nlr (flat done) = length done.
Proof.
  intros Hd. induction Hd as [|p done (Hp1 & Hp2 & _) Hd IH]; [reflexivity|].
  unfold flat in *. cbn [map concat]. rewrite !nlr_app, IH, (nlr_nlfree _ Hp1).
  unfold nlr. cbn [filter]. rewrite Hp2. simpl. lia.
Qed.

(* ------------------------------------------------------------------ Part 3: the theorems *)

(* for EVERY offset -- inside the text or not, at a rune or not -- the rendered position exists *)
Theorem location_inside_with t off : loc_inside_with dec t (location_with dec t off) = true.
Proof using Hdec.
  unfold loc_inside_with, location_with. apply rlocation_inside. apply runes_newline_width.
Qed.

(* at a rune of the text (or at its end) the rendered position denotes exactly that byte *)
Theorem location_roundtrip_with t off : rune_boundary_with dec t off = true ->
  offset_of_with dec t (location_with dec t off) = off.
Proof using Hdec.
  intros H. unfold offset_of_with, location_with. apply rlocation_roundtrip.
  - apply runes_newline_width.
  - now apply boundary_in.
Qed.

(* the rendered line, in bytes: one more than the newline bytes in front of the offset *)
Theorem location_line_with t off : rune_boundary_with dec t off = true ->
  fst (location_with dec t off) = 1 + Z.of_nat (nlb (firstn (Z.to_nat off) t)).
Proof using Hdec.
  intros H. apply boundary_in in H. unfold location_with.
  destruct (rlocation_prefix (runes_with dec t) off (runes_newline_width t 0%nat)) as (done & cur & post & Heq & Hd & Hc & Hl & Hb).
  rewrite Hl. cbn [fst]. rewrite <- (Hb H). rewrite app_assoc in Heq.
  rewrite (nlb_prefix _ _ _ Heq), nlr_app, (nlr_flat _ Hd), (nlr_nlfree _ Hc). lia.
Qed.

(* anywhere else Go's loop never meets pos == End and returns the position of the end *)
Theorem location_off_rune_with t off : rune_boundary_with dec t off = false ->
  location_with dec t off = location_with dec t (zlen t).
Proof using Hdec.
  intros H. unfold location_with. apply loc_loop_miss.
  - intros Hin. apply removelast_in in Hin. apply boundary_in in Hin. congruence.
  - rewrite <- runes_total. apply (total_not_earlier _ (runes_width_pos t 0%nat) 0).
Qed.

End WithDecoder.

(* ---- Go's decoder ---- *)

Lemma location_inside t off : loc_inside_b t (location t off) = true.
Proof. exact (location_inside_with Utf8M.decode utf8_decoder_ok t off). Qed.

Lemma location_roundtrip t off : rune_boundary_b t off = true -> offset_of t (location t off) = off.
Proof. exact (location_roundtrip_with Utf8M.decode utf8_decoder_ok t off). Qed.

Lemma location_line t off : rune_boundary_b t off = true -> fst (location t off) = byte_line t off.
Proof. exact (location_line_with Utf8M.decode utf8_decoder_ok t off). Qed.

Lemma location_off_rune t off : rune_boundary_b t off = false -> location t off = location t (zlen t).
Proof. exact (location_off_rune_with Utf8M.decode utf8_decoder_ok t off). Qed.

Lemma rune_boundary_bounds t off : rune_boundary_b t off = true -> 0 <= off <= zlen t.
Proof. exact (boundary_bounds Utf8M.decode utf8_decoder_ok t off). Qed.

(* what the check accepts for a rendered position is exactly the model's position *)
Lemma observed_loc_ok_location t off : rune_boundary_b t off = true ->
  observed_loc_ok_b t off (location t off) = true.
Proof.
  intros H. unfold observed_loc_ok_b. rewrite location_inside, (location_roundtrip t off H). now rewrite Z.eqb_refl.
Qed.

(* ---- the errors of the parser ---- *)

Lemma errs_located t e : errs_located_b t e = true.
Proof. unfold errs_located_b. apply forallb_forall. intros x _. apply location_inside. Qed.

Lemma parse_text_error_location_inside letter digit t e :
  parse_text letter digit t = ParseErr e -> err_in_bounds_b t e = true /\ errs_located_b t e = true.
Proof. intros H. split; [exact (parse_text_err_in_bounds letter digit t e H)|apply errs_located]. Qed.

Lemma errs_roundtrip_of_boundaries t e :
  forallb (fun x => rune_boundary_b t (er_end x)) e = true -> errs_roundtrip_b t e = true.
Proof.
  unfold errs_roundtrip_b. rewrite !forallb_forall. intros H x Hx.
  apply Z.eqb_eq. apply location_roundtrip. now apply H.
Qed.
