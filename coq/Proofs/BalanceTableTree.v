(* C02, table level, part 2: the shape of the report trees that the query stage builds.
   Siblings are strictly ordered by segment, paths extend the parent's path, the A/L tree holds
   A/L accounts only and the other tree none, no amount is stored under the nil commodity.
   Hence: the node paths are pairwise distinct, the account blocks of the table are one per
   node, in the order of the sorted trees, a permutation of LayoutProofs.rows. *)
From Coq Require Import ZArith QArith List Bool Lia Permutation.
From Knut Require Import Model.Str Model.Dec Model.Date Model.Account Model.Ledger Model.Price
     Model.Journal Model.Check Model.Pipeline Model.Table Model.Report Model.Cli
     Spec.LedgerSpec Spec.BalanceTableSpec
     Proofs.DecValue Proofs.StrProofs Proofs.ReportSum Proofs.Conservation Proofs.LedgerProofs Proofs.LayoutProofs.
Import ListNotations.
Open Scope Q_scope.

(* ------------------------------------------------------------ list helpers *)

Lemma perm_flat_map {A B} (f : A -> list B) l1 l2 : Permutation l1 l2 -> Permutation (flat_map f l1) (flat_map f l2).
Proof.
  induction 1 as [|x l l' _ IH|x y l|l l' l'' _ IH1 _ IH2]; cbn [flat_map].
  - constructor.
  - apply Permutation_app_head. exact IH.
  - rewrite !app_assoc. apply Permutation_app_tail. apply Permutation_app_comm.
  - eapply Permutation_trans; eassumption.
Qed.

Lemma map_flat_map' {A B C} (f : B -> C) (g : A -> list B) l : map f (flat_map g l) = flat_map (fun x => map f (g x)) l.
Proof. induction l as [|x l IH]; cbn [flat_map map]; [reflexivity|]. rewrite map_app, IH. reflexivity. Qed.

Lemma flat_map_ext_in {A B} (f g : A -> list B) l : (forall x, In x l -> f x = g x) -> flat_map f l = flat_map g l.
Proof.
  induction l as [|x l IH]; intros H; cbn [flat_map]; [reflexivity|].
  rewrite (H x (or_introl eq_refl)), IH; [reflexivity|]. intros y Hy. apply H. right. exact Hy.
Qed.

Lemma nodup_app {A} (a b : list A) : NoDup a -> NoDup b -> (forall x, In x a -> ~ In x b) -> NoDup (a ++ b).
Proof.
  induction 1 as [|x a Hx Ha IH]; intros Hb Hd; cbn [app]; [exact Hb|].
  constructor.
  - rewrite in_app_iff. intros [H|H]; [exact (Hx H)|exact (Hd x (or_introl eq_refl) H)].
  - apply IH; [exact Hb|]. intros y Hy. apply Hd. right. exact Hy.
Qed.

Lemma cpaths_flat_map ch : cpaths ch = flat_map npaths ch.
Proof. induction ch as [|c ch IH]; cbn [flat_map]; [reflexivity|]. unfold cpaths in *. cbn [fold_right]. rewrite IH. reflexivity. Qed.

(* ------------------------------------------------------------ lines of a tree *)

Definition l_seg (l : str * account * ramounts) : str := fst (fst l).
Definition l_path (l : str * account * ramounts) : account := snd (fst l).
Definition l_amts (l : str * account * ramounts) : ramounts := snd l.

Lemma tree_lines_paths n : map l_path (tree_lines n) = npaths n.
Proof.
  induction n as [s p hv a ch IH] using node_ind_size. cbn [tree_lines map]. rewrite npaths_unfold.
  unfold l_path at 1. cbn [fst snd]. f_equal. rewrite cpaths_flat_map, map_flat_map'.
  apply flat_map_ext_in. intros c Hc. rewrite Forall_forall in IH. exact (IH c Hc).
Qed.

Lemma clines_paths ch : map l_path (flat_map tree_lines ch) = cpaths ch.
Proof.
  rewrite cpaths_flat_map, map_flat_map'. apply flat_map_ext_in. intros c _. apply tree_lines_paths.
Qed.

Lemma tree_lines_sort alpha valued n : Permutation (tree_lines (node_sort alpha valued n)) (tree_lines n).
Proof.
  induction n as [s p hv a ch IH] using node_ind_size. cbn [node_sort tree_lines]. apply perm_skip.
  eapply Permutation_trans; [apply perm_flat_map, sort_by_perm|].
  induction IH as [|c ch Hc _ IHch]; cbn [map flat_map]; [constructor|].
  apply Permutation_app; assumption.
Qed.

Lemma clines_sort alpha valued n :
  Permutation (flat_map tree_lines (n_children (node_sort alpha valued n))) (flat_map tree_lines (n_children n)).
Proof.
  pose proof (tree_lines_sort alpha valued n) as H. destruct n as [s p hv a ch].
  cbn [node_sort tree_lines n_children] in *. apply Permutation_cons_inv in H. exact H.
Qed.

(* ------------------------------------------------------------ siblings are ordered by segment *)

Fixpoint seg_sorted (l : list node) : Prop :=
  match l with
  | [] => True
  | c :: l' => Forall (fun d => str_cmp (n_seg c) (n_seg d) = Lt) l' /\ seg_sorted l'
  end.

Fixpoint sib_sorted (n : node) : Prop :=
  match n with
  | Node _ _ _ _ ch =>
    seg_sorted ch /\
    (fix go (l : list node) : Prop := match l with [] => True | c :: l' => sib_sorted c /\ go l' end) ch
  end.

Lemma sib_sorted_unfold s p hv a ch : sib_sorted (Node s p hv a ch) <-> seg_sorted ch /\ Forall sib_sorted ch.
Proof.
  cbn [sib_sorted]. apply and_iff_compat_l.
  induction ch as [|c ch IH]; [split; [constructor|trivial]|].
  split.
  - intros [H1 H2]. constructor; [exact H1|apply IH; exact H2].
  - intros H. inversion H as [|? ? H1 H2]; subst. split; [exact H1|apply IH; exact H2].
Qed.

Lemma children_insert_forall_seg (Q : str -> Prop) rec h path l :
  (forall c, n_seg (rec c) = n_seg c) -> Q h ->
  Forall (fun d => Q (n_seg d)) l -> Forall (fun d => Q (n_seg d)) (children_insert rec h path l).
Proof.
  intros Hseg Hh. induction 1 as [|c l Hc Hl IH]; cbn [children_insert].
  - constructor; [rewrite Hseg; exact Hh|constructor].
  - destruct (str_cmp h (n_seg c)).
    + constructor; [rewrite Hseg; exact Hc|exact Hl].
    + constructor; [rewrite Hseg; exact Hh|constructor; assumption].
    + constructor; [exact Hc|exact IH].
Qed.

Lemma children_insert_sorted rec h path l :
  (forall c, n_seg (rec c) = n_seg c) -> (forall c, sib_sorted c -> sib_sorted (rec c)) ->
  seg_sorted l -> Forall sib_sorted l ->
  seg_sorted (children_insert rec h path l) /\ Forall sib_sorted (children_insert rec h path l).
Proof.
  intros Hseg Hrec.
  assert (Hnew : sib_sorted (rec (Node h path false [] []))).
  { apply Hrec. apply sib_sorted_unfold. split; [exact I|constructor]. }
  induction l as [|c l IH]; intros Hs Hf; cbn [children_insert].
  - split; [cbn [seg_sorted]; split; [constructor|exact I]|constructor; [exact Hnew|constructor]].
  - cbn [seg_sorted] in Hs. destruct Hs as [Hc Hl]. inversion Hf as [|? ? Hfc Hfl]; subst.
    destruct (str_cmp h (n_seg c)) eqn:E.
    + split; [cbn [seg_sorted]; rewrite Hseg; split; assumption|constructor; [apply Hrec; exact Hfc|exact Hfl]].
    + split.
      * cbn [seg_sorted]. rewrite Hseg. cbn [n_seg]. split; [|split; assumption].
        constructor; [exact E|]. rewrite Forall_forall in *. intros d Hd. exact (str_cmp_lt_trans _ _ _ E (Hc d Hd)).
      * constructor; [exact Hnew|exact Hf].
    + destruct (IH Hl Hfl) as [IH1 IH2]. split; [|constructor; assumption].
      cbn [seg_sorted]. split; [|exact IH1].
      apply (children_insert_forall_seg (fun x => str_cmp (n_seg c) x = Lt)); [exact Hseg| |exact Hc].
      rewrite str_cmp_antisym, E. reflexivity.
Qed.

Lemma node_insert_seg k v fuel prefix rest n : n_seg (node_insert fuel prefix rest k v n) = n_seg n.
Proof. destruct n as [s p hv a ch], rest, fuel; reflexivity. Qed.

Lemma node_insert_sorted k v : forall fuel prefix rest n,
  sib_sorted n -> sib_sorted (node_insert fuel prefix rest k v n).
Proof.
  induction fuel as [|fu IH]; intros prefix rest [s p hv a ch] Hs.
  - destruct rest; cbn [node_insert]; [|exact Hs]. apply sib_sorted_unfold. apply sib_sorted_unfold in Hs. exact Hs.
  - destruct rest as [|h tail]; cbn [node_insert].
    + apply sib_sorted_unfold. apply sib_sorted_unfold in Hs. exact Hs.
    + apply sib_sorted_unfold in Hs. destruct Hs as [H1 H2]. apply sib_sorted_unfold.
      apply children_insert_sorted; [intros c; apply node_insert_seg|intros c Hc; apply IH; exact Hc|exact H1|exact H2].
Qed.

(* ------------------------------------------------------------ the invariant of the query's report *)

Lemma prefixes_from_shape : forall rest acc x, In x (prefixes_from acc rest) -> exists y suf, x = acc ++ y :: suf.
Proof.
  induction rest as [|s t IH]; intros acc x H; cbn [prefixes_from] in H; [destruct H|].
  destruct H as [<-|H]; [exists s, []; reflexivity|].
  destruct (IH _ _ H) as (y & suf & ->). rewrite <- app_assoc. cbn [app]. exists s, (y :: suf). reflexivity.
Qed.

Lemma prefixes_from_type a x : In x (prefixes_from [] a) -> is_AL x = is_AL a.
Proof.
  destruct a as [|s t]; cbn [prefixes_from]; [intros []|].
  intros [<-|H]; [reflexivity|]. destruct (prefixes_from_shape _ _ _ H) as (y & suf & ->). reflexivity.
Qed.

Definition report_ok (r : report) : Prop :=
  wf_report r /\ sib_sorted (r_al r) /\ sib_sorted (r_eie r) /\
  (forall x, In x (cpaths (n_children (r_al r))) -> is_AL x = true) /\
  (forall x, In x (cpaths (n_children (r_eie r))) -> is_AL x = false) /\
  (forall row d, rcell row (d, None) r == 0).

Lemma report_ok_new : report_ok new_report.
Proof.
  split; [exact wf_new_report|]. unfold new_report, empty_root. cbn [r_al r_eie n_children].
  split; [split; [exact I|exact I]|]. split; [split; [exact I|exact I]|].
  split; [intros x []|]. split; [intros x []|]. intros row d. apply rcell_new.
Qed.

Lemma report_ok_insert r date a c v : report_ok r -> report_ok (report_insert r date a c v).
Proof.
  intros (Hwf & S1 & S2 & T1 & T2 & Hn).
  destruct (rcell_insert [] (None, None) r date a c v Hwf) as [_ Hwf'].
  split; [exact Hwf'|].
  destruct Hwf as (W1 & W2 & P1 & P2).
  assert (Hcell : forall row d, rcell row (d, None) (report_insert r date a c v) == 0).
  { intros row d. destruct (rcell_insert row (d, None) r date a c v (conj W1 (conj W2 (conj P1 P2)))) as [-> _].
    rewrite Hn. unfold delta_at, contrib, idk, rkey_eqb. cbn [fst snd ocom_eqb]. rewrite andb_false_r.
    destruct (acc_eqb a row); ring. }
  unfold report_insert in *. destruct (is_AL a) eqn:Ea; cbn [r_al r_eie] in *.
  - split; [apply node_insert_sorted; exact S1|]. split; [exact S2|]. split; [|split; [exact T2|exact Hcell]].
    intros x Hx. apply (cpaths_root_insert (date, Some c) v a (r_al r) P1 W1) in Hx.
    destruct Hx as [Hx|Hx]; [exact (T1 x Hx)|]. rewrite (prefixes_from_type _ _ Hx). exact Ea.
  - split; [exact S1|]. split; [apply node_insert_sorted; exact S2|]. split; [exact T1|]. split; [|exact Hcell].
    intros x Hx. apply (cpaths_root_insert (date, Some c) v a (r_eie r) P2 W2) in Hx.
    destruct Hx as [Hx|Hx]; [exact (T2 x Hx)|]. rewrite (prefixes_from_type _ _ Hx). exact Ea.
Qed.

(* any property of reports that report_insert preserves holds of what the query stage returns *)
Section QueryInv.
  Variable q : query.
  Variable P : report -> Prop.
  Hypothesis Pins : forall r d a c v, P r -> P (report_insert r d a c v).

  Lemma query_postings_inv t : forall ps r r' ps',
    P r -> fold_postings (query_posting q report_insert) t r ps = ROk (r', ps') -> P r'.
  Proof.
    induction ps as [|p ps IH]; intros r r' ps' HP H; cbn [fold_postings] in H.
    - inversion H; subst. exact HP.
    - destruct (query_posting q report_insert r t p) as [[r1 p1]| |] eqn:E1; try discriminate.
      cbn [rbind fst snd] in H.
      destruct (fold_postings (query_posting q report_insert) t r1 ps) as [[r2 ps2]| |] eqn:E2; try discriminate.
      cbn [rbind fst snd] in H. inversion H; subst r' ps'. clear H.
      refine (IH r1 r2 ps2 _ E2).
      unfold query_posting in E1.
      destruct (q_where q (p_acc p) (p_com p)); [|inversion E1; subst; exact HP].
      destruct (q_account q (p_acc p)) as [a| |]; try discriminate; inversion E1; subst; [apply Pins|]; exact HP.
  Qed.

  Lemma query_txns_inv : forall ts r r' ts',
    P r -> fold_txns (query_proc q report_insert) r ts = ROk (r', ts') -> P r'.
  Proof.
    induction ts as [|t ts IH]; intros r r' ts' HP H; cbn [fold_txns] in H.
    - inversion H; subst. exact HP.
    - cbn [query_proc pr_txn pr_posting rbind] in H.
      destruct (fold_postings (query_posting q report_insert) t r (t_postings t)) as [[r1 ps1]| |] eqn:E1; try discriminate.
      cbn [rbind fst snd] in H.
      destruct (fold_txns (query_proc q report_insert) r1 ts) as [[r2 ts2]| |] eqn:E2; try discriminate.
      cbn [rbind fst snd] in H. inversion H; subst r' ts'. clear H.
      apply (IH _ _ _ (query_postings_inv t _ _ _ _ HP E1) E2).
  Qed.

  Lemma query_day_inv r d r' d' :
    P r -> process_day (query_proc q report_insert) r d = ROk (r', d') -> P r'.
  Proof.
    intros HP H. unfold process_day in H.
    cbn [query_proc pr_day_start pr_price pr_open pr_balance pr_close pr_day_end rbind fst snd] in H.
    destruct (fold_txns (query_proc q report_insert) r (d_txns d)) as [[r1 ts1]| |] eqn:E1; try discriminate.
    cbn [rbind fst snd] in H. cbn [d_asserts d_closes] in H.
    assert (Ha : forall l s, fold_asserts (query_proc q report_insert) s l = ROk s).
    { induction l as [|a l IHl]; intros s; cbn [fold_asserts query_proc pr_balance rbind]; [reflexivity|apply IHl]. }
    rewrite Ha in H. cbn [rbind] in H. inversion H; subst r' d'.
    exact (query_txns_inv _ _ _ _ HP E1).
  Qed.

  Lemma query_days_inv : forall ds r r' ds',
    P r -> process_days (query_proc q report_insert) r ds = ROk (r', ds') -> P r'.
  Proof.
    induction ds as [|d ds IH]; intros r r' ds' HP H; cbn [process_days] in H.
    - inversion H; subst. exact HP.
    - destruct (process_day (query_proc q report_insert) r d) as [[r1 d1]| |] eqn:E1; try discriminate.
      cbn [rbind fst snd] in H.
      destruct (process_days (query_proc q report_insert) r1 ds) as [[r2 ds2]| |] eqn:E2; try discriminate.
      cbn [rbind fst snd] in H. inversion H; subst r' ds'. clear H.
      exact (IH _ _ _ (query_day_inv _ _ _ _ HP E1) E2).
  Qed.
End QueryInv.

Lemma cbind_ok {A B} (x : cresult A) (f : A -> cresult B) b :
  cbind x f = COk b -> exists a, x = COk a /\ f a = COk b.
Proof. destruct x as [a|k d|m]; cbn [cbind]; intros H; try discriminate. exists a. auto. Qed.

(* the report of the balance command is what the query stage returns, started on the empty report *)
Lemma balance_report_query cfg ds r part :
  balance_report cfg ds = COk (r, part) ->
  exists days days', process_days (query_proc (balance_query cfg part) report_insert) new_report days = ROk (r, days').
Proof.
  intros H. unfold balance_report in H.
  apply cbind_ok in H. destruct H as (u & _ & H). cbv beta in H.
  apply cbind_ok in H. destruct H as (b & _ & H). cbv beta in H.
  apply cbind_ok in H. destruct H as (part0 & _ & H). cbv beta zeta in H.
  apply cbind_ok in H. destruct H as (r1 & _ & H). cbv beta in H.
  apply cbind_ok in H. destruct H as (days1 & _ & H). cbv beta in H.
  apply cbind_ok in H. destruct H as (r4 & _ & H). cbv beta in H.
  apply cbind_ok in H. destruct H as (days2 & _ & H). cbv beta in H.
  apply cbind_ok in H. destruct H as (r6 & H6 & H). cbv beta in H.
  inversion H; subst. unfold run_stage in H6.
  destruct (process_days (query_proc (balance_query cfg part) report_insert) new_report days2) as [[r2 d2]| |] eqn:E; try discriminate.
  cbn [of_presult] in H6. inversion H6; subst. cbn [fst]. exists days2, d2. exact E.
Qed.

Theorem balance_report_ok cfg ds r part : balance_report cfg ds = COk (r, part) -> report_ok r.
Proof.
  intros H. destruct (balance_report_query _ _ _ _ H) as (days & days' & Hq).
  exact (query_days_inv _ report_ok (fun r d a c v => report_ok_insert r d a c v) _ _ _ _ report_ok_new Hq).
Qed.

(* ------------------------------------------------------------ paths are pairwise distinct *)

Lemma npaths_prefix n : wf_node n -> forall x, In x (npaths n) -> exists suf, x = n_path n ++ suf.
Proof.
  induction n as [s p hv a ch IH] using node_ind_size. intros Hwf x Hx.
  apply wf_node_children in Hwf. rewrite npaths_unfold in Hx. cbn [n_path].
  destruct Hx as [<-|Hx]; [exists []; symmetry; apply app_nil_r|].
  rewrite cpaths_flat_map in Hx. apply in_flat_map in Hx. destruct Hx as (c & Hc & Hx).
  rewrite Forall_forall in IH. unfold wf_children in Hwf. rewrite Forall_forall in Hwf.
  destruct (Hwf c Hc) as [Hp Hwc]. destruct (IH c Hc Hwc x Hx) as (suf & ->).
  rewrite Hp, <- app_assoc. eexists. reflexivity.
Qed.

Lemma cpaths_nodup p : forall ch,
  wf_children p ch -> seg_sorted ch -> Forall (fun c => NoDup (npaths c)) ch -> NoDup (cpaths ch).
Proof.
  induction ch as [|c ch IH]; intros Hwf Hs Hn; [constructor|].
  unfold cpaths. cbn [fold_right]. fold (cpaths ch).
  inversion Hwf as [|? ? [Hp Hwc] Hwf']; subst. inversion Hn as [|? ? Hnc Hn']; subst.
  cbn [seg_sorted] in Hs. destruct Hs as [Hlt Hs'].
  apply nodup_app; [exact Hnc|apply IH; assumption|].
  intros x Hx1 Hx2. destruct (npaths_prefix c Hwc x Hx1) as (suf1 & ->).
  rewrite cpaths_flat_map in Hx2. apply in_flat_map in Hx2. destruct Hx2 as (d & Hd & Hx2).
  unfold wf_children in Hwf'. rewrite Forall_forall in Hwf', Hlt.
  destruct (Hwf' d Hd) as [Hpd Hwd]. destruct (npaths_prefix d Hwd _ Hx2) as (suf2 & Heq).
  rewrite Hp, Hpd, <- !app_assoc in Heq. apply app_inv_head in Heq. cbn [app] in Heq.
  injection Heq as Hseg _. specialize (Hlt d Hd). rewrite Hseg, str_cmp_refl in Hlt. discriminate.
Qed.

Lemma npaths_nodup n : wf_node n -> sib_sorted n -> NoDup (npaths n).
Proof.
  induction n as [s p hv a ch IH] using node_ind_size. intros Hwf Hs.
  pose proof Hwf as Hwf0. apply wf_node_children in Hwf. apply sib_sorted_unfold in Hs. destruct Hs as [Hs Hf].
  rewrite npaths_unfold. constructor.
  - intros Hx. rewrite cpaths_flat_map in Hx. apply in_flat_map in Hx. destruct Hx as (c & Hc & Hx).
    unfold wf_children in Hwf. rewrite Forall_forall in Hwf. destruct (Hwf c Hc) as [Hp Hwc].
    destruct (npaths_prefix c Hwc _ Hx) as (suf & Heq). rewrite Hp, <- app_assoc in Heq.
    apply (f_equal (@length str)) in Heq. rewrite !app_length in Heq. cbn [length] in Heq. lia.
  - apply (cpaths_nodup p); [exact Hwf|exact Hs|].
    rewrite Forall_forall in *. intros c Hc. apply IH; [exact Hc| |exact (Hf c Hc)].
    unfold wf_children in Hwf. rewrite Forall_forall in Hwf. exact (proj2 (Hwf c Hc)).
Qed.

Theorem rows_nodup r : report_ok r -> NoDup (rows r).
Proof.
  intros ((W1 & W2 & P1 & P2) & S1 & S2 & T1 & T2 & _). unfold rows.
  pose proof (npaths_nodup _ W1 S1) as N1. pose proof (npaths_nodup _ W2 S2) as N2.
  destruct (r_al r) as [s1 p1 hv1 a1 ch1], (r_eie r) as [s2 p2 hv2 a2 ch2].
  rewrite npaths_unfold in N1, N2. cbn [n_children] in *.
  apply nodup_app; [inversion N1; assumption|inversion N2; assumption|].
  intros x H1 H2. pose proof (T1 x H1) as E1. pose proof (T2 x H2) as E2. congruence.
Qed.

(* ------------------------------------------------------------ the account blocks, one per node *)

Lemma account_rows_paths rc r : Permutation (map fst (account_rows rc r)) (rows r).
Proof.
  unfold account_rows, rows, sorted_al, sorted_eie. rewrite map_map. cbn [fst].
  change (fun x : str * account * ramounts => snd (fst x)) with l_path.
  rewrite map_app. apply Permutation_app.
  - rewrite <- clines_paths. apply Permutation_map. apply clines_sort.
  - rewrite <- clines_paths. apply Permutation_map. apply clines_sort.
Qed.

Definition line_block (rc : render_cfg) (dates : list Z) (l : str * account * ramounts) : account * list (list cell) :=
  (l_path l, acct_lines rc dates (l_path l) (l_amts l)).

(* lines of a well-formed subtree: the segment is the last element of the path *)
Lemma node_blocks_lines rc dates neg_ : forall n indent,
  wf_node n -> n_path n <> [] -> n_seg n = last (n_path n) [] -> indent = name_indent (n_path n) ->
  (forall x, In x (npaths n) -> negb (is_AL x) = neg_) ->
  node_blocks rc dates indent neg_ n = map (line_block rc dates) (tree_lines n).
Proof.
  induction n as [s p hv a ch IH] using node_ind_size. intros indent Hwf Hne Hseg Hind Hty.
  cbn [n_path n_seg] in *. cbn [node_blocks tree_lines map]. f_equal.
  - unfold line_block, l_path, l_amts, acct_lines. cbn [fst snd]. f_equal.
    rewrite <- Hseg, <- Hind, (Hty p (or_introl eq_refl)). reflexivity.
  - rewrite map_flat_map'. apply flat_map_ext_in. intros c Hc.
    apply wf_node_children in Hwf. unfold wf_children in Hwf. rewrite Forall_forall in Hwf, IH.
    destruct (Hwf c Hc) as [Hp Hwc].
    apply (IH c Hc); [exact Hwc| | | |].
    + rewrite Hp. intros E. apply app_eq_nil in E. destruct E; discriminate.
    + rewrite Hp. symmetry. apply last_last.
    + rewrite Hp, Hind. unfold name_indent. rewrite app_length. cbn [length]. lia.
    + intros x Hx. apply Hty. rewrite npaths_unfold. right. rewrite cpaths_flat_map. apply in_flat_map. exists c. split; assumption.
Qed.

Lemma top_blocks_lines rc dates neg_ root :
  wf_node root -> n_path root = [] ->
  (forall x, In x (cpaths (n_children root)) -> negb (is_AL x) = neg_) ->
  flat_map (node_blocks rc dates 0 neg_) (n_children root) = map (line_block rc dates) (flat_map tree_lines (n_children root)).
Proof.
  intros Hwf Hp Hty. destruct root as [s p hv a ch]. cbn [n_path n_children] in *. subst p.
  apply wf_node_children in Hwf. unfold wf_children in Hwf. rewrite Forall_forall in Hwf.
  rewrite map_flat_map'. apply flat_map_ext_in. intros c Hc. destruct (Hwf c Hc) as [Hpc Hwc]. cbn [app] in Hpc.
  apply node_blocks_lines; [exact Hwc|rewrite Hpc; discriminate|rewrite Hpc; reflexivity|rewrite Hpc; reflexivity|].
  intros x Hx. apply Hty. rewrite cpaths_flat_map. apply in_flat_map. exists c. split; assumption.
Qed.

(* sorting keeps the invariants that the layout needs *)
Lemma node_sort_path alpha valued n : n_path (node_sort alpha valued n) = n_path n.
Proof. destruct n; reflexivity. Qed.
Lemma node_sort_seg alpha valued n : n_seg (node_sort alpha valued n) = n_seg n.
Proof. destruct n; reflexivity. Qed.

Lemma node_sort_wf alpha valued n : wf_node n -> wf_node (node_sort alpha valued n).
Proof.
  induction n as [s p hv a ch IH] using node_ind_size. intros Hwf.
  apply wf_node_children in Hwf. cbn [node_sort]. apply wf_node_children.
  unfold wf_children in *. eapply Permutation_Forall; [symmetry; apply sort_by_perm|].
  rewrite Forall_forall in *. intros c' Hc'. apply in_map_iff in Hc'. destruct Hc' as (c & <- & Hc).
  destruct (Hwf c Hc) as [Hp Hwc]. rewrite node_sort_path, node_sort_seg. split; [exact Hp|apply IH; assumption].
Qed.

Lemma cpaths_sort_in alpha valued n x :
  In x (cpaths (n_children (node_sort alpha valued n))) <-> In x (cpaths (n_children n)).
Proof.
  rewrite <- !clines_paths. split; apply Permutation_in; apply Permutation_map;
    [apply clines_sort|symmetry; apply clines_sort].
Qed.

Theorem account_blocks_rows rc r dates :
  report_ok r ->
  account_blocks rc r dates = map (fun pa => (fst pa, acct_lines rc dates (fst pa) (snd pa))) (account_rows rc r).
Proof.
  intros ((W1 & W2 & P1 & P2) & S1 & S2 & T1 & T2 & _).
  unfold account_blocks, account_rows. rewrite map_map, map_app. cbn [fst snd].
  change (fun x : str * account * ramounts => (snd (fst x), acct_lines rc dates (snd (fst x)) (snd x))) with (line_block rc dates).
  f_equal.
  - apply top_blocks_lines; [apply node_sort_wf; exact W1|unfold sorted_al; rewrite node_sort_path; exact P1|].
    intros x Hx. apply cpaths_sort_in in Hx. rewrite (T1 x Hx). reflexivity.
  - apply top_blocks_lines; [apply node_sort_wf; exact W2|unfold sorted_eie; rewrite node_sort_path; exact P2|].
    intros x Hx. apply cpaths_sort_in in Hx. rewrite (T2 x Hx). reflexivity.
Qed.
