(* C08 round trip, part 2: the lexical classes of the leaves (commodity, decimal, account,
   date, quoted string, interval), blanks, comments -- as predicates on byte strings -- and for
   each of them the two context lemmas:

   [i_X]     (inversion)    a successful run of parse_X from a valid state consumed a string of
                            the class (so every leaf of a parsed tree is in its class);
   [X_cons]  (construction) in front of (w ++ r), w in the class and r not extending it,
                            parse_X succeeds, consumes exactly w and yields the range of w.

   The classes record the decisions the parser took on the way (no leading '-' without sign,
   ':' and '.' end an alphanumeric / digit run, ...), so that no assumption on the letter /
   digit classification is needed for them.  What the formatter inserts after a token (blank,
   newline, ',' or ')') must not extend it: that is [class_ok].                              *)
From Coq Require Import ZArith List Bool Lia ZifyBool.
From Knut Require Import Model.Bytes Model.Utf8 Model.Scanner Model.Parser
  Proofs.ScannerProofs Proofs.ParserProofs Proofs.RoundTripBase.
Import ListNotations.
Open Scope bool_scope.
Open Scope Z_scope.

(* ------------------------------------------------------------------ the classes *)

(* the code points the formatter puts, or the grammar guarantees, behind a token *)
Definition seps : list Z := [9; 10; 13; 32; 41; 44].

(* hypotheses on the classification of letters and digits: separators and the comment
   markers # * / are neither, and 'i' (of `include`) is alphanumeric *)
Record class_ok (letter digit : Z -> bool) : Prop := mkClassOk {
  co_sep : forall c, In c [9; 10; 13; 32; 35; 41; 42; 44; 47] -> letter c = false /\ digit c = false;
  co_i : letter 105 || digit 105 = true
}.

Section Lex.
Variable dec : str -> Z * Z.
Variables letter digit : Z -> bool.
Hypothesis Hdec : decoder_ok dec.

Notation chunk := (chunk dec).
Notation cls := (cls dec).
Notation fr := (fr dec).

Definition alnum (c : Z) : bool := letter c || digit c.

Definition lex_commodity (w : str) : Prop := cls alnum w /\ w <> [].

Definition lex_decimal (w : str) : Prop :=
  exists sg ip fp, w = sg ++ ip ++ fp /\
    (sg = [45] \/ (sg = [] /\ fr ip <> 45)) /\
    cls digit ip /\ ip <> [] /\
    (fp = [] \/ (digit 46 = false /\ exists f, fp = 46 :: f /\ cls digit f /\ f <> [])).

Definition seg_ok (x : str) : Prop := cls alnum x /\ x <> [].

Definition lex_account (w : str) (macro : bool) : Prop :=
  if macro then exists l, w = 36 :: l /\ cls letter l /\ l <> []
  else fr w <> 36 /\
       exists seg segs, w = seg ++ concat (map (cons 58) segs) /\ seg_ok seg /\ Forall seg_ok segs /\
                        (segs <> [] -> alnum 58 = false).

Inductive digs : nat -> str -> Prop :=
| digs_O : digs O []
| digs_S k c b x : chunk c b -> digit c = true -> digs k x -> digs (S k) (b ++ x).

Definition lex_date (w : str) : Prop :=
  exists y m d, w = y ++ 45 :: m ++ 45 :: d /\ digs 4 y /\ digs 2 m /\ digs 2 d.

Definition notquote (r : Z) : bool := negb (r =? 34).
Definition lex_quoted (c : str) : Prop := cls notquote c.

Definition lex_interval (w : str) : Prop := In w [kw_daily; kw_weekly; kw_monthly; kw_quarterly].

Definition wsl (w : str) : Prop := cls is_whitespace w.

(* r starts with a separator or is empty *)
Definition sepr (r : str) : Prop := fr r = eof \/ In (fr r) seps.

(* ---- facts ---- *)

Lemma fr_cls_app p x r : cls p x -> x <> [] -> fr (x ++ r) = fr x.
Proof using.
  intros Hx Hne. destruct Hx as [|c b x Hc Hp Hx]; [congruence|].
  rewrite <- app_assoc, (fr_chunk dec c b _ Hc). symmetry. apply (fr_chunk dec c b x Hc).
Qed.

Lemma digs_runs k x : digs k x -> runs dec x.
Proof using. induction 1; [constructor|econstructor; eauto]. Qed.

Lemma digs_first k x r : digs (S k) x -> fr (x ++ r) = fr x /\ digit (fr x) = true /\ fr x <> eof.
Proof using Hdec.
  intros H. inversion H as [|k' c b x' Hc Hd Hx]. subst.
  rewrite <- app_assoc, !(fr_chunk dec c b _ Hc). split; [reflexivity|]. split; [assumption|].
  eapply chunk_not_eof; eauto.
Qed.

Lemma lex_date_first w r : lex_date w -> fr (w ++ r) = fr w /\ digit (fr w) = true /\ fr w <> eof.
Proof using Hdec.
  intros (y & m & d & -> & Hy & _). rewrite <- app_assoc.
  destruct (digs_first 3 y (45 :: m ++ 45 :: d) Hy) as (H1 & H2 & H3).
  destruct (digs_first 3 y ((45 :: m ++ 45 :: d) ++ r) Hy) as (H4 & _).
  rewrite H1, H4. auto.
Qed.

Lemma sepr_nil : sepr [].
Proof using. left. reflexivity. Qed.

Lemma sepr_cons b r : In b seps -> sepr (b :: r).
Proof using Hdec.
  intros Hb. right. rewrite (fr_ascii dec Hdec b r); [exact Hb|].
  unfold seps in Hb. cbn [In] in Hb. lia.
Qed.

Lemma wsl_first W r : wsl W -> W <> [] -> In (fr (W ++ r)) [32; 9; 13].
Proof using Hdec.
  intros HW Hne. destruct (cls_first dec Hdec _ W r HW Hne) as (_ & H).
  unfold is_whitespace in H. cbn [In]. lia.
Qed.

Lemma sepr_wsl W r : wsl W -> sepr r -> sepr (W ++ r).
Proof using Hdec.
  intros HW Hr. destruct W as [|b W'] eqn:HeqW; [exact Hr|]. rewrite <- HeqW in *.
  assert (Hne : W <> []) by (rewrite HeqW; discriminate).
  right. pose proof (wsl_first W r HW Hne) as H. unfold seps. cbn [In] in *. lia.
Qed.

Section ClassOk.
Hypothesis Hcls : class_ok letter digit.

Lemma sep_class c : In c seps -> letter c = false /\ digit c = false.
Proof using Hcls. intros H. apply (co_sep _ _ Hcls). unfold seps in H. cbn [In] in *. lia. Qed.

Lemma sepr_stops_alnum r : sepr r -> stops dec alnum r.
Proof using Hcls.
  unfold stops, alnum. intros [->|H]; [now rewrite andb_false_r|].
  destruct (sep_class _ H) as (-> & ->). reflexivity.
Qed.

Lemma sepr_stops_digit r : sepr r -> stops dec digit r.
Proof using Hcls.
  unfold stops. intros [->|H]; [now rewrite andb_false_r|].
  destruct (sep_class _ H) as (_ & ->). reflexivity.
Qed.

Lemma sepr_stops_letter r : sepr r -> stops dec letter r.
Proof using Hcls.
  unfold stops. intros [->|H]; [now rewrite andb_false_r|].
  destruct (sep_class _ H) as (-> & _). reflexivity.
Qed.

Lemma sepr_not r c : sepr r -> ~ In c seps -> c <> eof -> fr r <> c.
Proof using. intros [->|H] Hn Hc; congruence. Qed.

(* an alphanumeric rune is no blank, newline or comment marker *)
Lemma alnum_not_sep c : alnum c = true -> ~ In c [9; 10; 13; 32; 35; 41; 42; 44; 47].
Proof using Hcls.
  intros Ha Hin. destruct (co_sep _ _ Hcls c Hin) as (H1 & H2). unfold alnum in Ha. rewrite H1, H2 in Ha. discriminate.
Qed.

End ClassOk.

End Lex.

(* ------------------------------------------------------------------ the monad, both ways *)

Lemma bind_ok {A B} (m : M A) (f : A -> M B) s a s1 b s2 :
  m s = Ok a s1 -> f a s1 = Ok b s2 -> bind m f s = Ok b s2.
Proof. intros H1 H2. unfold bind. now rewrite H1. Qed.

Lemma annot_ok {A} sc (m : M A) s a s' : m s = Ok a s' -> annot sc m s = Ok a s'.
Proof. intros H. unfold annot. now rewrite H. Qed.

Lemma ifM_true {A} (c : state -> bool) (a b : M A) s r : c s = true -> a s = r -> ifM c a b s = r.
Proof. intros H1 H2. unfold ifM. now rewrite H1. Qed.

Lemma ifM_false {A} (c : state -> bool) (a b : M A) s r : c s = false -> b s = r -> ifM c a b s = r.
Proof. intros H1 H2. unfold ifM. now rewrite H1. Qed.

Ltac run H := eapply bind_ok; [exact H|cbv beta].

Section WithEnv.
Variable E : env.
Hypothesis Hlen : e_len E = Z.of_nat (length (e_text E)).
Hypothesis Hfuel : (length (e_text E) < e_fuel E)%nat.
Hypothesis Hdec : decoder_ok (e_decode E).
Hypothesis Hloc : decoder_local (e_decode E).

Notation t := (e_text E).
Notation len := (e_len E).
Notation dec := (e_decode E).
Notation letter := (e_letter E).
Notation digit := (e_digit E).
Notation chunk := (chunk dec).
Notation runs := (runs dec).
Notation cls := (cls dec).
Notation fr := (fr dec).
Notation At := (At E).
Notation VInv := (VInv E).
Notation Win := (Win).
Notation stops := (stops dec).
Notation sepr := (sepr dec).
Notation alnum := (alnum letter digit).
Notation lex_commodity := (lex_commodity dec letter digit).
Notation lex_decimal := (lex_decimal dec digit).
Notation lex_account := (lex_account dec letter digit).
Notation lex_date := (lex_date dec digit).
Notation lex_quoted := (lex_quoted dec).
Notation digs := (digs dec digit).
Notation wsl := (wsl dec).
Notation seg_ok := (seg_ok dec letter digit).

Local Notation At_cur := (RoundTripBase.At_cur E Hlen Hfuel Hdec Hloc).
Local Notation At_off := (RoundTripBase.At_off E Hlen Hfuel Hdec Hloc).
Local Notation At_slice := (RoundTripBase.At_slice E Hlen Hfuel Hdec Hloc).
Local Notation win_slice := (RoundTripBase.win_slice E Hlen Hfuel Hdec Hloc).
Local Notation win_off := (RoundTripBase.win_off E Hlen Hfuel Hdec Hloc).
Local Notation vinv_cur_fr := (RoundTripBase.vinv_cur_fr E Hlen Hfuel Hdec Hloc).
Local Notation rw_cons := (RoundTripBase.read_while_cons E Hlen Hfuel Hdec Hloc).
Local Notation rw1_cons := (RoundTripBase.read_while1_cons E Hlen Hfuel Hdec Hloc).
Local Notation rc_cons := (RoundTripBase.read_character_cons E Hlen Hfuel Hdec Hloc).
Local Notation rcw_cons := (RoundTripBase.read_character_with_cons E Hlen Hfuel Hdec Hloc).
Local Notation rs_cons := (RoundTripBase.read_string_cons E Hlen Hfuel Hdec Hloc).
Local Notation ra_cons := (RoundTripBase.read_alternative_cons E Hlen Hfuel Hdec Hloc).

(* ---- inversion: post-conditions of successful runs ---- *)

Definition ipost {A} (Q : A -> state -> Prop) (o : Z) (r : res A) : Prop :=
  match r with
  | Ok a s' => VInv s' /\ o <= off s' /\ Q a s'
  | _ => True
  end.

Lemma ipost_bind {A B} (m : M A) (f : A -> M B) s o (Q1 : A -> state -> Prop) (Q : B -> state -> Prop) :
  ipost Q1 (off s) (m s) -> o <= off s ->
  (forall a s1, VInv s1 -> off s <= off s1 -> Q1 a s1 -> ipost Q o (f a s1)) ->
  ipost Q o (bind m f s).
Proof using All.
  intros Hm Ho Hf. unfold bind. destruct (m s) as [a s1|e s1|]; cbn [ipost] in *; auto.
  destruct Hm as (HV & Hle & Hq). specialize (Hf a s1 HV Hle Hq).
  destruct (f a s1) as [b s2|e s2|]; cbn [ipost] in *; auto.
Qed.

Lemma ipost_annot {A} sc (m : M A) s o (Q : A -> state -> Prop) :
  ipost Q o (m s) -> ipost Q o (annot sc m s).
Proof using All. intros Hm. unfold annot. destruct (m s); cbn [ipost] in *; auto. Qed.

Lemma ipost_ret {A} (a : A) s o (Q : A -> state -> Prop) :
  VInv s -> o <= off s -> Q a s -> ipost Q o (ret a s).
Proof using All. intros. unfold ret. cbn [ipost]. auto. Qed.

Lemma ipost_ok {A} (a : A) s o (Q : A -> state -> Prop) :
  VInv s -> o <= off s -> Q a s -> ipost Q o (Ok a s).
Proof using All. intros. cbn [ipost]. auto. Qed.

Lemma ipost_ret_with {A} sc (f : range -> A) s o (Q : A -> state -> Prop) :
  VInv s -> o <= off s -> Q (f (mkRange (sc_start sc) (off s))) s -> ipost Q o (ret_with sc f s).
Proof using All. intros. unfold ret_with, scope_range. cbn [ipost]. auto. Qed.

Lemma ipost_weaken {A} (Q Q' : A -> state -> Prop) o o' r :
  ipost Q o r -> o' <= o -> (forall a s', VInv s' -> o <= off s' -> Q a s' -> Q' a s') -> ipost Q' o' r.
Proof using All.
  intros H Ho HQ. destruct r as [a s'|e s'|]; cbn [ipost] in *; auto.
  destruct H as (HV & Hle & Hq). split; [assumption|]. split; [lia|auto].
Qed.

Lemma ipost_elim {A} (Q : A -> state -> Prop) o m a s' :
  ipost Q o m -> m = Ok a s' -> VInv s' /\ o <= off s' /\ Q a s'.
Proof using All. intros H ->. exact H. Qed.

(* ---- the primitives as post-conditions ---- *)

Lemma i_rw p s : VInv s ->
  ipost (fun rg s' => rg = mkRange (off s) (off s') /\
           exists x, cls p x /\ Win s x s' /\ p (cur s') && negb (cur s' =? eof) = false)
        (off s) (read_while E p s).
Proof using All.
  intros HV. destruct (read_while E p s) as [rg s'|e s'|] eqn:H; cbn [ipost]; auto.
  destruct (inv_read_while E Hlen Hfuel Hdec Hloc p s rg s' HV H) as (HV' & Hrg & Hle & x & Hx & Hw & _ & Hst).
  split; [assumption|]. split; [assumption|]. split; [assumption|]. eauto.
Qed.

Lemma i_rw1 p s : VInv s ->
  ipost (fun rg s' => rg = mkRange (off s) (off s') /\ off s < off s' /\
           exists x, cls p x /\ x <> [] /\ Win s x s' /\ p (cur s') && negb (cur s' =? eof) = false)
        (off s) (read_while1 E p s).
Proof using All.
  intros HV. destruct (read_while1 E p s) as [rg s'|e s'|] eqn:H; cbn [ipost]; auto.
  destruct (inv_read_while1 E Hlen Hfuel Hdec Hloc p s rg s' HV H) as (HV' & Hrg & Hlt & x & Hx & Hne & Hw & Hst).
  split; [assumption|]. split; [lia|]. split; [assumption|]. split; [assumption|]. exists x. auto.
Qed.

Lemma i_rcw p s : VInv s ->
  ipost (fun rg s' => off s < off s' /\ p (cur s) = true /\ exists b, chunk (cur s) b /\ Win s b s')
        (off s) (read_character_with E p s).
Proof using All.
  intros HV. destruct (read_character_with E p s) as [rg s'|e s'|] eqn:H; cbn [ipost]; auto.
  destruct (inv_read_character_with E Hlen Hfuel Hdec Hloc p s rg s' HV H) as (HV' & Hrg & Hlt & Hp & b & Hb & Hw).
  split; [assumption|]. split; [lia|]. split; [assumption|]. split; [assumption|]. eauto.
Qed.

Lemma i_rc c s : VInv s -> 0 <= c < 128 ->
  ipost (fun rg s' => off s' = off s + 1 /\ cur s = c /\ Win s [c] s') (off s) (read_character E c s).
Proof using All.
  intros HV Hc. destruct (read_character E c s) as [rg s'|e s'|] eqn:H; cbn [ipost]; auto.
  destruct (inv_read_character E Hlen Hfuel Hdec Hloc c s rg s' HV Hc H) as (HV' & Hrg & Ho & Hcur & Hw).
  split; [assumption|]. split; [lia|]. auto.
Qed.

Lemma i_rs str s : VInv s -> Forall ascii str ->
  ipost (fun rg s' => Win s str s') (off s) (read_string E str s).
Proof using All.
  intros HV Hs. destruct (read_string E str s) as [rg s'|e s'|] eqn:H; cbn [ipost]; auto.
  destruct (inv_read_string E Hlen Hfuel Hdec Hloc str s rg s' Hs HV H) as (HV' & Hrg & Hw).
  pose proof (win_off s str s' (proj1 HV) (proj1 HV') Hw). pose proof (zlen_nonneg str).
  split; [assumption|]. split; [lia|assumption].
Qed.

Lemma i_ra ss s : VInv s -> Forall (Forall ascii) ss ->
  ipost (fun rg s' => rg = mkRange (off s) (off s') /\ exists kw, In kw ss /\ Win s kw s')
        (off s) (read_alternative E ss s).
Proof using All.
  intros HV Hs. destruct (read_alternative E ss s) as [rg s'|e s'|] eqn:H; cbn [ipost]; auto.
  destruct (inv_read_alternative E Hlen Hfuel Hdec Hloc ss s rg s' Hs HV H) as (HV' & Hrg & kw & Hin & Hw).
  pose proof (win_off s kw s' (proj1 HV) (proj1 HV') Hw). pose proof (zlen_nonneg kw).
  split; [assumption|]. split; [lia|]. split; [assumption|]. eauto.
Qed.

Tactic Notation "istep" uconstr(L) "as" simple_intropattern(xpat) ident(s1) ident(HV) ident(Hle) simple_intropattern(HQ) :=
  eapply ipost_bind; [ eapply L; eauto | lia | intros xpat s1 HV Hle; cbv beta; intros HQ ].

(* a leaf: its range is [entry, exit) and the bytes are in the class P *)
Definition leafQ (P : str -> Prop) (s : state) (rg : range) (s' : state) : Prop :=
  rg = mkRange (off s) (off s') /\ off s < off s' /\ P (slice t (off s) (off s')).

(* ------------------------------------------------------------------ blanks *)

Lemma i_ws1 s : VInv s -> ipost (fun _ _ => True) (off s) (read_whitespace1 E s).
Proof using All.
  intros HV. unfold read_whitespace1.
  destruct (negb (is_whitespace_or_newline (cur s)) && negb (cur s =? eof)); [exact I|].
  eapply ipost_weaken; [apply i_rw; assumption|lia|auto].
Qed.

Lemma ws1_cons W s r : At s (W ++ r) -> wsl W -> stops is_whitespace r ->
  (W <> [] \/ fr r = 10 \/ fr r = eof) ->
  exists s', read_whitespace1 E s = Ok (mkRange (off s) (off s')) s' /\ At s' r.
Proof using All.
  intros HA HW Hst Hc. unfold read_whitespace1.
  assert (Hg : negb (is_whitespace_or_newline (cur s)) && negb (cur s =? eof) = false).
  { rewrite (At_cur s _ HA). destruct Hc as [Hne|Hc].
    - pose proof (wsl_first dec Hdec W r HW Hne) as Hin.
      unfold is_whitespace_or_newline, is_whitespace, is_newline. cbn [In] in Hin. lia.
    - destruct W as [|b W'] eqn:HeqW.
      + cbn [app]. unfold is_whitespace_or_newline, is_whitespace, is_newline. lia.
      + rewrite <- HeqW in *. assert (Hne : W <> []) by (rewrite HeqW; discriminate).
        pose proof (wsl_first dec Hdec W r HW Hne) as Hin.
        unfold is_whitespace_or_newline, is_whitespace, is_newline. cbn [In] in Hin. lia. }
  rewrite Hg. now apply (rw_cons is_whitespace W).
Qed.

(* one blank in front of something that is no blank *)
Lemma stops_ws_not r : ~ In (fr r) [32; 9; 13] -> stops is_whitespace r.
Proof using All.
  intros H. unfold stops, is_whitespace. cbn [In] in H.
  destruct (Z.eqb_spec (fr r) 32); [lia|]. destruct (Z.eqb_spec (fr r) 9); [lia|].
  destruct (Z.eqb_spec (fr r) 13); [lia|]. reflexivity.
Qed.

Lemma wsl_sp : wsl [32].
Proof using All. apply cls_ascii; [assumption|]. repeat constructor; lia. Qed.

Lemma wsl_spaces n : wsl (repeat 32 n).
Proof using All.
  apply cls_ascii; [assumption|]. induction n; cbn [repeat]; constructor; auto. split; [lia|reflexivity].
Qed.

(* what readRestOfWhitespaceLine consumes *)
Definition rest_of_line (s s' : state) : Prop :=
  exists W, wsl W /\ ((Win s (W ++ [10]) s') \/ (Win s W s' /\ cur s' = eof)).

Lemma i_rest s : VInv s -> ipost (fun _ s' => rest_of_line s s') (off s) (read_rest_of_whitespace_line E s).
Proof using All.
  intros HV. unfold read_rest_of_whitespace_line. apply ipost_annot.
  istep i_rw as ? s1 HV1 L1 (_ & W & HW & Hw & _).
  unfold ifM, cur_is. destruct (Z.eqb_spec (cur s1) eof) as [Hc|Hc].
  - apply ipost_ret_with; [assumption|lia|]. exists W. split; [assumption|]. right. auto.
  - istep i_rc as ? s2 HV2 L2 (_ & _ & Hw2). { lia. }
    apply ipost_ret_with; [assumption|lia|]. exists W. split; [assumption|]. left.
    eapply win_trans; eauto.
Qed.

Lemma rest_nl_cons W s r : At s (W ++ 10 :: r) -> wsl W ->
  exists rg s', read_rest_of_whitespace_line E s = Ok rg s' /\ At s' r.
Proof using All.
  intros HA HW. unfold read_rest_of_whitespace_line. cbv zeta.
  destruct (rw_cons is_whitespace W s (10 :: r) HA HW) as (s1 & H1 & A1).
  { apply stops_ws_not. rewrite (fr_ascii dec Hdec 10 r) by lia. cbn [In]. lia. }
  destruct (rc_cons 10 s1 r A1) as (s2 & H2 & A2). { lia. }
  eexists _, s2. split; [|exact A2]. apply annot_ok. run H1.
  apply ifM_false. { unfold cur_is. rewrite (At_cur s1 _ A1), (fr_ascii dec Hdec 10 r) by lia. reflexivity. }
  run H2. reflexivity.
Qed.

Lemma rest_eof_cons W s : At s W -> wsl W ->
  exists rg s', read_rest_of_whitespace_line E s = Ok rg s' /\ At s' [].
Proof using All.
  intros HA HW. unfold read_rest_of_whitespace_line. cbv zeta.
  rewrite <- (app_nil_r W) in HA.
  destruct (rw_cons is_whitespace W s [] HA HW) as (s1 & H1 & A1).
  { unfold RoundTripBase.stops. cbn [RoundTripBase.fr]. now rewrite andb_false_r. }
  eexists _, s1. split; [|exact A1]. apply annot_ok. run H1.
  apply ifM_true. { unfold cur_is. now rewrite (At_cur s1 _ A1). }
  reflexivity.
Qed.

(* ------------------------------------------------------------------ comments *)

Definition notnl (r : Z) : bool := negb (is_newline_or_eof r).

Definition markers : list str := [kw_star; kw_slashes; kw_hash].

Lemma markers_ascii : Forall (Forall ascii) markers.
Proof using All. repeat constructor; unfold ascii; lia. Qed.

Lemma i_comment s : VInv s ->
  ipost (fun _ s' => exists m body, In m markers /\ cls notnl body /\ Win s (m ++ body) s' /\
                     (cur s' = 10 \/ cur s' = eof))
        (off s) (read_comment E s).
Proof using All.
  intros HV. unfold read_comment. apply ipost_annot.
  istep i_ra as rg s1 HV1 L1 (_ & m & Hm & Hw1). { apply markers_ascii. }
  istep i_rw as ? s2 HV2 L2 (_ & body & Hb & Hw2 & Hst).
  apply ipost_ret_with; [assumption|lia|]. exists m, body. split; [assumption|]. split; [assumption|].
  split; [eapply win_trans; eauto|]. unfold is_newline_or_eof in Hst. lia.
Qed.

Lemma comment_cons m body s r : At s (m ++ body ++ r) -> In m markers -> cls notnl body ->
  (fr r = 10 \/ fr r = eof) ->
  exists rg s', read_comment E s = Ok rg s' /\ At s' r.
Proof using All.
  intros HA Hm Hb Hr. unfold read_comment. cbv zeta.
  assert (H1 : exists s1, read_alternative E [kw_star; kw_slashes; kw_hash] s = Ok (mkRange (off s) (off s1)) s1 /\ At s1 (body ++ r)).
  { pose proof markers_ascii as Hasc. unfold markers in Hm, Hasc. cbn [In] in Hm.
    destruct Hm as [<-|[<-|[<-|[]]]].
    - apply (ra_cons [] kw_star [kw_slashes; kw_hash]); [exact Hasc|exact HA|discriminate|constructor].
    - apply (ra_cons [kw_star] kw_slashes [kw_hash]); [exact Hasc|exact HA|discriminate|].
      repeat constructor. intros r' H. discriminate H.
    - apply (ra_cons [kw_star; kw_slashes] kw_hash []); [exact Hasc|exact HA|discriminate|].
      repeat constructor; intros r' H; discriminate H. }
  destruct H1 as (s1 & H1 & A1).
  destruct (rw_cons notnl body s1 r A1 Hb) as (s2 & H2 & A2).
  { unfold RoundTripBase.stops, notnl, is_newline_or_eof. lia. }
  eexists _, s2. split; [|exact A2]. apply annot_ok. run H1. run H2. reflexivity.
Qed.

(* ------------------------------------------------------------------ commodity *)

Lemma i_commodity s : VInv s -> ipost (leafQ lex_commodity s) (off s) (parse_commodity E s).
Proof using All.
  intros HV. unfold parse_commodity. apply ipost_annot.
  istep i_rw1 as rg s1 HV1 L1 (_ & Hlt & x & Hx & Hne & Hw & _).
  apply ipost_ret_with; [assumption|lia|]. prj. split; [reflexivity|]. split; [assumption|].
  rewrite (win_slice s x s1 (proj1 HV) (proj1 HV1) Hw). split; assumption.
Qed.

Lemma commodity_cons w s r : At s (w ++ r) -> lex_commodity w -> stops alnum r ->
  exists s', parse_commodity E s = Ok (mkRange (off s) (off s')) s' /\ At s' r.
Proof using All.
  intros HA (Hw & Hne) Hst. unfold parse_commodity. cbv zeta.
  destruct (rw1_cons alnum w s r HA Hw Hne Hst) as (s1 & H1 & A1).
  exists s1. split; [|exact A1]. apply annot_ok. run H1. reflexivity.
Qed.

(* ------------------------------------------------------------------ decimal *)

Lemma i_decimal s : VInv s -> ipost (leafQ lex_decimal s) (off s) (parse_decimal E s).
Proof using All.
  intros HV. unfold parse_decimal. apply ipost_annot.
  eapply ipost_bind with (Q1 := fun _ s1 => exists sg, Win s sg s1 /\ (sg = [45] \/ (sg = [] /\ cur s <> 45))); [|lia|].
  { unfold ifM, cur_is. destruct (Z.eqb_spec (cur s) 45) as [H45|H45].
    - istep i_rc as ? s1 HV1 L1 (_ & _ & Hw). { lia. }
      apply ipost_ret; [assumption|lia|]. exists [45]. auto.
    - apply ipost_ret; [assumption|lia|]. exists []. split; [apply win_nil|auto]. }
  intros _ s1 HV1 L1 (sg & Hwsg & Hsg).
  istep i_rw1 as rg s2 HV2 L2 (_ & Hlt & ip & Hip & Hipne & Hwip & Hst).
  assert (Hsg' : sg = [45] \/ (sg = [] /\ fr ip <> 45)).
  { destruct Hsg as [?|(-> & Hc)]; [now left|right]. split; [reflexivity|].
    rewrite (vinv_cur_fr s HV) in Hc. unfold RoundTripBase.Win in Hwsg, Hwip. cbn [app] in Hwsg.
    rewrite Hwsg, Hwip, (fr_cls_app dec _ ip _ Hip Hipne) in Hc. exact Hc. }
  unfold ifM. destruct (Z.eqb_spec (cur s2) 46) as [H46|H46]; cbn [negb].
  - istep i_rc as ? s3 HV3 L3 (_ & _ & Hw3). { lia. }
    istep i_rw1 as rg4 s4 HV4 L4 (_ & Hlt4 & f & Hf & Hfne & Hwf & _).
    apply ipost_ret_with; [assumption|lia|]. prj. split; [reflexivity|]. split; [lia|].
    pose proof (win_trans _ _ _ _ _ Hwsg (win_trans _ _ _ _ _ Hwip (win_trans _ _ _ _ _ Hw3 Hwf))) as Hw.
    rewrite (win_slice s _ s4 (proj1 HV) (proj1 HV4) Hw).
    exists sg, ip, (46 :: f). split; [reflexivity|]. split; [assumption|]. split; [assumption|].
    split; [assumption|]. right. split; [|exists f; auto].
    rewrite H46 in Hst. unfold eof in Hst. lia.
  - apply ipost_ret_with; [assumption|lia|]. prj. split; [reflexivity|]. split; [lia|].
    pose proof (win_trans _ _ _ _ _ Hwsg Hwip) as Hw.
    rewrite (win_slice s _ s2 (proj1 HV) (proj1 HV2) Hw).
    exists sg, ip, []. rewrite app_nil_r. split; [reflexivity|]. auto.
Qed.

Lemma decimal_cons w s r : At s (w ++ r) -> lex_decimal w -> stops digit r -> fr r <> 46 ->
  exists s', parse_decimal E s = Ok (mkRange (off s) (off s')) s' /\ At s' r.
Proof using All.
  intros HA (sg & ip & fp & -> & Hsg & Hip & Hipne & Hfp) Hst H46.
  rewrite <- !app_assoc in HA.
  assert (H1 : exists s1, ifM (cur_is 45) (do _ <- read_character E 45; ret tt) (ret tt) s = Ok tt s1 /\
                          At s1 (ip ++ fp ++ r) /\ off s <= off s1).
  { destruct Hsg as [->|(-> & Hn)].
    - cbn [app] in HA. destruct (rc_cons 45 s _ HA) as (s1 & H1 & A1). { lia. }
      exists s1. split; [|split; [exact A1|]].
      + apply ifM_true. { unfold cur_is. rewrite (At_cur s _ HA), (fr_ascii dec Hdec 45 _) by lia. reflexivity. }
        run H1. reflexivity.
      + change (45 :: ip ++ fp ++ r) with ([45] ++ ip ++ fp ++ r) in HA.
        rewrite (At_off s [45] _ s1 HA A1). rewrite zlen_cons, zlen_nil. lia.
    - cbn [app] in HA. exists s. split; [|split; [exact HA|lia]].
      apply ifM_false; [|reflexivity]. unfold cur_is.
      rewrite (At_cur s _ HA), (fr_cls_app dec _ ip _ Hip Hipne). now apply Z.eqb_neq. }
  destruct H1 as (s1 & H1 & A1 & L1).
  assert (Hst2 : stops digit (fp ++ r)).
  { destruct Hfp as [->|(Hd & f & -> & _)]; [exact Hst|].
    unfold RoundTripBase.stops. cbn [app]. rewrite (fr_ascii dec Hdec 46 _) by lia. now rewrite Hd. }
  destruct (rw1_cons digit ip s1 _ A1 Hip Hipne Hst2) as (s2 & H2 & A2).
  assert (H3 : exists s', ifM (fun s1 => negb (cur s1 =? 46))
                 (ret_with (new_scope DDec s) (fun r => r))
                 (do _ <- read_character E 46; do _ <- read_while1 E digit; ret_with (new_scope DDec s) (fun r => r)) s2
               = Ok (mkRange (off s) (off s')) s' /\ At s' r).
  { destruct Hfp as [->|(Hd & f & -> & Hf & Hfne)].
    - exists s2. split; [|exact A2]. apply ifM_true; [|reflexivity].
      cbn [app] in A2. rewrite (At_cur s2 _ A2). apply negb_true_iff. now apply Z.eqb_neq.
    - cbn [app] in A2. destruct (rc_cons 46 s2 _ A2) as (s3 & H3 & A3). { lia. }
      destruct (rw1_cons digit f s3 r A3 Hf Hfne Hst) as (s4 & H4 & A4).
      exists s4. split; [|exact A4]. apply ifM_false.
      { rewrite (At_cur s2 _ A2), (fr_ascii dec Hdec 46 _) by lia. reflexivity. }
      run H3. run H4. reflexivity. }
  destruct H3 as (s' & H3 & A').
  exists s'. split; [|exact A']. unfold parse_decimal. cbv zeta. apply annot_ok.
  run H1. run H2. exact H3.
Qed.

(* ------------------------------------------------------------------ account *)

Lemma i_account_loop sc : forall n s, VInv s ->
  ipost (fun a s' => a = mkAccount (mkRange (sc_start sc) (off s')) false /\
           exists segs, Win s (concat (map (cons 58) segs)) s' /\ Forall seg_ok segs /\
                        (segs <> [] -> cur s = 58))
        (off s) (account_loop E sc n s).
Proof using All.
  induction n as [|n IH]; intros s HV; cbn [account_loop]; [exact I|].
  unfold ifM. destruct (Z.eqb_spec (cur s) 58) as [H58|H58]; cbn [negb].
  - istep i_rc as ? s1 HV1 L1 (_ & _ & Hw1). { lia. }
    istep i_rw1 as rg s2 HV2 L2 (_ & Hlt & x & Hx & Hne & Hw2 & _).
    eapply ipost_weaken; [apply (IH s2 HV2)|lia|].
    intros acc s' _ _ (Ha & segs & Hw & Hsegs & _). split; [assumption|].
    exists (x :: segs). split; [|split; [constructor; [split|]; assumption|auto]].
    cbn [map concat]. change (58 :: x) with ([58] ++ x). rewrite <- app_assoc.
    eapply win_trans; [exact Hw1|]. eapply win_trans; eauto.
  - apply ipost_ret_with; [assumption|lia|]. split; [reflexivity|].
    exists []. split; [apply win_nil|]. split; [constructor|congruence].
Qed.

Definition accQ (s : state) (a : account) (s' : state) : Prop :=
  acc_range a = mkRange (off s) (off s') /\ off s < off s' /\
  lex_account (slice t (off s) (off s')) (acc_macro a).

Lemma i_account s : VInv s -> ipost (accQ s) (off s) (parse_account E s).
Proof using All.
  intros HV. unfold parse_account. apply ipost_annot.
  unfold ifM, cur_is. destruct (Z.eqb_spec (cur s) 36) as [H36|H36].
  - istep i_rc as ? s1 HV1 L1 (_ & _ & Hw1). { lia. }
    istep i_rw1 as rg s2 HV2 L2 (_ & Hlt & l & Hl & Hne & Hw2 & _).
    apply ipost_ret_with; [assumption|lia|]. unfold accQ. prj. split; [reflexivity|]. split; [lia|].
    pose proof (win_trans _ _ _ _ _ Hw1 Hw2) as Hw.
    rewrite (win_slice s _ s2 (proj1 HV) (proj1 HV2) Hw). exists l. auto.
  - istep i_rw1 as rg s1 HV1 L1 (_ & Hlt & seg & Hseg & Hne & Hw1 & Hst).
    eapply ipost_weaken; [apply (i_account_loop _ (loop_fuel E) s1 HV1)|lia|].
    intros acc s' HV' L' (-> & segs & Hw2 & Hsegs & H58). unfold accQ. prj.
    split; [reflexivity|]. split; [lia|].
    pose proof (win_trans _ _ _ _ _ Hw1 Hw2) as Hw.
    rewrite (win_slice s _ s' (proj1 HV) (proj1 HV') Hw). split.
    + rewrite (vinv_cur_fr s HV) in H36. unfold RoundTripBase.Win in Hw. rewrite Hw in H36.
      rewrite <- app_assoc, (fr_cls_app dec _ seg _ Hseg Hne) in H36.
      rewrite (fr_cls_app dec _ seg _ Hseg Hne). exact H36.
    + exists seg, segs. split; [reflexivity|]. split; [split; assumption|]. split; [assumption|].
      intros Hn. specialize (H58 Hn). rewrite H58 in Hst.
      unfold eof, is_alphanumeric in Hst. unfold RoundTripLeaf.alnum. lia.
Qed.

Lemma account_loop_cons sc : forall segs n s r, Forall seg_ok segs -> (segs <> [] -> alnum 58 = false) ->
  At s (concat (map (cons 58) segs) ++ r) -> stops alnum r -> fr r <> 58 ->
  (length (concat (map (cons 58%Z) segs)) < n)%nat ->
  exists s', account_loop E sc n s = Ok (mkAccount (mkRange (sc_start sc) (off s')) false) s' /\ At s' r.
Proof using All.
  induction segs as [|x segs IH]; intros n s r Hs H58 HA Hst Hr Hn.
  - destruct n as [|n]; [cbn [length] in Hn; lia|]. cbn [map concat app account_loop] in *.
    exists s. split; [|exact HA]. apply ifM_true; [|reflexivity].
    rewrite (At_cur s _ HA). apply negb_true_iff. now apply Z.eqb_neq.
  - destruct n as [|n]; [lia|]. cbn [account_loop]. cbn [map concat] in HA, Hn.
    inversion Hs as [|? ? (Hx & Hxne) Hs']. subst.
    rewrite <- app_assoc in HA. cbn [app] in HA.
    destruct (rc_cons 58 s _ HA) as (s1 & H1 & A1). { lia. }
    assert (Hst2 : stops alnum (concat (map (cons 58) segs) ++ r)).
    { destruct segs as [|y segs]; [exact Hst|]. cbn [map concat app].
      unfold RoundTripBase.stops. rewrite (fr_ascii dec Hdec 58 _) by lia.
      rewrite H58 by discriminate. reflexivity. }
    destruct (rw1_cons alnum x s1 _ A1 Hx Hxne Hst2) as (s2 & H2 & A2).
    destruct (IH n s2 r Hs') as (s' & H3 & A'); try assumption.
    { intros Hne. apply H58. discriminate. }
    { rewrite app_length in Hn. cbn [length] in Hn. lia. }
    exists s'. split; [|exact A']. apply ifM_false.
    { rewrite (At_cur s _ HA), (fr_ascii dec Hdec 58 _) by lia. reflexivity. }
    run H1. run H2. exact H3.
Qed.

Lemma account_cons w macro s r : At s (w ++ r) -> lex_account w macro ->
  stops alnum r -> stops letter r -> fr r <> 58 ->
  exists s', parse_account E s = Ok (mkAccount (mkRange (off s) (off s')) macro) s' /\ At s' r.
Proof using All.
  intros HA Hlex Hsa Hsl H58. unfold parse_account. cbv zeta. destruct macro; cbn [RoundTripLeaf.lex_account] in Hlex.
  - destruct Hlex as (l & -> & Hl & Hne). cbn [app] in HA.
    destruct (rc_cons 36 s _ HA) as (s1 & H1 & A1). { lia. }
    destruct (rw1_cons letter l s1 r A1 Hl Hne Hsl) as (s2 & H2 & A2).
    exists s2. split; [|exact A2]. apply annot_ok. apply ifM_true.
    { unfold cur_is. rewrite (At_cur s _ HA), (fr_ascii dec Hdec 36 _) by lia. reflexivity. }
    run H1. run H2. reflexivity.
  - destruct Hlex as (H36 & seg & segs & -> & (Hseg & Hsegne) & Hsegs & Hc58).
    rewrite <- app_assoc in HA.
    assert (Hst2 : stops alnum (concat (map (cons 58) segs) ++ r)).
    { destruct segs as [|y segs]; [exact Hsa|]. cbn [map concat app].
      unfold RoundTripBase.stops. rewrite (fr_ascii dec Hdec 58 _) by lia.
      rewrite Hc58 by discriminate. reflexivity. }
    destruct (rw1_cons alnum seg s _ HA Hseg Hsegne Hst2) as (s1 & H1 & A1).
    destruct (account_loop_cons (new_scope DAcc s) segs (loop_fuel E) s1 r Hsegs Hc58 A1 Hsa H58) as (s' & H2 & A').
    { pose proof (fuel_rest E Hlen Hfuel Hdec Hloc s1 (At_inv E _ _ A1)) as Hf. destruct A1 as (_ & Hr & _).
      rewrite Hr, app_length in Hf. unfold loop_fuel. lia. }
    exists s'. split; [|exact A']. apply annot_ok. apply ifM_false.
    { unfold cur_is. rewrite (At_cur s _ HA). apply Z.eqb_neq.
      rewrite (fr_cls_app dec _ seg _ Hseg Hsegne).
      rewrite (fr_cls_app dec _ seg _ Hseg Hsegne) in H36. exact H36. }
    run H1. exact H2.
Qed.

(* ------------------------------------------------------------------ date *)

Lemma i_digs k : forall s, VInv s ->
  ipost (fun _ s' => exists x, digs k x /\ Win s x s' /\ ((0 < k)%nat -> off s < off s'))
        (off s) (repeat_m k (read_character_with E digit) s).
Proof using All.
  induction k as [|k IH]; intros s HV; cbn [repeat_m].
  - apply ipost_ret; [assumption|lia|]. exists []. split; [constructor|]. split; [apply win_nil|lia].
  - istep i_rcw as ? s1 HV1 L1 (Hlt & Hp & b & Hb & Hw1).
    eapply ipost_weaken; [apply (IH s1 HV1)|lia|].
    intros _ s' _ L' (x & Hx & Hw & _). exists (b ++ x). split; [econstructor; eauto|].
    split; [eapply win_trans; eauto|lia].
Qed.

Lemma digs_cons k : forall x s r, digs k x -> At s (x ++ r) ->
  exists s', repeat_m k (read_character_with E digit) s = Ok tt s' /\ At s' r.
Proof using All.
  induction k as [|k IH]; intros x s r Hx HA; inversion Hx as [|k' c b x' Hc Hd Hx']; subst; cbn [repeat_m].
  - exists s. split; [reflexivity|exact HA].
  - rewrite <- app_assoc in HA.
    destruct (rcw_cons digit s c b _ HA Hc Hd) as (s1 & H1 & A1).
    destruct (IH x' s1 r Hx' A1) as (s' & H2 & A'). exists s'. split; [|exact A']. run H1. exact H2.
Qed.

Lemma i_dash2 s : VInv s ->
  ipost (fun _ s' => exists x, digs 2 x /\ Win s (45 :: x) s')
        (off s) ((do _ <- read_character E 45; repeat_m 2 (read_character_with E digit)) s).
Proof using All.
  intros HV.
  istep i_rc as ? s2 HV2 L2 (_ & _ & Hw2). { lia. }
  eapply ipost_weaken; [apply (i_digs 2 s2 HV2)|lia|].
  intros _ s' _ _ (x & Hx & Hw & _). exists x. split; [assumption|].
  change (45 :: x) with ([45] ++ x). eapply win_trans; eauto.
Qed.

Lemma dash2_cons x s r : digs 2 x -> At s (45 :: x ++ r) ->
  exists s', (do _ <- read_character E 45; repeat_m 2 (read_character_with E digit)) s = Ok tt s' /\ At s' r.
Proof using All.
  intros Hx HA.
  destruct (rc_cons 45 s _ HA) as (s2 & H2 & A2). { lia. }
  destruct (digs_cons 2 x s2 _ Hx A2) as (s3 & H3 & A3).
  exists s3. split; [|exact A3]. run H2. exact H3.
Qed.

Lemma i_date s : VInv s -> ipost (leafQ lex_date s) (off s) (parse_date E s).
Proof using All.
  intros HV. unfold parse_date. apply ipost_annot.
  istep (i_digs 4) as ? s1 HV1 L1 (y & Hy & Hwy & Hlt).
  change (repeat_m 2 (do _ <- read_character E 45; repeat_m 2 (read_character_with E digit)))
    with (do _ <- (do _ <- read_character E 45; repeat_m 2 (read_character_with E digit));
          do _ <- (do _ <- read_character E 45; repeat_m 2 (read_character_with E digit)); ret tt).
  eapply ipost_bind with (Q1 := fun _ s5 => exists m d, digs 2 m /\ digs 2 d /\ Win s1 (45 :: m ++ 45 :: d) s5); [|lia|].
  { istep i_dash2 as ? s3 HV3 L3 (m & Hm & Hwm).
    istep i_dash2 as ? s5 HV5 L5 (d & Hd & Hwd).
    apply ipost_ret; [assumption|lia|]. exists m, d. split; [assumption|]. split; [assumption|].
    change (45 :: m ++ 45 :: d) with ((45 :: m) ++ 45 :: d). eapply win_trans; eauto. }
  intros _ s5 HV5 L5 (m & d & Hm & Hd & Hw15).
  apply ipost_ret_with; [assumption|lia|]. prj. split; [reflexivity|]. split; [lia|].
  pose proof (win_trans _ _ _ _ _ Hwy Hw15) as Hw.
  rewrite (win_slice s _ s5 (proj1 HV) (proj1 HV5) Hw). exists y, m, d. split; [reflexivity|auto].
Qed.

Lemma date_cons w s r : At s (w ++ r) -> lex_date w ->
  exists s', parse_date E s = Ok (mkRange (off s) (off s')) s' /\ At s' r.
Proof using All.
  intros HA (y & m & d & -> & Hy & Hm & Hd).
  rewrite <- app_assoc in HA. cbn [app] in HA. rewrite <- app_assoc in HA. cbn [app] in HA.
  destruct (digs_cons 4 y s _ Hy HA) as (s1 & H1 & A1).
  destruct (dash2_cons m s1 _ Hm A1) as (s3 & H3 & A3).
  destruct (dash2_cons d s3 _ Hd A3) as (s5 & H5 & A5).
  exists s5. split; [|exact A5]. unfold parse_date. cbv zeta. apply annot_ok.
  run H1.
  change (repeat_m 2 (do _ <- read_character E 45; repeat_m 2 (read_character_with E digit)))
    with (do _ <- (do _ <- read_character E 45; repeat_m 2 (read_character_with E digit));
          do _ <- (do _ <- read_character E 45; repeat_m 2 (read_character_with E digit)); ret tt).
  eapply bind_ok; [|reflexivity]. run H3. run H5. reflexivity.
Qed.

(* ------------------------------------------------------------------ quoted string *)

Definition quotedQ (s : state) (q : quoted) (s' : state) : Prop :=
  qs_range q = mkRange (off s) (off s') /\ off s < off s' /\
  lex_quoted (slice t (r_start (qs_content q)) (r_end (qs_content q))).

Lemma i_quoted s : VInv s -> ipost (quotedQ s) (off s) (parse_quoted_string E s).
Proof using All.
  intros HV. unfold parse_quoted_string. apply ipost_annot.
  istep i_rc as ? s1 HV1 L1 (Ho1 & _ & _). { lia. }
  istep i_rw as c s2 HV2 L2 (Hc & x & Hx & Hw & _).
  istep i_rc as ? s3 HV3 L3 (_ & _ & _). { lia. }
  apply ipost_ret_with; [assumption|lia|]. unfold quotedQ. prj. split; [reflexivity|]. split; [lia|].
  rewrite Hc. prj. rewrite (win_slice s1 x s2 (proj1 HV1) (proj1 HV2) Hw). exact Hx.
Qed.

Lemma quoted_cons c s r : At s (34 :: c ++ 34 :: r) -> lex_quoted c ->
  exists q s', parse_quoted_string E s = Ok q s' /\ At s' r /\
    qs_range q = mkRange (off s) (off s') /\
    slice t (r_start (qs_content q)) (r_end (qs_content q)) = c.
Proof using All.
  intros HA Hc.
  destruct (rc_cons 34 s _ HA) as (s1 & H1 & A1). { lia. }
  destruct (rw_cons (notquote) c s1 _ A1 Hc) as (s2 & H2 & A2).
  { unfold RoundTripBase.stops, notquote. rewrite (fr_ascii dec Hdec 34 _) by lia. reflexivity. }
  destruct (rc_cons 34 s2 _ A2) as (s3 & H3 & A3). { lia. }
  eexists _, s3. split; [|split; [exact A3|]].
  - unfold parse_quoted_string. cbv zeta. apply annot_ok. run H1. run H2. run H3. reflexivity.
  - prj. split; [reflexivity|]. apply (At_slice s1 c _ s2 A1 A2).
Qed.

(* ------------------------------------------------------------------ interval *)

Lemma intervals_ascii : Forall (Forall ascii) [kw_daily; kw_weekly; kw_monthly; kw_quarterly].
Proof using All. repeat constructor; unfold ascii; lia. Qed.

Lemma i_interval s : VInv s -> ipost (leafQ lex_interval s) (off s) (parse_interval E s).
Proof using All.
  intros HV. unfold parse_interval. apply ipost_annot.
  istep i_ra as rg s1 HV1 L1 (_ & kw & Hin & Hw). { apply intervals_ascii. }
  pose proof (win_off s kw s1 (proj1 HV) (proj1 HV1) Hw) as Ho.
  assert (Hne : 1 <= zlen kw).
  { cbn [In] in Hin. destruct Hin as [<-|[<-|[<-|[<-|[]]]]]; reflexivity || (vm_compute; discriminate). }
  apply ipost_ret_with; [assumption|lia|]. prj. split; [reflexivity|]. split; [lia|].
  rewrite (win_slice s kw s1 (proj1 HV) (proj1 HV1) Hw). exact Hin.
Qed.

Lemma interval_cons w s r : At s (w ++ r) -> lex_interval w ->
  exists s', parse_interval E s = Ok (mkRange (off s) (off s')) s' /\ At s' r.
Proof using All.
  intros HA Hin.
  assert (H1 : exists s1, read_alternative E [kw_daily; kw_weekly; kw_monthly; kw_quarterly] s = Ok (mkRange (off s) (off s1)) s1 /\ At s1 r).
  { pose proof intervals_ascii as Hasc. unfold RoundTripLeaf.lex_interval in Hin. cbn [In] in Hin.
    destruct Hin as [<-|[<-|[<-|[<-|[]]]]].
    - apply (ra_cons [] kw_daily [kw_weekly; kw_monthly; kw_quarterly]); [exact Hasc|exact HA|discriminate|constructor].
    - apply (ra_cons [kw_daily] kw_weekly [kw_monthly; kw_quarterly]); [exact Hasc|exact HA|discriminate|].
      repeat constructor; intros r' H; discriminate H.
    - apply (ra_cons [kw_daily; kw_weekly] kw_monthly [kw_quarterly]); [exact Hasc|exact HA|discriminate|].
      repeat constructor; intros r' H; discriminate H.
    - apply (ra_cons [kw_daily; kw_weekly; kw_monthly] kw_quarterly []); [exact Hasc|exact HA|discriminate|].
      repeat constructor; intros r' H; discriminate H. }
  destruct H1 as (s1 & H1 & A1). exists s1. split; [|exact A1].
  unfold parse_interval. cbv zeta. apply annot_ok. run H1. reflexivity.
Qed.

End WithEnv.
