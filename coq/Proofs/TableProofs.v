(* Layout of the text renderer (Model/Table.v): every cell is rendered to exactly the width of
   its column, the widths dominate every cell's minimal length, hence every line is
   prefix ++ cells joined by 3-rune separators ++ suffix with the separator characters at the
   same rune positions; the rendering satisfies Spec.TableSpec.rect_b. *)
From Coq Require Import ZArith List Bool Lia Arith.
From Knut Require Import Model.Str Model.Dec Model.Table Spec.TableSpec.
Import ListNotations.
Open Scope bool_scope.
Open Scope Z_scope.

(* ------------------------------------------------------------------ runes *)
Lemma rune_count_starts s : rune_count s = Z.of_nat (length (rune_starts s)).
Proof. reflexivity. Qed.

Lemma rune_starts_app a b : rune_starts (a ++ b) = rune_starts a ++ rune_starts b.
Proof. unfold rune_starts. apply filter_app. Qed.

Lemma rune_count_app a b : rune_count (a ++ b) = rune_count a + rune_count b.
Proof. rewrite !rune_count_starts, rune_starts_app, app_length. lia. Qed.

Lemma rune_count_nonneg s : 0 <= rune_count s.
Proof. rewrite rune_count_starts. lia. Qed.

Lemma rune_starts_repeat c n : is_cont c = false -> rune_starts (repeat c n) = repeat c n.
Proof.
  intros H. induction n as [|n IH]; [reflexivity|].
  cbn [repeat]. unfold rune_starts in *. cbn [filter]. rewrite H. cbn [negb]. rewrite IH. reflexivity.
Qed.

Lemma rune_count_repeat_z c n : is_cont c = false -> 0 <= n -> rune_count (repeat_z c n) = n.
Proof.
  intros H Hn. rewrite rune_count_starts. unfold repeat_z. rewrite rune_starts_repeat by exact H.
  rewrite repeat_length. lia.
Qed.

Lemma rune_count_repeat_z_any c n : is_cont c = false -> rune_count (repeat_z c n) = Z.max 0 n.
Proof.
  intros H. rewrite rune_count_starts. unfold repeat_z. rewrite rune_starts_repeat by exact H.
  rewrite repeat_length. lia.
Qed.

Lemma rune_count_spaces n : 0 <= n -> rune_count (spaces n) = n.
Proof. intros H. unfold spaces. apply rune_count_repeat_z; [reflexivity|exact H]. Qed.

Lemma rune_count_nil : rune_count [] = 0.
Proof. reflexivity. Qed.

(* ------------------------------------------------------------------ one cell *)
Lemma pad_left_width l s : rune_count s <= l -> rune_count (pad_left l s) = l.
Proof.
  intros H. unfold pad_left. rewrite rune_count_app, rune_count_spaces by lia. lia.
Qed.

(* renderCell writes exactly l runes whenever l is at least the cell's minimal length *)
Theorem render_cell_width cfg c l :
  cell_indent_ok c -> min_length_cell cfg c <= l -> rune_count (render_cell cfg c l) = l.
Proof.
  intros Hi Hl. destruct c as [| |s al ind|n]; cbn [render_cell min_length_cell cell_indent_ok] in *.
  - apply rune_count_repeat_z; [reflexivity|exact Hl].
  - apply rune_count_spaces. exact Hl.
  - pose proof (rune_count_nonneg s) as Hs.
    rewrite !rune_count_app.
    destruct al.
    + rewrite !rune_count_spaces by lia. lia.
    + rewrite !rune_count_spaces by lia. lia.
    + assert (0 <= (l - rune_count s) / 2 <= l - rune_count s).
      { split; [apply Z.div_pos; lia|]. apply Z.div_le_upper_bound; lia. }
      rewrite !rune_count_spaces by lia. lia.
  - destruct (is_zero n).
    + apply pad_left_width. rewrite rune_count_nil. pose proof (rune_count_nonneg (num_str cfg n)). lia.
    + apply pad_left_width. exact Hl.
Qed.

(* a zero amount is rendered blank *)
Theorem render_cell_zero_blank cfg n l :
  is_zero n = true -> render_cell cfg (CNum n) l = spaces l /\ all_spaces (render_cell cfg (CNum n) l) = true.
Proof.
  intros H. cbn [render_cell]. rewrite H. unfold pad_left. rewrite app_nil_r.
  rewrite rune_count_nil, Z.sub_0_r. split; [reflexivity|].
  unfold all_spaces, spaces, repeat_z. apply forallb_forall. intros x Hx.
  apply repeat_spec in Hx. subst x. reflexivity.
Qed.

(* a non-zero amount is rendered as its numeral, right-aligned *)
Theorem render_cell_nonzero cfg n l :
  is_zero n = false -> render_cell cfg (CNum n) l = spaces (l - rune_count (num_str cfg n)) ++ num_str cfg n.
Proof. intros H. cbn [render_cell]. rewrite H. reflexivity. Qed.

(* ------------------------------------------------------------------ widths *)
Definition le_all (a b : list Z) : Prop := Forall2 Z.le a b.

Lemma le_all_refl a : le_all a a.
Proof. induction a; constructor; [lia|assumption]. Qed.

Lemma le_all_trans a b c : le_all a b -> le_all b c -> le_all a c.
Proof.
  intros H. revert c. induction H as [|x y a b Hxy Hab IH]; intros c Hc.
  - inversion Hc. constructor.
  - inversion Hc as [|y' z b' c' Hyz Hbc]; subst. constructor; [lia|apply IH; assumption].
Qed.

Lemma le_all_length a b : le_all a b -> length a = length b.
Proof. intros H. induction H; cbn; congruence. Qed.

Lemma zip_max_length ws ls : length (zip_max ws ls) = length ws.
Proof.
  revert ls. induction ws as [|w ws IH]; intros ls; destruct ls; cbn [zip_max length]; try reflexivity.
  rewrite IH. reflexivity.
Qed.

Lemma zip_max_ge_l ws ls : le_all ws (zip_max ws ls).
Proof.
  revert ls. induction ws as [|w ws IH]; intros ls; destruct ls; cbn [zip_max].
  - constructor.
  - constructor.
  - apply le_all_refl.
  - constructor; [lia|apply IH].
Qed.

Lemma zip_max_ge_r ws ls : length ws = length ls -> le_all ls (zip_max ws ls).
Proof.
  revert ls. induction ws as [|w ws IH]; intros ls Hl; destruct ls; cbn [zip_max length] in *; try discriminate.
  - constructor.
  - constructor; [lia|apply IH; lia].
Qed.

Lemma fold_widths_spec {A : Type} (f : A -> Z) (rows : list (list A)) (ws0 : list Z) :
  Forall (fun r => length r = length ws0) rows ->
  let ws := fold_left (fun ws row => zip_max ws (map f row)) rows ws0 in
  length ws = length ws0 /\ le_all ws0 ws /\ Forall (fun r => le_all (map f r) ws) rows.
Proof.
  revert ws0. induction rows as [|r rows IH]; intros ws0 Hrows; cbn [fold_left].
  - split; [reflexivity|]. split; [apply le_all_refl|constructor].
  - inversion Hrows as [|r' rows' Hr Hrest]; subst.
    specialize (IH (zip_max ws0 (map f r))).
    rewrite zip_max_length in IH. specialize (IH Hrest). cbv zeta in IH.
    destruct IH as [Hlen [Hle Hall]].
    split; [exact Hlen|]. split.
    + eapply le_all_trans; [apply zip_max_ge_l|exact Hle].
    + constructor; [|exact Hall].
      eapply le_all_trans; [|exact Hle]. apply zip_max_ge_r. rewrite map_length. lia.
Qed.

Lemma widen_ge ws i g : le_all ws (widen ws i g).
Proof.
  revert i. induction ws as [|w ws IH]; intros i; cbn [widen]; constructor; [|apply IH].
  destruct (w <? group_get g i) eqn:E; lia.
Qed.

Lemma t_width_repeat t : length (repeat 0 (t_width t)) = t_width t.
Proof. apply repeat_length. Qed.

Definition rows_full (t : table) : Prop := Forall (fun r => length r = t_width t) (t_rows t).

(* the final column widths: one per column, and at least the minimal length of every cell *)
Theorem col_widths_ge cfg t :
  rows_full t ->
  length (final_widths cfg t) = t_width t /\
  Forall (fun r => Forall2 (fun c w => min_length_cell cfg c <= w) r (final_widths cfg t)) (t_rows t).
Proof.
  intros Hfull. unfold final_widths, col_widths.
  pose proof (fold_widths_spec (min_length_cell cfg) (t_rows t) (repeat 0 (t_width t))) as H.
  rewrite t_width_repeat in H. specialize (H Hfull). cbv zeta in H.
  destruct H as [Hlen [_ Hall]].
  set (ws := fold_left _ (t_rows t) _) in *.
  pose proof (widen_ge ws 0 (group_widths (t_columns t) ws [])) as Hw.
  split.
  - rewrite <- (le_all_length _ _ Hw). exact Hlen.
  - eapply Forall_impl; [|exact Hall]. intros r Hr.
    pose proof (le_all_trans _ _ _ Hr Hw) as Hle.
    clear - Hle. remember (map (min_length_cell cfg) r) as ms eqn:Em.
    revert r Em. induction Hle as [|m w ms ws' Hmw Hrest IH]; intros r Em.
    + destruct r; [constructor|discriminate].
    + destruct r as [|c r]; [discriminate|]. cbn [map] in Em. injection Em as -> ->.
      constructor; [exact Hmw|apply IH; reflexivity].
Qed.

(* ------------------------------------------------------------------ a line *)
(* lists of rune-first-bytes aligned on the widths ws: a separator character, w + 2 further
   runes (pad, cell, pad), ..., a last separator character *)
Inductive aligned : list nat -> str -> Prop :=
| aligned_end s : is_sepchar s = true -> aligned [] [s]
| aligned_col w ws s b l : is_sepchar s = true -> length b = (w + 2)%nat -> aligned ws l ->
                           aligned (w :: ws) (s :: b ++ l).

(* the rune positions of the separator characters *)
Fixpoint sep_pos (ws : list nat) (p : nat) : list nat :=
  match ws with
  | [] => [p]
  | w :: ws' => p :: sep_pos ws' (p + w + 3)
  end.

Lemma aligned_seps ws l : aligned ws l ->
  forall pre, Forall (fun p => is_sepchar (nth p (pre ++ l) 0) = true) (sep_pos ws (length pre)) /\
              length (pre ++ l) = S (last (sep_pos ws (length pre)) 0%nat).
Proof.
  intros H. induction H as [s Hs|w ws s b l Hs Hb Hal IH]; intros pre.
  - cbn [sep_pos last]. split.
    + constructor; [|constructor]. rewrite nth_middle. exact Hs.
    + rewrite app_length. cbn [length]. lia.
  - cbn [sep_pos]. specialize (IH (pre ++ s :: b)).
    replace (length (pre ++ s :: b)) with (length pre + w + 3)%nat in IH
      by (rewrite app_length; cbn [length]; lia).
    replace ((pre ++ s :: b) ++ l) with (pre ++ s :: b ++ l) in IH
      by (rewrite <- app_assoc; reflexivity).
    destruct IH as [IH1 IH2]. split.
    + constructor; [|exact IH1]. rewrite nth_middle. exact Hs.
    + rewrite IH2. destruct ws; reflexivity.
Qed.

Lemma sep_pos_lb ws p : Forall (fun q => (p <= q)%nat) (sep_pos ws p).
Proof.
  revert p. induction ws as [|w ws IH]; intros p; cbn [sep_pos].
  - constructor; [lia|constructor].
  - constructor; [lia|]. eapply Forall_impl; [|apply IH]. cbn. intros; lia.
Qed.

Lemma sep_pos_nodup ws p : NoDup (sep_pos ws p).
Proof.
  revert p. induction ws as [|w ws IH]; intros p; cbn [sep_pos].
  - constructor; [intros []|constructor].
  - constructor; [|apply IH].
    intros Hin. pose proof (sep_pos_lb ws (p + w + 3)) as Hlb.
    rewrite Forall_forall in Hlb. specialize (Hlb p Hin). lia.
Qed.

Lemma sep_pos_length ws p : length (sep_pos ws p) = S (length ws).
Proof. revert p. induction ws as [|w ws IH]; intros p; cbn [sep_pos length]; [reflexivity|rewrite IH; reflexivity]. Qed.

Lemma sep_pos_head ws p : In p (sep_pos ws p).
Proof. destruct ws; cbn [sep_pos]; left; reflexivity. Qed.

Lemma sep_pos_last_in ws p : In (last (sep_pos ws p) 0%nat) (sep_pos ws p).
Proof.
  revert p. induction ws as [|w ws IH]; intros p.
  - left. reflexivity.
  - cbn [sep_pos]. right.
    replace (last (p :: sep_pos ws (p + w + 3)) 0%nat) with (last (sep_pos ws (p + w + 3)) 0%nat)
      by (destruct ws; reflexivity).
    apply IH.
Qed.

Lemma sep_pos_le_last ws p : Forall (fun q => (q <= last (sep_pos ws p) 0)%nat) (sep_pos ws p).
Proof.
  revert p. induction ws as [|w ws IH]; intros p.
  - cbn. constructor; [lia|constructor].
  - cbn [sep_pos].
    replace (last (p :: sep_pos ws (p + w + 3)) 0%nat) with (last (sep_pos ws (p + w + 3)) 0%nat)
      by (destruct ws; reflexivity).
    constructor; [|apply IH].
    pose proof (sep_pos_lb ws (p + w + 3)) as Hlb. rewrite Forall_forall in Hlb.
    specialize (Hlb _ (sep_pos_last_in ws (p + w + 3))). lia.
Qed.

(* --- the separators between cells *)
Lemma create_sep_shape c1 c2 :
  exists a m b, create_sep c1 c2 = [a; m; b] /\ is_sepchar m = true /\
                (a = 32 \/ a = 45) /\ (b = 32 \/ b = 45).
Proof.
  unfold create_sep. destruct (is_sep c1), (is_sep c2); do 3 eexists; (split; [reflexivity|]);
    repeat split; auto.
Qed.

Definition widths_nat (ws : list Z) : list nat := map Z.to_nat ws.

Lemma render_cells_cons2 cfg c c2 rest w ws :
  render_cells cfg (c :: c2 :: rest) (w :: ws) =
  render_cell cfg c w ++ create_sep c c2 ++ render_cells cfg (c2 :: rest) ws.
Proof. reflexivity. Qed.

(* cells rendered to their widths, joined by the 3-rune separators, between a 2-rune prefix
   [s; x] and a 2-rune suffix [y; s'] *)
Lemma render_cells_aligned cfg cs ws :
  Forall2 (fun c w => rune_count (render_cell cfg c w) = w) cs ws -> cs <> [] ->
  forall s x y s', is_sepchar s = true -> is_sepchar s' = true ->
  aligned (widths_nat ws) (s :: x :: rune_starts (render_cells cfg cs ws) ++ [y; s']).
Proof.
  intros H. induction H as [|c w cs ws Hcw Hrest IH]; intros Hne s x y s' Hs Hs'; [congruence|].
  destruct cs as [|c2 cs'].
  - inversion Hrest; subst. cbn [render_cells widths_nat map].
    replace (s :: x :: rune_starts (render_cell cfg c w) ++ [y; s'])
      with (s :: (x :: rune_starts (render_cell cfg c w) ++ [y]) ++ [s'])
      by (cbn [app]; rewrite <- app_assoc; reflexivity).
    constructor; [exact Hs| |constructor; exact Hs'].
    cbn [length]. rewrite app_length. cbn [length].
    rewrite rune_count_starts in Hcw. lia.
  - rewrite render_cells_cons2. cbn [widths_nat map].
    destruct (create_sep_shape c c2) as [a [m [b [Esep [Hm [Ha Hb]]]]]]. rewrite Esep.
    rewrite !rune_starts_app.
    assert (Eabm : rune_starts [a; m; b] = [a; m; b]).
    { unfold rune_starts, is_sepchar in *. cbn [filter].
      assert (is_cont a = false) by (destruct Ha; subst; reflexivity).
      assert (is_cont b = false) by (destruct Hb; subst; reflexivity).
      assert (is_cont m = false).
      { apply orb_true_iff in Hm. destruct Hm as [E|E]; apply Z.eqb_eq in E; subst; reflexivity. }
      rewrite H, H0, H1. reflexivity. }
    rewrite Eabm.
    replace (s :: x :: (rune_starts (render_cell cfg c w) ++ [a; m; b] ++ rune_starts (render_cells cfg (c2 :: cs') ws)) ++ [y; s'])
      with (s :: (x :: rune_starts (render_cell cfg c w) ++ [a]) ++
              (m :: b :: rune_starts (render_cells cfg (c2 :: cs') ws) ++ [y; s'])).
    2:{ cbn [app]. rewrite <- !app_assoc. cbn [app]. reflexivity. }
    constructor; [exact Hs| |].
    + cbn [length]. rewrite app_length. cbn [length]. rewrite rune_count_starts in Hcw. lia.
    + apply (IH ltac:(discriminate) m b y s' Hm Hs').
Qed.

(* the line of a row: render_row without its final newline *)
Definition row_line (cfg : text_cfg) (ws : list Z) (row : list cell) : str :=
  match row with
  | [] => []
  | c0 :: _ =>
    (if is_sep c0 then [43;45] else [124;32]) ++ render_cells cfg row ws ++
    (if is_sep (last row CEmpty) then [45;43] else [32;124])
  end.

Lemma render_row_line cfg ws row : row <> [] -> render_row cfg ws row = row_line cfg ws row ++ [10].
Proof.
  intros H. destruct row as [|c0 row]; [congruence|].
  unfold render_row, row_line. rewrite <- !app_assoc.
  destruct (is_sep (last (c0 :: row) CEmpty)); reflexivity.
Qed.

(* structure of a line: prefix, cells of exactly the column widths joined by 3-rune separators,
   suffix -- the separator characters stand at the positions sep_pos (widths) 0 *)
Theorem row_line_aligned cfg ws row :
  row <> [] ->
  Forall2 (fun c w => rune_count (render_cell cfg c w) = w) row ws ->
  aligned (widths_nat ws) (rune_starts (row_line cfg ws row)).
Proof.
  intros Hne H. destruct row as [|c0 row]; [congruence|].
  unfold row_line. rewrite !rune_starts_app.
  destruct (is_sep c0); destruct (is_sep (last (c0 :: row) CEmpty));
    change (rune_starts [43;45]) with [43;45]; change (rune_starts [124;32]) with [124;32];
    change (rune_starts [45;43]) with [45;43]; change (rune_starts [32;124]) with [32;124];
    cbn [app]; apply (render_cells_aligned cfg (c0 :: row) ws H); try discriminate; reflexivity.
Qed.

(* ------------------------------------------------------------------ lines of the rendering *)
Lemma lines_app_nl l t : ~ In 10 l -> lines (l ++ 10 :: t) = (l :: fst (lines t), snd (lines t)).
Proof.
  induction l as [|c l IH]; intros Hn.
  - cbn [app lines]. destruct (lines t) as [ls r]. reflexivity.
  - cbn [app lines]. rewrite IH by (intros Hin; apply Hn; right; exact Hin).
    replace (c =? 10) with false by (symmetry; apply Z.eqb_neq; intros ->; apply Hn; left; reflexivity).
    reflexivity.
Qed.

Lemma lines_concat (ls : list str) :
  Forall (fun l => ~ In 10 l) ls ->
  lines (concat (map (fun l => l ++ [10]) ls) ++ [10]) = (ls ++ [[]], []).
Proof.
  induction ls as [|l ls IH]; intros H.
  - reflexivity.
  - inversion H as [|l' ls' Hl Hls]; subst. cbn [map concat]. rewrite <- !app_assoc. cbn [app].
    rewrite lines_app_nl by exact Hl. rewrite IH by exact Hls. reflexivity.
Qed.

Lemma table_lines_concat (ls : list str) :
  Forall (fun l => ~ In 10 l) ls ->
  table_lines (concat (map (fun l => l ++ [10]) ls) ++ [10]) = Some ls.
Proof.
  intros H. unfold table_lines. rewrite lines_concat by exact H.
  cbn [is_nil andb]. rewrite last_last, removelast_last.
  destruct (ls ++ [[]]) eqn:E; [destruct ls; discriminate|]. reflexivity.
Qed.

(* --- no newline inside a line *)
Lemma repeat_z_not_in c n x : x <> c -> ~ In x (repeat_z c n).
Proof. intros H Hin. unfold repeat_z in Hin. apply repeat_spec in Hin. congruence. Qed.

Section NoNewline.
  (* the numerals contain no line break (digits, '-', '.', ','): supplied by DecStringProofs and
     GroupingProofs where this section is instantiated *)
  Variable cfg : text_cfg.
  Hypothesis num_no_nl : forall n, ~ In 10 (num_str cfg n).

  Lemma render_cell_no_nl c l : cell_no_nl c -> ~ In 10 (render_cell cfg c l).
  Proof.
    intros Hc. destruct c as [| |s al ind|n]; cbn [render_cell cell_no_nl] in *.
    - apply repeat_z_not_in. discriminate.
    - apply repeat_z_not_in. discriminate.
    - intros Hin. repeat (apply in_app_or in Hin; destruct Hin as [Hin|Hin]);
        try (revert Hin; apply repeat_z_not_in; discriminate). exact (Hc Hin).
    - unfold pad_left. destruct (is_zero n); intros Hin; apply in_app_or in Hin; destruct Hin as [Hin|Hin];
        try (revert Hin; apply repeat_z_not_in; discriminate); try exact Hin.
      exact (num_no_nl n Hin).
  Qed.

  Lemma render_cells_no_nl cs ws : Forall cell_no_nl cs -> ~ In 10 (render_cells cfg cs ws).
  Proof.
    revert ws. induction cs as [|c cs IH]; intros ws H; [intros []|].
    inversion H as [|c' cs' Hc Hcs]; subst.
    destruct cs as [|c2 cs'].
    - destruct ws; cbn [render_cells]; [intros []|apply render_cell_no_nl; exact Hc].
    - destruct ws as [|w ws]; cbn [render_cells]; [intros []|].
      intros Hin. apply in_app_or in Hin. destruct Hin as [Hin|Hin]; [exact (render_cell_no_nl c w Hc Hin)|].
      apply in_app_or in Hin. destruct Hin as [Hin|Hin]; [|exact (IH ws Hcs Hin)].
      destruct (create_sep_shape c c2) as [a [m [b [Esep [Hm [Ha Hb]]]]]]. rewrite Esep in Hin.
      unfold is_sepchar in Hm. apply orb_true_iff in Hm.
      cbn [In] in Hin. destruct Hin as [E|[E|[E|[]]]]; subst.
      + destruct Ha; discriminate.
      + destruct Hm as [E|E]; discriminate.
      + destruct Hb; discriminate.
  Qed.

  Lemma row_line_no_nl ws row : Forall cell_no_nl row -> ~ In 10 (row_line cfg ws row).
  Proof.
    intros H. destruct row as [|c0 row]; [intros []|]. unfold row_line.
    intros Hin. apply in_app_or in Hin. destruct Hin as [Hin|Hin].
    - destruct (is_sep c0); cbn [In] in Hin; destruct Hin as [E|[E|[]]]; discriminate.
    - apply in_app_or in Hin. destruct Hin as [Hin|Hin]; [exact (render_cells_no_nl _ ws H Hin)|].
      destruct (is_sep (last (c0 :: row) CEmpty)); cbn [In] in Hin; destruct Hin as [E|[E|[]]]; discriminate.
  Qed.

  (* ---------------------------------------------------------------- rectangularity *)
  Theorem render_text_lines t :
    table_wf t ->
    render_text cfg t = concat (map (fun l => l ++ [10]) (map (row_line cfg (final_widths cfg t)) (t_rows t))) ++ [10] /\
    table_lines (render_text cfg t) = Some (map (row_line cfg (final_widths cfg t)) (t_rows t)).
  Proof.
    intros [Hw Hrows].
    assert (E : render_text cfg t =
                concat (map (fun l => l ++ [10]) (map (row_line cfg (final_widths cfg t)) (t_rows t))) ++ [10]).
    { unfold render_text. f_equal. f_equal. rewrite map_map. apply map_ext_in.
      intros r Hr. apply render_row_line. rewrite Forall_forall in Hrows.
      destruct (Hrows r Hr) as [Hl _]. intros ->. cbn in Hl. lia. }
    split; [exact E|]. rewrite E. apply table_lines_concat.
    apply Forall_forall. intros l Hl. apply in_map_iff in Hl. destruct Hl as [r [<- Hr]].
    apply row_line_no_nl. rewrite Forall_forall in Hrows. apply (Hrows r Hr).
  Qed.

  (* every line of the rendering is aligned on the final widths *)
  Theorem lines_aligned t :
    table_wf t ->
    Forall (fun l => aligned (widths_nat (final_widths cfg t)) (rune_starts l))
           (map (row_line cfg (final_widths cfg t)) (t_rows t)).
  Proof.
    intros [Hw Hrows].
    assert (Hfull : rows_full t).
    { unfold rows_full. eapply Forall_impl; [|exact Hrows]. cbn. intros r [H _]. exact H. }
    destruct (col_widths_ge cfg t Hfull) as [Hlen Hge].
    apply Forall_forall. intros l Hl. apply in_map_iff in Hl. destruct Hl as [r [<- Hr]].
    rewrite Forall_forall in Hrows, Hge. destruct (Hrows r Hr) as [Hrl [Hind _]].
    apply row_line_aligned; [intros ->; cbn in Hrl; lia|].
    specialize (Hge r Hr). clear - Hge Hind.
    induction Hge as [|c w r ws Hcw Hrest IH]; [constructor|].
    inversion Hind as [|c' r' Hc Hr']; subst.
    constructor; [apply render_cell_width; assumption|apply IH; assumption].
  Qed.

  Theorem render_text_rect t : table_wf t -> rect_b (t_width t) (render_text cfg t) = true.
  Proof.
    intros Hwf. destruct (render_text_lines t Hwf) as [_ Hlines].
    pose proof (lines_aligned t Hwf) as Hal.
    destruct Hwf as [Hw Hrows].
    assert (Hfull : rows_full t).
    { unfold rows_full. eapply Forall_impl; [|exact Hrows]. cbn. intros r [H _]. exact H. }
    destruct (col_widths_ge cfg t Hfull) as [Hlen _].
    unfold rect_b. rewrite Hlines.
    set (ws := widths_nat (final_widths cfg t)) in *.
    assert (Hwsl : length ws = t_width t) by (unfold ws, widths_nat; rewrite map_length; exact Hlen).
    set (body := map (row_line cfg (final_widths cfg t)) (t_rows t)) in *.
    destruct body as [|l0 body'] eqn:Eb; [reflexivity|].
    (* facts about every line *)
    assert (Hline : forall l, In l (l0 :: body') ->
              Forall (fun p => is_sepchar (nth p (rune_starts l) 0) = true) (sep_pos ws 0) /\
              length (rune_starts l) = S (last (sep_pos ws 0) 0%nat)).
    { intros l Hl. rewrite Forall_forall in Hal. specialize (Hal l Hl).
      pose proof (aligned_seps ws (rune_starts l) Hal []) as H. cbn [app length] in H. exact H. }
    set (L := length (rune_starts l0)).
    assert (HL : L = S (last (sep_pos ws 0) 0%nat)) by (apply (Hline l0); left; reflexivity).
    (* every expected position is among the common separator columns *)
    assert (Hincl : incl (sep_pos ws 0) (sep_columns (l0 :: body'))).
    { intros p Hp. unfold sep_columns. cbn [map]. apply filter_In. split.
      - apply in_seq. pose proof (sep_pos_le_last ws 0) as Hle. rewrite Forall_forall in Hle.
        specialize (Hle p Hp). fold L. lia.
      - apply forallb_forall. intros r Hr.
        change (rune_starts l0 :: map rune_starts body') with (map rune_starts (l0 :: body')) in Hr.
        apply in_map_iff in Hr. destruct Hr as [l [<- Hl]].
        destruct (Hline l Hl) as [Hs _].
        rewrite Forall_forall in Hs. apply Hs. exact Hp. }
    apply andb_true_iff; split; [apply andb_true_iff; split; [apply andb_true_iff; split|]|].
    - apply forallb_forall. intros l Hl. apply Nat.eqb_eq. fold L. rewrite HL. apply (Hline l Hl).
    - apply Nat.leb_le. rewrite <- Hwsl, <- (sep_pos_length ws 0).
      apply NoDup_incl_length; [apply sep_pos_nodup|exact Hincl].
    - apply existsb_exists. exists 0%nat. split; [|reflexivity]. apply Hincl. apply sep_pos_head.
    - apply existsb_exists. exists (L - 1)%nat. split; [|apply Nat.eqb_refl].
      apply Hincl. rewrite HL. replace (S (last (sep_pos ws 0) 0) - 1)%nat with (last (sep_pos ws 0) 0%nat) by lia.
      apply sep_pos_last_in.
  Qed.
End NoNewline.

(* ------------------------------------------------------------------ CSV *)
Lemma str_cmp_refl s : str_cmp s s = Eq.
Proof. induction s as [|c s IH]; cbn [str_cmp]; [reflexivity|]. rewrite Z.compare_refl. exact IH. Qed.

Lemma str_eqb_refl s : str_eqb s s = true.
Proof. unfold str_eqb. rewrite str_cmp_refl. reflexivity. Qed.

Lemma filter_map_comm {A B : Type} (g : A -> B) (f : B -> bool) (l : list A) :
  filter f (map g l) = map g (filter (fun x => f (g x)) l).
Proof.
  induction l as [|x l IH]; [reflexivity|]. cbn [map filter]. destruct (f (g x)); cbn [map]; rewrite IH; reflexivity.
Qed.

Lemma forall2b_map {A B : Type} (f : A -> B -> bool) (g : A -> B) (l : list A) :
  (forall x, In x l -> f x (g x) = true) -> forall2b f l (map g l) = true.
Proof.
  induction l as [|x l IH]; intros H; [reflexivity|]. cbn [map forall2b].
  rewrite H by (left; reflexivity). apply IH. intros y Hy. apply H. right. exact Hy.
Qed.

Section Csv.
  (* facts about Decimal.String supplied by DecStringProofs *)
  Hypothesis to_string_numstr : forall n, is_numstr_b (to_string n) = true.
  Hypothesis to_string_roundtrip : forall n, exists x, of_string (to_string n) = Some x /\ dec_eqv x n.

  Lemma to_string_nonempty n : to_string n <> [].
  Proof.
    intros E. pose proof (to_string_numstr n) as H. rewrite E in H. discriminate.
  Qed.

  Lemma csv_cell_blank c : is_nil (csv_cell c) = cell_blank c.
  Proof.
    destruct c as [| |s al ind|n]; cbn [csv_cell cell_blank]; try reflexivity.
    destruct (to_string n) eqn:E; [exfalso; exact (to_string_nonempty n E)|reflexivity].
  Qed.

  Lemma csv_record_visible r :
    existsb (fun s : str => match s with [] => false | _ => true end) (map csv_cell r) = csv_row_visible r.
  Proof.
    unfold csv_row_visible. induction r as [|c r IH]; [reflexivity|]. cbn [map existsb]. rewrite IH.
    f_equal. rewrite <- csv_cell_blank. destruct (csv_cell c); reflexivity.
  Qed.

  (* the records are the visible rows, cell by cell: rows of blank cells only are dropped, the
     others keep their order, every record has one field per cell *)
  Theorem render_csv_rows_spec t :
    render_csv_rows t = map (map csv_cell) (filter csv_row_visible (t_rows t)).
  Proof.
    unfold render_csv_rows. rewrite filter_map_comm. f_equal.
    apply filter_ext. intros r. apply csv_record_visible.
  Qed.

  Lemma csv_field_ok c : csv_field_ok_b c (csv_cell c) = true.
  Proof.
    destruct c as [| |s al ind|n]; cbn [csv_cell csv_field_ok_b]; try reflexivity.
    - apply str_eqb_refl.
    - rewrite to_string_numstr. destruct (to_string_roundtrip n) as [x [E Hx]]. rewrite E.
      unfold dec_eqv_b. apply Z.eqb_eq. exact Hx.
  Qed.

  Theorem render_csv_rows_ok t : csv_ok_b (t_rows t) (render_csv_rows t) = true.
  Proof.
    unfold csv_ok_b. rewrite render_csv_rows_spec.
    apply forall2b_map. intros r _. apply forall2b_map. intros c _. apply csv_field_ok.
  Qed.
End Csv.
