(* `knut check --write`, fourth layer: the journal extended by the collected assertions is
   accepted.  On the specification side: the new assertion of a day sits, in the canonical
   sequence, after the day's own assertions and before its closes; assertions change no history
   function, closes change no quantity and only close, so the new lines are judged exactly as at
   the day's end, where they state live positions with their running quantities
   (Proofs/CheckWriteComplete.v), and a live position of a well-formed sequence belongs to an
   open account (Proofs/CheckWriteKeys.v [live_open]). *)
From Coq Require Import ZArith List Bool Lia Sorting.Sorted Permutation.
From Knut Require Import Model.Str Model.Dec Model.Date Model.Account Model.Ledger Model.Price Model.Journal
     Model.Check Model.Pipeline Model.JPrinter Model.Cli Model.CheckWrite
     Spec.WellformedSpec Spec.CheckWriteSpec
     Proofs.StrProofs Proofs.DecProofs Proofs.DecEqProofs Proofs.CheckLemmas Proofs.CheckProofs Proofs.BuilderProofs
     Proofs.CheckMain Proofs.CheckPerm Proofs.OrderProofs Proofs.OrderStages Proofs.OrderCmd
     Proofs.CheckWriteBase Proofs.CheckWriteKeys Proofs.CheckWriteComplete.
Import ListNotations.
Open Scope bool_scope.
Open Scope Z_scope.

(* ------------------------------------------------------------------ the canonical sequence, day by day *)

Definition evs_day (ds : list directive) (dt : Z) : list event := flat_map events_of (of_day ds dt).

Lemma events_by_day ds : events ds = flat_map (evs_day ds) (dates ds).
Proof. unfold events, canonical. apply flat_map_flat_map. Qed.

Lemma events_upto_by_day ds dt : events_upto ds dt = flat_map (evs_day ds) (days_upto ds dt).
Proof. unfold events_upto. apply flat_map_flat_map. Qed.

(* the part of a day before the closes, and the closes *)
Definition evs_head (ds : list directive) (dt : Z) : list event :=
  flat_map events_of (sel ds dt 0 ++ sel ds dt 1 ++ sel ds dt 2 ++ sel ds dt 3).
Definition evs_closes (ds : list directive) (dt : Z) : list event := flat_map events_of (sel ds dt 4).

Lemma evs_day_split ds dt : evs_day ds dt = evs_head ds dt ++ evs_closes ds dt.
Proof. unfold evs_day, evs_head, evs_closes, of_day. rewrite !flat_map_app, <- !app_assoc. reflexivity. Qed.

Lemma evs_closes_map ds dt : evs_closes ds dt = map EClose (close_accs (sel ds dt 4)).
Proof. unfold evs_closes. apply events_closes. intros d Hd. apply sel_in in Hd. tauto. Qed.

(* ------------------------------------------------------------------ appending assertions *)

Definition all_asserts (l : list directive) : Prop := forall d, In d l -> dkind d = 3.

Lemma sel_app ds l dt k : sel (ds ++ l) dt k = sel ds dt k ++ sel l dt k.
Proof. unfold sel. apply filter_app. Qed.

Lemma sel_other_kind l dt k : all_asserts l -> k <> 3 -> sel l dt k = [].
Proof.
  intros Ha Hk. unfold sel. induction l as [|d l IH]; [reflexivity|]. cbn [filter].
  rewrite (Ha d (or_introl eq_refl)).
  replace (3 =? k) with false by (symmetry; apply Z.eqb_neq; lia). rewrite andb_false_r.
  apply IH. intros x Hx. apply Ha. right. exact Hx.
Qed.

Definition evs_new (l : list directive) (dt : Z) : list event := flat_map events_of (sel l dt 3).

Lemma evs_day_extended ds l dt :
  all_asserts l -> evs_day (ds ++ l) dt = evs_head ds dt ++ evs_new l dt ++ evs_closes ds dt.
Proof.
  intros Ha. unfold evs_day, evs_head, evs_new, evs_closes, of_day. rewrite !sel_app.
  rewrite (sel_other_kind l dt 0 Ha), (sel_other_kind l dt 1 Ha), (sel_other_kind l dt 2 Ha),
    (sel_other_kind l dt 4 Ha) by lia.
  rewrite !app_nil_r, !flat_map_app, <- !app_assoc. reflexivity.
Qed.

Lemma evs_new_asserts l dt e : In e (evs_new l dt) -> is_assert e.
Proof.
  unfold evs_new. intros H. apply (events_asserts (sel l dt 3)); [|exact H].
  intros d Hd. apply sel_in in Hd. tauto.
Qed.

Lemma dates_extended ds l :
  (forall d, In d l -> In (ddate d) (dates ds)) -> dates (ds ++ l) = dates ds.
Proof.
  intros H. destruct (dates_spec ds) as (_ & _ & U). apply U; [apply dates_sorted|].
  intros x. rewrite dates_in, map_app, in_app_iff. split; [|tauto].
  intros [Hx|Hx]; [exact Hx|]. apply in_map_iff in Hx. destruct Hx as [d [E Hd]]. subst x.
  apply dates_in. apply H. exact Hd.
Qed.

(* one day *)
Lemma day_extended_ok p1 p2 A N C :
  heq p1 p2 -> all_ok_before p1 (A ++ C) ->
  (forall e, In e N -> is_assert e) -> (forall e, In e N -> ok_event (p1 ++ A) e) ->
  all_ok_before p2 (A ++ N ++ C) /\ heq (p1 ++ A ++ C) (p2 ++ A ++ N ++ C).
Proof.
  intros H All Hn Hok. apply all_ok_app in All. destruct All as [AllA AllC].
  pose proof (heq_app A p1 p2 H) as HA.
  assert (HN : heq ((p2 ++ A) ++ N) (p2 ++ A)).
  { split.
    - intros a. apply open_after_neutral. intros e He. apply assert_not_openclose. apply Hn. exact He.
    - intros a c. apply quantity_neutral. intros e He. apply assert_not_post. apply Hn. exact He. }
  assert (HAN : heq (p1 ++ A) ((p2 ++ A) ++ N)).
  { eapply heq_trans; [exact HA|]. destruct HN as [N1 N2]. split; intros; [rewrite N1|rewrite N2]; reflexivity. }
  split.
  - apply all_ok_app. split; [apply (all_ok_heq A p1 p2 H); exact AllA|].
    apply all_ok_app. split.
    + apply (all_ok_asserts N (p2 ++ A) Hn). intros e He. apply (ok_event_heq _ _ e HA). apply Hok. exact He.
    + apply (all_ok_heq C _ _ HAN). exact AllC.
  - pose proof (heq_app C _ _ HAN) as HC. rewrite <- ?app_assoc in HC. rewrite <- ?app_assoc. exact HC.
Qed.

Section Extended.
  Variable ds l : list directive.
  Hypothesis Hl : all_asserts l.
  (* every new line is, at the end of its day, about an open account and states the running quantity *)
  Hypothesis Hnew : forall dt a c q, In dt (dates ds) -> In (EAssert a c q) (evs_new l dt) ->
    open_after (events_upto ds dt) a = true /\
    (is_AL a = true -> dec_equal (quantity (events_upto ds dt) a c) q = true).

  Lemma days_extended_ok L : forall L0 p2,
    dates ds = L0 ++ L -> heq (flat_map (evs_day ds) L0) p2 ->
    all_ok_before (flat_map (evs_day ds) L0) (flat_map (evs_day ds) L) ->
    all_ok_before p2 (flat_map (evs_day (ds ++ l)) L).
  Proof.
    induction L as [|dt L IH]; intros L0 p2 E H All; [apply all_ok_nil|].
    cbn [flat_map] in *. apply all_ok_app in All. destruct All as [All1 All2].
    set (p1 := flat_map (evs_day ds) L0) in *.
    rewrite evs_day_split in All1. rewrite (evs_day_extended ds l dt Hl).
    assert (Hup : events_upto ds dt = p1 ++ evs_head ds dt ++ evs_closes ds dt).
    { rewrite events_upto_by_day. unfold days_upto. rewrite E.
      rewrite filter_le_split by (rewrite <- E; apply dates_sorted).
      rewrite flat_map_app. cbn [flat_map]. rewrite app_nil_r, evs_day_split. reflexivity. }
    assert (Hin : In dt (dates ds)) by (rewrite E; apply in_or_app; right; left; reflexivity).
    destruct (day_extended_ok p1 p2 (evs_head ds dt) (evs_new l dt) (evs_closes ds dt) H All1) as [R1 R2].
    - intros e He. apply (evs_new_asserts l dt e He).
    - intros e He. destruct (evs_new_asserts l dt e He) as (a & c & q & Ee). subst e.
      destruct (Hnew dt a c q Hin He) as [Ho Hq]. rewrite Hup in Ho, Hq.
      rewrite evs_closes_map in Ho, Hq. cbn [ok_event]. split.
      + rewrite app_assoc, open_after_closes in Ho. apply andb_true_iff in Ho. tauto.
      + intros Al. specialize (Hq Al). rewrite app_assoc in Hq.
        rewrite quantity_neutral in Hq; [exact Hq|]. intros e He'. apply (not_post_close _ _ He').
    - apply all_ok_app. split; [rewrite <- ?app_assoc in R1; rewrite <- ?app_assoc; exact R1|].
      apply (IH (L0 ++ [dt])).
      + rewrite <- app_assoc. exact E.
      + rewrite flat_map_app. cbn [flat_map]. rewrite app_nil_r, evs_day_split. fold p1.
        rewrite <- ?app_assoc in R2. rewrite <- ?app_assoc. exact R2.
      + rewrite flat_map_app. cbn [flat_map]. rewrite app_nil_r, evs_day_split. fold p1.
        rewrite evs_day_split in All2. rewrite <- ?app_assoc in All2. rewrite <- ?app_assoc. exact All2.
  Qed.

  Hypothesis Hdates : forall d, In d l -> In (ddate d) (dates ds).

  Lemma extended_wellformed : wellformed ds -> wellformed (ds ++ l).
  Proof.
    unfold wellformed. intros W. apply all_ok_before_nil. apply all_ok_before_nil in W.
    rewrite events_by_day in *. rewrite (dates_extended ds l Hdates).
    apply (days_extended_ok (dates ds) [] [] eq_refl (heq_refl _)). exact W.
  Qed.
End Extended.

(* ------------------------------------------------------------------ the collected assertions *)

Definition written_directives (W : list wassertion) : list directive := map assertion_directive W.

Lemma written_all_asserts W : all_asserts (written_directives W).
Proof. intros d Hd. apply in_map_iff in Hd. destruct Hd as [w [E _]]. subst d. reflexivity. Qed.

Lemma evs_new_asserted W dt a c q :
  In (EAssert a c q) (evs_new (written_directives W) dt) -> asserted W dt a c q.
Proof.
  unfold evs_new. rewrite in_flat_map. intros [d [Hd He]].
  apply sel_in in Hd. destruct Hd as (Hd & Hdt & _).
  apply in_map_iff in Hd. destruct Hd as [[dt' bs] [E Hw]]. subst d. cbn [assertion_directive fst snd ddate] in *. subst dt'.
  cbn [events_of] in He. apply in_map_iff in He. destruct He as [b [Eb Hb]]. inversion Eb. subst a c q.
  exists bs. split; [exact Hw|]. destruct b. exact Hb.
Qed.

Lemma filter_le_prefix (L : list Z) dt :
  StronglySorted Z.lt L -> exists L2, L = filter (fun x => x <=? dt) L ++ L2.
Proof.
  induction L as [|x L IH]; intros Hs; [exists []; reflexivity|]. cbn [filter].
  inversion Hs as [|y l Hs' Hall]; subst.
  destruct (x <=? dt) eqn:E.
  - destruct (IH Hs') as [L2 E2]. exists L2. cbn [app]. f_equal. exact E2.
  - exists (x :: L). cbn [app].
    replace (filter (fun x0 => x0 <=? dt) L) with (@nil Z); [reflexivity|].
    symmetry. apply Z.leb_gt in E. rewrite Forall_forall in Hall. clear IH Hs Hs'.
    induction L as [|y L IHL]; [reflexivity|]. cbn [filter].
    assert (x < y) by (apply Hall; left; reflexivity).
    replace (y <=? dt) with false by (symmetry; apply Z.leb_gt; lia).
    apply IHL. intros z Hz. apply Hall. right. exact Hz.
Qed.

Lemma prefix_wellformed ds dt : wellformed ds -> wellformed_events (events_upto ds dt).
Proof.
  unfold wellformed. intros W. rewrite events_by_day in W. rewrite events_upto_by_day. unfold days_upto.
  destruct (filter_le_prefix (dates ds) dt (dates_sorted ds)) as [L2 E].
  rewrite E in W at 1. rewrite flat_map_app in W.
  intros p e q Hp. apply (W p e (q ++ flat_map (evs_day ds) L2)). rewrite Hp, <- app_assoc. reflexivity.
Qed.

(* any list of assertions on days of the journal whose lines are live positions with (in value)
   their running quantities *)
Lemma assertions_accepted ds W :
  syntactic ds -> wellformed ds ->
  (forall dt bs, In (dt, bs) W -> In dt (dates ds)) ->
  (forall dt a c q, asserted W dt a c q ->
     account_ok a = true /\ live (events_upto ds dt) a c = true /\
     dec_equal (quantity (events_upto ds dt) a c) q = true) ->
  syntactic (ds ++ written_directives W) /\ check_model (ds ++ written_directives W) = VOk.
Proof.
  intros Hs Wf Hdays Hsound.
  assert (Hsyn : syntactic (ds ++ written_directives W)).
  { intros d e Hd He. apply in_app_or in Hd. destruct Hd as [Hd|Hd]; [apply (Hs d e Hd He)|].
    apply in_map_iff in Hd. destruct Hd as [[dt bs] [E Hin]]. subst d. cbn [assertion_directive fst snd events_of] in He.
    apply in_map_iff in He. destruct He as [b [Eb Hb]]. subst e. cbn [ev_acc].
    apply (Hsound dt (bal_acc b) (bal_com b) (bal_qty b)). exists bs. split; [exact Hin|]. destruct b. exact Hb. }
  split; [exact Hsyn|]. apply (check_iff _ Hsyn).
  apply extended_wellformed; [apply written_all_asserts| | |exact Wf].
  - intros dt a c q Hdt He. apply evs_new_asserted in He.
    destruct (Hsound dt a c q He) as (_ & L & Q). split; [|intros _; exact Q].
    apply (live_open _ a c); [apply prefix_wellformed; exact Wf|exact L].
  - intros d Hd. apply in_map_iff in Hd. destruct Hd as [[dt bs] [E Hin]]. subst d. cbn [assertion_directive fst snd ddate].
    apply (Hdays dt bs Hin).
Qed.

Lemma written_lines ds W :
  syntactic ds -> written ds = ROk W ->
  (forall dt bs, In (dt, bs) W -> In dt (dates ds)) /\
  (forall dt a c q, asserted W dt a c q ->
     account_ok a = true /\ live (events_upto ds dt) a c = true /\
     dec_equal (quantity (events_upto ds dt) a c) q = true).
Proof.
  intros Hs Hw.
  destruct (write_complete_partial ds W Hs Hw) as (_ & Hdays & Hsound & _).
  pose proof (written_wmatch ds W Hs Hw) as M.
  split; [intros dt bs Hin; apply (Hdays dt bs Hin)|].
  intros dt a c q Ha. destruct (Hsound dt a c q Ha) as [L Q]. split; [|split; assumption].
  destruct Ha as (bs & Hin & Hb).
  destruct (wmatch_entries _ _ _ M dt bs Hin) as (done & d & rest & s & _ & _ & I & K & _ & Hbs). subst bs.
  destruct (line_sound _ _ a c q I K Hb) as (Oa & _). exact Oa.
Qed.

Theorem written_accepted ds W :
  syntactic ds -> check_model ds = VOk -> written ds = ROk W ->
  syntactic (ds ++ written_directives W) /\ check_model (ds ++ written_directives W) = VOk.
Proof.
  intros Hs Hok Hw. pose proof (proj1 (check_iff ds Hs) Hok) as Wf.
  destruct (written_lines ds W Hs Hw) as [H1 H2].
  apply assertions_accepted; assumption.
Qed.

(* ------------------------------------------------------------------ the command *)

Lemma parse_directives_app l1 l2 :
  parse_directives (l1 ++ l2) =
  mbind (parse_directives l1) (fun a => mbind (parse_directives l2) (fun b => MOk (a ++ b))).
Proof.
  induction l1 as [|s l1 IH]; cbn [app parse_directives mbind].
  - destruct (parse_directives l2); reflexivity.
  - destruct (parse_directive s) as [x|m|m]; cbn [mbind]; try reflexivity.
    rewrite IH. destruct (parse_directives l1) as [a|m|m]; cbn [mbind]; try reflexivity.
    destruct (parse_directives l2) as [b|m|m]; cbn [mbind]; try reflexivity.
    rewrite app_assoc. reflexivity.
Qed.

Lemma account_ok_valid a : account_ok a = true -> valid_account a = true.
Proof. unfold account_ok. intros H. apply andb_true_iff in H. tauto. Qed.

Lemma check_balances_ok bs : (forall b, In b bs -> valid_account (bal_acc b) = true) -> check_balances bs = MOk tt.
Proof.
  induction bs as [|b bs IH]; intros H; cbn [check_balances]; [reflexivity|].
  unfold check_account. rewrite (H b (or_introl eq_refl)). cbn [mbind]. apply IH. intros x Hx. apply H. right. exact Hx.
Qed.

Lemma parse_written W :
  (forall dt bs b, In (dt, bs) W -> In b bs -> valid_account (bal_acc b) = true) ->
  parse_directives (map assertion_sdirective W) = MOk (written_directives W).
Proof.
  induction W as [|[dt bs] W IH]; intros H; cbn [map parse_directives]; [reflexivity|].
  unfold assertion_sdirective at 1. cbn [fst snd parse_directive].
  rewrite check_balances_ok by (intros b Hb; apply (H dt bs b (or_introl eq_refl) Hb)). cbn [mbind].
  rewrite IH by (intros dt' bs' b Hin Hb; apply (H dt' bs' b (or_intror Hin) Hb)). cbn [mbind app].
  reflexivity.
Qed.

Lemma check_write_assertions_written sds W :
  check_write_assertions sds = COk W ->
  exists ds, parse_directives sds = MOk ds /\ written ds = ROk W.
Proof.
  rewrite check_write_assertions_eq. unfold load, written.
  destruct (parse_directives sds) as [ds|m|m]; cbn [of_mresult cbind]; try discriminate.
  intros H. exists ds. split; [reflexivity|].
  destruct (written_of (b_days (builder_of ds))) as [w|k x|m]; cbn [of_presult] in H; try discriminate.
  inversion H. reflexivity.
Qed.

(* a journal extended by assertions, from the model directives to the command *)
Lemma accepted_cmd sds ds W :
  sd_syntactic sds -> parse_directives sds = MOk ds ->
  syntactic (ds ++ written_directives W) -> check_model (ds ++ written_directives W) = VOk ->
  check_cmd_fixed (sds ++ map assertion_sdirective W) = COk tt.
Proof.
  intros Hs P Hsyn2 Hacc.
  assert (Pw : parse_directives (map assertion_sdirective W) = MOk (written_directives W)).
  { apply parse_written. intros dt bs b Hin Hb. apply account_ok_valid.
    apply (Hsyn2 (DAssert dt bs) (EAssert (bal_acc b) (bal_com b) (bal_qty b))).
    - apply in_or_app. right. apply in_map_iff. exists (dt, bs). split; [reflexivity|exact Hin].
    - cbn [events_of]. apply in_map_iff. exists b. split; [reflexivity|exact Hb]. }
  assert (P2 : parse_directives (sds ++ map assertion_sdirective W) = MOk (ds ++ written_directives W)).
  { rewrite parse_directives_app, P, Pw. reflexivity. }
  apply check_cmd_iff.
  - intros ds' E. rewrite P2 in E. inversion E. subst ds'. exact Hsyn2.
  - exists (ds ++ written_directives W). split; [exact P2|]. apply (check_iff _ Hsyn2). exact Hacc.
Qed.

Lemma accepted_model sds ds :
  sd_syntactic sds -> parse_directives sds = MOk ds -> check_cmd_fixed sds = COk tt ->
  syntactic ds /\ wellformed ds /\ check_model ds = VOk.
Proof.
  intros Hs P Hok. pose proof (Hs ds P) as Hsyn. split; [exact Hsyn|].
  destruct (proj1 (check_cmd_iff sds Hs) Hok) as [ds' [P' Wf]].
  rewrite P in P'. inversion P'. subst ds'. split; [exact Wf|]. apply (check_iff ds Hsyn). exact Wf.
Qed.

(* for every journal the checker accepts, `check --write` prints assertions, and the journal
   extended by them (as further directives, anywhere in the files: the order is irrelevant) is
   accepted too *)
Theorem check_write_accepted sds :
  sd_syntactic sds -> check_cmd_fixed sds = COk tt ->
  exists W, check_write_assertions sds = COk W /\ check_write_cmd sds = COk (write_file W) /\
            check_cmd_fixed (sds ++ map assertion_sdirective W) = COk tt.
Proof.
  intros Hs Hok. destruct (check_write_succeeds sds Hok) as [W [HW Hcmd]].
  exists W. split; [exact HW|]. split; [exact Hcmd|].
  destruct (check_write_assertions_written sds W HW) as [ds [P Hw]].
  destruct (accepted_model sds ds Hs P Hok) as (Hsyn & _ & Hm).
  destruct (written_accepted ds W Hsyn Hm Hw) as [Hsyn2 Hacc].
  apply (accepted_cmd sds ds W Hs P Hsyn2 Hacc).
Qed.
