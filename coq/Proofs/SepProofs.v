(* C07, separators: in a successfully parsed tree the text between the leaves of every node is
   what the grammar says ([wf_separators_b], Spec/SepSpec.v): blanks between the leaves of a
   booking, a balance line, a price, an @accrue line; blanks and commas in the argument list of
   @performance; the rest of a line after the description, after every booking / balance line
   and after every addon; a node starts with its first leaf and ends with its last.

   Same technique as Proofs/KeywordProofs.v: the WINDOW of bytes each primitive consumed
   (scanner invariant, Proofs/RoundTripBase.v) plus STRUCTURAL facts read off a success equation
   (the first rune a parse function accepts).  readWhitespace1 accepts an empty run of blanks in
   front of a newline, so that the blanks of a balance line, a price and an @accrue line are not
   empty needs that the newline is neither a digit nor alphanumeric ([class_ok]); bookings and
   the @performance list need no hypothesis.                                                  *)
From Coq Require Import String ZArith List Bool Lia ZifyBool.
From Knut Require Import Model.Bytes Model.Utf8 Model.Scanner Model.Parser Spec.SyntaxSpec Spec.FormatSpec
  Spec.LeafSpec Spec.SepSpec Proofs.ScannerProofs Proofs.ParserProofs Proofs.RoundTripBase Proofs.RoundTripLeaf
  Proofs.RoundTripInv Proofs.LeafProofs Model.UnicodeTables Proofs.RoundTripTop Proofs.KeywordProofs.
Import ListNotations.
Open Scope bool_scope.
Open Scope Z_scope.

(* ================================================================== bytes *)

Lemma restline_ok W : blanks_b W = true -> restline_b (W ++ [10]) = true.
Proof. intros H. unfold restline_b. rewrite (drop_blanks_app _ _ H). reflexivity. Qed.

Lemma restline_end_nl eofok W : blanks_b W = true -> restline_end_b eofok (W ++ [10]) = true.
Proof. intros H. unfold restline_end_b. now rewrite restline_ok. Qed.

Lemma restline_end_eof W : blanks_b W = true -> restline_end_b true W = true.
Proof. intros H. unfold restline_end_b. rewrite H. apply orb_true_r. Qed.

Lemma restline_end_false w : restline_end_b false w = restline_b w.
Proof. unfold restline_end_b. cbn [andb]. apply orb_false_r. Qed.

Lemma comma_ok W1 W2 : blanks_b W1 = true -> blanks_b W2 = true -> comma_b (W1 ++ 44 :: W2) = true.
Proof. intros H1 H2. unfold comma_b. rewrite (drop_blanks_app _ _ H1).
  change (drop_blanks (44 :: W2)) with (44 :: W2). cbv beta iota. now rewrite H2. Qed.

Lemma restline_nonnil w : restline_b w = true -> w <> [].
Proof. intros H ->. discriminate H. Qed.

Lemma slice_nonnil_lt (t : str) a b : slice t a b <> [] -> a < b.
Proof.
  intros H. destruct (Z_lt_ge_dec a b) as [Hlt|Hge]; [exact Hlt|]. exfalso. apply H. unfold slice.
  replace (Z.to_nat (b - a)) with O by lia. reflexivity.
Qed.

Lemma blanks_app W1 W2 : blanks_b W1 = true -> blanks_b W2 = true -> blanks_b (W1 ++ W2) = true.
Proof. unfold blanks_b. intros H1 H2. rewrite forallb_app. now rewrite H1, H2. Qed.

Lemma last_app_nl (w : str) W d : last (w ++ W ++ [10]) d = 10.
Proof. rewrite app_assoc. apply last_last. Qed.

Lemma restline_last w d : restline_b w = true -> last w d = 10.
Proof.
  unfold restline_b. induction w as [|b w IH]; cbn [drop_blanks]; [discriminate|].
  destruct (is_ws_byte b) eqn:Hb.
  - intros H. specialize (IH H). destruct w as [|c w]; [discriminate H|]. exact IH.
  - destruct w as [|c w]; [|discriminate]. intros H. apply Z.eqb_eq in H. exact H.
Qed.

(* ================================================================== structural facts *)

Section Structure.
Variable E : env.

Lemma decimal_start s r s' : parse_decimal E s = Ok r s' ->
  cur s <> eof /\ (cur s = 45 \/ e_digit E (cur s) = true).
Proof using.
  unfold parse_decimal, annot. intros H. scrut H a0 s0 H0. clear H.
  unfold bind in H0 at 1. scrut H0 x1 s1 H1.
  unfold ifM, cur_is in H1. destruct (Z.eqb_spec (cur s) 45) as [H45|H45].
  - split; [unfold eof; lia|now left].
  - unfold ret in H1. inversion H1; subst x1 s1. clear H1.
    unfold bind in H0 at 1. scrut H0 x2 s2 H2.
    destruct (read_while1_start _ _ _ _ _ H2) as (He & Hd). split; [exact He|now right].
Qed.

Lemma date_start s r s' : parse_date E s = Ok r s' -> cur s <> eof /\ e_digit E (cur s) = true.
Proof using.
  unfold parse_date, annot. intros H. scrut H a0 s0 H0. clear H.
  unfold bind in H0 at 1. scrut H0 x1 s1 H1. clear H0.
  cbn [repeat_m] in H1. unfold bind in H1 at 1. scrut H1 x2 s2 H2. clear H1.
  unfold read_character_with in H2.
  destruct (Z.eqb_spec (cur s) eof) as [He|He]; [discriminate|].
  destruct (e_digit E (cur s)); [auto|discriminate].
Qed.

Lemma booking_start s b s' : parse_booking E s = Ok b s' -> tok_start E s.
Proof using.
  unfold parse_booking, annot. intros H. scrut H a0 s0 H0. clear H.
  unfold bind in H0 at 1. scrut H0 x1 s1 H1. exact (proj2 (account_start E _ _ _ H1)).
Qed.

Lemma bookings_loop_start n s bs s' : bookings_loop E n s = Ok bs s' -> tok_start E s.
Proof using.
  destruct n as [|n]; cbn [bookings_loop]; intros H; [discriminate|].
  unfold bind in H at 1. scrut H b s1 H1. exact (booking_start _ _ _ H1).
Qed.

End Structure.

(* ================================================================== window facts *)

Section WithEnv.
Variable E : env.
Hypothesis Hlen : e_len E = Z.of_nat (length (e_text E)).
Hypothesis Hfuel : (length (e_text E) < e_fuel E)%nat.
Hypothesis Hdec : decoder_ok (e_decode E).
Hypothesis Hloc : decoder_local (e_decode E).

Notation t := (e_text E).
Notation dec := (e_decode E).
Notation letter := (e_letter E).
Notation digit := (e_digit E).
Notation VInv := (VInv E).
Notation ipost := (@ipost E _).
Notation tok_start := (tok_start E).

Local Notation ipost_bind := (@RoundTripLeaf.ipost_bind E Hlen Hfuel Hdec Hloc _ _).
Local Notation ipost_annot := (@RoundTripLeaf.ipost_annot E Hlen Hfuel Hdec Hloc _).
Local Notation ipost_ret := (@RoundTripLeaf.ipost_ret E Hlen Hfuel Hdec Hloc _).
Local Notation ipost_ok := (@RoundTripLeaf.ipost_ok E Hlen Hfuel Hdec Hloc _).
Local Notation ipost_ret_with := (@RoundTripLeaf.ipost_ret_with E Hlen Hfuel Hdec Hloc _).
Local Notation ipost_weaken := (@RoundTripLeaf.ipost_weaken E Hlen Hfuel Hdec Hloc _).
Local Notation ipost_and := (@KeywordProofs.ipost_and E _).
Local Notation i_rw := (RoundTripLeaf.i_rw E Hlen Hfuel Hdec Hloc).
Local Notation i_rw1 := (RoundTripLeaf.i_rw1 E Hlen Hfuel Hdec Hloc).
Local Notation i_rc := (RoundTripLeaf.i_rc E Hlen Hfuel Hdec Hloc).
Local Notation i_rs := (RoundTripLeaf.i_rs E Hlen Hfuel Hdec Hloc).
Local Notation i_ra := (RoundTripLeaf.i_ra E Hlen Hfuel Hdec Hloc).
Local Notation i_ws1w := (KeywordProofs.i_ws1w E Hlen Hfuel Hdec Hloc).
Local Notation i_rest := (RoundTripLeaf.i_rest E Hlen Hfuel Hdec Hloc).
Local Notation i_date := (RoundTripLeaf.i_date E Hlen Hfuel Hdec Hloc).
Local Notation i_decimal := (RoundTripLeaf.i_decimal E Hlen Hfuel Hdec Hloc).
Local Notation i_account := (RoundTripLeaf.i_account E Hlen Hfuel Hdec Hloc).
Local Notation i_commodity := (RoundTripLeaf.i_commodity E Hlen Hfuel Hdec Hloc).
Local Notation i_quoted := (RoundTripLeaf.i_quoted E Hlen Hfuel Hdec Hloc).
Local Notation i_interval := (RoundTripLeaf.i_interval E Hlen Hfuel Hdec Hloc).
Local Notation win_slice := (RoundTripBase.win_slice E Hlen Hfuel Hdec Hloc).
Local Notation win_off := (RoundTripBase.win_off E Hlen Hfuel Hdec Hloc).
Local Notation vinv_cur_fr := (RoundTripBase.vinv_cur_fr E Hlen Hfuel Hdec Hloc).
Local Notation inv_facts := (ScannerProofs.inv_facts E Hlen Hfuel Hdec).
Local Notation cur_win_ascii := (KeywordProofs.cur_win_ascii E Hlen Hfuel Hdec Hloc).

Tactic Notation "istep" uconstr(L) "as" simple_intropattern(xpat) ident(s1) ident(HV) ident(Hle) simple_intropattern(HQ) :=
  eapply ipost_bind; [ eapply L; eauto | lia | intros xpat s1 HV Hle; cbv beta; intros HQ ].

(* a step together with a fact read off its success equation *)
Tactic Notation "istepand" uconstr(L) uconstr(R) "as" simple_intropattern(xpat) ident(s1) ident(HV) ident(Hle) simple_intropattern(HQ) :=
  eapply ipost_bind; [ apply ipost_and; [eapply L; eauto|intros ? ? ?; eapply R; eauto] | lia
                     | intros xpat s1 HV Hle; cbv beta; intros HQ ].

Lemma zlen_t : zlen t = e_len E.
Proof using Hlen. unfold zlen. now rewrite Hlen. Qed.

Lemma eof_at_end s : VInv s -> cur s = eof -> off s = zlen t.
Proof using Hlen Hfuel Hdec.
  intros HV Hc. rewrite zlen_t. pose proof (inv_facts s (proj1 HV)) as (_ & _ & _ & He & _).
  exact (proj2 (He Hc)).
Qed.

(* a non-empty run of blanks *)
Lemma blanks1_win s x s' : VInv s -> VInv s' -> Win s x s' -> wsl dec x -> x <> [] ->
  blanks1_b (slice t (off s) (off s')) = true.
Proof using All.
  intros HV HV' Hw Hx Hne. rewrite (win_slice s x s' (proj1 HV) (proj1 HV') Hw).
  apply blanks1_intro; [now apply (wsl_blanks dec Hdec)|exact Hne].
Qed.

Lemma blanks_win s x s' : VInv s -> VInv s' -> Win s x s' -> wsl dec x ->
  blanks_b (slice t (off s) (off s')) = true.
Proof using All.
  intros HV HV' Hw Hx. rewrite (win_slice s x s' (proj1 HV) (proj1 HV') Hw). now apply (wsl_blanks dec Hdec).
Qed.

(* readWhitespace1 in front of something that is neither a newline nor the end *)
Lemma ws1_blanks1 s s' : VInv s -> VInv s' -> ws1Q s s' -> cur s' <> 10 -> cur s' <> eof ->
  blanks1_b (slice t (off s) (off s')) = true.
Proof using All.
  intros HV HV' (W & HW & Hw & Hn) H10 Heof. rewrite (win_slice s W s' (proj1 HV) (proj1 HV') Hw).
  apply blanks1_intro; [exact HW|]. intros Hnil. destruct (Hn Hnil); contradiction.
Qed.

(* readRestOfWhitespaceLine *)
Lemma rest_nl s s' : VInv s -> VInv s' -> rest_of_line E s s' -> cur s' <> eof ->
  restline_b (slice t (off s) (off s')) = true.
Proof using All.
  intros HV HV' (W & HW & [Hw|(_ & He)]) Hc; [|contradiction].
  rewrite (win_slice s _ s' (proj1 HV) (proj1 HV') Hw). apply restline_ok. now apply (wsl_blanks dec Hdec).
Qed.

Lemma rest_end s s' : VInv s -> VInv s' -> rest_of_line E s s' ->
  restline_end_b (off s' =? zlen t) (slice t (off s) (off s')) = true.
Proof using All.
  intros HV HV' (W & HW & [Hw|(Hw & He)]).
  - rewrite (win_slice s _ s' (proj1 HV) (proj1 HV') Hw). apply restline_end_nl. now apply (wsl_blanks dec Hdec).
  - rewrite (win_slice s _ s' (proj1 HV) (proj1 HV') Hw). rewrite (eof_at_end s' HV' He), Z.eqb_refl.
    apply restline_end_eof. now apply (wsl_blanks dec Hdec).
Qed.

Lemma rest_end_b s s' : VInv s -> VInv s' -> rest_of_line E s s' ->
  restline_end_b (cur s' =? eof) (slice t (off s) (off s')) = true.
Proof using All.
  intros HV HV' (W & HW & [Hw|(Hw & He)]).
  - rewrite (win_slice s _ s' (proj1 HV) (proj1 HV') Hw). apply restline_end_nl. now apply (wsl_blanks dec Hdec).
  - rewrite (win_slice s _ s' (proj1 HV) (proj1 HV') Hw). rewrite He, Z.eqb_refl.
    apply restline_end_eof. now apply (wsl_blanks dec Hdec).
Qed.

(* ---- bookings ---- *)

Lemma i_booking_sep s : VInv s ->
  ipost (fun b s' => bk_range b = mkRange (off s) (off s') /\ off s < off s' /\ sep_booking t b = true)
        (off s) (parse_booking E s).
Proof using All.
  intros HV. unfold parse_booking. apply ipost_annot.
  istep i_account as c s1 HV1 L1 (Hc & Hclt & _).
  istep i_rw1 as ? s2 HV2 L2 (_ & _ & x1 & Hx1 & Hn1 & Hw1 & _).
  istep i_account as d s3 HV3 L3 (Hd & Hdlt & _).
  istep i_rw1 as ? s4 HV4 L4 (_ & _ & x2 & Hx2 & Hn2 & Hw2 & _).
  istep i_decimal as q s5 HV5 L5 (Hq & Hqlt & _).
  istep i_rw1 as ? s6 HV6 L6 (_ & _ & x3 & Hx3 & Hn3 & Hw3 & _).
  istep i_commodity as m s7 HV7 L7 (Hm & Hmlt & _).
  apply ipost_ret_with; [assumption|lia|]. prj. split; [reflexivity|]. split; [lia|].
  unfold sep_booking. prj. rewrite Hc, Hd, Hq, Hm. prj.
  rewrite (blanks1_win s1 x1 s2), (blanks1_win s3 x2 s4), (blanks1_win s5 x3 s6) by assumption.
  rewrite !Z.eqb_refl. reflexivity.
Qed.

Lemma i_bookings_loop_sep : forall n s, VInv s ->
  ipost (fun bs s' => exists b1 bs', bs = b1 :: bs' /\ r_start (bk_range b1) = off s /\
           sep_lines t (off s' =? zlen t) (map bk_range bs) (off s') = true /\
           forallb (sep_booking t) bs = true)
        (off s) (bookings_loop E n s).
Proof using All.
  induction n as [|n IH]; intros s HV; cbn [bookings_loop]; [exact I|].
  istep i_booking_sep as b s1 HV1 L1 (Hb & Hlt & Hsb).
  istep i_rest as ? s2 HV2 L2 Hrl.
  unfold ifM. destruct (is_whitespace_or_newline (cur s2) || (cur s2 =? eof)) eqn:Hg.
  - apply ipost_ret; [assumption|lia|]. exists b, []. split; [reflexivity|]. rewrite Hb. prj.
    split; [reflexivity|]. cbn [map sep_lines forallb]. rewrite Hb, Hsb. prj.
    split; [|reflexivity]. now apply rest_end.
  - eapply ipost_bind; [apply ipost_and; [apply (IH s2 HV2)|]|lia|].
    { intros bs s3 Hbs. exact (bookings_loop_start E _ _ _ _ Hbs). }
    intros bs s3 HV3 L3 ((b2 & bs' & -> & Hst & Hsl & Hall) & (Hne & _)). cbv beta in *.
    apply ipost_ret; [assumption|lia|]. exists b, (b2 :: bs'). split; [reflexivity|]. rewrite Hb. prj.
    split; [reflexivity|]. cbn [map sep_lines forallb] in *. rewrite Hb, Hsb, Hst, Hall. prj.
    rewrite (rest_nl s1 s2 HV1 HV2 Hrl Hne). split; [exact Hsl|reflexivity].
Qed.

(* ---- @performance( ... ) ---- *)

Lemma i_perf_loop_sep : forall n s, VInv s ->
  ipost (fun cs s' => (cur s <> 44 -> cs = []) /\
           forall s0 W0, VInv s0 -> Win s0 W0 s -> blanks_b W0 = true ->
                         sep_targets t false (off s0) cs (off s') = true)
        (off s) (performance_loop E n s).
Proof using All.
  induction n as [|n IH]; intros s HV; cbn [performance_loop]; [exact I|].
  unfold ifM, cur_is. destruct (Z.eqb_spec (cur s) 44) as [H44|H44].
  - istep i_rc as ? s1 HV1 L1 (Ho1 & _ & Hw1). { lia. }
    istep i_rw as ? s2 HV2 L2 (_ & x2 & Hx2 & Hw2 & _).
    istep i_commodity as c s3 HV3 L3 (Hc & Hclt & _).
    istep i_rw as ? s4 HV4 L4 (_ & x4 & Hx4 & Hw4 & _).
    istep IH as cs s5 HV5 L5 (_ & Hcs).
    apply ipost_ret; [assumption|lia|]. split; [congruence|]. intros s0 W0 HV0 Hw0 HW0.
    cbn [sep_targets]. rewrite Hc. prj.
    pose proof (win_trans _ _ _ _ _ Hw0 (win_trans _ _ _ _ _ Hw1 Hw2)) as Hw.
    pose proof (win_off s0 _ s2 (proj1 HV0) (proj1 HV2) Hw) as Ho.
    pose proof (zlen_nonneg (W0 ++ [44] ++ x2)).
    rewrite (win_slice s0 _ s2 (proj1 HV0) (proj1 HV2) Hw).
    change ([44] ++ x2) with (44 :: x2).
    rewrite (comma_ok W0 x2 HW0 (wsl_blanks dec Hdec x2 Hx2)).
    rewrite (Hcs s3 x4 HV3 Hw4 (wsl_blanks dec Hdec x4 Hx4)).
    destruct (Z.leb_spec (off s0) (off s2)); [reflexivity|lia].
  - apply ipost_ret; [assumption|lia|]. split; [reflexivity|]. intros s0 W0 HV0 Hw0 HW0.
    cbn [sep_targets]. pose proof (win_off s0 _ s (proj1 HV0) (proj1 HV) Hw0) as Ho.
    pose proof (zlen_nonneg W0).
    rewrite (win_slice s0 _ s (proj1 HV0) (proj1 HV) Hw0), HW0.
    destruct (Z.leb_spec (off s0) (off s)); [reflexivity|lia].
Qed.

Lemma i_performance_sep s : VInv s ->
  ipost (fun p s' => pf_range p = mkRange (off s) (off s') /\ off s + 2 <= off s' /\
                     sep_targets t true (off s + 1) (pf_targets p) (off s' - 1) = true)
        (off s) (parse_performance E s).
Proof using All.
  intros HV. unfold parse_performance. apply ipost_annot.
  istep i_rc as ? s1 HV1 L1 (Ho1 & _ & Hw1). { lia. }
  istep i_rw as ? s2 HV2 L2 (_ & x2 & Hx2 & Hw2 & _).
  pose proof (wsl_blanks dec Hdec x2 Hx2) as HB2.
  eapply ipost_bind with (Q1 := fun first s4 => exists s0 W0, VInv s0 /\ Win s0 W0 s4 /\ blanks_b W0 = true /\
      ((first = [] /\ s0 = s1 /\ cur s4 = 41) \/ (first = [mkRange (off s2) (off s0)] /\ off s2 <= off s0))); [|lia|].
  { unfold ifM. destruct (Z.eqb_spec (cur s2) 41) as [H41|H41]; cbn [negb].
    - apply ipost_ret; [assumption|lia|]. exists s1, x2. split; [assumption|]. split; [assumption|]. split; [assumption|]. left. auto.
    - istep i_commodity as c s3 HV3 L3 (Hc & Hclt & _).
      istep i_rw as ? s4 HV4 L4 (_ & x4 & Hx4 & Hw4 & _).
      apply ipost_ret; [assumption|lia|]. exists s3, x4. split; [assumption|]. split; [assumption|].
      split; [now apply (wsl_blanks dec Hdec)|]. right. rewrite Hc. split; [reflexivity|lia]. }
  intros first s4 HV4 L4 (s0 & W0 & HV0 & Hw0 & HW0 & Hfirst).
  istep i_perf_loop_sep as more s5 HV5 L5 (Hnil & Hmore).
  istep i_rc as ? s6 HV6 L6 (Ho6 & _ & _). { lia. }
  apply ipost_ret_with; [assumption|lia|]. prj. split; [reflexivity|]. split; [lia|].
  replace (off s + 1) with (off s1) by lia. replace (off s6 - 1) with (off s5) by lia.
  specialize (Hmore s0 W0 HV0 Hw0 HW0).
  destruct Hfirst as [(-> & -> & H41)|(-> & Hle)].
  - assert (Hm : more = []) by (apply Hnil; lia). subst more. cbn [app sep_targets] in *. exact Hmore.
  - cbn [app sep_targets]. prj. rewrite Hmore, (blanks_win s1 x2 s2 HV1 HV2 Hw2 Hx2).
    destruct (Z.leb_spec (off s1) (off s2)); [reflexivity|lia].
Qed.

(* ---- needs that a newline is not alphanumeric ---- *)

Hypothesis Hcls : class_ok letter digit.

Local Notation tok_not_nl := (KeywordProofs.tok_not_nl E Hcls).

Lemma digit_not_nl c : digit c = true -> c <> 10.
Proof using All.
  intros Hd ->. destruct (co_sep _ _ Hcls 10) as (_ & H); [cbn [In]; tauto|]. congruence.
Qed.

Lemma decimal_not_nl s r s' : parse_decimal E s = Ok r s' -> cur s <> 10 /\ cur s <> eof.
Proof using All.
  intros H. destruct (decimal_start E _ _ _ H) as (He & [H45|Hd]); split; try assumption; [lia|].
  now apply digit_not_nl.
Qed.

Lemma date_not_nl s r s' : parse_date E s = Ok r s' -> cur s <> 10 /\ cur s <> eof.
Proof using All.
  intros H. destruct (date_start E _ _ _ H) as (He & Hd). split; [now apply digit_not_nl|assumption].
Qed.

Lemma commodity_not_nl s r s' : parse_commodity E s = Ok r s' -> cur s <> 10 /\ cur s <> eof.
Proof using All.
  intros H. destruct (commodity_start E _ _ _ H) as (_ & He & Ha). apply tok_not_nl. split; [assumption|now right].
Qed.

Lemma account_not_nl s a s' : parse_account E s = Ok a s' -> cur s <> 10 /\ cur s <> eof.
Proof using All. intros H. apply tok_not_nl. exact (proj2 (account_start E _ _ _ H)). Qed.

(* ---- balance lines ---- *)

Lemma i_balance_sep s : VInv s ->
  ipost (fun b s' => bl_range b = mkRange (off s) (off s') /\ off s < off s' /\ sep_balance t b = true)
        (off s) (parse_balance E s).
Proof using All.
  intros HV. unfold parse_balance. apply ipost_annot.
  istep i_account as c s1 HV1 L1 (Hc & Hclt & _).
  istep i_ws1w as ? s2 HV2 L2 Hq1.
  istepand i_decimal decimal_not_nl as q s3 HV3 L3 ((Hq & Hqlt & _) & (Hq10 & Hqe)).
  istep i_ws1w as ? s4 HV4 L4 Hq2.
  istepand i_commodity commodity_not_nl as m s5 HV5 L5 ((Hm & Hmlt & _) & (Hm10 & Hme)).
  apply ipost_ret_with; [assumption|lia|]. prj. split; [reflexivity|]. split; [lia|].
  unfold sep_balance. prj. rewrite Hc, Hq, Hm. prj.
  rewrite (ws1_blanks1 s1 s2), (ws1_blanks1 s3 s4) by assumption.
  rewrite !Z.eqb_refl. reflexivity.
Qed.

Lemma i_balances_loop_sep : forall n s, VInv s ->
  ipost (fun bs s' => exists b1 bs', bs = b1 :: bs' /\ r_start (bl_range b1) = off s /\
           sep_lines t (off s' =? zlen t) (map bl_range bs) (off s') = true /\
           forallb (sep_balance t) bs = true)
        (off s) (balances_loop E n s).
Proof using All.
  induction n as [|n IH]; intros s HV; cbn [balances_loop]; [exact I|].
  istep i_balance_sep as b s1 HV1 L1 (Hb & Hlt & Hsb).
  istep i_rest as ? s2 HV2 L2 Hrl.
  unfold ifM. destruct (is_whitespace_or_newline (cur s2) || (cur s2 =? eof)) eqn:Hg.
  - apply ipost_ret; [assumption|lia|]. exists b, []. split; [reflexivity|]. rewrite Hb. prj.
    split; [reflexivity|]. cbn [map sep_lines forallb]. rewrite Hb, Hsb. prj.
    split; [|reflexivity]. now apply rest_end.
  - eapply ipost_bind; [apply ipost_and; [apply (IH s2 HV2)|]|lia|].
    { intros bs s3 Hbs. destruct (balances_loop_start E _ _ _ _ Hbs) as (b0 & bs0 & _ & _ & Ht). exact Ht. }
    intros bs s3 HV3 L3 ((b2 & bs' & -> & Hst & Hsl & Hall) & (Hne & _)). cbv beta in *.
    apply ipost_ret; [assumption|lia|]. exists b, (b2 :: bs'). split; [reflexivity|]. rewrite Hb. prj.
    split; [reflexivity|]. cbn [map sep_lines forallb] in *. rewrite Hb, Hsb, Hst, Hall. prj.
    rewrite (rest_nl s1 s2 HV1 HV2 Hrl Hne). split; [exact Hsl|reflexivity].
Qed.

(* ---- @accrue ---- *)

Lemma i_accrual_sep s : VInv s ->
  ipost (fun a s' => ac_range a = mkRange (off s) (off s') /\ off s < off s' /\
           forall r, r_end r = off s' ->
             sep_accrual t (mkAccrual r (ac_interval a) (ac_start a) (ac_end a) (ac_account a)) = true)
        (off s) (parse_accrual E s).
Proof using All.
  intros HV. unfold parse_accrual. apply ipost_annot.
  istep i_ws1w as ? s1 HV1 L1 _.
  istep i_interval as iv s2 HV2 L2 (Hiv & Hivlt & _).
  istep i_ws1w as ? s3 HV3 L3 Hq1.
  istepand i_date date_not_nl as st s4 HV4 L4 ((Hst & _ & _) & (Hs10 & Hse)).
  istep i_ws1w as ? s5 HV5 L5 Hq2.
  istepand i_date date_not_nl as en s6 HV6 L6 ((Hen & _ & _) & (He10 & Hee)).
  istep i_ws1w as ? s7 HV7 L7 Hq3.
  istepand i_account account_not_nl as acc s8 HV8 L8 ((Ha & _ & _) & (Ha10 & Hae)).
  apply ipost_ret_with; [assumption|lia|]. prj. split; [reflexivity|]. split; [lia|].
  intros r Hr. unfold sep_accrual. prj. rewrite Hiv, Hst, Hen, Ha, Hr. prj.
  rewrite (ws1_blanks1 s2 s3), (ws1_blanks1 s4 s5), (ws1_blanks1 s6 s7) by assumption.
  rewrite Z.eqb_refl. apply orb_true_r.
Qed.

(* ---- addons: the loop invariant [tile_ad_b] ---- *)

Lemma is_zero_perf_false a b ts : 0 <= a -> a < b -> is_zero_perf (mkPerf (mkRange a b) ts) = false.
Proof using.
  clear. intros H0 Hlt. unfold is_zero_perf, is_zero_range. prj.
  destruct (Z.eqb_spec b 0); [lia|]. now rewrite andb_false_r.
Qed.

Lemma is_zero_accrual_false a b iv st en acc : 0 <= a -> a < b ->
  is_zero_accrual (mkAccrual (mkRange a b) iv st en acc) = false.
Proof using.
  clear. intros H0 Hlt. unfold is_zero_accrual, is_zero_range. prj.
  destruct (Z.eqb_spec b 0); [lia|]. now rewrite andb_false_r.
Qed.

Lemma restline_lt a b : restline_b (slice t a b) = true -> a < b.
Proof using. clear. intros H. apply (slice_nonnil_lt t). now apply restline_nonnil. Qed.

Lemma tile_perf_nonempty eofok lo hi p c :
  tile_ad_b t eofok lo hi p c = true -> is_zero_perf p = false -> range_empty (pf_range p) = false.
Proof using.
  clear. unfold tile_ad_b, range_empty. intros H Hz. rewrite Hz in H.
  destruct (is_zero_accrual c); repeat (apply andb_true_iff in H; destruct H as (H & ?)); lia.
Qed.

Lemma tile_accr_nonempty eofok lo hi p c :
  tile_ad_b t eofok lo hi p c = true -> is_zero_accrual c = false -> range_empty (ac_range c) = false.
Proof using.
  clear. unfold tile_ad_b, range_empty. intros H Hz. rewrite Hz in H.
  destruct (is_zero_perf p); repeat (apply andb_true_iff in H; destruct H as (H & ?)); lia.
Qed.

Definition AdSep (lo : Z) (s : state) (ad : addons) : Prop :=
  tile_ad_b t false lo (off s) (ad_perf ad) (ad_accrual ad) = true /\
  sep_perf t (ad_perf ad) = true /\ sep_accrual t (ad_accrual ad) = true.

Lemma i_addons_loop_sep sc : forall n s ad, VInv s -> AdSep (sc_start sc) s ad -> sc_start sc <= off s ->
  ipost (fun a s' => ad_range a = mkRange (sc_start sc) (off s') /\ sc_start sc < off s' /\
                     tile_ad_b t (cur s' =? eof) (sc_start sc) (off s') (ad_perf a) (ad_accrual a) = true /\
                     sep_perf t (ad_perf a) = true /\ sep_accrual t (ad_accrual a) = true)
        (off s) (addons_loop E sc n ad s).
Proof using All.
  induction n as [|n IH]; intros s ad HV (Ht & Hsp & Hsa) Hlo; cbn [addons_loop]; [exact I|].
  istep i_ra as r s1 HV1 L1 (Hr & kw & Hin & Hw). { repeat constructor; unfold ascii; lia. }
  pose proof (win_off s kw s1 (proj1 HV) (proj1 HV1) Hw) as Ho.
  pose proof (win_slice s kw s1 (proj1 HV) (proj1 HV1) Hw) as Hsl.
  assert (Hex : extract E r = kw) by (rewrite Hr; unfold extract; prj; exact Hsl).
  pose proof (inv_facts s (proj1 HV)) as (H0 & _).
  assert (Hlt : off s < off s1).
  { assert (1 <= zlen kw) by (cbn [In] in Hin; destruct Hin as [<-|[<-|[]]]; vm_compute; discriminate). lia. }
  set (lo := sc_start sc) in *.
  eapply ipost_bind with (Q1 := fun ad' s2 =>
      sep_perf t (ad_perf ad') = true /\ sep_accrual t (ad_accrual ad') = true /\
      forall eofok hi, restline_end_b eofok (slice t (off s2) hi) = true ->
                       tile_ad_b t eofok lo hi (ad_perf ad') (ad_accrual ad') = true); [|lia|].
  { destruct (str_eqb (extract E r) kw_performance) eqn:E1.
    - destruct (is_zero_perf (ad_perf ad)) eqn:Hzp.
      2: { rewrite (tile_perf_nonempty _ _ _ _ _ Ht Hzp). exact I. }
      destruct (negb (range_empty (pf_range (ad_perf ad)))); [exact I|].
      istep i_performance_sep as p s2 HV2 L2 (Hpr & Hlen2 & Hst).
      apply ipost_ret; [assumption|lia|]. prj.
      apply str_eqb_eq in E1. rewrite Hex in E1. rewrite E1 in Ho, Hsl.
      assert (Ho1 : off s1 = off s + 12) by (rewrite Ho; reflexivity).
      rewrite Hpr, Hr, (extend_range _ _ _ Hlt) by lia.
      split; [|split; [exact Hsa|]].
      { unfold sep_perf. prj. change (zlen kw_paren) with 13. replace (off s + 13) with (off s1 + 1) by lia.
        rewrite Hst. apply orb_true_r. }
      assert (Hlt2 : off s < off s2) by lia.
      intros eofok hi Hrl. unfold tile_ad_b in Ht |- *. prj. rewrite Hzp in Ht.
      rewrite (is_zero_perf_false _ _ _ H0 Hlt2).
      destruct (is_zero_accrual (ad_accrual ad)) eqn:Hza.
      + rewrite Hrl. lia.
      + apply andb_true_iff in Ht. destruct Ht as (Ht & Hr3). apply andb_true_iff in Ht. destruct Ht as (Hr1 & Hr2).
        rewrite restline_end_false in Hr3. pose proof (restline_lt _ _ Hr3) as Hlt3.
        rewrite Hr1, Hr2, Hr3, Hrl.
        destruct (Z.ltb_spec (off s) (r_start (ac_range (ad_accrual ad)))); [lia|].
        destruct (Z.ltb_spec (off s) (off s2)); [reflexivity|lia].
    - destruct (str_eqb (extract E r) kw_accrue) eqn:E2.
      + destruct (is_zero_accrual (ad_accrual ad)) eqn:Hza.
        2: { rewrite (tile_accr_nonempty _ _ _ _ _ Ht Hza). exact I. }
        destruct (negb (range_empty (ac_range (ad_accrual ad)))); [exact I|].
        istep i_accrual_sep as a s2 HV2 L2 (Har & Hlen2 & Hst).
        apply ipost_ret; [assumption|lia|]. prj.
        rewrite Har, Hr, (extend_range _ _ _ Hlt) by lia.
        split; [exact Hsp|]. split; [apply Hst; reflexivity|].
        assert (Hlt2 : off s < off s2) by lia.
        intros eofok hi Hrl. unfold tile_ad_b in Ht |- *. prj. rewrite Hza in Ht.
        rewrite (is_zero_accrual_false _ _ _ _ _ _ H0 Hlt2).
        destruct (is_zero_perf (ad_perf ad)) eqn:Hzp.
        * rewrite Hrl. lia.
        * apply andb_true_iff in Ht. destruct Ht as (Ht & Hr3). apply andb_true_iff in Ht. destruct Ht as (Hr1 & Hr2).
          rewrite restline_end_false in Hr3. pose proof (restline_lt _ _ Hr3) as Hlt3.
          rewrite Hr1, Hr2, Hr3, Hrl.
          destruct (Z.ltb_spec (r_start (pf_range (ad_perf ad))) (off s)); [|lia].
          destruct (Z.ltb_spec (off s) (off s2)); [reflexivity|lia].
      + exfalso. rewrite Hex in E1, E2. cbn [In] in Hin.
        destruct Hin as [<-|[<-|[]]]; [rewrite str_eqb_refl in E1|rewrite str_eqb_refl in E2]; discriminate. }
  intros ad' s2 HV2 L2 (Hsp' & Hsa' & Htile).
  eapply ipost_bind with (Q1 := fun _ s3 => rest_of_line E s2 s3);
    [apply replace_err_ipost; apply i_rest; assumption|lia|].
  intros _ s3 HV3 L3 Hrl. cbv beta in *.
  pose proof (Htile _ _ (rest_end_b s2 s3 HV2 HV3 Hrl)) as Ht3.
  unfold ifM. destruct (Z.eqb_spec (cur s3) 64) as [H64|H64]; cbn [negb].
  - eapply ipost_weaken; [apply (IH s3 ad' HV3)|lia|].
    + split; [|split; assumption]. replace (cur s3 =? eof) with false in Ht3; [exact Ht3|].
      rewrite H64. reflexivity.
    + lia.
    + intros a s' _ L' Ha. exact Ha.
  - apply ipost_ret_with; [assumption|lia|]. prj. split; [reflexivity|]. split; [lia|].
    split; [exact Ht3|]. split; assumption.
Qed.

Lemma i_addons_sep s : VInv s ->
  ipost (fun a s' => ad_range a = mkRange (off s) (off s') /\ off s < off s' /\
                     tile_ad_b t (cur s' =? eof) (off s) (off s') (ad_perf a) (ad_accrual a) = true /\
                     sep_perf t (ad_perf a) = true /\ sep_accrual t (ad_accrual a) = true)
        (off s) (parse_addons E s).
Proof using All.
  intros HV. unfold parse_addons. apply ipost_annot.
  apply (i_addons_loop_sep (new_scope DAddons s) (loop_fuel E) s zero_addons HV); [|prj; lia].
  split; [|split; reflexivity]. unfold tile_ad_b. prj. cbn [ad_perf ad_accrual zero_addons].
  change (is_zero_perf zero_perf) with true. change (is_zero_accrual zero_accrual) with true. apply Z.eqb_refl.
Qed.

(* ---- the kinds of directives ---- *)

Lemma i_include_sep s : VInv s ->
  ipost (fun i s' => in_range i = mkRange (off s) (off s') /\ r_end (qs_range (in_path i)) = off s')
        (off s) (parse_include E s).
Proof using All.
  intros HV. unfold parse_include. apply ipost_annot.
  istep i_rs as ? s1 HV1 L1 _. { repeat constructor; unfold ascii; lia. }
  istep i_ws1w as ? s2 HV2 L2 _.
  istep i_quoted as q s3 HV3 L3 (Hq & _ & _).
  apply ipost_ret_with; [assumption|lia|]. prj. rewrite Hq. prj. split; reflexivity.
Qed.

Lemma i_open_sep sc date s : VInv s ->
  ipost (fun o s' => op_date o = date /\ op_range o = mkRange (sc_start sc) (off s') /\
                     r_end (acc_range (op_account o)) = off s')
        (off s) (parse_open E sc date s).
Proof using All.
  intros HV. unfold parse_open. apply ipost_annot.
  istep i_account as a s1 HV1 L1 (Ha & _ & _).
  apply ipost_ret_with; [assumption|lia|]. prj. rewrite Ha. prj. repeat split; reflexivity.
Qed.

Lemma i_close_sep sc date s : VInv s ->
  ipost (fun o s' => cl_date o = date /\ cl_range o = mkRange (sc_start sc) (off s') /\
                     r_end (acc_range (cl_account o)) = off s')
        (off s) (parse_close E sc date s).
Proof using All.
  intros HV. unfold parse_close. apply ipost_annot.
  istep i_account as a s1 HV1 L1 (Ha & _ & _).
  apply ipost_ret_with; [assumption|lia|]. prj. rewrite Ha. prj. repeat split; reflexivity.
Qed.

Lemma i_price_sep sc date s : VInv s ->
  ipost (fun p s' => pr_date p = date /\ pr_range p = mkRange (sc_start sc) (off s') /\
           blanks1_b (slice t (r_end (pr_commodity p)) (r_start (pr_price p))) = true /\
           blanks1_b (slice t (r_end (pr_price p)) (r_start (pr_target p))) = true /\
           r_end (pr_target p) = off s')
        (off s) (parse_price E sc date s).
Proof using All.
  intros HV. unfold parse_price.
  eapply ipost_bind with (Q1 := fun cp s4 =>
      blanks1_b (slice t (r_end (fst cp)) (r_start (snd cp))) = true /\
      exists s3, VInv s3 /\ r_end (snd cp) = off s3 /\ ws1Q s3 s4); [|lia|].
  { apply ipost_annot.
    istep i_commodity as c s1 HV1 L1 (Hc & _ & _).
    istep i_ws1w as ? s2 HV2 L2 Hq1.
    istepand i_decimal decimal_not_nl as p s3 HV3 L3 ((Hp & _ & _) & (H10 & He)).
    istep i_ws1w as ? s4 HV4 L4 Hq2.
    apply ipost_ret; [assumption|lia|]. prj. rewrite Hc, Hp. prj. split; [now apply ws1_blanks1|].
    exists s3. auto. }
  intros cp s4 HV4 L4 (Hb1 & s3 & HV3 & He3 & Hq2).
  istepand i_commodity commodity_not_nl as tg s5 HV5 L5 ((Htg & _ & _) & (H10 & He)).
  apply ipost_ret_with; [assumption|lia|]. prj. split; [reflexivity|]. split; [reflexivity|]. split; [exact Hb1|].
  rewrite Htg, He3. prj. split; [now apply ws1_blanks1|reflexivity].
Qed.

Lemma i_assertion_sep sc date s : VInv s ->
  ipost (fun a s' => as_date a = date /\ as_range a = mkRange (sc_start sc) (off s') /\
           forallb (sep_balance t) (as_balances a) = true /\
           (match as_balances a with [b] => r_end (bl_range b) =? off s' | _ => false end ||
            sep_lines t (off s' =? zlen t) (map bl_range (as_balances a)) (off s')) = true)
        (off s) (parse_assertion E sc date s).
Proof using All.
  intros HV. unfold parse_assertion. apply ipost_annot.
  unfold ifM. destruct (is_newline (cur s)).
  - istep i_rest as ? s1 HV1 L1 _.
    istep i_balances_loop_sep as bs s2 HV2 L2 (b1 & bs' & Hbs & _ & Hsl & Hall).
    apply ipost_ret_with; [assumption|lia|]. prj. split; [reflexivity|]. split; [reflexivity|].
    split; [exact Hall|]. rewrite Hsl. apply orb_true_r.
  - istep i_balance_sep as b s1 HV1 L1 (Hb & _ & Hsb).
    apply ipost_ret_with; [assumption|lia|]. prj. split; [reflexivity|]. split; [reflexivity|].
    cbn [forallb]. rewrite Hsb, Hb. prj. rewrite Z.eqb_refl. split; reflexivity.
Qed.

Lemma i_transaction_sep sc date ad s : VInv s ->
  ipost (fun x s' => tx_date x = date /\ tx_addons x = ad /\ tx_range x = mkRange (sc_start sc) (off s') /\
           match tx_bookings x with
           | b1 :: _ => restline_b (slice t (r_end (qs_range (tx_desc x))) (r_start (bk_range b1)))
           | [] => false
           end = true /\
           sep_lines t (off s' =? zlen t) (map bk_range (tx_bookings x)) (off s') = true /\
           forallb (sep_booking t) (tx_bookings x) = true)
        (off s) (parse_transaction E sc date ad s).
Proof using All.
  intros HV. unfold parse_transaction. apply ipost_annot.
  istep i_quoted as q s1 HV1 L1 (Hq & _ & _).
  istep i_rest as ? s2 HV2 L2 Hrl.
  eapply ipost_bind; [apply ipost_and; [apply (i_bookings_loop_sep _ s2 HV2)|]|lia|].
  { intros bs s3 Hbs. exact (bookings_loop_start E _ _ _ _ Hbs). }
  intros bs s3 HV3 L3 ((b1 & bs' & -> & Hst & Hsl & Hall) & (Hne & _)). cbv beta in *.
  apply ipost_ret_with; [assumption|lia|]. prj. repeat (split; [reflexivity|]).
  rewrite Hq, Hst. prj. split; [exact (rest_nl s1 s2 HV1 HV2 Hrl Hne)|]. split; assumption.
Qed.

(* ---- dropped addon lines ---- *)

Lemma last_app_ne (a b : str) d : b <> [] -> last (a ++ b) d = last b d.
Proof using.
  clear. intros Hb. induction a as [|x a IH]; [reflexivity|]. cbn [app]. cbn [last].
  destruct (a ++ b) eqn:Hab; [|exact IH]. apply app_eq_nil in Hab. tauto.
Qed.

Lemma first_byte s hi c : VInv s -> cur s = c -> 0 <= c < 128 -> off s < hi ->
  exists r, slice t (off s) hi = c :: r.
Proof using All.
  intros HV Hc Hr Hlt.
  assert (Hne : cur s <> eof) by (unfold eof; lia).
  destruct (RoundTripBase.vinv_chunk E Hlen Hfuel Hdec Hloc s HV Hne) as (b & Hch & Hrb & _).
  rewrite Hc in Hch. rewrite (chunk_ascii_inv dec Hdec c b Hch Hr) in Hrb.
  pose proof HV as ((_ & Hrest & _) & _).
  replace hi with (off s + (hi - off s)) by lia.
  rewrite (slice_rest t (off s) (hi - off s) (rest s) Hrest), Hrb.
  destruct (Z.to_nat (hi - off s)) as [|k] eqn:Hk; [lia|]. cbn [app firstn]. eauto.
Qed.

Lemma tile_last_nl lo hi p c : 0 <= lo -> tile_ad_b t false lo hi p c = true -> lo < hi ->
  exists x, lo <= x /\ x <= hi /\ restline_b (slice t x hi) = true.
Proof using.
  clear. intros H0 H Hlt. unfold tile_ad_b in H.
  destruct (is_zero_perf p), (is_zero_accrual c).
  - lia.
  - apply andb_true_iff in H. destruct H as (H & H3). apply andb_true_iff in H. destruct H as (H1 & H2).
    rewrite restline_end_false in H3. pose proof (restline_lt _ _ H3). exists (r_end (ac_range c)). split; [lia|]. split; [lia|exact H3].
  - apply andb_true_iff in H. destruct H as (H & H3). apply andb_true_iff in H. destruct H as (H1 & H2).
    rewrite restline_end_false in H3. pose proof (restline_lt _ _ H3). exists (r_end (pf_range p)). split; [lia|]. split; [lia|exact H3].
  - apply andb_true_iff in H. destruct H as (H & H3). apply andb_true_iff in H. destruct H as (H1 & H2).
    destruct (r_start (pf_range p) <? r_start (ac_range c)).
    + apply andb_true_iff in H3. destruct H3 as (H3 & H5). apply andb_true_iff in H3. destruct H3 as (H3 & H4).
      rewrite restline_end_false in H5. pose proof (restline_lt _ _ H4). pose proof (restline_lt _ _ H5).
      exists (r_end (ac_range c)). split; [lia|]. split; [lia|exact H5].
    + apply andb_true_iff in H3. destruct H3 as (H3 & H5). apply andb_true_iff in H3. destruct H3 as (H3 & H4).
      rewrite restline_end_false in H5. pose proof (restline_lt _ _ H4). pose proof (restline_lt _ _ H5).
      exists (r_end (pf_range p)). split; [lia|]. split; [lia|exact H5].
Qed.

(* what parseDirective knows after its addons *)
Definition AdQ (s : state) (ad : addons) (s1 : state) : Prop :=
  (ad = zero_addons /\ s1 = s) \/
  (cur s = 64 /\ ad_range ad = mkRange (off s) (off s1) /\ off s < off s1 /\
   tile_ad_b t (cur s1 =? eof) (off s) (off s1) (ad_perf ad) (ad_accrual ad) = true /\
   sep_perf t (ad_perf ad) = true /\ sep_accrual t (ad_accrual ad) = true).

Lemma adq_facts s ad s1 : VInv s -> AdQ s ad s1 -> cur s1 <> eof ->
  sep_addons t ad = true /\ sep_dropped t (off s) (off s1) = true /\
  (if is_zero_addons ad then off s1 =? off s
   else (r_start (ad_range ad) =? off s) && (off s1 =? r_end (ad_range ad))) = true.
Proof using All.
  intros HV [(-> & ->)|(H64 & Hr & Hlt & Ht & Hsp & Hsa)] Hne.
  - split; [reflexivity|]. change (is_zero_addons zero_addons) with true. cbv iota.
    unfold sep_dropped. rewrite slice_nil, !Z.eqb_refl. split; [|reflexivity].
    destruct (Z.leb_spec (off s) (off s)); [reflexivity|lia].
  - pose proof (inv_facts s (proj1 HV)) as (H0 & _).
    replace (cur s1 =? eof) with false in Ht by (symmetry; now apply Z.eqb_neq).
    assert (Hz : is_zero_addons ad = false).
    { unfold is_zero_addons, is_zero_range. rewrite Hr. prj. destruct (Z.eqb_spec (off s1) 0); [lia|]. now rewrite andb_false_r. }
    rewrite Hz. unfold sep_addons. rewrite Hz, Hr. prj. rewrite Ht, Hsp, Hsa, !Z.eqb_refl.
    split; [destruct (Z.ltb_spec (off s) (off s1)); [reflexivity|lia]|]. split; [|reflexivity].
    unfold sep_dropped. destruct (Z.leb_spec (off s) (off s1)); [|lia]. cbn [andb].
    destruct (tile_last_nl _ _ _ _ H0 Ht Hlt) as (x & Hx1 & Hx2 & Hrl).
    destruct (first_byte s (off s1) 64 HV H64 ltac:(lia) Hlt) as (r & Hfb).
    unfold dropped_b. rewrite Hfb, <- Hfb. rewrite (slice_app t (off s) x (off s1)) by lia.
    rewrite (last_app_ne _ _ 0 (restline_nonnil _ Hrl)), (restline_last _ 0 Hrl). reflexivity.
Qed.

(* ---- directive ---- *)

Lemma i_directive_sep s : VInv s ->
  ipost (fun d _ => sep_body t (d_range d) (d_body d) = true) (off s) (parse_directive E s).
Proof using All.
  intros HV. unfold parse_directive. apply ipost_annot.
  eapply ipost_bind with (Q1 := fun ad s1 => AdQ s ad s1); [|lia|].
  { unfold ifM, cur_is. destruct (Z.eqb_spec (cur s) 64) as [H64|H64].
    - eapply ipost_weaken; [apply i_addons_sep; assumption|lia|]. intros a s' _ _ Ha. right. split; [exact H64|exact Ha].
    - apply ipost_ret; [assumption|lia|]. left. auto. }
  intros ad s1 HV1 L1 Had.
  unfold ifM at 1. unfold cur_is at 1. destruct (Z.eqb_spec (cur s1) 105) as [H105|H105].
  - istep i_include_sep as i s2 HV2 L2 (Hir & Hie).
    apply ipost_ret_with; [assumption|lia|]. prj. cbn [sep_body].
    destruct (adq_facts s ad s1 HV Had ltac:(unfold eof; lia)) as (_ & Hdr & _).
    rewrite Hir, Hie. prj. rewrite Hdr, Z.eqb_refl. reflexivity.
  - istepand i_date (date_start E) as date s2 HV2 L2 ((Hdate & _ & _) & (Hne1 & _)).
    destruct (adq_facts s ad s1 HV Had Hne1) as (Hsad & Hdr & Hadj).
    istep i_ws1w as ? s3 HV3 L3 _.
    unfold ifM at 1. destruct (cur_is 34 s3).
    + istep i_transaction_sep as x s4 HV4 L4 (Hxd & Hxa & Hxr & Hx1 & Hx2 & Hx3).
      apply ipost_ret_with; [assumption|lia|]. prj. cbn [sep_body].
      rewrite Hxd, Hxa, Hxr, Hdate. prj. rewrite Hsad, Hx1, Hx2, Hx3. cbn [andb]. rewrite !andb_true_r.
      destruct (is_zero_addons ad); [exact Hadj|].
      apply andb_true_iff in Hadj. destruct Hadj as (A1 & A2). rewrite A1. exact A2.
    + istep i_ra as kw s4 HV4 L4 (Hkw & k & Hin & Hwk). { repeat constructor; unfold ascii; lia. }
      istep i_ws1w as ? s5 HV5 L5 _.
      assert (Hex : extract E kw = k).
      { rewrite Hkw. unfold extract. prj. apply (win_slice s3 k s4 (proj1 HV3) (proj1 HV4) Hwk). }
      destruct (str_eqb (extract E kw) kw_open) eqn:E1; [|
      destruct (str_eqb (extract E kw) kw_close) eqn:E2; [|
      destruct (str_eqb (extract E kw) kw_balance) eqn:E3; [|
      destruct (str_eqb (extract E kw) kw_price) eqn:E4]]].
      * istep i_open_sep as x s6 HV6 L6 (Hxd & Hxr & Hxe).
        apply ipost_ret_with; [assumption|lia|]. prj. cbn [sep_body].
        rewrite Hxd, Hxr, Hxe, Hdate. prj. rewrite Hdr, Z.eqb_refl. reflexivity.
      * istep i_close_sep as x s6 HV6 L6 (Hxd & Hxr & Hxe).
        apply ipost_ret_with; [assumption|lia|]. prj. cbn [sep_body].
        rewrite Hxd, Hxr, Hxe, Hdate. prj. rewrite Hdr, Z.eqb_refl. reflexivity.
      * istep i_assertion_sep as x s6 HV6 L6 (Hxd & Hxr & Hx1 & Hx2).
        apply ipost_ret_with; [assumption|lia|]. prj. cbn [sep_body].
        rewrite Hxd, Hxr, Hdate. prj. rewrite Hdr, Hx1, Hx2. reflexivity.
      * istep i_price_sep as x s6 HV6 L6 (Hxd & Hxr & Hx1 & Hx2 & Hxe).
        apply ipost_ret_with; [assumption|lia|]. prj. cbn [sep_body].
        rewrite Hxd, Hxr, Hxe, Hdate. prj. rewrite Hdr, Hx1, Hx2, Z.eqb_refl. reflexivity.
      * exfalso. rewrite Hex in E1, E2, E3, E4. cbn [In] in Hin.
        destruct Hin as [<-|[<-|[<-|[<-|[]]]]];
          [rewrite str_eqb_refl in E1|rewrite str_eqb_refl in E2|rewrite str_eqb_refl in E3|rewrite str_eqb_refl in E4];
          discriminate.
Qed.

Lemma parse_env_separators f : parse_env E = ParseOk f -> wf_separators_b t f = true.
Proof using All.
  unfold parse_env. destruct (advance E (init_state E)) as [u s|e s|] eqn:Ha; try discriminate.
  destruct (inv_advance_init E Hlen Hfuel Hdec Hloc u s Ha) as (HV & Ho).
  unfold parse_file, annot, bind.
  pose proof (i_file_loop_all E Hlen Hfuel Hdec Hloc (fun d => sep_body t (d_range d) (d_body d) = true)
                i_directive_sep (loop_fuel E) s HV) as Hf.
  destruct (file_loop E (loop_fuel E) s) as [ds s'|e s'|]; cbn [RoundTripLeaf.ipost] in Hf; try discriminate.
  unfold ret_with. intros H. inversion H. subst f. unfold wf_separators_b. prj.
  destruct Hf as (_ & _ & Hf). apply forallb_forall. rewrite Forall_forall in Hf. exact Hf.
Qed.

End WithEnv.

(* ================================================================== the theorem *)

Theorem parse_text_separators letter digit t f : class_ok letter digit ->
  parse_text letter digit t = ParseOk f -> wf_separators_b t f = true.
Proof.
  intros Hcls Hp. set (E := mk_env Utf8M.decode letter digit t).
  assert (Hfuel : (length (e_text E) < e_fuel E)%nat) by (cbn [E mk_env e_text e_fuel]; lia).
  exact (parse_env_separators E eq_refl Hfuel utf8_decoder_ok utf8_decoder_local Hcls f Hp).
Qed.

(* without [class_ok] the blanks readWhitespace1 leaves out may be missing altogether: a
   classification that calls the newline a letter lets the target commodity of a price start
   with the newline that follows the number *)
Definition nls_text : str := Eval vm_compute in
  runes_of_string "2020-01-01 price A 1
B"%string.

Theorem separators_unrestricted_refuted :
  exists letter digit t f, parse_text letter digit t = ParseOk f /\ wf_separators_b t f = false.
Proof.
  exists nl_letter, nl_digit, nls_text. eexists. split; [vm_compute; reflexivity|]. vm_compute. reflexivity.
Qed.
