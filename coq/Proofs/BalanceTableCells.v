(* C02, table level, part 3: the cells of the account blocks of the table equal the ledger
   computation; assembly of the table-level theorems C02_table_rows / C02_table_cells. *)
From Coq Require Import ZArith QArith List Bool Lia Permutation.
From Knut Require Import Model.Str Model.Dec Model.Date Model.Account Model.Ledger Model.Price
     Model.Journal Model.Check Model.Pipeline Model.Table Model.Report Model.Cli
     Spec.WellformedSpec Spec.LedgerSpec Spec.LedgerSyntax Spec.BalanceTableSpec
     Proofs.DecValue Proofs.StrProofs Proofs.CheckLemmas Proofs.ReportSum Proofs.Conservation Proofs.LedgerProofs
     Proofs.CloseProofs Proofs.LayoutProofs Proofs.MarkToMarketMapped
     Proofs.BalanceTableLayout Proofs.BalanceTableTree.
Import ListNotations.
Open Scope Q_scope.

(* ------------------------------------------------------------ the value stored in one node *)

Definition line_term (row : account) (k : rkey) (l : str * account * ramounts) : Q :=
  if acc_eqb (l_path l) row then esum idk k (l_amts l) else 0.

Lemma psum_lines row k n : LedgerProofs.psum row k n == qsum (line_term row k) (tree_lines n).
Proof.
  induction n as [s p hv a ch IH] using node_ind_size. rewrite LedgerProofs.psum_unfold. cbn [tree_lines].
  unfold qsum at 1. cbn [fold_right]. fold (qsum (line_term row k) (flat_map tree_lines ch)).
  unfold line_term at 1, l_path, l_amts. cbn [fst snd]. apply Qplus_comp; [reflexivity|].
  unfold pcsum. induction IH as [|c ch Hc _ IHch]; cbn [fold_right flat_map]; [reflexivity|].
  rewrite qsum_app, Hc, IHch. reflexivity.
Qed.

Lemma pcsum_lines row k ch : pcsum row k ch == qsum (line_term row k) (flat_map tree_lines ch).
Proof.
  unfold pcsum. induction ch as [|c ch IH]; cbn [fold_right flat_map]; [reflexivity|].
  rewrite qsum_app, psum_lines, IH. reflexivity.
Qed.

Lemma qsum_unique k (L : list (str * account * ramounts)) l0 :
  In l0 L -> NoDup (map l_path L) ->
  (forall l, In l L -> acc_eqb (l_path l) (l_path l0) = true -> l_path l = l_path l0) ->
  qsum (line_term (l_path l0) k) L == esum idk k (l_amts l0).
Proof.
  induction L as [|l L IH]; intros Hin Hnd Hinj; [destruct Hin|].
  cbn [map] in Hnd. inversion Hnd as [|? ? Hnot Hnd']; subst.
  unfold qsum. cbn [fold_right]. fold (qsum (line_term (l_path l0) k) L).
  destruct Hin as [->|Hin].
  - unfold line_term at 1. rewrite acc_eqb_refl.
    rewrite (qsum_zero (line_term (l_path l0) k) L); [ring|].
    intros l Hl. unfold line_term. destruct (acc_eqb (l_path l) (l_path l0)) eqn:E; [|reflexivity].
    exfalso. apply Hnot. rewrite <- (Hinj l (or_intror Hl) E). apply in_map. exact Hl.
  - unfold line_term at 1. destruct (acc_eqb (l_path l) (l_path l0)) eqn:E.
    + exfalso. apply Hnot. rewrite (Hinj l (or_introl eq_refl) E). apply in_map. exact Hin.
    + rewrite IH; [ring|exact Hin|exact Hnd'|]. intros l' Hl'. apply Hinj. right. exact Hl'.
Qed.

Lemma acc_eqb_nil_ok row : account_ok row = true -> acc_eqb [] row = false.
Proof.
  intros H. destruct row as [|s t]; [discriminate|]. apply account_ok_cons in H. destruct H as [[ty Hty] _].
  unfold acc_eqb, str_eqb, acc_name. destruct s as [|x s]; [discriminate|].
  destruct t; cbn [join app str_cmp]; reflexivity.
Qed.

(* the cell of the report at the path of a node is what that node stores *)
Lemma rcell_node r s p a k :
  report_ok r -> (forall x, In x (rows r) -> account_ok x = true) ->
  In (s, p, a) (flat_map tree_lines (n_children (r_al r)) ++ flat_map tree_lines (n_children (r_eie r))) ->
  rcell p k r == esum idk k a.
Proof.
  intros Hok Hacc Hin. pose proof (rows_nodup r Hok) as Hnd.
  destruct Hok as ((W1 & W2 & P1 & P2) & _).
  assert (Hp : In p (rows r)).
  { unfold rows. rewrite <- !clines_paths, <- map_app. change p with (l_path (s, p, a)). apply in_map. exact Hin. }
  pose proof (acc_eqb_nil_ok p (Hacc p Hp)) as Hnil.
  unfold rows in *. unfold rcell. destruct (r_al r) as [s1 p1 hv1 a1 ch1], (r_eie r) as [s2 p2 hv2 a2 ch2].
  cbn [n_path n_children] in *. subst p1 p2. rewrite !LedgerProofs.psum_unfold, Hnil, !pcsum_lines.
  rewrite !Qplus_0_l, <- qsum_app.
  change p with (l_path (s, p, a)) at 1. change a with (l_amts (s, p, a)).
  apply qsum_unique; [exact Hin| |].
  - rewrite map_app, !clines_paths. exact Hnd.
  - intros l Hl E. apply acc_name_inj; [| |apply acc_eqb_name; exact E].
    + apply Hacc. rewrite <- !clines_paths, <- map_app. apply in_map. exact Hl.
    + exact (Hacc p Hp).
Qed.

(* ------------------------------------------------------------ rows are syntactic accounts *)

Lemma prefixes_from_prefix : forall rest acc x, In x (prefixes_from acc rest) ->
  exists y suf1 suf2, x = acc ++ y :: suf1 /\ acc ++ rest = x ++ suf2.
Proof.
  induction rest as [|s t IH]; intros acc x H; cbn [prefixes_from] in H; [destruct H|].
  destruct H as [<-|H].
  - exists s, [], t. split; [reflexivity|]. rewrite <- app_assoc. reflexivity.
  - destruct (IH _ _ H) as (y & suf1 & suf2 & -> & E). rewrite <- !app_assoc in *. cbn [app] in *.
    exists s, (y :: suf1), suf2. split; [reflexivity|]. rewrite <- app_assoc. exact E.
Qed.

Lemma prefix_account_ok a x : account_ok a = true -> In x (prefixes_from [] a) -> account_ok x = true.
Proof.
  intros Ha Hx. destruct (prefixes_from_prefix _ _ _ Hx) as (y & suf1 & suf2 & -> & E). cbn [app] in *. subst a.
  apply account_ok_cons in Ha. destruct Ha as (H1 & H2 & H3). apply account_ok_cons.
  split; [exact H1|split; [exact H2|]]. intros z Hz. apply H3. apply in_or_app. left. exact Hz.
Qed.

Lemma user_entries_acc sp ps posts col a c v :
  In (col, a, c, v) (user_entries sp ps posts) -> exists d p, In (d, p) posts /\ a = p_acc p.
Proof.
  unfold user_entries. intros H. apply in_concat in H. destruct H as (l & Hl & H).
  apply in_map_iff in Hl. destruct Hl as ([d p] & <- & Hdp).
  destruct ((p_start sp <=? d)%Z && (d <=? p_end sp)%Z); [|destruct H].
  destruct (column_for ps d); [|destruct H]. destruct H as [H|[]]. inversion H; subst.
  exists d, p. split; [exact Hdp|reflexivity].
Qed.

Lemma closing_entries_acc posts keys : forall ps prev col a c v,
  In (col, a, c, v) (closing_entries posts keys prev ps) -> a = [s_Equity; s_Equity] \/ exists k, In k keys /\ a = fst k.
Proof.
  induction ps as [|p ps IH]; intros prev col a c v H; cbn [closing_entries] in H; [destruct H|].
  apply in_app_or in H. destruct H as [H|H]; [|exact (IH _ _ _ _ _ H)].
  apply in_concat in H. destruct H as (l & Hl & H). apply in_map_iff in Hl. destruct Hl as (k & <- & Hk).
  destruct (is_zero (sum_between posts k prev (p_start p - 1))); [destruct H|].
  destruct H as [H|[H|[]]]; inversion H; subst; [right; exists k; split; [exact Hk|reflexivity]|left; reflexivity].
Qed.

Lemma add_key_in k l x : In x (add_key k l) -> x = k \/ In x l.
Proof.
  rewrite add_key_spec. destruct (existsb (keq k) l); [right; assumption|].
  intros H. apply in_app_or in H. destruct H as [H|[<-|[]]]; [right; exact H|left; reflexivity].
Qed.

Lemma closable_keys_acc sp posts k : In k (closable_keys sp posts) -> exists d p, In (d, p) posts /\ fst k = p_acc p.
Proof.
  unfold closable_keys.
  assert (G : forall l, In k (fold_left (fun l (dp : Z * posting) => let '(d, p) := dp in
               if (p_start sp <=? d)%Z && (d <=? p_end sp)%Z && closable (p_acc p) then add_key (p_acc p, p_com p) l else l) posts l) ->
             In k l \/ exists d p, In (d, p) posts /\ fst k = p_acc p).
  { induction posts as [|[d p] posts IH]; intros l H; cbn [fold_left] in H; [left; exact H|].
    destruct (IH _ H) as [H1|(d' & p' & Hin & E)].
    - destruct ((p_start sp <=? d)%Z && (d <=? p_end sp)%Z && closable (p_acc p)); [|left; exact H1].
      apply add_key_in in H1. destruct H1 as [->|H1]; [right; exists d, p; split; [left; reflexivity|reflexivity]|left; exact H1].
    - right. exists d', p'. split; [right; exact Hin|exact E]. }
  intros H. destruct (G [] H) as [[]|H']; exact H'.
Qed.

Lemma mapped_entries_acc cfg es col a c v :
  In (col, a, c, v) (mapped_entries cfg es) ->
  exists col0 a0 c0 v0, In (col0, a0, c0, v0) es /\ shorten (bc_mapping cfg) (remap (bc_remap cfg) a0) = ShAcc a.
Proof.
  unfold mapped_entries. intros H. apply in_concat in H. destruct H as (l & Hl & H).
  apply in_map_iff in Hl. destruct Hl as ([[[col0 a0] c0] v0] & <- & Hin).
  destruct (cfg_where cfg a0 c0); [|destruct H].
  destruct (shorten (bc_mapping cfg) (remap (bc_remap cfg) a0)) as [a'| |] eqn:E; [|destruct H|destruct H].
  destruct H as [H|[]]. injection H as E1 E2 E3 E4. subst col0 a' c0 v0. exists col, a0, c, v. split; [exact Hin|exact E].
Qed.

Lemma ledger_entry_account_ok cfg dl part col a c v :
  postings_syntactic dl -> In (col, a, c, v) (ledger_entries cfg dl part) -> account_ok a = true.
Proof.
  intros Hsyn He. unfold ledger_entries in He.
  apply mapped_entries_acc in He. destruct He as (col0 & a0 & c0 & v0 & Hin & Hsh).
  assert (Ha0 : account_ok a0 = true).
  { apply in_app_or in Hin. destruct Hin as [Hin|Hin].
    - apply user_entries_acc in Hin. destruct Hin as (d & p & Hdp & ->). exact (Hsyn d p Hdp).
    - destruct (bc_close cfg); [|destruct Hin].
      apply closing_entries_acc in Hin. destruct Hin as [->|(k & Hk & ->)]; [exact account_ok_equity|].
      apply closable_keys_acc in Hk. destruct Hk as (d & p & Hdp & ->). exact (Hsyn d p Hdp). }
  destruct (remap_ok (bc_remap cfg) a0 Ha0) as [H1 _].
  exact (proj1 (shorten_ok _ _ _ H1 Hsh)).
Qed.

Lemma ledger_row_account_ok cfg dl row : postings_syntactic dl -> ledger_row cfg dl row -> account_ok row = true.
Proof.
  intros Hsyn H. unfold ledger_row in H.
  destruct (new_partition _ _ _) as [part| |]; [|destruct H|destruct H].
  destruct H as ([[[col a] c] v] & He & Hrow).
  exact (prefix_account_ok a row (ledger_entry_account_ok cfg dl part col a c v Hsyn He) Hrow).
Qed.

(* ------------------------------------------------------------ commodities of a node *)

Lemma insert_ocom_in x c : forall l, In x (insert_ocom c l) <-> x = c \/ In x l.
Proof.
  induction l as [|y l IH]; cbn [insert_ocom]; [cbn [In]; intuition congruence|].
  destruct c as [a|], y as [b|].
  - destruct (str_cmp a b) eqn:E.
    + apply str_cmp_eq in E. subst b. cbn [In]. intuition congruence.
    + cbn [In]. intuition congruence.
    + cbn [In]. rewrite IH. intuition congruence.
  - cbn [In]. rewrite IH. intuition congruence.
  - cbn [In]. intuition congruence.
  - cbn [In]. intuition congruence.
Qed.

Lemma ra_commodities_in oc m : In oc (ra_commodities m) <-> exists kv, In kv m /\ snd (fst kv) = oc.
Proof.
  unfold ra_commodities.
  assert (G : forall l, In oc (fold_left (fun l kv => insert_ocom (snd (fst kv)) l) m l) <->
                        In oc l \/ exists kv : rkey * dec, In kv m /\ snd (fst kv) = oc).
  { induction m as [|kv m IH]; intros l; cbn [fold_left].
    - split; [tauto|]. intros [H|(kv & [] & _)]. exact H.
    - rewrite IH, insert_ocom_in. split.
      + intros [[->|H]|(kv' & H1 & H2)]; [right; exists kv; split; [left; reflexivity|reflexivity]|tauto|right; exists kv'; split; [right; exact H1|exact H2]].
      + intros [H|(kv' & [->|H1] & H2)]; [tauto|left; left; symmetry; exact H2|right; exists kv'; tauto]. }
  rewrite G. cbn [In]. tauto.
Qed.

Lemma ra_get_in m k v : ra_get m k = Some v -> In (k, v) m.
Proof.
  induction m as [|[k0 v0] m IH]; cbn [ra_get]; [discriminate|].
  destruct (rkey_eqb k k0) eqn:E; [|intros H; right; exact (IH H)].
  intros H. inversion H; subst. apply rkey_eqb_eq in E. subst. left. reflexivity.
Qed.

Lemma ra_get_unique m k v : ra_unique m -> In (k, v) m -> ra_get m k = Some v.
Proof.
  induction 1 as [|k0 v0 m Ha Hu IH]; intros Hin; [destruct Hin|]. cbn [ra_get].
  destruct Hin as [Hin|Hin].
  - inversion Hin; subst. rewrite rkey_eqb_refl. reflexivity.
  - destruct (rkey_eqb k k0) eqn:E; [|exact (IH Hin)].
    apply rkey_eqb_eq in E. subst k0. exfalso. unfold key_absent in Ha. rewrite Forall_forall in Ha.
    exact (Ha (k, v) Hin eq_refl).
Qed.

(* in what a node shows, a commodity is listed iff one of its amounts is not zero *)
Lemma shown_commodities_in f a oc :
  In oc (ra_commodities (ra_sum_into [] a f)) <-> exists d, ~ dvalue (ra_get0 (ra_sum_into [] a f) (d, oc)) == 0.
Proof.
  assert (Hu : ra_unique (ra_sum_into [] a f)) by (apply sum_into_unique; constructor).
  rewrite ra_commodities_in. split.
  - intros ([[d oc'] v] & Hin & E). cbn [fst snd] in E. subst oc'. exists d.
    unfold ra_get0. rewrite (ra_get_unique _ _ _ Hu Hin).
    unfold ra_sum_into in Hin. apply filter_In in Hin. destruct Hin as [_ Hnz]. cbn [snd] in Hnz.
    intros Hz. apply is_zero_value in Hz. rewrite Hz in Hnz. discriminate.
  - intros (d & Hnz). unfold ra_get0 in Hnz.
    destruct (ra_get (ra_sum_into [] a f) (d, oc)) as [v|] eqn:E.
    + exists ((d, oc), v). split; [apply ra_get_in; exact E|reflexivity].
    + exfalso. apply Hnz. apply dvalue_nil.
Qed.

Lemma esum_ext f g k m : (forall x, f x = g x) -> esum f k m = esum g k m.
Proof.
  intros H. induction m as [|[k0 v0] m IH]; cbn [esum]; [reflexivity|]. unfold contrib. rewrite H, IH. reflexivity.
Qed.

Lemma collapse_key_true k : collapse_key true k = k.
Proof. destruct k. reflexivity. Qed.

(* unvalued report: what a node shows under a key is the sum of what it stores under it *)
Lemma shown_vals_value rc p a k :
  rc_valuation rc = None -> dvalue (ra_get0 (shown_vals rc p a) k) == esum idk k a.
Proof.
  intros Hv. unfold shown_vals, show_of. rewrite Hv.
  rewrite ra_get0_esum by (apply sum_into_unique; constructor).
  rewrite esum_sum_into. cbn [esum]. rewrite Qplus_0_l.
  rewrite (esum_ext (fun k0 => idk (collapse_key true k0)) idk); [reflexivity|].
  intros x. unfold idk. apply collapse_key_true.
Qed.

(* ------------------------------------------------------------ the numbers of a line *)

Lemma num_is_value n d : num_is (CNum n) d <-> dvalue n == dvalue d.
Proof. cbn [num_is]. apply dec_equal_value. Qed.

Lemma row_numbers_amounts diff neg_ vals oc es sel c :
  (forall col, dvalue (ra_get0 vals (Some col, oc)) == dvalue (period_amount es sel c col)) ->
  forall dates total total', dvalue total == dvalue total' ->
  Forall2 num_is (row_numbers diff neg_ vals oc dates total) (cell_amounts diff neg_ es sel c dates total').
Proof.
  intros Hv. induction dates as [|d dates IH]; intros total total' Ht; cbn [row_numbers cell_amounts]; constructor.
  - apply num_is_value. destruct neg_, diff; rewrite ?dvalue_neg, ?dvalue_add, ?Ht, ?Hv; reflexivity.
  - apply IH. rewrite !dvalue_add, Ht, Hv. reflexivity.
Qed.

Lemma render_rows_lines_ok rc dates indent name neg_ vals amts :
  rc_valuation rc = None ->
  forall coms first,
  (forall c, In c coms -> Forall2 num_is (row_numbers (rc_diff rc) neg_ vals (Some c) dates dec_nil) (amts c)) ->
  lines_ok name indent first coms amts (render_rows rc dates indent name neg_ vals (map Some coms) first).
Proof.
  intros Hv. induction coms as [|c coms IH]; intros first H; cbn [map render_rows lines_ok]; [exact I|].
  split.
  - eexists. split; [|apply H; left; reflexivity]. unfold draw_comms. rewrite Hv. reflexivity.
  - apply IH. intros c' Hc'. apply H. right. exact Hc'.
Qed.

(* ------------------------------------------------------------ sorted commodities *)

Definition ocom_lt (a b : option commodity) : Prop :=
  match a, b with
  | None, Some _ => True
  | Some x, Some y => str_cmp x y = Lt
  | _, _ => False
  end.

Fixpoint ocoms_sorted (l : list (option commodity)) : Prop :=
  match l with [] => True | c :: l' => Forall (ocom_lt c) l' /\ ocoms_sorted l' end.

Lemma ocom_lt_trans a b c : ocom_lt a b -> ocom_lt b c -> ocom_lt a c.
Proof.
  destruct a as [x|], b as [y|], c as [z|]; cbn [ocom_lt]; try tauto. apply str_cmp_lt_trans.
Qed.

Lemma insert_ocom_sorted c : forall l, ocoms_sorted l -> ocoms_sorted (insert_ocom c l).
Proof.
  induction l as [|y l IH]; intros Hs; cbn [insert_ocom]; [cbn; split; [constructor|exact I]|].
  cbn [ocoms_sorted] in Hs. destruct Hs as [Hy Hl].
  assert (Hlt : forall z, ocom_lt z y -> ocoms_sorted (z :: y :: l)).
  { intros z Hz. cbn [ocoms_sorted]. split; [|split; assumption]. constructor; [exact Hz|].
    rewrite Forall_forall in *. intros w Hw. exact (ocom_lt_trans _ _ _ Hz (Hy w Hw)). }
  assert (Hgt : ocom_lt y c -> ocoms_sorted (y :: insert_ocom c l)).
  { intros Hc. cbn [ocoms_sorted]. split; [|apply IH; exact Hl].
    rewrite Forall_forall in *. intros w Hw. apply insert_ocom_in in Hw. destruct Hw as [->|Hw]; [exact Hc|exact (Hy w Hw)]. }
  destruct c as [a|], y as [b|].
  - destruct (str_cmp a b) eqn:E.
    + cbn [ocoms_sorted]. split; assumption.
    + apply Hlt. exact E.
    + apply Hgt. cbn [ocom_lt]. rewrite str_cmp_antisym, E. reflexivity.
  - apply Hgt. exact I.
  - apply Hlt. exact I.
  - cbn [ocoms_sorted]. split; assumption.
Qed.

Lemma ra_commodities_sorted m : ocoms_sorted (ra_commodities m).
Proof.
  unfold ra_commodities. assert (G : forall l, ocoms_sorted l -> ocoms_sorted (fold_left (fun l kv => insert_ocom (snd (fst kv)) l) m l)).
  { induction m as [|kv m IH]; intros l Hl; cbn [fold_left]; [exact Hl|]. apply IH, insert_ocom_sorted, Hl. }
  apply G. exact I.
Qed.

Lemma somes_sorted coms : ocoms_sorted (map Some coms) -> coms_sorted coms.
Proof.
  induction coms as [|c coms IH]; cbn [map ocoms_sorted coms_sorted]; [trivial|].
  intros [H1 H2]. split; [|exact (IH H2)]. rewrite Forall_forall in *. intros d Hd. exact (H1 (Some d) (in_map Some _ _ Hd)).
Qed.

Lemma all_somes (l : list (option commodity)) : ~ In None l -> exists coms, l = map Some coms.
Proof.
  induction l as [|[c|] l IH]; intros H.
  - exists []. reflexivity.
  - destruct IH as (coms & ->); [intros Hn; apply H; right; exact Hn|]. exists (c :: coms). reflexivity.
  - exfalso. apply H. left. reflexivity.
Qed.

(* ------------------------------------------------------------ assembly *)

Lemma account_rows_lines rc r row a :
  In (row, a) (account_rows rc r) ->
  exists s, In (s, row, a) (flat_map tree_lines (n_children (r_al r)) ++ flat_map tree_lines (n_children (r_eie r))).
Proof.
  unfold account_rows. intros H. apply in_map_iff in H. destruct H as ([[s p] a'] & E & H). cbn [fst snd] in E.
  inversion E; subst. exists s. apply in_app_or in H. apply in_or_app.
  destruct H as [H|H]; [left|right]; eapply Permutation_in; try exact H; apply clines_sort.
Qed.

Lemma last_account_ok row : account_ok row = true -> last row [] <> [].
Proof.
  intros H. destruct row as [|s t]; [discriminate|]. apply account_ok_cons in H. destruct H as ([ty Hty] & _ & Ht).
  destruct t as [|y t'].
  - cbn [last]. intros ->. discriminate.
  - assert (Hin : In (last (s :: y :: t') []) (y :: t')).
    { change (last (s :: y :: t') []) with (last (y :: t') []). clear. revert y. induction t' as [|z t' IH]; intros y; [left; reflexivity|].
      right. change (last (y :: z :: t') []) with (last (z :: t') []). apply IH. }
    exact (proj1 (Ht _ Hin)).
Qed.

(* which rows the table has *)
Theorem table_rows cfg ds r part :
  bc_valuation cfg = None ->
  balance_report cfg ds = COk (r, part) ->
  let rc := balance_render_cfg cfg in
  let dates := end_dates part in
  t_rows (render_report rc r dates) = report_table_rows rc r dates /\
  account_blocks rc r dates = map (fun pa => (fst pa, acct_lines rc dates (fst pa) (snd pa))) (account_rows rc r) /\
  NoDup (map fst (account_rows rc r)) /\
  exists dl,
    parse_directives ds = MOk dl /\
    ((bc_close cfg = true -> postings_syntactic dl) ->
     forall row, In row (map fst (account_rows rc r)) <-> ledger_row cfg dl row).
Proof.
  intros Hv H rc dates. pose proof (balance_report_ok _ _ _ _ H) as Hok.
  split; [apply render_report_layout|]. split; [apply account_blocks_rows; exact Hok|].
  split.
  - eapply Permutation_NoDup; [symmetry; apply account_rows_paths|]. apply rows_nodup. exact Hok.
  - destruct (report_rows cfg ds r part Hv H) as (dl & Hp & Hrows). exists dl. split; [exact Hp|].
    intros Hsyn row. rewrite <- (Hrows Hsyn row). split; apply Permutation_in; [|symmetry]; apply account_rows_paths.
Qed.

(* the cells of the block of every account *)
Theorem table_cells cfg ds r part :
  bc_valuation cfg = None ->
  balance_report cfg ds = COk (r, part) ->
  exists dl,
    parse_directives ds = MOk dl /\
    (postings_syntactic dl ->
     let rc := balance_render_cfg cfg in
     let dates := end_dates part in
     let es := ledger_entries cfg dl part in
     forall row a, In (row, a) (account_rows rc r) ->
       exists coms,
         coms_sorted coms /\
         (forall c, In c coms <-> exists od, ~ rcell row (od, Some c) r == 0) /\
         (forall c col, ~ dvalue (period_amount es (acc_eqb row) c col) == 0 -> In c coms) /\
         block_ok (tw rc dates) (last row []) (name_indent row) coms
                  (fun c => cell_amounts (bc_diff cfg) (negb (is_AL row)) es (acc_eqb row) c dates dec_nil)
                  (acct_lines rc dates row a)).
Proof.
  intros Hv H. pose proof (balance_report_ok _ _ _ _ H) as Hok.
  destruct (report_cells cfg ds r part Hv H) as (dl & Hp & Hpart & Hcells).
  destruct (report_rows cfg ds r part Hv H) as (dl' & Hp' & Hrows).
  rewrite Hp in Hp'. inversion Hp'; subst dl'. clear Hp'.
  exists dl. split; [exact Hp|]. intros Hsyn rc dates es row a Hin.
  specialize (Hcells (fun _ => Hsyn)). specialize (Hrows (fun _ => Hsyn)).
  assert (Hacc : forall x, In x (rows r) -> account_ok x = true).
  { intros x Hx. apply (ledger_row_account_ok cfg dl x Hsyn). apply Hrows. exact Hx. }
  destruct (account_rows_lines rc r row a Hin) as (s & Hline).
  assert (Hrow : account_ok row = true).
  { apply Hacc. eapply Permutation_in; [apply account_rows_paths|]. apply in_map_iff. exists (row, a). split; [reflexivity|exact Hin]. }
  assert (Hrcv : rc_valuation rc = None) by exact Hv.
  assert (Hval : forall k, dvalue (ra_get0 (shown_vals rc row a) k) == rcell row k r).
  { intros k. rewrite (shown_vals_value rc row a k Hrcv). symmetry. exact (rcell_node r s row a k Hok Hacc Hline). }
  set (vals := shown_vals rc row a) in *.
  assert (Hmem : forall oc, In oc (ra_commodities vals) <-> exists d, ~ rcell row (d, oc) r == 0).
  { intros oc. unfold vals, shown_vals. rewrite shown_commodities_in. fold (shown_vals rc row a). fold vals.
    split; intros (d & Hd); exists d; [rewrite <- Hval|rewrite Hval]; exact Hd. }
  assert (Hnone : ~ In None (ra_commodities vals)).
  { intros Hn. apply Hmem in Hn. destruct Hn as (d & Hd). apply Hd. destruct Hok as (_ & _ & _ & _ & _ & Hz). apply Hz. }
  destruct (all_somes _ Hnone) as (coms & Hcoms). exists coms.
  split; [apply somes_sorted; rewrite <- Hcoms; apply ra_commodities_sorted|].
  assert (Hmem' : forall c, In c coms <-> exists od, ~ rcell row (od, Some c) r == 0).
  { intros c. rewrite <- Hmem, Hcoms. split; [apply in_map|]. intros Hc. apply in_map_iff in Hc. destruct Hc as (c' & E & Hc'). inversion E; subst. exact Hc'. }
  split; [exact Hmem'|]. split.
  { intros c col Hnz. apply Hmem'. exists (Some col). rewrite (Hcells row c col). exact Hnz. }
  unfold acct_lines. fold vals. pose proof (last_account_ok row Hrow) as Hlast.
  destruct (last row []) as [|x0 s0] eqn:El; [contradiction|]. rewrite <- El.
  unfold line_rows, block_ok. destruct vals as [|kv vals'] eqn:Evals.
  - rewrite Hcoms in *. destruct coms; [reflexivity|discriminate Hcoms].
  - destruct coms as [|c0 coms'] eqn:Ecoms.
    + exfalso. assert (Hin0 : In (snd (fst kv)) (ra_commodities (kv :: vals'))).
      { apply ra_commodities_in. exists kv. split; [left; reflexivity|reflexivity]. }
      rewrite Hcoms in Hin0. destruct Hin0.
    + rewrite Hcoms. rewrite <- Ecoms. apply render_rows_lines_ok; [exact Hrcv|].
      intros c _. apply row_numbers_amounts; [|reflexivity].
      intros col. rewrite Hval. apply Hcells.
Qed.

(* the renderer alone: the numbers of a line, for every render configuration *)
Theorem table_cells_render rc p a neg_ oc dates :
  Forall2 cell_is
    (row_numbers (rc_diff rc) neg_ (shown_vals rc p a) oc dates dec_nil)
    (row_values (rc_diff rc) neg_ (shown_vals rc p a) oc dates 0) /\
  forall d, dvalue (ra_get0 (shown_vals rc p a) (Some d, oc)) == esum (collapse_key (show_of rc p)) (Some d, oc) a.
Proof.
  split; [apply row_numbers_values; reflexivity|]. intros d. unfold shown_vals.
  rewrite ra_get0_esum by (apply sum_into_unique; constructor).
  rewrite esum_sum_into. cbn [esum]. rewrite Qplus_0_l.
  rewrite (esum_ext (fun k0 => idk (collapse_key (show_of rc p) k0)) (collapse_key (show_of rc p))); [reflexivity|].
  intros x. reflexivity.
Qed.
