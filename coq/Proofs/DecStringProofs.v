(* Decimal <-> string: the numerals rendered by Model/Dec.v ([digits], [to_string_gen]) and
   read back by [of_string].  Technical core reused by the table (C17) and journal
   properties: digit strings, [parse_digits] algebra, the shape of a rendered numeral,
   the round trip through [of_string], and the spec-vocabulary facts of Spec/TableSpec.v. *)
From Coq Require Import ZArith List Bool Lia Arith.
From Knut Require Import Model.Str Model.Dec Spec.TableSpec Proofs.DecProofs.
Import ListNotations.
Open Scope bool_scope.
Open Scope Z_scope.

Local Ltac Zify.zify_post_hook ::= Z.div_mod_to_equations.

(* case analysis of a byte against the (at most 6 bit) constants of a pattern match *)
Ltac zconst_cases c :=
  let p := fresh "p" in
  destruct c as [|p|p]; try reflexivity;
  do 6 (try (destruct p as [p|p|]; try reflexivity)).

(* ------------------------------------------------------------------ parse_digits *)

Lemma is_digit_range c : is_digit c = true <-> 48 <= c <= 57.
Proof. unfold is_digit. lia. Qed.

Lemma parse_digits_app : forall a b acc,
  parse_digits (a ++ b) acc =
  match parse_digits a acc with Some v => parse_digits b v | None => None end.
Proof.
  induction a as [|c t IH]; intros b acc; [reflexivity|].
  cbn [app parse_digits]. destruct (is_digit c); [apply IH|reflexivity].
Qed.

Lemma parse_digits_some_digits : forall s acc v,
  parse_digits s acc = Some v -> forallb is_digit s = true.
Proof.
  induction s as [|c t IH]; intros acc v H; [reflexivity|].
  cbn [parse_digits] in H. cbn [forallb].
  destruct (is_digit c); [|discriminate]. cbn [andb]. exact (IH _ _ H).
Qed.

Lemma pow10_S (k : nat) : 10 ^ Z.of_nat (S k) = 10 * 10 ^ Z.of_nat k.
Proof. rewrite Nat2Z.inj_succ, Z.pow_succ_r by lia. reflexivity. Qed.

Lemma pow10_nat_pos (k : nat) : 0 < 10 ^ Z.of_nat k.
Proof. apply Z.pow_pos_nonneg; lia. Qed.

(* shifting the accumulator *)
Lemma parse_digits_shift : forall s a b v,
  parse_digits s a = Some v ->
  parse_digits s (a + b) = Some (v + b * 10 ^ Z.of_nat (length s)).
Proof.
  induction s as [|c t IH]; intros a b v H.
  - cbn [parse_digits length] in *. injection H as <-. f_equal.
    change (10 ^ Z.of_nat 0) with 1. lia.
  - cbn [parse_digits] in *. destruct (is_digit c); [|discriminate].
    replace ((a + b) * 10 + (c - 48)) with ((a * 10 + (c - 48)) + b * 10) by lia.
    rewrite (IH _ (b * 10) _ H). f_equal. cbn [length]. rewrite pow10_S. lia.
Qed.

Lemma parse_digits_acc : forall s acc v,
  forallb is_digit s = true -> parse_digits s 0 = Some v ->
  parse_digits s acc = Some (acc * 10 ^ Z.of_nat (length s) + v).
Proof.
  intros s acc v _ H. pose proof (parse_digits_shift s 0 acc v H) as H1.
  rewrite Z.add_0_l in H1. rewrite H1. f_equal. lia.
Qed.

Lemma parse_digits_zeros : forall k acc,
  parse_digits (repeat 48 k) acc = Some (acc * 10 ^ Z.of_nat k).
Proof.
  induction k as [|k IH]; intros acc.
  - cbn [repeat parse_digits]. f_equal. change (10 ^ Z.of_nat 0) with 1. lia.
  - cbn [repeat parse_digits]. change (is_digit 48) with true. cbv iota.
    rewrite IH, pow10_S. f_equal. lia.
Qed.

(* the value of a digit string lies in the window opened by the accumulator *)
Lemma parse_digits_range : forall s acc v,
  parse_digits s acc = Some v -> 0 <= acc ->
  acc * 10 ^ Z.of_nat (length s) <= v < (acc + 1) * 10 ^ Z.of_nat (length s).
Proof.
  induction s as [|c t IH]; intros acc v H Hacc.
  - cbn [parse_digits length] in *. injection H as <-.
    change (10 ^ Z.of_nat 0) with 1. lia.
  - cbn [parse_digits] in H. destruct (is_digit c) eqn:Hc; [|discriminate].
    apply is_digit_range in Hc.
    specialize (IH _ _ H ltac:(lia)).
    cbn [length]. rewrite pow10_S.
    pose proof (pow10_nat_pos (length t)) as HP.
    set (P := 10 ^ Z.of_nat (length t)) in *.
    nia.
Qed.

Lemma forallb_digit_repeat48 k : forallb is_digit (repeat 48 k) = true.
Proof. induction k as [|k IH]; [reflexivity|]. cbn [repeat forallb]. rewrite IH. reflexivity. Qed.

(* ------------------------------------------------------------------ digits *)

Lemma digits_fuel_spec : forall fuel n acc,
  0 <= n -> n < 2 ^ Z.of_nat fuel -> (fuel > 0)%nat ->
  exists ds, digits_fuel fuel n acc = ds ++ acc /\ ds <> [] /\
    forallb is_digit ds = true /\ parse_digits ds 0 = Some n /\
    (0 < n -> hd 0 ds <> 48) /\ (n = 0 -> ds = [48]).
Proof.
  induction fuel as [|f IH]; intros n acc Hn Hlt Hf; [lia|].
  cbn [digits_fuel].
  destruct (n <? 10) eqn:E.
  - apply Z.ltb_lt in E. exists [48 + n].
    assert (Hd : is_digit (48 + n) = true) by (apply is_digit_range; lia).
    split; [reflexivity|]. split; [discriminate|].
    split; [cbn [forallb]; rewrite Hd; reflexivity|].
    split; [cbn [parse_digits]; rewrite Hd; f_equal; lia|].
    split; [cbn [hd]; lia|]. intros ->. reflexivity.
  - apply Z.ltb_ge in E.
    rewrite Nat2Z.inj_succ, Z.pow_succ_r in Hlt by lia.
    assert (Hf' : (f > 0)%nat).
    { destruct f; [|lia]. change (2 ^ Z.of_nat 0) with 1 in Hlt. lia. }
    destruct (IH (n / 10) ((48 + n mod 10) :: acc)) as (ds & H1 & H2 & H3 & H4 & H5 & H6);
      [lia|lia|exact Hf'|].
    assert (Hd : is_digit (48 + n mod 10) = true) by (apply is_digit_range; lia).
    exists (ds ++ [48 + n mod 10]).
    split; [rewrite H1, <- app_assoc; reflexivity|].
    split; [intros Hc; apply app_eq_nil in Hc; destruct Hc; discriminate|].
    split; [rewrite forallb_app, H3; cbn [forallb]; rewrite Hd; reflexivity|].
    split; [rewrite parse_digits_app, H4; cbn [parse_digits]; rewrite Hd; f_equal; lia|].
    split.
    + intros _. destruct ds as [|c ds']; [congruence|]. cbn [app hd] in *. apply H5. lia.
    + intros ->. lia.
Qed.

Lemma digits_spec n : 0 <= n ->
  digits n <> [] /\ forallb is_digit (digits n) = true /\ parse_digits (digits n) 0 = Some n /\
  (0 < n -> hd 0 (digits n) <> 48) /\ (n = 0 -> digits n = [48]).
Proof.
  intros Hn. unfold digits.
  destruct (digits_fuel_spec (S (Z.to_nat (Z.log2 n))) n []) as (ds & H1 & H2 & H3 & H4 & H5 & H6).
  - exact Hn.
  - rewrite Nat2Z.inj_succ, Z2Nat.id by apply Z.log2_nonneg.
    destruct (Z.eq_dec n 0) as [->|Hne]; [vm_compute; reflexivity|].
    apply Z.log2_spec. lia.
  - lia.
  - rewrite app_nil_r in H1. rewrite H1. auto.
Qed.

Lemma digits_all_digits : forall n, 0 <= n -> forallb is_digit (digits n) = true.
Proof. intros n Hn. apply (digits_spec n Hn). Qed.

Lemma parse_digits_digits : forall n, 0 <= n -> parse_digits (digits n) 0 = Some n.
Proof. intros n Hn. apply (digits_spec n Hn). Qed.

Lemma digits_nonempty : forall n, 0 <= n -> digits n <> [].
Proof. intros n Hn. apply (digits_spec n Hn). Qed.

Lemma digits_zero : digits 0 = [48].
Proof. reflexivity. Qed.

Lemma digits_no_leading_zero : forall n, 0 < n -> hd 0 (digits n) <> 48.
Proof. intros n Hn. apply (digits_spec n); lia. Qed.

Lemma digits_length_bounds : forall n, 0 < n ->
  10 ^ (Z.of_nat (length (digits n)) - 1) <= n < 10 ^ Z.of_nat (length (digits n)).
Proof.
  intros n Hn.
  destruct (digits_spec n ltac:(lia)) as (H1 & H2 & H3 & H4 & _).
  specialize (H4 Hn).
  destruct (digits n) as [|c t]; [congruence|].
  cbn [hd forallb parse_digits length] in *.
  destruct (is_digit c) eqn:Hc; [|discriminate]. apply is_digit_range in Hc.
  pose proof (parse_digits_range _ _ _ H3 ltac:(lia)) as Hr.
  rewrite pow10_S.
  replace (Z.of_nat (S (length t)) - 1) with (Z.of_nat (length t)) by lia.
  pose proof (pow10_nat_pos (length t)) as HP.
  set (P := 10 ^ Z.of_nat (length t)) in *.
  nia.
Qed.

(* ------------------------------------------------------------------ trailing zeros *)

Lemma strip_rev_cons c t :
  strip_trailing_zeros_rev (c :: t) = if c =? 48 then strip_trailing_zeros_rev t else c :: t.
Proof. zconst_cases c. Qed.

Lemma strip_rev_spec r : exists k, r = repeat 48 k ++ strip_trailing_zeros_rev r.
Proof.
  induction r as [|c t IH]; [exists 0%nat; reflexivity|].
  rewrite strip_rev_cons. destruct (Z.eqb_spec c 48) as [->|Hne].
  - destruct IH as [k Hk]. exists (S k). cbn [repeat app]. f_equal. exact Hk.
  - exists 0%nat. reflexivity.
Qed.

Lemma repeat_snoc {A} (a : A) k : repeat a k ++ [a] = a :: repeat a k.
Proof. induction k as [|k IH]; [reflexivity|]. cbn [repeat app]. rewrite IH. reflexivity. Qed.

Lemma rev_repeat' {A} (a : A) k : rev (repeat a k) = repeat a k.
Proof.
  induction k as [|k IH]; [reflexivity|]. cbn [repeat rev]. rewrite IH. apply repeat_snoc.
Qed.

Lemma strip_trailing_zeros_spec s : exists k, s = strip_trailing_zeros s ++ repeat 48 k.
Proof.
  unfold strip_trailing_zeros. destruct (strip_rev_spec (rev s)) as [k Hk].
  exists k. rewrite <- (rev_involutive s) at 1. rewrite Hk at 1.
  rewrite rev_app_distr, rev_repeat'. reflexivity.
Qed.

(* ------------------------------------------------------------------ shape of to_string_gen *)

Definition sgn (d : dec) : str := if coef d <? 0 then [45] else [].

Lemma to_string_gen_int : forall trim d, 0 <= ex d ->
  to_string_gen trim d = sgn d ++ digits (Z.abs (coef d) * 10 ^ ex d).
Proof.
  intros trim d He. unfold to_string_gen, sgn. replace (0 <=? ex d) with true by lia.
  rewrite (rescale_down d 0) by lia. cbn [coef]. unfold scale_to, pow10. rewrite Z.sub_0_r.
  pose proof (Z.pow_pos_nonneg 10 (ex d) ltac:(lia) He) as Hp.
  cbv zeta.
  rewrite Z.abs_mul, (Z.abs_eq (10 ^ ex d)) by lia.
  replace (coef d * 10 ^ ex d <? 0) with (coef d <? 0); [reflexivity|].
  destruct (coef d <? 0) eqn:E; [apply Z.ltb_lt in E|apply Z.ltb_ge in E]; symmetry;
    [apply Z.ltb_lt|apply Z.ltb_ge]; nia.
Qed.

(* integer and fractional digits before trimming *)
Definition frac_split (d : dec) : str * str :=
  let s := digits (Z.abs (coef d)) in
  let len := Z.of_nat (length s) in
  let n := - ex d in
  if n <? len then (firstn (Z.to_nat (len - n)) s, skipn (Z.to_nat (len - n)) s)
  else ([48], repeat_z 48 (n - len) ++ s).

Definition frac_tail (fp : str) : str := match fp with [] => [] | _ => [46] ++ fp end.

Lemma to_string_gen_neg_ex trim d : ex d < 0 ->
  to_string_gen trim d =
  sgn d ++ fst (frac_split d) ++
    frac_tail (if trim then strip_trailing_zeros (snd (frac_split d)) else snd (frac_split d)).
Proof.
  intros He. unfold to_string_gen, frac_split, sgn, frac_tail.
  replace (0 <=? ex d) with false by lia. cbv zeta.
  destruct (- ex d <? Z.of_nat (length (digits (Z.abs (coef d))))); cbv beta iota; cbn [fst snd];
    match goal with |- context [match ?fp with [] => true | _ :: _ => false end] => destruct fp end;
    destruct (coef d <? 0); cbn [app]; rewrite ?app_nil_r; reflexivity.
Qed.

Lemma frac_split_spec d : ex d < 0 ->
  fst (frac_split d) <> [] /\ forallb is_digit (fst (frac_split d)) = true /\
  forallb is_digit (snd (frac_split d)) = true /\
  Z.of_nat (length (snd (frac_split d))) = - ex d /\
  parse_digits (fst (frac_split d) ++ snd (frac_split d)) 0 = Some (Z.abs (coef d)).
Proof.
  intros He.
  destruct (digits_spec (Z.abs (coef d)) ltac:(lia)) as (H1 & H2 & H3 & _).
  unfold frac_split. set (s := digits (Z.abs (coef d))) in *.
  destruct (- ex d <? Z.of_nat (length s)) eqn:E; cbn [fst snd].
  - apply Z.ltb_lt in E.
    set (k := Z.to_nat (Z.of_nat (length s) - - ex d)).
    assert (Hk : (0 < k <= length s)%nat) by lia.
    split.
    { intros Hc. pose proof (firstn_length k s) as Hl. rewrite Hc in Hl. cbn [length] in Hl. lia. }
    pose proof H2 as H2'. rewrite <- (firstn_skipn k s), forallb_app in H2'.
    apply andb_prop in H2'. destruct H2' as [Ha Hb].
    split; [exact Ha|]. split; [exact Hb|].
    split; [rewrite skipn_length; lia|].
    rewrite firstn_skipn. exact H3.
  - apply Z.ltb_ge in E. unfold repeat_z.
    set (k := Z.to_nat (- ex d - Z.of_nat (length s))).
    split; [discriminate|]. split; [reflexivity|].
    split; [rewrite forallb_app, forallb_digit_repeat48, H2; reflexivity|].
    split; [rewrite app_length, repeat_length; lia|].
    change ([48] ++ repeat 48 k ++ s) with (repeat 48 (S k) ++ s).
    rewrite parse_digits_app, parse_digits_zeros, Z.mul_0_l. exact H3.
Qed.

(* the numeral of any decimal: sign, integer digits, optional point and fraction digits *)
Lemma to_string_gen_shape : forall trim d, exists ip fp v,
  to_string_gen trim d = sgn d ++ ip ++ (match fp with [] => [] | _ => [46] ++ fp end) /\
  ip <> [] /\ forallb is_digit ip = true /\ forallb is_digit fp = true /\
  Z.of_nat (length fp) <= Z.max (- ex d) 0 /\
  (trim = false -> Z.of_nat (length fp) = Z.max (- ex d) 0) /\
  parse_digits (ip ++ fp) 0 = Some v /\
  v * 10 ^ (Z.max (- ex d) 0 - Z.of_nat (length fp)) = Z.abs (coef d) * 10 ^ (Z.max (ex d) 0).
Proof.
  intros trim d. destruct (Z_lt_ge_dec (ex d) 0) as [He|He].
  - rewrite (to_string_gen_neg_ex trim d He).
    destruct (frac_split_spec d He) as (H1 & H2 & H3 & H4 & H5).
    destruct (frac_split d) as [ip FP]. cbn [fst snd] in *.
    replace (Z.max (- ex d) 0) with (- ex d) by lia.
    replace (Z.max (ex d) 0) with 0 by lia. change (10 ^ 0) with 1.
    destruct trim.
    + destruct (strip_trailing_zeros_spec FP) as [k Hk].
      remember (strip_trailing_zeros FP) as fp' eqn:Efp. clear Efp. subst FP.
      rewrite forallb_app in H3. apply andb_prop in H3. destruct H3 as [H3 _].
      rewrite app_length, repeat_length in H4.
      rewrite app_assoc, parse_digits_app in H5.
      destruct (parse_digits (ip ++ fp') 0) as [v|] eqn:Hv; [|discriminate].
      rewrite parse_digits_zeros in H5. injection H5 as H5.
      exists ip, fp', v. unfold frac_tail.
      repeat split; try assumption; try lia; try discriminate.
      replace (- ex d - Z.of_nat (length fp')) with (Z.of_nat k) by lia. lia.
    + exists ip, FP, (Z.abs (coef d)). unfold frac_tail.
      repeat split; try assumption; try lia.
      rewrite H4, Z.sub_diag. reflexivity.
  - rewrite (to_string_gen_int trim d) by lia.
    destruct (digits_spec (Z.abs (coef d) * 10 ^ ex d)) as (H1 & H2 & H3 & _).
    { pose proof (Z.pow_pos_nonneg 10 (ex d) ltac:(lia) ltac:(lia)). nia. }
    exists (digits (Z.abs (coef d) * 10 ^ ex d)), [], (Z.abs (coef d) * 10 ^ ex d).
    cbn [length Z.of_nat]. rewrite !app_nil_r.
    replace (Z.max (- ex d) 0) with 0 by lia.
    replace (Z.max (ex d) 0) with (ex d) by lia. change (10 ^ (0 - 0)) with 1.
    repeat split; try assumption; try lia.
Qed.

Lemma to_string_gen_frac : forall d, ex d < 0 ->
  exists ip fp, to_string_gen false d = sgn d ++ ip ++ [46] ++ fp /\ ip <> [] /\
    forallb is_digit ip = true /\ forallb is_digit fp = true /\
    Z.of_nat (length fp) = - ex d /\ parse_digits (ip ++ fp) 0 = Some (Z.abs (coef d)).
Proof.
  intros d He.
  destruct (to_string_gen_shape false d) as (ip & fp & v & H1 & H2 & H3 & H4 & H5 & H6 & H7 & H8).
  specialize (H6 eq_refl). exists ip, fp.
  rewrite H6, Z.sub_diag in H8. replace (Z.max (ex d) 0) with 0 in H8 by lia.
  change (10 ^ 0) with 1 in H8. rewrite !Z.mul_1_r in H8. subst v.
  destruct fp as [|c fp']; [cbn [length] in H6; lia|].
  repeat split; try assumption; lia.
Qed.

Lemma to_string_frac_trim : forall d, ex d < 0 ->
  exists ip fp v,
    to_string d = sgn d ++ ip ++ (match fp with [] => [] | _ => [46] ++ fp end) /\ ip <> [] /\
    forallb is_digit ip = true /\ forallb is_digit fp = true /\
    Z.of_nat (length fp) <= - ex d /\ parse_digits (ip ++ fp) 0 = Some v /\
    v * 10 ^ (- ex d - Z.of_nat (length fp)) = Z.abs (coef d).
Proof.
  intros d He. unfold to_string.
  destruct (to_string_gen_shape true d) as (ip & fp & v & H1 & H2 & H3 & H4 & H5 & H6 & H7 & H8).
  exists ip, fp, v.
  replace (Z.max (- ex d) 0) with (- ex d) in * by lia.
  replace (Z.max (ex d) 0) with 0 in H8 by lia.
  change (10 ^ 0) with 1 in H8. rewrite Z.mul_1_r in H8.
  repeat split; assumption.
Qed.

(* ------------------------------------------------------------------ of_string *)

Lemma all_digits_no46 s : forallb is_digit s = true -> ~ In 46 s.
Proof.
  intros H Hin. rewrite forallb_forall in H. specialize (H _ Hin). discriminate.
Qed.

Lemma signstr_no46 (neg : bool) : ~ In 46 (if neg then [45] else []).
Proof. destruct neg; cbn [In]; intros H; [destruct H as [H|[]]; discriminate|exact H]. Qed.

Lemma not_in_app {A} (x : A) a b : ~ In x a -> ~ In x b -> ~ In x (a ++ b).
Proof. intros Ha Hb H. apply in_app_or in H. tauto. Qed.

Lemma existsb_46_false b : ~ In 46 b -> existsb (Z.eqb 46) b = false.
Proof.
  intros H. destruct (existsb (Z.eqb 46) b) eqn:E; [|reflexivity].
  apply existsb_exists in E. destruct E as (x & Hin & Hx). apply Z.eqb_eq in Hx. subst x. tauto.
Qed.

Lemma split_dot_cons c t acc :
  split_dot (c :: t) acc =
  if c =? 46 then (if existsb (Z.eqb 46) t then None else Some (rev acc, Some t))
  else split_dot t (c :: acc).
Proof. zconst_cases c. Qed.

Lemma split_dot_nodot : forall a acc, ~ In 46 a -> split_dot a acc = Some (rev acc ++ a, None).
Proof.
  induction a as [|c t IH]; intros acc H.
  - cbn [split_dot]. rewrite app_nil_r. reflexivity.
  - rewrite split_dot_cons. cbn [In] in H.
    destruct (Z.eqb_spec c 46) as [->|Hne]; [tauto|].
    rewrite IH by tauto. cbn [rev]. rewrite <- app_assoc. reflexivity.
Qed.

Lemma split_dot_at : forall a b acc, ~ In 46 a -> ~ In 46 b ->
  split_dot (a ++ 46 :: b) acc = Some (rev acc ++ a, Some b).
Proof.
  induction a as [|c t IH]; intros b acc Ha Hb.
  - cbn [app]. rewrite split_dot_cons, Z.eqb_refl, existsb_46_false by exact Hb.
    rewrite app_nil_r. reflexivity.
  - cbn [app]. rewrite split_dot_cons. cbn [In] in Ha.
    destruct (Z.eqb_spec c 46) as [->|Hne]; [tauto|].
    rewrite IH by tauto. cbn [rev]. rewrite <- app_assoc. reflexivity.
Qed.

Definition sign_split (all : str) : bool * str :=
  match all with 45 :: t => (true, t) | 43 :: t => (false, t) | _ => (false, all) end.

Lemma sign_split_cons c t :
  sign_split (c :: t) =
  if c =? 45 then (true, t) else if c =? 43 then (false, t) else (false, c :: t).
Proof. unfold sign_split. zconst_cases c. Qed.

Lemma of_string_unfold s :
  of_string s =
  match split_dot s [] with
  | None => None
  | Some (ip, fpo) =>
    let fp := match fpo with Some f => f | None => [] end in
    let '(negative, ds) := sign_split (ip ++ fp) in
    match ds with
    | [] => None
    | _ => match parse_digits ds 0 with
           | None => None
           | Some v => Some (mkDec (if negative then - v else v) (- Z.of_nat (length fp)))
           end
    end
  end.
Proof. reflexivity. Qed.

Lemma of_string_numeral : forall (neg : bool) ip fp v,
  ip <> [] -> forallb is_digit ip = true -> forallb is_digit fp = true ->
  parse_digits (ip ++ fp) 0 = Some v ->
  of_string ((if neg then [45] else []) ++ ip ++ (match fp with [] => [] | _ => [46] ++ fp end)) =
  Some (mkDec (if neg then - v else v) (- Z.of_nat (length fp))).
Proof.
  intros neg ip fp v Hne Hip Hfp Hp.
  rewrite of_string_unfold.
  assert (Hsplit : exists fpo,
    split_dot ((if neg then [45] else []) ++ ip ++ (match fp with [] => [] | _ => [46] ++ fp end)) [] =
      Some ((if neg then [45] else []) ++ ip, fpo) /\
    match fpo with Some f => f | None => [] end = fp).
  { pose proof (not_in_app 46 _ _ (signstr_no46 neg) (all_digits_no46 ip Hip)) as Hno.
    destruct fp as [|c fp'].
    - exists None. split; [|reflexivity]. rewrite app_nil_r.
      rewrite split_dot_nodot by exact Hno. reflexivity.
    - exists (Some (c :: fp')). split; [|reflexivity]. rewrite app_assoc.
      change ([46] ++ c :: fp') with (46 :: c :: fp').
      rewrite split_dot_at; [reflexivity|exact Hno|apply all_digits_no46; exact Hfp]. }
  destruct Hsplit as (fpo & Hs & Hf). rewrite Hs. cbv beta iota zeta. rewrite Hf.
  destruct ip as [|c ip']; [congruence|].
  cbn [forallb] in Hip. apply andb_prop in Hip. destruct Hip as [Hc Hip].
  apply is_digit_range in Hc. cbn [app] in Hp.
  destruct neg.
  - change (([45] ++ c :: ip') ++ fp) with (45 :: c :: (ip' ++ fp)).
    rewrite sign_split_cons, Z.eqb_refl. cbv beta iota. rewrite Hp. reflexivity.
  - change (([] ++ c :: ip') ++ fp) with (c :: (ip' ++ fp)).
    rewrite sign_split_cons.
    replace (c =? 45) with false by lia. replace (c =? 43) with false by lia.
    cbv beta iota. rewrite Hp. reflexivity.
Qed.

Lemma numeral_dec_eqv d v L :
  0 <= L <= Z.max (- ex d) 0 ->
  v * 10 ^ (Z.max (- ex d) 0 - L) = Z.abs (coef d) * 10 ^ Z.max (ex d) 0 ->
  dec_eqv (mkDec (if coef d <? 0 then - v else v) (- L)) d.
Proof.
  intros HL Hv. unfold dec_eqv, coef_at. cbn [coef ex].
  destruct (Z_lt_ge_dec (ex d) 0) as [He|He].
  - replace (Z.max (- ex d) 0) with (- ex d) in * by lia.
    replace (Z.max (ex d) 0) with 0 in Hv by lia.
    replace (Z.min (- L) (ex d)) with (ex d) by lia.
    replace (- L - ex d) with (- ex d - L) by lia. rewrite Z.sub_diag.
    change (10 ^ 0) with 1 in *.
    destruct (coef d <? 0) eqn:E; [rewrite Z.mul_opp_l|]; rewrite Hv; lia.
  - replace (Z.max (- ex d) 0) with 0 in * by lia.
    replace (Z.max (ex d) 0) with (ex d) in Hv by lia.
    assert (L = 0) by lia. subst L.
    replace (Z.min (- 0) (ex d)) with 0 by lia.
    change (10 ^ (0 - 0)) with 1 in Hv. change (10 ^ (- 0 - 0)) with 1.
    rewrite Z.sub_0_r.
    destruct (coef d <? 0) eqn:E; nia.
Qed.

Lemma of_to_string_gen : forall trim d,
  exists x, of_string (to_string_gen trim d) = Some x /\ dec_eqv x d.
Proof.
  intros trim d.
  destruct (to_string_gen_shape trim d) as (ip & fp & v & H1 & H2 & H3 & H4 & H5 & H6 & H7 & H8).
  exists (mkDec (if coef d <? 0 then - v else v) (- Z.of_nat (length fp))).
  split.
  - rewrite H1. unfold sgn. apply of_string_numeral; assumption.
  - apply numeral_dec_eqv; [lia|exact H8].
Qed.

Lemma of_to_string : forall d, exists x, of_string (to_string d) = Some x /\ dec_eqv x d.
Proof. intros d. apply of_to_string_gen. Qed.

Lemma of_to_string_fixed : forall d,
  exists x, of_string (to_string_gen false d) = Some x /\ dec_eqv x d.
Proof. intros d. apply of_to_string_gen. Qed.

(* ------------------------------------------------------------------ spec vocabulary *)

Lemma unsign_cons c t : unsign (c :: t) = if c =? 45 then (true, t) else (false, c :: t).
Proof. unfold unsign. zconst_cases c. Qed.

Lemma unsign_numeral (neg : bool) ip rest :
  ip <> [] -> forallb is_digit ip = true ->
  unsign ((if neg then [45] else []) ++ ip ++ rest) = (neg, ip ++ rest).
Proof.
  intros Hne Hip. destruct neg; [reflexivity|].
  destruct ip as [|c ip']; [congruence|].
  cbn [forallb] in Hip. apply andb_prop in Hip. destruct Hip as [Hc _].
  apply is_digit_range in Hc. cbn [app]. rewrite unsign_cons.
  replace (c =? 45) with false by lia. reflexivity.
Qed.

Lemma split_at_dot_app : forall a b, ~ In 46 a ->
  split_at_dot (a ++ b) = (a ++ fst (split_at_dot b), snd (split_at_dot b)).
Proof.
  induction a as [|c t IH]; intros b H.
  - cbn [app]. destruct (split_at_dot b); reflexivity.
  - cbn [app split_at_dot]. cbn [In] in H.
    destruct (Z.eqb_spec c 46) as [->|Hne]; [tauto|].
    rewrite IH by tauto. reflexivity.
Qed.

Lemma split_at_dot_tail fp :
  split_at_dot (match fp with [] => [] | _ => [46] ++ fp end) =
  ([], match fp with [] => None | _ => Some fp end).
Proof. destruct fp; reflexivity. Qed.

Lemma is_numstr_numeral (neg : bool) ip fp :
  ip <> [] -> forallb is_digit ip = true -> forallb is_digit fp = true ->
  is_numstr_b ((if neg then [45] else []) ++ ip ++ (match fp with [] => [] | _ => [46] ++ fp end)) = true.
Proof.
  intros Hne Hip Hfp. unfold is_numstr_b.
  rewrite unsign_numeral by assumption. cbn [snd].
  rewrite split_at_dot_app by (apply all_digits_no46; exact Hip).
  rewrite split_at_dot_tail. cbn [fst snd]. rewrite app_nil_r.
  unfold all_digits. rewrite Hip.
  destruct ip as [|c ip']; [congruence|]. cbn [nonempty andb].
  destruct fp as [|c' fp']; [reflexivity|]. rewrite Hfp. reflexivity.
Qed.

Lemma to_string_gen_is_numstr : forall trim d, is_numstr_b (to_string_gen trim d) = true.
Proof.
  intros trim d.
  destruct (to_string_gen_shape trim d) as (ip & fp & v & H1 & H2 & H3 & H4 & _).
  rewrite H1. unfold sgn. apply is_numstr_numeral; assumption.
Qed.

Lemma to_string_gen_frac_len : forall d, frac_len (to_string_gen false d) = Z.max (- ex d) 0.
Proof.
  intros d.
  destruct (to_string_gen_shape false d) as (ip & fp & v & H1 & H2 & H3 & H4 & H5 & H6 & _).
  specialize (H6 eq_refl). rewrite H1. unfold frac_len. rewrite app_assoc.
  rewrite split_at_dot_app
    by (apply not_in_app; [apply signstr_no46|apply all_digits_no46; exact H3]).
  rewrite split_at_dot_tail. cbn [snd]. rewrite <- H6.
  destruct fp; reflexivity.
Qed.

Lemma to_string_gen_starts_minus : forall trim d,
  starts_minus (to_string_gen trim d) = (coef d <? 0).
Proof.
  intros trim d.
  destruct (to_string_gen_shape trim d) as (ip & fp & v & H1 & H2 & H3 & _).
  rewrite H1. unfold starts_minus, sgn. rewrite unsign_numeral by assumption. reflexivity.
Qed.

Lemma to_string_gen_chars : forall trim d c,
  In c (to_string_gen trim d) -> is_digit c = true \/ c = 45 \/ c = 46.
Proof.
  intros trim d c Hin.
  destruct (to_string_gen_shape trim d) as (ip & fp & v & H1 & H2 & H3 & H4 & _).
  rewrite H1 in Hin. rewrite forallb_forall in H3, H4.
  apply in_app_or in Hin. destruct Hin as [Hin|Hin].
  - unfold sgn in Hin. destruct (coef d <? 0); cbn [In] in Hin; [|tauto].
    destruct Hin as [<-|[]]. right; left; reflexivity.
  - apply in_app_or in Hin. destruct Hin as [Hin|Hin]; [left; apply H3; exact Hin|].
    destruct fp as [|c' fp']; [destruct Hin|].
    change ([46] ++ c' :: fp') with (46 :: c' :: fp') in Hin.
    destruct Hin as [<-|Hin]; [right; right; reflexivity|left; apply H4; exact Hin].
Qed.

Lemma to_string_gen_no_comma : forall trim d, ~ In 44 (to_string_gen trim d).
Proof.
  intros trim d H. apply to_string_gen_chars in H.
  destruct H as [H|[H|H]]; discriminate.
Qed.

Lemma to_string_gen_no_nl : forall trim d, ~ In 10 (to_string_gen trim d).
Proof.
  intros trim d H. apply to_string_gen_chars in H.
  destruct H as [H|[H|H]]; discriminate.
Qed.
