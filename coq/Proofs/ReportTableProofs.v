(* The table that the balance report builds (Model/Report.v render_report) has only full rows
   (every row as wide as the table) and non-negative indents: the hypotheses of C17_rect. *)
From Coq Require Import ZArith List Bool Lia.
From Knut Require Import Model.Str Model.Dec Model.Date Model.Account Model.Ledger Model.Price Model.Table
     Model.Report Spec.TableSpec Proofs.TableProofs Proofs.NumberProofs.
Import ListNotations.
Open Scope bool_scope.
Open Scope Z_scope.

Definition row_ok (w : nat) (row : list cell) : Prop := length row = w /\ Forall cell_indent_ok row.

Definition tinv (w : nat) (t : table) : Prop :=
  t_width t = w /\ Forall (row_ok w) (t_rows t).

Lemma tinv_add_row w t r : tinv w t -> row_ok w r -> tinv w (add_row t r).
Proof.
  intros [Hw Hr] Hrow. split; [exact Hw|]. cbn [add_row t_rows].
  apply Forall_app. split; [exact Hr|constructor; [exact Hrow|constructor]].
Qed.

Lemma tinv_fold_add_row w rows t : tinv w t -> Forall (row_ok w) rows -> tinv w (fold_left add_row rows t).
Proof.
  revert t. induction rows as [|r rows IH]; intros t Ht Hrows; cbn [fold_left]; [exact Ht|].
  inversion Hrows as [|r' rows' Hr Hrest]; subst. apply IH; [apply tinv_add_row; assumption|exact Hrest].
Qed.

Lemma row_ok_repeat w c : cell_indent_ok c -> row_ok w (repeat c w).
Proof.
  intros Hc. split; [apply repeat_length|]. apply Forall_forall. intros x Hx.
  apply repeat_spec in Hx. subst x. exact Hc.
Qed.

Lemma tinv_sep_row w t : tinv w t -> tinv w (add_separator_row t).
Proof.
  intros H. unfold add_separator_row. apply tinv_add_row; [exact H|].
  destruct H as [Hw _]. rewrite Hw. apply row_ok_repeat. exact I.
Qed.

Lemma tinv_empty_row w t : tinv w t -> tinv w (add_empty_row t).
Proof.
  intros H. unfold add_empty_row. apply tinv_add_row; [exact H|].
  destruct H as [Hw _]. rewrite Hw. apply row_ok_repeat. exact I.
Qed.

Lemma row_ok_fill_empty w t r :
  t_width t = w -> (length r <= w)%nat -> Forall cell_indent_ok r -> row_ok w (fill_empty t r).
Proof.
  intros Hw Hl Hr. unfold fill_empty. rewrite Hw. split.
  - rewrite app_length, repeat_length. lia.
  - apply Forall_app. split; [exact Hr|]. apply Forall_forall. intros x Hx.
    apply repeat_spec in Hx. subst x. exact I.
Qed.

Lemma row_numbers_ok diff neg_ vals c dates total :
  length (row_numbers diff neg_ vals c dates total) = length dates /\
  Forall cell_indent_ok (row_numbers diff neg_ vals c dates total).
Proof.
  revert total. induction dates as [|d dates IH]; intros total; cbn [row_numbers].
  - split; [reflexivity|constructor].
  - destruct (IH (add total (ra_get0 vals (Some d, c)))) as [Hl Hf]. split.
    + cbn [length]. rewrite Hl. reflexivity.
    + constructor; [exact I|exact Hf].
Qed.

Definition report_width (cfg : render_cfg) (dates : list Z) : nat :=
  ((if draw_comms cfg then 2 else 1) + length dates)%nat.

Lemma render_rows_ok cfg dates indent name neg_ vals coms first :
  0 <= indent ->
  Forall (row_ok (report_width cfg dates)) (render_rows cfg dates indent name neg_ vals coms first).
Proof.
  intros Hi. revert first. induction coms as [|c coms IH]; intros first; cbn [render_rows]; [constructor|].
  constructor; [|apply IH].
  destruct (row_numbers_ok (rc_diff cfg) neg_ vals c dates dec_nil) as [Hl Hf].
  unfold row_ok, report_width. split.
  - cbn [length]. rewrite app_length, Hl. destruct (draw_comms cfg); cbn [length]; lia.
  - constructor.
    + destruct first; [exact Hi|exact I].
    + apply Forall_app. split; [|exact Hf].
      destruct (draw_comms cfg); [|constructor].
      constructor; [|constructor].
      destruct c as [x|]; [cbn; lia|]. destruct (rc_valuation cfg); [cbn; lia|exact I].
Qed.

Lemma render_amounts_ok cfg t dates indent name neg_ vals :
  0 <= indent -> tinv (report_width cfg dates) t ->
  tinv (report_width cfg dates) (render_amounts cfg t dates indent name neg_ vals).
Proof.
  intros Hi Ht. unfold render_amounts. destruct vals as [|kv vals].
  - apply tinv_add_row; [exact Ht|]. destruct Ht as [Hw _].
    apply row_ok_fill_empty; [exact Hw| |].
    + unfold report_width. cbn [length]. destruct (draw_comms cfg); lia.
    + constructor; [exact Hi|constructor].
  - apply tinv_fold_add_row; [exact Ht|]. apply render_rows_ok. exact Hi.
Qed.

Lemma render_node_ok cfg dates :
  forall n indent neg_ t, 0 <= indent -> tinv (report_width cfg dates) t ->
  tinv (report_width cfg dates) (render_node cfg dates indent neg_ t n).
Proof.
  fix IH 1. intros [s p hv a ch] indent neg_ t Hi Ht. cbn [render_node].
  set (t1 := match s with [] => t | _ => _ end).
  assert (Ht1 : tinv (report_width cfg dates) t1).
  { unfold t1. destruct s; [exact Ht|]. apply render_amounts_ok; assumption. }
  clearbody t1. clear Ht t.
  revert t1 Ht1. induction ch as [|c ch IHch]; intros t1 Ht1; cbn [fold_left]; [exact Ht1|].
  apply IHch. apply IH; [lia|exact Ht1].
Qed.

Lemma fold_nodes_ok cfg dates neg_ (ch : list node) t :
  tinv (report_width cfg dates) t ->
  tinv (report_width cfg dates)
       (fold_left (fun t n => add_empty_row (render_node cfg dates 0 neg_ t n)) ch t).
Proof.
  revert t. induction ch as [|c ch IH]; intros t Ht; cbn [fold_left]; [exact Ht|].
  apply IH. apply tinv_empty_row. apply render_node_ok; [lia|exact Ht].
Qed.

Lemma columns_of_length groups no :
  Forall (fun g => 0 <= g) groups ->
  length (columns_of groups no) = Z.to_nat (fold_right Z.add 0 groups).
Proof.
  revert no. induction groups as [|g groups IH]; intros no H; cbn [columns_of fold_right]; [reflexivity|].
  inversion H as [|g' gs Hg Hgs]; subst.
  rewrite app_length, repeat_length, IH by exact Hgs.
  assert (0 <= fold_right Z.add 0 groups).
  { clear - Hgs. induction Hgs; cbn [fold_right]; lia. }
  lia.
Qed.

Theorem render_report_tinv cfg r dates :
  tinv (report_width cfg dates) (render_report cfg r dates).
Proof.
  unfold render_report.
  set (valued := match rc_valuation cfg with Some _ => true | None => false end).
  set (al := node_sort (rc_alpha cfg) valued (r_al r)).
  set (eie := node_sort (rc_alpha cfg) valued (r_eie r)).
  set (t0 := if draw_comms cfg then table_new [1; 1; Z.of_nat (length dates)] else table_new [1; Z.of_nat (length dates)]).
  assert (Ht0 : tinv (report_width cfg dates) t0).
  { unfold t0, report_width. destruct (draw_comms cfg); (split; [|constructor]);
      unfold table_new, t_width; cbn [t_columns]; rewrite columns_of_length by (repeat constructor; lia);
      cbn [fold_right]; lia. }
  clearbody t0.
  apply tinv_sep_row.
  apply render_amounts_ok; [lia|].
  apply tinv_sep_row.
  apply render_amounts_ok; [lia|].
  apply fold_nodes_ok.
  apply tinv_sep_row.
  apply render_amounts_ok; [lia|].
  apply fold_nodes_ok.
  apply tinv_sep_row.
  apply tinv_add_row; [apply tinv_sep_row; exact Ht0|].
  unfold row_ok, report_width. split.
  - cbn [length]. rewrite app_length, map_length. destruct (draw_comms cfg); cbn [length]; lia.
  - constructor; [cbn; lia|]. apply Forall_app. split.
    + destruct (draw_comms cfg); repeat constructor; cbn; lia.
    + apply Forall_forall. intros c Hc. apply in_map_iff in Hc. destruct Hc as [d [<- _]]. cbn. lia.
Qed.

(* render_report_rows_full *)
Theorem render_report_rows_full cfg r dates :
  let t := render_report cfg r dates in
  (0 < t_width t)%nat /\
  Forall (fun row => length row = t_width t /\ Forall cell_indent_ok row) (t_rows t).
Proof.
  cbv zeta. destruct (render_report_tinv cfg r dates) as [Hw Hrows]. rewrite Hw. split.
  - unfold report_width. destruct (draw_comms cfg); lia.
  - exact Hrows.
Qed.

Theorem render_report_rect rc tc r dates :
  Forall (Forall cell_no_nl) (t_rows (render_report rc r dates)) ->
  rect_b (t_width (render_report rc r dates)) (render_text tc (render_report rc r dates)) = true.
Proof.
  intros Hnl. apply render_text_rect_closed.
  destruct (render_report_rows_full rc r dates) as [Hw Hrows]. split; [exact Hw|].
  rewrite Forall_forall in *. intros row Hrow. destruct (Hrows row Hrow) as [Hl Hi].
  split; [exact Hl|]. split; [exact Hi|exact (Hnl row Hrow)].
Qed.
