(* The numeral of a numeric cell (TextRenderer.numToString): without its commas it is
   shopspring's fixed-point numeral of the amount (divided by 1000 under --thousands) rounded
   half away from zero; it is well grouped; it meets the executable statement
   Spec.TableSpec.num_cell_ok_b that the check evaluates on the Go output. *)
From Coq Require Import ZArith List Bool Lia.
From Knut Require Import Model.Str Model.Dec Model.Table Spec.TableSpec.
From Knut Require Import Proofs.DecProofs Proofs.DecRoundProofs Proofs.DecStringProofs Proofs.GroupingProofs
     Proofs.TableProofs.
Import ListNotations.
Open Scope bool_scope.
Open Scope Z_scope.

(* the decimal that is formatted: d itself, or the result of d.Div(1000) *)
Definition shown (cfg : text_cfg) (d d' : dec) : Prop :=
  if tc_thousands cfg then div d k1000 = DOk d' else d' = d.

Lemma shown_exists cfg d : exists d', shown cfg d d'.
Proof.
  unfold shown. destruct (tc_thousands cfg); [|exists d; reflexivity].
  destruct (div d k1000) as [x|] eqn:E; [exists x; reflexivity|].
  exfalso. exact (div_k1000_no_panic d E).
Qed.

Lemma num_str_shown cfg d d' :
  shown cfg d d' -> num_str cfg d = add_thousands_sep (to_string_fixed d' (tc_round cfg)).
Proof.
  unfold shown, num_str, num_to_string. destruct (tc_thousands cfg); intros H.
  - rewrite H. reflexivity.
  - subst d'. reflexivity.
Qed.

(* under --thousands the formatted decimal is the exact quotient when d has <= 13 decimals *)
Lemma shown_value cfg d d' :
  (tc_thousands cfg = true -> - ex d <= 13) ->
  shown cfg d d' -> dec_eqv d' (shown_amount (tc_thousands cfg) d).
Proof.
  unfold shown, shown_amount. destruct (tc_thousands cfg); intros Hex H.
  - destruct (div1000_exact d (Hex eq_refl)) as [E Hv]. rewrite E in H. injection H as <-. exact Hv.
  - subst d'. apply dec_eqv_refl.
Qed.

Lemma to_string_fixed_eq d p : to_string_fixed d p = to_string_gen false (round d p).
Proof. reflexivity. Qed.

(* C17_number, model side *)
Theorem num_str_spec cfg d :
  let p := tc_round cfg in
  exists d',
    shown cfg d d' /\
    (* without the commas: StringFixed of the shown amount *)
    strip_commas (num_str cfg d) = to_string_fixed d' p /\
    (* which is the numeral of the amount rounded half away from zero *)
    to_string_fixed d' p = to_string_gen false (round_haz d' p) /\
    round d' p = round_haz d' p /\
    is_round_haz d' p (round d' p) /\
    (* a plain numeral with max p 0 fractional digits that denotes the rounded value *)
    is_numstr_b (to_string_fixed d' p) = true /\
    frac_len (to_string_fixed d' p) = Z.max p 0 /\
    (exists x, of_string (to_string_fixed d' p) = Some x /\ dec_eqv x (round d' p)) /\
    (* minus sign iff the rounded coefficient is negative *)
    starts_minus (num_str cfg d) = (coef (round d' p) <? 0) /\
    (* grouping *)
    grouping_ok_b (num_str cfg d) = true.
Proof.
  intros p. destruct (shown_exists cfg d) as [d' Hs]. exists d'.
  pose proof (num_str_shown cfg d d' Hs) as En. fold p in En.
  pose proof (to_string_gen_is_numstr false (round d' p)) as Hnum.
  rewrite <- to_string_fixed_eq in Hnum.
  split; [exact Hs|].
  split; [rewrite En; apply add_thousands_sep_strip; exact Hnum|].
  split; [rewrite to_string_fixed_eq, round_eq_haz; reflexivity|].
  split; [apply round_eq_haz|].
  split; [apply round_spec|].
  split; [exact Hnum|].
  split.
  { rewrite to_string_fixed_eq, to_string_gen_frac_len, ex_round. f_equal. lia. }
  split; [rewrite to_string_fixed_eq; apply of_to_string_fixed|].
  split.
  { rewrite En, add_thousands_sep_starts_minus by exact Hnum.
    rewrite to_string_fixed_eq. apply to_string_gen_starts_minus. }
  rewrite En. apply add_thousands_sep_grouping_ok. exact Hnum.
Qed.

(* the model's numeral meets the executable statement evaluated on the Go output *)
Theorem num_str_meets_spec cfg d :
  (tc_thousands cfg = true -> - ex d <= 13) ->
  num_cell_ok_b (tc_thousands cfg) (tc_round cfg) d (num_str cfg d) = true /\
  num_cell_exact_b (tc_thousands cfg) (tc_round cfg) d (num_str cfg d) = true.
Proof.
  intros Hex. destruct (num_str_spec cfg d) as [d' [Hs [Estrip [Efix [Er [_ [Hnum [Hfl [[x [Eof Hx]] [Hmin Hgrp]]]]]]]]]].
  cbv zeta in *.
  pose proof (shown_value cfg d d' Hex Hs) as Hv.
  pose proof (round_haz_eqv _ _ (tc_round cfg) Hv) as Erh.
  split.
  - unfold num_cell_ok_b. rewrite <- Erh, <- Er, Estrip, Hgrp, Hnum, Hfl, Z.eqb_refl, Hmin, Bool.eqb_reflx, Eof.
    cbn [andb]. apply dec_eqv_b_true. exact Hx.
  - unfold num_cell_exact_b. rewrite <- Erh, Estrip, Efix. apply str_eqb_refl.
Qed.

(* the numerals contain no line break: digits, '-', '.', ',' only *)
Lemma num_str_no_nl cfg n : ~ In 10 (num_str cfg n).
Proof.
  destruct (shown_exists cfg n) as [d' Hs]. rewrite (num_str_shown cfg n d' Hs).
  intros Hin. apply add_thousands_sep_chars in Hin. destruct Hin as [Hin|Hin]; [|discriminate].
  rewrite to_string_fixed_eq in Hin. exact (to_string_gen_no_nl _ _ Hin).
Qed.

(* ------------------------------------------------------------------ instances *)
Theorem render_text_rect_closed cfg t : table_wf t -> rect_b (t_width t) (render_text cfg t) = true.
Proof. apply render_text_rect. apply num_str_no_nl. Qed.

Theorem render_text_lines_closed cfg t :
  table_wf t ->
  render_text cfg t = concat (map (fun l => l ++ [10]) (map (row_line cfg (final_widths cfg t)) (t_rows t))) ++ [10] /\
  table_lines (render_text cfg t) = Some (map (row_line cfg (final_widths cfg t)) (t_rows t)).
Proof. apply render_text_lines. apply num_str_no_nl. Qed.

Theorem lines_aligned_closed cfg t :
  table_wf t ->
  Forall (fun l => aligned (widths_nat (final_widths cfg t)) (rune_starts l))
         (map (row_line cfg (final_widths cfg t)) (t_rows t)).
Proof. apply lines_aligned. Qed.

Lemma to_string_numstr n : is_numstr_b (to_string n) = true.
Proof. apply to_string_gen_is_numstr. Qed.

Theorem render_csv_rows_spec_closed t :
  render_csv_rows t = map (map csv_cell) (filter csv_row_visible (t_rows t)).
Proof. apply render_csv_rows_spec. apply to_string_numstr. Qed.

Theorem render_csv_rows_ok_closed t : csv_ok_b (t_rows t) (render_csv_rows t) = true.
Proof. apply render_csv_rows_ok; [apply to_string_numstr|apply of_to_string]. Qed.
