(* C09, model level: the printed sequence of a journal is a NORMAL FORM for knut print.
   [print_printed_dirs]: printing the printed sequence writes the same bytes (the builder gives
   the printed days back, PrintRegroup.builder_of_printed; the sort is idempotent,
   TxnOrder.sort_days_idem; the checker accepts it, PrintRegroup.accepted_printed_dirs). *)
From Coq Require Import ZArith List Bool Lia Permutation.
From Knut Require Import Model.Str Model.Dec Model.Date Model.Account Model.Ledger Model.Journal
     Model.Check Model.Pipeline Model.Table Model.Report Model.JPrinter Model.Cli Model.ToModel.
From Knut Require Import Spec.WellformedSpec Spec.PrintSpec.
From Knut Require Import Proofs.OrderCmd Proofs.PrintProofs Proofs.PrintRegroup Proofs.TxnOrder.
Import ListNotations.
Open Scope bool_scope.
Open Scope Z_scope.

Lemma parse_printed_dirs ss ds :
  parse_directives ss = MOk ds ->
  parse_directives (printed_dirs (b_days (builder_of ds))) = MOk (printed_model_dirs (b_days (builder_of ds))).
Proof.
  intros Hp. unfold printed_dirs. apply parse_directives_denoted. intros d Hd.
  apply (parse_directives_each ss ds Hp). eapply Permutation_in; [apply printed_model_dirs_perm|exact Hd].
Qed.

Lemma load_printed_dirs ss ds :
  parse_directives ss = MOk ds ->
  load (printed_dirs (b_days (builder_of ds))) =
  COk (mkBuilder (sort_days (b_days (builder_of ds))) (b_min (builder_of ds)) (b_max (builder_of ds))).
Proof. intros Hp. unfold load. rewrite (parse_printed_dirs ss ds Hp). cbn [of_mresult cbind]. now rewrite builder_of_printed. Qed.

Lemma print_cmd_text l ss text b : load ss = COk b -> print_cmd l ss = COk text -> text = print_journal (b_days b).
Proof.
  intros Hl. unfold print_cmd. rewrite Hl. cbn [cbind].
  destruct (run_stage (check_proc_current l) check_init (b_days b)); cbn [cbind]; try discriminate. congruence.
Qed.

Lemma print_journal_sorted days : print_journal (sort_days days) = print_journal days.
Proof. unfold print_journal. cbv zeta. now rewrite sort_days_idem. Qed.

(* C09_idem at the model level: the printed sequence prints the same bytes *)
Theorem print_printed_dirs l ss b text :
  sd_syntactic ss -> load ss = COk b -> printed (print_cmd l) ss text ->
  printed (print_cmd l) (printed_dirs (b_days b)) text.
Proof.
  intros Hs Hl Hpr. pose proof (print_cmd_text l ss text b Hl Hpr) as Ht.
  pose proof (proj1 (accepted_printed_dirs l ss b Hs Hl) (printed_fixed_accepted l ss text Hpr)) as Ha.
  destruct (load_days ss b Hl) as (ds & Hp & ->).
  unfold printed, print_cmd. unfold accepted, check_cmd_current in Ha.
  rewrite (load_printed_dirs ss ds Hp) in *. cbn [cbind b_days] in *.
  destruct (run_stage (check_proc_current l) check_init (sort_days (b_days (builder_of ds)))); cbn [cbind] in *; try discriminate.
  rewrite print_journal_sorted. congruence.
Qed.
