(* C09, model level: the printed sequence of a journal is a NORMAL FORM for knut print.
   [print_printed_dirs]: printing the printed sequence writes the same bytes (the builder gives
   the printed days back, PrintRegroup.builder_of_printed; the sort is idempotent,
   TxnOrder.sort_days_idem; the checker accepts it, PrintRegroup.accepted_printed_dirs). *)
From Coq Require Import ZArith List Bool Lia Permutation.
From Knut Require Import Model.Str Model.Dec Model.Date Model.Account Model.Ledger Model.Journal
     Model.Check Model.Pipeline Model.Table Model.Report Model.JPrinter Model.Cli Model.ToModel.
From Knut Require Import Spec.WellformedSpec Spec.PrintSpec.
From Knut Require Import Proofs.DecEqProofs Proofs.DecNormalForm Proofs.BuilderProofs Proofs.StrProofs Proofs.OrderCmd Proofs.PrintProofs
     Proofs.PrintRegroup Proofs.TxnOrder Proofs.PrintRequant Proofs.CheckQuant.
Import ListNotations.
Open Scope bool_scope.
Open Scope Z_scope.

Lemma parse_printed_dirs ss ds :
  parse_directives ss = MOk ds ->
  parse_directives (printed_dirs (b_days (builder_of ds))) = MOk (printed_model_dirs (b_days (builder_of ds))).
Proof.
  intros Hp. unfold printed_dirs. apply parse_directives_denoted. intros d Hd.
  apply (parse_directives_each ss ds Hp). eapply Permutation_in; [apply printed_model_dirs_perm|exact Hd].
Qed.

Lemma load_printed_dirs ss ds :
  parse_directives ss = MOk ds ->
  load (printed_dirs (b_days (builder_of ds))) =
  COk (mkBuilder (sort_days (b_days (builder_of ds))) (b_min (builder_of ds)) (b_max (builder_of ds))).
Proof. intros Hp. unfold load. rewrite (parse_printed_dirs ss ds Hp). cbn [of_mresult cbind]. now rewrite builder_of_printed. Qed.

Lemma print_cmd_text l ss text b : load ss = COk b -> print_cmd l ss = COk text -> text = print_journal (b_days b).
Proof.
  intros Hl. unfold print_cmd. rewrite Hl. cbn [cbind].
  destruct (run_stage (check_proc_current l) check_init (b_days b)); cbn [cbind]; try discriminate. congruence.
Qed.

Lemma print_journal_sorted days : print_journal (sort_days days) = print_journal days.
Proof. unfold print_journal. cbv zeta. now rewrite sort_days_idem. Qed.

(* C09_idem at the model level: the printed sequence prints the same bytes *)
Theorem print_printed_dirs l ss b text :
  sd_syntactic ss -> load ss = COk b -> printed (print_cmd l) ss text ->
  printed (print_cmd l) (printed_dirs (b_days b)) text.
Proof.
  intros Hs Hl Hpr. pose proof (print_cmd_text l ss text b Hl Hpr) as Ht.
  pose proof (proj1 (accepted_printed_dirs l ss b Hs Hl) (printed_fixed_accepted l ss text Hpr)) as Ha.
  destruct (load_days ss b Hl) as (ds & Hp & ->).
  unfold printed, print_cmd. unfold accepted, check_cmd_current in Ha.
  rewrite (load_printed_dirs ss ds Hp) in *. cbn [cbind b_days] in *.
  destruct (run_stage (check_proc_current l) check_init (sort_days (b_days (builder_of ds)))); cbn [cbind] in *; try discriminate.
  rewrite print_journal_sorted. congruence.
Qed.

(* ------------------------------------------------------------------ ... and with re-read quantities *)

(* the printed sequence with every quantity as it is after a trip through its text: what the
   printed text denotes (Properties/C09.v, gap (a)) *)
Definition reparsed_dirs (days : list day) : list sdirective := map rq_sdir (printed_dirs days).

Lemma parsed_dir_ok ss ds : parse_directives ss = MOk ds -> Forall dir_ok ds.
Proof. intros H. apply Forall_forall. exact (parse_directives_each ss ds H). Qed.

Lemma builder_days_canonical ds : Forall dir_ok ds -> Forall day_canonical (b_days (builder_of ds)).
Proof.
  intros H. apply Forall_forall. intros x Hx. apply Forall_forall. intros t Ht.
  destruct (builder_canonical ds) as (_ & _ & _ & M). destruct (M x Hx) as (_ & _ & M2 & _).
  assert (Hin : In (DTxn t) (map DTxn (d_txns x))) by now apply in_map.
  rewrite M2 in Hin. apply sel_in in Hin. destruct Hin as (Hin & _).
  rewrite Forall_forall in H. exact (dir_ok_txn_canonical t (H _ Hin)).
Qed.

Lemma sort_days_canonical D : Forall day_canonical D -> Forall day_canonical (sort_days D).
Proof.
  unfold sort_days. intros H. apply Forall_forall. intros x Hx. apply in_map_iff in Hx. destruct Hx as (y & <- & Hy).
  rewrite Forall_forall in H. specialize (H y Hy). unfold day_canonical in *. cbn [set_txns d_txns].
  eapply Permutation.Permutation_Forall; [apply Permutation.Permutation_sym, sort_by_perm|exact H].
Qed.

Lemma load_reparsed_dirs ss ds :
  parse_directives ss = MOk ds ->
  load (reparsed_dirs (b_days (builder_of ds))) =
  COk (mkBuilder (map rq_day (sort_days (b_days (builder_of ds)))) (b_min (builder_of ds)) (b_max (builder_of ds))).
Proof.
  intros Hp. unfold load, reparsed_dirs, printed_dirs.
  rewrite parse_rq.
  - cbn [of_mresult cbind]. rewrite builder_of_rq, builder_of_printed. reflexivity.
  - eapply Permutation.Permutation_Forall; [apply Permutation.Permutation_sym, printed_model_dirs_perm|].
    exact (parsed_dir_ok ss ds Hp).
Qed.

Lemma postings_q_rq ps : canonical ps -> Forall2 posting_q ps (rq_postings ps).
Proof.
  induction 1 as [|p1 p2 rest (H1 & _) Hr IH]; [constructor|]. cbn [rq_postings].
  constructor; [|constructor; [|exact IH]]; unfold posting_q, set_qty; cbn [p_acc p_com p_qty].
  - split; [reflexivity|]. split; [reflexivity|]. subst p1. cbn [p_qty].
    apply deqv_neg, deqv_sym, deqv_reread.
  - split; [reflexivity|]. split; [reflexivity|]. apply deqv_sym, deqv_reread.
Qed.

Lemma day_q_rq x : day_canonical x -> day_q x (rq_day x).
Proof.
  intros H. unfold day_q, rq_day. cbn [d_opens d_txns d_asserts d_closes].
  split; [reflexivity|]. split; [|split; [|reflexivity]].
  - unfold day_canonical in H. induction H as [|t ts Ht Hts IH]; cbn [map]; constructor; [|exact IH].
    unfold txn_q, rq_txn. cbn [t_postings]. now apply postings_q_rq.
  - induction (d_asserts x) as [|a l IH]; cbn [map]; constructor; [|exact IH].
    induction a as [|b a IHa]; cbn [map]; constructor; [|exact IHa].
    unfold bal_q, rq_balance. cbn [bal_acc bal_com bal_qty]. repeat split. apply deqv_sym, deqv_reread.
Qed.

Lemma days_q_rq D : Forall day_canonical D -> Forall2 day_q D (map rq_day D).
Proof. induction 1 as [|x D Hx HD IH]; cbn [map]; constructor; [now apply day_q_rq|exact IH]. Qed.

(* the checker accepts the re-read sequence iff it accepts the printed one *)
Theorem accepted_reparsed_dirs l ss b :
  load ss = COk b -> (accepted l (printed_dirs (b_days b)) <-> accepted l (reparsed_dirs (b_days b))).
Proof.
  intros Hl. destruct (load_days ss b Hl) as (ds & Hp & ->).
  unfold accepted, check_cmd_current.
  rewrite (load_printed_dirs ss ds Hp), (load_reparsed_dirs ss ds Hp). cbn [cbind b_days].
  pose proof (check_days_q l _ _ (days_q_rq _ (sort_days_canonical _ (builder_days_canonical ds (parsed_dir_ok ss ds Hp))))) as Hq.
  destruct (run_stage (check_proc_current l) check_init (sort_days (b_days (builder_of ds)))) as [x| |] eqn:E1,
           (run_stage (check_proc_current l) check_init (map rq_day (sort_days (b_days (builder_of ds))))) as [y| |] eqn:E2;
    cbn [cbind]; split; intros H; try reflexivity; try discriminate; exfalso.
  all: try (destruct (proj1 Hq (ex_intro _ x eq_refl)) as [z Hz]; discriminate).
  all: try (destruct (proj2 Hq (ex_intro _ y eq_refl)) as [z Hz]; discriminate).
Qed.

(* C09_accepted, C09_idem at the model level, for what the printed text denotes *)
Theorem accepted_reparsed l ss b :
  sd_syntactic ss -> load ss = COk b -> accepted l ss -> accepted l (reparsed_dirs (b_days b)).
Proof.
  intros Hs Hl Ha. apply (accepted_reparsed_dirs l ss b Hl). now apply (accepted_printed_dirs l ss b Hs Hl).
Qed.

Theorem print_reparsed_dirs l ss b text :
  sd_syntactic ss -> load ss = COk b -> printed (print_cmd l) ss text ->
  printed (print_cmd l) (reparsed_dirs (b_days b)) text.
Proof.
  intros Hs Hl Hpr. pose proof (print_cmd_text l ss text b Hl Hpr) as Ht.
  pose proof (accepted_reparsed l ss b Hs Hl (printed_fixed_accepted l ss text Hpr)) as Ha.
  destruct (load_days ss b Hl) as (ds & Hp & ->).
  unfold printed, print_cmd. unfold accepted, check_cmd_current in Ha.
  rewrite (load_reparsed_dirs ss ds Hp) in *. cbn [cbind b_days] in *.
  destruct (run_stage (check_proc_current l) check_init (map rq_day (sort_days (b_days (builder_of ds))))); cbn [cbind] in *; try discriminate.
  rewrite print_journal_rq by (apply sort_days_canonical, (builder_days_canonical ds), (parsed_dir_ok ss ds Hp)).
  rewrite print_journal_sorted. congruence.
Qed.
