(* Proofs about Model/Pipe.v, part 1: the invariant of cpr.Seq's transition system and its preservation.
   Everything is by induction over schedules (lists of labels); n, m, fails are arbitrary.   *)
From Coq Require Import List Bool Arith PeanoNat Lia.
From Knut Require Import Model.Pipe.
Import ListNotations.

Lemma phase_eqb_eq : forall a b, phase_eqb a b = true <-> a = b.
Proof. intros a b; destruct a, b; simpl; split; intro H; try reflexivity; try discriminate. Qed.

Lemma live_true : forall nd p, live nd p = true <-> stat nd = Running /\ ph nd = p.
Proof.
  intros nd p. unfold live, is_running. destruct (stat nd); simpl.
  - rewrite phase_eqb_eq. tauto.
  - split; [discriminate | intros [H _]; discriminate].
  - split; [discriminate | intros [H _]; discriminate].
Qed.

Lemma live_false : forall nd p, live nd p = false <-> ~ (stat nd = Running /\ ph nd = p).
Proof.
  intros nd p. rewrite <- live_true. destruct (live nd p); intuition congruence.
Qed.

Lemma is_running_true : forall nd, is_running nd = true <-> stat nd = Running.
Proof. intros nd. unfold is_running. destruct (stat nd); split; intro H; try reflexivity; discriminate. Qed.

Lemma closed_true : forall nd, closed nd = true <-> stat nd <> Running \/ ph nd = PFailed.
Proof.
  intros nd. unfold closed. rewrite orb_true_iff, negb_true_iff, phase_eqb_eq.
  unfold is_running. destruct (stat nd); split; intros [H|H]; auto; try discriminate; try congruence.
  - left; discriminate.
  - left; discriminate.
Qed.

Ltac bfacts :=
  repeat match goal with
  | H : _ && _ = true |- _ => apply andb_true_iff in H; destruct H
  | H : _ || _ = true |- _ => apply orb_true_iff in H; destruct H
  | H : live _ _ = true |- _ => apply live_true in H; destruct H
  | H : closed _ = true |- _ => apply closed_true in H
  | H : (_ <=? _) = true |- _ => apply Nat.leb_le in H
  | H : (_ <? _) = true |- _ => apply Nat.ltb_lt in H
  | H : (_ =? _) = true |- _ => apply Nat.eqb_eq in H
  | H : (_ =? _) = false |- _ => apply Nat.eqb_neq in H
  | H : (_ <=? _) = false |- _ => apply Nat.leb_gt in H
  | H : (_ <? _) = false |- _ => apply Nat.ltb_ge in H
  | H : negb _ = true |- _ => apply negb_true_iff in H
  | H : negb _ = false |- _ => apply negb_false_iff in H
  | H : S _ = S _ |- _ => apply eq_add_S in H
  | H : match ?i with 0 => false | S _ => true end = true |- _ =>
      assert (1 <= i) by (destruct i; [discriminate H | apply le_n_S, Nat.le_0_l]); clear H
  end.

(* case analysis on every index comparison introduced by [upd] *)
Ltac updc :=
  unfold upd in *;
  repeat match goal with
  | |- context [?a =? ?b] => destruct (a =? b) eqn:?
  end; bfacts.

Ltac rwph :=
  repeat match goal with
  | H : ph ?x = _ |- _ => progress (rewrite H in * )
  | H : stat ?x = _ |- _ => progress (rewrite H in * )
  end.

Section SeqProofs.
  Variable n m : nat.
  Variable fails : nat -> nat -> bool.

  Notation step := (step n m fails).
  Notation run := (run n m fails).
  Notation step_or_stay := (step_or_stay n m fails).

  Definition bounded (nd : node) : Prop :=
    match ph nd with PIdle => cnt nd <= m | _ => cnt nd < m end.

  Definition closedP (nd : node) : Prop := stat nd <> Running \/ ph nd = PFailed.

  Definition first_is_failure (es : list err) : Prop :=
    exists i k rest, es = EFail i k :: rest /\ fails i k = true /\ 1 <= i <= n /\ k < m.

  Record Inv (st : state) : Prop := {
    I_chan : forall i, i <= n -> sent (nodes st i) = recv (nodes st (S i));
    I_bound : forall i, bounded (nodes st i);
    I_src : ph (nodes st 0) = PIdle \/ ph (nodes st 0) = PReady;
    I_sinkph : ph (nodes st (S n)) = PIdle \/ ph (nodes st (S n)) = PHolding \/
               ph (nodes st (S n)) = PWorking;
    I_sinkacc : sinkacc st = seq 0 (cnt (nodes st (S n)));
    I_done : forall i, stat (nodes st i) = Done ->
               ph (nodes st i) = PIdle /\ (i = 0 -> cnt (nodes st i) = m) /\
               (1 <= i -> closedP (nodes st (pred i)));
    I_stop : forall i, stat (nodes st i) = Stopped -> cancelled st = true;
    I_err : (cancelled st = false /\ errs st = []) \/
            (cancelled st = true /\ first_is_failure (errs st));
    I_failed : forall i, ph (nodes st i) = PFailed ->
               fails i (cnt (nodes st i)) = true /\ 1 <= i <= n;
    I_result : stat (nodes st (S n)) = Done -> result st = Some (sinkacc st);
    I_noresult : stat (nodes st (S n)) = Running -> result st = None
  }.

  Lemma inv_init : Inv init.
  Proof.
    constructor; simpl; intros; auto; try discriminate.
    - unfold bounded; simpl; lia.
  Qed.

  Lemma errs_app_keep : forall (es : list err) e,
    first_is_failure es -> first_is_failure (es ++ [e]).
  Proof.
    intros es e (i & k & rest & -> & Hf & Hr). exists i, k, (rest ++ [e]). simpl. auto.
  Qed.

  Ltac use_at HI x :=
    pose proof (I_chan _ HI x); pose proof (I_bound _ HI x); pose proof (I_done _ HI x);
    pose proof (I_stop _ HI x); pose proof (I_failed _ HI x).

  Ltac fin :=
    unfold sent, recv, bounded, closedP, stop_node in *; simpl in *; rwph; simpl in *;
    try solve [intuition (try lia; try congruence; try discriminate)].

  (* goals of the form  forall j, P (nodes' j)  where nodes' is one or two updates of nodes st *)
  Ltac per_node HI :=
    let j := fresh "j" in
    intros j; use_at HI j;
    updc; subst; fin.

  Ltac globals HI :=
    pose proof (I_src _ HI); pose proof (I_sinkph _ HI); pose proof (I_sinkacc _ HI);
    pose proof (I_err _ HI); pose proof (I_result _ HI); pose proof (I_noresult _ HI).

  Lemma step_inv_fetch : forall st st', Inv st -> step Fetch st = Some st' -> Inv st'.
  Proof.
    intros st st' HI Hs. simpl in Hs.
    match type of Hs with (if ?c then _ else _) = _ => destruct c eqn:Hc; [|discriminate] end;
    bfacts.
    injection Hs as <-. globals HI. use_at HI 0; use_at HI 1.
    constructor; simpl; try assumption; try (per_node HI); try solve [updc; subst; fin].
  Qed.

  Lemma step_inv_hand : forall i st st', Inv st -> step (Hand i) st = Some st' -> Inv st'.
  Proof.
    intros i st st' HI Hs. simpl in Hs.
    match type of Hs with (if ?c then _ else _) = _ => destruct c eqn:Hc; [|discriminate] end;
    bfacts.
    globals HI. use_at HI i; use_at HI (S i).
    destruct (cancelled st) eqn:Hcan; injection Hs as <-;
      constructor; simpl; try assumption; try (per_node HI); try solve [updc; subst; fin].
    - right. split; [assumption|]. apply errs_app_keep. destruct H7 as [[? _]|[_ ?]]; [discriminate|assumption].
  Qed.

  Lemma step_inv_begin : forall i st st', Inv st -> step (Begin i) st = Some st' -> Inv st'.
  Proof.
    intros i st st' HI Hs. simpl in Hs.
    match type of Hs with (if ?c then _ else _) = _ => destruct c eqn:Hc; [|discriminate] end;
    bfacts.
    globals HI. use_at HI i.
    destruct (i <=? n) eqn:Hin; injection Hs as <-;
      constructor; simpl; try assumption; try (per_node HI); try solve [updc; subst; fin].
  Qed.

  Lemma step_inv_end : forall i st st', Inv st -> step (End i) st = Some st' -> Inv st'.
  Proof.
    intros i st st' HI Hs. simpl in Hs.
    match type of Hs with (if ?c then _ else _) = _ => destruct c eqn:Hc; [|discriminate] end;
    bfacts.
    globals HI. use_at HI i.
    destruct (i <=? n) eqn:Hin; bfacts; [destruct (fails i (cnt (nodes st i))) eqn:Hf|]; injection Hs as <-;
      constructor; simpl; try assumption; try (per_node HI); try solve [updc; subst; fin].
    - assert (i = S n) by lia. subst i. updc; [|congruence].
      cbn [cnt]. match goal with H : sinkacc st = _ |- _ => rewrite H end.
      symmetry. apply (seq_S (cnt (nodes st (S n))) 0).
  Qed.

  Lemma step_inv_report : forall i st st', Inv st -> step (Report i) st = Some st' -> Inv st'.
  Proof.
    intros i st st' HI Hs. simpl in Hs.
    match type of Hs with (if ?c then _ else _) = _ => destruct c eqn:Hc; [|discriminate] end;
    bfacts.
    globals HI. use_at HI i.
    injection Hs as <-;
      constructor; simpl; try assumption; try (per_node HI); try solve [updc; subst; fin].
    match goal with H : _ \/ (_ /\ first_is_failure _) |- _ => destruct H as [[? He]|[? ?]] end.
    - right. split; [reflexivity|]. rewrite He. simpl.
      exists i, (cnt (nodes st i)), []. fin.
    - right. split; [reflexivity|]. apply errs_app_keep; assumption.
  Qed.

  Lemma step_inv_close : forall i st st', Inv st -> step (CloseCh i) st = Some st' -> Inv st'.
  Proof.
    intros i st st' HI Hs. simpl in Hs.
    match type of Hs with (if ?c then _ else _) = _ => destruct c eqn:Hc; [|discriminate] end;
    bfacts.
    globals HI. use_at HI i. use_at HI (pred i).
    destruct (i =? 0) eqn:Hi0; destruct (cancelled st) eqn:Hcan; simpl in Hs;
    destruct (i =? S n) eqn:HiS; injection Hs as <-;
      constructor; simpl; try assumption; try (per_node HI); try solve [updc; subst; fin].
    all: match goal with H : _ \/ (_ /\ first_is_failure _) |- _ => destruct H as [[? ?]|[? ?]] end;
      [try discriminate; try congruence
      | right; split; [first [assumption | reflexivity | congruence] | apply errs_app_keep; assumption]].
  Qed.

  Lemma step_inv_observe : forall i st st', Inv st -> step (ObserveCancel i) st = Some st' -> Inv st'.
  Proof.
    intros i st st' HI Hs. simpl in Hs.
    match type of Hs with (if ?c then _ else _) = _ => destruct c eqn:Hc; [|discriminate] end;
    bfacts;
    globals HI; use_at HI i;
    injection Hs as <-;
      constructor; simpl; try assumption; try (per_node HI); try solve [updc; subst; fin].
    all: match goal with H : _ \/ (_ /\ first_is_failure _) |- _ => destruct H as [[? ?]|[? ?]] end;
      [try discriminate; try congruence
      | right; split; [first [assumption | reflexivity | congruence] | apply errs_app_keep; assumption]].
  Qed.

  Lemma step_inv : forall l st st', Inv st -> step l st = Some st' -> Inv st'.
  Proof.
    intros l st st' HI Hs. destruct l.
    - eapply step_inv_fetch; eassumption.
    - eapply step_inv_hand; eassumption.
    - eapply step_inv_begin; eassumption.
    - eapply step_inv_end; eassumption.
    - eapply step_inv_report; eassumption.
    - eapply step_inv_close; eassumption.
    - eapply step_inv_observe; eassumption.
  Qed.

  Lemma step_or_stay_inv : forall st l, Inv st -> Inv (step_or_stay st l).
  Proof.
    intros st l HI. unfold Pipe.step_or_stay. destruct (step l st) eqn:E; [|assumption].
    eapply step_inv; eassumption.
  Qed.

  Lemma run_inv : forall sched st, Inv st -> Inv (run sched st).
  Proof.
    induction sched as [|l rest IH]; intros st HI; simpl; [assumption|].
    apply IH. apply step_or_stay_inv. assumption.
  Qed.

  Lemma reachable_inv : forall sched, Inv (run sched init).
  Proof. intros. apply run_inv. apply inv_init. Qed.

End SeqProofs.
