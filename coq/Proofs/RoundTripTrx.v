(* C08 round trip, part 5: CONSTRUCTION for transactions: the @accrue and @performance lines
   (in the formatter's order), the description line, the posting lines; and [directive_cons]:
   the context lemma for every directive kind.                                              *)
From Coq Require Import ZArith List Bool Lia ZifyBool.
From Knut Require Import Model.Bytes Model.Utf8 Model.Scanner Model.Parser Model.SynPrinter Spec.SyntaxSpec
  Proofs.ScannerProofs Proofs.ParserProofs Spec.FormatSpec Model.SynRender
  Proofs.RoundTripBase Proofs.RoundTripLeaf Proofs.RoundTripInv Proofs.RoundTripCons.
Import ListNotations.
Open Scope bool_scope.
Open Scope Z_scope.

Lemma bind_eq {A B} (m : M A) (f : A -> M B) s a s1 : m s = Ok a s1 -> bind m f s = f a s1.
Proof. intros H. unfold bind. now rewrite H. Qed.

Lemma some_inj {A} (a b : A) : Some a = Some b -> a = b.
Proof. congruence. Qed.

Lemma replace_err_ok {A} (m : M A) s a s' : m s = Ok a s' -> replace_err m s = Ok a s'.
Proof. intros H. unfold replace_err. now rewrite H. Qed.

Lemma join_cons sep c cs : join sep (c :: cs) = c ++ concat (map (fun x => sep ++ x) cs).
Proof.
  revert c. induction cs as [|c2 cs IH]; intros c.
  - cbn [join map concat]. now rewrite app_nil_r.
  - change (join sep (c :: c2 :: cs)) with (c ++ sep ++ join sep (c2 :: cs)).
    rewrite IH. cbn [map concat]. now rewrite <- app_assoc.
Qed.

Section WithEnv.
Variable E : env.
Hypothesis Hlen : e_len E = Z.of_nat (length (e_text E)).
Hypothesis Hfuel : (length (e_text E) < e_fuel E)%nat.
Hypothesis Hdec : decoder_ok (e_decode E).
Hypothesis Hloc : decoder_local (e_decode E).
Hypothesis Hcls : class_ok (e_letter E) (e_digit E).

Notation t := (e_text E).
Notation dec := (e_decode E).
Notation letter := (e_letter E).
Notation digit := (e_digit E).
Notation fr := (fr dec).
Notation cls := (cls dec).
Notation At := (At E).
Notation stops := (stops dec).
Notation sepr := (sepr dec).
Notation wsl := (wsl dec).
Notation alnum := (alnum letter digit).
Notation lex_commodity := (lex_commodity dec letter digit).
Notation lex_decimal := (lex_decimal dec digit).
Notation lex_date := (lex_date dec digit).
Notation lex_quoted := (lex_quoted dec).
Notation LexAcc := (LexAcc dec letter digit).
Notation LexBooking := (LexBooking dec letter digit).
Notation LexAccrual := (LexAccrual dec letter digit).
Notation LexDir := (LexDir dec letter digit).
Notation date_ok := (date_ok dec digit).
Notation blankstart := (blankstart E).
Notation tokstart := (tokstart E).

Local Notation At_cur := (RoundTripBase.At_cur E Hlen Hfuel Hdec Hloc).
Local Notation At_off := (RoundTripBase.At_off E Hlen Hfuel Hdec Hloc).
Local Notation At_slice := (RoundTripBase.At_slice E Hlen Hfuel Hdec Hloc).
Local Notation rw_cons := (RoundTripBase.read_while_cons E Hlen Hfuel Hdec Hloc).
Local Notation rc_cons := (RoundTripBase.read_character_cons E Hlen Hfuel Hdec Hloc).
Local Notation ra_cons := (RoundTripBase.read_alternative_cons E Hlen Hfuel Hdec Hloc).
Local Notation rest_nl_cons := (RoundTripLeaf.rest_nl_cons E Hlen Hfuel Hdec Hloc).
Local Notation date_cons := (RoundTripLeaf.date_cons E Hlen Hfuel Hdec Hloc).
Local Notation quoted_cons := (RoundTripLeaf.quoted_cons E Hlen Hfuel Hdec Hloc).
Local Notation interval_cons := (RoundTripLeaf.interval_cons E Hlen Hfuel Hdec Hloc).
Local Notation stops_ws_not := (RoundTripLeaf.stops_ws_not E Hlen Hfuel Hdec Hloc).
Local Notation posting_cons := (RoundTripCons.posting_cons E Hlen Hfuel Hdec Hloc Hcls).
Local Notation sp_cons := (RoundTripCons.sp_cons E Hlen Hfuel Hdec Hloc Hcls).
Local Notation acc_sep := (RoundTripCons.acc_sep E Hlen Hfuel Hdec Hloc Hcls).
Local Notation comm_sep := (RoundTripCons.comm_sep E Hlen Hfuel Hdec Hloc Hcls).
Local Notation sepr_10 := (RoundTripCons.sepr_10 E Hlen Hfuel Hdec Hloc Hcls).
Local Notation tokstart_ascii := (RoundTripCons.tokstart_ascii E Hlen Hfuel Hdec Hloc Hcls).
Local Notation tokstart_stops_ws := (RoundTripCons.tokstart_stops_ws E Hlen Hfuel Hdec Hloc Hcls).
Local Notation account_start := (RoundTripCons.account_start E Hlen Hfuel Hdec Hloc Hcls).
Local Notation commodity_start := (RoundTripCons.commodity_start E Hlen Hfuel Hdec Hloc Hcls).
Local Notation date_start_facts := (RoundTripCons.date_start_facts E Hlen Hfuel Hdec Hloc Hcls).
Local Notation tokstart_alnum := (RoundTripCons.tokstart_alnum E Hlen Hfuel Hdec Hloc Hcls).
Local Notation blankstart_sepr := (RoundTripCons.blankstart_sepr E Hlen Hfuel Hdec Hloc Hcls).

Ltac runeq H := etransitivity; [apply (bind_eq _ _ _ _ _ H)|cbv beta].

(* ------------------------------------------------------------------ posting lines *)

Lemma bookings_loop_cons pad : forall bs n s r,
  At s (concat (map (fun b => render_posting dec pad b ++ s_nl) bs) ++ r) -> bs <> [] -> Forall LexBooking bs ->
  blankstart r -> (length (concat (map (fun b => render_posting dec pad b ++ s_nl) bs)) < n)%nat ->
  exists bs' s', bookings_loop E n s = Ok bs' s' /\ At s' r /\ map (sem_of_booking t) bs' = bs.
Proof using All.
  induction bs as [|b bs IH]; intros n s r HA Hne Hl Hr Hn; [congruence|].
  destruct n as [|n]; [lia|]. cbn [bookings_loop]. cbn [map concat] in HA, Hn.
  inversion Hl as [|? ? Hb Hl']. subst.
  assert (HA1 : At s (render_posting dec pad b ++ 10 :: concat (map (fun b => render_posting dec pad b ++ s_nl) bs) ++ r)).
  { unfold s_nl in HA at 1. rewrite <- !app_assoc in HA. exact HA. }
  destruct (posting_cons pad b _ s HA1 Hb) as (b' & s1 & H1 & A1 & S1). { apply sepr_10. }
  destruct (rest_nl_cons [] s1 _ A1) as (rg & s2 & H2 & A2). { constructor. }
  destruct bs as [|b2 bs].
  - cbn [map concat app] in *. exists [b'], s2. split; [|split; [exact A2|cbn [map]; now rewrite S1]].
    run H1. run H2. apply ifM_true; [|reflexivity]. rewrite (At_cur s2 _ A2). exact Hr.
  - destruct (IH n s2 r A2) as (bs' & s3 & H3 & A3 & S3); try assumption; [discriminate| |].
    { rewrite !app_length in Hn. change (length s_nl) with 1%nat in Hn. lia. }
    exists (b' :: bs'), s3. split; [|split; [exact A3|cbn [map]; now rewrite S1, S3]].
    run H1. run H2. apply ifM_false.
    { rewrite (At_cur s2 _ A2). cbn [map concat]. inversion Hl' as [|? ? (Ha2 & _) _]. subst.
      unfold render_posting, pad_right. rewrite <- !app_assoc. eapply account_start; eauto. }
    run H3. reflexivity.
Qed.

(* ------------------------------------------------------------------ @performance(...) *)

Lemma sepr_44 r : sepr (44 :: r).
Proof using All. apply sepr_cons; [assumption|unfold seps; cbn [In]; lia]. Qed.

Lemma sepr_41 r : sepr (41 :: r).
Proof using All. apply sepr_cons; [assumption|unfold seps; cbn [In]; lia]. Qed.

Lemma stops_ws_ascii b r : 0 <= b < 128 -> ~ In b [32; 9; 13] -> stops is_whitespace (b :: r).
Proof using All. intros Hb Hn. apply stops_ws_not. now rewrite (fr_ascii dec Hdec b r Hb). Qed.

Lemma At_unique s s' r : At s r -> At s' r -> s = s'.
Proof using All.
  intros H1 H2. pose proof (RoundTripBase.At_len E Hlen Hfuel Hdec Hloc s r H1) as L1.
  pose proof (RoundTripBase.At_len E Hlen Hfuel Hdec Hloc s' r H2) as L2.
  pose proof (At_cur s r H1) as C1. pose proof (At_cur s' r H2) as C2.
  destruct H1 as ((_ & _ & D1) & R1 & _). destruct H2 as ((_ & _ & D2) & R2 & _).
  destruct s as [o c w rs], s' as [o' c' w' rs']. cbn [off cur clen rest] in *. subst rs rs'.
  assert (o = o') by lia. subst o'. assert (c = c') by congruence. subst c'.
  assert (Hw : w = w').
  { destruct D1 as [(_ & W1 & O1)|(O1 & E1)]; destruct D2 as [(_ & W2 & O2)|(O2 & E2)]; try lia.
    rewrite <- E1 in E2. now inversion E2. }
  subst w'. now rewrite C1.
Qed.

Lemma rw_ws_nil s r : At s r -> stops is_whitespace r ->
  read_while E is_whitespace s = Ok (mkRange (off s) (off s)) s.
Proof using All.
  intros HA Hst. destruct (rw_cons is_whitespace [] s r HA (cls_nil) Hst) as (s' & H & A').
  rewrite <- (At_unique s s' r HA A') in H. exact H.
Qed.

(* the rest of the list: ,c,c...  up to the closing parenthesis *)
Lemma perf_loop_cons : forall cs n s r, Forall lex_commodity cs ->
  At s (concat (map (fun x => s_comma ++ x) cs) ++ 41 :: r) ->
  (length (concat (map (fun x => s_comma ++ x) cs)) < n)%nat ->
  exists rs s', performance_loop E n s = Ok rs s' /\ At s' (41 :: r) /\ map (cut t) rs = cs.
Proof using All.
  induction cs as [|c cs IH]; intros n s r Hl HA Hn.
  - destruct n as [|n]; [cbn [length] in Hn; lia|]. cbn [map concat app performance_loop] in *.
    exists [], s. split; [|split; [exact HA|reflexivity]].
    apply ifM_false; [|reflexivity]. unfold cur_is. rewrite (At_cur s _ HA), (fr_ascii dec Hdec 41 r) by lia. reflexivity.
  - destruct n as [|n]; [lia|]. cbn [performance_loop]. cbn [map concat] in HA, Hn.
    inversion Hl as [|? ? Hc Hl']. subst. unfold s_comma in HA at 1. rewrite <- !app_assoc in HA. cbn [app] in HA.
    destruct (rc_cons 44 s _ HA) as (s1 & H1 & A1). { lia. }
    pose proof (rw_ws_nil s1 _ A1 (tokstart_stops_ws _ (commodity_start c _ Hc))) as H2.
    assert (Hsep : sepr (concat (map (fun x => s_comma ++ x) cs) ++ 41 :: r)).
    { destruct cs as [|c2 cs]; cbn [map concat app]; [apply sepr_41|]. unfold s_comma. cbn [app]. apply sepr_44. }
    destruct (comm_sep c _ s1 A1 Hc Hsep) as (s3 & H3 & A3).
    assert (H4 : read_while E is_whitespace s3 = Ok (mkRange (off s3) (off s3)) s3).
    { apply (rw_ws_nil s3 _ A3). destruct cs as [|c2 cs]; cbn [map concat app].
      - apply stops_ws_ascii; [lia|cbn [In]; lia].
      - unfold s_comma. cbn [app]. apply stops_ws_ascii; [lia|cbn [In]; lia]. }
    destruct (IH n s3 r Hl' A3) as (rs & s5 & H5 & A5 & S5).
    { rewrite !app_length in Hn. change (length s_comma) with 1%nat in Hn. lia. }
    exists (mkRange (off s1) (off s3) :: rs), s5. split; [|split; [exact A5|]].
    + apply ifM_true. { unfold cur_is. rewrite (At_cur s _ HA), (fr_ascii dec Hdec 44 _) by lia. reflexivity. }
      run H1. run H2. run H3. run H4. run H5. reflexivity.
    + cbn [map]. rewrite S5. unfold cut at 1. prj. now rewrite (At_slice s1 c _ s3 A1 A3).
Qed.

Lemma performance_cons ts r s :
  At s (40 :: join s_comma ts ++ 41 :: r) -> Forall lex_commodity ts ->
  exists p s', parse_performance E s = Ok p s' /\ At s' r /\ pf_range p = mkRange (off s) (off s') /\
               map (cut t) (pf_targets p) = ts.
Proof using All.
  intros HA Hl.
  destruct (rc_cons 40 s _ HA) as (s1 & H1 & A1). { lia. }
  destruct ts as [|c cs].
  - cbn [join app] in A1.
    pose proof (rw_ws_nil s1 _ A1 (stops_ws_ascii 41 r ltac:(lia) ltac:(cbn [In]; lia))) as H2.
    destruct (perf_loop_cons [] (loop_fuel E) s1 r Hl A1) as (rs & s4 & H4 & A4 & S4).
    { cbn [map concat length]. unfold loop_fuel. lia. }
    destruct (rc_cons 41 s4 r A4) as (s5 & H5 & A5). { lia. }
    eexists _, s5. split; [|split; [exact A5|split]].
    + unfold parse_performance. cbv zeta. apply annot_ok. run H1. run H2.
      eapply bind_ok. { apply ifM_false; [|reflexivity]. rewrite (At_cur s1 _ A1), (fr_ascii dec Hdec 41 r) by lia. reflexivity. }
      cbv beta. run H4. run H5. reflexivity.
    + reflexivity.
    + prj. cbn [app]. exact S4.
  - rewrite join_cons, <- app_assoc in A1. inversion Hl as [|? ? Hc Hl']. subst.
    pose proof (rw_ws_nil s1 _ A1 (tokstart_stops_ws _ (commodity_start c _ Hc))) as H2.
    assert (Hsep : sepr (concat (map (fun x => s_comma ++ x) cs) ++ 41 :: r)).
    { destruct cs as [|c2 cs]; cbn [map concat app]; [apply sepr_41|]. unfold s_comma. cbn [app]. apply sepr_44. }
    destruct (comm_sep c _ s1 A1 Hc Hsep) as (s3 & H3 & A3).
    assert (H3' : read_while E is_whitespace s3 = Ok (mkRange (off s3) (off s3)) s3).
    { apply (rw_ws_nil s3 _ A3). destruct cs as [|c2 cs]; cbn [map concat app].
      - apply stops_ws_ascii; [lia|cbn [In]; lia].
      - unfold s_comma. cbn [app]. apply stops_ws_ascii; [lia|cbn [In]; lia]. }
    destruct (perf_loop_cons cs (loop_fuel E) s3 r Hl' A3) as (rs & s4 & H4 & A4 & S4).
    { pose proof (fuel_rest E Hlen Hfuel Hdec Hloc s3 (At_inv E _ _ A3)) as Hf. destruct A3 as (_ & Hr3 & _).
      rewrite Hr3, app_length in Hf. unfold loop_fuel. lia. }
    destruct (rc_cons 41 s4 r A4) as (s5 & H5 & A5). { lia. }
    eexists _, s5. split; [|split; [exact A5|split]].
    + unfold parse_performance. cbv zeta. apply annot_ok. run H1. run H2.
      eapply bind_ok.
      { apply ifM_true.
        - rewrite (At_cur s1 _ A1). destruct Hc as (Hc1 & Hc2).
          destruct (cls_first dec Hdec _ c (concat (map (fun x => s_comma ++ x) cs) ++ 41 :: r) Hc1 Hc2) as (_ & Ha).
          pose proof (alnum_not_sep letter digit Hcls _ Ha) as Hn. cbn [In] in Hn.
          apply negb_true_iff, Z.eqb_neq. lia.
        - run H3. run H3'. reflexivity. }
      cbv beta. run H4. run H5. reflexivity.
    + reflexivity.
    + prj. cbn [app map]. rewrite S4. unfold cut at 1. prj. now rewrite (At_slice s1 c _ s3 A1 A3).
Qed.

(* ------------------------------------------------------------------ @accrue ... *)

Definition accr_text (a : sem_accrual) : str :=
  sa_interval a ++ s_sp ++ sa_start a ++ s_sp ++ sa_end a ++ s_sp ++ fst (sa_account a).

Lemma interval_start w r : lex_interval w -> tokstart (w ++ r).
Proof using All.
  unfold lex_interval. cbn [In]. intros [<-|[<-|[<-|[<-|[]]]]]; apply tokstart_ascii; try lia; cbn [In]; lia.
Qed.

Lemma date_tokstart w r : lex_date w -> tokstart (w ++ r).
Proof using All.
  intros Hl. destruct (lex_date_first dec digit Hdec w r Hl) as (Hf & Hd & Hne).
  unfold RoundTripCons.tokstart. rewrite Hf. apply tokstart_alnum; [|assumption]. unfold RoundTripLeaf.alnum. rewrite Hd. apply orb_true_r.
Qed.

Lemma accrual_cons a r s : At s (32 :: accr_text a ++ r) -> LexAccrual a -> sepr r ->
  exists acr s', parse_accrual E s = Ok acr s' /\ At s' r /\ ac_range acr = mkRange (off s) (off s') /\
                 sem_accrual_of t acr = a.
Proof using All.
  intros HA (Hiv & Hst & Hen & Hacc) Hr.
  unfold accr_text, s_sp in HA. rewrite <- !app_assoc in HA. cbn [app] in HA.
  destruct (sp_cons _ s HA) as (s1 & H1 & A1). { now apply interval_start. }
  destruct (interval_cons _ s1 _ A1 Hiv) as (s2 & H2 & A2).
  destruct (sp_cons _ s2 A2) as (s3 & H3 & A3). { now apply date_tokstart. }
  destruct (date_cons _ s3 _ A3 Hst) as (s4 & H4 & A4).
  destruct (sp_cons _ s4 A4) as (s5 & H5 & A5). { now apply date_tokstart. }
  destruct (date_cons _ s5 _ A5 Hen) as (s6 & H6 & A6).
  destruct (sp_cons _ s6 A6) as (s7 & H7 & A7). { eapply account_start; eauto. }
  destruct (acc_sep _ r s7 A7 Hacc Hr) as (s8 & H8 & A8).
  eexists _, s8. split; [|split; [exact A8|split]].
  - unfold parse_accrual. cbv zeta. apply annot_ok.
    run H1. run H2. run H3. run H4. run H5. run H6. run H7. run H8. reflexivity.
  - reflexivity.
  - unfold sem_accrual_of, sem_acc, cut. prj.
    rewrite (At_slice s1 _ _ s2 A1 A2), (At_slice s3 _ _ s4 A3 A4), (At_slice s5 _ _ s6 A5 A6), (At_slice s7 _ _ s8 A7 A8).
    destruct a as [iv st en [a1 a2]]. reflexivity.
Qed.

(* ------------------------------------------------------------------ the addon lines *)

Definition addon_kws : list (list Z) := [kw_performance; kw_accrue].

Lemma addon_kws_ascii : Forall (Forall ascii) addon_kws.
Proof using All. repeat constructor; unfold ascii; lia. Qed.

Definition perf_line (ts : list str) : str := s_perf_open ++ join s_comma ts ++ s_perf_close ++ s_nl.
Definition accr_line (a : sem_accrual) : str := s_accrue ++ accr_text a ++ s_nl.

Definition sem_perf (p : performance) : option (list str) :=
  if range_empty (pf_range p) then None else Some (map (cut t) (pf_targets p)).
Definition sem_accr (a : accrual) : option sem_accrual :=
  if range_empty (ac_range a) then None else Some (sem_accrual_of t a).

Lemma extend_nonempty a b c : a < b -> b <= c -> range_empty (extend (mkRange b c) (mkRange a b)) = false.
Proof using All.
  intros Hab Hbc. rewrite (extend_kw E Hlen Hfuel Hdec a b c) by lia. unfold range_empty. prj. lia.
Qed.

(* one iteration of the loop of parseAddons on an @accrue line *)
Lemma addons_step_accr sc ad a r s : At s (accr_line a ++ r) -> LexAccrual a ->
  range_empty (ac_range (ad_accrual ad)) = true ->
  exists acr s1, At s1 r /\ sem_accr acr = Some a /\ off s < off s1 /\
    forall n, addons_loop E sc (S n) ad s =
      ifM (fun s => negb (cur s =? 64))
          (ret_with sc (fun rg => mkAddons rg (ad_perf ad) acr))
          (addons_loop E sc n (mkAddons (ad_range ad) (ad_perf ad) acr)) s1.
Proof using All.
  intros HA Hl Hemp. unfold accr_line in HA. change s_accrue with (kw_accrue ++ [32]) in HA.
  unfold s_nl in HA. rewrite <- !app_assoc in HA. cbn [app] in HA.
  destruct (ra_cons [kw_performance] kw_accrue [] s (32 :: accr_text a ++ 10 :: r)) as (s1 & H1 & A1).
  { apply addon_kws_ascii. } { exact HA. } { discriminate. }
  { repeat constructor. intros r' H. discriminate H. }
  assert (HA1 : At s1 (32 :: accr_text a ++ 10 :: r)) by exact A1.
  destruct (accrual_cons a _ s1 HA1 Hl) as (acr & s2 & H2 & A2 & Hrg & Hsem). { apply sepr_10. }
  destruct (rest_nl_cons [] s2 r A2) as (rg & s3 & H3 & A3). { constructor. }
  pose proof (At_off s _ _ s1 HA A1) as O1.
  change (32 :: accr_text a ++ 10 :: r) with ((32 :: accr_text a) ++ 10 :: r) in A1.
  pose proof (At_off s1 _ _ s2 A1 A2) as O2. change (10 :: r) with ([10] ++ r) in A2.
  pose proof (At_off s2 _ _ s3 A2 A3) as O3.
  assert (Z1 : zlen kw_accrue = 7) by reflexivity. pose proof (zlen_nonneg (32 :: accr_text a)) as Z2.
  eexists _, s3. split; [exact A3|]. split; [|split; [rewrite zlen_cons, zlen_nil in O3; lia|]].
  2:{ intros n. cbn [addons_loop]. runeq H1.
      etransitivity; [eapply bind_eq|cbv beta].
      { cbv zeta. unfold extract. prj. rewrite (At_slice s _ _ s1 HA HA1).
        change (str_eqb kw_accrue kw_performance) with false. change (str_eqb kw_accrue kw_accrue) with true. cbv iota.
        rewrite Hemp. cbn [negb]. run H2. reflexivity. }
      etransitivity; [eapply bind_eq; apply replace_err_ok; exact H3|cbv beta]. prj. reflexivity. }
  unfold sem_accr. prj. rewrite Hrg, extend_nonempty by lia. f_equal.
  rewrite <- Hsem. unfold sem_accrual_of. prj. reflexivity.
Qed.

Lemma addons_step_perf sc ad ts r s : At s (perf_line ts ++ r) -> Forall lex_commodity ts ->
  range_empty (pf_range (ad_perf ad)) = true ->
  exists p s1, At s1 r /\ sem_perf p = Some ts /\ off s < off s1 /\
    forall n, addons_loop E sc (S n) ad s =
      ifM (fun s => negb (cur s =? 64))
          (ret_with sc (fun rg => mkAddons rg p (ad_accrual ad)))
          (addons_loop E sc n (mkAddons (ad_range ad) p (ad_accrual ad))) s1.
Proof using All.
  intros HA Hl Hemp. unfold perf_line in HA. change s_perf_open with (kw_performance ++ [40]) in HA.
  unfold s_nl, s_perf_close in HA. rewrite <- !app_assoc in HA. cbn [app] in HA.
  destruct (ra_cons [] kw_performance [kw_accrue] s (40 :: join s_comma ts ++ 41 :: 10 :: r)) as (s1 & H1 & A1).
  { apply addon_kws_ascii. } { exact HA. } { discriminate. } { constructor. }
  destruct (performance_cons ts _ s1 A1 Hl) as (p & s2 & H2 & A2 & Hrg & Hsem).
  destruct (rest_nl_cons [] s2 r A2) as (rg & s3 & H3 & A3). { constructor. }
  pose proof (At_off s _ _ s1 HA A1) as O1.
  assert (A1'' : At s1 ((40 :: join s_comma ts ++ [41]) ++ 10 :: r)).
  { cbn [app]. rewrite <- app_assoc. exact A1. }
  pose proof (At_off s1 _ _ s2 A1'' A2) as O2. change (10 :: r) with ([10] ++ r) in A2.
  pose proof (At_off s2 _ _ s3 A2 A3) as O3.
  assert (Z1 : zlen kw_performance = 12) by reflexivity. pose proof (zlen_nonneg (40 :: join s_comma ts ++ [41])) as Z2.
  eexists _, s3. split; [exact A3|]. split; [|split; [rewrite zlen_cons, zlen_nil in O3; lia|]].
  2:{ intros n. cbn [addons_loop]. runeq H1.
      etransitivity; [eapply bind_eq|cbv beta].
      { cbv zeta. unfold extract. prj. rewrite (At_slice s _ _ s1 HA A1).
        change (str_eqb kw_performance kw_performance) with true. cbv iota.
        rewrite Hemp. cbn [negb]. run H2. reflexivity. }
      etransitivity; [eapply bind_eq; apply replace_err_ok; exact H3|cbv beta]. prj. reflexivity. }
  unfold sem_perf. prj. rewrite Hrg, extend_nonempty by lia. f_equal. exact Hsem.
Qed.

Definition addon_text (perf : option (list str)) (accr : option sem_accrual) : str :=
  match accr with Some a => accr_line a | None => [] end ++
  match perf with Some ts => perf_line ts | None => [] end.

Lemma fuel_two s a b r : At s (a :: b :: r) -> exists n, loop_fuel E = S (S n).
Proof using All.
  intros HA. pose proof (fuel_rest E Hlen Hfuel Hdec Hloc s (At_inv E _ _ HA)) as Hf.
  destruct HA as (_ & Hr & _). rewrite Hr in Hf. cbn [length] in Hf. unfold loop_fuel.
  destruct (e_fuel E) as [|[|n]]; try lia. eauto.
Qed.

Lemma addons_cons perf accr r s : At s (addon_text perf accr ++ r) ->
  (perf <> None \/ accr <> None) ->
  match perf with Some ts => Forall lex_commodity ts | None => True end ->
  match accr with Some a => LexAccrual a | None => True end ->
  fr r <> 64 ->
  exists ad s', parse_addons E s = Ok ad s' /\ At s' r /\ off s < off s' /\
                sem_perf (ad_perf ad) = perf /\ sem_accr (ad_accrual ad) = accr.
Proof using All.
  intros HA Hsome Hp Ha H64. unfold parse_addons. cbv zeta.
  set (sc := new_scope DAddons s).
  assert (Hf : exists n, loop_fuel E = S (S n)).
  { destruct accr as [a|]; [|destruct perf as [ts|]; [|tauto]].
    - unfold addon_text, accr_line in HA. change s_accrue with (64 :: 97 :: (skipn 2 kw_accrue ++ [32])) in HA.
      rewrite <- !app_assoc in HA. cbn [app] in HA. eapply fuel_two; eauto.
    - unfold addon_text, perf_line in HA. change s_perf_open with (64 :: 112 :: (skipn 2 kw_performance ++ [40])) in HA.
      cbn [app] in HA. rewrite <- !app_assoc in HA. cbn [app] in HA. eapply fuel_two; eauto. }
  destruct Hf as (n & Hf). rewrite Hf.
  assert (Hnot64 : forall s1, At s1 r -> negb (cur s1 =? 64) = true).
  { intros s1 A1. rewrite (At_cur s1 _ A1). apply negb_true_iff. now apply Z.eqb_neq. }
  destruct accr as [a|]; [destruct perf as [ts|]|destruct perf as [ts|]; [|tauto]]; unfold addon_text in HA.
  - (* both *)
    rewrite <- app_assoc in HA.
    destruct (addons_step_accr sc zero_addons a _ s HA Ha eq_refl) as (acr & s1 & A1 & S1 & L1 & Heq1).
    destruct (addons_step_perf sc (mkAddons (ad_range zero_addons) (ad_perf zero_addons) acr) ts r s1 A1 Hp eq_refl)
      as (p & s2 & A2 & S2 & L2 & Heq2).
    eexists _, s2. split; [|split; [exact A2|split; [lia|]]].
    + apply annot_ok. rewrite Heq1. apply ifM_false.
      { rewrite (At_cur s1 _ A1). unfold perf_line, s_perf_open. cbn [app]. rewrite (fr_ascii dec Hdec 64 _) by lia. reflexivity. }
      rewrite Heq2. apply ifM_true; [now apply Hnot64|]. reflexivity.
    + prj. auto.
  - (* accrual only *)
    rewrite app_nil_r in HA.
    destruct (addons_step_accr sc zero_addons a _ s HA Ha eq_refl) as (acr & s1 & A1 & S1 & L1 & Heq1).
    eexists _, s1. split; [|split; [exact A1|split; [lia|]]].
    + apply annot_ok. rewrite Heq1. apply ifM_true; [now apply Hnot64|]. reflexivity.
    + prj. split; [reflexivity|exact S1].
  - (* performance only *)
    cbn [app] in HA.
    destruct (addons_step_perf sc zero_addons ts r s HA Hp eq_refl) as (p & s1 & A1 & S1 & L1 & Heq1).
    eexists _, s1. split; [|split; [exact A1|split; [lia|]]].
    + apply annot_ok. rewrite Heq1. apply ifM_true; [now apply Hnot64|]. reflexivity.
    + prj. split; [exact S1|reflexivity].
Qed.

(* ------------------------------------------------------------------ the transaction *)

Definition trx_body (pad : Z) (date desc : str) (bs : list sem_booking) : str :=
  date ++ s_sp ++ s_quote ++ desc ++ s_quote ++ s_nl ++
  concat (map (fun b => render_posting dec pad b ++ s_nl) bs).

Lemma trx_body_cons pad date desc bs r s :
  At s (trx_body pad date desc bs ++ r) -> date_ok date -> lex_quoted desc -> bs <> [] -> Forall LexBooking bs ->
  blankstart r ->
  exists s2 s3 q bs' s4,
    parse_date E s = Ok (mkRange (off s) (off s2)) s2 /\
    read_whitespace1 E s2 = Ok (mkRange (off s2) (off s3)) s3 /\
    cur_is 34 s3 = true /\
    (forall sc ad, parse_transaction E sc (mkRange (off s) (off s2)) ad s3 =
                   Ok (mkTrx (mkRange (sc_start sc) (off s4)) (mkRange (off s) (off s2)) q bs' ad) s4) /\
    At s4 r /\ off s < off s4 /\
    slice t (off s) (off s2) = date /\ cut t (qs_content q) = desc /\ map (sem_of_booking t) bs' = bs.
Proof using All.
  intros HA Hd Hq Hne Hl Hr. unfold trx_body, s_sp, s_quote, s_nl in HA. rewrite <- !app_assoc in HA. cbn [app] in HA.
  destruct (date_cons date s _ HA (proj1 Hd)) as (s2 & H2 & A2).
  destruct (sp_cons _ s2 A2) as (s3 & H3 & A3). { apply tokstart_ascii; [lia|cbn [In]; lia]. }
  destruct (quoted_cons desc s3 _ A3 Hq) as (q & s4 & H4 & A4 & Hqr & Hqc).
  destruct (rest_nl_cons [] s4 _ A4) as (rg & s5 & H5 & A5). { constructor. }
  destruct (bookings_loop_cons pad bs (loop_fuel E) s5 r A5 Hne Hl Hr) as (bs' & s6 & H6 & A6 & S6).
  { pose proof (fuel_rest E Hlen Hfuel Hdec Hloc s5 (At_inv E _ _ A5)) as Hf. destruct A5 as (_ & Hr5 & _).
    rewrite Hr5, app_length in Hf. unfold loop_fuel, s_nl. lia. }
  exists s2, s3, q, bs', s6. split; [exact H2|]. split; [exact H3|].
  split; [unfold cur_is; rewrite (At_cur s3 _ A3), (fr_ascii dec Hdec 34 _) by lia; reflexivity|].
  split; [|split; [exact A6|split; [|split; [apply (At_slice s date _ s2 HA A2)|split; [exact Hqc|exact S6]]]]].
  - intros sc ad. unfold parse_transaction. apply annot_ok. run H4. run H5. run H6. reflexivity.
  - pose proof (At_off s _ _ s2 HA A2) as O2. destruct (lex_date_first dec digit Hdec date [] (proj1 Hd)) as (_ & _ & Hne').
    assert (1 <= zlen date).
    { destruct date; [cbn [RoundTripBase.fr] in Hne'; congruence|]. rewrite zlen_cons. pose proof (zlen_nonneg date). lia. }
    pose proof (RoundTripBase.At_len E Hlen Hfuel Hdec Hloc s2 _ A2) as L2.
    pose proof (RoundTripBase.At_len E Hlen Hfuel Hdec Hloc s6 _ A6) as L6.
    repeat (rewrite ?zlen_cons, ?zlen_app in L2).
    pose proof (zlen_nonneg desc). pose proof (zlen_nonneg (concat (map (fun b => render_posting dec pad b ++ [10]) bs))).
    lia.
Qed.

Lemma trx_cons pad date desc bs perf accr x r s :
  render_sem dec pad (SemTrx date desc bs perf accr) = Some x -> At s (x ++ r) ->
  LexDir (SemTrx date desc bs perf accr) -> blankstart r ->
  exists d s', parse_directive E s = Ok d s' /\ At s' r /\ d_range d = mkRange (off s) (off s') /\
               sem_of_directive t d = SemTrx date desc bs perf accr.
Proof using All.
  intros Hx HA (Hd & Hq & Hne & Hl & Hp & Ha) Hr. cbn [render_sem] in Hx. injection Hx as Hx'. subst x.
  assert (HA' : At s (addon_text perf accr ++ trx_body pad date desc bs ++ r)).
  { match type of HA with At s ?y => replace (addon_text perf accr ++ trx_body pad date desc bs ++ r) with y; [exact HA|] end.
    unfold addon_text, accr_line, perf_line, trx_body, accr_text.
    unfold s_accrue, s_sp, s_nl, s_perf_open, s_perf_close, s_quote.
    destruct accr, perf; repeat (rewrite <- app_assoc || rewrite <- app_comm_cons); cbn [app]; reflexivity. }
  clear HA. destruct (date_start_facts date (skipn (length date) (trx_body pad date desc bs ++ r)) Hd) as (H64 & H105 & _).
  assert (Hbody : trx_body pad date desc bs ++ r = date ++ skipn (length date) (trx_body pad date desc bs ++ r)).
  { unfold trx_body. rewrite <- app_assoc. rewrite skipn_app, skipn_all, Nat.sub_diag. reflexivity. }
  rewrite <- Hbody in H64, H105.
  assert (Hcases : (perf = None /\ accr = None) \/ (perf <> None \/ accr <> None)).
  { destruct perf, accr; auto; right; (left; discriminate) || (right; discriminate). }
  destruct Hcases as [(-> & ->)|Hsome].
  - (* no addons *)
    cbn [addon_text app] in HA'.
    destruct (trx_body_cons pad date desc bs r s HA' Hd Hq Hne Hl Hr)
      as (s2 & s3 & q & bs' & s4 & H2 & H3 & H34 & H4 & A4 & Hlt & Hsl & Hqc & Hbs).
    eexists _, s4. split; [|split; [exact A4|split]].
    + unfold parse_directive. cbv zeta. apply annot_ok.
      eapply bind_ok. { apply ifM_false; [|reflexivity]. unfold cur_is. rewrite (At_cur s _ HA'). now apply Z.eqb_neq. }
      cbv beta. apply ifM_false. { unfold cur_is. rewrite (At_cur s _ HA'). now apply Z.eqb_neq. }
      run H2. run H3. apply ifM_true; [exact H34|]. run (H4 (new_scope DDir s) zero_addons). reflexivity.
    + reflexivity.
    + unfold sem_of_directive. prj. unfold cut at 1. prj. rewrite Hsl, Hqc, Hbs. reflexivity.
  - destruct (addons_cons perf accr _ s HA' Hsome Hp Ha H64) as (ad & s1 & H1 & A1 & L1 & Sp & Sa).
    destruct (trx_body_cons pad date desc bs r s1 A1 Hd Hq Hne Hl Hr)
      as (s2 & s3 & q & bs' & s4 & H2 & H3 & H34 & H4 & A4 & Hlt & Hsl & Hqc & Hbs).
    eexists _, s4. split; [|split; [exact A4|split]].
    + unfold parse_directive. cbv zeta. apply annot_ok.
      eapply bind_ok.
      { apply ifM_true; [|exact H1]. unfold cur_is. rewrite (At_cur s _ HA').
        destruct accr; [|destruct perf; [|tauto]]; unfold addon_text, accr_line, perf_line, s_accrue, s_perf_open;
          cbn [app]; rewrite (fr_ascii dec Hdec 64 _) by lia; reflexivity. }
      cbv beta. apply ifM_false. { unfold cur_is. rewrite (At_cur s1 _ A1). now apply Z.eqb_neq. }
      run H2. run H3. apply ifM_true; [exact H34|]. run (H4 (new_scope DDir s) ad). reflexivity.
    + reflexivity.
    + unfold sem_of_directive. prj. unfold cut at 1. prj. rewrite Hsl, Hqc, Hbs.
      unfold sem_perf in Sp. unfold sem_accr, sem_accrual_of in Sa. rewrite Sp, Sa. reflexivity.
Qed.

(* ------------------------------------------------------------------ every kind *)

Theorem directive_cons pad sd x r s :
  render_sem dec pad sd = Some x -> At s (x ++ r) -> LexDir sd -> blankstart r ->
  exists d s', parse_directive E s = Ok d s' /\ At s' r /\ d_range d = mkRange (off s) (off s') /\
               sem_of_directive t d = sd.
Proof using All.
  intros Hx HA Hl Hr. pose proof (blankstart_sepr r Hr) as Hsep.
  destruct sd as [date desc bs perf accr|date a|date a|date bs|date c p tg|p|].
  - eapply trx_cons; eauto.
  - assert (Hxe : x = date ++ s_open ++ fst a) by (cbn [render_sem] in Hx; congruence). subst x.
    destruct Hl as (Hd & Ha). rewrite <- !app_assoc in HA.
    exact (RoundTripCons.open_cons E Hlen Hfuel Hdec Hloc Hcls date a r s HA Hd Ha Hsep).
  - assert (Hxe : x = date ++ s_close ++ fst a) by (cbn [render_sem] in Hx; congruence). subst x.
    destruct Hl as (Hd & Ha). rewrite <- !app_assoc in HA.
    exact (RoundTripCons.close_cons E Hlen Hfuel Hdec Hloc Hcls date a r s HA Hd Ha Hsep).
  - destruct Hl as (Hd & Hne & Hbs).
    exact (RoundTripCons.assertion_cons E Hlen Hfuel Hdec Hloc Hcls date bs x r s Hx HA Hd Hne Hbs Hr).
  - assert (Hxe : x = date ++ s_price ++ c ++ s_sp ++ p ++ s_sp ++ tg) by (cbn [render_sem] in Hx; congruence). subst x.
    destruct Hl as (Hd & Hc & Hp & Htg). rewrite <- !app_assoc in HA.
    exact (RoundTripCons.price_cons E Hlen Hfuel Hdec Hloc Hcls date c p tg r s HA Hd Hc Hp Htg Hsep).
  - assert (Hxe : x = s_include ++ p ++ s_quote) by (cbn [render_sem] in Hx; congruence). subst x.
    rewrite <- !app_assoc in HA.
    exact (RoundTripCons.include_cons E Hlen Hfuel Hdec Hloc Hcls p r s HA Hl).
  - destruct Hl.
Qed.

(* the first rune of a rendered directive: '@', a digit that is neither '@' nor a comment
   marker, or 'i': parseFile enters parseDirective *)
Lemma directive_start pad sd x r : render_sem dec pad sd = Some x -> LexDir sd ->
  fr (x ++ r) <> eof /\ ~ In (fr (x ++ r)) [42; 35; 47] /\ (alnum (fr (x ++ r)) = true \/ fr (x ++ r) = 64).
Proof using All.
  intros Hx Hl.
  assert (Hdate : forall date y, date_ok date -> fr ((date ++ y) ++ r) <> eof /\ ~ In (fr ((date ++ y) ++ r)) [42; 35; 47] /\
                                 (alnum (fr ((date ++ y) ++ r)) = true \/ fr ((date ++ y) ++ r) = 64)).
  { intros date y Hd. rewrite <- app_assoc. destruct (date_start_facts date (y ++ r) Hd) as (_ & _ & Ha).
    destruct (lex_date_first dec digit Hdec date (y ++ r) (proj1 Hd)) as (Hf & _ & Hne). rewrite Hf in *.
    split; [assumption|]. split; [|now left].
    pose proof (alnum_not_sep letter digit Hcls _ Ha) as Hn. cbn [In] in *. lia. }
  assert (H64 : forall y, fr (64 :: y) <> eof /\ ~ In (fr (64 :: y)) [42; 35; 47] /\
                          (alnum (fr (64 :: y)) = true \/ fr (64 :: y) = 64)).
  { intros y. rewrite (fr_ascii dec Hdec 64 _) by lia. unfold eof. cbn [In]. split; [lia|]. split; [lia|now right]. }
  destruct sd as [date desc bs perf accr|date a|date a|date bs|date c p tg|p|]; cbn [render_sem] in Hx;
    try (apply some_inj in Hx; subst x).
  - destruct Hl as (Hd & _). destruct accr; [|destruct perf].
    + unfold s_accrue. cbn [app]. apply H64.
    + unfold s_perf_open. cbn [app]. apply H64.
    + cbn [app]. now apply Hdate.
  - apply Hdate; apply Hl.
  - apply Hdate; apply Hl.
  - apply Hdate; apply Hl.
  - apply Hdate; apply Hl.
  - unfold s_include. cbn [app]. rewrite (fr_ascii dec Hdec 105 _) by lia. unfold eof. cbn [In]. split; [lia|]. split; [lia|].
    left. exact (co_i _ _ Hcls).
  - destruct Hl.
Qed.

End WithEnv.
