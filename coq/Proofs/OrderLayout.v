(* C05, file layout: what the include loader (Model/Loader.v, the repaired ParseFileRecursively)
   returns is, up to order, the concatenation of the directives of the files it visits -- every
   file once per include path that reaches it (a file included twice is loaded twice), for every
   shape of the include tree. *)
From Coq Require Import ZArith List Bool Permutation.
From Knut Require Import Model.Str Model.Ledger Model.Loader Proofs.LoaderProofs.
Import ListNotations.

(* the directives written in a file itself / the include targets of a file, in file order *)
Definition own_directives (its : list item) : list sdirective :=
  flat_map (fun i => match i with IDir d => [d] | IInc _ => [] end) its.
Definition inc_targets (its : list item) : list str :=
  flat_map (fun i => match i with IDir _ => [] | IInc t => [t] end) its.

Definition file_directives (fs : fsys) (p : path) : list sdirective :=
  match lookup fs p with Some (FOk items) => own_directives items | _ => [] end.

(* the visits of the include tree below [p], in depth-first order: [p] itself, then the visits
   below each include target (resolved relative to [p]) *)
Inductive visits (fs : fsys) : path -> list path -> Prop :=
| visits_file p items vss :
    lookup fs p = Some (FOk items) ->
    Forall2 (fun t vs => visits fs (resolve p t) vs) (inc_targets items) vss ->
    visits fs p (p :: concat vss).

Lemma load_items_layout fs (sub : str -> lresult) (tgt : str -> path) its : forall ds,
  (forall t a, sub t = LOk a -> exists vs, visits fs (tgt t) vs /\ Permutation a (flat_map (file_directives fs) vs)) ->
  load_items sub its = LOk ds ->
  exists vss, Forall2 (fun t vs => visits fs (tgt t) vs) (inc_targets its) vss /\
              Permutation ds (own_directives its ++ flat_map (file_directives fs) (concat vss)).
Proof.
  intros ds Hsub. revert ds. induction its as [|[d|t] its IH]; intros ds H; cbn [load_items] in H.
  - inversion H. exists []. split; constructor.
  - apply seq_ok in H. destruct H as (a & b & Ha & Hb & ->). inversion Ha; subst a.
    destruct (IH _ Hb) as (vss & F & P). exists vss. split; [exact F|].
    cbn [own_directives flat_map app]. constructor. exact P.
  - apply seq_ok in H. destruct H as (a & b & Ha & Hb & ->).
    destruct (IH _ Hb) as (vss & F & P). destruct (Hsub _ _ Ha) as (vs & V & Pa).
    exists (vs :: vss). split; [constructor; assumption|].
    cbn [own_directives flat_map concat app]. fold (own_directives its). rewrite flat_map_app.
    eapply Permutation_trans; [apply Permutation_app; eassumption|].
    apply Permutation_app_swap_app.
Qed.

Lemma load_file_layout fs : forall f anc p ds,
  load_file f fs anc p = LOk ds ->
  exists vs, visits fs p vs /\ Permutation ds (flat_map (file_directives fs) vs).
Proof.
  induction f as [|f IH]; intros anc p ds H; [discriminate|].
  apply load_file_ok_inv in H. destruct H as (f' & items & E & Hlk & Hit). inversion E; subst f'.
  destruct (load_items_layout fs _ (resolve p) items ds (fun t a Ha => IH (p :: anc) (resolve p t) a Ha) Hit) as (vss & F & P).
  exists (p :: concat vss). split; [econstructor; eassumption|].
  cbn [flat_map]. unfold file_directives at 1. rewrite Hlk. exact P.
Qed.

Theorem load_layout fs root f ds :
  load f fs root = LOk ds ->
  exists vs, visits fs root vs /\ Permutation ds (flat_map (file_directives fs) vs).
Proof. apply load_file_layout. Qed.

