(* C16: the items `knut transcode` emits satisfy the lexical side conditions of the reader/writer
   round trip (Spec/BeancountLex.v entries_lex_b) whenever the journal's directives do
   (journal_lex_b: years 0000..9999, account segments without space, newline and double quote,
   the first one not empty, descriptions and commodities without double quote).

   Part 1  names of lexical accounts; the valuation account; posting pairs
   Part 2  the builder's days
   Part 3  Sort, ComputePrices, Check (day_step) and Valuate (with the invariant that every
           position held comes from a lexical posting: the adjustments are built from positions)
   Part 4  beancount.Transcode: the emitted items *)
From Coq Require Import ZArith List Bool Lia Permutation.
From Knut Require Import Model.Str Model.Dec Model.Date Model.Account Model.Ledger Model.Price
     Model.Journal Model.Check Model.Pipeline Model.Cli Model.Beancount Model.CliTranscode
     Spec.BeancountLex
     Proofs.StrProofs Proofs.CheckLemmas Proofs.BeancountProofs Proofs.BeancountRead.
Import ListNotations.
Open Scope bool_scope.
Open Scope Z_scope.

Definition acc_lex (a : account) : Prop := acc_lex_b a = true.
Definition txn_lex (t : txn) : Prop := txn_lex_b t = true.
Definition entry_lex (e : bentry) : Prop := entry_lex_b e = true.

Definition day_lex (d : day) : Prop :=
  date_lex_b (d_date d) = true /\ Forall acc_lex (d_opens d) /\ Forall acc_lex (d_closes d) /\
  Forall txn_lex (d_txns d).

(* ================================================================== Part 1 *)

Lemma join_colon_no c (a : list str) : c <> colon -> (forall s, In s a -> ~ In c s) -> ~ In c (join [colon] a).
Proof.
  intros Hc. induction a as [|x rest IH]; intros Ha; [intros []|].
  destruct rest as [|y rest'].
  - cbn [join]. apply Ha. left. reflexivity.
  - change (join [colon] (x :: y :: rest')) with (x ++ [colon] ++ join [colon] (y :: rest')).
    rewrite !not_in_app_iff. repeat split.
    + apply Ha. left. reflexivity.
    + cbn [In]. intros [H|[]]. congruence.
    + apply IH. intros s Hs. apply Ha. right. exact Hs.
Qed.

Lemma seg_lex_spec s : seg_lex_b s = true -> ~ In 32 s /\ ~ In 10 s /\ ~ In 34 s.
Proof. unfold seg_lex_b. rewrite !andb_true_iff, !no_byte_iff. tauto. Qed.

Lemma acc_lex_name a : acc_lex a -> name_lex_b (acc_name a) = true.
Proof.
  unfold acc_lex, acc_lex_b. rewrite andb_true_iff. intros [Hne Hseg].
  rewrite forallb_forall in Hseg.
  unfold name_lex_b, acc_name. rewrite !andb_true_iff, !no_byte_iff. repeat split.
  - destruct a as [|x rest]; [discriminate|]. destruct x as [|b x]; [discriminate|].
    destruct rest; reflexivity.
  - apply join_colon_no; [discriminate|]. intros s Hs. apply (seg_lex_spec s (Hseg s Hs)).
  - apply join_colon_no; [discriminate|]. intros s Hs. apply (seg_lex_spec s (Hseg s Hs)).
  - apply join_colon_no; [discriminate|]. intros s Hs. apply (seg_lex_spec s (Hseg s Hs)).
Qed.

Lemma valuation_account_lex a : acc_lex a -> acc_lex (valuation_account_for a).
Proof.
  unfold acc_lex, acc_lex_b, valuation_account_for. rewrite andb_true_iff. intros [_ Hseg].
  destruct a as [|x rest]; cbn [tl forallb] in *; [reflexivity|].
  apply andb_true_iff in Hseg. destruct Hseg as [_ Hrest]. rewrite Hrest. reflexivity.
Qed.

Lemma pair_build_lex cr db c q x : acc_lex cr -> acc_lex db -> com_lex_b c = true ->
  forallb posting_lex_b (pair_build cr db c q x) = true.
Proof.
  unfold acc_lex. intros H1 H2 H3. unfold pair_build.
  destruct (is_neg q || is_zero q && is_neg x); cbn [forallb posting_lex_b p_acc p_com]; unfold posting_lex_b;
    cbn [p_acc p_com]; rewrite H1, H2, H3; reflexivity.
Qed.

Lemma posting_sim_lex p p' : posting_sim p p' -> posting_lex_b p = true -> posting_lex_b p' = true.
Proof. unfold posting_lex_b. intros (H1 & _ & H3 & _). rewrite H1, H3. exact (fun H => H). Qed.

Lemma postings_sim_lex ps ps' : Forall2 posting_sim ps ps' -> forallb posting_lex_b ps = true -> forallb posting_lex_b ps' = true.
Proof.
  induction 1 as [|p p' ps ps' Hp _ IH]; [reflexivity|]. cbn [forallb]. rewrite !andb_true_iff.
  intros [H1 H2]. split; [eapply posting_sim_lex; eauto|auto].
Qed.

Lemma txn_sim_lex t t' : txn_sim t t' -> txn_lex t -> txn_lex t'.
Proof.
  unfold txn_lex, txn_lex_b. intros (H1 & H2 & _ & H4). rewrite H1, H2, !andb_true_iff.
  intros [[A B] C]. repeat split; try assumption. eapply postings_sim_lex; eauto.
Qed.

(* ================================================================== Part 2 *)

Lemma day_lex_fresh x dt : day_lex x \/ x = empty_day dt -> d_date x = dt -> date_lex_b dt = true -> day_lex x.
Proof.
  intros [H| ->] _ Hd; [exact H|]. unfold day_lex, empty_day. cbn [d_date d_opens d_closes d_txns].
  repeat split; try constructor. exact Hd.
Qed.

Lemma builder_add_lex b d : directive_lex_b d = true ->
  Forall day_lex (b_days b) -> Forall day_lex (b_days (builder_add b d)).
Proof.
  intros Hd H.
  destruct d as [dt c p t|dt a|dt a|dt bs|t]; cbn [directive_lex_b builder_add b_days] in *;
    apply upd_day_Forall; try exact H; intros x Hx Hdt.
  - pose proof (day_lex_fresh x dt Hx Hdt Hd) as (L1 & L2 & L3 & L4).
    unfold day_lex. cbn [d_date d_opens d_closes d_txns]. repeat split; assumption.
  - apply andb_true_iff in Hd. destruct Hd as [Hd Ha].
    pose proof (day_lex_fresh x dt Hx Hdt Hd) as (L1 & L2 & L3 & L4).
    unfold day_lex. cbn [d_date d_opens d_closes d_txns]. repeat split; try assumption.
    apply Forall_app. split; [exact L2|]. constructor; [exact Ha|constructor].
  - apply andb_true_iff in Hd. destruct Hd as [Hd Ha].
    pose proof (day_lex_fresh x dt Hx Hdt Hd) as (L1 & L2 & L3 & L4).
    unfold day_lex. cbn [d_date d_opens d_closes d_txns]. repeat split; try assumption.
    apply Forall_app. split; [exact L3|]. constructor; [exact Ha|constructor].
  - pose proof (day_lex_fresh x dt Hx Hdt Hd) as (L1 & L2 & L3 & L4).
    unfold day_lex. cbn [d_date d_opens d_closes d_txns]. repeat split; assumption.
  - assert (Hdate : date_lex_b (t_date t) = true).
    { unfold txn_lex_b in Hd. rewrite !andb_true_iff in Hd. tauto. }
    pose proof (day_lex_fresh x (t_date t) Hx Hdt Hdate) as (L1 & L2 & L3 & L4).
    unfold day_lex, add_txn_day. cbn [d_date d_opens d_closes d_txns]. repeat split; try assumption.
    apply Forall_app. split; [exact L4|]. constructor; [exact Hd|constructor].
Qed.

Lemma builder_of_lex ds : journal_lex_b ds = true -> Forall day_lex (b_days (builder_of ds)).
Proof.
  unfold builder_of, journal_lex_b. assert (H0 : Forall day_lex (b_days new_builder)) by constructor.
  revert H0. generalize new_builder. induction ds as [|d ds IH]; intros b Hb Hds; cbn [fold_left]; [exact Hb|].
  cbn [forallb] in Hds. apply andb_true_iff in Hds. destruct Hds as [Hd Hds].
  apply IH; [|exact Hds]. apply builder_add_lex; assumption.
Qed.

(* ================================================================== Part 3 *)

Lemma day_step_lex (Q : Z -> txn -> Prop) d d' :
  (forall t, Q (d_date d) t -> txn_lex t) -> day_step Q d d' -> day_lex d -> day_lex d'.
Proof.
  intros HQ (H1 & H2 & H3 & extra & mid & He & Hs & Hp) (L1 & L2 & L3 & L4).
  unfold day_lex. rewrite H1, H2, H3. repeat split; try assumption.
  eapply Permutation_Forall; [exact Hp|].
  eapply Forall2_Forall_r; [|exact Hs|].
  - intros x y Hxy Hx. eapply txn_sim_lex; eauto.
  - apply Forall_app. split; [exact L4|]. eapply Forall_impl; [|exact He]. exact HQ.
Qed.

Lemma days_step_no_extra_lex l l' : Forall2 (day_step no_extra) l l' -> Forall day_lex l -> Forall day_lex l'.
Proof.
  induction 1 as [|d d' l l' Hdd _ IH]; intros Hl; [constructor|].
  inversion Hl; subst. constructor; [|auto].
  eapply day_step_lex; [|exact Hdd|assumption]. intros t [].
Qed.

(* ---- Valuate *)

Definition pos_lex (m : positions) : Prop :=
  forall k a c q, In (k, (a, c, q)) m -> acc_lex a /\ com_lex_b c = true.

Lemma pos_add_lex m a c q : pos_lex m -> acc_lex a -> com_lex_b c = true -> pos_lex (pos_add m a c q).
Proof.
  intros Hm Ha Hc k a' c' q' Hin. unfold pos_add in Hin. apply sm_put_in in Hin.
  destruct Hin as [E|Hin]; [|eapply Hm; eauto]. inversion E; subst. split; assumption.
Qed.

Lemma s_adjust_lex c a : com_lex_b c = true -> acc_lex a -> desc_lex_b (s_adjust c a) = true.
Proof.
  intros Hc Ha. apply acc_lex_name in Ha. apply name_lex_spec in Ha. destruct Ha as (_ & _ & _ & H34).
  unfold com_lex_b in Hc. apply no_byte_iff in Hc.
  unfold desc_lex_b, s_adjust. apply no_byte_iff. rewrite !not_in_app_iff. repeat split; try assumption;
    cbn [In]; intros H; repeat (destruct H as [H|H]; [discriminate|]); exact H.
Qed.

Lemma val_adjustments_lex v date prev cur pos ts :
  val_adjustments v date prev cur pos = ROk ts -> date_lex_b date = true -> pos_lex pos -> Forall txn_lex ts.
Proof.
  intros H Hd. revert ts H. induction pos as [|[k [[a c] q]] rest IH]; intros ts H Hp; cbn [val_adjustments] in H.
  - inversion H. constructor.
  - assert (Hrest : pos_lex rest) by (intros k' a' c' q' Hin; eapply Hp; right; exact Hin).
    destruct (Hp k a c q (or_introl eq_refl)) as [Ha Hc].
    destruct (str_eqb c v || negb (is_AL a) || is_zero q); [apply IH; assumption|].
    destruct (np_price_opt prev c); try discriminate.
    destruct (np_price_opt cur c); try discriminate.
    destruct (is_zero (sub d0 d)); [apply IH; assumption|].
    destruct (val_adjustments v date prev cur rest) as [ts'| |]; try discriminate. cbn [rbind] in H.
    inversion H. constructor; [|apply IH; [reflexivity|assumption]].
    unfold txn_lex, txn_lex_b. cbn [t_date t_desc t_postings]. rewrite Hd, (s_adjust_lex c a Hc Ha).
    rewrite pair_build_lex; [reflexivity|apply valuation_account_lex; exact Ha|exact Ha|exact Hc].
Qed.

Lemma val_posting_lex v s t p s' p' : val_posting v s t p = ROk (s', p') ->
  pos_lex (v_qty s) -> posting_lex_b p = true -> pos_lex (v_qty s') /\ posting_lex_b p' = true.
Proof.
  intros H Hs Hp. split; [|eapply posting_sim_lex; [eapply val_posting_sim; exact H|exact Hp]].
  unfold val_posting in H.
  destruct (is_zero (p_qty p)); [inversion H; subst; exact Hs|].
  assert (Hs1 : pos_lex (v_qty (if is_AL (p_acc p)
                                then mkVal (v_prev s) (v_cur s) (pos_add (v_qty s) (p_acc p) (p_com p) (p_qty p)) else s))).
  { destruct (is_AL (p_acc p)); [|exact Hs]. cbn [v_qty]. unfold posting_lex_b in Hp.
    apply andb_true_iff in Hp. destruct Hp as [Ha Hc]. apply pos_add_lex; assumption. }
  destruct (str_eqb v (p_com p)); [inversion H; subst; exact Hs1|].
  destruct (v_cur s); try discriminate.
  destruct (np_valuate n (p_com p) (p_qty p)); try discriminate.
  inversion H; subst; exact Hs1.
Qed.

Lemma val_fold_postings_lex v t ps : forall s s' ps',
  fold_postings (val_posting v) t s ps = ROk (s', ps') -> pos_lex (v_qty s) -> forallb posting_lex_b ps = true ->
  pos_lex (v_qty s') /\ forallb posting_lex_b ps' = true.
Proof.
  induction ps as [|x ps IH]; intros s s' ps' H Hs Hp; cbn [fold_postings] in H.
  - inversion H; subst. split; [exact Hs|reflexivity].
  - cbn [forallb] in Hp. apply andb_true_iff in Hp. destruct Hp as [Hx Hps].
    destruct (val_posting v s t x) as [[s1 x']| |] eqn:E1; try discriminate. cbn [rbind fst snd] in H.
    destruct (fold_postings (val_posting v) t s1 ps) as [[s2 r']| |] eqn:E2; try discriminate. cbn [rbind fst snd] in H.
    inversion H; subst.
    destruct (val_posting_lex _ _ _ _ _ _ E1 Hs Hx) as [Hs1 Hx'].
    destruct (IH _ _ _ E2 Hs1 Hps) as [Hs2 Hr]. split; [exact Hs2|]. cbn [forallb]. rewrite Hx', Hr. reflexivity.
Qed.

Lemma val_fold_txns_lex v ts : forall s s' ts',
  fold_txns (valuate_proc v) s ts = ROk (s', ts') -> pos_lex (v_qty s) -> Forall txn_lex ts ->
  pos_lex (v_qty s') /\ Forall txn_lex ts'.
Proof.
  induction ts as [|t ts IH]; intros s s' ts' H Hs Hts; cbn [fold_txns valuate_proc pr_txn pr_posting] in H.
  - inversion H; subst. split; [exact Hs|constructor].
  - inversion Hts as [|? ? Ht Hrest]; subst. cbn [rbind] in H.
    destruct (fold_postings (val_posting v) t s (t_postings t)) as [[s2 ps']| |] eqn:E2; try discriminate.
    cbn [rbind fst snd] in H.
    destruct (fold_txns (valuate_proc v) s2 ts) as [[s3 r']| |] eqn:E3; try discriminate. cbn [rbind fst snd] in H.
    inversion H; subst.
    unfold txn_lex, txn_lex_b in Ht. rewrite !andb_true_iff in Ht. destruct Ht as [[Hd Hdesc] Hp].
    destruct (val_fold_postings_lex _ _ _ _ _ _ E2 Hs Hp) as [Hs2 Hp'].
    destruct (IH _ _ _ E3 Hs2 Hrest) as [Hs3 Hr]. split; [exact Hs3|]. constructor; [|exact Hr].
    unfold txn_lex, txn_lex_b. cbn [t_date t_desc t_postings]. rewrite Hd, Hdesc, Hp'. reflexivity.
Qed.

Lemma val_fold_asserts v l : forall s, fold_asserts (valuate_proc v) s l = ROk s.
Proof. induction l as [|a l IH]; intros s; cbn [fold_asserts valuate_proc pr_balance rbind]; [reflexivity|apply IH]. Qed.

Lemma val_process_day_lex v s d s' d' : process_day (valuate_proc v) s d = ROk (s', d') ->
  pos_lex (v_qty s) -> day_lex d -> pos_lex (v_qty s') /\ day_lex d'.
Proof.
  intros H Hs (L1 & L2 & L3 & L4). unfold process_day in H.
  cbn [valuate_proc pr_day_start pr_price pr_open pr_close pr_day_end] in H. unfold val_day_start in H.
  destruct (val_adjustments v (d_date d) (v_prev s) (d_normalized d) (v_qty s)) as [adj| |] eqn:E0; try discriminate.
  cbn [rbind fst snd set_txns d_date d_prices d_opens d_txns d_asserts d_closes d_normalized] in H.
  pose proof (val_adjustments_lex _ _ _ _ _ _ E0 L1 Hs) as Hadj.
  destruct (fold_txns (valuate_proc v) (mkVal (v_prev s) (d_normalized d) (v_qty s)) (d_txns d ++ adj))
    as [[s4 ts']| |] eqn:E4; try discriminate.
  cbn [rbind fst snd] in H. rewrite val_fold_asserts in H. cbn [rbind] in H.
  unfold val_day_end in H. inversion H; subst. cbn [v_qty].
  assert (Hin : Forall txn_lex (d_txns d ++ adj)) by (apply Forall_app; split; assumption).
  destruct (val_fold_txns_lex _ _ _ _ _ E4 Hs Hin) as [Hs4 Hts].
  split; [exact Hs4|]. unfold day_lex. cbn [d_date d_opens d_closes d_txns]. repeat split; assumption.
Qed.

Lemma val_process_days_lex v ds : forall s s' ds', process_days (valuate_proc v) s ds = ROk (s', ds') ->
  pos_lex (v_qty s) -> Forall day_lex ds -> Forall day_lex ds'.
Proof.
  induction ds as [|d ds IH]; intros s s' ds' H Hs Hds; cbn [process_days] in H.
  - inversion H; subst. constructor.
  - inversion Hds as [|? ? Hd Hrest]; subst.
    destruct (process_day (valuate_proc v) s d) as [[s1 d1]| |] eqn:E1; try discriminate. cbn [rbind fst snd] in H.
    destruct (process_days (valuate_proc v) s1 ds) as [[s2 r]| |] eqn:E2; try discriminate. cbn [rbind fst snd] in H.
    inversion H; subst. destruct (val_process_day_lex _ _ _ _ _ E1 Hs Hd) as [Hs1 Hd1].
    constructor; [exact Hd1|]. eapply IH; eauto.
Qed.

Lemma transcode_days_day_lex l v sds dl days :
  parse_directives sds = MOk dl -> journal_lex_b dl = true -> transcode_days l v sds = COk days ->
  Forall day_lex days.
Proof.
  intros Hp Hj H. apply transcode_days_inv in H.
  destruct H as (ds & d1 & d2 & d3 & s1 & s2 & s3 & s4 & E0 & E1 & E2 & E3 & E4).
  rewrite Hp in E0. injection E0 as <-.
  eapply val_process_days_lex; [exact E4|intros k a c q []|].
  eapply days_step_no_extra_lex; [eapply check_stage_step; exact E3|].
  eapply days_step_no_extra_lex; [eapply prices_stage_step; exact E2|].
  eapply days_step_no_extra_lex; [eapply sort_stage_step; exact E1|].
  apply builder_of_lex. exact Hj.
Qed.

(* ================================================================== Part 4 *)

Lemma txn_entry_lex t : txn_lex t -> entry_lex (BTxn t).
Proof.
  unfold txn_lex, txn_lex_b, entry_lex, entry_lex_b. rewrite !andb_true_iff. intros [[Hd Hs] Hp].
  repeat split; try assumption. rewrite forallb_forall in *. intros p Hin.
  specialize (Hp p Hin). unfold posting_lex_b in Hp. apply andb_true_iff in Hp. apply acc_lex_name. apply Hp.
Qed.

Lemma open_entry_lex d a : date_lex_b d = true -> acc_lex a -> entry_lex (BOpen d a).
Proof. intros Hd Ha. unfold entry_lex, entry_lex_b. rewrite Hd, (acc_lex_name a Ha). reflexivity. Qed.

Lemma close_entry_lex d a : date_lex_b d = true -> acc_lex a -> entry_lex (BClose d a).
Proof. intros Hd Ha. unfold entry_lex, entry_lex_b. rewrite Hd, (acc_lex_name a Ha). reflexivity. Qed.

Lemma val_opens_postings_lex date ps : date_lex_b date = true -> forallb posting_lex_b ps = true ->
  forall seen, Forall entry_lex (fst (val_opens_postings date ps seen)).
Proof.
  intros Hd. induction ps as [|p ps IH]; intros Hp seen; cbn [val_opens_postings]; [constructor|].
  cbn [forallb] in Hp. apply andb_true_iff in Hp. destruct Hp as [Hx Hps].
  destruct (is_prefix s_equity_valuation (acc_name (p_acc p)) && negb (existsb (acc_eqb (p_acc p)) seen)).
  - specialize (IH Hps (p_acc p :: seen)). destruct (val_opens_postings date ps (p_acc p :: seen)) as [es seen'].
    cbn [fst] in *. constructor; [|exact IH]. apply open_entry_lex; [exact Hd|].
    unfold posting_lex_b in Hx. apply andb_true_iff in Hx. apply Hx.
  - apply IH. exact Hps.
Qed.

Lemma val_opens_txns_lex ts : Forall txn_lex ts -> forall seen, Forall entry_lex (fst (val_opens_txns ts seen)).
Proof.
  induction 1 as [|t ts Ht _ IH]; intros seen; cbn [val_opens_txns]; [constructor|].
  unfold txn_lex, txn_lex_b in Ht. rewrite !andb_true_iff in Ht. destruct Ht as [[Hd _] Hp].
  pose proof (val_opens_postings_lex (t_date t) (t_postings t) Hd Hp seen) as H1.
  destruct (val_opens_postings (t_date t) (t_postings t) seen) as [e1 seen1]. cbn [fst] in H1.
  specialize (IH seen1). destruct (val_opens_txns ts seen1) as [e2 seen2]. cbn [fst] in *.
  apply Forall_app. split; assumption.
Qed.

Lemma transcode_day_lex d seen : day_lex d -> Forall entry_lex (fst (transcode_day d seen)).
Proof.
  intros (L1 & L2 & L3 & L4). unfold transcode_day.
  assert (Hs : Forall txn_lex (sort_by txn_ltb (d_txns d))).
  { eapply Permutation_Forall; [symmetry; apply sort_by_perm|exact L4]. }
  pose proof (val_opens_txns_lex _ Hs seen) as Hv.
  destruct (val_opens_txns (sort_by txn_ltb (d_txns d)) seen) as [vo seen']. cbn [fst] in *.
  repeat (apply Forall_app; split).
  - apply Forall_forall. intros e He. apply in_map_iff in He. destruct He as (a & <- & Ha).
    apply open_entry_lex; [exact L1|]. rewrite Forall_forall in L2. apply L2. exact Ha.
  - exact Hv.
  - apply Forall_forall. intros e He. apply in_map_iff in He. destruct He as (t & <- & Ht).
    apply txn_entry_lex. rewrite Forall_forall in Hs. apply Hs. exact Ht.
  - apply Forall_forall. intros e He. apply in_map_iff in He. destruct He as (a & <- & Ha).
    apply close_entry_lex; [exact L1|]. rewrite Forall_forall in L3. apply L3. exact Ha.
Qed.

Lemma transcode_entries_lex days : Forall day_lex days -> forall seen, Forall entry_lex (transcode_entries days seen).
Proof.
  induction 1 as [|d days Hd _ IH]; intros seen; cbn [transcode_entries]; [constructor|].
  pose proof (transcode_day_lex d seen Hd) as H1. destruct (transcode_day d seen) as [es seen']. cbn [fst] in H1.
  apply Forall_app. split; [exact H1|apply IH].
Qed.

Theorem transcode_days_entries_lex l v sds dl days :
  parse_directives sds = MOk dl -> journal_lex_b dl = true -> transcode_days l v sds = COk days ->
  entries_lex_b (transcode_entries days []) = true.
Proof.
  intros Hp Hj H. unfold entries_lex_b. apply forallb_forall. apply Forall_forall.
  apply transcode_entries_lex. eapply transcode_days_day_lex; eauto.
Qed.
