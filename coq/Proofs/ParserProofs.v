(* Proofs about Model/Parser.v: every parser function terminates within its fuel from every
   scanner state in Inv, is monotone in the offset, returns error chains whose ranges lie in
   the text, and returns nodes whose range is [entry offset, exit offset) with well-formed
   children (Spec/SyntaxSpec.v).  Pattern: DESIGN.md Appendix B.3.                        *)
From Coq Require Import ZArith List Bool Lia ZifyBool.
From Knut Require Import Model.Bytes Model.Utf8 Model.Scanner Model.Parser Spec.SyntaxSpec
  Proofs.ScannerProofs.
Import ListNotations.
Open Scope bool_scope.
Open Scope Z_scope.

Ltac prj :=
  cbn [r_start r_end acc_range acc_macro qs_range qs_content bk_range bk_credit bk_debit
       bk_quantity bk_commodity pf_range pf_targets ac_range ac_interval ac_start ac_end
       ac_account ad_range ad_perf ad_accrual tx_range tx_date tx_desc tx_bookings tx_addons
       op_range op_date op_account cl_range cl_date cl_account bl_range bl_account bl_quantity
       bl_commodity as_range as_date as_balances pr_range pr_date pr_commodity pr_target
       pr_price in_range in_path d_range d_body f_range f_directives
       sc_start sc_desc new_scope update_desc scope_range fst snd] in *.

Section WithEnv.
Variable E : env.
Hypothesis Hlen : e_len E = Z.of_nat (length (e_text E)).
Hypothesis Hfuel : (length (e_text E) < e_fuel E)%nat.
Hypothesis Hdec : decoder_ok (e_decode E).

Notation t := (e_text E).
Notation len := (e_len E).
Notation Inv := (Inv E).
Notation post := (@post E _).

(* the scanner lemmas, instantiated with this section's environment *)
Local Notation post_err := (@ScannerProofs.post_err E Hlen Hfuel Hdec _).
Local Notation post_ok := (@ScannerProofs.post_ok E Hlen Hfuel Hdec _).
Local Notation post_weaken := (@ScannerProofs.post_weaken E Hlen Hfuel Hdec _).
Local Notation errs_ok_cons := (ScannerProofs.errs_ok_cons E Hlen Hfuel Hdec).
Local Notation errs_ok_one := (ScannerProofs.errs_ok_one E Hlen Hfuel Hdec).
Local Notation inv_facts := (ScannerProofs.inv_facts E Hlen Hfuel Hdec).
Local Notation dec_cases := (ScannerProofs.dec_cases E Hlen Hfuel Hdec).
Local Notation rune_bytes_true := (ScannerProofs.rune_bytes_true E Hlen Hfuel Hdec).
Local Notation read_while_spec := (ScannerProofs.read_while_spec E Hlen Hfuel Hdec).
Local Notation read_while1_spec := (ScannerProofs.read_while1_spec E Hlen Hfuel Hdec).
Local Notation read_character_spec := (ScannerProofs.read_character_spec E Hlen Hfuel Hdec).
Local Notation read_character_with_spec := (ScannerProofs.read_character_with_spec E Hlen Hfuel Hdec).
Local Notation read_alternative_spec := (ScannerProofs.read_alternative_spec E Hlen Hfuel Hdec).
Local Notation read_string_spec := (ScannerProofs.read_string_spec E Hlen Hfuel Hdec).

(* ------------------------------------------------------------------ the monad *)

Lemma post_bind {A B} (m : M A) (f : A -> M B) s o (Q1 : A -> state -> Prop) (Q : B -> state -> Prop) :
  post Q1 (off s) (m s) -> o <= off s ->
  (forall a s1, Inv s1 -> off s <= off s1 -> Q1 a s1 -> post Q o (f a s1)) ->
  post Q o (bind m f s).
Proof using All.
  intros Hm Ho Hf. unfold bind. destruct (m s) as [a s1|e s1|]; cbn [ScannerProofs.post] in Hm.
  - destruct Hm as (HI & Hle & Hq). now apply Hf.
  - destruct Hm as (Hle & He). apply post_err; [lia|assumption].
  - contradiction.
Qed.

Lemma post_annot {A} sc (m : M A) s o (Q : A -> state -> Prop) :
  0 <= sc_start sc <= o -> post Q o (m s) -> post Q o (annot sc m s).
Proof using All.
  intros Hsc Hm. unfold annot. destruct (m s) as [a s1|e s1|]; cbn [ScannerProofs.post] in Hm.
  - exact Hm.
  - destruct Hm as (Hle & He). apply post_err; [lia|]. unfold annotate.
    apply errs_ok_cons; [lia|lia|assumption].
  - contradiction.
Qed.

Lemma post_ret {A} (a : A) s o (Q : A -> state -> Prop) :
  Inv s -> o <= off s -> Q a s -> post Q o (ret a s).
Proof using All. intros. unfold ret. now apply post_ok. Qed.

Lemma post_ret_with {A} sc (f : range -> A) s o (Q : A -> state -> Prop) :
  Inv s -> o <= off s -> Q (f (mkRange (sc_start sc) (off s))) s -> post Q o (ret_with sc f s).
Proof using All. intros. unfold ret_with, scope_range. now apply post_ok. Qed.

Tactic Notation "step" uconstr(L) "as" simple_intropattern(xpat) ident(s1) ident(HI) ident(Hle) simple_intropattern(HQ) :=
  eapply post_bind; [ eapply L; eauto | lia | intros xpat s1 HI Hle; cbv beta; intros HQ ].

(* ------------------------------------------------------------------ byte classes *)

Definition wsb (b : Z) : Prop := is_ws_byte b = true.
Definition notnl (b : Z) : Prop := b <> 10.

Lemma rb_ws : rune_bytes E is_whitespace wsb.
Proof using All.
  intros l r w Hl Hd Hp.
  destruct (dec_cases l r w Hl Hd) as [(b & l' & -> & Hb & -> & ->)|(Hhi & _)].
  - simpl. constructor; [|constructor]. unfold wsb, is_ws_byte. exact Hp.
  - unfold is_whitespace in Hp. lia.
Qed.

Lemma rb_notnl : rune_bytes E (fun r => negb (is_newline_or_eof r)) notnl.
Proof using All.
  intros l r w Hl Hd Hp.
  destruct (dec_cases l r w Hl Hd) as [(b & l' & -> & Hb & -> & ->)|(Hhi & Hall)].
  - simpl. constructor; [|constructor]. unfold notnl, is_newline_or_eof in *. lia.
  - eapply Forall_impl; [|exact Hall]. unfold high, notnl. intros; lia.
Qed.

Lemma rw_plain p s : Inv s ->
  post (fun r s' => r = mkRange (off s) (off s')) (off s) (read_while E p s).
Proof using All.
  intros HI. eapply post_weaken; [eapply (read_while_spec p (fun _ => True)); eauto using rune_bytes_true|lia|].
  intros r s' _ _ (Hr & _). exact Hr.
Qed.

Lemma rw_ws s : Inv s ->
  post (fun _ s' => Forall wsb (slice t (off s) (off s'))) (off s) (read_while E is_whitespace s).
Proof using All.
  intros HI. eapply post_weaken; [eapply (read_while_spec _ wsb); eauto using rb_ws|lia|].
  intros r s' _ _ (_ & Hr & _). exact Hr.
Qed.

Lemma rw_notnl s : Inv s ->
  post (fun _ s' => Forall notnl (slice t (off s) (off s'))) (off s)
       (read_while E (fun r => negb (is_newline_or_eof r)) s).
Proof using All.
  intros HI. eapply post_weaken; [eapply (read_while_spec _ notnl); eauto using rb_notnl|lia|].
  intros r s' _ _ (_ & Hr & _). exact Hr.
Qed.

Lemma rw1_plain p s : Inv s ->
  post (fun r s' => off s < off s') (off s) (read_while1 E p s).
Proof using All.
  intros HI. eapply post_weaken; [eapply (read_while1_spec p (fun _ => True)); eauto using rune_bytes_true|lia|].
  intros r s' _ _ (_ & _ & Hr). exact Hr.
Qed.

Lemma rc_spec c s : Inv s -> 0 <= c < 128 ->
  post (fun _ s' => off s' = off s + 1 /\ slice t (off s) (off s') = [c]) (off s) (read_character E c s).
Proof using All.
  intros HI Hc. eapply post_weaken; [eapply read_character_spec; eauto|lia|].
  intros r s' _ _ (_ & Ho & Hs). auto.
Qed.

Lemma rcw_spec p s : Inv s ->
  post (fun _ s' => off s < off s') (off s) (read_character_with E p s).
Proof using All.
  intros HI. eapply post_weaken; [eapply read_character_with_spec; eauto|lia|].
  intros r s' _ _ (_ & _ & Ho & _). exact Ho.
Qed.

Lemma kw_ascii : Forall (Forall ascii)
  [kw_include; kw_open; kw_close; kw_balance; kw_price; kw_performance; kw_accrue; kw_daily;
   kw_weekly; kw_monthly; kw_quarterly; kw_star; kw_slashes; kw_hash].
Proof using All. repeat constructor; unfold ascii; lia. Qed.

Lemma ra_spec ss s : Forall (Forall ascii) ss -> Forall (fun x => x <> []) ss -> Inv s ->
  post (fun r s' => r = mkRange (off s) (off s') /\ off s < off s' /\ In (slice t (off s) (off s')) ss)
       (off s) (read_alternative E ss s).
Proof using All.
  intros Hss Hne HI. eapply post_weaken; [eapply read_alternative_spec; eauto|lia|].
  intros r s' _ _ (Hr & Hin & Ho). repeat split; try assumption.
  rewrite Forall_forall in Hne. specialize (Hne _ Hin).
  destruct (slice t (off s) (off s')); [congruence|]. cbn [length] in Ho. lia.
Qed.

(* ------------------------------------------------------------------ blanks and comments *)

Lemma read_whitespace1_spec s : Inv s ->
  post (fun _ _ => True) (off s) (read_whitespace1 E s).
Proof using All.
  intros HI. pose proof (inv_facts s HI) as (H0 & Hc0 & Hle & _).
  unfold read_whitespace1.
  destruct (negb (is_whitespace_or_newline (cur s)) && negb (cur s =? eof)).
  - apply post_err; [lia|]. apply errs_ok_one; lia.
  - eapply post_weaken; [apply rw_plain; assumption|lia|]. auto.
Qed.

(* what readRestOfWhitespaceLine consumes: blanks and a newline, or blanks up to the end *)
Definition rest_line (s s' : state) : Prop :=
  ((exists W, slice t (off s) (off s') = W ++ [10] /\ Forall wsb W) \/
   (cur s' = eof /\ Forall wsb (slice t (off s) (off s')))) /\
  (cur s <> eof -> off s < off s').

Lemma read_rest_spec s : Inv s ->
  post (fun _ s' => rest_line s s') (off s) (read_rest_of_whitespace_line E s).
Proof using All.
  intros HI. pose proof (inv_facts s HI) as (H0 & _ & _ & _ & Hne).
  unfold read_rest_of_whitespace_line. apply post_annot; [prj; lia|].
  step rw_ws as ? s1 HI1 L1 Hw.
  unfold ifM, cur_is. destruct (Z.eqb_spec (cur s1) eof) as [Hc|Hc].
  - apply post_ret_with; [assumption|lia|]. split; [right; auto|].
    intros Hn. pose proof (inv_eof_len E Hlen Hfuel Hdec s1 HI1 Hc). specialize (Hne Hn). lia.
  - step rc_spec as ? s2 HI2 L2 (Ho & Hs). { lia. }
    apply post_ret_with; [assumption|lia|]. split; [|intros; lia]. left. exists (slice t (off s) (off s1)).
    split; [|assumption]. rewrite (slice_app t (off s) (off s1) (off s2)) by lia. now rewrite Hs.
Qed.

Definition comment_text (s s' : state) : Prop :=
  off s < off s' /\ exists m body, slice t (off s) (off s') = m ++ body /\
                 In m [kw_star; kw_slashes; kw_hash] /\ Forall notnl body.

Lemma read_comment_spec s : Inv s ->
  post (fun _ s' => comment_text s s') (off s) (read_comment E s).
Proof using All.
  intros HI. pose proof (inv_facts s HI) as (H0 & _).
  unfold read_comment. apply post_annot; [prj; lia|].
  step ra_spec as r s1 HI1 L1 (Hr & Hlt & Hin).
  { repeat constructor; unfold ascii; lia. }
  { repeat constructor; discriminate. }
  step rw_notnl as ? s2 HI2 L2 Hb.
  apply post_ret_with; [assumption|lia|]. split; [lia|].
  exists (slice t (off s) (off s1)), (slice t (off s1) (off s2)).
  split; [apply slice_app; lia|]. split; assumption.
Qed.

(* ------------------------------------------------------------------ leaves *)

Definition exact_range (s : state) (r : range) (s' : state) : Prop :=
  r = mkRange (off s) (off s') /\ off s < off s'.

Lemma parse_commodity_spec s : Inv s ->
  post (fun r s' => exact_range s r s') (off s) (parse_commodity E s).
Proof using All.
  intros HI. pose proof (inv_facts s HI) as (H0 & _).
  unfold parse_commodity. apply post_annot; [prj; lia|].
  step rw1_plain as ? s1 HI1 L1 Hlt.
  apply post_ret_with; [assumption|lia|]. prj. split; [reflexivity|lia].
Qed.

Lemma parse_decimal_spec s : Inv s ->
  post (fun r s' => exact_range s r s') (off s) (parse_decimal E s).
Proof using All.
  intros HI. pose proof (inv_facts s HI) as (H0 & _).
  unfold parse_decimal. apply post_annot; [prj; lia|].
  eapply post_bind with (Q1 := fun _ s1 => True); [|lia|].
  { unfold ifM. destruct (cur_is 45 s).
    - step rc_spec as ? s1 HI1 L1 _. { lia. } apply post_ret; auto; lia.
    - apply post_ret; auto; lia. }
  intros _ s1 HI1 L1 _.
  step rw1_plain as ? s2 HI2 L2 Hlt.
  unfold ifM. destruct (negb (cur s2 =? 46)).
  - apply post_ret_with; [assumption|lia|]. prj. split; [reflexivity|lia].
  - step rc_spec as ? s3 HI3 L3 _. { lia. }
    step rw1_plain as ? s4 HI4 L4 Hlt4.
    apply post_ret_with; [assumption|lia|]. prj. split; [reflexivity|lia].
Qed.

Definition exact_account (s : state) (a : account) (s' : state) : Prop :=
  acc_range a = mkRange (off s) (off s') /\ off s < off s'.

Lemma account_loop_spec sc : forall n s, Inv s -> 0 <= sc_start sc < off s ->
  len - off s < Z.of_nat n ->
  post (fun a s' => acc_range a = mkRange (sc_start sc) (off s')) (off s) (account_loop E sc n s).
Proof using All.
  induction n as [|n IH]; intros s HI Hsc Hn;
    pose proof (inv_facts s HI) as (H0 & Hc0 & Hle & _); [lia|].
  cbn [account_loop]. unfold ifM. destruct (negb (cur s =? 58)).
  - apply post_ret_with; [assumption|lia|]. reflexivity.
  - step rc_spec as ? s1 HI1 L1 (Ho1 & _). { lia. }
    step rw1_plain as ? s2 HI2 L2 Hlt.
    eapply post_weaken; [apply (IH s2 HI2); lia|lia|]. auto.
Qed.

Lemma parse_account_spec s : Inv s ->
  post (fun a s' => exact_account s a s') (off s) (parse_account E s).
Proof using All.
  intros HI. pose proof (inv_facts s HI) as (H0 & Hc0 & Hle & _).
  unfold parse_account. apply post_annot; [prj; lia|].
  unfold ifM. destruct (cur_is 36 s).
  - step rc_spec as ? s1 HI1 L1 (Ho1 & _). { lia. }
    step rw1_plain as ? s2 HI2 L2 Hlt.
    apply post_ret_with; [assumption|lia|]. unfold exact_account. prj. split; [reflexivity|lia].
  - step rw1_plain as ? s1 HI1 L1 Hlt.
    eapply post_weaken; [apply (account_loop_spec _ (loop_fuel E) s1 HI1); prj; unfold loop_fuel; try lia|lia|].
    intros acc s' _ Hle' Ha. unfold exact_account. prj. split; [assumption|lia].
Qed.

Lemma repeat_m_spec {A} (m : M A) k :
  (forall s, Inv s -> post (fun _ s' => off s < off s') (off s) (m s)) ->
  forall s, Inv s -> post (fun _ s' => (0 < k)%nat -> off s < off s') (off s) (repeat_m k m s).
Proof using All.
  intros Hm. induction k as [|k IH]; intros s HI.
  - cbn [repeat_m]. apply post_ret; [assumption|lia|lia].
  - cbn [repeat_m]. step Hm as ? s1 HI1 L1 Hlt.
    eapply post_weaken; [apply (IH s1 HI1)|lia|]. intros; lia.
Qed.

Lemma parse_date_spec s : Inv s ->
  post (fun r s' => exact_range s r s') (off s) (parse_date E s).
Proof using All.
  intros HI. pose proof (inv_facts s HI) as (H0 & _).
  unfold parse_date. apply post_annot; [prj; lia|].
  step (repeat_m_spec (read_character_with E (e_digit E)) 4) as ? s1 HI1 L1 Hlt.
  { intros. apply rcw_spec; assumption. }
  eapply post_bind with (Q1 := fun _ _ => True); [|lia|].
  { eapply post_weaken; [apply (repeat_m_spec (do _ <- read_character E 45; repeat_m 2 (read_character_with E (e_digit E))) 2)|lia|auto].
    - intros s0 HI0. step rc_spec as ? s0' HI0' L0' (Ho & _). { lia. }
      eapply post_weaken; [apply (repeat_m_spec (read_character_with E (e_digit E)) 2)|lia|].
      + intros. apply rcw_spec; assumption.
      + assumption.
      + intros; lia.
    - assumption. }
  intros _ s2 HI2 L2 _.
  apply post_ret_with; [assumption|lia|]. unfold exact_range. prj. split; [reflexivity|lia].
Qed.

Definition exact_quoted (s : state) (q : quoted) (s' : state) : Prop :=
  qs_range q = mkRange (off s) (off s') /\ off s + 2 <= off s' /\
  qs_content q = mkRange (off s + 1) (off s' - 1).

Lemma parse_quoted_string_spec s : Inv s ->
  post (fun q s' => exact_quoted s q s') (off s) (parse_quoted_string E s).
Proof using All.
  intros HI. pose proof (inv_facts s HI) as (H0 & _).
  unfold parse_quoted_string. apply post_annot; [prj; lia|].
  step rc_spec as ? s1 HI1 L1 (Ho1 & _). { lia. }
  step rw_plain as c s2 HI2 L2 Hc.
  step rc_spec as ? s3 HI3 L3 (Ho3 & _). { lia. }
  apply post_ret_with; [assumption|lia|]. unfold exact_quoted. prj.
  split; [reflexivity|]. split; [lia|]. rewrite Hc. f_equal; lia.
Qed.

Lemma parse_interval_spec s : Inv s ->
  post (fun r s' => exact_range s r s') (off s) (parse_interval E s).
Proof using All.
  intros HI. pose proof (inv_facts s HI) as (H0 & _).
  unfold parse_interval. apply post_annot; [prj; lia|].
  step ra_spec as r s1 HI1 L1 (Hr & Hlt & _).
  { repeat constructor; unfold ascii; lia. }
  { repeat constructor; discriminate. }
  apply post_ret_with; [assumption|lia|]. unfold exact_range. prj. split; [reflexivity|lia].
Qed.

(* ------------------------------------------------------------------ bookings, balances *)

Definition node_spec {A} (rng : A -> range) (wf : Z -> Z -> A -> bool) (s : state) (a : A) (s' : state) : Prop :=
  rng a = mkRange (off s) (off s') /\ off s < off s' /\
  forall lo hi, lo <= off s -> off s' <= hi -> wf lo hi a = true.

Lemma parse_booking_spec s : Inv s ->
  post (node_spec bk_range wf_booking s) (off s) (parse_booking E s).
Proof using All.
  intros HI. pose proof (inv_facts s HI) as (H0 & _).
  unfold parse_booking. apply post_annot; [prj; lia|].
  step parse_account_spec as c s1 HI1 L1 (Hc & Hc').
  step rw1_plain as ? s2 HI2 L2 Hlt2.
  step parse_account_spec as d s3 HI3 L3 (Hd & Hd').
  step rw1_plain as ? s4 HI4 L4 Hlt4.
  step parse_decimal_spec as q s5 HI5 L5 (Hq & Hq').
  step rw1_plain as ? s6 HI6 L6 Hlt6.
  step parse_commodity_spec as m s7 HI7 L7 (Hm & Hm').
  apply post_ret_with; [assumption|lia|]. unfold node_spec. prj.
  split; [reflexivity|]. split; [lia|]. intros lo hi Hlo Hhi.
  unfold wf_booking, rng_in. prj. rewrite Hc, Hd, Hq, Hm. cbn [ordered_in]. prj. lia.
Qed.

Lemma parse_balance_spec s : Inv s ->
  post (node_spec bl_range wf_balance s) (off s) (parse_balance E s).
Proof using All.
  intros HI. pose proof (inv_facts s HI) as (H0 & _).
  unfold parse_balance. apply post_annot; [prj; lia|].
  step parse_account_spec as c s1 HI1 L1 (Hc & Hc').
  step read_whitespace1_spec as ? s2 HI2 L2 _.
  step parse_decimal_spec as q s3 HI3 L3 (Hq & Hq').
  step read_whitespace1_spec as ? s4 HI4 L4 _.
  step parse_commodity_spec as m s5 HI5 L5 (Hm & Hm').
  apply post_ret_with; [assumption|lia|]. unfold node_spec. prj.
  split; [reflexivity|]. split; [lia|]. intros lo hi Hlo Hhi.
  unfold wf_balance, rng_in. prj. rewrite Hc, Hq, Hm. cbn [ordered_in]. prj. lia.
Qed.

(* ------------------------------------------------------------------ ordered_in *)

Lemma ordered_in_lo lo lo' hi rs : ordered_in lo hi rs = true -> lo' <= lo -> ordered_in lo' hi rs = true.
Proof using All. destruct rs; cbn [ordered_in]; lia. Qed.

Lemma ordered_in_hi lo hi hi' rs : ordered_in lo hi rs = true -> hi <= hi' -> ordered_in lo hi' rs = true.
Proof using All.
  revert lo; induction rs as [|r rs IH]; intros lo H Hh; cbn [ordered_in] in *; [lia|].
  assert (ordered_in (r_end r) hi rs = true) by lia. specialize (IH _ H0 Hh). lia.
Qed.

Lemma ordered_in_app lo mid hi xs ys :
  ordered_in lo mid xs = true -> ordered_in mid hi ys = true -> ordered_in lo hi (xs ++ ys) = true.
Proof using All.
  revert lo; induction xs as [|r xs IH]; intros lo Hx Hy; cbn [ordered_in app] in *.
  - apply (ordered_in_lo mid); [assumption|lia].
  - assert (H1 : ordered_in (r_end r) mid xs = true) by lia. specialize (IH _ H1 Hy). lia.
Qed.

Lemma ordered_in_bounds lo hi rs : ordered_in lo hi rs = true -> lo <= hi.
Proof using All.
  revert lo; induction rs as [|r rs IH]; intros lo H; cbn [ordered_in] in *; [lia|].
  assert (H1 : ordered_in (r_end r) hi rs = true) by lia. specialize (IH _ H1). lia.
Qed.

Lemma str_eqb_refl a : str_eqb a a = true.
Proof using All. now apply str_eqb_eq. Qed.

Lemma extend_kw a b c : a <= b -> b <= c -> extend (mkRange b c) (mkRange a b) = mkRange a c.
Proof using All.
  intros Hab Hbc. unfold extend. prj.
  destruct (Z.ltb_spec a b); destruct (Z.ltb_spec c b); f_equal; lia.
Qed.

(* ------------------------------------------------------------------ addons *)

Lemma performance_loop_spec : forall n s, Inv s -> len - off s < Z.of_nat n ->
  post (fun cs s' => forall lo hi, lo <= off s -> off s' <= hi -> ordered_in lo hi cs = true)
       (off s) (performance_loop E n s).
Proof using All.
  induction n as [|n IH]; intros s HI Hn;
    pose proof (inv_facts s HI) as (H0 & Hc0 & Hle & _); [lia|].
  cbn [performance_loop]. unfold ifM. destruct (cur_is 44 s).
  - step rc_spec as ? s1 HI1 L1 (Ho1 & _). { lia. }
    step rw_plain as ? s2 HI2 L2 _.
    step parse_commodity_spec as c s3 HI3 L3 (Hc & Hc').
    step rw_plain as ? s4 HI4 L4 _.
    step IH as cs s5 HI5 L5 Hcs. { lia. }
    apply post_ret; [assumption|lia|]. intros lo hi Hlo Hhi.
    cbn [ordered_in]. rewrite Hc. prj. rewrite (Hcs (off s3) hi) by lia. lia.
  - apply post_ret; [assumption|lia|]. intros lo hi Hlo Hhi. cbn [ordered_in]. lia.
Qed.

Definition perf_spec (s : state) (p : performance) (s' : state) : Prop :=
  pf_range p = mkRange (off s) (off s') /\ off s < off s' /\
  forall lo hi, lo <= off s -> off s' <= hi -> ordered_in lo hi (pf_targets p) = true.

Lemma parse_performance_spec s : Inv s ->
  post (perf_spec s) (off s) (parse_performance E s).
Proof using All.
  intros HI. pose proof (inv_facts s HI) as (H0 & _).
  unfold parse_performance. apply post_annot; [prj; lia|].
  step rc_spec as ? s1 HI1 L1 (Ho1 & _). { lia. }
  step rw_plain as ? s2 HI2 L2 _.
  eapply post_bind with (Q1 := fun first s3 =>
    forall lo mid, lo <= off s2 -> off s3 <= mid -> ordered_in lo mid first = true); [|lia|].
  { unfold ifM. destruct (negb (cur s2 =? 41)).
    - step parse_commodity_spec as c s3 HI3 L3 (Hc & Hc').
      step rw_plain as ? s4 HI4 L4 _.
      apply post_ret; [assumption|lia|]. intros lo mid Hlo Hmid. cbn [ordered_in]. rewrite Hc. prj. lia.
    - apply post_ret; [assumption|lia|]. intros lo mid Hlo Hmid. cbn [ordered_in]. lia. }
  intros first s3 HI3 L3 Hfirst.
  step performance_loop_spec as more s4 HI4 L4 Hmore. { unfold loop_fuel. pose proof (inv_facts s3 HI3). lia. }
  step rc_spec as ? s5 HI5 L5 (Ho5 & _). { lia. }
  apply post_ret_with; [assumption|lia|]. unfold perf_spec. prj.
  split; [reflexivity|]. split; [lia|]. intros lo hi Hlo Hhi.
  apply (ordered_in_app lo (off s3) hi); [apply Hfirst; lia | apply Hmore; lia].
Qed.

Definition accrual_spec (s : state) (a : accrual) (s' : state) : Prop :=
  ac_range a = mkRange (off s) (off s') /\
  forall lo hi, lo <= off s -> off s' <= hi ->
    ordered_in lo hi [ac_interval a; ac_start a; ac_end a; acc_range (ac_account a)] = true.

Lemma parse_accrual_spec s : Inv s ->
  post (accrual_spec s) (off s) (parse_accrual E s).
Proof using All.
  intros HI. pose proof (inv_facts s HI) as (H0 & _).
  unfold parse_accrual. apply post_annot; [prj; lia|].
  step read_whitespace1_spec as ? s1 HI1 L1 _.
  step parse_interval_spec as iv s2 HI2 L2 (Hiv & _).
  step read_whitespace1_spec as ? s3 HI3 L3 _.
  step parse_date_spec as st s4 HI4 L4 (Hst & _).
  step read_whitespace1_spec as ? s5 HI5 L5 _.
  step parse_date_spec as en s6 HI6 L6 (Hen & _).
  step read_whitespace1_spec as ? s7 HI7 L7 _.
  step parse_account_spec as acc s8 HI8 L8 (Ha & _).
  apply post_ret_with; [assumption|lia|]. unfold accrual_spec. prj.
  split; [reflexivity|]. intros lo hi Hlo Hhi. cbn [ordered_in]. rewrite Hiv, Hst, Hen, Ha. prj. lia.
Qed.

Lemma replace_err_spec {A} (m : M A) s o (Q : A -> state -> Prop) :
  post Q o (m s) -> post Q o (replace_err m s).
Proof using All.
  intros Hm. unfold replace_err. destruct (m s) as [a s1|e s1|]; cbn [ScannerProofs.post] in Hm.
  - exact Hm.
  - destruct Hm as (Hle & _). apply post_err; [lia|]. apply errs_ok_one; lia.
  - contradiction.
Qed.

(* the accumulated addons inside [S, o] *)
Definition acc_ok (S o : Z) (ad : addons) : Prop :=
  (is_zero_perf (ad_perf ad) = true \/ wf_perf S o (ad_perf ad) = true) /\
  (is_zero_accrual (ad_accrual ad) = true \/ wf_accrual S o (ad_accrual ad) = true) /\
  (is_zero_perf (ad_perf ad) = true \/ is_zero_accrual (ad_accrual ad) = true \/
   disjoint_b (pf_range (ad_perf ad)) (ac_range (ad_accrual ad)) = true).

Lemma acc_ok_weaken S o o' ad : acc_ok S o ad -> o <= o' -> acc_ok S o' ad.
Proof using All.
  unfold acc_ok, wf_perf, wf_accrual, rng_in. intros (H1 & H2 & H3) Ho. repeat split; try assumption; lia.
Qed.

Lemma addons_loop_spec sc : forall n s ad, Inv s -> 0 <= sc_start sc <= off s ->
  len - off s < Z.of_nat n -> acc_ok (sc_start sc) (off s) ad ->
  post (fun a s' => ad_range a = mkRange (sc_start sc) (off s') /\ sc_start sc < off s' /\
                    acc_ok (sc_start sc) (off s') a)
       (off s) (addons_loop E sc n ad s).
Proof using All.
  induction n as [|n IH]; intros s ad HI Hsc Hn Hacc;
    pose proof (inv_facts s HI) as (H0 & Hc0 & Hle & _); [lia|].
  cbn [addons_loop].
  step ra_spec as r s1 HI1 L1 (Hr & Hlt & _).
  { repeat constructor; unfold ascii; lia. }
  { repeat constructor; discriminate. }
  pose proof (inv_facts s1 HI1) as (_ & Hc1 & Hle1 & _).
  eapply post_bind with (Q1 := fun ad' s2 => acc_ok (sc_start sc) (off s2) ad'); [|lia|].
  { destruct Hacc as (Hp & Ha & Hd).
    destruct (str_eqb (extract E r) kw_performance).
    - destruct (negb (range_empty (pf_range (ad_perf ad)))) eqn:Hemp.
      + apply post_err; [lia|]. rewrite Hr. prj. apply errs_ok_one; lia.
      + step parse_performance_spec as p s2 HI2 L2 (Hpr & Hplt & Hpt).
        apply post_ret; [assumption|lia|]. unfold acc_ok. prj.
        assert (Hz : is_zero_perf (ad_perf ad) = true \/ True) by auto.
        rewrite Hpr, Hr, (extend_kw (off s) (off s1) (off s2)) by lia.
        split; [right|split].
        * unfold wf_perf, rng_in. prj. rewrite (Hpt (off s) (off s2)) by lia. lia.
        * destruct Ha as [Ha|Ha]; [now left|right].
          revert Ha. unfold wf_accrual, rng_in. lia.
        * destruct Ha as [Ha|Ha]; [right; now left|right; right].
          revert Ha. unfold wf_accrual, rng_in, disjoint_b. prj. lia.
    - destruct (str_eqb (extract E r) kw_accrue).
      + destruct (negb (range_empty (ac_range (ad_accrual ad)))) eqn:Hemp.
        * apply post_err; [lia|]. rewrite Hr. prj. apply errs_ok_one; lia.
        * step parse_accrual_spec as acr s2 HI2 L2 (Har & Hat).
          apply post_ret; [assumption|lia|]. unfold acc_ok. prj.
          rewrite Har, Hr, (extend_kw (off s) (off s1) (off s2)) by lia.
          split; [|split].
          -- destruct Hp as [Hp|Hp]; [now left|right].
             revert Hp. unfold wf_perf, rng_in. lia.
          -- right. unfold wf_accrual, rng_in. prj. rewrite (Hat (off s) (off s2)) by lia. lia.
          -- destruct Hp as [Hp|Hp]; [now left|right; right].
             revert Hp. unfold wf_perf, rng_in, disjoint_b. prj. lia.
      + apply post_ok; [assumption|lia|].
        apply (acc_ok_weaken _ (off s)); [|lia]. repeat split; assumption. }
  intros ad' s2 HI2 L2 Hacc2.
  eapply post_bind with (Q1 := fun _ s3 => True); [apply replace_err_spec; eapply post_weaken; [apply read_rest_spec; assumption|lia|auto]|lia|].
  intros _ s3 HI3 L3 _.
  unfold ifM. destruct (negb (cur s3 =? 64)).
  - apply post_ret_with; [assumption|lia|]. prj. split; [reflexivity|]. split; [lia|].
    apply (acc_ok_weaken _ (off s2)); [|lia].
    destruct Hacc2 as (A1 & A2 & A3). unfold acc_ok. prj. auto.
  - eapply post_weaken; [apply (IH s3 ad' HI3); try lia|lia|auto].
    apply (acc_ok_weaken _ (off s2)); [assumption|lia].
Qed.

Definition addons_spec (s : state) (a : addons) (s' : state) : Prop :=
  ad_range a = mkRange (off s) (off s') /\ off s < off s' /\
  forall lo hi, lo <= off s -> off s' <= hi -> wf_addons lo hi a = true.

Lemma parse_addons_spec s : Inv s ->
  post (addons_spec s) (off s) (parse_addons E s).
Proof using All.
  intros HI. pose proof (inv_facts s HI) as (H0 & Hc0 & Hle & _).
  unfold parse_addons. apply post_annot; [prj; lia|].
  eapply post_weaken; [apply (addons_loop_spec _ (loop_fuel E) s zero_addons HI); prj; unfold loop_fuel; try lia|lia|].
  - unfold acc_ok. repeat split; left; reflexivity.
  - intros a s' _ Hle' (Hr & Hlt & (A1 & A2 & A3)). prj. unfold addons_spec.
    split; [assumption|]. split; [assumption|]. intros lo hi Hlo Hhi.
    unfold wf_addons. rewrite Hr. unfold rng_in. prj.
    assert (B1 : is_zero_perf (ad_perf a) || wf_perf (off s) (off s') (ad_perf a) = true) by (destruct A1 as [->| ->]; lia).
    assert (B2 : is_zero_accrual (ad_accrual a) || wf_accrual (off s) (off s') (ad_accrual a) = true) by (destruct A2 as [->| ->]; lia).
    assert (B3 : is_zero_perf (ad_perf a) || is_zero_accrual (ad_accrual a) ||
                 disjoint_b (pf_range (ad_perf a)) (ac_range (ad_accrual a)) = true)
      by (destruct A3 as [->|[->| ->]]; lia).
    lia.
Qed.

(* ------------------------------------------------------------------ directive kinds *)

Lemma parse_include_spec s : Inv s ->
  post (fun i s' => in_range i = mkRange (off s) (off s') /\ off s < off s' /\
                    forall lo hi, lo <= off s -> off s' <= hi -> wf_include lo hi i = true)
       (off s) (parse_include E s).
Proof using All.
  intros HI. pose proof (inv_facts s HI) as (H0 & _).
  unfold parse_include. apply post_annot; [prj; lia|].
  step read_string_spec as ? s1 HI1 L1 (_ & Ho1 & _). { repeat constructor; unfold ascii; lia. }
  step read_whitespace1_spec as ? s2 HI2 L2 _.
  step parse_quoted_string_spec as q s3 HI3 L3 (Hq & Hq2 & Hqc).
  apply post_ret_with; [assumption|lia|]. prj.
  split; [reflexivity|]. split; [lia|]. intros lo hi Hlo Hhi.
  unfold wf_include, wf_quoted, rng_in. prj. rewrite Hq, Hqc. prj. lia.
Qed.

(* the context of the payload parsers: scope start S, date inside [S, off s] *)
Lemma parse_open_spec sc date s : Inv s -> 0 <= sc_start sc -> rng_in (sc_start sc) (off s) date = true ->
  post (fun o s' => op_range o = mkRange (sc_start sc) (off s') /\
                    wf_open (sc_start sc) (off s') o = true)
       (off s) (parse_open E sc date s).
Proof using All.
  intros HI Hsc Hd. pose proof (inv_facts s HI) as (H0 & _). unfold rng_in in Hd.
  unfold parse_open. apply post_annot; [prj; lia|].
  step parse_account_spec as a s1 HI1 L1 (Ha & _).
  apply post_ret_with; [assumption|lia|]. prj. split; [reflexivity|].
  unfold wf_open, rng_in. prj. cbn [ordered_in]. rewrite Ha. prj. lia.
Qed.

Lemma parse_close_spec sc date s : Inv s -> 0 <= sc_start sc -> rng_in (sc_start sc) (off s) date = true ->
  post (fun o s' => cl_range o = mkRange (sc_start sc) (off s') /\
                    wf_close (sc_start sc) (off s') o = true)
       (off s) (parse_close E sc date s).
Proof using All.
  intros HI Hsc Hd. pose proof (inv_facts s HI) as (H0 & _). unfold rng_in in Hd.
  unfold parse_close. apply post_annot; [prj; lia|].
  step parse_account_spec as a s1 HI1 L1 (Ha & _).
  apply post_ret_with; [assumption|lia|]. prj. split; [reflexivity|].
  unfold wf_close, rng_in. prj. cbn [ordered_in]. rewrite Ha. prj. lia.
Qed.

Definition list_spec {A} (rng : A -> range) (wf : Z -> Z -> A -> bool) (s : state) (l : list A) (s' : state) : Prop :=
  l <> [] /\ off s < off s' /\
  forall lo hi, lo <= off s -> off s' <= hi ->
    ordered_in lo hi (map rng l) = true /\ forallb (wf lo hi) l = true.

Lemma balances_loop_spec : forall n s, Inv s -> len - off s < Z.of_nat n ->
  post (list_spec bl_range wf_balance s) (off s) (balances_loop E n s).
Proof using All.
  induction n as [|n IH]; intros s HI Hn;
    pose proof (inv_facts s HI) as (H0 & Hc0 & Hle & _); [lia|].
  cbn [balances_loop].
  step parse_balance_spec as b s1 HI1 L1 (Hb & Hblt & Hbw).
  step read_rest_spec as ? s2 HI2 L2 _.
  unfold ifM. destruct (is_whitespace_or_newline (cur s2) || (cur s2 =? eof)).
  - apply post_ret; [assumption|lia|]. unfold list_spec.
    split; [discriminate|]. split; [lia|]. intros lo hi Hlo Hhi.
    cbn [map ordered_in forallb]. rewrite Hb, (Hbw lo hi) by lia. prj. lia.
  - step IH as bs s3 HI3 L3 (Hne & Hlt & Hbs). { lia. }
    apply post_ret; [assumption|lia|]. unfold list_spec.
    split; [discriminate|]. split; [lia|]. intros lo hi Hlo Hhi.
    cbn [map ordered_in forallb]. rewrite Hb, (Hbw lo hi) by lia. prj.
    destruct (Hbs (off s1) hi) as (B1 & _); [lia|lia|].
    destruct (Hbs lo hi) as (_ & B2); [lia|lia|]. lia.
Qed.

Lemma bookings_loop_spec : forall n s, Inv s -> len - off s < Z.of_nat n ->
  post (list_spec bk_range wf_booking s) (off s) (bookings_loop E n s).
Proof using All.
  induction n as [|n IH]; intros s HI Hn;
    pose proof (inv_facts s HI) as (H0 & Hc0 & Hle & _); [lia|].
  cbn [bookings_loop].
  step parse_booking_spec as b s1 HI1 L1 (Hb & Hblt & Hbw).
  step read_rest_spec as ? s2 HI2 L2 _.
  unfold ifM. destruct (is_whitespace_or_newline (cur s2) || (cur s2 =? eof)).
  - apply post_ret; [assumption|lia|]. unfold list_spec.
    split; [discriminate|]. split; [lia|]. intros lo hi Hlo Hhi.
    cbn [map ordered_in forallb]. rewrite Hb, (Hbw lo hi) by lia. prj. lia.
  - step IH as bs s3 HI3 L3 (Hne & Hlt & Hbs). { lia. }
    apply post_ret; [assumption|lia|]. unfold list_spec.
    split; [discriminate|]. split; [lia|]. intros lo hi Hlo Hhi.
    cbn [map ordered_in forallb]. rewrite Hb, (Hbw lo hi) by lia. prj.
    destruct (Hbs (off s1) hi) as (B1 & _); [lia|lia|].
    destruct (Hbs lo hi) as (_ & B2); [lia|lia|]. lia.
Qed.

Lemma nonempty_match {A} (l : list A) : l <> [] -> match l with [] => false | _ => true end = true.
Proof using All. destruct l; congruence. Qed.

Lemma parse_assertion_spec sc date s : Inv s -> 0 <= sc_start sc -> rng_in (sc_start sc) (off s) date = true ->
  post (fun a s' => as_range a = mkRange (sc_start sc) (off s') /\
                    wf_assertion (sc_start sc) (off s') a = true)
       (off s) (parse_assertion E sc date s).
Proof using All.
  intros HI Hsc Hd. pose proof (inv_facts s HI) as (H0 & Hc0 & Hle & _). unfold rng_in in Hd.
  unfold parse_assertion. apply post_annot; [prj; lia|].
  unfold ifM. destruct (is_newline (cur s)).
  - step read_rest_spec as ? s1 HI1 L1 _.
    step balances_loop_spec as bs s2 HI2 L2 (Hne & Hlt & Hbs).
    { unfold loop_fuel. pose proof (inv_facts s1 HI1). lia. }
    apply post_ret_with; [assumption|lia|]. prj. split; [reflexivity|].
    unfold wf_assertion, rng_in. prj. cbn [ordered_in].
    destruct (Hbs (r_end date) (off s2)) as (B1 & _); [lia|lia|].
    destruct (Hbs (sc_start sc) (off s2)) as (_ & B2); [lia|lia|].
    rewrite (nonempty_match bs Hne). lia.
  - step parse_balance_spec as b s1 HI1 L1 (Hb & Hblt & Hbw).
    apply post_ret_with; [assumption|lia|]. prj. split; [reflexivity|].
    unfold wf_assertion, rng_in. prj. cbn [map ordered_in forallb].
    rewrite Hb, (Hbw (sc_start sc) (off s1)) by lia. prj. lia.
Qed.

Lemma parse_price_spec sc date s : Inv s -> 0 <= sc_start sc -> rng_in (sc_start sc) (off s) date = true ->
  post (fun p s' => pr_range p = mkRange (sc_start sc) (off s') /\
                    wf_price (sc_start sc) (off s') p = true)
       (off s) (parse_price E sc date s).
Proof using All.
  intros HI Hsc Hd. pose proof (inv_facts s HI) as (H0 & _). unfold rng_in in Hd.
  unfold parse_price.
  eapply post_bind with (Q1 := fun cp s4 => ordered_in (off s) (off s4) [fst cp; snd cp] = true); [|lia|].
  { apply post_annot; [prj; lia|].
    step parse_commodity_spec as c s1 HI1 L1 (Hc & _).
    step read_whitespace1_spec as ? s2 HI2 L2 _.
    step parse_decimal_spec as p s3 HI3 L3 (Hp & _).
    step read_whitespace1_spec as ? s4 HI4 L4 _.
    apply post_ret; [assumption|lia|]. prj. cbn [ordered_in]. rewrite Hc, Hp. prj. lia. }
  intros cp s4 HI4 L4 Hcp. cbn [ordered_in] in Hcp.
  step parse_commodity_spec as tg s5 HI5 L5 (Htg & _).
  apply post_ret_with; [assumption|lia|]. prj. split; [reflexivity|].
  unfold wf_price, rng_in. prj. cbn [ordered_in]. rewrite Htg. prj. lia.
Qed.

Lemma parse_transaction_spec sc date ad s : Inv s -> 0 <= sc_start sc ->
  ordered_in (sc_start sc) (off s) (addons_ranges ad ++ [date]) = true ->
  is_zero_addons ad || wf_addons (sc_start sc) (off s) ad = true ->
  post (fun x s' => tx_range x = mkRange (sc_start sc) (off s') /\
                    wf_transaction (sc_start sc) (off s') x = true)
       (off s) (parse_transaction E sc date ad s).
Proof using All.
  intros HI Hsc Hpre Had. pose proof (inv_facts s HI) as (H0 & _).
  pose proof (ordered_in_bounds _ _ _ Hpre) as Hb0.
  unfold parse_transaction. apply post_annot; [prj; lia|].
  step parse_quoted_string_spec as q s1 HI1 L1 (Hq & Hq2 & Hqc).
  step read_rest_spec as ? s2 HI2 L2 _.
  step bookings_loop_spec as bs s3 HI3 L3 (Hne & Hlt & Hbs).
  { unfold loop_fuel. pose proof (inv_facts s2 HI2). lia. }
  apply post_ret_with; [assumption|lia|]. prj. split; [reflexivity|].
  unfold wf_transaction. prj.
  destruct (Hbs (off s1) (off s3)) as (B1 & _); [lia|lia|].
  destruct (Hbs (sc_start sc) (off s3)) as (_ & B2); [lia|lia|].
  rewrite (nonempty_match bs Hne), B2.
  assert (C1 : ordered_in (sc_start sc) (off s3)
                 (addons_ranges ad ++ date :: qs_range q :: map bk_range bs) = true).
  { replace (addons_ranges ad ++ date :: qs_range q :: map bk_range bs)
      with ((addons_ranges ad ++ [date]) ++ qs_range q :: map bk_range bs)
      by (rewrite <- app_assoc; reflexivity).
    apply (ordered_in_app _ (off s)); [assumption|].
    cbn [ordered_in]. rewrite Hq. prj. lia. }
  rewrite C1.
  assert (C2 : is_zero_addons ad || wf_addons (sc_start sc) (off s3) ad = true).
  { revert Had. unfold wf_addons, rng_in. lia. }
  rewrite C2. unfold wf_quoted, rng_in. rewrite Hq, Hqc. prj. lia.
Qed.

(* ------------------------------------------------------------------ directive *)

Definition directive_spec (s : state) (d : directive) (s' : state) : Prop :=
  d_range d = mkRange (off s) (off s') /\ off s < off s' /\
  forall lo hi, lo <= off s -> off s' <= hi -> wf_directive lo hi d = true.

Lemma parse_directive_spec s : Inv s ->
  post (directive_spec s) (off s) (parse_directive E s).
Proof using All.
  intros HI. pose proof (inv_facts s HI) as (H0 & Hc0 & Hle & _).
  unfold parse_directive. apply post_annot; [prj; lia|].
  set (sc := new_scope DDir s).
  assert (Hsc : sc_start sc = off s) by reflexivity.
  eapply post_bind with (Q1 := fun ad s1 =>
     ordered_in (off s) (off s1) (addons_ranges ad) = true /\
     is_zero_addons ad || wf_addons (off s) (off s1) ad = true); [|lia|].
  { unfold ifM. destruct (cur_is 64 s).
    - eapply post_weaken; [apply parse_addons_spec; assumption|lia|].
      intros ad s1 HI1 L1 (Har & Hlt & Hw). rewrite (Hw (off s) (off s1)) by lia.
      split; [|lia]. unfold addons_ranges. destruct (is_zero_addons ad); cbn [ordered_in]; [lia|].
      rewrite Har. prj. lia.
    - apply post_ret; [assumption|lia|]. split; [|reflexivity].
      unfold addons_ranges. replace (is_zero_addons zero_addons) with true by reflexivity.
      cbn [ordered_in]. lia. }
  intros ad s1 HI1 L1 (Hado & Hadw).
  unfold ifM at 1. destruct (cur_is 105 s1).
  - step parse_include_spec as i s2 HI2 L2 (Hi & Hilt & Hiw).
    apply post_ret_with; [assumption|lia|]. unfold directive_spec. prj. rewrite Hsc.
    split; [reflexivity|]. split; [lia|]. intros lo hi Hlo Hhi.
    unfold wf_directive, wf_body, rng_in, nonempty_range. prj.
    rewrite (Hiw (off s) (off s2)) by lia. rewrite Hi. prj. lia.
  - step parse_date_spec as date s2 HI2 L2 (Hdate & Hdlt).
    step read_whitespace1_spec as ? s3 HI3 L3 _.
    assert (Hdr : rng_in (sc_start sc) (off s3) date = true).
    { unfold rng_in. rewrite Hdate, Hsc. prj. lia. }
    unfold ifM at 1. destruct (cur_is 34 s3).
    + step parse_transaction_spec as x s4 HI4 L4 (Hx & Hxw).
      { rewrite Hsc. apply (ordered_in_app _ (off s1)); [assumption|].
        cbn [ordered_in]. rewrite Hdate. prj. lia. }
      { rewrite Hsc. revert Hadw. unfold wf_addons, rng_in. lia. }
      apply post_ret_with; [assumption|lia|]. unfold directive_spec. prj. rewrite Hsc in *.
      split; [reflexivity|]. split; [lia|]. intros lo hi Hlo Hhi.
      unfold wf_directive, wf_body, rng_in, nonempty_range, range_eqb. prj.
      rewrite Hxw, Hx. prj. lia.
    + step ra_spec as kw s4 HI4 L4 (Hkw & Hkwlt & Hin).
      { repeat constructor; unfold ascii; lia. }
      { repeat constructor; discriminate. }
      step read_whitespace1_spec as ? s5 HI5 L5 _.
      assert (Hdr5 : rng_in (sc_start sc) (off s5) date = true).
      { unfold rng_in. rewrite Hdate, Hsc. prj. lia. }
      assert (Hex : extract E kw = slice t (off s3) (off s4)) by (rewrite Hkw; reflexivity).
      destruct (str_eqb (extract E kw) kw_open) eqn:E1; [|
      destruct (str_eqb (extract E kw) kw_close) eqn:E2; [|
      destruct (str_eqb (extract E kw) kw_balance) eqn:E3; [|
      destruct (str_eqb (extract E kw) kw_price) eqn:E4]]].
      * step parse_open_spec as x s6 HI6 L6 (Hx & Hxw).
        apply post_ret_with; [assumption|lia|]. unfold directive_spec. prj. rewrite Hsc in *.
        split; [reflexivity|]. split; [lia|]. intros lo hi Hlo Hhi.
        unfold wf_directive, wf_body, rng_in, nonempty_range, range_eqb. prj.
        rewrite Hxw, Hx. prj. lia.
      * step parse_close_spec as x s6 HI6 L6 (Hx & Hxw).
        apply post_ret_with; [assumption|lia|]. unfold directive_spec. prj. rewrite Hsc in *.
        split; [reflexivity|]. split; [lia|]. intros lo hi Hlo Hhi.
        unfold wf_directive, wf_body, rng_in, nonempty_range, range_eqb. prj.
        rewrite Hxw, Hx. prj. lia.
      * step parse_assertion_spec as x s6 HI6 L6 (Hx & Hxw).
        apply post_ret_with; [assumption|lia|]. unfold directive_spec. prj. rewrite Hsc in *.
        split; [reflexivity|]. split; [lia|]. intros lo hi Hlo Hhi.
        unfold wf_directive, wf_body, rng_in, nonempty_range, range_eqb. prj.
        rewrite Hxw, Hx. prj. lia.
      * step parse_price_spec as x s6 HI6 L6 (Hx & Hxw).
        apply post_ret_with; [assumption|lia|]. unfold directive_spec. prj. rewrite Hsc in *.
        split; [reflexivity|]. split; [lia|]. intros lo hi Hlo Hhi.
        unfold wf_directive, wf_body, rng_in, nonempty_range, range_eqb. prj.
        rewrite Hxw, Hx. prj. lia.
      * exfalso. rewrite Hex in *.
        destruct Hin as [Hin|[Hin|[Hin|[Hin|[]]]]]; rewrite <- Hin in *;
          rewrite str_eqb_refl in *; discriminate.
Qed.

(* ------------------------------------------------------------------ gaps *)

Definition line_ok (f : bool) (l : str) : Prop := line_ok_b f l = true /\ Forall notnl l.

(* gap_ok first_ws open_end g: g is a sequence of gap lines *)
Inductive gap_ok : bool -> bool -> str -> Prop :=
| gap_nil f o : gap_ok f o []
| gap_open f l : line_ok f l -> gap_ok f true l
| gap_line f o l g : line_ok f l -> gap_ok false o g -> gap_ok f o (l ++ 10 :: g).

Lemma split_nl_nonnil g : split_nl g <> [].
Proof using All.
  induction g as [|b g IH]; cbn [split_nl]; [discriminate|].
  destruct (b =? 10); [discriminate|]. destruct (split_nl g); [congruence|discriminate].
Qed.

Lemma split_nl_line l g : Forall notnl l -> split_nl (l ++ 10 :: g) = l :: split_nl g.
Proof using All.
  induction 1 as [|b l Hb Hl IH]; cbn [app split_nl].
  - reflexivity.
  - unfold notnl in Hb. destruct (Z.eqb_spec b 10); [contradiction|]. now rewrite IH.
Qed.

Lemma split_nl_open l : Forall notnl l -> split_nl l = [l].
Proof using All.
  induction 1 as [|b l Hb Hl IH]; cbn [split_nl]; [reflexivity|].
  unfold notnl in Hb. destruct (Z.eqb_spec b 10); [contradiction|]. now rewrite IH.
Qed.

Lemma gap_ok_b_complete f o g : gap_ok f o g -> gap_ok_b f o g = true.
Proof using All.
  unfold gap_ok_b. induction 1 as [f o|f l (Hl & Hn)|f o l g (Hl & Hn) Hg IH].
  - reflexivity.
  - rewrite (split_nl_open l Hn). cbn [lines_ok_b]. destruct l; [reflexivity|]. now rewrite Hl.
  - rewrite (split_nl_line l g Hn). pose proof (split_nl_nonnil g) as Hne.
    destruct (split_nl g) as [|x xs]; [congruence|].
    cbn [lines_ok_b] in *. rewrite Hl, IH. reflexivity.
Qed.

Fixpoint gaps (pos : Z) (after : bool) (ds : list directive) : Prop :=
  match ds with
  | [] => gap_ok after true (slice t pos len)
  | d :: ds' =>
    pos <= r_start (d_range d) /\ (after = true -> pos < r_start (d_range d)) /\
    gap_ok after false (slice t pos (r_start (d_range d))) /\
    gaps (r_end (d_range d)) true ds'
  end.

Lemma gaps_b_complete ds : forall pos after, gaps pos after ds -> gaps_b t pos after ds = true.
Proof using All.
  induction ds as [|d ds IH]; intros pos after H; cbn [gaps gaps_b] in *.
  - unfold zlen. rewrite <- Hlen. now apply gap_ok_b_complete.
  - destruct H as (H1 & H2 & H3 & H4).
    rewrite (gap_ok_b_complete _ _ _ H3), (IH _ _ H4).
    destruct after; [specialize (H2 eq_refl)|]; lia.
Qed.

Lemma wsb_notnl l : Forall wsb l -> Forall notnl l.
Proof using All.
  apply Forall_impl. unfold wsb, is_ws_byte, notnl. intros; lia.
Qed.

Lemma wsb_ws_only l : Forall wsb l -> ws_only l = true.
Proof using All.
  intros H. unfold ws_only. apply forallb_forall. rewrite Forall_forall in H. exact H.
Qed.

Lemma ws_only_wsb l : ws_only l = true -> Forall wsb l.
Proof using All.
  unfold ws_only. rewrite forallb_forall, Forall_forall. auto.
Qed.

(* a partial line X followed by blanks W is still a gap line *)
Lemma line_ok_b_app f X W : line_ok_b f X = true -> Forall wsb W -> line_ok_b f (X ++ W) = true.
Proof using All.
  unfold line_ok_b. intros H HW.
  destruct (ws_only X) eqn:Hx.
  - assert (ws_only (X ++ W) = true).
    { apply wsb_ws_only, Forall_app. split; [now apply ws_only_wsb|assumption]. }
    lia.
  - assert (Hc : negb f && is_comment_line X = true) by lia.
    assert (is_comment_line (X ++ W) = true).
    { destruct X as [|b [|c X']]; cbn [is_comment_line app] in *; [lia| |lia].
      destruct W; lia. }
    lia.
Qed.

Lemma gaps_extend a b f l ds :
  0 <= a < b -> b <= len -> slice t a b = l ++ [10] -> line_ok f l ->
  gaps b false ds -> gaps a f ds.
Proof using All.
  intros Hab Hb Hs Hl Hg. destruct ds as [|d ds]; cbn [gaps] in *.
  - rewrite (slice_app t a b len) by lia. rewrite Hs, <- app_assoc. cbn [app].
    now apply gap_line.
  - destruct Hg as (H1 & _ & H3 & H4). split; [lia|]. split; [intros; lia|]. split; [|assumption].
    rewrite (slice_app t a b (r_start (d_range d))) by lia. rewrite Hs, <- app_assoc. cbn [app].
    now apply gap_line.
Qed.

(* ------------------------------------------------------------------ the file loop *)

Definition loop_post (p0 : Z) (f : bool) (o : Z) (ds : list directive) (s' : state) : Prop :=
  cur s' = eof /\ gaps p0 f ds /\
  (forall lo, lo <= o -> ordered_in lo len (map d_range ds) = true) /\
  forallb (wf_directive 0 len) ds = true.

Lemma tail_spec n (od : option directive) p0 f s1 :
  (forall s, Inv s -> len - off s < Z.of_nat n ->
     post (loop_post (off s) false (off s)) (off s) (file_loop E n s)) ->
  Inv s1 -> 0 <= p0 <= off s1 -> len - off s1 <= Z.of_nat n ->
  Forall notnl (slice t p0 (off s1)) -> line_ok_b f (slice t p0 (off s1)) = true ->
  post (fun r s' => exists ds, r = opt_cons od ds /\ loop_post p0 f (off s1) ds s') (off s1)
    (ifM (cur_is eof) (ret (opt_cons od []))
       (do _ <- read_rest_of_whitespace_line E; do ds <- file_loop E n; ret (opt_cons od ds)) s1).
Proof using All.
  intros IH HI1 Hp0 Hn HX1 HX2.
  pose proof (inv_facts s1 HI1) as (H0 & Hc0 & Hle & _).
  unfold ifM, cur_is. destruct (Z.eqb_spec (cur s1) eof) as [Hc|Hc].
  - apply post_ret; [assumption|lia|]. exists []. split; [reflexivity|].
    pose proof (inv_eof_len E Hlen Hfuel Hdec s1 HI1 Hc) as Hend.
    unfold loop_post. cbn [gaps map ordered_in forallb]. rewrite <- Hend.
    split; [assumption|]. split; [apply gap_open; split; assumption|]. split; [intros; lia|reflexivity].
  - step read_rest_spec as ? s2 HI2 L2 (Hrl & Hprog). specialize (Hprog Hc).
    pose proof (inv_facts s2 HI2) as (_ & Hc2 & Hle2 & _).
    step IH as ds s3 HI3 L3 (Heof & Hg & Ho & Hw). { lia. }
    apply post_ret; [assumption|lia|]. exists ds. split; [reflexivity|].
    unfold loop_post. split; [assumption|]. split; [|split; [intros; apply Ho; lia|assumption]].
    destruct Hrl as [(W & HsW & HW)|(Heof2 & HW)].
    + apply (gaps_extend p0 (off s2) f (slice t p0 (off s1) ++ W)); try assumption; try lia.
      * rewrite (slice_app t p0 (off s1) (off s2)) by lia. rewrite HsW. now rewrite app_assoc.
      * split; [now apply line_ok_b_app|]. apply Forall_app. split; [assumption|now apply wsb_notnl].
    + pose proof (inv_eof_len E Hlen Hfuel Hdec s2 HI2 Heof2) as Hend.
      destruct ds as [|d ds].
      * cbn [gaps]. rewrite (slice_app t p0 (off s1) len) by lia. rewrite <- Hend.
        apply gap_open. split; [now apply line_ok_b_app|].
        apply Forall_app. split; [assumption|now apply wsb_notnl].
      * exfalso. cbn [gaps forallb] in Hg, Hw. destruct Hg as (G1 & _).
        revert Hw. unfold wf_directive, rng_in, nonempty_range. lia.
Qed.

Lemma file_loop_spec : forall n s, Inv s -> len - off s < Z.of_nat n ->
  post (loop_post (off s) false (off s)) (off s) (file_loop E n s).
Proof using All.
  induction n as [|n IH]; intros s HI Hn;
    pose proof (inv_facts s HI) as (H0 & Hc0 & Hle & _); [lia|].
  cbn [file_loop]. unfold ifM at 1. unfold cur_is at 1.
  destruct (Z.eqb_spec (cur s) eof) as [Hc|Hc].
  { apply post_ret; [assumption|lia|].
    pose proof (inv_eof_len E Hlen Hfuel Hdec s HI Hc) as Hend.
    unfold loop_post. cbn [gaps map ordered_in forallb]. rewrite Hend, slice_nil.
    split; [assumption|]. split; [apply gap_nil|]. split; [intros; lia|reflexivity]. }
  eapply post_bind with (Q1 := fun od s1 =>
    match od with
    | Some d => directive_spec s d s1
    | None => (off s < off s1 \/ s1 = s) /\ Forall notnl (slice t (off s) (off s1)) /\
              line_ok_b false (slice t (off s) (off s1)) = true
    end); [|lia|].
  { unfold ifM. destruct ((cur s =? 42) || (cur s =? 35) || (cur s =? 47)).
    - step read_comment_spec as ? s1 HI1 L1 (Hlt & m & body & Hs & Hm & Hb).
      apply post_ret; [assumption|lia|]. split; [now left|]. rewrite Hs.
      assert (Hmn : Forall notnl m /\ is_comment_line (m ++ body) = true).
      { destruct Hm as [<-|[<-|[<-|[]]]]; (split; [repeat constructor; unfold notnl; lia|reflexivity]). }
      destruct Hmn as (Hmn & Hcl).
      split; [apply Forall_app; split; assumption|]. unfold line_ok_b. rewrite Hcl. cbn [negb andb]. lia.
    - destruct (is_alphanumeric E (cur s) || (cur s =? 64)).
      + step parse_directive_spec as d s1 HI1 L1 Hd.
        apply post_ret; [assumption|lia|]. exact Hd.
      + apply post_ret; [assumption|lia|]. split; [now right|]. rewrite slice_nil.
        split; [constructor|reflexivity]. }
  intros od s1 HI1 L1 Hod.
  pose proof (inv_facts s1 HI1) as (_ & Hc1 & Hle1 & _).
  destruct od as [d|].
  - destruct Hod as (Hdr & Hdlt & Hdw).
    eapply post_weaken; [apply (tail_spec n (Some d) (off s1) true s1 IH HI1); try lia|lia|].
    + rewrite slice_nil. constructor.
    + rewrite slice_nil. reflexivity.
    + intros r s' HI' L' (ds & -> & Heof & Hg & Ho & Hw). cbn [opt_cons].
      unfold loop_post. cbn [gaps map ordered_in forallb]. rewrite Hdr. prj.
      split; [assumption|]. split; [|split].
      * split; [lia|]. split; [discriminate|]. rewrite slice_nil. split; [apply gap_nil|assumption].
      * intros lo Hlo. rewrite (Ho (off s1)) by lia. lia.
      * rewrite (Hdw 0 len) by lia. assumption.
  - destruct Hod as (Hprog & HX1 & HX2).
    eapply post_weaken; [apply (tail_spec n None (off s) false s1 IH HI1); try assumption; try lia|lia|].
    + intros r s' HI' L' (ds & -> & Heof & Hg & Ho & Hw). cbn [opt_cons].
      unfold loop_post. split; [assumption|]. split; [assumption|]. split; [|assumption].
      intros lo Hlo. apply Ho. lia.
Qed.

(* ------------------------------------------------------------------ file, entry point *)

Lemma strict_from_ordered hi : forall ds lo,
  ordered_in lo hi (map d_range ds) = true -> forallb (wf_directive 0 hi) ds = true ->
  strict_order_b (map d_range ds) = true.
Proof using All.
  induction ds as [|d ds IH]; intros lo Ho Hw; cbn [map strict_order_b ordered_in forallb] in *; [reflexivity|].
  assert (H1 : ordered_in (r_end (d_range d)) hi (map d_range ds) = true) by lia.
  assert (H2 : forallb (wf_directive 0 hi) ds = true) by lia.
  rewrite (IH _ H1 H2).
  assert (H3 : nonempty_range (d_range d) = true) by (revert Hw; unfold wf_directive; lia).
  rewrite H3. destruct ds as [|d' ds]; cbn [map ordered_in] in *; lia.
Qed.

Lemma interleave_slice : forall ds pos, 0 <= pos ->
  ordered_in pos len (map d_range ds) = true -> interleave_from t pos ds = slice t pos len.
Proof using All.
  induction ds as [|d ds IH]; intros pos Hp Ho; cbn [interleave_from map ordered_in] in *.
  - unfold zlen. now rewrite <- Hlen.
  - assert (H1 : ordered_in (r_end (d_range d)) len (map d_range ds) = true) by lia.
    pose proof (ordered_in_bounds _ _ _ H1) as Hb.
    assert (Hp2 : 0 <= r_end (d_range d)) by lia. rewrite (IH _ Hp2 H1).
    rewrite (slice_app t pos (r_start (d_range d)) len) by lia.
    rewrite (slice_app t (r_start (d_range d)) (r_end (d_range d)) len) by lia. reflexivity.
Qed.

Definition file_ok (f : file) : Prop :=
  wf_tree_b t f = true /\ cover_b t f = true /\ interleave t f = t.

Lemma parse_file_spec s : Inv s -> off s = 0 ->
  post (fun f _ => file_ok f) 0 (parse_file E s).
Proof using All.
  intros HI Hs0. pose proof (inv_facts s HI) as (H0 & Hc0 & Hle & _).
  unfold parse_file. rewrite <- Hs0. apply post_annot; [prj; lia|].
  step file_loop_spec as ds s1 HI1 L1 (Heof & Hg & Ho & Hw).
  { unfold loop_fuel. lia. }
  apply post_ret_with; [assumption|lia|]. prj.
  pose proof (inv_eof_len E Hlen Hfuel Hdec s1 HI1 Heof) as Hend.
  assert (Hz : zlen t = len) by (unfold zlen; now rewrite Hlen).
  unfold file_ok, wf_tree_b, cover_b, interleave, range_eqb. prj. rewrite Hz, Hs0, Hend in *.
  pose proof (Ho 0 ltac:(lia)) as Ho0.
  split; [|split].
  - rewrite Ho0, Hw, (strict_from_ordered len ds 0 Ho0 Hw). lia.
  - now apply gaps_b_complete.
  - rewrite (interleave_slice ds 0) by (lia || assumption). rewrite <- Hz. apply slice_full.
Qed.

Lemma errs_ok_bounds e : errs_ok E e -> err_in_bounds_b t e = true.
Proof using All.
  intros H. unfold err_in_bounds_b. apply forallb_forall. intros x Hx.
  unfold errs_ok in H. rewrite Forall_forall in H. specialize (H x Hx).
  unfold err_ok in H. unfold zlen. rewrite <- Hlen. lia.
Qed.

Theorem parse_env_total :
  match parse_env E with
  | ParseOk f => file_ok f
  | ParseErr e => err_in_bounds_b t e = true
  | ParseFuel => False
  end.
Proof using All.
  unfold parse_env. pose proof (advance_init E Hlen Hfuel Hdec) as Ha.
  destruct (advance E (init_state E)) as [[] s|e s|]; cbn [ScannerProofs.post] in Ha.
  - destruct Ha as (HI & _ & Ho).
    pose proof (parse_file_spec s HI Ho) as Hf.
    destruct (parse_file E s) as [f s'|e s'|]; cbn [ScannerProofs.post] in Hf.
    + tauto.
    + apply errs_ok_bounds. tauto.
    + contradiction.
  - apply errs_ok_bounds. tauto.
  - contradiction.
Qed.

End WithEnv.

(* ------------------------------------------------------------------ the concrete parser *)

Lemma parse_text_total letter digit (t : str) :
  match parse_text letter digit t with
  | ParseOk f => wf_tree_b t f = true /\ cover_b t f = true /\ interleave t f = t
  | ParseErr e => err_in_bounds_b t e = true
  | ParseFuel => False
  end.
Proof.
  unfold parse_text.
  apply (parse_env_total (mk_env Utf8M.decode letter digit t)).
  - reflexivity.
  - cbn [mk_env e_text e_fuel]. lia.
  - apply utf8_decoder_ok.
Qed.

Lemma parse_text_fuel letter digit t : parse_text letter digit t <> ParseFuel.
Proof. pose proof (parse_text_total letter digit t) as H. intros Hf. now rewrite Hf in H. Qed.

Lemma parse_text_err_in_bounds letter digit t e :
  parse_text letter digit t = ParseErr e -> err_in_bounds_b t e = true.
Proof. pose proof (parse_text_total letter digit t) as H. intros Hf. now rewrite Hf in H. Qed.

Lemma parse_text_wf letter digit t f :
  parse_text letter digit t = ParseOk f -> wf_tree_b t f = true.
Proof. pose proof (parse_text_total letter digit t) as H. intros Hf. rewrite Hf in H. tauto. Qed.

Lemma parse_text_cover letter digit t f :
  parse_text letter digit t = ParseOk f -> cover_b t f = true /\ interleave t f = t.
Proof. pose proof (parse_text_total letter digit t) as H. intros Hf. rewrite Hf in H. tauto. Qed.
