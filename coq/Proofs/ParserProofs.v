(* Proofs about Model/Parser.v: every parser function terminates within its fuel from every
   scanner state in Inv, is monotone in the offset, returns error chains whose ranges lie in
   the text, and returns nodes whose range is [entry offset, exit offset) with well-formed
   children (Spec/SyntaxSpec.v).  Pattern: DESIGN.md Appendix B.3.                        *)
From Coq Require Import ZArith List Bool Lia ZifyBool.
From Knut Require Import Model.Bytes Model.Utf8 Model.Scanner Model.Parser Spec.SyntaxSpec
  Proofs.ScannerProofs.
Import ListNotations.
Open Scope bool_scope.
Open Scope Z_scope.

Ltac prj :=
  cbn [r_start r_end acc_range acc_macro qs_range qs_content bk_range bk_credit bk_debit
       bk_quantity bk_commodity pf_range pf_targets ac_range ac_interval ac_start ac_end
       ac_account ad_range ad_perf ad_accrual tx_range tx_date tx_desc tx_bookings tx_addons
       op_range op_date op_account cl_range cl_date cl_account bl_range bl_account bl_quantity
       bl_commodity as_range as_date as_balances pr_range pr_date pr_commodity pr_target
       pr_price in_range in_path d_range d_body f_range f_directives
       sc_start sc_desc new_scope update_desc scope_range fst snd] in *.

Section WithEnv.
Variable E : env.
Hypothesis Hlen : e_len E = Z.of_nat (length (e_text E)).
Hypothesis Hfuel : (length (e_text E) < e_fuel E)%nat.
Hypothesis Hdec : decoder_ok (e_decode E).

Notation t := (e_text E).
Notation len := (e_len E).
Notation Inv := (Inv E).
Notation post := (@post E _).

(* the scanner lemmas, instantiated with this section's environment *)
Local Notation post_err := (@ScannerProofs.post_err E Hlen Hfuel Hdec _).
Local Notation post_ok := (@ScannerProofs.post_ok E Hlen Hfuel Hdec _).
Local Notation post_weaken := (@ScannerProofs.post_weaken E Hlen Hfuel Hdec _).
Local Notation errs_ok_cons := (ScannerProofs.errs_ok_cons E Hlen Hfuel Hdec).
Local Notation errs_ok_one := (ScannerProofs.errs_ok_one E Hlen Hfuel Hdec).
Local Notation inv_facts := (ScannerProofs.inv_facts E Hlen Hfuel Hdec).
Local Notation dec_cases := (ScannerProofs.dec_cases E Hlen Hfuel Hdec).
Local Notation rune_bytes_true := (ScannerProofs.rune_bytes_true E Hlen Hfuel Hdec).
Local Notation read_while_spec := (ScannerProofs.read_while_spec E Hlen Hfuel Hdec).
Local Notation read_while1_spec := (ScannerProofs.read_while1_spec E Hlen Hfuel Hdec).
Local Notation read_character_spec := (ScannerProofs.read_character_spec E Hlen Hfuel Hdec).
Local Notation read_character_with_spec := (ScannerProofs.read_character_with_spec E Hlen Hfuel Hdec).
Local Notation read_alternative_spec := (ScannerProofs.read_alternative_spec E Hlen Hfuel Hdec).
Local Notation read_string_spec := (ScannerProofs.read_string_spec E Hlen Hfuel Hdec).

(* ------------------------------------------------------------------ the monad *)

Lemma post_bind {A B} (m : M A) (f : A -> M B) s o (Q1 : A -> state -> Prop) (Q : B -> state -> Prop) :
  post Q1 (off s) (m s) -> o <= off s ->
  (forall a s1, Inv s1 -> off s <= off s1 -> Q1 a s1 -> post Q o (f a s1)) ->
  post Q o (bind m f s).
Proof using All.
  intros Hm Ho Hf. unfold bind. destruct (m s) as [a s1|e s1|]; cbn [ScannerProofs.post] in Hm.
  - destruct Hm as (HI & Hle & Hq). now apply Hf.
  - destruct Hm as (Hle & He). apply post_err; [lia|assumption].
  - contradiction.
Qed.

Lemma post_annot {A} sc (m : M A) s o (Q : A -> state -> Prop) :
  0 <= sc_start sc <= o -> post Q o (m s) -> post Q o (annot sc m s).
Proof using All.
  intros Hsc Hm. unfold annot. destruct (m s) as [a s1|e s1|]; cbn [ScannerProofs.post] in Hm.
  - exact Hm.
  - destruct Hm as (Hle & He). apply post_err; [lia|]. unfold annotate.
    apply errs_ok_cons; [lia|lia|assumption].
  - contradiction.
Qed.

Lemma post_ret {A} (a : A) s o (Q : A -> state -> Prop) :
  Inv s -> o <= off s -> Q a s -> post Q o (ret a s).
Proof using All. intros. unfold ret. now apply post_ok. Qed.

Lemma post_ret_with {A} sc (f : range -> A) s o (Q : A -> state -> Prop) :
  Inv s -> o <= off s -> Q (f (mkRange (sc_start sc) (off s))) s -> post Q o (ret_with sc f s).
Proof using All. intros. unfold ret_with, scope_range. now apply post_ok. Qed.

Tactic Notation "step" uconstr(L) "as" simple_intropattern(a) ident(s1) ident(HI) ident(Hle) simple_intropattern(HQ) :=
  eapply post_bind; [ eapply L; eauto | lia | intros a s1 HI Hle; cbv beta; intros HQ ].

(* ------------------------------------------------------------------ byte classes *)

Definition wsb (b : Z) : Prop := is_ws_byte b = true.
Definition notnl (b : Z) : Prop := b <> 10.

Lemma rb_ws : rune_bytes E is_whitespace wsb.
Proof using All.
  intros l r w Hl Hd Hp.
  destruct (dec_cases l r w Hl Hd) as [(b & l' & -> & Hb & -> & ->)|(Hhi & _)].
  - simpl. constructor; [|constructor]. unfold wsb, is_ws_byte. exact Hp.
  - unfold is_whitespace in Hp. lia.
Qed.

Lemma rb_notnl : rune_bytes E (fun r => negb (is_newline_or_eof r)) notnl.
Proof using All.
  intros l r w Hl Hd Hp.
  destruct (dec_cases l r w Hl Hd) as [(b & l' & -> & Hb & -> & ->)|(Hhi & Hall)].
  - simpl. constructor; [|constructor]. unfold notnl, is_newline_or_eof in *. lia.
  - eapply Forall_impl; [|exact Hall]. unfold high, notnl. intros; lia.
Qed.

Lemma rw_plain p s : Inv s ->
  post (fun r s' => r = mkRange (off s) (off s')) (off s) (read_while E p s).
Proof using All.
  intros HI. eapply post_weaken; [eapply (read_while_spec p (fun _ => True)); eauto using rune_bytes_true|lia|].
  intros r s' _ _ (Hr & _). exact Hr.
Qed.

Lemma rw_ws s : Inv s ->
  post (fun _ s' => Forall wsb (slice t (off s) (off s'))) (off s) (read_while E is_whitespace s).
Proof using All.
  intros HI. eapply post_weaken; [eapply (read_while_spec _ wsb); eauto using rb_ws|lia|].
  intros r s' _ _ (_ & Hr & _). exact Hr.
Qed.

Lemma rw_notnl s : Inv s ->
  post (fun _ s' => Forall notnl (slice t (off s) (off s'))) (off s)
       (read_while E (fun r => negb (is_newline_or_eof r)) s).
Proof using All.
  intros HI. eapply post_weaken; [eapply (read_while_spec _ notnl); eauto using rb_notnl|lia|].
  intros r s' _ _ (_ & Hr & _). exact Hr.
Qed.

Lemma rw1_plain p s : Inv s ->
  post (fun r s' => off s < off s') (off s) (read_while1 E p s).
Proof using All.
  intros HI. eapply post_weaken; [eapply (read_while1_spec p (fun _ => True)); eauto using rune_bytes_true|lia|].
  intros r s' _ _ (_ & _ & Hr). exact Hr.
Qed.

Lemma rc_spec c s : Inv s -> 0 <= c < 128 ->
  post (fun _ s' => off s' = off s + 1 /\ slice t (off s) (off s') = [c]) (off s) (read_character E c s).
Proof using All.
  intros HI Hc. eapply post_weaken; [eapply read_character_spec; eauto|lia|].
  intros r s' _ _ (_ & Ho & Hs). auto.
Qed.

Lemma rcw_spec p s : Inv s ->
  post (fun _ s' => off s < off s') (off s) (read_character_with E p s).
Proof using All.
  intros HI. eapply post_weaken; [eapply read_character_with_spec; eauto|lia|].
  intros r s' _ _ (_ & _ & Ho & _). exact Ho.
Qed.

Lemma kw_ascii : Forall (Forall ascii)
  [kw_include; kw_open; kw_close; kw_balance; kw_price; kw_performance; kw_accrue; kw_daily;
   kw_weekly; kw_monthly; kw_quarterly; kw_star; kw_slashes; kw_hash].
Proof using All. repeat constructor; unfold ascii; lia. Qed.

Lemma ra_spec ss s : Forall (Forall ascii) ss -> Forall (fun x => x <> []) ss -> Inv s ->
  post (fun r s' => r = mkRange (off s) (off s') /\ off s < off s' /\ In (slice t (off s) (off s')) ss)
       (off s) (read_alternative E ss s).
Proof using All.
  intros Hss Hne HI. eapply post_weaken; [eapply read_alternative_spec; eauto|lia|].
  intros r s' _ _ (Hr & Hin & Ho). repeat split; try assumption.
  rewrite Forall_forall in Hne. specialize (Hne _ Hin).
  destruct (slice t (off s) (off s')); [congruence|]. cbn [length] in Ho. lia.
Qed.

(* ------------------------------------------------------------------ blanks and comments *)

Lemma read_whitespace1_spec s : Inv s ->
  post (fun _ _ => True) (off s) (read_whitespace1 E s).
Proof using All.
  intros HI. pose proof (inv_facts s HI) as (H0 & Hc0 & Hle & _).
  unfold read_whitespace1.
  destruct (negb (is_whitespace_or_newline (cur s)) && negb (cur s =? eof)).
  - apply post_err; [lia|]. apply errs_ok_one; lia.
  - eapply post_weaken; [apply rw_plain; assumption|lia|]. auto.
Qed.

(* what readRestOfWhitespaceLine consumes: blanks and a newline, or blanks up to the end *)
Definition rest_line (s s' : state) : Prop :=
  (exists W, slice t (off s) (off s') = W ++ [10] /\ Forall wsb W) \/
  (cur s' = eof /\ Forall wsb (slice t (off s) (off s'))).

Lemma read_rest_spec s : Inv s ->
  post (fun _ s' => rest_line s s') (off s) (read_rest_of_whitespace_line E s).
Proof using All.
  intros HI. pose proof (inv_facts s HI) as (H0 & _).
  unfold read_rest_of_whitespace_line. apply post_annot; [prj; lia|].
  step rw_ws as ? s1 HI1 L1 Hw.
  unfold ifM, cur_is. destruct (Z.eqb_spec (cur s1) eof) as [Hc|Hc].
  - apply post_ret_with; [assumption|lia|]. right. auto.
  - step rc_spec as ? s2 HI2 L2 (Ho & Hs). { lia. }
    apply post_ret_with; [assumption|lia|]. left. exists (slice t (off s) (off s1)).
    split; [|assumption]. rewrite (slice_app t (off s) (off s1) (off s2)) by lia. now rewrite Hs.
Qed.

Definition comment_text (s s' : state) : Prop :=
  exists m body, slice t (off s) (off s') = m ++ body /\
                 In m [kw_star; kw_slashes; kw_hash] /\ Forall notnl body.

Lemma read_comment_spec s : Inv s ->
  post (fun _ s' => comment_text s s') (off s) (read_comment E s).
Proof using All.
  intros HI. pose proof (inv_facts s HI) as (H0 & _).
  unfold read_comment. apply post_annot; [prj; lia|].
  step ra_spec as r s1 HI1 L1 (Hr & Hlt & Hin).
  { repeat constructor; unfold ascii; lia. }
  { repeat constructor; discriminate. }
  step rw_notnl as ? s2 HI2 L2 Hb.
  apply post_ret_with; [assumption|lia|].
  exists (slice t (off s) (off s1)), (slice t (off s1) (off s2)).
  split; [apply slice_app; lia|]. split; assumption.
Qed.

(* ------------------------------------------------------------------ leaves *)

Definition exact_range (s : state) (r : range) (s' : state) : Prop :=
  r = mkRange (off s) (off s') /\ off s < off s'.

Lemma parse_commodity_spec s : Inv s ->
  post (fun r s' => exact_range s r s') (off s) (parse_commodity E s).
Proof using All.
  intros HI. pose proof (inv_facts s HI) as (H0 & _).
  unfold parse_commodity. apply post_annot; [prj; lia|].
  step rw1_plain as ? s1 HI1 L1 Hlt.
  apply post_ret_with; [assumption|lia|]. prj. split; [reflexivity|lia].
Qed.

Lemma parse_decimal_spec s : Inv s ->
  post (fun r s' => exact_range s r s') (off s) (parse_decimal E s).
Proof using All.
  intros HI. pose proof (inv_facts s HI) as (H0 & _).
  unfold parse_decimal. apply post_annot; [prj; lia|].
  eapply post_bind with (Q1 := fun _ s1 => True); [|lia|].
  { unfold ifM. destruct (cur_is 45 s).
    - step rc_spec as ? s1 HI1 L1 _. { lia. } apply post_ret; auto; lia.
    - apply post_ret; auto; lia. }
  intros _ s1 HI1 L1 _.
  step rw1_plain as ? s2 HI2 L2 Hlt.
  unfold ifM. destruct (negb (cur s2 =? 46)).
  - apply post_ret_with; [assumption|lia|]. prj. split; [reflexivity|lia].
  - step rc_spec as ? s3 HI3 L3 _. { lia. }
    step rw1_plain as ? s4 HI4 L4 Hlt4.
    apply post_ret_with; [assumption|lia|]. prj. split; [reflexivity|lia].
Qed.

Definition exact_account (s : state) (a : account) (s' : state) : Prop :=
  acc_range a = mkRange (off s) (off s') /\ off s < off s'.

Lemma account_loop_spec sc : forall n s, Inv s -> 0 <= sc_start sc < off s ->
  len - off s < Z.of_nat n ->
  post (fun a s' => acc_range a = mkRange (sc_start sc) (off s')) (off s) (account_loop E sc n s).
Proof using All.
  induction n as [|n IH]; intros s HI Hsc Hn;
    pose proof (inv_facts s HI) as (H0 & Hc0 & Hle & _); [lia|].
  cbn [account_loop]. unfold ifM. destruct (negb (cur s =? 58)).
  - apply post_ret_with; [assumption|lia|]. reflexivity.
  - step rc_spec as ? s1 HI1 L1 (Ho1 & _). { lia. }
    step rw1_plain as ? s2 HI2 L2 Hlt.
    eapply post_weaken; [apply (IH s2 HI2); lia|lia|]. auto.
Qed.

Lemma parse_account_spec s : Inv s ->
  post (fun a s' => exact_account s a s') (off s) (parse_account E s).
Proof using All.
  intros HI. pose proof (inv_facts s HI) as (H0 & Hc0 & Hle & _).
  unfold parse_account. apply post_annot; [prj; lia|].
  unfold ifM. destruct (cur_is 36 s).
  - step rc_spec as ? s1 HI1 L1 (Ho1 & _). { lia. }
    step rw1_plain as ? s2 HI2 L2 Hlt.
    apply post_ret_with; [assumption|lia|]. unfold exact_account. prj. split; [reflexivity|lia].
  - step rw1_plain as ? s1 HI1 L1 Hlt.
    eapply post_weaken; [apply (account_loop_spec _ (loop_fuel E) s1 HI1); prj; unfold loop_fuel; try lia|lia|].
    intros acc s' _ Hle' Ha. unfold exact_account. prj. split; [assumption|lia].
Qed.

Lemma repeat_m_spec {A} (m : M A) k :
  (forall s, Inv s -> post (fun _ s' => off s < off s') (off s) (m s)) ->
  forall s, Inv s -> post (fun _ s' => (0 < k)%nat -> off s < off s') (off s) (repeat_m k m s).
Proof using All.
  intros Hm. induction k as [|k IH]; intros s HI.
  - cbn [repeat_m]. apply post_ret; [assumption|lia|lia].
  - cbn [repeat_m]. step Hm as ? s1 HI1 L1 Hlt.
    eapply post_weaken; [apply (IH s1 HI1)|lia|]. intros; lia.
Qed.

Lemma parse_date_spec s : Inv s ->
  post (fun r s' => exact_range s r s') (off s) (parse_date E s).
Proof using All.
  intros HI. pose proof (inv_facts s HI) as (H0 & _).
  unfold parse_date. apply post_annot; [prj; lia|].
  step (repeat_m_spec (read_character_with E (e_digit E)) 4) as ? s1 HI1 L1 Hlt.
  { intros. apply rcw_spec; assumption. }
  eapply post_bind with (Q1 := fun _ _ => True); [|lia|].
  { eapply post_weaken; [apply (repeat_m_spec (do _ <- read_character E 45; repeat_m 2 (read_character_with E (e_digit E))) 2)|lia|auto].
    - intros s0 HI0. step rc_spec as ? s0' HI0' L0' (Ho & _). { lia. }
      eapply post_weaken; [apply (repeat_m_spec (read_character_with E (e_digit E)) 2)|lia|].
      + intros. apply rcw_spec; assumption.
      + assumption.
      + intros; lia.
    - assumption. }
  intros _ s2 HI2 L2 _.
  apply post_ret_with; [assumption|lia|]. unfold exact_range. prj. split; [reflexivity|lia].
Qed.

Definition exact_quoted (s : state) (q : quoted) (s' : state) : Prop :=
  qs_range q = mkRange (off s) (off s') /\ off s + 2 <= off s' /\
  qs_content q = mkRange (off s + 1) (off s' - 1).

Lemma parse_quoted_string_spec s : Inv s ->
  post (fun q s' => exact_quoted s q s') (off s) (parse_quoted_string E s).
Proof using All.
  intros HI. pose proof (inv_facts s HI) as (H0 & _).
  unfold parse_quoted_string. apply post_annot; [prj; lia|].
  step rc_spec as ? s1 HI1 L1 (Ho1 & _). { lia. }
  step rw_plain as c s2 HI2 L2 Hc.
  step rc_spec as ? s3 HI3 L3 (Ho3 & _). { lia. }
  apply post_ret_with; [assumption|lia|]. unfold exact_quoted. prj.
  split; [reflexivity|]. split; [lia|]. rewrite Hc. f_equal; lia.
Qed.

Lemma parse_interval_spec s : Inv s ->
  post (fun r s' => exact_range s r s') (off s) (parse_interval E s).
Proof using All.
  intros HI. pose proof (inv_facts s HI) as (H0 & _).
  unfold parse_interval. apply post_annot; [prj; lia|].
  step ra_spec as r s1 HI1 L1 (Hr & Hlt & _).
  { repeat constructor; unfold ascii; lia. }
  { repeat constructor; discriminate. }
  apply post_ret_with; [assumption|lia|]. unfold exact_range. prj. split; [reflexivity|lia].
Qed.

(* ------------------------------------------------------------------ bookings, balances *)

Definition node_spec {A} (rng : A -> range) (wf : Z -> Z -> A -> bool) (s : state) (a : A) (s' : state) : Prop :=
  rng a = mkRange (off s) (off s') /\ off s < off s' /\
  forall lo hi, lo <= off s -> off s' <= hi -> wf lo hi a = true.

Lemma parse_booking_spec s : Inv s ->
  post (node_spec bk_range wf_booking s) (off s) (parse_booking E s).
Proof using All.
  intros HI. pose proof (inv_facts s HI) as (H0 & _).
  unfold parse_booking. apply post_annot; [prj; lia|].
  step parse_account_spec as c s1 HI1 L1 (Hc & Hc').
  step rw1_plain as ? s2 HI2 L2 Hlt2.
  step parse_account_spec as d s3 HI3 L3 (Hd & Hd').
  step rw1_plain as ? s4 HI4 L4 Hlt4.
  step parse_decimal_spec as q s5 HI5 L5 (Hq & Hq').
  step rw1_plain as ? s6 HI6 L6 Hlt6.
  step parse_commodity_spec as m s7 HI7 L7 (Hm & Hm').
  apply post_ret_with; [assumption|lia|]. unfold node_spec. prj.
  split; [reflexivity|]. split; [lia|]. intros lo hi Hlo Hhi.
  unfold wf_booking, rng_in. prj. rewrite Hc, Hd, Hq, Hm. cbn [ordered_in]. prj. lia.
Qed.

Lemma parse_balance_spec s : Inv s ->
  post (node_spec bl_range wf_balance s) (off s) (parse_balance E s).
Proof using All.
  intros HI. pose proof (inv_facts s HI) as (H0 & _).
  unfold parse_balance. apply post_annot; [prj; lia|].
  step parse_account_spec as c s1 HI1 L1 (Hc & Hc').
  step read_whitespace1_spec as ? s2 HI2 L2 _.
  step parse_decimal_spec as q s3 HI3 L3 (Hq & Hq').
  step read_whitespace1_spec as ? s4 HI4 L4 _.
  step parse_commodity_spec as m s5 HI5 L5 (Hm & Hm').
  apply post_ret_with; [assumption|lia|]. unfold node_spec. prj.
  split; [reflexivity|]. split; [lia|]. intros lo hi Hlo Hhi.
  unfold wf_balance, rng_in. prj. rewrite Hc, Hq, Hm. cbn [ordered_in]. prj. lia.
Qed.

End WithEnv.
