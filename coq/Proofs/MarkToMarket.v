(* C03, end to end over days: the values the Valuate stage puts on the postings of an asset or
   liability position (bookings valued on their booking day plus the daily "Adjust value"
   revaluations) add up to quantity * price at the end, up to one truncation error per
   multiplication.

   Shape of the proof.  Everything is stated for one cell (account a, commodity c) and in
   "delta form": over any run of the stage from any reachable state
       posted value  -  (Q_end * p_end  -  Q_start * p_start)
   is a sum of one error term per Multiply call.  Per day (Abel summation, C03_abel):
       adjustments  ~  (p_cur - p_prev) * Q_start      (val_adjustments over the position map)
       bookings     ~  p_cur * (Q_end - Q_start)       (val_posting on each posting)
   The per-step error is abstract (Section Cell: [eps], with side predicates on quantities and
   prices that are closed under the additions/subtractions the stage performs); it is
   instantiated twice: eps = 10^-8 without conditions, and eps = 0 when quantities have at most
   kq and prices at most kp decimals with kq + kp <= 8. *)
From Coq Require Import ZArith QArith Qabs Qpower List Bool Lia Lqa Sorting.Sorted.
From Knut Require Import Model.Str Model.Dec Model.Date Model.Account Model.Ledger Model.Price
     Model.Journal Model.Check Model.Pipeline
     Spec.WellformedSpec
     Proofs.DecProofs Proofs.DecValue Proofs.CheckLemmas Proofs.CheckProofs Proofs.PairProofs
     Proofs.ValuationProofs.
Import ListNotations.
Open Scope Q_scope.

(* ------------------------------------------------------------ the error of one Multiply *)

Definition eps8 : Q := 1 # 100000000.

Definition merr (a b : dec) : Q := dvalue (multiply a b) - dvalue a * dvalue b.

Lemma eps8_pow : eps8 == Qpower ten (-8).
Proof. reflexivity. Qed.

Lemma merr_exact a b : (- 8 <= ex a + ex b)%Z -> merr a b == 0.
Proof. intros H. unfold merr. rewrite (multiply_value_exact a b H). ring. Qed.

Lemma Qabs_le_iff x y : Qabs x <= y <-> - y <= x /\ x <= y.
Proof. apply Qabs_Qle_condition. Qed.

(* truncation toward zero at 8 decimals moves the value by less than 10^-8 *)
Lemma truncate8_err d : Qabs (dvalue (truncate d 8) - dvalue d) <= eps8.
Proof.
  unfold truncate. cbn [Z.leb Z.compare andb]. change (Z.opp 8) with (-8)%Z.
  destruct (ex d <? - 8)%Z eqn:E.
  2:{ setoid_replace (dvalue d - dvalue d) with 0 by ring. discriminate. }
  apply Z.ltb_lt in E. cbn [andb].
  unfold rescale. replace (ex d =? - 8)%Z with false by lia. replace (ex d <? - 8)%Z with true by lia.
  replace (Z.abs (- 8 - ex d)) with (- 8 - ex d)%Z by lia.
  pose proof (pow10_nonneg_pos (- 8 - ex d) ltac:(lia)) as Hpos.
  set (P := pow10 (- 8 - ex d)) in *.
  assert (HP : Qpower ten (-8) == inject_Z P * Qpower ten (ex d)).
  { unfold P. rewrite pow10_as_Q by lia. rewrite <- (Qpower_plus ten _ _ ten_nz).
    replace (- 8 - ex d + ex d)%Z with (-8)%Z by ring. reflexivity. }
  unfold dvalue at 1. cbn [coef ex]. unfold dvalue.
  pose proof (Z.quot_rem' (coef d) P) as Hqr.
  pose proof (Z.rem_bound_abs (coef d) P ltac:(lia)) as Hb.
  set (q := Z.quot (coef d) P) in *. set (r := Z.rem (coef d) P) in *.
  assert (Hd : inject_Z q * Qpower ten (-8) - inject_Z (coef d) * Qpower ten (ex d)
               == inject_Z (- r) * Qpower ten (ex d)).
  { rewrite HP. rewrite Hqr at 1. rewrite inject_Z_opp, inject_Z_plus, inject_Z_mult. ring. }
  rewrite Hd, eps8_pow, HP.
  rewrite Qabs_Qmult. rewrite (Qabs_pos (Qpower ten (ex d))) by (apply Qlt_le_weak, Qpower_ten_pos).
  apply Qmult_le_compat_r; [|apply Qlt_le_weak, Qpower_ten_pos].
  rewrite Qabs_le_iff. rewrite <- inject_Z_opp. rewrite <- !Zle_Qle. rewrite (Z.abs_eq P) in Hb by lia. lia.
Qed.

Lemma merr_bound a b : Qabs (merr a b) <= eps8.
Proof.
  unfold merr, multiply. rewrite <- (dvalue_mul a b). apply truncate8_err.
Qed.

Lemma eps8_nonneg : 0 <= eps8.
Proof. discriminate. Qed.

(* ------------------------------------------------------------ sums over postings *)
From Knut Require Import Spec.MarkToMarketSpec.

Lemma qsum_app f l1 l2 : qsum f (l1 ++ l2) == qsum f l1 + qsum f l2.
Proof.
  induction l1 as [|p l1 IH]; cbn [app qsum]; [ring|]. rewrite IH. ring.
Qed.

Lemma cell_value_app a c l1 l2 : cell_value a c (l1 ++ l2) == cell_value a c l1 + cell_value a c l2.
Proof. apply qsum_app. Qed.

Lemma cell_qty_app a c l1 l2 : cell_qty a c (l1 ++ l2) == cell_qty a c l1 + cell_qty a c l2.
Proof. apply qsum_app. Qed.

Lemma cell_count_app a c l1 l2 : cell_count a c (l1 ++ l2) = (cell_count a c l1 + cell_count a c l2)%Z.
Proof.
  induction l1 as [|p l1 IH]; cbn [app cell_count]; [reflexivity|]. rewrite IH. ring.
Qed.

Lemma cell_count_nonneg a c l : (0 <= cell_count a c l)%Z.
Proof. induction l as [|p l IH]; cbn [cell_count]; [lia|]. destruct (cellb a c p); lia. Qed.

Lemma cell_value_cons a c p l :
  cell_value a c (p :: l) == (if cellb a c p then dvalue (p_val p) else 0) + cell_value a c l.
Proof. reflexivity. Qed.

Lemma cell_qty_cons a c p l :
  cell_qty a c (p :: l) == (if cellb a c p then dvalue (p_qty p) else 0) + cell_qty a c l.
Proof. reflexivity. Qed.

(* |x| <= n1 eps, |y| <= n2 eps, z = x + y  ==>  |z| <= (n1 + n2) eps *)
Lemma bound_add eps x y z n1 n2 :
  Qabs x <= inject_Z n1 * eps -> Qabs y <= inject_Z n2 * eps -> z == x + y ->
  Qabs z <= inject_Z (n1 + n2) * eps.
Proof.
  intros Hx Hy Hz. rewrite Hz, inject_Z_plus.
  eapply Qle_trans; [apply Qabs_triangle|]. rewrite Qmult_plus_distr_l. apply Qplus_le_compat; assumption.
Qed.

Lemma bound_zero eps x : x == 0 -> Qabs x <= inject_Z 0 * eps.
Proof. intros H. rewrite H. cbn. rewrite Qmult_0_l. discriminate. Qed.

Lemma bound_one eps x : Qabs x <= eps -> Qabs x <= inject_Z 1 * eps.
Proof. intros H. rewrite Qmult_1_l. exact H. Qed.

(* ------------------------------------------------------------ generic facts about the stage *)

Lemma fold_txns_app {S} (p : processor S) l1 : forall l2 s s' out,
  fold_txns p s (l1 ++ l2) = ROk (s', out) ->
  exists s1 o1 o2, fold_txns p s l1 = ROk (s1, o1) /\ fold_txns p s1 l2 = ROk (s', o2) /\ out = o1 ++ o2.
Proof.
  induction l1 as [|t l1 IH]; intros l2 s s' out H; cbn [app] in H.
  - exists s, [], out. split; [reflexivity|split; [exact H|reflexivity]].
  - cbn [fold_txns] in H |- *.
    destruct (match pr_txn p with Some f => f s t | None => ROk s end) as [s1| |]; cbn [rbind] in H |- *; try discriminate.
    destruct (match pr_posting p with
              | Some f => rbind (fold_postings f t s1 (t_postings t))
                                (fun sp => ROk (fst sp, mkTxn (t_date t) (t_desc t) (snd sp) (t_targets t)))
              | None => ROk (s1, t) end) as [[s2 t']| |]; cbn [rbind fst snd] in H |- *; try discriminate.
    destruct (fold_txns p s2 (l1 ++ l2)) as [[s3 o]| |] eqn:E; cbn [rbind fst snd] in H; try discriminate.
    injection H as <- <-.
    destruct (IH _ _ _ _ E) as (sa & o1 & o2 & E1 & E2 & ->).
    rewrite E1. cbn [rbind fst snd]. exists sa, (t' :: o1), o2. split; [reflexivity|split; [exact E2|reflexivity]].
Qed.

Lemma process_days_app {S} (p : processor S) l1 : forall l2 s s' out,
  process_days p s (l1 ++ l2) = ROk (s', out) ->
  exists s1 o1 o2, process_days p s l1 = ROk (s1, o1) /\ process_days p s1 l2 = ROk (s', o2) /\ out = o1 ++ o2.
Proof.
  induction l1 as [|d l1 IH]; intros l2 s s' out H; cbn [app] in H.
  - exists s, [], out. split; [reflexivity|split; [exact H|reflexivity]].
  - cbn [process_days] in H |- *.
    destruct (process_day p s d) as [[s1 d1]| |]; cbn [rbind fst snd] in H |- *; try discriminate.
    destruct (process_days p s1 (l1 ++ l2)) as [[s3 o]| |] eqn:E; cbn [rbind fst snd] in H; try discriminate.
    injection H as <- <-.
    destruct (IH _ _ _ _ E) as (sa & o1 & o2 & E1 & E2 & ->).
    rewrite E1. cbn [rbind fst snd]. exists sa, (d1 :: o1), o2. split; [reflexivity|split; [exact E2|reflexivity]].
Qed.

Lemma fold_asserts_none {S} (p : processor S) l : forall s, pr_balance p = None -> fold_asserts p s l = ROk s.
Proof.
  induction l as [|x l IH]; intros s H; cbn [fold_asserts]; [reflexivity|].
  rewrite H. cbn [rbind]. apply IH. exact H.
Qed.

(* zero-quantity postings (the revaluation transactions) pass the Posting callback untouched *)
Lemma fold_postings_zero v t ps : forall s,
  Forall (fun p => is_zero (p_qty p) = true) ps -> fold_postings (val_posting v) t s ps = ROk (s, ps).
Proof.
  induction ps as [|p ps IH]; intros s H; cbn [fold_postings]; [reflexivity|].
  inversion H as [|? ? Hp Hr]; subst. unfold val_posting at 1. rewrite Hp. cbn [rbind fst snd].
  rewrite (IH _ Hr). reflexivity.
Qed.

Definition zero_qty_txn (t : txn) : Prop := Forall (fun p => is_zero (p_qty p) = true) (t_postings t).

Lemma fold_txns_zero v ts : forall s,
  Forall zero_qty_txn ts -> fold_txns (valuate_proc v) s ts = ROk (s, ts).
Proof.
  induction ts as [|t ts IH]; intros s H; cbn [fold_txns]; [reflexivity|].
  inversion H as [|? ? Ht Hr]; subst.
  cbn [valuate_proc pr_txn pr_posting rbind]. rewrite (fold_postings_zero v t _ s Ht). cbn [rbind fst snd].
  rewrite (IH _ Hr). cbn [rbind fst snd]. destruct t; reflexivity.
Qed.

(* ------------------------------------------------------------ one cell *)
Section Cell.
  Variables (v : commodity) (a : account) (c : commodity).
  Hypothesis Ha : account_ok a = true.
  Hypothesis HAL : is_AL a = true.
  Hypothesis Hcv : c <> v.

  (* the abstract per-step error: quantities satisfy Pq, prices Pp, price differences Pd *)
  Variables (Pq Pp Pd : dec -> Prop) (eps : Q).
  Hypothesis Pq_nil : Pq dec_nil.
  Hypothesis Pq_add : forall x y, Pq x -> Pq y -> Pq (add x y).
  Hypothesis Pd_sub : forall x y, Pp x -> Pp y -> Pd (sub x y).
  Hypothesis step_booking : forall q p, Pq q -> Pp p -> Qabs (merr q p) <= eps.
  Hypothesis step_adjust : forall d q, Pd d -> Pq q -> Qabs (merr d q) <= eps.
  Hypothesis eps_nonneg : 0 <= eps.

  Definition pentry := (str * (account * commodity * dec))%type.
  Definition ematch (x : pentry) : bool := acc_eqb (fst (fst (snd x))) a && str_eqb (snd (fst (snd x))) c.

  (* the position map: sorted keys, well-formed entries, the cell's quantity satisfies Pq *)
  Definition good (m : positions) : Prop :=
    keys_sorted m /\ (forall x, In x m -> entry_ok x) /\ (forall x, In x m -> ematch x = true -> Pq (snd (snd x))).

  Definition posq (m : positions) : Q := dvalue (getd m a c).

  Lemma key_match a' c' : account_ok a' = true ->
    (acc_eqb a' a && str_eqb c' c = true <-> pos_key a' c' = pos_key a c).
  Proof.
    intros Ha'. split; intros H.
    - apply andb_true_iff in H. destruct H as [H1 H2]. apply acc_eqb_name in H1. apply str_eqb_eq in H2.
      unfold pos_key. rewrite H1, H2. reflexivity.
    - apply pos_key_inj in H; [|assumption|assumption]. destruct H as [-> ->].
      rewrite acc_eqb_refl, str_eqb_refl. reflexivity.
  Qed.

  Lemma getd_key m a1 c1 a2 c2 : pos_key a1 c1 = pos_key a2 c2 -> getd m a1 c1 = getd m a2 c2.
  Proof. intros H. unfold getd, pos_get. rewrite H. reflexivity. Qed.

  Lemma good_nil : good [].
  Proof. split; [constructor|]. split; intros x []. Qed.

  Lemma good_add m a' c' q :
    good m -> account_ok a' = true -> is_AL a' = true ->
    (acc_eqb a' a && str_eqb c' c = true -> Pq q) -> good (pos_add m a' c' q).
  Proof.
    intros (Hs & He & Hp) Ha' HAL' Hq. unfold pos_add. split; [apply sm_put_sorted; exact Hs|]. split.
    - intros x Hin. apply sm_put_in in Hin. destruct Hin as [->|Hin]; [|apply He; exact Hin].
      unfold entry_ok. cbn [fst snd]. auto.
    - intros x Hin Hm. apply sm_put_in in Hin. destruct Hin as [->|Hin]; [|apply Hp; assumption].
      unfold ematch in Hm. cbn [fst snd] in Hm |- *. apply Pq_add; [|apply Hq; exact Hm].
      unfold pos_get. destruct (sm_get m (pos_key a' c')) as [[[a2 c2] q2]|] eqn:G; [|exact Pq_nil].
      apply sm_get_some_in in G. pose proof (He _ G) as (K & Ha2 & _). cbn [fst snd] in K, Ha2.
      apply pos_key_inj in K; [|assumption|assumption]. destruct K as [<- <-].
      apply (Hp _ G). exact Hm.
  Qed.

  Lemma posq_add m a' c' q : account_ok a' = true ->
    posq (pos_add m a' c' q) == posq m + (if acc_eqb a' a && str_eqb c' c then dvalue q else 0).
  Proof.
    intros Ha'. unfold posq, pos_add. destruct (acc_eqb a' a && str_eqb c' c) eqn:E.
    - apply (key_match a' c' Ha') in E.
      rewrite (getd_key _ a c a' c' (eq_sym E)), getd_put_same, dvalue_add.
      rewrite (getd_key m a c a' c' (eq_sym E)). reflexivity.
    - rewrite getd_put_other; [ring|]. intros K. symmetry in K. apply (key_match a' c' Ha') in K. congruence.
  Qed.

  (* ---------------------------------------------------------- the Posting callback *)
  Definition pin (p : posting) : Prop := posting_in_ok p /\ (cellb a c p = true -> Pq (p_qty p)).

  Definition dq (p : posting) : Q := if cellb a c p then dvalue (p_qty p) else 0.
  Definition dv (p : posting) : Q := if cellb a c p then dvalue (p_val p) else 0.

  Lemma cell_not_AL p : account_ok (p_acc p) = true -> is_AL (p_acc p) = false -> cellb a c p = false.
  Proof.
    intros Hok Hn. unfold cellb. destruct (acc_eqb (p_acc p) a) eqn:E; [|reflexivity].
    apply acc_eqb_name in E. apply acc_name_inj in E; [|assumption|assumption]. congruence.
  Qed.

  Lemma cell_not_v p : str_eqb v (p_com p) = true -> cellb a c p = false.
  Proof.
    intros Hv. unfold cellb. destruct (str_eqb (p_com p) c) eqn:E; [|apply andb_false_r].
    apply str_eqb_eq in Hv. apply str_eqb_eq in E. congruence.
  Qed.

  Lemma upd_state_cell s p :
    pin p -> good (v_qty s) ->
    let s1 := if is_AL (p_acc p)
              then mkVal (v_prev s) (v_cur s) (pos_add (v_qty s) (p_acc p) (p_com p) (p_qty p)) else s in
    v_prev s1 = v_prev s /\ v_cur s1 = v_cur s /\ good (v_qty s1) /\
    posq (v_qty s1) == posq (v_qty s) + dq p.
  Proof.
    intros [[Hok Hz] HPq] Hg. destruct (is_AL (p_acc p)) eqn:EAL; cbn zeta; cbn [v_prev v_cur v_qty].
    - split; [reflexivity|]. split; [reflexivity|]. split.
      + apply good_add; assumption.
      + apply posq_add. exact Hok.
    - split; [reflexivity|]. split; [reflexivity|]. split; [exact Hg|].
      unfold dq. rewrite (cell_not_AL p Hok EAL). ring.
  Qed.

  Lemma val_posting_cell s t p s' p' :
    val_posting v s t p = ROk (s', p') ->
    pin p -> good (v_qty s) -> (forall pr, np_price_opt (v_cur s) c = Some pr -> Pp pr) ->
    v_prev s' = v_prev s /\ v_cur s' = v_cur s /\ good (v_qty s') /\
    cellb a c p' = cellb a c p /\
    posq (v_qty s') == posq (v_qty s) + dq p /\
    Qabs (dv p' - dq p * price_value (v_cur s) c) <= inject_Z (if cellb a c p then 1 else 0) * eps.
  Proof.
    intros H Hpin Hg HPp. pose proof (upd_state_cell s p Hpin Hg) as Hupd. cbn zeta in Hupd.
    destruct Hpin as [[Hok Hz] HPq].
    unfold val_posting in H. destruct (is_zero (p_qty p)) eqn:Ez.
    - injection H as <- <-. split; [reflexivity|]. split; [reflexivity|]. split; [exact Hg|]. split; [reflexivity|].
      unfold dq, dv. destruct (cellb a c p) eqn:Ec.
      + apply is_zero_value in Ez. split; [rewrite Ez; ring|].
        apply bound_one. rewrite (Hz eq_refl), Ez.
        setoid_replace (0 - 0 * price_value (v_cur s) c) with 0 by ring. exact eps_nonneg.
      + split; [ring|]. apply bound_zero. ring.
    - set (s1 := if is_AL (p_acc p)
                 then mkVal (v_prev s) (v_cur s) (pos_add (v_qty s) (p_acc p) (p_com p) (p_qty p)) else s) in *.
      destruct Hupd as (U1 & U2 & U3 & U4).
      destruct (str_eqb v (p_com p)) eqn:Ev.
      + injection H as <- <-. split; [exact U1|]. split; [exact U2|]. split; [exact U3|]. split; [reflexivity|].
        split; [exact U4|]. unfold dq, dv. change (cellb a c (mkPosting (p_acc p) (p_other p) (p_com p) (p_qty p) (p_qty p)))
          with (cellb a c p). rewrite (cell_not_v p Ev). apply bound_zero. ring.
      + destruct (v_cur s) as [n|] eqn:Ecur; [|discriminate]. unfold np_valuate in H.
        destruct (sm_get n (p_com p)) as [pr|] eqn:Ep; [|discriminate].
        injection H as <- <-. split; [exact U1|]. split; [exact U2|]. split; [exact U3|]. split; [reflexivity|].
        split; [exact U4|]. unfold dq, dv.
        change (cellb a c (mkPosting (p_acc p) (p_other p) (p_com p) (p_qty p) (multiply (p_qty p) pr)))
          with (cellb a c p). cbn [p_val].
        destruct (cellb a c p) eqn:Ec; [|apply bound_zero; ring].
        assert (Hc : p_com p = c).
        { unfold cellb in Ec. apply andb_true_iff in Ec. destruct Ec as [_ Ec]. apply str_eqb_eq in Ec. exact Ec. }
        assert (Hpr : np_price_opt (Some n) c = Some pr) by (cbn [np_price_opt]; unfold np_price; rewrite <- Hc; exact Ep).
        unfold price_value. rewrite Hpr. apply bound_one.
        apply (step_booking _ _ (HPq eq_refl) (HPp _ Hpr)).
  Qed.

  Definition cur_ok (n : option nprices) : Prop := forall pr, np_price_opt n c = Some pr -> Pp pr.

  Lemma fold_postings_cell t ps : forall s s' ps',
    fold_postings (val_posting v) t s ps = ROk (s', ps') ->
    Forall pin ps -> good (v_qty s) -> cur_ok (v_cur s) ->
    v_prev s' = v_prev s /\ v_cur s' = v_cur s /\ good (v_qty s') /\
    cell_count a c ps' = cell_count a c ps /\
    posq (v_qty s') == posq (v_qty s) + cell_qty a c ps /\
    Qabs (cell_value a c ps' - cell_qty a c ps * price_value (v_cur s) c) <= inject_Z (cell_count a c ps) * eps.
  Proof.
    induction ps as [|p ps IH]; intros s s' ps' H Hpin Hg Hcur; cbn [fold_postings] in H.
    - injection H as <- <-. repeat (split; [reflexivity|]). split; [exact Hg|]. split; [reflexivity|].
      split; [cbn; ring|]. apply bound_zero. cbn. ring.
    - inversion Hpin as [|? ? Hp Hrest]; subst.
      destruct (val_posting v s t p) as [[s1 p1]| |] eqn:E1; cbn [rbind fst snd] in H; try discriminate.
      destruct (fold_postings (val_posting v) t s1 ps) as [[s2 ps2]| |] eqn:E2; cbn [rbind fst snd] in H; try discriminate.
      injection H as <- <-.
      destruct (val_posting_cell _ _ _ _ _ E1 Hp Hg Hcur) as (A1 & A2 & A3 & A4 & A5 & A6).
      assert (Hcur1 : cur_ok (v_cur s1)) by (rewrite A2; exact Hcur).
      destruct (IH _ _ _ E2 Hrest A3 Hcur1) as (B1 & B2 & B3 & B4 & B5 & B6).
      split; [congruence|]. split; [congruence|]. split; [exact B3|].
      split; [cbn [cell_count]; rewrite A4, B4; reflexivity|].
      split.
      + rewrite B5, A5, cell_qty_cons. unfold dq. ring.
      + cbn [cell_count]. eapply bound_add; [exact A6|exact B6|].
        rewrite cell_value_cons, cell_qty_cons, A2. unfold dv, dq. ring.
  Qed.

  Definition txn_in (t : txn) : Prop := Forall pin (t_postings t).
  Definition txns_postings (ts : list txn) : list posting := concat (map t_postings ts).

  Lemma fold_txns_cell ts : forall s s' ts',
    fold_txns (valuate_proc v) s ts = ROk (s', ts') ->
    Forall txn_in ts -> good (v_qty s) -> cur_ok (v_cur s) ->
    v_prev s' = v_prev s /\ v_cur s' = v_cur s /\ good (v_qty s') /\
    cell_count a c (txns_postings ts') = cell_count a c (txns_postings ts) /\
    posq (v_qty s') == posq (v_qty s) + cell_qty a c (txns_postings ts) /\
    Qabs (cell_value a c (txns_postings ts') - cell_qty a c (txns_postings ts) * price_value (v_cur s) c)
      <= inject_Z (cell_count a c (txns_postings ts)) * eps.
  Proof.
    induction ts as [|t ts IH]; intros s s' ts' H Hin Hg Hcur; cbn [fold_txns] in H.
    - injection H as <- <-. repeat (split; [reflexivity|]). split; [exact Hg|]. split; [reflexivity|].
      split; [cbn; ring|]. apply bound_zero. cbn. ring.
    - inversion Hin as [|? ? Ht Hrest]; subst.
      cbn [valuate_proc pr_txn pr_posting rbind] in H.
      destruct (fold_postings (val_posting v) t s (t_postings t)) as [[s1 ps1]| |] eqn:E1; cbn [rbind fst snd] in H; try discriminate.
      destruct (fold_txns (valuate_proc v) s1 ts) as [[s2 ts2]| |] eqn:E2; cbn [rbind fst snd] in H; try discriminate.
      injection H as <- <-.
      destruct (fold_postings_cell _ _ _ _ _ E1 Ht Hg Hcur) as (A1 & A2 & A3 & A4 & A5 & A6).
      assert (Hcur1 : cur_ok (v_cur s1)) by (rewrite A2; exact Hcur).
      destruct (IH _ _ _ E2 Hrest A3 Hcur1) as (B1 & B2 & B3 & B4 & B5 & B6).
      unfold txns_postings in *. cbn [map concat t_postings].
      split; [congruence|]. split; [congruence|]. split; [exact B3|].
      split; [rewrite !cell_count_app, A4, B4; reflexivity|].
      split.
      + rewrite B5, A5, cell_qty_app. ring.
      + rewrite cell_count_app. eapply bound_add; [exact A6|exact B6|].
        rewrite cell_value_app, cell_qty_app, A2. ring.
  Qed.

  (* ---------------------------------------------------------- the daily revaluations *)
  Lemma valuation_account_ok a' : account_ok a' = true -> account_ok (valuation_account_for a') = true.
  Proof.
    unfold account_ok, valuation_account_for. intros H. apply andb_true_iff in H. destruct H as [H1 H2].
    destruct a' as [|s0 tl0]; [discriminate|]. cbn [tl]. cbn [valid_account forallb] in H1, H2 |- *.
    apply andb_true_iff in H1. destruct H1 as [_ H1]. apply andb_true_iff in H2. destruct H2 as [_ H2].
    rewrite H1, H2. reflexivity.
  Qed.

  Lemma valuation_account_not_cell a' p :
    account_ok a' = true -> p_acc p = valuation_account_for a' -> cellb a c p = false.
  Proof.
    intros Ha' Hp. apply cell_not_AL; rewrite Hp; [apply valuation_account_ok; exact Ha'|reflexivity].
  Qed.

  Lemma adjust_pair a' c' gain : account_ok a' = true ->
    let ps := pair_build (valuation_account_for a') a' c' dec_nil gain in
    Forall (fun p => is_zero (p_qty p) = true) ps /\
    cell_value a c ps == (if acc_eqb a' a && str_eqb c' c then dvalue gain else 0) /\
    cell_count a c ps = (if acc_eqb a' a && str_eqb c' c then 1 else 0)%Z.
  Proof.
    intros Ha'. unfold pair_build. change (is_neg dec_nil) with false. change (is_zero dec_nil) with true.
    cbn [orb andb].
    destruct (is_neg gain); cbv beta iota zeta.
    - split; [repeat constructor|].
      unfold cell_value. cbn [qsum cell_count].
      rewrite (valuation_account_not_cell a' (mkPosting (valuation_account_for a') a' c' (neg dec_nil) (neg gain)) Ha' eq_refl).
      unfold cellb. cbn [p_acc p_com p_val]. rewrite neg_involutive.
      destruct (acc_eqb a' a && str_eqb c' c); split; try reflexivity; ring.
    - split; [repeat constructor|].
      unfold cell_value. cbn [qsum cell_count].
      rewrite (valuation_account_not_cell a' (mkPosting (valuation_account_for a') a' c' (neg dec_nil) (neg gain)) Ha' eq_refl).
      unfold cellb. cbn [p_acc p_com p_val].
      destruct (acc_eqb a' a && str_eqb c' c); split; try reflexivity; ring.
  Qed.

  Fixpoint entries_qty (m : positions) : Q :=
    match m with
    | [] => 0
    | x :: r => (if ematch x then dvalue (snd (snd x)) else 0) + entries_qty r
    end.

  Lemma adj_cell date prev cur pos : forall ts,
    val_adjustments v date prev cur pos = ROk ts ->
    (forall x, In x pos -> entry_ok x) -> (forall x, In x pos -> ematch x = true -> Pq (snd (snd x))) ->
    cur_ok prev -> cur_ok cur ->
    Forall zero_qty_txn ts /\
    Qabs (cell_value a c (txns_postings ts) - (price_value cur c - price_value prev c) * entries_qty pos)
      <= inject_Z (cell_count a c (txns_postings ts)) * eps.
  Proof.
    induction pos as [|[k [[a' c'] q]] rest IH]; intros ts H He Hp Hprev Hcur; cbn [val_adjustments] in H.
    - injection H as <-. split; [constructor|]. apply bound_zero. cbn. ring.
    - assert (He' : forall x, In x rest -> entry_ok x) by (intros x Hx; apply He; right; exact Hx).
      assert (Hp' : forall x, In x rest -> ematch x = true -> Pq (snd (snd x))) by (intros x Hx; apply Hp; right; exact Hx).
      pose proof (He _ (or_introl eq_refl)) as (_ & Ha' & HAL'). cbn [fst snd] in Ha', HAL'.
      pose proof (Hp _ (or_introl eq_refl)) as HPq. cbn [snd] in HPq.
      cbn [entries_qty]. unfold ematch at 1. cbn [fst snd].
      (* the head entry contributes nothing *)
      assert (Hskip : forall ts', val_adjustments v date prev cur rest = ROk ts' ->
                (if acc_eqb a' a && str_eqb c' c then (price_value cur c - price_value prev c) * dvalue q == 0 else True) ->
                Forall zero_qty_txn ts' /\
                Qabs (cell_value a c (txns_postings ts') - (price_value cur c - price_value prev c) *
                      ((if acc_eqb a' a && str_eqb c' c then dvalue q else 0) + entries_qty rest))
                  <= inject_Z (cell_count a c (txns_postings ts')) * eps).
      { intros ts' H' Hz. destruct (IH _ H' He' Hp' Hprev Hcur) as [F B]. split; [exact F|].
        eapply Qle_trans; [|exact B]. apply Qle_lteq. right. apply Qabs_wd.
        destruct (acc_eqb a' a && str_eqb c' c).
        - rewrite Qmult_plus_distr_r, Hz. ring.
        - ring. }
      destruct (str_eqb c' v || negb (is_AL a') || is_zero q) eqn:Eskip.
      { apply Hskip; [exact H|]. destruct (acc_eqb a' a && str_eqb c' c) eqn:Em; [|exact I].
        apply andb_true_iff in Em. destruct Em as [_ Em]. apply str_eqb_eq in Em. subst c'.
        rewrite HAL' in Eskip. cbn [negb orb] in Eskip. rewrite orb_false_r in Eskip.
        apply orb_true_iff in Eskip. destruct Eskip as [Ev|Ez].
        - apply str_eqb_eq in Ev. contradiction.
        - apply is_zero_value in Ez. rewrite Ez. ring. }
      destruct (np_price_opt prev c') as [pp|] eqn:Epp; [|discriminate].
      destruct (np_price_opt cur c') as [cp|] eqn:Ecp; [|discriminate].
      destruct (is_zero (sub cp pp)) eqn:Ed.
      { apply Hskip; [exact H|]. destruct (acc_eqb a' a && str_eqb c' c) eqn:Em; [|exact I].
        apply andb_true_iff in Em. destruct Em as [_ Em]. apply str_eqb_eq in Em. subst c'.
        unfold price_value. rewrite Epp, Ecp. apply is_zero_value in Ed. rewrite dvalue_sub in Ed. rewrite Ed. ring. }
      destruct (val_adjustments v date prev cur rest) as [ts'| |] eqn:E; cbn [rbind] in H; try discriminate.
      injection H as <-. destruct (IH _ eq_refl He' Hp' Hprev Hcur) as [F B].
      destruct (adjust_pair a' c' (multiply (sub cp pp) q) Ha') as (P1 & P2 & P3).
      split; [constructor; [exact P1|exact F]|].
      unfold txns_postings in *. cbn [map concat t_postings]. rewrite cell_count_app, P3.
      destruct (acc_eqb a' a && str_eqb c' c) eqn:Em.
      + pose proof Em as Em0.
        apply andb_true_iff in Em. destruct Em as [_ Em]. apply str_eqb_eq in Em. subst c'.
        eapply bound_add; [apply bound_one|exact B|].
        * apply (step_adjust (sub cp pp) q); [apply Pd_sub; [apply Hcur|apply Hprev]; assumption|apply HPq; unfold ematch; cbn [fst snd]; exact Em0].
        * rewrite cell_value_app, P2. unfold merr, price_value. rewrite Epp, Ecp, dvalue_sub. ring.
      + eapply bound_add; [apply (bound_zero eps 0); reflexivity|exact B|].
        rewrite cell_value_app, P2. ring.
  Qed.

  (* the cell's entry of a good position map is the one under its key *)
  Lemma entries_nokey m :
    (forall x, In x m -> entry_ok x) -> (forall x, In x m -> fst x <> pos_key a c) -> entries_qty m == 0.
  Proof.
    induction m as [|x m IH]; intros He Hk; cbn [entries_qty]; [reflexivity|].
    rewrite IH; [|intros y Hy; apply He; right; exact Hy|intros y Hy; apply Hk; right; exact Hy].
    destruct (ematch x) eqn:Em; [|ring]. exfalso.
    pose proof (He _ (or_introl eq_refl)) as (K & Ha' & _).
    unfold ematch in Em. apply (key_match _ _ Ha') in Em. apply (Hk x (or_introl eq_refl)). congruence.
  Qed.

  Lemma entries_qty_posq m : keys_sorted m -> (forall x, In x m -> entry_ok x) -> entries_qty m == posq m.
  Proof.
    induction m as [|x m IH]; intros Hs He; [reflexivity|].
    inversion Hs as [|? ? Hs' Hall]; subst.
    assert (He' : forall y, In y m -> entry_ok y) by (intros y Hy; apply He; right; exact Hy).
    pose proof (He _ (or_introl eq_refl)) as (K & Ha' & _).
    cbn [entries_qty]. destruct (ematch x) eqn:Em.
    - pose proof Em as Em0. unfold ematch in Em. apply (key_match _ _ Ha') in Em.
      rewrite entries_nokey; [|exact He'|].
      + unfold posq, getd, pos_get. destruct x as [k [[a' c'] q]]. cbn [fst snd] in *. cbn [sm_get].
        rewrite K, <- Em, str_eqb_refl. ring.
      + intros y Hy E. rewrite Forall_forall in Hall. specialize (Hall y Hy). unfold key_lt in Hall.
        rewrite E, K, Em in Hall. exact (str_cmp_lt_irrefl _ Hall).
    - rewrite (IH Hs' He'). unfold posq, getd, pos_get. destruct x as [k [[a' c'] q]]. cbn [fst snd] in *. cbn [sm_get].
      rewrite str_eqb_neq; [ring|]. intros E. rewrite K in E. symmetry in E. apply (key_match _ _ Ha') in E.
      unfold ematch in Em. cbn [fst snd] in Em. congruence.
  Qed.

  (* ---------------------------------------------------------- one day *)
  Lemma valuate_day_inv s d s' d' :
    process_day (valuate_proc v) s d = ROk (s', d') ->
    exists ts s2 txns',
      val_adjustments v (d_date d) (v_prev s) (d_normalized d) (v_qty s) = ROk ts /\
      fold_txns (valuate_proc v) (mkVal (v_prev s) (d_normalized d) (v_qty s)) (d_txns d ++ ts) = ROk (s2, txns') /\
      s' = mkVal (d_normalized d) (v_cur s2) (v_qty s2) /\
      d_txns d' = txns' /\ d_normalized d' = d_normalized d /\ d_date d' = d_date d.
  Proof.
    unfold process_day. cbn [valuate_proc pr_day_start pr_price pr_open pr_close pr_day_end].
    unfold val_day_start.
    destruct (val_adjustments v (d_date d) (v_prev s) (d_normalized d) (v_qty s)) as [ts| |]; cbn [rbind fst snd]; try discriminate.
    cbn [set_txns d_txns d_date d_prices d_opens d_asserts d_closes d_normalized].
    destruct (fold_txns (valuate_proc v) (mkVal (v_prev s) (d_normalized d) (v_qty s)) (d_txns d ++ ts)) as [[s2 txns']| |] eqn:Efold;
      cbn [rbind fst snd]; try discriminate.
    rewrite fold_asserts_none by reflexivity. cbn [rbind]. unfold val_day_end. cbn [d_normalized].
    intros H. injection H as <- <-. exists ts, s2, txns'. split; [reflexivity|]. split; [exact Efold|]. repeat split; reflexivity.
  Qed.

  Definition day_in (d : day) : Prop := Forall txn_in (d_txns d) /\ cur_ok (d_normalized d).

  Lemma day_cell s d s' d' :
    process_day (valuate_proc v) s d = ROk (s', d') ->
    day_in d -> good (v_qty s) -> cur_ok (v_prev s) ->
    v_prev s' = d_normalized d /\ d_normalized d' = d_normalized d /\ good (v_qty s') /\
    posq (v_qty s') == posq (v_qty s) + cell_qty a c (day_postings d) /\
    Qabs (cell_value a c (day_postings d')
          - (posq (v_qty s') * price_value (d_normalized d) c - posq (v_qty s) * price_value (v_prev s) c))
      <= inject_Z (cell_count a c (day_postings d')) * eps.
  Proof.
    intros H [Hin Hcur] Hg Hprev.
    destruct (valuate_day_inv _ _ _ _ H) as (ts & s2 & txns' & Eadj & Efold & -> & Etx & En & _).
    destruct Hg as (Hs & He & Hp).
    destruct (adj_cell _ _ _ _ _ Eadj He Hp Hprev Hcur) as [Fz Badj].
    destruct (fold_txns_app _ _ _ _ _ _ Efold) as (s1 & o1 & o2 & E1 & E2 & ->).
    rewrite (fold_txns_zero v ts s1 Fz) in E2. injection E2 as <- <-.
    destruct (fold_txns_cell _ _ _ _ E1 Hin (conj Hs (conj He Hp)) Hcur) as (B1 & B2 & B3 & B4 & B5 & B6).
    cbn [v_prev v_cur v_qty] in *.
    rewrite (entries_qty_posq _ Hs He) in Badj.
    split; [reflexivity|]. split; [exact En|]. split; [exact B3|].
    unfold day_postings. rewrite Etx. fold (txns_postings (d_txns d)). fold (txns_postings (o1 ++ ts)).
    split; [exact B5|].
    unfold txns_postings in *. rewrite map_app, concat_app, cell_count_app, B4.
    eapply bound_add; [exact B6|exact Badj|].
    rewrite cell_value_app, B5. ring.
  Qed.

  (* ---------------------------------------------------------- all days *)
  Lemma days_cell ds : forall s s' ds',
    process_days (valuate_proc v) s ds = ROk (s', ds') ->
    Forall day_in ds -> good (v_qty s) -> cur_ok (v_prev s) ->
    v_prev s' = last_normalized (v_prev s) ds /\ good (v_qty s') /\ cur_ok (v_prev s') /\
    map d_normalized ds' = map d_normalized ds /\
    posq (v_qty s') == posq (v_qty s) + cell_qty a c (days_postings ds) /\
    Qabs (cell_value a c (days_postings ds')
          - (posq (v_qty s') * price_value (v_prev s') c - posq (v_qty s) * price_value (v_prev s) c))
      <= inject_Z (cell_count a c (days_postings ds')) * eps.
  Proof.
    induction ds as [|d ds IH]; intros s s' ds' H Hin Hg Hprev; cbn [process_days] in H.
    - injection H as <- <-. split; [reflexivity|]. split; [exact Hg|]. split; [exact Hprev|]. split; [reflexivity|].
      split; [cbn; ring|]. apply bound_zero. cbn. ring.
    - inversion Hin as [|? ? Hd Hrest]; subst.
      destruct (process_day (valuate_proc v) s d) as [[s1 d1]| |] eqn:E1; cbn [rbind fst snd] in H; try discriminate.
      destruct (process_days (valuate_proc v) s1 ds) as [[s2 ds2]| |] eqn:E2; cbn [rbind fst snd] in H; try discriminate.
      injection H as <- <-.
      destruct (day_cell _ _ _ _ E1 Hd Hg Hprev) as (A1 & A2 & A3 & A4 & A5).
      assert (Hprev1 : cur_ok (v_prev s1)) by (rewrite A1; apply Hd).
      destruct (IH _ _ _ E2 Hrest A3 Hprev1) as (B1 & B2 & B3 & B4 & B5 & B6).
      split; [rewrite B1, A1; reflexivity|]. split; [exact B2|]. split; [exact B3|].
      split; [cbn [map]; rewrite A2, B4; reflexivity|].
      unfold days_postings in *. cbn [map concat].
      split; [rewrite B5, A4, cell_qty_app; ring|].
      rewrite cell_count_app. eapply bound_add; [exact A5|exact B6|].
      rewrite cell_value_app, A1. ring.
  Qed.
End Cell.

(* ------------------------------------------------------------ the input conditions, by days *)

Lemma days_in_intro a c (Pq Pp : dec -> Prop) ds :
  Forall posting_in_ok (days_postings ds) ->
  Forall (fun p => cellb a c p = true -> Pq (p_qty p)) (days_postings ds) ->
  Forall (fun d => cur_ok c Pp (d_normalized d)) ds ->
  Forall (day_in a c Pq Pp) ds.
Proof.
  unfold days_postings, day_postings. rewrite !Forall_concat, !Forall_map. intros H1 H2 H3.
  rewrite Forall_forall in *. intros d Hd. split; [|apply H3; exact Hd].
  specialize (H1 d Hd). specialize (H2 d Hd). rewrite Forall_concat, Forall_map in H1, H2.
  unfold txn_in, pin. rewrite Forall_forall in *. intros t Ht. specialize (H1 t Ht). specialize (H2 t Ht).
  rewrite Forall_forall in *. intros p Hp. split; [apply H1|apply H2]; exact Hp.
Qed.

Lemma process_days_length {S} (p : processor S) ds : forall s s' ds',
  process_days p s ds = ROk (s', ds') -> length ds' = length ds.
Proof.
  induction ds as [|d ds IH]; intros s s' ds' H; cbn [process_days] in H.
  - injection H as <- <-. reflexivity.
  - destruct (process_day p s d) as [[s1 d1]| |]; cbn [rbind fst snd] in H; try discriminate.
    destruct (process_days p s1 ds) as [[s2 ds2]| |] eqn:E; cbn [rbind fst snd] in H; try discriminate.
    injection H as <- <-. cbn [length]. rewrite (IH _ _ _ E). reflexivity.
Qed.

Definition val_init : val_state := mkVal None None [].

Lemma posq_nil a c : posq a c [] == 0.
Proof. reflexivity. Qed.

(* ------------------------------------------------------------ instance 1: eps = 10^-8, no conditions *)

Definition PT (_ : dec) : Prop := True.

Lemma cur_ok_PT c n : cur_ok c PT n.
Proof. intros pr _. exact I. Qed.

Lemma days_in_PT a c ds : Forall posting_in_ok (days_postings ds) -> Forall (day_in a c PT PT) ds.
Proof.
  intros H. apply days_in_intro; [exact H| |].
  - apply Forall_forall. intros p _ _. exact I.
  - apply Forall_forall. intros d _. apply cur_ok_PT.
Qed.

(* delta form, from any state whose position map is well formed (every state the stage reaches) *)
Theorem mtm_delta v a c ds s s' ds' :
  account_ok a = true -> is_AL a = true -> c <> v ->
  Forall posting_in_ok (days_postings ds) ->
  good a c PT (v_qty s) ->
  process_days (valuate_proc v) s ds = ROk (s', ds') ->
  v_prev s' = last_normalized (v_prev s) ds /\ good a c PT (v_qty s') /\
  posq a c (v_qty s') == posq a c (v_qty s) + cell_qty a c (days_postings ds) /\
  Qabs (cell_value a c (days_postings ds')
        - (posq a c (v_qty s') * price_value (v_prev s') c - posq a c (v_qty s) * price_value (v_prev s) c))
    <= inject_Z (cell_count a c (days_postings ds')) * eps8.
Proof.
  intros Ha HAL Hcv Hin Hg H.
  destruct (days_cell v a c Ha HAL Hcv PT PT PT eps8 I (fun _ _ _ _ => I) (fun _ _ _ _ => I)
              (fun q p _ _ => merr_bound q p) (fun d q _ _ => merr_bound d q) eps8_nonneg
              ds s s' ds' H (days_in_PT a c ds Hin) Hg (cur_ok_PT c _)) as (B1 & B2 & _ & _ & B5 & B6).
  split; [exact B1|]. split; [exact B2|]. split; [exact B5|exact B6].
Qed.

(* the accumulated posted value of an asset/liability position is quantity * latest price, up to
   one 10^-8 per contributing multiplication *)
Theorem mark_to_market_stage v a c ds s' ds' :
  account_ok a = true -> is_AL a = true -> c <> v ->
  Forall posting_in_ok (days_postings ds) ->
  process_days (valuate_proc v) val_init ds = ROk (s', ds') ->
  Qabs (cell_value a c (days_postings ds')
        - cell_qty a c (days_postings ds) * price_value (last_normalized None ds) c)
    <= inject_Z (cell_count a c (days_postings ds')) * eps8.
Proof.
  intros Ha HAL Hcv Hin H.
  destruct (mtm_delta v a c ds val_init s' ds' Ha HAL Hcv Hin (good_nil a c PT) H) as (B1 & _ & B5 & B6).
  cbn [val_init v_prev v_qty] in *. rewrite posq_nil in *.
  eapply Qle_trans; [|exact B6]. apply Qle_lteq. right. apply Qabs_wd.
  rewrite B5, B1. ring.
Qed.

(* windowed: the value posted on the days after the first k is the change of the market value *)
Theorem mark_to_market_window v a c ds1 ds2 s' out :
  account_ok a = true -> is_AL a = true -> c <> v ->
  Forall posting_in_ok (days_postings (ds1 ++ ds2)) ->
  process_days (valuate_proc v) val_init (ds1 ++ ds2) = ROk (s', out) ->
  Qabs (cell_value a c (days_postings (skipn (length ds1) out))
        - (cell_qty a c (days_postings (ds1 ++ ds2)) * price_value (last_normalized None (ds1 ++ ds2)) c
           - cell_qty a c (days_postings ds1) * price_value (last_normalized None ds1) c))
    <= inject_Z (cell_count a c (days_postings (skipn (length ds1) out))) * eps8.
Proof.
  intros Ha HAL Hcv Hin H.
  destruct (process_days_app _ _ _ _ _ _ H) as (s1 & o1 & o2 & E1 & E2 & ->).
  assert (Hin12 : Forall posting_in_ok (days_postings ds1) /\ Forall posting_in_ok (days_postings ds2)).
  { unfold days_postings in Hin |- *. rewrite map_app, concat_app in Hin. apply Forall_app in Hin. exact Hin. }
  destruct Hin12 as [Hin1 Hin2].
  destruct (mtm_delta v a c ds1 val_init s1 o1 Ha HAL Hcv Hin1 (good_nil a c PT) E1) as (A1 & A2 & A5 & _).
  destruct (mtm_delta v a c ds2 s1 s' o2 Ha HAL Hcv Hin2 A2 E2) as (B1 & _ & B5 & B6).
  rewrite <- (process_days_length _ _ _ _ _ E1), skipn_app, skipn_all, Nat.sub_diag. cbn [skipn app].
  cbn [val_init v_prev v_qty] in *. rewrite posq_nil in A5.
  eapply Qle_trans; [|exact B6]. apply Qle_lteq. right. apply Qabs_wd.
  assert (EL : last_normalized None (ds1 ++ ds2) = v_prev s').
  { rewrite B1, A1. unfold last_normalized. rewrite fold_left_app. reflexivity. }
  rewrite EL, <- A1.
  assert (EQ : cell_qty a c (days_postings (ds1 ++ ds2)) == posq a c (v_qty s')).
  { unfold days_postings. rewrite map_app, concat_app, cell_qty_app. fold (days_postings ds1). fold (days_postings ds2).
    rewrite B5, A5. ring. }
  rewrite EQ. rewrite A5. ring.
Qed.

(* ------------------------------------------------------------ instance 2: no truncation, eps = 0 *)

Lemma ex_add x y : ex (add x y) = Z.min (ex x) (ex y).
Proof. rewrite add_normal. reflexivity. Qed.

Lemma ex_sub x y : ex (sub x y) = Z.min (ex x) (ex y).
Proof.
  unfold sub, rescale_pair. destruct (ex x =? ex y)%Z eqn:E.
  - apply Z.eqb_eq in E. cbn [ex]. lia.
  - apply Z.eqb_neq in E. destruct (Z.min (ex x) (ex y) =? ex x)%Z eqn:E2; cbn [negb].
    + apply Z.eqb_eq in E2. cbn [ex]. lia.
    + apply Z.eqb_neq in E2. rewrite (rescale_down x (Z.min (ex x) (ex y))) by lia. reflexivity.
Qed.

Definition decimals_le (k : Z) (d : dec) : Prop := (- k <= ex d)%Z.

(* when quantities have at most kq decimals and prices at most kp, kq + kp <= 8, no product is
   truncated and the posted value is exactly quantity * latest price *)
Theorem mark_to_market_exact v a c kq kp ds s' ds' :
  account_ok a = true -> is_AL a = true -> c <> v ->
  (0 <= kq)%Z -> (kq + kp <= 8)%Z ->
  Forall posting_in_ok (days_postings ds) ->
  Forall (fun p => cellb a c p = true -> decimals_le kq (p_qty p)) (days_postings ds) ->
  Forall (fun d => forall pr, np_price_opt (d_normalized d) c = Some pr -> decimals_le kp pr) ds ->
  process_days (valuate_proc v) val_init ds = ROk (s', ds') ->
  cell_value a c (days_postings ds') == cell_qty a c (days_postings ds) * price_value (last_normalized None ds) c.
Proof.
  intros Ha HAL Hcv Hkq Hk Hin Hq Hp H.
  assert (Hstep : forall x y, decimals_le kq x -> decimals_le kp y -> Qabs (merr x y) <= 0 /\ Qabs (merr y x) <= 0).
  { unfold decimals_le. intros x y Hx Hy.
    split; rewrite merr_exact by lia; discriminate. }
  assert (Hinit : cur_ok c (decimals_le kp) (v_prev val_init)) by (intros pr Hpr; discriminate).
  assert (P1 : decimals_le kq dec_nil) by (unfold decimals_le; cbn; lia).
  assert (P2 : forall x y, decimals_le kq x -> decimals_le kq y -> decimals_le kq (add x y))
    by (unfold decimals_le; intros x y Hx Hy; rewrite ex_add; lia).
  assert (P3 : forall x y, decimals_le kp x -> decimals_le kp y -> decimals_le kp (sub x y))
    by (unfold decimals_le; intros x y Hx Hy; rewrite ex_sub; lia).
  assert (P4 : forall q p, decimals_le kq q -> decimals_le kp p -> Qabs (merr q p) <= 0)
    by (intros q p Hq' Hp'; apply (Hstep q p Hq' Hp')).
  assert (P5 : forall d q, decimals_le kp d -> decimals_le kq q -> Qabs (merr d q) <= 0)
    by (intros d q Hd Hq'; apply (Hstep q d Hq' Hd)).
  assert (P6 : 0 <= 0) by discriminate.
  destruct (days_cell v a c Ha HAL Hcv (decimals_le kq) (decimals_le kp) (decimals_le kp) 0 P1 P2 P3 P4 P5 P6
              ds val_init s' ds' H (days_in_intro a c _ _ ds Hin Hq Hp) (good_nil a c _) Hinit)
    as (B1 & _ & _ & _ & B5 & B6).
  cbn [val_init v_prev v_qty] in *. rewrite posq_nil in *.
    rewrite Qmult_0_r in B6. apply Qabs_le_iff in B6. destruct B6 as [L U].
    assert (E : cell_value a c (days_postings ds') -
                (posq a c (v_qty s') * price_value (v_prev s') c - 0 * price_value None c) == 0)
      by (apply Qle_antisym; assumption).
    rewrite B5, B1 in E. rewrite <- (Qplus_0_l (_ * _)), <- E. ring.
Qed.

(* ------------------------------------------------------------ with the prices of ComputePrices *)
From Knut Require Import Spec.PriceSpec Spec.PriceDaySpec Proofs.PriceDayProofs.
Open Scope Q_scope.

Lemma cp_day_txns v s d s1 d1 :
  process_day (compute_prices_proc v) s d = ROk (s1, d1) -> d_txns d1 = d_txns d /\ d_prices d1 = d_prices d.
Proof.
  intros H. unfold process_day in H.
  cbn [compute_prices_proc pr_day_start pr_price pr_open pr_close pr_day_end rbind fst snd] in H.
  destruct (fold_res cp_price_cb s (d_prices d)) as [s2| |]; cbn [rbind] in H; try discriminate.
  rewrite fold_txns_cp in H. cbn [rbind fst snd] in H.
  rewrite fold_asserts_cp in H. cbn [rbind] in H.
  unfold cp_day_end in H. cbn [d_prices d_date d_opens d_txns d_asserts d_closes d_normalized] in H.
  destruct (d_prices d) as [|x l].
  - injection H as <- <-. split; reflexivity.
  - destruct (normalize (cp_prices s2) v); [|discriminate]. injection H as <- <-. split; reflexivity.
Qed.

Lemma cp_days_postings v ds : forall s s' ds',
  process_days (compute_prices_proc v) s ds = ROk (s', ds') -> days_postings ds' = days_postings ds.
Proof.
  induction ds as [|d ds IH]; intros s s' ds' H; cbn [process_days] in H.
  - injection H as <- <-. reflexivity.
  - destruct (process_day (compute_prices_proc v) s d) as [[s1 d1]| |] eqn:E1; cbn [rbind fst snd] in H; try discriminate.
    destruct (process_days (compute_prices_proc v) s1 ds) as [[s2 ds2]| |] eqn:E2; cbn [rbind fst snd] in H; try discriminate.
    injection H as <- <-. unfold days_postings in *. cbn [map concat]. rewrite (IH _ _ _ E2).
    unfold day_postings. destruct (cp_day_txns _ _ _ _ _ E1) as [-> _]. reflexivity.
Qed.

Lemma last_normalized_nth ds : forall n0, ds <> [] ->
  exists d, nth_error ds (pred (length ds)) = Some d /\ last_normalized n0 ds = d_normalized d.
Proof.
  induction ds as [|d r IH]; intros n0 Hne; [contradiction|].
  destruct r as [|d2 r2].
  - exists d. split; reflexivity.
  - destruct (IH (d_normalized d) ltac:(discriminate)) as (x & Hx & Hl). exists x. split; [exact Hx|exact Hl].
Qed.

(* C03 for the two stages in sequence: the price is the one in force on the last day according to
   the declarations up to it (Spec/PriceDaySpec.v price_on: C12 "on a given day") *)
Theorem mark_to_market_pipeline v a c ds0 s1 ds1 s2 ds2 :
  account_ok a = true -> is_AL a = true -> c <> v -> ds0 <> [] ->
  Forall posting_in_ok (days_postings ds0) ->
  process_days (compute_prices_proc v) (mkCp [] None) ds0 = ROk (s1, ds1) ->
  process_days (valuate_proc v) val_init ds1 = ROk (s2, ds2) ->
  Qabs (cell_value a c (days_postings ds2)
        - cell_qty a c (days_postings ds0) * price_value (price_on v ds0 (pred (length ds0))) c)
    <= inject_Z (cell_count a c (days_postings ds2)) * eps8.
Proof.
  intros Ha HAL Hcv Hne Hin H1 H2.
  pose proof (cp_days_postings _ _ _ _ _ H1) as EP.
  destruct (compute_prices_days v _ _ _ H1) as [Hlen Hn].
  assert (Hne1 : ds1 <> []) by (intros ->; destruct ds0; [contradiction|discriminate]).
  destruct (last_normalized_nth ds1 None Hne1) as (d & Hd & Hl).
  rewrite Hlen in Hd. rewrite <- (Hn _ _ Hd), <- Hl, <- EP.
  apply (mark_to_market_stage v a c ds1 s2 ds2 Ha HAL Hcv); [rewrite EP; exact Hin|exact H2].
Qed.

(* prices are carried forward: a day without price declarations has the prices of the day before *)
Lemma history_upto_snoc ds : forall k d,
  nth_error ds (S k) = Some d -> history_upto ds (S k) = history_upto ds k ++ d_prices d.
Proof.
  induction ds as [|x r IH]; intros k d H; [discriminate|].
  cbn [nth_error] in H. rewrite history_upto_S. destruct k as [|k].
  - rewrite history_upto_0. destruct r as [|y r']; [discriminate|]. injection H as ->.
    rewrite history_upto_0. reflexivity.
  - rewrite history_upto_S, (IH _ _ H), app_assoc. reflexivity.
Qed.

Theorem prices_carried_forward v ds k d :
  nth_error ds (S k) = Some d -> d_prices d = [] -> price_on v ds (S k) = price_on v ds k.
Proof.
  intros H Hp. unfold price_on. rewrite (history_upto_snoc _ _ _ H), Hp, app_nil_r. reflexivity.
Qed.

Theorem normalized_carried_forward v ds s' ds' k d d1 d2 :
  process_days (compute_prices_proc v) (mkCp [] None) ds = ROk (s', ds') ->
  nth_error ds (S k) = Some d -> d_prices d = [] ->
  nth_error ds' k = Some d1 -> nth_error ds' (S k) = Some d2 ->
  d_normalized d2 = d_normalized d1.
Proof.
  intros H Hd Hp H1 H2. destruct (compute_prices_days v _ _ _ H) as [_ Hn].
  rewrite (Hn _ _ H1), (Hn _ _ H2). apply (prices_carried_forward v ds k d Hd Hp).
Qed.

(* ------------------------------------------------------------ a held position has a price *)
Section Held.
  Variables (v : commodity) (a : account) (c : commodity).
  Hypothesis Ha : account_ok a = true.
  Hypothesis HAL : is_AL a = true.
  Hypothesis Hcv : c <> v.

  (* revaluation succeeded: every open non-V asset/liability position has both prices *)
  Lemma adj_requires_price date prev cur pos : forall ts,
    val_adjustments v date prev cur pos = ROk ts ->
    forall k a' c' q, In (k, (a', c', q)) pos -> is_AL a' = true -> c' <> v -> is_zero q = false ->
    (exists pp, np_price_opt prev c' = Some pp) /\ (exists cp, np_price_opt cur c' = Some cp).
  Proof.
    induction pos as [|[k0 [[a0 c0] q0]] rest IH]; intros ts H k a' c' q Hin HAL' Hc' Hq; [destruct Hin|].
    cbn [val_adjustments] in H. destruct Hin as [E|Hin].
    - injection E as -> -> -> ->. rewrite HAL', Hq, (str_eqb_neq c' v Hc') in H. cbn [negb orb] in H.
      destruct (np_price_opt prev c') as [pp|]; [|discriminate].
      destruct (np_price_opt cur c') as [cp|]; [|discriminate].
      split; eexists; reflexivity.
    - destruct (str_eqb c0 v || negb (is_AL a0) || is_zero q0); [exact (IH _ H _ _ _ _ Hin HAL' Hc' Hq)|].
      destruct (np_price_opt prev c0); [|discriminate]. destruct (np_price_opt cur c0); [|discriminate].
      destruct (is_zero (sub d0 d)); [exact (IH _ H _ _ _ _ Hin HAL' Hc' Hq)|].
      destruct (val_adjustments v date prev cur rest) as [ts'| |]; cbn [rbind] in H; try discriminate.
      exact (IH _ eq_refl _ _ _ _ Hin HAL' Hc' Hq).
  Qed.

  Definition hp (s : val_state) : Prop :=
    is_zero (getd (v_qty s) a c) = false -> exists pr, np_price_opt (v_cur s) c = Some pr.

  Lemma val_posting_hp s t p s' p' :
    val_posting v s t p = ROk (s', p') -> account_ok (p_acc p) = true -> hp s -> hp s'.
  Proof.
    intros H Hok Hhp. pose proof (val_posting_cur _ _ _ _ _ _ H) as Ecur.
    unfold val_posting in H. destruct (is_zero (p_qty p)) eqn:Ez; [injection H as <- <-; exact Hhp|].
    destruct (cellb a c p) eqn:Ec.
    - unfold cellb in Ec. apply andb_true_iff in Ec. destruct Ec as [_ Ec]. apply str_eqb_eq in Ec.
      assert (Ev : str_eqb v (p_com p) = false) by (apply str_eqb_neq; congruence).
      rewrite Ev in H. intros _. rewrite Ecur.
      destruct (v_cur s) as [n|]; [|discriminate]. unfold np_valuate in H.
      destruct (sm_get n (p_com p)) as [pr|] eqn:Ep; [|discriminate].
      exists pr. cbn [np_price_opt]. unfold np_price. rewrite <- Ec. exact Ep.
    - assert (Eq : getd (v_qty s') a c = getd (v_qty s) a c).
      { assert (E1 : v_qty s' = v_qty (if is_AL (p_acc p)
                        then mkVal (v_prev s) (v_cur s) (pos_add (v_qty s) (p_acc p) (p_com p) (p_qty p)) else s)).
        { destruct (str_eqb v (p_com p)); [injection H as <- _; reflexivity|].
          destruct (v_cur s) as [n|]; [|discriminate]. destruct (np_valuate n (p_com p) (p_qty p)); [|discriminate].
          injection H as <- _. reflexivity. }
        rewrite E1. destruct (is_AL (p_acc p)); [|reflexivity]. cbn [v_qty]. unfold pos_add.
        apply getd_put_other. intros K. symmetry in K. apply (key_match a c Ha _ _ Hok) in K.
        unfold cellb in Ec. congruence. }
      unfold hp. rewrite Eq, Ecur. exact Hhp.
  Qed.

  Lemma fold_postings_hp t ps : forall s s' ps',
    fold_postings (val_posting v) t s ps = ROk (s', ps') ->
    Forall (fun p => account_ok (p_acc p) = true) ps -> hp s -> hp s' /\ v_cur s' = v_cur s.
  Proof.
    induction ps as [|p ps IH]; intros s s' ps' H Hok Hhp; cbn [fold_postings] in H.
    - injection H as <- _. split; [exact Hhp|reflexivity].
    - inversion Hok as [|? ? Hp Hrest]; subst.
      destruct (val_posting v s t p) as [[s1 p1]| |] eqn:E1; cbn [rbind fst snd] in H; try discriminate.
      destruct (fold_postings (val_posting v) t s1 ps) as [[s2 ps2]| |] eqn:E2; cbn [rbind fst snd] in H; try discriminate.
      injection H as <- _. destruct (IH _ _ _ E2 Hrest (val_posting_hp _ _ _ _ _ E1 Hp Hhp)) as [X Y].
      split; [exact X|]. rewrite Y. exact (val_posting_cur _ _ _ _ _ _ E1).
  Qed.

  Lemma fold_txns_hp ts : forall s s' ts',
    fold_txns (valuate_proc v) s ts = ROk (s', ts') ->
    Forall (fun t => Forall (fun p => account_ok (p_acc p) = true) (t_postings t)) ts -> hp s -> hp s' /\ v_cur s' = v_cur s.
  Proof.
    induction ts as [|t ts IH]; intros s s' ts' H Hok Hhp; cbn [fold_txns] in H.
    - injection H as <- _. split; [exact Hhp|reflexivity].
    - inversion Hok as [|? ? Ht Hrest]; subst. cbn [valuate_proc pr_txn pr_posting rbind] in H.
      destruct (fold_postings (val_posting v) t s (t_postings t)) as [[s1 ps1]| |] eqn:E1; cbn [rbind fst snd] in H; try discriminate.
      destruct (fold_txns (valuate_proc v) s1 ts) as [[s2 ts2]| |] eqn:E2; cbn [rbind fst snd] in H; try discriminate.
      injection H as <- _. destruct (fold_postings_hp _ _ _ _ _ E1 Ht Hhp) as [X1 Y1].
      destruct (IH _ _ _ E2 Hrest X1) as [X Y]. split; [exact X|congruence].
  Qed.

  (* after a day that the stage accepted, a non-zero position of the cell has a price that day *)
  Lemma day_held_has_price s d s' d' :
    process_day (valuate_proc v) s d = ROk (s', d') ->
    Forall (fun t => Forall (fun p => account_ok (p_acc p) = true) (t_postings t)) (d_txns d) ->
    (forall x, In x (v_qty s) -> entry_ok x) ->
    is_zero (getd (v_qty s') a c) = false -> exists pr, np_price_opt (d_normalized d) c = Some pr.
  Proof.
    intros H Hok He.
    destruct (valuate_day_inv _ _ _ _ _ H) as (ts & s2 & txns' & Eadj & Efold & -> & _).
    destruct (fold_txns_app _ _ _ _ _ _ Efold) as (s1 & o1 & o2 & E1 & E2 & _).
    destruct (adj_cell v a c Ha HAL Hcv PT PT PT eps8 (fun _ _ _ _ => I) (fun d q _ _ => merr_bound d q)
                _ _ _ _ _ Eadj He (fun _ _ _ => I) (cur_ok_PT c _) (cur_ok_PT c _)) as [Fz _].
    rewrite (fold_txns_zero v ts s1 Fz) in E2. injection E2 as <- _.
    assert (H0 : hp (mkVal (v_prev s) (d_normalized d) (v_qty s))).
    { unfold hp. cbn [v_qty v_cur]. intros Hz. unfold getd, pos_get in Hz.
      destruct (sm_get (v_qty s) (pos_key a c)) as [[[a2 c2] q2]|] eqn:G; [|discriminate].
      apply sm_get_some_in in G. pose proof (He _ G) as (K & Ha2 & _). cbn [fst snd] in K, Ha2.
      apply pos_key_inj in K; [|assumption|assumption]. destruct K as [<- <-].
      destruct (adj_requires_price _ _ _ _ _ Eadj _ _ _ _ G HAL Hcv Hz) as [_ Hc]. exact Hc. }
    destruct (fold_txns_hp _ _ _ _ E1 Hok H0) as [H1 Hc1]. unfold hp in H1.
    cbn [v_qty]. intros Hz. destruct (H1 Hz) as [pr Hpr]. exists pr. rewrite Hc1 in Hpr. exact Hpr.
  Qed.
End Held.

Lemma day_accounts_ok d :
  Forall posting_in_ok (day_postings d) ->
  Forall (fun t => Forall (fun p => account_ok (p_acc p) = true) (t_postings t)) (d_txns d).
Proof.
  unfold day_postings. rewrite Forall_concat, Forall_map. apply Forall_impl. intros t.
  apply Forall_impl. intros p [H _]. exact H.
Qed.

Lemma days_held_has_price v a c :
  account_ok a = true -> is_AL a = true -> c <> v ->
  forall ds s s' ds',
  process_days (valuate_proc v) s ds = ROk (s', ds') ->
  Forall posting_in_ok (days_postings ds) -> good a c PT (v_qty s) -> ds <> [] ->
  is_zero (getd (v_qty s') a c) = false ->
  exists pr, np_price_opt (last_normalized (v_prev s) ds) c = Some pr.
Proof.
  intros Ha HAL Hcv. induction ds as [|d r IH]; intros s s' ds' H Hin Hg Hne Hz; [contradiction|].
  cbn [process_days] in H.
  destruct (process_day (valuate_proc v) s d) as [[s1 d1]| |] eqn:E1; cbn [rbind fst snd] in H; try discriminate.
  destruct (process_days (valuate_proc v) s1 r) as [[s2 r2]| |] eqn:E2; cbn [rbind fst snd] in H; try discriminate.
  injection H as <- <-.
  unfold days_postings in Hin. cbn [map concat] in Hin. apply Forall_app in Hin. destruct Hin as [Hd Hr].
  destruct r as [|d2 r'].
  - cbn [process_days] in E2. injection E2 as <- _. cbn [last_normalized fold_left].
    destruct Hg as (_ & He & _).
    exact (day_held_has_price v a c Ha HAL Hcv _ _ _ _ E1 (day_accounts_ok d Hd) He Hz).
  - assert (E1' : process_days (valuate_proc v) s [d] = ROk (s1, [d1])).
    { cbn [process_days]. rewrite E1. reflexivity. }
    assert (Hd' : Forall posting_in_ok (days_postings [d])).
    { unfold days_postings. cbn [map concat]. rewrite app_nil_r. exact Hd. }
    destruct (mtm_delta v a c [d] s s1 [d1] Ha HAL Hcv Hd' Hg E1') as (A1 & A2 & _).
    cbn [last_normalized fold_left] in A1.
    destruct (IH s1 s2 r2 E2 Hr A2 ltac:(discriminate) Hz) as [pr Hpr].
    exists pr. rewrite A1 in Hpr. exact Hpr.
Qed.

(* whenever the final quantity of the cell is not zero, its price on the last day exists: the
   0 that price_value returns for a missing price is never multiplied with a non-zero quantity *)
Theorem held_has_price v a c ds s' ds' :
  account_ok a = true -> is_AL a = true -> c <> v ->
  Forall posting_in_ok (days_postings ds) ->
  process_days (valuate_proc v) val_init ds = ROk (s', ds') ->
  ~ cell_qty a c (days_postings ds) == 0 ->
  exists pr, np_price_opt (last_normalized None ds) c = Some pr.
Proof.
  intros Ha HAL Hcv Hin H Hq.
  destruct (mtm_delta v a c ds val_init s' ds' Ha HAL Hcv Hin (good_nil a c PT) H) as (_ & _ & B5 & _).
  cbn [val_init v_qty] in B5. rewrite posq_nil, Qplus_0_l in B5.
  assert (Hne : ds <> []) by (intros ->; apply Hq; reflexivity).
  apply (days_held_has_price v a c Ha HAL Hcv ds val_init s' ds' H Hin (good_nil a c PT) Hne).
  destruct (is_zero (getd (v_qty s') a c)) eqn:Ez; [|reflexivity].
  exfalso. apply Hq. rewrite <- B5. apply is_zero_value. exact Ez.
Qed.

(* ------------------------------------------------------------ only asset/liability positions are revalued *)

(* every revaluation transaction is for an open position of an asset or liability account in a
   commodity other than V; it books between that account and its Income mirror.  Positions of
   other accounts never enter the position map (good: entry_ok), so nothing else is revalued *)
Lemma val_adjustments_only_AL v date prev cur pos : forall ts,
  val_adjustments v date prev cur pos = ROk ts ->
  Forall (fun t => exists k a c q gain, In (k, (a, c, q)) pos /\
                   is_AL a = true /\ str_eqb c v = false /\ is_zero q = false /\
                   t_postings t = pair_build (valuation_account_for a) a c dec_nil gain) ts.
Proof.
  induction pos as [|[k [[a c] q]] rest IH]; intros ts H; cbn [val_adjustments] in H.
  - injection H as <-. constructor.
  - assert (Hrest : forall ts', val_adjustments v date prev cur rest = ROk ts' ->
        Forall (fun t => exists k0 a0 c0 q0 gain, In (k0, (a0, c0, q0)) ((k, (a, c, q)) :: rest) /\
                   is_AL a0 = true /\ str_eqb c0 v = false /\ is_zero q0 = false /\
                   t_postings t = pair_build (valuation_account_for a0) a0 c0 dec_nil gain) ts').
    { intros ts' H'. eapply Forall_impl; [|apply IH; exact H'].
      intros t (k0 & a0 & c0 & q0 & g & Hin & Hx). exists k0, a0, c0, q0, g. split; [right; exact Hin|exact Hx]. }
    destruct (str_eqb c v || negb (is_AL a) || is_zero q) eqn:Eskip; [apply Hrest; exact H|].
    apply orb_false_iff in Eskip. destruct Eskip as [Eskip Ez]. apply orb_false_iff in Eskip. destruct Eskip as [Ev EAL].
    apply negb_false_iff in EAL.
    destruct (np_price_opt prev c) as [pp|]; try discriminate.
    destruct (np_price_opt cur c) as [cp|]; try discriminate.
    destruct (is_zero (sub cp pp)); [apply Hrest; exact H|].
    destruct (val_adjustments v date prev cur rest) as [ts'| |] eqn:E; try discriminate. cbn [rbind] in H.
    injection H as <-. constructor; [|apply Hrest; reflexivity].
    exists k, a, c, q, (multiply (sub cp pp) q). cbn [t_postings]. split; [left; reflexivity|]. auto.
Qed.

(* the position map of the stage only ever holds asset/liability accounts *)
Lemma val_posting_positions_AL v s t p s' p' :
  val_posting v s t p = ROk (s', p') ->
  (forall x, In x (v_qty s) -> is_AL (fst (fst (snd x))) = true) ->
  (forall x, In x (v_qty s') -> is_AL (fst (fst (snd x))) = true).
Proof.
  intros H Hs. unfold val_posting in H. destruct (is_zero (p_qty p)); [injection H as <- _; exact Hs|].
  assert (E1 : v_qty s' = v_qty (if is_AL (p_acc p)
                then mkVal (v_prev s) (v_cur s) (pos_add (v_qty s) (p_acc p) (p_com p) (p_qty p)) else s)).
  { destruct (str_eqb v (p_com p)); [injection H as <- _; reflexivity|].
    destruct (v_cur s) as [n|]; [|discriminate]. destruct (np_valuate n (p_com p) (p_qty p)); [|discriminate].
    injection H as <- _. reflexivity. }
  rewrite E1. destruct (is_AL (p_acc p)) eqn:EAL; [|exact Hs]. cbn [v_qty]. unfold pos_add.
  intros x Hin. apply sm_put_in in Hin. destruct Hin as [->|Hin]; [exact EAL|apply Hs; exact Hin].
Qed.

(* ------------------------------------------------------------ accounts that are never revalued *)

Definition dummy_com (v : commodity) : commodity := 0%Z :: v.
Lemma dummy_com_neq v : dummy_com v <> v.
Proof. unfold dummy_com. intros E. apply (f_equal (@length Z)) in E. cbn [length] in E. lia. Qed.

Definition entries_ok (m : positions) : Prop := keys_sorted m /\ (forall x, In x m -> entry_ok x).

Lemma entries_ok_good a c m : entries_ok m <-> good a c PT m.
Proof.
  unfold entries_ok, good. split.
  - intros [H1 H2]. split; [exact H1|]. split; [exact H2|]. intros; exact I.
  - intros (H1 & H2 & _). split; assumption.
Qed.

(* the position map stays well formed over any run of the stage *)
Lemma days_entries_ok v ds s s' ds' :
  Forall posting_in_ok (days_postings ds) -> entries_ok (v_qty s) ->
  process_days (valuate_proc v) s ds = ROk (s', ds') -> entries_ok (v_qty s').
Proof.
  intros Hin Hs H.
  assert (Ha : account_ok [s_Assets] = true) by reflexivity.
  assert (HAL : is_AL [s_Assets] = true) by reflexivity.
  destruct (mtm_delta v [s_Assets] (dummy_com v) ds s s' ds' Ha HAL (dummy_com_neq v) Hin
              (proj1 (entries_ok_good _ _ _) Hs) H) as (_ & G & _).
  exact (proj2 (entries_ok_good _ _ _) G).
Qed.

Lemma fold_postings_count v b cb t ps : forall s s' ps',
  fold_postings (val_posting v) t s ps = ROk (s', ps') -> cell_count b cb ps' = cell_count b cb ps.
Proof.
  induction ps as [|p ps IH]; intros s s' ps' H; cbn [fold_postings] in H.
  - injection H as _ <-. reflexivity.
  - destruct (val_posting v s t p) as [[s1 p1]| |] eqn:E1; cbn [rbind fst snd] in H; try discriminate.
    destruct (fold_postings (val_posting v) t s1 ps) as [[s2 ps2]| |] eqn:E2; cbn [rbind fst snd] in H; try discriminate.
    injection H as _ <-. cbn [cell_count]. rewrite (IH _ _ _ E2).
    destruct (val_posting_value _ _ _ _ _ _ E1) as (Ea & _ & Ec & _). unfold cellb. rewrite Ea, Ec. reflexivity.
Qed.

Lemma fold_txns_count v b cb ts : forall s s' ts',
  fold_txns (valuate_proc v) s ts = ROk (s', ts') ->
  cell_count b cb (txns_postings ts') = cell_count b cb (txns_postings ts).
Proof.
  induction ts as [|t ts IH]; intros s s' ts' H; cbn [fold_txns] in H.
  - injection H as _ <-. reflexivity.
  - cbn [valuate_proc pr_txn pr_posting rbind] in H.
    destruct (fold_postings (val_posting v) t s (t_postings t)) as [[s1 ps1]| |] eqn:E1; cbn [rbind fst snd] in H; try discriminate.
    destruct (fold_txns (valuate_proc v) s1 ts) as [[s2 ts2]| |] eqn:E2; cbn [rbind fst snd] in H; try discriminate.
    injection H as _ <-. unfold txns_postings in *. cbn [map concat t_postings].
    rewrite !cell_count_app, (IH _ _ _ E2), (fold_postings_count _ _ _ _ _ _ _ _ E1). reflexivity.
Qed.

(* the revaluation transactions touch asset/liability accounts and Income accounts only *)
Lemma adjustments_other_accounts v date prev cur pos ts b cb :
  val_adjustments v date prev cur pos = ROk ts ->
  (forall x, In x pos -> entry_ok x) ->
  account_ok b = true -> is_AL b = false -> acc_type b <> Some Income ->
  cell_count b cb (txns_postings ts) = 0%Z.
Proof.
  intros H He Hb HnAL HnI. pose proof (val_adjustments_only_AL _ _ _ _ _ _ H) as F.
  clear H. induction F as [|t ts (k & a & c & q & gain & Hin & HAL & _ & _ & Hps) _ IH]; [reflexivity|].
  unfold txns_postings in *. cbn [map concat]. rewrite cell_count_app, IH, Hps, Z.add_0_r.
  pose proof (He _ Hin) as (_ & Ha & _). cbn [fst snd] in Ha.
  assert (N1 : acc_eqb a b = false).
  { destruct (acc_eqb a b) eqn:E; [|reflexivity]. apply acc_eqb_name in E. apply acc_name_inj in E; [|assumption|assumption]. congruence. }
  assert (N2 : acc_eqb (valuation_account_for a) b = false).
  { destruct (acc_eqb (valuation_account_for a) b) eqn:E; [|reflexivity]. apply acc_eqb_name in E.
    apply acc_name_inj in E; [|apply valuation_account_ok; assumption|assumption].
    exfalso. apply HnI. rewrite <- E. reflexivity. }
  unfold pair_build. destruct (is_neg dec_nil || is_zero dec_nil && is_neg gain); cbv beta iota zeta;
    cbn [cell_count]; unfold cellb; cbn [p_acc]; rewrite N1, N2; reflexivity.
Qed.

Theorem other_accounts_not_revalued v b cb : 
  account_ok b = true -> is_AL b = false -> acc_type b <> Some Income ->
  forall ds s s' ds',
  Forall posting_in_ok (days_postings ds) -> entries_ok (v_qty s) ->
  process_days (valuate_proc v) s ds = ROk (s', ds') ->
  cell_count b cb (days_postings ds') = cell_count b cb (days_postings ds).
Proof.
  intros Hb HnAL HnI. induction ds as [|d r IH]; intros s s' ds' Hin Hs H; cbn [process_days] in H.
  - injection H as _ <-. reflexivity.
  - destruct (process_day (valuate_proc v) s d) as [[s1 d1]| |] eqn:E1; cbn [rbind fst snd] in H; try discriminate.
    destruct (process_days (valuate_proc v) s1 r) as [[s2 r2]| |] eqn:E2; cbn [rbind fst snd] in H; try discriminate.
    injection H as _ <-.
    unfold days_postings in Hin. cbn [map concat] in Hin. apply Forall_app in Hin. destruct Hin as [Hd Hr].
    assert (E1' : process_days (valuate_proc v) s [d] = ROk (s1, [d1])) by (cbn [process_days]; rewrite E1; reflexivity).
    assert (Hd' : Forall posting_in_ok (days_postings [d])).
    { unfold days_postings. cbn [map concat]. rewrite app_nil_r. exact Hd. }
    pose proof (days_entries_ok v [d] s s1 [d1] Hd' Hs E1') as Hs1.
    unfold days_postings in *. cbn [map concat]. rewrite !cell_count_app, (IH _ _ _ Hr Hs1 E2). f_equal.
    destruct (valuate_day_inv _ _ _ _ _ E1) as (ts & sx & txns' & Eadj & Efold & _ & Etx & _).
    unfold day_postings. rewrite Etx. fold (txns_postings txns'). fold (txns_postings (d_txns d)).
    rewrite (fold_txns_count _ b cb _ _ _ _ Efold). unfold txns_postings. rewrite map_app, concat_app, cell_count_app.
    fold (txns_postings ts). rewrite (adjustments_other_accounts _ _ _ _ _ _ b cb Eadj (proj2 Hs) Hb HnAL HnI). lia.
Qed.

(* ------------------------------------------------------------ example data (Properties/C03.v) *)
(* Assets:B buys 1.5 A on day 1 and 0.3 A on day 3; A is declared at 1.23456789 C on day 1,
   2.00000001 C on day 2 and 3.33333333 C on day 4 (two price changes while the position is open,
   day 3 carries the price of day 2 forward). *)
Definition ex_v : commodity := [67%Z].
Definition ex_c : commodity := [65%Z].
Definition ex_a : account := [s_Assets; [66%Z]].
Definition ex_o : account := [s_Equity; [69%Z]].
Definition ex_buy (dt : Z) (q : dec) : txn := mkTxn dt [] (pair_build ex_o ex_a ex_c q dec_nil) None.
Definition ex_days : list day :=
  [ mkDay 1 [(ex_c, mkDec 123456789 (-8), ex_v)] [] [ex_buy 1 (mkDec 15 (-1))] [] [] None;
    mkDay 2 [(ex_c, mkDec 200000001 (-8), ex_v)] [] [] [] [] None;
    mkDay 3 [] [] [ex_buy 3 (mkDec 3 (-1))] [] [] None;
    mkDay 4 [(ex_c, mkDec 333333333 (-8), ex_v)] [] [] [] [] None ].

Lemma ex_days_in_ok : Forall posting_in_ok (days_postings ex_days).
Proof.
  repeat constructor; cbn; intros; try reflexivity; try discriminate.
Qed.

(* ------------------------------------------------------------ n_steps from the input alone *)
(* at most one revaluation per day for a cell: n_steps <= bookings of the cell + number of days *)
Section StepCount.
  Variables (v : commodity) (a : account) (c : commodity).
  Hypothesis Ha : account_ok a = true.
  Hypothesis HAL : is_AL a = true.

  Fixpoint ematch_count (m : positions) : Z :=
    match m with [] => 0%Z | x :: r => ((if ematch a c x then 1 else 0) + ematch_count r)%Z end.

  Lemma ematch_count_nokey m :
    (forall x, In x m -> entry_ok x) -> (forall x, In x m -> fst x <> pos_key a c) -> ematch_count m = 0%Z.
  Proof.
    induction m as [|x m IH]; intros He Hk; cbn [ematch_count]; [reflexivity|].
    rewrite IH; [|intros y Hy; apply He; right; exact Hy|intros y Hy; apply Hk; right; exact Hy].
    destruct (ematch a c x) eqn:Em; [|reflexivity]. exfalso.
    pose proof (He _ (or_introl eq_refl)) as (K & Ha' & _).
    unfold ematch in Em. apply (key_match a c Ha _ _ Ha') in Em. apply (Hk x (or_introl eq_refl)). congruence.
  Qed.

  Lemma ematch_count_le_one m : entries_ok m -> (ematch_count m <= 1)%Z.
  Proof.
    intros [Hs He]. induction m as [|x m IH]; cbn [ematch_count]; [lia|].
    inversion Hs as [|? ? Hs' Hall]; subst.
    assert (He' : forall y, In y m -> entry_ok y) by (intros y Hy; apply He; right; exact Hy).
    destruct (ematch a c x) eqn:Em; [|specialize (IH Hs' He'); lia].
    pose proof (He _ (or_introl eq_refl)) as (K & Ha' & _).
    unfold ematch in Em. apply (key_match a c Ha _ _ Ha') in Em.
    rewrite ematch_count_nokey; [lia|exact He'|].
    intros y Hy E. rewrite Forall_forall in Hall. specialize (Hall y Hy). unfold key_lt in Hall.
    rewrite E, K, Em in Hall. exact (str_cmp_lt_irrefl _ Hall).
  Qed.

  Lemma adj_count date prev cur pos : forall ts,
    val_adjustments v date prev cur pos = ROk ts -> (forall x, In x pos -> entry_ok x) ->
    (cell_count a c (txns_postings ts) <= ematch_count pos)%Z.
  Proof.
    induction pos as [|[k [[a' c'] q]] rest IH]; intros ts H He; cbn [val_adjustments] in H.
    - injection H as <-. cbn. lia.
    - assert (He' : forall x, In x rest -> entry_ok x) by (intros x Hx; apply He; right; exact Hx).
      pose proof (He _ (or_introl eq_refl)) as (_ & Ha' & _). cbn [fst snd] in Ha'.
      cbn [ematch_count]. unfold ematch at 1. cbn [fst snd].
      assert (Hskip : forall ts', val_adjustments v date prev cur rest = ROk ts' ->
                (cell_count a c (txns_postings ts') <= (if acc_eqb a' a && str_eqb c' c then 1 else 0) + ematch_count rest)%Z).
      { intros ts' H'. specialize (IH _ H' He'). destruct (acc_eqb a' a && str_eqb c' c); lia. }
      destruct (str_eqb c' v || negb (is_AL a') || is_zero q); [apply Hskip; exact H|].
      destruct (np_price_opt prev c') as [pp|]; [|discriminate].
      destruct (np_price_opt cur c') as [cp|]; [|discriminate].
      destruct (is_zero (sub cp pp)); [apply Hskip; exact H|].
      destruct (val_adjustments v date prev cur rest) as [ts'| |] eqn:E; cbn [rbind] in H; try discriminate.
      injection H as <-. specialize (IH _ eq_refl He').
      destruct (adjust_pair a c Ha HAL a' c' (multiply (sub cp pp) q) Ha') as (_ & _ & P3).
      unfold txns_postings in *. cbn [map concat t_postings]. rewrite cell_count_app, P3. lia.
  Qed.

  Lemma days_count ds : forall s s' ds',
    Forall posting_in_ok (days_postings ds) -> entries_ok (v_qty s) ->
    process_days (valuate_proc v) s ds = ROk (s', ds') ->
    (cell_count a c (days_postings ds') <= cell_count a c (days_postings ds) + Z.of_nat (length ds))%Z.
  Proof.
    induction ds as [|d r IH]; intros s s' ds' Hin Hs H; cbn [process_days] in H.
    - injection H as _ <-. cbn. lia.
    - destruct (process_day (valuate_proc v) s d) as [[s1 d1]| |] eqn:E1; cbn [rbind fst snd] in H; try discriminate.
      destruct (process_days (valuate_proc v) s1 r) as [[s2 r2]| |] eqn:E2; cbn [rbind fst snd] in H; try discriminate.
      injection H as _ <-.
      unfold days_postings in Hin. cbn [map concat] in Hin. apply Forall_app in Hin. destruct Hin as [Hd Hr].
      assert (E1' : process_days (valuate_proc v) s [d] = ROk (s1, [d1])) by (cbn [process_days]; rewrite E1; reflexivity).
      assert (Hd' : Forall posting_in_ok (days_postings [d])).
      { unfold days_postings. cbn [map concat]. rewrite app_nil_r. exact Hd. }
      pose proof (days_entries_ok v [d] s s1 [d1] Hd' Hs E1') as Hs1.
      specialize (IH _ _ _ Hr Hs1 E2).
      unfold days_postings in *. cbn [map concat length]. rewrite !cell_count_app.
      destruct (valuate_day_inv _ _ _ _ _ E1) as (ts & sx & txns' & Eadj & Efold & _ & Etx & _).
      assert (Hday : (cell_count a c (day_postings d1) <= cell_count a c (day_postings d) + 1)%Z).
      { unfold day_postings. rewrite Etx. fold (txns_postings txns'). fold (txns_postings (d_txns d)).
        rewrite (fold_txns_count _ a c _ _ _ _ Efold). unfold txns_postings. rewrite map_app, concat_app, cell_count_app.
        fold (txns_postings ts). pose proof (adj_count _ _ _ _ _ Eadj (proj2 Hs)) as A.
        pose proof (ematch_count_le_one _ Hs) as B. lia. }
      lia.
  Qed.
End StepCount.

(* the end-to-end bound with a step count that depends on the input only *)
Theorem mark_to_market_stage_input_bound v a c ds s' ds' :
  account_ok a = true -> is_AL a = true -> c <> v ->
  Forall posting_in_ok (days_postings ds) ->
  process_days (valuate_proc v) val_init ds = ROk (s', ds') ->
  Qabs (cell_value a c (days_postings ds')
        - cell_qty a c (days_postings ds) * price_value (last_normalized None ds) c)
    <= inject_Z (cell_count a c (days_postings ds) + Z.of_nat (length ds)) * eps8.
Proof.
  intros Ha HAL Hcv Hin H.
  eapply Qle_trans; [exact (mark_to_market_stage v a c ds s' ds' Ha HAL Hcv Hin H)|].
  apply Qmult_le_compat_r; [|exact eps8_nonneg]. rewrite <- Zle_Qle.
  apply (days_count v a c Ha HAL ds val_init s' ds' Hin); [|exact H].
  split; [constructor|intros x []].
Qed.

(* ------------------------------------------------------------ the side condition holds for built journals *)
(* every posting that posting.Builder creates has the zero Value: through ParseDirective (accrual
   expansion included) and the day builder.  (Same skeleton as the pair invariant, Proofs/PairProofs.v.) *)
Definition val0 (p : posting) : Prop := is_zero (p_val p) = true.
Definition txn_val0 (t : txn) : Prop := Forall val0 (t_postings t).
Definition day_val0 (d : day) : Prop := Forall txn_val0 (d_txns d).
Definition directive_val0 (d : directive) : Prop := match d with DTxn t => txn_val0 t | _ => True end.

Lemma pair_build_val0 cr db com q : Forall val0 (pair_build cr db com q dec_nil).
Proof.
  unfold pair_build. destruct (is_neg q || is_zero q && is_neg dec_nil); repeat constructor.
Qed.

Lemma postings_create_val0 bs ps : postings_create bs = MOk ps -> Forall val0 ps.
Proof.
  revert ps. induction bs as [|b bs IH]; intros ps H; cbn in H.
  - inversion H. constructor.
  - destruct (check_account (b_credit b)); try discriminate. cbn in H.
    destruct (check_account (b_debit b)); try discriminate. cbn in H.
    destruct (postings_create bs) as [ps'| |]; try discriminate. cbn in H. inversion H.
    apply Forall_app. split; [apply pair_build_val0|apply IH; reflexivity].
Qed.

Lemma accrual_parts_val0 desc tg acc p amount rem n i ends :
  Forall txn_val0 (accrual_parts desc tg acc p amount rem n i ends).
Proof.
  revert i. induction ends as [|dt rest IH]; intros i; cbn [accrual_parts]; constructor.
  - unfold txn_val0. cbn [t_postings]. apply pair_build_val0.
  - apply IH.
Qed.

Lemma expand_posting_val0 rebook t ac p l : expand_posting_gen rebook t ac p = MOk l -> Forall txn_val0 l.
Proof.
  unfold expand_posting_gen. intros H.
  assert (H1 : Forall txn_val0 (if rebook (p_acc p)
    then [mkTxn (t_date t) (t_desc t) (pair_build (ac_account ac) (p_acc p) (p_com p) (p_qty p) dec_nil) (t_targets t)]
    else [])).
  { destruct (rebook (p_acc p)); [|constructor]. constructor; [|constructor].
    unfold txn_val0. cbn [t_postings]. apply pair_build_val0. }
  destruct (is_IE (p_acc p)).
  - destruct (new_partition _ _ _); try discriminate.
    destruct (quo_rem _ _ _) as [[amount rem]|]; try discriminate.
    inversion H. apply Forall_app. split; [exact H1|apply accrual_parts_val0].
  - inversion H; subst. exact H1.
Qed.

Lemma expand_postings_val0 rebook t ac ps l : expand_postings_gen rebook t ac ps = MOk l -> Forall txn_val0 l.
Proof.
  revert l. induction ps as [|p ps IH]; intros l H; cbn in H.
  - inversion H. constructor.
  - destruct (expand_posting_gen rebook t ac p) as [l1| |] eqn:E1; try discriminate. cbn in H.
    destruct (expand_postings_gen rebook t ac ps) as [l2| |] eqn:E2; try discriminate. cbn in H. inversion H.
    apply Forall_app. split; [eapply expand_posting_val0; eauto|apply IH; reflexivity].
Qed.

Lemma txn_create_val0 s l : txn_create s = MOk l -> Forall txn_val0 l.
Proof.
  unfold txn_create, txn_create_gen. intros H.
  destruct (postings_create (st_bookings s)) as [ps| |] eqn:E; try discriminate. cbn in H.
  destruct (st_accrual s) as [ac|].
  - unfold expand_gen in H. destruct (check_account (ac_account ac)); try discriminate. cbn in H.
    eapply expand_postings_val0; eauto.
  - inversion H. repeat constructor. unfold txn_val0; cbn. eapply postings_create_val0; eauto.
Qed.

Lemma parse_directive_val0 s l : parse_directive s = MOk l -> Forall directive_val0 l.
Proof.
  destruct s; cbn; intros H.
  - inversion H. repeat constructor.
  - destruct (check_account acc); try discriminate. inversion H. repeat constructor.
  - destruct (check_account acc); try discriminate. inversion H. repeat constructor.
  - destruct (check_balances bals); try discriminate. inversion H. repeat constructor.
  - destruct (txn_create t) as [ts| |] eqn:E; try discriminate. cbn in H. inversion H.
    apply txn_create_val0 in E. clear - E. induction E; constructor; auto.
  - inversion H. constructor.
Qed.

Lemma parse_directives_val0 l ds : parse_directives l = MOk ds -> Forall directive_val0 ds.
Proof.
  revert ds. induction l as [|s l IH]; intros ds H; cbn in H.
  - inversion H. constructor.
  - destruct (parse_directive s) as [d1| |] eqn:E1; try discriminate. cbn in H.
    destruct (parse_directives l) as [d2| |] eqn:E2; try discriminate. cbn in H. inversion H.
    apply Forall_app. split; [eapply parse_directive_val0; eauto|apply IH; reflexivity].
Qed.

Lemma upd_day_val0 days d f :
  Forall day_val0 days -> (forall x, day_val0 x -> day_val0 (f x)) -> Forall day_val0 (upd_day days d f).
Proof.
  intros Hd Hf. induction Hd as [|x rest Hx Hrest IH]; cbn [upd_day].
  - constructor; [apply Hf; constructor|constructor].
  - destruct (d =? d_date x)%Z; [constructor; auto|].
    destruct (d <? d_date x)%Z; constructor; auto.
    + apply Hf. constructor.
Qed.

Lemma builder_add_val0 b d : Forall day_val0 (b_days b) -> directive_val0 d -> Forall day_val0 (b_days (builder_add b d)).
Proof.
  intros Hb Hd. destruct d; cbn [builder_add b_days]; apply upd_day_val0; auto.
  intros x Hx. unfold day_val0, add_txn_day in *. cbn [d_txns]. apply Forall_app. split; [exact Hx|repeat constructor; exact Hd].
Qed.

Lemma builder_of_val0 ds : Forall directive_val0 ds -> Forall day_val0 (b_days (builder_of ds)).
Proof.
  unfold builder_of. assert (H0 : Forall day_val0 (b_days new_builder)) by constructor.
  revert H0. generalize new_builder. induction ds as [|d ds IH]; intros b Hb Hds; cbn [fold_left]; [exact Hb|].
  inversion Hds; subst. apply IH; [apply builder_add_val0; assumption|assumption].
Qed.

Lemma builder_touch_val0 b dates : Forall day_val0 (b_days b) -> Forall day_val0 (b_days (builder_touch b dates)).
Proof.
  unfold builder_touch. cbn [b_days]. generalize (b_days b). induction dates as [|d ds IH]; intros days H; cbn [fold_left]; [exact H|].
  apply IH. apply upd_day_val0; auto.
Qed.

Lemma days_val0_in_ok days :
  Forall day_val0 days -> Forall (fun p => account_ok (p_acc p) = true) (days_postings days) ->
  Forall posting_in_ok (days_postings days).
Proof.
  intros Hv Ha. assert (Hv' : Forall val0 (days_postings days)).
  { unfold days_postings, day_postings. rewrite Forall_concat, Forall_map. eapply Forall_impl; [|exact Hv].
    intros d Hd. rewrite Forall_concat, Forall_map. exact Hd. }
  rewrite Forall_forall in *. intros p Hp. split; [apply Ha; exact Hp|].
  intros _. apply is_zero_value. apply Hv'. exact Hp.
Qed.

(* the days the balance command hands to its pipeline (with or without the days that --close
   touches) satisfy the side condition as soon as the posting accounts are syntactically valid *)
Theorem built_days_in_ok l dl dates touch :
  parse_directives l = MOk dl ->
  let days := b_days (if touch : bool then builder_touch (builder_of dl) dates else builder_of dl) in
  Forall (fun p => account_ok (p_acc p) = true) (days_postings days) ->
  Forall posting_in_ok (days_postings days).
Proof.
  intros H days Ha. apply days_val0_in_ok; [|exact Ha].
  pose proof (builder_of_val0 dl (parse_directives_val0 l dl H)) as Hb.
  unfold days. destruct touch; [apply builder_touch_val0; exact Hb|exact Hb].
Qed.

(* ------------------------------------------------------------ the prefix of the balance command *)
(* Model/Cli.v balance_report: load, (touch), check, prices, valuate, then filter/close/query.
   For the days that leave the valuate stage of that pipeline: *)
From Knut Require Model.Cli Proofs.LedgerProofs.

Theorem mark_to_market_balance_prefix l dl dates touch repaired v a c s0 days0 s1 ds1 s2 ds2 :
  parse_directives l = MOk dl ->
  let days := b_days (if touch : bool then builder_touch (builder_of dl) dates else builder_of dl) in
  Forall (fun p => account_ok (p_acc p) = true) (days_postings days) ->
  account_ok a = true -> is_AL a = true -> c <> v -> days <> [] ->
  process_days (Cli.check_proc_current repaired) check_init days = ROk (s0, days0) ->
  process_days (compute_prices_proc v) (mkCp [] None) days0 = ROk (s1, ds1) ->
  process_days (valuate_proc v) (mkVal None None []) ds1 = ROk (s2, ds2) ->
  Qabs (cell_value a c (days_postings ds2)
        - cell_qty a c (days_postings days) * price_value (price_on v days (pred (length days))) c)
    <= inject_Z (cell_count a c (days_postings ds2)) * eps8.
Proof.
  intros Hl days Hacc Ha HAL Hcv Hne H0 H1 H2.
  pose proof (LedgerProofs.check_current_stage_id _ _ _ _ _ H0) as E. subst days0.
  apply (mark_to_market_pipeline v a c days s1 ds1 s2 ds2 Ha HAL Hcv Hne); [|exact H1|exact H2].
  exact (built_days_in_ok l dl dates touch Hl Hacc).
Qed.
