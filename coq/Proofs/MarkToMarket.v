(* C03, end to end over days: the values the Valuate stage puts on the postings of an asset or
   liability position (bookings valued on their booking day plus the daily "Adjust value"
   revaluations) add up to quantity * price at the end, up to one truncation error per
   multiplication.

   Shape of the proof.  Everything is stated for one cell (account a, commodity c) and in
   "delta form": over any run of the stage from any reachable state
       posted value  -  (Q_end * p_end  -  Q_start * p_start)
   is a sum of one error term per Multiply call.  Per day (Abel summation, C03_abel):
       adjustments  ~  (p_cur - p_prev) * Q_start      (val_adjustments over the position map)
       bookings     ~  p_cur * (Q_end - Q_start)       (val_posting on each posting)
   The per-step error is abstract (Section Cell: [eps], with side predicates on quantities and
   prices that are closed under the additions/subtractions the stage performs); it is
   instantiated twice: eps = 10^-8 without conditions, and eps = 0 when quantities have at most
   kq and prices at most kp decimals with kq + kp <= 8. *)
From Coq Require Import ZArith QArith Qabs Qpower List Bool Lia Lqa Sorting.Sorted.
From Knut Require Import Model.Str Model.Dec Model.Date Model.Account Model.Ledger Model.Price
     Model.Journal Model.Check Model.Pipeline
     Spec.WellformedSpec
     Proofs.DecProofs Proofs.DecValue Proofs.CheckLemmas Proofs.CheckProofs Proofs.PairProofs
     Proofs.ValuationProofs.
Import ListNotations.
Open Scope Q_scope.

(* ------------------------------------------------------------ the error of one Multiply *)

Definition eps8 : Q := 1 # 100000000.

Definition merr (a b : dec) : Q := dvalue (multiply a b) - dvalue a * dvalue b.

Lemma eps8_pow : eps8 == Qpower ten (-8).
Proof. reflexivity. Qed.

Lemma merr_exact a b : (- 8 <= ex a + ex b)%Z -> merr a b == 0.
Proof. intros H. unfold merr. rewrite (multiply_value_exact a b H). ring. Qed.

Lemma Qabs_le_iff x y : Qabs x <= y <-> - y <= x /\ x <= y.
Proof. apply Qabs_Qle_condition. Qed.

(* truncation toward zero at 8 decimals moves the value by less than 10^-8 *)
Lemma truncate8_err d : Qabs (dvalue (truncate d 8) - dvalue d) <= eps8.
Proof.
  unfold truncate. cbn [Z.leb Z.compare andb]. change (Z.opp 8) with (-8)%Z.
  destruct (ex d <? - 8)%Z eqn:E.
  2:{ setoid_replace (dvalue d - dvalue d) with 0 by ring. discriminate. }
  apply Z.ltb_lt in E. cbn [andb].
  unfold rescale. replace (ex d =? - 8)%Z with false by lia. replace (ex d <? - 8)%Z with true by lia.
  replace (Z.abs (- 8 - ex d)) with (- 8 - ex d)%Z by lia.
  pose proof (pow10_nonneg_pos (- 8 - ex d) ltac:(lia)) as Hpos.
  set (P := pow10 (- 8 - ex d)) in *.
  assert (HP : Qpower ten (-8) == inject_Z P * Qpower ten (ex d)).
  { unfold P. rewrite pow10_as_Q by lia. rewrite <- (Qpower_plus ten _ _ ten_nz).
    replace (- 8 - ex d + ex d)%Z with (-8)%Z by ring. reflexivity. }
  unfold dvalue at 1. cbn [coef ex]. unfold dvalue.
  pose proof (Z.quot_rem' (coef d) P) as Hqr.
  pose proof (Z.rem_bound_abs (coef d) P ltac:(lia)) as Hb.
  set (q := Z.quot (coef d) P) in *. set (r := Z.rem (coef d) P) in *.
  assert (Hd : inject_Z q * Qpower ten (-8) - inject_Z (coef d) * Qpower ten (ex d)
               == inject_Z (- r) * Qpower ten (ex d)).
  { rewrite HP. rewrite Hqr at 1. rewrite inject_Z_opp, inject_Z_plus, inject_Z_mult. ring. }
  rewrite Hd, eps8_pow, HP.
  rewrite Qabs_Qmult. rewrite (Qabs_pos (Qpower ten (ex d))) by (apply Qlt_le_weak, Qpower_ten_pos).
  apply Qmult_le_compat_r; [|apply Qlt_le_weak, Qpower_ten_pos].
  rewrite Qabs_le_iff. rewrite <- inject_Z_opp. rewrite <- !Zle_Qle. rewrite (Z.abs_eq P) in Hb by lia. lia.
Qed.

Lemma merr_bound a b : Qabs (merr a b) <= eps8.
Proof.
  unfold merr, multiply. rewrite <- (dvalue_mul a b). apply truncate8_err.
Qed.

Lemma eps8_nonneg : 0 <= eps8.
Proof. discriminate. Qed.

(* ------------------------------------------------------------ sums over postings *)
From Knut Require Import Spec.MarkToMarketSpec.

Lemma qsum_app f l1 l2 : qsum f (l1 ++ l2) == qsum f l1 + qsum f l2.
Proof.
  induction l1 as [|p l1 IH]; cbn [app qsum]; [ring|]. rewrite IH. ring.
Qed.

Lemma cell_value_app a c l1 l2 : cell_value a c (l1 ++ l2) == cell_value a c l1 + cell_value a c l2.
Proof. apply qsum_app. Qed.

Lemma cell_qty_app a c l1 l2 : cell_qty a c (l1 ++ l2) == cell_qty a c l1 + cell_qty a c l2.
Proof. apply qsum_app. Qed.

Lemma cell_count_app a c l1 l2 : cell_count a c (l1 ++ l2) = (cell_count a c l1 + cell_count a c l2)%Z.
Proof.
  induction l1 as [|p l1 IH]; cbn [app cell_count]; [reflexivity|]. rewrite IH. ring.
Qed.

Lemma cell_count_nonneg a c l : (0 <= cell_count a c l)%Z.
Proof. induction l as [|p l IH]; cbn [cell_count]; [lia|]. destruct (cellb a c p); lia. Qed.

Lemma cell_value_cons a c p l :
  cell_value a c (p :: l) == (if cellb a c p then dvalue (p_val p) else 0) + cell_value a c l.
Proof. reflexivity. Qed.

Lemma cell_qty_cons a c p l :
  cell_qty a c (p :: l) == (if cellb a c p then dvalue (p_qty p) else 0) + cell_qty a c l.
Proof. reflexivity. Qed.

(* |x| <= n1 eps, |y| <= n2 eps, z = x + y  ==>  |z| <= (n1 + n2) eps *)
Lemma bound_add eps x y z n1 n2 :
  Qabs x <= inject_Z n1 * eps -> Qabs y <= inject_Z n2 * eps -> z == x + y ->
  Qabs z <= inject_Z (n1 + n2) * eps.
Proof.
  intros Hx Hy Hz. rewrite Hz, inject_Z_plus.
  eapply Qle_trans; [apply Qabs_triangle|]. rewrite Qmult_plus_distr_l. apply Qplus_le_compat; assumption.
Qed.

Lemma bound_zero eps x : x == 0 -> Qabs x <= inject_Z 0 * eps.
Proof. intros H. rewrite H. cbn. rewrite Qmult_0_l. discriminate. Qed.

Lemma bound_one eps x : Qabs x <= eps -> Qabs x <= inject_Z 1 * eps.
Proof. intros H. rewrite Qmult_1_l. exact H. Qed.

(* ------------------------------------------------------------ generic facts about the stage *)

Lemma fold_txns_app {S} (p : processor S) l1 : forall l2 s s' out,
  fold_txns p s (l1 ++ l2) = ROk (s', out) ->
  exists s1 o1 o2, fold_txns p s l1 = ROk (s1, o1) /\ fold_txns p s1 l2 = ROk (s', o2) /\ out = o1 ++ o2.
Proof.
  induction l1 as [|t l1 IH]; intros l2 s s' out H; cbn [app] in H.
  - exists s, [], out. split; [reflexivity|split; [exact H|reflexivity]].
  - cbn [fold_txns] in H |- *.
    destruct (match pr_txn p with Some f => f s t | None => ROk s end) as [s1| |]; cbn [rbind] in H |- *; try discriminate.
    destruct (match pr_posting p with
              | Some f => rbind (fold_postings f t s1 (t_postings t))
                                (fun sp => ROk (fst sp, mkTxn (t_date t) (t_desc t) (snd sp) (t_targets t)))
              | None => ROk (s1, t) end) as [[s2 t']| |]; cbn [rbind fst snd] in H |- *; try discriminate.
    destruct (fold_txns p s2 (l1 ++ l2)) as [[s3 o]| |] eqn:E; cbn [rbind fst snd] in H; try discriminate.
    injection H as <- <-.
    destruct (IH _ _ _ _ E) as (sa & o1 & o2 & E1 & E2 & ->).
    rewrite E1. cbn [rbind fst snd]. exists sa, (t' :: o1), o2. split; [reflexivity|split; [exact E2|reflexivity]].
Qed.

Lemma process_days_app {S} (p : processor S) l1 : forall l2 s s' out,
  process_days p s (l1 ++ l2) = ROk (s', out) ->
  exists s1 o1 o2, process_days p s l1 = ROk (s1, o1) /\ process_days p s1 l2 = ROk (s', o2) /\ out = o1 ++ o2.
Proof.
  induction l1 as [|d l1 IH]; intros l2 s s' out H; cbn [app] in H.
  - exists s, [], out. split; [reflexivity|split; [exact H|reflexivity]].
  - cbn [process_days] in H |- *.
    destruct (process_day p s d) as [[s1 d1]| |]; cbn [rbind fst snd] in H |- *; try discriminate.
    destruct (process_days p s1 (l1 ++ l2)) as [[s3 o]| |] eqn:E; cbn [rbind fst snd] in H; try discriminate.
    injection H as <- <-.
    destruct (IH _ _ _ _ E) as (sa & o1 & o2 & E1 & E2 & ->).
    rewrite E1. cbn [rbind fst snd]. exists sa, (d1 :: o1), o2. split; [reflexivity|split; [exact E2|reflexivity]].
Qed.

Lemma fold_asserts_none {S} (p : processor S) l : forall s, pr_balance p = None -> fold_asserts p s l = ROk s.
Proof.
  induction l as [|x l IH]; intros s H; cbn [fold_asserts]; [reflexivity|].
  rewrite H. cbn [rbind]. apply IH. exact H.
Qed.

(* zero-quantity postings (the revaluation transactions) pass the Posting callback untouched *)
Lemma fold_postings_zero v t ps : forall s,
  Forall (fun p => is_zero (p_qty p) = true) ps -> fold_postings (val_posting v) t s ps = ROk (s, ps).
Proof.
  induction ps as [|p ps IH]; intros s H; cbn [fold_postings]; [reflexivity|].
  inversion H as [|? ? Hp Hr]; subst. unfold val_posting at 1. rewrite Hp. cbn [rbind fst snd].
  rewrite (IH _ Hr). reflexivity.
Qed.

Definition zero_qty_txn (t : txn) : Prop := Forall (fun p => is_zero (p_qty p) = true) (t_postings t).

Lemma fold_txns_zero v ts : forall s,
  Forall zero_qty_txn ts -> fold_txns (valuate_proc v) s ts = ROk (s, ts).
Proof.
  induction ts as [|t ts IH]; intros s H; cbn [fold_txns]; [reflexivity|].
  inversion H as [|? ? Ht Hr]; subst.
  cbn [valuate_proc pr_txn pr_posting rbind]. rewrite (fold_postings_zero v t _ s Ht). cbn [rbind fst snd].
  rewrite (IH _ Hr). cbn [rbind fst snd]. destruct t; reflexivity.
Qed.
