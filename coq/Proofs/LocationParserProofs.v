(* Every error of a chain that the parser returns ENDS AT A RUNE of the text (or at its end):
   the scanner only ever stands at offsets that Go's walk over the runes of the text reaches
   (Advance moves by the width of the decoded rune, Backtrack returns to an earlier offset), and
   every error range ends at a scanner offset.  Hence the position that Range.Location()
   renders for an error denotes exactly the byte the error points at
   ([parse_text_errs_roundtrip], with LocationProofs.location_roundtrip).

   The proof is compositional over the monadic structure of Model/Parser.v: [gpost Q r] says
   of a result r that an Ok state is in [BInv] (ScannerProofs.Inv and "the offset is a
   boundary"), that the state of an Err stands at a boundary and every error of its chain ends
   at one; a lemma per combinator (bind, annot, ifM, ret, ...), per scanner primitive and per
   parser function.  Fuel exhaustion is excluded elsewhere (C07_fuel) and is [True] here.   *)
From Coq Require Import ZArith List Bool Lia ZifyBool.
From Knut Require Import Model.Bytes Model.Utf8 Model.Scanner Model.Parser Spec.SyntaxSpec
  Spec.LocationSpec Proofs.ScannerProofs Proofs.ParserProofs Proofs.LocationProofs.
Import ListNotations.
Open Scope bool_scope.
Open Scope Z_scope.

Section WithEnv.
Variable E : env.
Hypothesis Hlen : e_len E = Z.of_nat (length (e_text E)).
Hypothesis Hfuel : (length (e_text E) < e_fuel E)%nat.
Hypothesis Hdec : decoder_ok (e_decode E).

Notation t := (e_text E).
Notation len := (e_len E).
Notation dec := (e_decode E).
Notation Inv := (Inv E).
Local Notation inv_facts := (ScannerProofs.inv_facts E Hlen Hfuel Hdec).

(* o is the start of a rune of Go's walk over the text, or its end *)
Definition bd (o : Z) : Prop := In o (boundaries (runes_with dec t) 0).
Definition BInv (s : state) : Prop := Inv s /\ bd (off s).
Definition eb (x : err) : Prop := bd (er_end x).

Definition gpost {A} (Q : A -> state -> Prop) (r : res A) : Prop :=
  match r with
  | Ok a s' => BInv s' /\ Q a s'
  | Err e s' => bd (off s') /\ Forall eb e
  | OutOfFuel => True
  end.

Definition TT {A} : A -> state -> Prop := fun _ _ => True.
(* a returned range ends at the scanner's offset *)
Definition ends_here : range -> state -> Prop := fun r s => r_end r = off s.

Lemma bd_zero : bd 0.
Proof. unfold bd. apply boundaries_head. Qed.

(* ------------------------------------------------------------------ the monad *)

Lemma gpost_weaken {A} (Q Q' : A -> state -> Prop) r :
  gpost Q r -> (forall a s, Q a s -> Q' a s) -> gpost Q' r.
Proof. destruct r; simpl; intuition. Qed.

Lemma gpost_tt {A} (Q : A -> state -> Prop) r : gpost Q r -> gpost TT r.
Proof. intros H. eapply gpost_weaken; [exact H|]. intros; exact I. Qed.

Lemma gpost_bind {A B} (m : M A) (f : A -> M B) s (Q1 : A -> state -> Prop) (Q : B -> state -> Prop) :
  gpost Q1 (m s) -> (forall a s1, BInv s1 -> Q1 a s1 -> gpost Q (f a s1)) -> gpost Q (bind m f s).
Proof.
  intros Hm Hf. unfold bind. destruct (m s) as [a s1|e s1|]; simpl in Hm; [|exact Hm|exact I].
  destruct Hm as (HI & Hq). now apply Hf.
Qed.

Lemma gpost_annot {A} sc (m : M A) s (Q : A -> state -> Prop) : gpost Q (m s) -> gpost Q (annot sc m s).
Proof.
  intros Hm. unfold annot. destruct (m s) as [a s1|e s1|]; simpl in Hm; [exact Hm| |exact I].
  destruct Hm as (Hb & He). simpl. split; [assumption|]. unfold annotate. constructor; [exact Hb|assumption].
Qed.

Lemma gpost_ifM {A} c (a b : M A) s (Q : A -> state -> Prop) :
  gpost Q (a s) -> gpost Q (b s) -> gpost Q (ifM c a b s).
Proof. intros Ha Hb. unfold ifM. now destruct (c s). Qed.

Lemma gpost_ret {A} (a : A) s : BInv s -> gpost TT (ret a s).
Proof. intros H. simpl. split; [assumption|exact I]. Qed.

Lemma gpost_ret_with {A} sc (f : range -> A) s : BInv s -> gpost TT (ret_with sc f s).
Proof. intros H. simpl. split; [assumption|exact I]. Qed.

Lemma gpost_replace_err {A} (m : M A) s (Q : A -> state -> Prop) : gpost Q (m s) -> gpost Q (replace_err m s).
Proof.
  intros Hm. unfold replace_err. destruct (m s) as [a s1|e s1|]; simpl in Hm; [exact Hm| |exact I].
  simpl. split; [tauto|]. constructor; [exact bd_zero|constructor].
Qed.

Lemma gpost_err1 {A} (Q : A -> state -> Prop) k a s : BInv s -> gpost Q (Err [mkErr k a (off s)] s).
Proof. intros (_ & Hb). simpl. split; [assumption|]. constructor; [exact Hb|constructor]. Qed.

(* ------------------------------------------------------------------ Advance *)

Lemma advance_shape s :
  match advance E s with
  | Ok _ s' => off s' = off s + clen s
  | Err e s' => off s' = off s + clen s /\ Forall (fun x => er_end x = off s + clen s) e
  | OutOfFuel => False
  end.
Proof.
  unfold advance. destruct ((off s + clen s =? len) && negb (cur s =? eof)); [reflexivity|].
  destruct (dec (skipn (Z.to_nat (clen s)) (rest s))) as [c w].
  destruct (c =? rune_error); [|reflexivity].
  destruct (w =? 0); [split; [reflexivity|repeat constructor]|].
  destruct (w =? 1); [split; [reflexivity|repeat constructor]|reflexivity].
Qed.

Lemma bd_next s : BInv s -> bd (off s + clen s).
Proof using All.
  intros (HI & Hb). pose proof (inv_facts s HI) as (H0 & _ & _ & Heof & Hne).
  destruct (Z.eq_dec (cur s) eof) as [Hc|Hc].
  - destruct (Heof Hc) as (Hw & _). now rewrite Hw, Z.add_0_r.
  - destruct (Hne Hc) as (_ & _ & Ho & Hd). destruct HI as (_ & Hrest & _).
    apply (boundary_step dec Hdec t (off s) (cur s) (clen s)); [exact Hb|unfold zlen; lia|].
    now rewrite <- Hrest.
Qed.

Lemma g_advance s : BInv s -> gpost TT (advance E s).
Proof using All.
  intros H. pose proof (bd_next s H) as Hn. destruct H as (HI & Hb).
  pose proof (advance_spec E Hlen Hfuel Hdec s HI) as Ha. pose proof (advance_shape s) as Hs.
  destruct (advance E s) as [[] s1|e s1|]; cbn [ScannerProofs.post] in Ha; simpl.
  - split; [|exact I]. split; [tauto|]. now rewrite Hs.
  - destruct Hs as (Ho & He). split; [now rewrite Ho|].
    eapply Forall_impl; [|exact He]. intros x Hx. unfold eb. now rewrite Hx.
  - exact I.
Qed.

(* ------------------------------------------------------------------ the scanner's primitives *)

Lemma g_read_while_loop p start : forall n s, BInv s -> gpost ends_here (read_while_loop E p start n s).
Proof using All.
  induction n as [|n IH]; intros s H; [exact I|]. cbn [read_while_loop].
  destruct (p (cur s) && negb (cur s =? eof)).
  - pose proof (g_advance s H) as Ha. destruct (advance E s) as [[] s1|e s1|]; simpl in Ha.
    + apply IH. tauto.
    + simpl. split; [tauto|]. constructor; [unfold eb; simpl; tauto|tauto].
    + exact I.
  - simpl. split; [assumption|reflexivity].
Qed.

Lemma g_read_while p s : BInv s -> gpost ends_here (read_while E p s).
Proof using All. intros H. unfold read_while. now apply g_read_while_loop. Qed.

Lemma g_read_while1 p s : BInv s -> gpost ends_here (read_while1 E p s).
Proof using All.
  intros H. unfold read_while1. destruct (cur s =? eof); [now apply gpost_err1|].
  destruct (negb (p (cur s))); [now apply gpost_err1|]. now apply g_read_while_loop.
Qed.

Lemma g_read_character_with p s : BInv s -> gpost ends_here (read_character_with E p s).
Proof using All.
  intros H. unfold read_character_with. destruct (cur s =? eof); [now apply gpost_err1|].
  destruct (negb (p (cur s))); [now apply gpost_err1|].
  pose proof (g_advance s H) as Ha. destruct (advance E s) as [[] s1|e s1|]; simpl in Ha; simpl.
  - split; [tauto|reflexivity].
  - split; [tauto|]. constructor; [unfold eb; simpl; tauto|tauto].
  - exact I.
Qed.

Lemma g_read_character c s : BInv s -> gpost ends_here (read_character E c s).
Proof using All. intros H. unfold read_character. now apply g_read_character_with. Qed.

Lemma g_read_string_loop start : forall cs s, BInv s -> gpost ends_here (read_string_loop E cs start s).
Proof using All.
  induction cs as [|ch cs IH]; intros s H; cbn [read_string_loop].
  - simpl. split; [assumption|reflexivity].
  - destruct (negb (ch =? cur s)); [now apply gpost_err1|].
    pose proof (g_advance s H) as Ha. destruct (advance E s) as [[] s1|e s1|]; simpl in Ha.
    + apply IH. tauto.
    + simpl. split; [tauto|]. constructor; [unfold eb; simpl; tauto|tauto].
    + exact I.
Qed.

Lemma g_read_string cs s : BInv s -> gpost ends_here (read_string E cs s).
Proof using All. intros H. unfold read_string. now apply g_read_string_loop. Qed.

(* ReadAlternative backtracks to the state it started from *)
Lemma g_read_alternative_loop s0 : BInv s0 -> cur s0 <> eof ->
  forall ss s, BInv s -> gpost ends_here (read_alternative_loop E ss (off s0) s).
Proof using All.
  intros H0 Hc. induction ss as [|x ss IH]; intros s H; cbn [read_alternative_loop].
  - now apply gpost_err1.
  - pose proof (g_read_string x s H) as Hr. destruct (read_string E x s) as [r s1|e s1|].
    + exact Hr.
    + destruct H0 as (HI0 & Hb0). rewrite (backtrack_id E Hlen Hfuel Hdec s0 HI0 Hc). apply IH. now split.
    + exact I.
Qed.

Lemma g_read_alternative ss s : BInv s -> gpost ends_here (read_alternative E ss s).
Proof using All.
  intros H. unfold read_alternative. destruct (Z.eqb_spec (cur s) eof) as [Hc|Hc]; [now apply gpost_err1|].
  now apply (g_read_alternative_loop s H Hc).
Qed.

(* ------------------------------------------------------------------ the parser *)

Ltac gleaf :=
  match goal with
  | H : BInv ?s |- gpost _ (_ ?s) => eapply gpost_tt; eauto
  | H : BInv ?s |- gpost _ (_ _ ?s) => eapply gpost_tt; eauto
  end.

Ltac gstep :=
  match goal with
  | |- gpost _ OutOfFuel => exact I
  | |- gpost _ (out_of_fuel _) => exact I
  | |- gpost _ (bind _ _ _) => eapply gpost_bind; [|intros ? ? ? _]
  | |- gpost _ (annot _ _ _) => apply gpost_annot
  | |- gpost _ (ifM _ _ _ _) => apply gpost_ifM
  | |- gpost _ (replace_err _ _) => apply gpost_replace_err
  | |- gpost _ (ret _ _) => apply gpost_ret; assumption
  | |- gpost _ (ret_with _ _ _) => apply gpost_ret_with; assumption
  | |- gpost _ ((if ?c then _ else _) _) => destruct c
  end.

Local Hint Resolve g_read_while g_read_while1 g_read_character g_read_character_with g_read_string
  g_read_alternative : gdb.

Ltac gleafs :=
  match goal with
  | |- gpost ?Q _ => first [ is_evar Q; solve [eauto with gdb] | eapply gpost_tt; solve [eauto with gdb] ]
  end.

Ltac gsolve := repeat (cbv zeta; first [gstep | gleafs]).

Lemma g_read_comment s : BInv s -> gpost TT (read_comment E s).
Proof using All. intros H. unfold read_comment. gsolve. Qed.

Lemma g_read_whitespace1 s : BInv s -> gpost TT (read_whitespace1 E s).
Proof using All.
  intros H. unfold read_whitespace1. destruct (_ && _); [now apply gpost_err1|]. gsolve.
Qed.

Lemma g_read_rest s : BInv s -> gpost TT (read_rest_of_whitespace_line E s).
Proof using All. intros H. unfold read_rest_of_whitespace_line. gsolve. Qed.

Local Hint Resolve g_read_comment g_read_whitespace1 g_read_rest : gdb.

Lemma g_parse_commodity s : BInv s -> gpost TT (parse_commodity E s).
Proof using All. intros H. unfold parse_commodity. gsolve. Qed.

Lemma g_parse_decimal s : BInv s -> gpost TT (parse_decimal E s).
Proof using All. intros H. unfold parse_decimal. gsolve. Qed.

Lemma g_account_loop sc : forall n s, BInv s -> gpost TT (account_loop E sc n s).
Proof using All. induction n as [|n IH]; intros s H; cbn [account_loop]; gsolve; try (now apply IH). Qed.

Local Hint Resolve g_parse_commodity g_parse_decimal g_account_loop : gdb.

Lemma g_parse_account s : BInv s -> gpost TT (parse_account E s).
Proof using All. intros H. unfold parse_account. gsolve. Qed.

Lemma g_repeat_m {A} (m : M A) : (forall s, BInv s -> gpost TT (m s)) ->
  forall k s, BInv s -> gpost TT (repeat_m k m s).
Proof using All.
  intros Hm. induction k as [|k IH]; intros s H; cbn [repeat_m]; [now apply gpost_ret|].
  eapply gpost_bind; [now apply Hm|]. intros ? s1 H1 _. now apply IH.
Qed.

Lemma g_parse_date s : BInv s -> gpost TT (parse_date E s).
Proof using All.
  intros H. unfold parse_date. cbv zeta. apply gpost_annot.
  assert (Hd : forall s, BInv s -> gpost TT (read_character_with E (e_digit E) s)).
  { intros s0 H0. eapply gpost_tt. now apply g_read_character_with. }
  eapply gpost_bind; [apply g_repeat_m; assumption|]. intros ? s1 H1 _.
  eapply gpost_bind; [|intros ? s2 H2 _; now apply gpost_ret_with].
  apply g_repeat_m; [|assumption]. intros s0 H0.
  eapply gpost_bind; [eapply gpost_tt; now apply g_read_character|]. intros ? s3 H3 _.
  now apply g_repeat_m.
Qed.

Lemma g_parse_quoted_string s : BInv s -> gpost TT (parse_quoted_string E s).
Proof using All. intros H. unfold parse_quoted_string. gsolve. Qed.

Lemma g_parse_interval s : BInv s -> gpost TT (parse_interval E s).
Proof using All. intros H. unfold parse_interval. gsolve. Qed.

Local Hint Resolve g_parse_account g_parse_date g_parse_quoted_string g_parse_interval : gdb.

Lemma g_parse_booking s : BInv s -> gpost TT (parse_booking E s).
Proof using All. intros H. unfold parse_booking. gsolve. Qed.

Lemma g_parse_balance s : BInv s -> gpost TT (parse_balance E s).
Proof using All. intros H. unfold parse_balance. gsolve. Qed.

Lemma g_performance_loop : forall n s, BInv s -> gpost TT (performance_loop E n s).
Proof using All. induction n as [|n IH]; intros s H; cbn [performance_loop]; gsolve; try (now apply IH). Qed.

Local Hint Resolve g_parse_booking g_parse_balance g_performance_loop : gdb.

Lemma g_parse_performance s : BInv s -> gpost TT (parse_performance E s).
Proof using All. intros H. unfold parse_performance. gsolve. Qed.

Lemma g_parse_accrual s : BInv s -> gpost TT (parse_accrual E s).
Proof using All. intros H. unfold parse_accrual. gsolve. Qed.

Local Hint Resolve g_parse_performance g_parse_accrual : gdb.

(* the range of a duplicate annotation is the keyword just read: it ends at the offset *)
Lemma g_addons_loop sc : forall n ad s, BInv s -> gpost TT (addons_loop E sc n ad s).
Proof using All.
  induction n as [|n IH]; intros ad s H; cbn [addons_loop]; [exact I|].
  eapply gpost_bind; [now apply g_read_alternative|]. intros r s1 H1 Hr. unfold ends_here in Hr.
  assert (Hdup : forall (Q : addons -> state -> Prop), gpost Q (Err [mkErr KDup (r_start r) (r_end r)] s1)).
  { intros Q. rewrite Hr. now apply gpost_err1. }
  eapply gpost_bind with (Q1 := TT).
  { cbv zeta.
    destruct (str_eqb (extract E r) kw_performance).
    - destruct (negb (range_empty (pf_range (ad_perf ad)))); [apply Hdup|]. gsolve.
    - destruct (str_eqb (extract E r) kw_accrue).
      + destruct (negb (range_empty (ac_range (ad_accrual ad)))); [apply Hdup|]. gsolve.
      + simpl. split; [assumption|exact I]. }
  intros ad' s2 H2 _. gsolve; try (now apply IH).
Qed.

Local Hint Resolve g_addons_loop : gdb.

Lemma g_parse_addons s : BInv s -> gpost TT (parse_addons E s).
Proof using All. intros H. unfold parse_addons. gsolve. Qed.

Lemma g_parse_include s : BInv s -> gpost TT (parse_include E s).
Proof using All. intros H. unfold parse_include. gsolve. Qed.

Lemma g_parse_open sc date s : BInv s -> gpost TT (parse_open E sc date s).
Proof using All. intros H. unfold parse_open. gsolve. Qed.

Lemma g_parse_close sc date s : BInv s -> gpost TT (parse_close E sc date s).
Proof using All. intros H. unfold parse_close. gsolve. Qed.

Lemma g_balances_loop : forall n s, BInv s -> gpost TT (balances_loop E n s).
Proof using All. induction n as [|n IH]; intros s H; cbn [balances_loop]; gsolve; try (now apply IH). Qed.

Lemma g_bookings_loop : forall n s, BInv s -> gpost TT (bookings_loop E n s).
Proof using All. induction n as [|n IH]; intros s H; cbn [bookings_loop]; gsolve; try (now apply IH). Qed.

Local Hint Resolve g_parse_addons g_parse_include g_parse_open g_parse_close g_balances_loop g_bookings_loop : gdb.

Lemma g_parse_assertion sc date s : BInv s -> gpost TT (parse_assertion E sc date s).
Proof using All. intros H. unfold parse_assertion. gsolve. Qed.

Lemma g_parse_price sc date s : BInv s -> gpost TT (parse_price E sc date s).
Proof using All. intros H. unfold parse_price. gsolve. Qed.

Lemma g_parse_transaction sc date ad s : BInv s -> gpost TT (parse_transaction E sc date ad s).
Proof using All. intros H. unfold parse_transaction. gsolve. Qed.

Local Hint Resolve g_parse_assertion g_parse_price g_parse_transaction : gdb.

Lemma g_parse_directive s : BInv s -> gpost TT (parse_directive E s).
Proof using All. intros H. unfold parse_directive. gsolve. Qed.

Local Hint Resolve g_parse_directive : gdb.

Lemma g_file_loop : forall n s, BInv s -> gpost TT (file_loop E n s).
Proof using All. induction n as [|n IH]; intros s H; cbn [file_loop]; gsolve; try (now apply IH). Qed.

Local Hint Resolve g_file_loop : gdb.

Lemma g_parse_file s : BInv s -> gpost TT (parse_file E s).
Proof using All. intros H. unfold parse_file. gsolve. Qed.

(* syntax.ParseFile: New; Advance; ParseFile *)
Theorem parse_env_errs_at_runes e : parse_env E = ParseErr e -> Forall eb e.
Proof using All.
  unfold parse_env. pose proof (advance_init E Hlen Hfuel Hdec) as Ha.
  pose proof (advance_shape (init_state E)) as Hs. cbn [init_state off clen] in Hs.
  destruct (advance E (init_state E)) as [[] s|e0 s|]; cbn [ScannerProofs.post] in Ha.
  - assert (HB : BInv s). { split; [tauto|]. rewrite Hs. exact bd_zero. }
    pose proof (g_parse_file s HB) as Hf.
    destruct (parse_file E s) as [f s'|e1 s'|]; simpl in Hf; intros Heq; inversion Heq; subst. tauto.
  - intros Heq; inversion Heq; subst. destruct Hs as (_ & He).
    eapply Forall_impl; [|exact He]. intros x Hx. unfold eb. rewrite Hx. exact bd_zero.
  - discriminate.
Qed.

End WithEnv.

(* ------------------------------------------------------------------ the concrete parser *)

Lemma parse_text_errs_at_runes letter digit t e :
  parse_text letter digit t = ParseErr e -> forallb (fun x => rune_boundary_b t (er_end x)) e = true.
Proof.
  unfold parse_text. intros H.
  pose proof (parse_env_errs_at_runes (mk_env Utf8M.decode letter digit t) eq_refl) as HE.
  cbn [mk_env e_text e_fuel] in HE. specialize (HE ltac:(lia) utf8_decoder_ok e H).
  apply forallb_forall. intros x Hx. rewrite Forall_forall in HE. specialize (HE x Hx).
  unfold eb, bd in HE. cbn [mk_env e_text e_decode] in HE.
  now apply (boundary_in Utf8M.decode).
Qed.

(* the position rendered for every error of the chain denotes the byte the error points at *)
Lemma parse_text_errs_roundtrip letter digit t e :
  parse_text letter digit t = ParseErr e -> errs_roundtrip_b t e = true.
Proof. intros H. apply errs_roundtrip_of_boundaries. exact (parse_text_errs_at_runes letter digit t e H). Qed.

Lemma parse_text_errs_verdict letter digit t e :
  parse_text letter digit t = ParseErr e ->
  forallb (fun x => observed_loc_ok_b t (er_end x) (location t (er_end x))) e = true.
Proof.
  intros H. pose proof (parse_text_errs_at_runes letter digit t e H) as Hb.
  rewrite forallb_forall in *. intros x Hx. apply observed_loc_ok_location. now apply Hb.
Qed.
