(* C05 at the command level (Model/Cli.v): loading a permuted list of syntax-level directives,
   the check command. *)
From Coq Require Import ZArith List Bool Lia Permutation.
From Knut Require Import Model.Str Model.Dec Model.Date Model.Account Model.Ledger Model.Price Model.Journal
     Model.Check Model.Pipeline Model.Cli Spec.WellformedSpec Proofs.BuilderProofs Proofs.CheckPerm
     Proofs.OrderProofs Proofs.OrderStages.
Import ListNotations.
Open Scope bool_scope.
Open Scope Z_scope.

(* two command results are equivalent: both fail, or both succeed with R-related values *)
Definition ceq {A} (R : A -> A -> Prop) (x y : cresult A) : Prop :=
  match x, y with
  | COk a, COk b => R a b
  | COk _, _ => False
  | _, COk _ => False
  | _, _ => True
  end.

Lemma ceq_bind {A B} (R : A -> A -> Prop) (Q : B -> B -> Prop) x y f g :
  ceq R x y -> (forall a b, R a b -> ceq Q (f a) (g b)) -> ceq Q (cbind x f) (cbind y g).
Proof. destruct x, y; cbn; try tauto. intros H Hf. apply Hf. exact H. Qed.

Lemma ceq_of_presult {A} (R : A -> A -> Prop) x y : req R x y -> ceq R (of_presult x) (of_presult y).
Proof. destruct x, y; cbn; tauto. Qed.

Lemma ceq_impl {A} (R Q : A -> A -> Prop) x y : (forall a b, R a b -> Q a b) -> ceq R x y -> ceq Q x y.
Proof. intros T. destruct x, y; cbn; auto. Qed.

Lemma ceq_eq_ok {A} (x y : cresult A) a : ceq eq x y -> (x = COk a <-> y = COk a).
Proof. destruct x, y; cbn; intros H; try contradiction; split; intros E; try discriminate; congruence. Qed.

(* what the parser guarantees for the accounts of a journal (Spec/WellformedSpec.v [syntactic]),
   stated for the syntax-level list as in Properties/C04.v *)
Definition sd_syntactic (sds : list sdirective) : Prop :=
  forall ds, parse_directives sds = MOk ds -> syntactic ds.

Lemma Forall2_and_l {A B} (R : A -> B -> Prop) (P : A -> Prop) l1 l2 :
  Forall2 R l1 l2 -> Forall P l1 -> Forall2 (fun a b => R a b /\ P a) l1 l2.
Proof.
  induction 1 as [|a b l1 l2 Hab Hl IH]; intros HF; [constructor|].
  inversion HF; subst. constructor; auto.
Qed.

Lemma builder_accs_ok ds : syntactic ds -> Forall day_accs_ok (b_days (builder_of ds)).
Proof.
  intros Hs. apply Forall_forall. intros x Hx t p Ht Hp.
  destruct (builder_canonical ds) as (_ & _ & _ & M). destruct (M x Hx) as (_ & _ & M2 & _).
  assert (Hin : In (DTxn t) ds).
  { assert (H : In (DTxn t) (map DTxn (d_txns x))) by (apply in_map; exact Ht).
    rewrite M2 in H. apply sel_in in H. tauto. }
  apply (Hs (DTxn t) (EPost (p_acc p) (p_com p) (p_qty p)) Hin).
  cbn [events_of]. apply (in_map (fun p => EPost (p_acc p) (p_com p) (p_qty p))). exact Hp.
Qed.

Definition builders_equiv (b1 b2 : builder) : Prop :=
  Forall2 DIok (b_days b1) (b_days b2) /\ b_min b1 = b_min b2 /\ b_max b1 = b_max b2.

Theorem load_perm sds1 sds2 :
  Permutation sds1 sds2 -> sd_syntactic sds1 -> ceq builders_equiv (load sds1) (load sds2).
Proof.
  intros P Hs. unfold load. pose proof (parse_directives_perm sds1 sds2 P) as H.
  specialize (Hs). unfold sd_syntactic in Hs.
  destruct (parse_directives sds1) as [ds1| |], (parse_directives sds2) as [ds2| |]; cbn in *; try tauto.
  destruct (build_perm ds1 ds2 H) as (H1 & H2 & H3). split; [|split; assumption].
  apply Forall2_and_l; [exact H1|]. apply builder_accs_ok. apply Hs. reflexivity.
Qed.

(* ------------------------------------------------------------------ knut check *)

Lemma check_stage_cmd fb l1 l2 :
  (forall s a b s', fb s a b = ROk s' -> s' = s) ->
  (forall s s' a b, Rck s s' -> req Rck (fb s a b) (fb s' a b)) ->
  Forall2 DIok l1 l2 ->
  ceq (fun a b => snd a = l1 /\ snd b = l2) (run_stage (check_proc_with fb) check_init l1)
      (run_stage (check_proc_with fb) check_init l2).
Proof.
  intros H1 H2 HF. unfold run_stage. apply ceq_of_presult.
  eapply req_impl; [|apply (check_stage_rel fb H1 H2 check_init check_init l1 l2 (Rck_refl _) HF)].
  cbn beta. tauto.
Qed.

Lemma check_stage_current r l1 l2 :
  Forall2 DIok l1 l2 ->
  ceq (fun a b => snd a = l1 /\ snd b = l2) (run_stage (check_proc_current r) check_init l1)
      (run_stage (check_proc_current r) check_init l2).
Proof.
  intros HF. destruct r.
  - apply (check_stage_cmd ck_balance_fixed); [exact ck_balance_fixed_pure|exact ck_balance_fixed_resp|exact HF].
  - apply (check_stage_cmd (ck_balance_cb false)); [apply ck_balance_cb_pure|apply ck_balance_cb_resp|exact HF].
Qed.

Theorem check_cmd_perm lenient sds1 sds2 :
  Permutation sds1 sds2 -> sd_syntactic sds1 -> ceq eq (check_cmd lenient sds1) (check_cmd lenient sds2).
Proof.
  intros P Hs. unfold check_cmd. eapply ceq_bind; [apply load_perm; eassumption|].
  intros b1 b2 (HF & _ & _). eapply ceq_bind.
  - apply (check_stage_cmd (ck_balance_cb lenient)); [apply ck_balance_cb_pure|apply ck_balance_cb_resp|exact HF].
  - intros; cbn. reflexivity.
Qed.

Theorem check_cmd_fixed_perm sds1 sds2 :
  Permutation sds1 sds2 -> sd_syntactic sds1 -> ceq eq (check_cmd_fixed sds1) (check_cmd_fixed sds2).
Proof.
  intros P Hs. unfold check_cmd_fixed. eapply ceq_bind; [apply load_perm; eassumption|].
  intros b1 b2 (HF & _ & _). eapply ceq_bind.
  - apply (check_stage_cmd ck_balance_fixed); [exact ck_balance_fixed_pure|exact ck_balance_fixed_resp|exact HF].
  - intros; cbn. reflexivity.
Qed.

Theorem check_cmd_current_perm r sds1 sds2 :
  Permutation sds1 sds2 -> sd_syntactic sds1 -> ceq eq (check_cmd_current r sds1) (check_cmd_current r sds2).
Proof.
  intros P Hs. unfold check_cmd_current. eapply ceq_bind; [apply load_perm; eassumption|].
  intros b1 b2 (HF & _ & _). eapply ceq_bind; [apply check_stage_current; exact HF|].
  intros; cbn. reflexivity.
Qed.

(* the verdict, as an equivalence of acceptance *)
Theorem verdict_perm sds1 sds2 :
  Permutation sds1 sds2 -> sd_syntactic sds1 ->
  (forall l, check_cmd l sds1 = COk tt <-> check_cmd l sds2 = COk tt) /\
  (check_cmd_fixed sds1 = COk tt <-> check_cmd_fixed sds2 = COk tt) /\
  (forall r, check_cmd_current r sds1 = COk tt <-> check_cmd_current r sds2 = COk tt).
Proof.
  intros P Hs. split; [|split]; intros; apply ceq_eq_ok.
  - apply check_cmd_perm; assumption.
  - apply check_cmd_fixed_perm; assumption.
  - apply check_cmd_current_perm; assumption.
Qed.

(* ------------------------------------------------------------------ knut balance: up to the report *)
From Knut Require Import Model.Report Proofs.OrderPipeline.

(* balanceRunner.execute up to the days that reach Query.Into: check, prices, valuate, filter,
   close -- the text of [Cli.balance_report] without its last stage *)
Definition balance_days (cfg : balance_cfg) (ds : list sdirective) : cresult (list day * partition) :=
  cbind (match bc_valuation cfg with
         | Some v => if valid_commodity v then COk tt else CErr k_valuation v
         | None => COk tt end) (fun _ =>
  cbind (load ds) (fun b =>
  cbind (cfg_partition cfg b) (fun part =>
  let b := if bc_close cfg then builder_touch b (start_dates part) else b in
  let days := b_days b in
  cbind (run_stage (check_proc_current (bc_lenient cfg)) check_init days) (fun r1 =>
  cbind (match bc_valuation cfg with
         | Some v =>
           cbind (run_stage (compute_prices_proc v) (mkCp [] None) (snd r1)) (fun r2 =>
           cbind (run_stage (valuate_proc v) (mkVal None None []) (snd r2)) (fun r3 => COk (snd r3)))
         | None => COk (snd r1)
         end) (fun days =>
  cbind (run_stage (filter_proc (span part)) tt days) (fun r4 =>
  cbind (if bc_close cfg
         then cbind (run_stage (close_proc (start_dates part)) (mkClose [] []) (snd r4)) (fun r5 => COk (snd r5))
         else COk (snd r4)) (fun days => COk (days, part)))))))).

Lemma balance_report_days cfg ds :
  balance_report cfg ds =
  cbind (balance_days cfg ds) (fun dp =>
  cbind (run_stage (query_proc (balance_query cfg (snd dp)) report_insert) new_report (fst dp)) (fun r6 =>
  COk (fst r6, snd dp))).
Proof.
  unfold balance_report, balance_days.
  destruct (match bc_valuation cfg with Some v => if valid_commodity v then COk tt else CErr k_valuation v | None => COk tt end);
    cbn [cbind]; try reflexivity.
  destruct (load ds) as [b| |]; cbn [cbind]; try reflexivity.
  destruct (cfg_partition cfg b) as [part| |]; cbn [cbind]; try reflexivity.
  cbv zeta.
  destruct (run_stage (check_proc_current (bc_lenient cfg)) check_init _) as [r1| |]; cbn [cbind]; try reflexivity.
  destruct (match bc_valuation cfg with Some v => _ | None => COk (snd r1) end) as [days| |]; cbn [cbind]; try reflexivity.
  destruct (run_stage (filter_proc (span part)) tt days) as [r4| |]; cbn [cbind]; try reflexivity.
  destruct (if bc_close cfg then _ else COk (snd r4)) as [days'| |]; cbn [cbind]; reflexivity.
Qed.

(* the property's exclusion, on the syntax-level list *)
Definition no_conflicting_prices (sds : list sdirective) : Prop :=
  forall d c p t c' p' t', In (SPrice d c p t) sds -> In (SPrice d c' p' t') sds ->
    same_pair (c, p, t) (c', p', t') -> (c, p, t) = (c', p', t').

Lemma parse_price_origin sds : forall ds d c p t,
  parse_directives sds = MOk ds -> In (DPrice d c p t) ds -> In (SPrice d c p t) sds.
Proof.
  induction sds as [|s sds IH]; intros ds d c p t H Hin; cbn [parse_directives] in H.
  - inversion H; subst. destruct Hin.
  - destruct (parse_directive s) as [o| |] eqn:Es; cbn [mbind] in H; try discriminate.
    destruct (parse_directives sds) as [o'| |] eqn:El; cbn [mbind] in H; try discriminate.
    inversion H; subst ds. apply in_app_or in Hin. destruct Hin as [Hin|Hin]; [|right; eapply IH; [reflexivity|exact Hin]].
    left. destruct s; cbn [parse_directive] in Es.
    + inversion Es; subst o. destruct Hin as [E|[]]. inversion E; subst. reflexivity.
    + destruct (check_account acc); cbn [mbind] in Es; try discriminate. inversion Es; subst o. destruct Hin as [E|[]]. discriminate.
    + destruct (check_account acc); cbn [mbind] in Es; try discriminate. inversion Es; subst o. destruct Hin as [E|[]]. discriminate.
    + destruct (check_balances bals); cbn [mbind] in Es; try discriminate. inversion Es; subst o. destruct Hin as [E|[]]. discriminate.
    + destruct (txn_create t0); cbn [mbind] in Es; try discriminate. inversion Es; subst o.
      apply in_map_iff in Hin. destruct Hin as [x [E _]]. discriminate.
    + inversion Es; subst o. destruct Hin.
Qed.

Lemma builder_prices_consistent sds ds :
  no_conflicting_prices sds -> parse_directives sds = MOk ds ->
  Forall (fun x => prices_consistent (d_prices x)) (b_days (builder_of ds)).
Proof.
  intros Hn Hp. apply Forall_forall. intros x Hx.
  destruct (builder_canonical ds) as (_ & _ & _ & M). destruct (M x Hx) as (M0 & _).
  assert (K : forall y, In y (d_prices x) -> In (SPrice (d_date x) (fst (fst y)) (snd (fst y)) (snd y)) sds).
  { intros y Hy. eapply parse_price_origin; [exact Hp|].
    assert (H : In (price_directive (d_date x) y) (map (price_directive (d_date x)) (d_prices x))) by (apply in_map; exact Hy).
    rewrite M0 in H. apply sel_in in H. apply H. }
  intros [[c p] t] [[c' p'] t'] H1 H2 Hs. apply (Hn (d_date x)); [apply (K _ H1)|apply (K _ H2)|exact Hs].
Qed.

Lemma touch_prices_consistent b dates :
  Forall (fun x => prices_consistent (d_prices x)) (b_days b) ->
  Forall (fun x => prices_consistent (d_prices x)) (b_days (builder_touch b dates)).
Proof.
  unfold builder_touch. cbn [b_days]. generalize (b_days b).
  induction dates as [|d dates IH]; intros l H; cbn [fold_left]; [exact H|].
  apply IH. apply Forall_forall. apply upd_day_all.
  - apply Forall_forall. exact H.
  - auto.
  - intros x y [].
Qed.

Lemma touch_accs_ok b dates : Forall day_accs_ok (b_days b) -> Forall day_accs_ok (b_days (builder_touch b dates)).
Proof.
  unfold builder_touch. cbn [b_days]. generalize (b_days b).
  induction dates as [|d dates IH]; intros l H; cbn [fold_left]; [exact H|].
  apply IH. apply Forall_forall. apply upd_day_all.
  - apply Forall_forall. exact H.
  - auto.
  - intros t p [].
Qed.

Lemma Forall2_DIok_split l1 l2 : Forall2 DIok l1 l2 -> Forall2 day_equiv l1 l2 /\ Forall day_accs_ok l1.
Proof. induction 1 as [|a b l1 l2 [H1 H2] Hl [IH1 IH2]]; split; constructor; assumption. Qed.

Lemma Forall2_DIok_join l1 l2 : Forall2 day_equiv l1 l2 -> Forall day_accs_ok l1 -> Forall2 DIok l1 l2.
Proof. intros H1 H2. apply Forall2_and_l; assumption. Qed.

Lemma cfg_partition_equiv cfg b1 b2 : b_min b1 = b_min b2 -> b_max b1 = b_max b2 -> cfg_partition cfg b1 = cfg_partition cfg b2.
Proof. intros H1 H2. unfold cfg_partition, builder_period. rewrite H1, H2. reflexivity. Qed.

(* the days that reach the report: same dates, same normalized prices, the transactions of each
   day (with their values, the value adjustments and the closing transactions) permuted *)
Theorem balance_days_perm cfg sds1 sds2 :
  Permutation sds1 sds2 -> sd_syntactic sds1 -> no_conflicting_prices sds1 ->
  ceq (fun a b => Forall2 DIok (fst a) (fst b) /\ snd a = snd b) (balance_days cfg sds1) (balance_days cfg sds2).
Proof.
  intros P Hs Hn. unfold balance_days.
  destruct (match bc_valuation cfg with Some v => if valid_commodity v then COk tt else CErr k_valuation v | None => COk tt end);
    cbn [cbind ceq]; try exact I.
  (* load, with the price condition *)
  assert (L : ceq (fun b1 b2 => builders_equiv b1 b2 /\ Forall (fun x => prices_consistent (d_prices x)) (b_days b1))
                  (load sds1) (load sds2)).
  { pose proof (load_perm sds1 sds2 P Hs) as H. unfold load in *.
    destruct (parse_directives sds1) as [ds1| |] eqn:E1, (parse_directives sds2) as [ds2| |]; cbn in *; try tauto.
    split; [exact H|]. eapply builder_prices_consistent; eassumption. }
  eapply ceq_bind; [exact L|]. intros b1 b2 [(HF & Hmin & Hmax) Hpc].
  rewrite (cfg_partition_equiv cfg b1 b2 Hmin Hmax).
  destruct (cfg_partition cfg b2) as [part| |]; cbn [cbind ceq]; try exact I. cbv zeta.
  set (c1 := if bc_close cfg then builder_touch b1 (start_dates part) else b1).
  set (c2 := if bc_close cfg then builder_touch b2 (start_dates part) else b2).
  assert (HF' : Forall2 DIok (b_days c1) (b_days c2)).
  { unfold c1, c2. destruct (bc_close cfg); [|exact HF].
    destruct (Forall2_DIok_split _ _ HF) as [A B].
    apply Forall2_DIok_join; [apply builder_touch_equiv; exact A|apply touch_accs_ok; exact B]. }
  assert (Hpc' : Forall (fun x => prices_consistent (d_prices x)) (b_days c1)).
  { unfold c1. destruct (bc_close cfg); [apply touch_prices_consistent|]; exact Hpc. }
  eapply ceq_bind; [apply check_stage_current; exact HF'|].
  intros [s1 r1] [s2 r2] [E1 E2]. cbn [fst snd] in *. subst r1 r2.
  eapply ceq_bind.
  { instantiate (1 := fun l1 l2 => Forall2 DIok l1 l2).
    destruct (bc_valuation cfg) as [v|]; [|exact HF'].
    eapply ceq_bind.
    - unfold run_stage. apply ceq_of_presult. apply cp_stage_rel. apply Forall2_and_l; assumption.
    - intros [u1 q1] [u2 q2] [_ Hq]. cbn [fst snd] in *.
      eapply ceq_bind.
      + unfold run_stage. apply ceq_of_presult. apply val_stage_rel; [intros k0 a0 c0 q0 []|exact Hq].
      + intros [w1 z1] [w2 z2] [_ Hz]. cbn [fst snd ceq] in *. exact Hz. }
  intros l1 l2 Hl. eapply ceq_bind.
  { unfold run_stage. apply ceq_of_presult. apply filter_stage_rel. exact Hl. }
  intros [u1 q1] [u2 q2] [_ Hq]. cbn [fst snd] in *.
  eapply ceq_bind.
  { instantiate (1 := fun l1 l2 => Forall2 DIok l1 l2).
    destruct (bc_close cfg); [|exact Hq].
    eapply ceq_bind.
    - unfold run_stage. apply ceq_of_presult. apply close_stage_rel; [intros k0 a0 c0 q0 []|exact Hq].
    - intros [w1 z1] [w2 z2] [_ Hz]. cbn [fst snd ceq] in *. exact Hz. }
  intros m1 m2 Hm. cbn [ceq fst snd]. split; [exact Hm|reflexivity].
Qed.

(* ------------------------------------------------------------------ knut print *)
From Knut Require Import Model.JPrinter Proofs.StrProofs.

Lemma sort_days_equiv l1 l2 : Forall2 day_equiv l1 l2 -> Forall2 day_equiv (sort_days l1) (sort_days l2).
Proof.
  unfold sort_days. induction 1 as [|x y l1 l2 Hxy Hl IH]; cbn [map]; constructor; [|exact IH].
  apply set_txns_equiv; [exact Hxy|].
  eapply Permutation_trans; [apply sort_by_perm|].
  eapply Permutation_trans; [apply Hxy|]. apply Permutation_sym. apply sort_by_perm.
Qed.

(* both fail, or both print: the texts are journal.Print of day lists that agree in their dates
   and, per day and kind, in the multiset of directives -- before and after journal.Print has
   sorted each day's transactions *)
Definition print_equiv (o1 o2 : str) : Prop :=
  exists days1 days2,
    o1 = print_journal days1 /\ o2 = print_journal days2 /\
    Forall2 day_equiv days1 days2 /\ Forall2 day_equiv (sort_days days1) (sort_days days2).

Theorem print_cmd_perm l sds1 sds2 :
  Permutation sds1 sds2 -> sd_syntactic sds1 -> ceq print_equiv (print_cmd l sds1) (print_cmd l sds2).
Proof.
  intros P Hs. unfold print_cmd. eapply ceq_bind; [apply load_perm; eassumption|].
  intros b1 b2 (HF & _ & _). eapply ceq_bind; [apply check_stage_current; exact HF|].
  intros _ _ _. cbn [ceq]. exists (b_days b1), (b_days b2).
  destruct (Forall2_DIok_split _ _ HF) as [A _].
  split; [reflexivity|]. split; [reflexivity|]. split; [exact A|apply sort_days_equiv; exact A].
Qed.

(* ------------------------------------------------------------------ knut balance: the report trees *)
From Knut Require Import Proofs.OrderReport.

Lemma Forall2_DIok_equiv l1 l2 : Forall2 DIok l1 l2 -> Forall2 day_equiv l1 l2.
Proof. intros H. apply Forall2_DIok_split in H. apply H. Qed.

(* both runs fail, or they produce the same partition and report trees that are equal up to
   the order of each node's amounts list ([OrderReport.report_eq]: same tree shape, same
   segments, paths and flags; per node the same bindings (date, commodity) -> amount) *)
Theorem balance_report_perm cfg sds1 sds2 :
  Permutation sds1 sds2 -> sd_syntactic sds1 -> no_conflicting_prices sds1 ->
  ceq (fun a b => report_eq (fst a) (fst b) /\ snd a = snd b) (balance_report cfg sds1) (balance_report cfg sds2).
Proof.
  intros P Hs Hn. rewrite !balance_report_days.
  eapply ceq_bind; [apply balance_days_perm; eassumption|].
  intros [l1 pt1] [l2 pt2] [HF E]. cbn [fst snd] in *. subst pt2.
  eapply ceq_bind.
  - unfold run_stage. apply ceq_of_presult. apply query_stage_rel. apply Forall2_DIok_equiv. exact HF.
  - intros [r1 x1] [r2 x2] H. cbn [ceq fst snd] in *. split; [exact H|reflexivity].
Qed.

(* ------------------------------------------------------------------ knut balance: the table and the bytes *)
From Knut Require Import Model.Table Proofs.OrderRender.

Theorem balance_table_perm cfg sds1 sds2 :
  Permutation sds1 sds2 -> sd_syntactic sds1 -> no_conflicting_prices sds1 ->
  ceq eq (balance_table cfg sds1) (balance_table cfg sds2).
Proof.
  intros P Hs Hn. unfold balance_table.
  eapply ceq_bind; [apply balance_report_perm; eassumption|].
  intros [r1 p1] [r2 p2] [H E]. cbn [fst snd ceq] in *. subst p2.
  apply render_report_eq. exact H.
Qed.

Theorem balance_bytes_perm cfg sds1 sds2 :
  Permutation sds1 sds2 -> sd_syntactic sds1 -> no_conflicting_prices sds1 ->
  ceq eq (balance_csv cfg sds1) (balance_csv cfg sds2) /\
  forall tc, ceq eq (balance_text cfg tc sds1) (balance_text cfg tc sds2).
Proof.
  intros P Hs Hn. pose proof (balance_table_perm cfg sds1 sds2 P Hs Hn) as H.
  unfold balance_csv, balance_text. split; [|intros tc];
    (eapply ceq_bind; [exact H|]); intros t1 t2 <-; cbn [ceq]; reflexivity.
Qed.
