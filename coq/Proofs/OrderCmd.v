(* C05 at the command level (Model/Cli.v): loading a permuted list of syntax-level directives,
   the check command. *)
From Coq Require Import ZArith List Bool Lia Permutation.
From Knut Require Import Model.Str Model.Dec Model.Date Model.Account Model.Ledger Model.Price Model.Journal
     Model.Check Model.Pipeline Model.Cli Spec.WellformedSpec Proofs.BuilderProofs Proofs.CheckPerm
     Proofs.OrderProofs Proofs.OrderStages.
Import ListNotations.
Open Scope bool_scope.
Open Scope Z_scope.

(* two command results are equivalent: both fail, or both succeed with R-related values *)
Definition ceq {A} (R : A -> A -> Prop) (x y : cresult A) : Prop :=
  match x, y with
  | COk a, COk b => R a b
  | COk _, _ => False
  | _, COk _ => False
  | _, _ => True
  end.

Lemma ceq_bind {A B} (R : A -> A -> Prop) (Q : B -> B -> Prop) x y f g :
  ceq R x y -> (forall a b, R a b -> ceq Q (f a) (g b)) -> ceq Q (cbind x f) (cbind y g).
Proof. destruct x, y; cbn; try tauto. intros H Hf. apply Hf. exact H. Qed.

Lemma ceq_of_presult {A} (R : A -> A -> Prop) x y : req R x y -> ceq R (of_presult x) (of_presult y).
Proof. destruct x, y; cbn; tauto. Qed.

Lemma ceq_impl {A} (R Q : A -> A -> Prop) x y : (forall a b, R a b -> Q a b) -> ceq R x y -> ceq Q x y.
Proof. intros T. destruct x, y; cbn; auto. Qed.

Lemma ceq_eq_ok {A} (x y : cresult A) a : ceq eq x y -> (x = COk a <-> y = COk a).
Proof. destruct x, y; cbn; intros H; try contradiction; split; intros E; try discriminate; congruence. Qed.

(* what the parser guarantees for the accounts of a journal (Spec/WellformedSpec.v [syntactic]),
   stated for the syntax-level list as in Properties/C04.v *)
Definition sd_syntactic (sds : list sdirective) : Prop :=
  forall ds, parse_directives sds = MOk ds -> syntactic ds.

Lemma Forall2_and_l {A B} (R : A -> B -> Prop) (P : A -> Prop) l1 l2 :
  Forall2 R l1 l2 -> Forall P l1 -> Forall2 (fun a b => R a b /\ P a) l1 l2.
Proof.
  induction 1 as [|a b l1 l2 Hab Hl IH]; intros HF; [constructor|].
  inversion HF; subst. constructor; auto.
Qed.

Lemma builder_accs_ok ds : syntactic ds -> Forall day_accs_ok (b_days (builder_of ds)).
Proof.
  intros Hs. apply Forall_forall. intros x Hx t p Ht Hp.
  destruct (builder_canonical ds) as (_ & _ & _ & M). destruct (M x Hx) as (_ & _ & M2 & _).
  assert (Hin : In (DTxn t) ds).
  { assert (H : In (DTxn t) (map DTxn (d_txns x))) by (apply in_map; exact Ht).
    rewrite M2 in H. apply sel_in in H. tauto. }
  apply (Hs (DTxn t) (EPost (p_acc p) (p_com p) (p_qty p)) Hin).
  cbn [events_of]. apply (in_map (fun p => EPost (p_acc p) (p_com p) (p_qty p))). exact Hp.
Qed.

Definition builders_equiv (b1 b2 : builder) : Prop :=
  Forall2 DIok (b_days b1) (b_days b2) /\ b_min b1 = b_min b2 /\ b_max b1 = b_max b2.

Theorem load_perm sds1 sds2 :
  Permutation sds1 sds2 -> sd_syntactic sds1 -> ceq builders_equiv (load sds1) (load sds2).
Proof.
  intros P Hs. unfold load. pose proof (parse_directives_perm sds1 sds2 P) as H.
  specialize (Hs). unfold sd_syntactic in Hs.
  destruct (parse_directives sds1) as [ds1| |], (parse_directives sds2) as [ds2| |]; cbn in *; try tauto.
  destruct (build_perm ds1 ds2 H) as (H1 & H2 & H3). split; [|split; assumption].
  apply Forall2_and_l; [exact H1|]. apply builder_accs_ok. apply Hs. reflexivity.
Qed.

(* ------------------------------------------------------------------ knut check *)

Lemma check_stage_cmd fb l1 l2 :
  (forall s a b s', fb s a b = ROk s' -> s' = s) ->
  (forall s s' a b, Rck s s' -> req Rck (fb s a b) (fb s' a b)) ->
  Forall2 DIok l1 l2 ->
  ceq (fun a b => snd a = l1 /\ snd b = l2) (run_stage (check_proc_with fb) check_init l1)
      (run_stage (check_proc_with fb) check_init l2).
Proof.
  intros H1 H2 HF. unfold run_stage. apply ceq_of_presult.
  eapply req_impl; [|apply (check_stage_rel fb H1 H2 check_init check_init l1 l2 (Rck_refl _) HF)].
  cbn beta. tauto.
Qed.

Lemma check_stage_current r l1 l2 :
  Forall2 DIok l1 l2 ->
  ceq (fun a b => snd a = l1 /\ snd b = l2) (run_stage (check_proc_current r) check_init l1)
      (run_stage (check_proc_current r) check_init l2).
Proof.
  intros HF. destruct r.
  - apply (check_stage_cmd ck_balance_fixed); [exact ck_balance_fixed_pure|exact ck_balance_fixed_resp|exact HF].
  - apply (check_stage_cmd (ck_balance_cb false)); [apply ck_balance_cb_pure|apply ck_balance_cb_resp|exact HF].
Qed.

Theorem check_cmd_perm lenient sds1 sds2 :
  Permutation sds1 sds2 -> sd_syntactic sds1 -> ceq eq (check_cmd lenient sds1) (check_cmd lenient sds2).
Proof.
  intros P Hs. unfold check_cmd. eapply ceq_bind; [apply load_perm; eassumption|].
  intros b1 b2 (HF & _ & _). eapply ceq_bind.
  - apply (check_stage_cmd (ck_balance_cb lenient)); [apply ck_balance_cb_pure|apply ck_balance_cb_resp|exact HF].
  - intros; cbn. reflexivity.
Qed.

Theorem check_cmd_fixed_perm sds1 sds2 :
  Permutation sds1 sds2 -> sd_syntactic sds1 -> ceq eq (check_cmd_fixed sds1) (check_cmd_fixed sds2).
Proof.
  intros P Hs. unfold check_cmd_fixed. eapply ceq_bind; [apply load_perm; eassumption|].
  intros b1 b2 (HF & _ & _). eapply ceq_bind.
  - apply (check_stage_cmd ck_balance_fixed); [exact ck_balance_fixed_pure|exact ck_balance_fixed_resp|exact HF].
  - intros; cbn. reflexivity.
Qed.

Theorem check_cmd_current_perm r sds1 sds2 :
  Permutation sds1 sds2 -> sd_syntactic sds1 -> ceq eq (check_cmd_current r sds1) (check_cmd_current r sds2).
Proof.
  intros P Hs. unfold check_cmd_current. eapply ceq_bind; [apply load_perm; eassumption|].
  intros b1 b2 (HF & _ & _). eapply ceq_bind; [apply check_stage_current; exact HF|].
  intros; cbn. reflexivity.
Qed.

(* the verdict, as an equivalence of acceptance *)
Theorem verdict_perm sds1 sds2 :
  Permutation sds1 sds2 -> sd_syntactic sds1 ->
  (forall l, check_cmd l sds1 = COk tt <-> check_cmd l sds2 = COk tt) /\
  (check_cmd_fixed sds1 = COk tt <-> check_cmd_fixed sds2 = COk tt) /\
  (forall r, check_cmd_current r sds1 = COk tt <-> check_cmd_current r sds2 = COk tt).
Proof.
  intros P Hs. split; [|split]; intros; apply ceq_eq_ok.
  - apply check_cmd_perm; assumption.
  - apply check_cmd_fixed_perm; assumption.
  - apply check_cmd_current_perm; assumption.
Qed.
