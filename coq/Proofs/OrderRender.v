(* C05: the renderer of the balance report does not look at the order of a node's amounts list:
   report trees that are [OrderReport.report_eq] render to the same table. *)
From Coq Require Import ZArith List Bool Lia Permutation.
From Knut Require Import Model.Str Model.Dec Model.Date Model.Account Model.Ledger Model.Price Model.Journal
     Model.Table Model.Report Proofs.DecProofs Proofs.SMapProofs Proofs.ReportSum
     Proofs.Conservation Proofs.CheckPerm Proofs.OrderSMap Proofs.OrderProofs Proofs.OrderReport.
Import ListNotations.
Open Scope bool_scope.
Open Scope Z_scope.

(* ------------------------------------------------------------------ amounts: bindings and permutations *)

Lemma key_absent_get k m : key_absent k m -> ra_get m k = None.
Proof.
  induction 1 as [|[k0 v0] m H _ IH]; cbn [ra_get]; [reflexivity|].
  cbn [fst] in H. assert (rkey_eqb k k0 = false) as -> by (apply rkey_eqb_false; congruence). exact IH.
Qed.

Lemma key_absent_notin k v m : key_absent k m -> ~ In (k, v) m.
Proof. intros H Hin. unfold key_absent in H. rewrite Forall_forall in H. apply (H _ Hin). reflexivity. Qed.

Lemma ra_in_get a k v : ra_unique a -> (In (k, v) a <-> ra_get a k = Some v).
Proof.
  induction 1 as [|k0 v0 m Ha Hu IH]; cbn [In ra_get]; [split; [intros []|discriminate]|].
  split.
  - intros [E|Hin].
    + inversion E; subst. rewrite rkey_eqb_refl. reflexivity.
    + destruct (rkey_eqb k k0) eqn:E; [|apply IH; exact Hin].
      apply rkey_eqb_eq in E. subst k0. exfalso. eapply key_absent_notin; eassumption.
  - destruct (rkey_eqb k k0) eqn:E.
    + apply rkey_eqb_eq in E. subst k0. intros H. inversion H. left. reflexivity.
    + intros H. right. apply IH. exact H.
Qed.

Lemma ra_unique_nodup a : ra_unique a -> NoDup a.
Proof. induction 1 as [|k v m Ha Hu IH]; constructor; [apply key_absent_notin; exact Ha|exact IH]. Qed.

Lemma ra_eqv_perm a b : ra_eqv a b -> Permutation a b.
Proof.
  intros (Ua & Ub & H). apply NoDup_Permutation; try (apply ra_unique_nodup; assumption).
  intros [k v]. rewrite (ra_in_get a k v Ua), (ra_in_get b k v Ub), H. reflexivity.
Qed.

Lemma ra_eqv_nil a b : ra_eqv a b -> (a = [] <-> b = []).
Proof.
  intros H. apply ra_eqv_perm in H. split; intros ->; [apply Permutation_nil; exact H|apply Permutation_nil, Permutation_sym; exact H].
Qed.

(* ------------------------------------------------------------------ folds of ra_add *)

Lemma fold_res_pure {S A} (f : S -> A -> S) l : forall s, fold_res (fun s x => ROk (f s x)) s l = ROk (fold_left f l s).
Proof. induction l as [|x l IH]; intros s; cbn [fold_res fold_left rbind]; [reflexivity|apply IH]. Qed.

Lemma fold_ra_add_resp (g : rkey -> rkey) d d' src src' :
  ra_eqv d d' -> ra_eqv src src' ->
  ra_eqv (fold_left (fun d kv => ra_add d (g (fst kv)) (snd kv)) src d)
         (fold_left (fun d kv => ra_add d (g (fst kv)) (snd kv)) src' d').
Proof.
  intros Hd Hs.
  pose proof (fold_res_perm ra_eqv (fun s (kv : rkey * dec) => ROk (ra_add s (g (fst kv)) (snd kv))) (fun _ => True)) as G.
  specialize (G ra_eqv_trans).
  assert (G1 : forall s s' a, True -> ra_eqv s s' -> req ra_eqv (ROk (ra_add s (g (fst a)) (snd a))) (ROk (ra_add s' (g (fst a)) (snd a)))).
  { intros s s' a _ H. cbn [req]. apply ra_add_resp. exact H. }
  assert (G2 : forall s (a b : rkey * dec), True -> True -> ra_eqv s s ->
     req ra_eqv (rbind (ROk (ra_add s (g (fst a)) (snd a))) (fun s1 => ROk (ra_add s1 (g (fst b)) (snd b))))
                (rbind (ROk (ra_add s (g (fst b)) (snd b))) (fun s1 => ROk (ra_add s1 (g (fst a)) (snd a))))).
  { intros s a b _ _ H. cbn [rbind req]. apply ra_add_comm. apply H. }
  specialize (G G1 G2 src src' (ra_eqv_perm _ _ Hs)).
  assert (F : Forall (fun _ : rkey * dec => True) src) by (apply Forall_forall; intros; exact I).
  specialize (G F d d' (ra_eqv_refl d (proj1 Hd)) Hd).
  rewrite !fold_res_pure in G. exact G.
Qed.

Lemma ra_get_filter_nz a k : ra_unique a ->
  ra_get (filter (fun kv : rkey * dec => negb (is_zero (snd kv))) a) k =
  match ra_get a k with Some v => if negb (is_zero v) then Some v else None | None => None end.
Proof.
  induction 1 as [|k0 v0 m Ha Hu IH]; cbn [filter ra_get snd]; [reflexivity|].
  destruct (negb (is_zero v0)) eqn:Z; cbn [ra_get].
  - destruct (rkey_eqb k k0); [rewrite Z; reflexivity|exact IH].
  - destruct (rkey_eqb k k0) eqn:E; [|exact IH].
    apply rkey_eqb_eq in E. subst k0. rewrite IH, (key_absent_get k m Ha), Z. reflexivity.
Qed.

Lemma filter_nz_resp a b : ra_eqv a b ->
  ra_eqv (filter (fun kv : rkey * dec => negb (is_zero (snd kv))) a) (filter (fun kv : rkey * dec => negb (is_zero (snd kv))) b).
Proof.
  intros (Ua & Ub & H). repeat split; try (apply filter_unique; assumption).
  intros k. rewrite !ra_get_filter_nz, H by assumption. reflexivity.
Qed.

Lemma ra_sum_into_resp f d d' s s' : ra_eqv d d' -> ra_eqv s s' -> ra_eqv (ra_sum_into d s f) (ra_sum_into d' s' f).
Proof. intros Hd Hs. unfold ra_sum_into. apply filter_nz_resp. apply fold_ra_add_resp; assumption. Qed.

Lemma ra_plus_resp a a' b b' : ra_eqv a a' -> ra_eqv b b' -> ra_eqv (ra_plus a b) (ra_plus a' b').
Proof. intros Ha Hb. unfold ra_plus. apply (fold_ra_add_resp (fun k => k)); assumption. Qed.

(* ------------------------------------------------------------------ weights, sorting *)

Lemma fold_add_perm (a b : ramounts) s : Permutation a b ->
  fold_left (fun s (kv : rkey * dec) => add s (snd kv)) a s = fold_left (fun s (kv : rkey * dec) => add s (snd kv)) b s.
Proof.
  intros P. apply fold_left_perm; [|exact P].
  intros x y z. rewrite !add_assoc. f_equal. apply add_comm.
Qed.

Lemma node_weight_eq valued n : forall n', node_eq n n' -> node_weight valued n = node_weight valued n'.
Proof.
  induction n as [s p hv a ch IH] using node_ind_size. intros n' H.
  inversion H as [? ? ? ? a' ? ch' Ha Hch]; subst. cbn [node_weight].
  assert (E : (if valued then fold_left (fun s kv => add s (snd kv)) a dec_nil else dec_nil) =
              (if valued then fold_left (fun s kv => add s (snd kv)) a' dec_nil else dec_nil)).
  { destruct valued; [|reflexivity]. apply fold_add_perm. apply ra_eqv_perm. exact Ha. }
  rewrite E. generalize (neg (dabs (if valued then fold_left (fun s kv => add s (snd kv)) a' dec_nil else dec_nil))).
  clear - IH Hch. revert ch' Hch. induction IH as [|c ch Hc _ IHch]; intros ch' Hch w; inversion Hch; subst; cbn [fold_left]; [reflexivity|].
  rewrite (Hc _ H1). apply IHch. assumption.
Qed.

Lemma node_eq_path n n' : node_eq n n' -> n_path n = n_path n'.
Proof. intros H. inversion H; reflexivity. Qed.

Lemma sibling_ltb_eq alpha valued x x' y y' :
  node_eq x x' -> node_eq y y' -> sibling_ltb alpha valued x y = sibling_ltb alpha valued x' y'.
Proof.
  intros Hx Hy. unfold sibling_ltb, top_ltb.
  rewrite (node_eq_path _ _ Hx), (node_eq_path _ _ Hy), (node_eq_seg _ _ Hx), (node_eq_seg _ _ Hy),
    (node_weight_eq valued _ _ Hx), (node_weight_eq valued _ _ Hy). reflexivity.
Qed.

Section SortRel.
  Context {A : Type} (lt : A -> A -> bool) (R : A -> A -> Prop).
  Hypothesis lt_R : forall x x' y y', R x x' -> R y y' -> lt x y = lt x' y'.

  Lemma insert_sorted_rel x x' l l' : R x x' -> Forall2 R l l' -> Forall2 R (insert_sorted lt x l) (insert_sorted lt x' l').
  Proof.
    intros Hx. induction 1 as [|y y' l l' Hy Hl IH]; cbn [insert_sorted]; [repeat constructor; exact Hx|].
    rewrite (lt_R x x' y y' Hx Hy). destruct (lt x' y'); repeat constructor; assumption.
  Qed.

  Lemma sort_by_rel l l' : Forall2 R l l' -> Forall2 R (sort_by lt l) (sort_by lt l').
  Proof.
    intros H. unfold sort_by.
    assert (Hr : Forall2 R (rev l) (rev l')).
    { induction H as [|x x' l l' Hx Hl IH]; cbn [rev]; [constructor|]. apply Forall2_app; [exact IH|repeat constructor; exact Hx]. }
    induction Hr as [|x x' r r' Hx Hr IH]; cbn [fold_right]; [constructor|]. apply insert_sorted_rel; assumption.
  Qed.
End SortRel.

Lemma node_sort_resp alpha valued n : forall n', node_eq n n' -> node_eq (node_sort alpha valued n) (node_sort alpha valued n').
Proof.
  induction n as [s p hv a ch IH] using node_ind_size. intros n' H.
  inversion H as [? ? ? ? a' ? ch' Ha Hch]; subst. cbn [node_sort]. constructor; [exact Ha|].
  apply (sort_by_rel (sibling_ltb alpha valued) node_eq).
  - intros; apply sibling_ltb_eq; assumption.
  - clear - IH Hch. revert ch' Hch. induction IH as [|c ch Hc _ IHch]; intros ch' Hch; inversion Hch; subst; cbn [map]; constructor; auto.
Qed.

Lemma node_totals_resp f n : forall n' acc acc', node_eq n n' -> ra_eqv acc acc' -> ra_eqv (node_totals f n acc) (node_totals f n' acc').
Proof.
  induction n as [s p hv a ch IH] using node_ind_size. intros n' acc acc' H Hacc.
  inversion H as [? ? ? ? a' ? ch' Ha Hch]; subst. cbn [node_totals].
  apply ra_sum_into_resp; [|exact Ha].
  clear - IH Hch Hacc. revert ch' Hch acc acc' Hacc.
  induction IH as [|c ch Hc _ IHch]; intros ch' Hch acc acc' Hacc; inversion Hch; subst; cbn [fold_left]; [exact Hacc|].
  apply IHch; [assumption|]. apply Hc; assumption.
Qed.

(* ------------------------------------------------------------------ the commodity column *)

(* insert_ocom is insertion into a sorted map under an order-preserving encoding of the keys *)
Definition enc_key (c : option commodity) : str := match c with None => [] | Some x => 1 :: x end.
Definition enc (c : option commodity) : str * option commodity := (enc_key c, c).

Lemma enc_key_inj a b : enc_key a = enc_key b -> a = b.
Proof. destruct a, b; cbn; intros H; try discriminate; [inversion H|]; reflexivity. Qed.

Lemma insert_ocom_enc c l : map enc (insert_ocom c l) = sm_put (map enc l) (enc_key c) c.
Proof.
  induction l as [|x rest IH]; cbn [insert_ocom map sm_put]; [reflexivity|].
  destruct c as [a|], x as [b|]; cbn [enc enc_key fst snd str_cmp Z.compare Pos.compare Pos.compare_cont].
  - destruct (str_cmp a b) eqn:E; cbn [map enc enc_key].
    + apply str_cmp_eq in E. subst b. reflexivity.
    + reflexivity.
    + rewrite IH. reflexivity.
  - cbn [map]. rewrite IH. reflexivity.
  - reflexivity.
  - reflexivity.
Qed.

Lemma insert_ocom_comm a b l : insert_ocom a (insert_ocom b l) = insert_ocom b (insert_ocom a l).
Proof.
  apply (map_inj_eq enc); [intros x y H; inversion H; reflexivity|].
  rewrite !insert_ocom_enc. destruct (SMapProofs.str_eq_dec (enc_key a) (enc_key b)) as [E|N].
  - apply enc_key_inj in E. subst b. reflexivity.
  - apply sm_put_comm. congruence.
Qed.

Lemma ra_commodities_eqv a b : ra_eqv a b -> ra_commodities a = ra_commodities b.
Proof.
  intros H. unfold ra_commodities. apply fold_left_perm; [|apply ra_eqv_perm; exact H].
  intros l x y. apply insert_ocom_comm.
Qed.

(* ------------------------------------------------------------------ rows *)

Lemma row_numbers_eqv diff neg_ vals vals' c dates : ra_eqv vals vals' ->
  forall total, row_numbers diff neg_ vals c dates total = row_numbers diff neg_ vals' c dates total.
Proof.
  intros H. induction dates as [|d rest IH]; intros total; cbn [row_numbers]; [reflexivity|].
  rewrite (ra_eqv_get0 vals vals' _ H), IH. reflexivity.
Qed.

Lemma render_rows_eqv cfg dates indent name neg_ vals vals' coms : ra_eqv vals vals' ->
  forall first, render_rows cfg dates indent name neg_ vals coms first = render_rows cfg dates indent name neg_ vals' coms first.
Proof.
  intros H. induction coms as [|c rest IH]; intros first; cbn [render_rows]; [reflexivity|].
  rewrite (row_numbers_eqv _ _ vals vals' _ _ H), IH. reflexivity.
Qed.

Lemma render_amounts_eqv cfg t dates indent name neg_ vals vals' : ra_eqv vals vals' ->
  render_amounts cfg t dates indent name neg_ vals = render_amounts cfg t dates indent name neg_ vals'.
Proof.
  intros H. unfold render_amounts.
  pose proof (ra_eqv_nil _ _ H) as N. pose proof (ra_commodities_eqv _ _ H) as C.
  pose proof (render_rows_eqv cfg dates indent name neg_ vals vals' (ra_commodities vals') H true) as Rw.
  destruct vals as [|x r], vals' as [|x' r'].
  - reflexivity.
  - destruct N as [N _]. specialize (N eq_refl). discriminate.
  - destruct N as [_ N]. specialize (N eq_refl). discriminate.
  - rewrite C, Rw. reflexivity.
Qed.

Lemma render_node_eq cfg dates neg_ n : forall n' indent t,
  node_eq n n' -> render_node cfg dates indent neg_ t n = render_node cfg dates indent neg_ t n'.
Proof.
  induction n as [s p hv a ch IH] using node_ind_size. intros n' indent t H.
  inversion H as [? ? ? ? a' ? ch' Ha Hch]; subst. cbn [render_node].
  set (show := match rc_valuation cfg with None => true | Some _ => rxs_match (rc_details cfg) (acc_name p) end).
  assert (V : ra_eqv (ra_sum_into [] a (collapse_key show)) (ra_sum_into [] a' (collapse_key show))).
  { apply ra_sum_into_resp; [apply ra_eqv_refl; constructor|exact Ha]. }
  assert (T1 : (match s with [] => t | _ => render_amounts cfg t dates indent s neg_ (ra_sum_into [] a (collapse_key show)) end) =
               (match s with [] => t | _ => render_amounts cfg t dates indent s neg_ (ra_sum_into [] a' (collapse_key show)) end)).
  { destruct s; [reflexivity|]. apply render_amounts_eqv. exact V. }
  rewrite T1. generalize (match s with [] => t | _ => render_amounts cfg t dates indent s neg_ (ra_sum_into [] a' (collapse_key show)) end).
  clear - IH Hch. revert ch' Hch. induction IH as [|c ch Hc _ IHch]; intros ch' Hch t0; inversion Hch; subst; cbn [fold_left]; [reflexivity|].
  rewrite (Hc _ (indent + 2) t0 H1). apply IHch. assumption.
Qed.

Lemma fold_render_nodes_eq cfg dates neg_ l l' : Forall2 node_eq l l' -> forall t,
  fold_left (fun t n => add_empty_row (render_node cfg dates 0 neg_ t n)) l t =
  fold_left (fun t n => add_empty_row (render_node cfg dates 0 neg_ t n)) l' t.
Proof.
  induction 1 as [|c c' l l' Hc Hl IH]; intros t; cbn [fold_left]; [reflexivity|].
  rewrite (render_node_eq cfg dates neg_ c c' 0 t Hc). apply IH.
Qed.

Lemma node_eq_children n n' : node_eq n n' -> Forall2 node_eq (n_children n) (n_children n').
Proof. intros H. inversion H; subst. assumption. Qed.

(* ------------------------------------------------------------------ Renderer.Render *)

Theorem render_report_eq cfg r r' dates : report_eq r r' -> render_report cfg r dates = render_report cfg r' dates.
Proof.
  intros [Hal Heie]. unfold render_report.
  set (valued := match rc_valuation cfg with Some _ => true | None => false end).
  pose proof (node_sort_resp (rc_alpha cfg) valued _ _ Hal) as Sal.
  pose proof (node_sort_resp (rc_alpha cfg) valued _ _ Heie) as Seie.
  set (al := node_sort (rc_alpha cfg) valued (r_al r)) in *.
  set (al' := node_sort (rc_alpha cfg) valued (r_al r')) in *.
  set (eie := node_sort (rc_alpha cfg) valued (r_eie r)) in *.
  set (eie' := node_sort (rc_alpha cfg) valued (r_eie r')) in *.
  assert (Tal : ra_eqv (node_totals (collapse_key (negb valued)) al []) (node_totals (collapse_key (negb valued)) al' [])).
  { apply node_totals_resp; [exact Sal|apply ra_eqv_refl; constructor]. }
  assert (Teie : ra_eqv (node_totals (collapse_key (negb valued)) eie []) (node_totals (collapse_key (negb valued)) eie' [])).
  { apply node_totals_resp; [exact Seie|apply ra_eqv_refl; constructor]. }
  cbv zeta.
  rewrite (fold_render_nodes_eq cfg dates false _ _ (node_eq_children _ _ Sal)).
  rewrite (render_amounts_eqv cfg _ dates 0 s_TotalAL false _ _ Tal).
  rewrite (fold_render_nodes_eq cfg dates true _ _ (node_eq_children _ _ Seie)).
  rewrite (render_amounts_eqv cfg _ dates 0 s_TotalEIE true _ _ Teie).
  rewrite (render_amounts_eqv cfg _ dates 0 s_Delta false _ _ (ra_plus_resp _ _ _ _ Tal Teie)).
  reflexivity.
Qed.
