(* C03 on reports restricted by --account / --commodity: the verdict the runtime check evaluates on
   a filtered report (Spec/ValuationWhereSpec.v) holds of the model, for EVERY configuration.

   The filters are the Where predicate of the report's query: the Valuate stage sees every booking
   and every price (Proofs/MarkToMarketMapped.v mapped_report_cells: the cell (b, col, c) adds the
   values Valuate posted on (a, c) for the accounts a that land on b and pass --account, if c
   passes --commodity, and nothing otherwise).  A row over the commodities that pass therefore is
   the sum over the aggregated accounts a of their cells (a, c), c passing; of these only the
   commodities a holds carry anything (MarkToMarketMappedVerdict.window_unheld), and each of those
   is mark-to-market with the prices of the unfiltered journal (window_journal_row).

   Part A  held_where, market_value_where, mtm_expected_where as rationals; definedness
   Part B  the allowance: row_steps_tight over the shown commodities <= step_bound_where
   Part C  the row of an account shown as itself (model_meets_spec_where)
   Part D  rows aggregated by --mapping / --remap (windowed_row_mapped_where, model_meets_spec_where_mapped)
   Part E  without filters the specification is the old one *)
From Coq Require Import ZArith QArith Qabs List Bool Lia Permutation Sorting.Sorted.
From Knut Require Import Model.Str Model.Dec Model.Date Model.Account Model.Ledger Model.Price
     Model.Journal Model.Check Model.Pipeline Model.Table Model.Report Model.Cli
     Spec.DateSpec Spec.WellformedSpec Spec.LedgerSpec Spec.LedgerSyntax Spec.MarkToMarketSpec
     Spec.PriceSpec Spec.PriceDaySpec Spec.ValuationSpec Spec.MarkToMarketReportSpec Spec.MarkToMarketMappedSpec
     Spec.ValuationMappedSpec Spec.ValuationWhereSpec
     Proofs.DecProofs Proofs.DecValue Proofs.CheckLemmas Proofs.CheckProofs Proofs.PairProofs
     Proofs.DateProofs Proofs.BuilderProofs Proofs.StableSort Proofs.BeancountProofs
     Proofs.LedgerProofs Proofs.CloseProofs Proofs.PriceDayProofs Proofs.ValuationProofs
     Proofs.MarkToMarket Proofs.MarkToMarketReport Proofs.MarkToMarketWindow Proofs.MarkToMarketJournal
     Proofs.MarkToMarketRow Proofs.MarkToMarketFinal Proofs.MarkToMarketSteps Proofs.MarkToMarketMapped
     Proofs.MarkToMarketDefined Proofs.MarkToMarketMappedVerdict.
Import ListNotations.
Open Scope Q_scope.

Notation heldw cfg dl a := (held_where cfg (flat_postings dl) a).

(* ------------------------------------------------------------ Part A: the expectation *)

Lemma held_where_in cfg dl a c :
  In c (heldw cfg dl a) <-> In c (held_commodities (flat_postings dl) a) /\ cfg_where cfg a c = true.
Proof. unfold held_where. apply filter_In. Qed.

Lemma held_where_nodup cfg dl a : NoDup (heldw cfg dl a).
Proof. unfold held_where. apply NoDup_filter. apply held_commodities_nodup. Qed.

Lemma held_where_pass cfg dl a c : In c (heldw cfg dl a) -> cfg_where cfg a c = true.
Proof. intros H. apply held_where_in in H. tauto. Qed.

Theorem market_value_where_sum cfg dl V a T x :
  market_value_where cfg dl V a T = Some x -> dvalue x == mv_row dl V a T (heldw cfg dl a).
Proof.
  intros H. unfold market_value_where in H.
  change (fold_left (mv_step dl V a T) (heldw cfg dl a) (Some dec_nil) = Some x) in H.
  rewrite (mv_fold dl V a T _ _ _ H), dvalue_nil. ring.
Qed.

Theorem mtm_expected_where_sum cfg dl V a W E e :
  mtm_expected_where cfg dl V a W E = Some e ->
  dvalue e == mv_row dl V a E (heldw cfg dl a) - mv_row dl V a (W - 1) (heldw cfg dl a).
Proof.
  unfold mtm_expected_where. destruct (market_value_where cfg dl V a E) as [x|] eqn:E1; [|discriminate].
  destruct (market_value_where cfg dl V a (W - 1)) as [y|] eqn:E2; [|discriminate].
  intros H. injection H as <-.
  rewrite dvalue_sub, (market_value_where_sum _ _ _ _ _ _ E1), (market_value_where_sum _ _ _ _ _ _ E2). reflexivity.
Qed.

(* a successful run has every price the filtered expectation needs (it has every price the
   unfiltered one needs: C03_held_price_every_day) *)
Lemma market_value_where_defined cfg dl V a T :
  (forall c, c <> V -> is_zero (qty_upto (flat_postings dl) a c T) = false ->
             exists pr, ValuationSpec.price_on dl V c T = Some pr) ->
  exists x, market_value_where cfg dl V a T = Some x.
Proof.
  intros Hp. unfold market_value_where.
  change (exists x, fold_left (mv_step dl V a T) (heldw cfg dl a) (Some dec_nil) = Some x).
  apply mv_fold_defined. intros c _ Hz.
  destruct (str_eqb c V) eqn:Ecv.
  - apply str_eqb_eq in Ecv. subst c. exists one. apply price_on_V.
  - apply Hp; [|exact Hz]. intros ->. rewrite str_eqb_refl in Ecv. discriminate.
Qed.

Lemma mtm_expected_where_defined cfg dl V a :
  (forall c T, c <> V -> is_zero (qty_upto (flat_postings dl) a c T) = false ->
               exists pr, ValuationSpec.price_on dl V c T = Some pr) ->
  forall W E, exists e, mtm_expected_where cfg dl V a W E = Some e.
Proof.
  intros Hp W E. unfold mtm_expected_where.
  destruct (market_value_where_defined cfg dl V a E (fun c => Hp c E)) as [x ->].
  destruct (market_value_where_defined cfg dl V a (W - 1)%Z (fun c => Hp c (W - 1)%Z)) as [y ->].
  exists (sub x y). reflexivity.
Qed.

(* ------------------------------------------------------------ Part B: the allowance *)

Theorem row_steps_step_bound_where cfg dl V a W E :
  (row_steps_tight dl V a W E (heldw cfg dl a) <= step_bound_where cfg dl a W E)%Z.
Proof.
  pose proof (bookings_split dl V a W E _ (held_where_nodup cfg dl a)) as H1.
  pose proof (filter_le_impl
                (fun dp => acct_in a W E dp && existsb (str_eqb (p_com (snd dp))) (heldw cfg dl a))
                (fun dp => acct_in a W E dp && cfg_where cfg a (p_com (snd dp))) (flat_postings dl)) as H2.
  assert (H2' : (length (filter (fun dp => acct_in a W E dp && existsb (str_eqb (p_com (snd dp))) (heldw cfg dl a)) (flat_postings dl))
                 <= length (filter (fun dp => acct_in a W E dp && cfg_where cfg a (p_com (snd dp))) (flat_postings dl)))%nat).
  { apply H2. intros x Hx. apply andb_true_iff in Hx. destruct Hx as [Hx1 Hx2]. rewrite Hx1. cbn [andb].
    apply existsb_exists in Hx2. destruct Hx2 as (c & Hc & Ec). apply str_eqb_eq in Ec. rewrite Ec.
    exact (held_where_pass cfg dl a c Hc). }
  pose proof (days_in_sb dl W E) as H3.
  assert (H4 : (days_in dl W E * Z.of_nat (length (heldw cfg dl a))
               <= Z.of_nat (length (sb_days dl W E)) * Z.of_nat (length (heldw cfg dl a)))%Z).
  { apply Z.mul_le_mono_nonneg_r; [lia|exact H3]. }
  assert (Ef : filter (fun dp : Z * posting => let '(d, p) := dp in
                         (W <=? d)%Z && (d <=? E)%Z && acc_eqb (p_acc p) a && cfg_where cfg a (p_com p)) (flat_postings dl)
               = filter (fun dp => acct_in a W E dp && cfg_where cfg a (p_com (snd dp))) (flat_postings dl)).
  { apply filter_ext. intros [d p]. reflexivity. }
  assert (Esb : step_bound_where cfg dl a W E
                = (Z.of_nat (length (filter (fun dp => acct_in a W E dp && cfg_where cfg a (p_com (snd dp))) (flat_postings dl)))
                  + Z.of_nat (length (sb_days dl W E)) * Z.of_nat (length (heldw cfg dl a)) + 1)%Z).
  { unfold step_bound_where. cbn zeta. rewrite Ef. reflexivity. }
  rewrite Esb. lia.
Qed.

(* ------------------------------------------------------------ Part C: an account shown as itself *)

(* For every configuration with a valuation commodity - --account and --commodity included - and
   every journal on which the balance command succeeds: for an asset/liability account shown as
   itself, mtm_row_where exists, has one entry per column, every entry carries an expectation, and
   the model's row over the commodities the report shows of the account (held_where) lies within
   the allowance of it. *)
Theorem model_meets_spec_where cfg ds r part V :
  bc_valuation cfg = Some V ->
  balance_report cfg ds = COk (r, part) ->
  exists dl,
    parse_directives ds = MOk dl /\
    (postings_syntactic dl ->
     forall a, account_ok a = true -> is_AL a = true -> shows_account cfg a ->
       (p_start (span part) <= p_end (span part))%Z ->
       exists exps,
         mtm_row_where cfg dl a = Some exps /\ length exps = length (end_dates part) /\
         forall j col eo n, nth_error (end_dates part) j = Some col -> nth_error exps j = Some (eo, n) ->
           exists e, eo = Some e /\
           let coms := held_where cfg (flat_postings dl) a in
           Qabs (row_value a part col r coms - dvalue e) <= inject_Z n * (1 # 100000000) /\
           forall o, dvalue o == row_value a part col r coms -> within_bound o e n = true).
Proof.
  intros Hv H. destruct (windowed_row_tight cfg ds r part V Hv H) as (dl & Ep & Epart & Hw).
  destruct (held_price_report cfg ds r part V Hv H) as (dl' & Ep' & Hpr).
  assert (dl' = dl) by congruence. subst dl'.
  exists dl. split; [exact Ep|].
  intros Hsyn a Ha HAL Hsh Hspan.
  exists (map (fun p => (mtm_expected_where cfg dl V a (p_start (span part)) (p_end p),
                         step_bound_where cfg dl a (p_start (span part)) (p_end p)))
              (periods part)).
  split; [unfold mtm_row_where; rewrite Hv, Epart; reflexivity|].
  split; [unfold end_dates; rewrite !map_length; reflexivity|].
  intros j col eo n Hcol Hexp.
  unfold end_dates in Hcol. rewrite nth_error_map in Hcol, Hexp.
  destruct (nth_error (periods part) j) as [p|] eqn:Ej; cbn [option_map] in Hcol, Hexp; [|discriminate].
  injection Hcol as <-. injection Hexp as <- <-.
  assert (Hin : In (p_end p) (end_dates part)).
  { unfold end_dates. apply in_map. exact (nth_error_In _ _ Ej). }
  destruct (mtm_expected_where_defined cfg dl V a (fun c T => Hpr Hsyn a c T Ha HAL) (p_start (span part)) (p_end p)) as [e He].
  exists e. split; [exact He|]. intros coms.
  assert (Hb : Qabs (row_value a part (p_end p) r coms - dvalue e)
               <= inject_Z (step_bound_where cfg dl a (p_start (span part)) (p_end p)) * (1 # 100000000)).
  { eapply Qle_trans.
    2: { apply Qmult_le_compat_r; [rewrite <- Zle_Qle; exact (row_steps_step_bound_where cfg dl V a _ _)|discriminate]. }
    rewrite (mtm_expected_where_sum _ _ _ _ _ _ _ He).
    exact (Hw Hsyn a (p_end p) coms Ha HAL Hsh (fun c Hc => held_where_pass cfg dl a c Hc) Hspan Hin). }
  split; [exact Hb|].
  intros o Ho. apply within_bound_value. rewrite Ho. exact Hb.
Qed.

(* ------------------------------------------------------------ Part D: aggregated rows *)

(* one aggregated account a (it passes --account), coms the commodity keys of the row: all pass
   --commodity and those a holds among the passing ones are there *)
Lemma window_journal_row_where cfg ds dl part V dsP dsV a col coms :
  parse_directives ds = MOk dl -> postings_syntactic dl -> valued_run cfg V dl part dsP dsV ->
  account_ok a = true -> is_AL a = true -> (p_start (span part) - 1 <= col)%Z ->
  NoDup coms -> (forall c, In c coms -> cfg_where cfg a c = true) -> incl (heldw cfg dl a) coms ->
  Qabs (lsum (fun c => lsum (fun dp => if in_window (p_start (span part)) col (fst dp) then cval a c dp else 0) (dposts dsV)) coms
        - (mv_row dl V a col (heldw cfg dl a) - mv_row dl V a (p_start (span part) - 1) (heldw cfg dl a)))
    <= inject_Z (row_steps_tight dl V a (p_start (span part)) col (heldw cfg dl a)) * (1 # 100000000).
Proof.
  intros Ep Hsyn Hrun Ha HAL Hle Hnd Hpass Hincl.
  rewrite (lsum_restrict _ (heldw cfg dl a) coms (held_where_nodup cfg dl a) Hnd Hincl).
  - exact (window_journal_row cfg ds dl part V dsP dsV a col Ep Hsyn Hrun Ha HAL Hle (heldw cfg dl a)).
  - intros c Hc Hn. apply (window_unheld cfg ds dl part V dsP dsV a c col Ep Hsyn Hrun Ha HAL Hle).
    intros Hheld. apply Hn. apply held_where_in. split; [exact Hheld|exact (Hpass c Hc)].
Qed.

Definition mv_where_sum (cfg : balance_cfg) (dl : list directive) (V : commodity) (srcs : list account) (T : Z) : Q :=
  lsum (fun a => mv_row dl V a T (heldw cfg dl a)) srcs.

Fixpoint steps_where_sum (cfg : balance_cfg) (dl : list directive) (V : commodity) (srcs : list account) (W E : Z) : Z :=
  match srcs with
  | [] => 0%Z
  | a :: rest => (row_steps_tight dl V a W E (heldw cfg dl a) + steps_where_sum cfg dl V rest W E)%Z
  end.

(* THE WINDOW for any row of asset/liability type of any valued report, filtered or not: over any
   duplicate-free list of commodities that pass --commodity and contains what the aggregated
   accounts hold of those (the commodity keys of the row), the row is the sum over the accounts
   that land on it and pass --account of the mark-to-market change of what the report shows of
   them, up to the sum of their step counts.  Prices and quantities are those of the whole
   journal. *)
Theorem windowed_row_mapped_where cfg ds r part V :
  bc_valuation cfg = Some V ->
  balance_report cfg ds = COk (r, part) ->
  exists dl,
    parse_directives ds = MOk dl /\
    new_partition (clip (mkPeriod (bc_from cfg) (bc_to cfg)) (journal_period dl)) (bc_interval cfg) (bc_last cfg) = POk part /\
    (postings_syntactic dl ->
     forall b srcs col coms, account_ok b = true -> is_AL b = true -> row_sources cfg dl b srcs ->
       NoDup coms -> (forall c, In c coms -> com_pass cfg c = true) ->
       (forall a, In a srcs -> incl (heldw cfg dl a) coms) ->
       (p_start (span part) <= p_end (span part))%Z -> In col (end_dates part) ->
       Qabs (row_value b part col r coms
             - (mv_where_sum cfg dl V srcs col - mv_where_sum cfg dl V srcs (p_start (span part) - 1)))
         <= inject_Z (steps_where_sum cfg dl V srcs (p_start (span part)) col) * (1 # 100000000)).
Proof.
  intros Hv H. destruct (mapped_report_cells cfg ds r part V Hv H) as (dl & dsP & dsV & Ep & Epart & Hrun & Hcells).
  exists dl. split; [exact Ep|]. split; [exact Epart|].
  intros Hsyn b srcs col coms Hb HAL Hsrcs Hnd Hcoms Hheld Hspan Hcol.
  destruct (Hcells Hsyn) as (HokV & HfromV & Hcell).
  assert (Hle : (p_start (span part) - 1 <= col)%Z).
  { destruct (partition_facts _ _ _ _ Epart) as [_ Htiles]. destruct (Htiles Hspan) as [Ht Hfs].
    destruct (tiles_facts _ _ _ Ht) as [_ Hb0]. rewrite Forall_forall in Hb0.
    apply in_map_iff in Hcol. destruct Hcol as (q & <- & Hq). specialize (Hb0 _ Hq). lia. }
  set (W := p_start (span part)) in *.
  set (F := fun a c => lsum (fun dp => if in_window W col (fst dp) then cval a c dp else 0) (dposts dsV)).
  assert (Hrow : row_value b part col r coms == lsum (fun a => lsum (fun c => F a c) coms) srcs).
  { unfold row_value. rewrite qsum_swap. apply LedgerProofs.qsum_ext. intros c Hc.
    rewrite (cum_window_generic (mval cfg b c) b c part col r (dposts dsV) _ _ _ Epart Hspan Hcol (fun e => Hcell b c e Hb HAL)).
    unfold F. rewrite qsum_swap. apply LedgerProofs.qsum_ext. intros dp Hdp. fold W.
    destruct (in_window W col (fst dp)).
    - apply (mval_sources cfg dl b c srcs dp Hb HAL Hsrcs (Hcoms c Hc)).
      + rewrite Forall_forall in HokV. apply HokV. rewrite <- snd_dposts. apply in_map. exact Hdp.
      + rewrite Forall_forall in HfromV. apply HfromV. rewrite <- snd_dposts. apply in_map. exact Hdp.
    - symmetry. apply LedgerProofs.qsum_zero. intros a _. reflexivity. }
  rewrite Hrow. unfold mv_where_sum.
  assert (Hall : forall a, In a srcs -> account_ok a = true /\ is_AL a = true /\ acc_pass cfg a = true).
  { intros a Ha. destruct (sources_AL cfg dl b srcs a Hb HAL Hsrcs Ha) as [H1 H2].
    destruct Hsrcs as (_ & Hsrc & _). destruct (Hsrc a Ha) as (_ & _ & H3). repeat split; assumption. }
  clear Hrow Hsrcs. induction srcs as [|a srcs IH].
  - apply bound_zero. unfold LedgerProofs.qsum. cbn [fold_right]. ring.
  - cbn [steps_where_sum]. destruct (Hall a (or_introl eq_refl)) as (Hoka & HALa & Hpa).
    eapply (bound_add (1 # 100000000)
              (lsum (fun c => F a c) coms - (mv_row dl V a col (heldw cfg dl a) - mv_row dl V a (W - 1) (heldw cfg dl a)))).
    + apply (window_journal_row_where cfg ds dl part V dsP dsV a col coms Ep Hsyn Hrun Hoka HALa Hle Hnd).
      * intros c Hc. rewrite cfg_where_split, Hpa, (Hcoms c Hc). reflexivity.
      * exact (Hheld a (or_introl eq_refl)).
    + exact (IH (fun a' Ha' => Hheld a' (or_intror Ha')) (fun a' Ha' => Hall a' (or_intror Ha'))).
    + unfold LedgerProofs.qsum. cbn [fold_right]. ring.
Qed.

Lemma expected_sum_where_value cfg dl V W E : forall srcs e, expected_sum_where cfg dl V srcs W E = Some e ->
  dvalue e == mv_where_sum cfg dl V srcs E - mv_where_sum cfg dl V srcs (W - 1).
Proof.
  unfold mv_where_sum. induction srcs as [|a srcs IH]; intros e H; cbn [expected_sum_where] in H.
  - injection H as <-. rewrite dvalue_nil. unfold LedgerProofs.qsum. cbn [fold_right]. ring.
  - destruct (mtm_expected_where cfg dl V a W E) as [x|] eqn:E1; [|discriminate].
    destruct (expected_sum_where cfg dl V srcs W E) as [s|] eqn:E2; [|discriminate].
    injection H as <-. rewrite dvalue_add, (mtm_expected_where_sum _ _ _ _ _ _ _ E1), (IH s eq_refl).
    unfold LedgerProofs.qsum. cbn [fold_right]. ring.
Qed.

Lemma expected_sum_where_defined cfg dl V W E : forall srcs,
  (forall a, In a srcs -> exists e, mtm_expected_where cfg dl V a W E = Some e) ->
  exists e, expected_sum_where cfg dl V srcs W E = Some e.
Proof.
  induction srcs as [|a srcs IH]; intros H; cbn [expected_sum_where]; [exists dec_nil; reflexivity|].
  destruct (H a (or_introl eq_refl)) as [x ->]. destruct (IH (fun a' Ha' => H a' (or_intror Ha'))) as [s ->].
  exists (add x s). reflexivity.
Qed.

Lemma steps_where_bound cfg dl V W E : forall srcs, (steps_where_sum cfg dl V srcs W E <= bound_sum_where cfg dl srcs W E)%Z.
Proof.
  induction srcs as [|a srcs IH]; cbn [steps_where_sum bound_sum_where]; [lia|].
  pose proof (row_steps_step_bound_where cfg dl V a W E). lia.
Qed.

(* THE MODEL MEETS THE CHECK'S VERDICT ON EVERY ROW OF ASSET/LIABILITY TYPE OF EVERY VALUED REPORT:
   whatever --mapping, --remap, --account and --commodity are. *)
Theorem model_meets_spec_where_mapped cfg ds r part V :
  bc_valuation cfg = Some V ->
  balance_report cfg ds = COk (r, part) ->
  exists dl,
    parse_directives ds = MOk dl /\
    (postings_syntactic dl ->
     forall b, account_ok b = true -> is_AL b = true ->
       (p_start (span part) <= p_end (span part))%Z ->
       exists srcs exps,
         mtm_row_where_mapped cfg dl b = Some (srcs, exps) /\ row_sources cfg dl b srcs /\
         length exps = length (end_dates part) /\
         forall j col eo n, nth_error (end_dates part) j = Some col -> nth_error exps j = Some (eo, n) ->
           exists e, eo = Some e /\
           forall coms, NoDup coms -> (forall c, In c coms -> com_pass cfg c = true) ->
             (forall a, In a srcs -> incl (held_where cfg (flat_postings dl) a) coms) ->
             Qabs (row_value b part col r coms - dvalue e) <= inject_Z n * (1 # 100000000) /\
             forall o, dvalue o == row_value b part col r coms -> within_bound o e n = true).
Proof.
  intros Hv H. destruct (windowed_row_mapped_where cfg ds r part V Hv H) as (dl & Ep & Epart & Hw).
  destruct (held_price_report cfg ds r part V Hv H) as (dl' & Ep' & Hpr).
  assert (dl' = dl) by congruence. subst dl'.
  exists dl. split; [exact Ep|].
  intros Hsyn b Hb HAL Hspan.
  pose proof (sources_of_spec cfg dl b Hsyn) as Hsrcs. set (srcs := sources_of cfg dl b) in *.
  set (W := p_start (span part)) in *.
  exists srcs, (map (fun p => (expected_sum_where cfg dl V srcs W (p_end p), bound_sum_where cfg dl srcs W (p_end p))) (periods part)).
  split; [unfold mtm_row_where_mapped; rewrite Hv, Epart; reflexivity|]. split; [exact Hsrcs|].
  split; [unfold end_dates; rewrite !map_length; reflexivity|].
  intros j col eo n Hcol Hexp.
  unfold end_dates in Hcol. rewrite nth_error_map in Hcol, Hexp.
  destruct (nth_error (periods part) j) as [p|] eqn:Ej; cbn [option_map] in Hcol, Hexp; [|discriminate].
  injection Hcol as <-. injection Hexp as <- <-.
  assert (Hin : In (p_end p) (end_dates part)).
  { unfold end_dates. apply in_map. exact (nth_error_In _ _ Ej). }
  destruct (expected_sum_where_defined cfg dl V W (p_end p) srcs) as [e He].
  { intros a Ha. destruct (sources_AL cfg dl b srcs a Hb HAL Hsrcs Ha) as [Hoka HALa].
    exact (mtm_expected_where_defined cfg dl V a (fun c T => Hpr Hsyn a c T Hoka HALa) W (p_end p)). }
  exists e. split; [exact He|].
  intros coms Hnd Hcoms Hheld.
  assert (Hb0 : Qabs (row_value b part (p_end p) r coms - dvalue e)
               <= inject_Z (bound_sum_where cfg dl srcs W (p_end p)) * (1 # 100000000)).
  { eapply Qle_trans.
    2: { apply Qmult_le_compat_r; [rewrite <- Zle_Qle; exact (steps_where_bound cfg dl V W (p_end p) srcs)|discriminate]. }
    rewrite (expected_sum_where_value cfg dl V W (p_end p) srcs e He).
    exact (Hw Hsyn b srcs (p_end p) coms Hb HAL Hsrcs Hnd Hcoms Hheld Hspan Hin). }
  split; [exact Hb0|].
  intros o Ho. apply within_bound_value. rewrite Ho. exact Hb0.
Qed.

(* a row on which no account that passes --account lands (in particular: an account shown as itself
   that does not pass) is zero in every column, exactly *)
Corollary filtered_out_row_zero cfg ds r part V :
  bc_valuation cfg = Some V ->
  balance_report cfg ds = COk (r, part) ->
  exists dl,
    parse_directives ds = MOk dl /\
    (postings_syntactic dl ->
     forall b col coms, account_ok b = true -> is_AL b = true -> sources_of cfg dl b = [] ->
       NoDup coms -> (forall c, In c coms -> com_pass cfg c = true) ->
       (p_start (span part) <= p_end (span part))%Z -> In col (end_dates part) ->
       row_value b part col r coms == 0).
Proof.
  intros Hv H. destruct (windowed_row_mapped_where cfg ds r part V Hv H) as (dl & Ep & Epart & Hw).
  exists dl. split; [exact Ep|].
  intros Hsyn b col coms Hb HAL Hs Hnd Hcoms Hspan Hcol.
  pose proof (sources_of_spec cfg dl b Hsyn) as Hsrcs. rewrite Hs in Hsrcs.
  specialize (Hw Hsyn b [] col coms Hb HAL Hsrcs Hnd Hcoms (fun a Ha => match Ha with end) Hspan Hcol).
  unfold mv_where_sum, LedgerProofs.qsum in Hw. cbn [fold_right steps_where_sum] in Hw.
  setoid_replace (inject_Z 0 * (1 # 100000000)) with 0 in Hw by reflexivity.
  apply Qabs_le_zero in Hw. rewrite <- Hw. ring.
Qed.

(* ------------------------------------------------------------ Part E: without filters *)

Lemma filter_all_true {A} (f : A -> bool) l : (forall x, In x l -> f x = true) -> filter f l = l.
Proof.
  induction l as [|x l IH]; intros H; [reflexivity|]. cbn [filter]. rewrite (H x (or_introl eq_refl)).
  f_equal. apply IH. intros y Hy. apply H. right. exact Hy.
Qed.

Lemma held_where_all cfg dl a : (forall c, cfg_where cfg a c = true) -> heldw cfg dl a = held_commodities (flat_postings dl) a.
Proof. intros H. unfold held_where. apply filter_all_true. intros c _. apply H. Qed.

Lemma market_value_where_all cfg dl V a T : (forall c, cfg_where cfg a c = true) ->
  market_value_where cfg dl V a T = market_value dl V a T.
Proof. intros H. unfold market_value_where, market_value. cbn zeta. rewrite (held_where_all cfg dl a H). reflexivity. Qed.

Lemma step_bound_where_all cfg dl a W E : (forall c, cfg_where cfg a c = true) ->
  step_bound_where cfg dl a W E = step_bound dl a W E.
Proof.
  intros H. unfold step_bound_where, step_bound. cbn zeta. rewrite (held_where_all cfg dl a H).
  f_equal. f_equal. f_equal. f_equal. apply filter_ext. intros [d p]. rewrite H. apply andb_true_r.
Qed.

(* the specification of the filtered report extends the old one: for an account every commodity of
   which passes (in particular without --account and --commodity) it is mtm_row *)
Theorem mtm_row_where_unfiltered cfg dl a : (forall c, cfg_where cfg a c = true) ->
  mtm_row_where cfg dl a = mtm_row cfg dl a.
Proof.
  intros H. unfold mtm_row_where, mtm_row. destruct (bc_valuation cfg) as [V|]; [|reflexivity].
  destruct (new_partition _ _ _) as [part| |]; try reflexivity.
  f_equal. apply map_ext. intros p. unfold mtm_expected_where, mtm_expected.
  rewrite !(market_value_where_all cfg dl V a _ H), (step_bound_where_all cfg dl a _ _ H). reflexivity.
Qed.

Lemma cfg_where_nofilter cfg a c : bc_accounts cfg = [] -> bc_commodities cfg = [] -> cfg_where cfg a c = true.
Proof. intros H1 H2. unfold cfg_where. rewrite H1, H2. reflexivity. Qed.

Theorem mtm_row_where_mapped_unfiltered cfg dl b : bc_accounts cfg = [] -> bc_commodities cfg = [] ->
  mtm_row_where_mapped cfg dl b = mtm_row_mapped cfg dl b.
Proof.
  intros H1 H2. unfold mtm_row_where_mapped, mtm_row_mapped. destruct (bc_valuation cfg) as [V|]; [|reflexivity].
  destruct (new_partition _ _ _) as [part| |]; try reflexivity.
  f_equal. f_equal. apply map_ext. intros p.
  assert (Hall : forall a c, cfg_where cfg a c = true) by (intros a c; apply cfg_where_nofilter; assumption).
  f_equal.
  - induction (sources_of cfg dl b) as [|a srcs IH]; [reflexivity|]. cbn [expected_sum_where expected_sum].
    rewrite IH. unfold mtm_expected_where, mtm_expected. rewrite !(market_value_where_all cfg dl V a _ (Hall a)). reflexivity.
  - induction (sources_of cfg dl b) as [|a srcs IH]; [reflexivity|]. cbn [bound_sum_where bound_sum].
    rewrite IH, (step_bound_where_all cfg dl a _ _ (Hall a)). reflexivity.
Qed.

(* ------------------------------------------------------------ example data (Properties/C03.v) *)
(* Assets:B holds two commodities: it buys 1.5 A and 2 D on 2021-03-01 and 0.3 A on 03-03.  A is
   quoted in D only (1.5 D on 03-01, 2 D on 03-04), D in C (2 C on 03-01, 2.5 C on 03-02): the price
   of A in C goes through D (3, 3.75, 5 C).  The report is valued in C, daily over 03-02 .. 03-04,
   with --close and --commodity ^A$: it shows the A of the account only, and needs the prices of D,
   which it does not show, to do so. *)
Open Scope Z_scope.
Definition exw_d : commodity := [68].
Definition exw_journal : list sdirective :=
  [ SOpen exr_d0 exr_a; SOpen exr_d0 exr_o;
    SPrice exr_d0 exw_d (mkDec 2 0) exr_V;
    SPrice exr_d0 exr_c (mkDec 15 (-1)) exw_d;
    STxn (mkStxn exr_d0 [] [mkBooking exr_o exr_a (mkDec 15 (-1)) exr_c; mkBooking exr_o exr_a (mkDec 2 0) exw_d] None None);
    SPrice (exr_d0 + 1) exw_d (mkDec 25 (-1)) exr_V;
    STxn (mkStxn (exr_d0 + 2) [] [mkBooking exr_o exr_a (mkDec 3 (-1)) exr_c] None None);
    SPrice (exr_d0 + 3) exr_c (mkDec 2 0) exw_d ].
Definition exw_cfg : balance_cfg :=
  mkBalanceCfg (exr_d0 + 1) (exr_d0 + 3) Daily 0 false true (Some exr_V) true [] [] [] [mkRx true exr_c true] [] true.
