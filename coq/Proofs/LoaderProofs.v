(* The include loader (Model/Loader.v): the repaired loader terminates on every finite file
   system whatever its include graph; the pinned loader does not terminate on a cyclic one;
   an error in any reachable file fails the load; every directive of every reachable file is
   in the result. *)
From Coq Require Import ZArith List Bool Lia.
From Knut Require Import Model.Str Model.Ledger Model.Loader Proofs.StrProofs.
Import ListNotations.

Lemma path_eqb_eq a b : path_eqb a b = true <-> a = b.
Proof.
  revert b. induction a as [|x a IH]; intros [|y b]; cbn [path_eqb].
  - tauto.
  - split; discriminate.
  - split; discriminate.
  - rewrite andb_true_iff, str_eqb_eq, IH. split.
    + intros [Hx Ha]. subst. reflexivity.
    + intros H. inversion H. auto.
Qed.

Lemma path_eqb_refl a : path_eqb a a = true.
Proof. apply path_eqb_eq. reflexivity. Qed.

Lemma lookup_in fs p c : lookup fs p = Some c -> In p (map fst fs).
Proof.
  induction fs as [|[q c'] fs IH]; cbn [lookup map fst]; [discriminate|].
  destruct (path_eqb p q) eqn:E.
  - apply path_eqb_eq in E. subst. intros _. left. reflexivity.
  - intros H. right. apply IH. exact H.
Qed.

Lemma mem_path_in p l : mem_path p l = true <-> In p l.
Proof.
  unfold mem_path. rewrite existsb_exists. split.
  - intros (q & Hq & E). apply path_eqb_eq in E. subst. exact Hq.
  - intros H. exists p. split; [exact H|apply path_eqb_refl].
Qed.

(* ---------------------------------------------------------------- seq, load_items *)

Lemma seq_fuel r1 r2 : seq r1 r2 = LOutOfFuel <-> r1 = LOutOfFuel \/ r2 = LOutOfFuel.
Proof.
  destruct r1, r2; cbn [seq]; split; intros H; try discriminate; try tauto;
    try (destruct H as [H|H]; discriminate).
Qed.

Lemma seq_ok r1 r2 ds : seq r1 r2 = LOk ds -> exists a b, r1 = LOk a /\ r2 = LOk b /\ ds = a ++ b.
Proof.
  destruct r1, r2; cbn [seq]; intros H; try discriminate.
  inversion H. eauto.
Qed.

Lemma load_items_fuel sub its :
  load_items sub its = LOutOfFuel <-> exists t, In (IInc t) its /\ sub t = LOutOfFuel.
Proof.
  induction its as [|[d|t] its IH]; cbn [load_items].
  - split; [discriminate|]. intros (t & [] & _).
  - rewrite seq_fuel, IH. split.
    + intros [H|(t & Hin & Ht)]; [discriminate|]. exists t. split; [right; exact Hin|exact Ht].
    + intros (t & [Hin|Hin] & Ht); [discriminate|]. right. exists t. auto.
  - rewrite seq_fuel, IH. split.
    + intros [H|(t' & Hin & Ht)]; [exists t; split; [left; reflexivity|exact H]|].
      exists t'. split; [right; exact Hin|exact Ht].
    + intros (t' & [Hin|Hin] & Ht).
      * inversion Hin. subst. left. exact Ht.
      * right. exists t'. auto.
Qed.

Lemma load_items_ok sub its ds :
  load_items sub its = LOk ds ->
  (forall t, In (IInc t) its -> exists d', sub t = LOk d' /\ incl d' ds) /\
  (forall d, In (IDir d) its -> In d ds).
Proof.
  revert ds. induction its as [|[d|t] its IH]; cbn [load_items]; intros ds H.
  - split; intros ? [].
  - apply seq_ok in H. destruct H as (a & b & Ha & Hb & ->). inversion Ha. subst a.
    destruct (IH _ Hb) as [I1 I2]. split.
    + intros t [Hin|Hin]; [discriminate|]. destruct (I1 _ Hin) as (d' & Hs & Hi).
      exists d'. split; [exact Hs|]. intros x Hx. right. apply Hi. exact Hx.
    + intros d0 [Hin|Hin]; [inversion Hin; left; reflexivity|]. right. apply I2. exact Hin.
  - apply seq_ok in H. destruct H as (a & b & Ha & Hb & ->).
    destruct (IH _ Hb) as [I1 I2]. split.
    + intros t' [Hin|Hin].
      * inversion Hin. subst t'. exists a. split; [exact Ha|]. intros x Hx. apply in_or_app. left. exact Hx.
      * destruct (I1 _ Hin) as (d' & Hs & Hi). exists d'. split; [exact Hs|].
        intros x Hx. apply in_or_app. right. apply Hi. exact Hx.
    + intros d0 [Hin|Hin]; [discriminate|]. apply in_or_app. right. apply I2. exact Hin.
Qed.

(* ---------------------------------------------------------------- termination (repaired) *)

Lemma load_file_terminates fs : forall f anc p,
  NoDup anc -> incl anc (map fst fs) -> (length fs < length anc + f)%nat ->
  load_file f fs anc p <> LOutOfFuel.
Proof.
  induction f as [|f IH]; intros anc p Hnd Hincl Hlen.
  - exfalso. pose proof (NoDup_incl_length Hnd Hincl) as Hle. rewrite map_length in Hle. lia.
  - cbn [load_file]. destruct (mem_path p anc) eqn:Hm; [discriminate|].
    destruct (lookup fs p) as [[items|]|] eqn:Hl; try discriminate.
    intros Hf. apply load_items_fuel in Hf. destruct Hf as (t & _ & Ht).
    revert Ht. apply IH.
    + constructor; [|exact Hnd]. intros Hin. apply mem_path_in in Hin. congruence.
    + intros q [Hq|Hq]; [subst q; eapply lookup_in; exact Hl|apply Hincl; exact Hq].
    + cbn [length]. lia.
Qed.

Theorem load_terminates fs root : load (fuel_for fs) fs root <> LOutOfFuel.
Proof.
  unfold load, fuel_for. apply load_file_terminates.
  - constructor.
  - intros q [].
  - cbn [length]. lia.
Qed.

(* more fuel changes nothing once the load has ended *)
Lemma load_items_ext sub1 sub2 its :
  (forall t, In (IInc t) its -> sub1 t = sub2 t) -> load_items sub1 its = load_items sub2 its.
Proof.
  induction its as [|[d|t] its IH]; cbn [load_items]; intros H; [reflexivity| |].
  - rewrite IH; [reflexivity|]. intros t Ht. apply H. right. exact Ht.
  - rewrite (H t (or_introl eq_refl)), IH; [reflexivity|]. intros t' Ht. apply H. right. exact Ht.
Qed.

Lemma load_file_fuel_mono fs : forall f anc p,
  load_file f fs anc p <> LOutOfFuel -> load_file (S f) fs anc p = load_file f fs anc p.
Proof.
  induction f as [|f IH]; intros anc p H; [exfalso; apply H; reflexivity|].
  cbn [load_file] in H. change (load_file (S (S f)) fs anc p) with
    (if mem_path p anc then LErr (ECycle p) else
       match lookup fs p with
       | None => LErr (EMissing p) | Some FBad => LErr (EBad p)
       | Some (FOk items) => load_items (fun t => load_file (S f) fs (p :: anc) (resolve p t)) items end).
  cbn [load_file]. destruct (mem_path p anc); [reflexivity|].
  destruct (lookup fs p) as [[items|]|]; try reflexivity.
  apply load_items_ext. intros t Ht. apply IH. intros Hf. apply H. apply load_items_fuel. exists t. auto.
Qed.

(* ---------------------------------------------------------------- cycles *)

(* a set of files closed under "includes some file of the set": from any of them an include
   chain can be followed for ever *)
Definition closed (fs : fsys) (S : path -> Prop) : Prop :=
  forall p, S p -> exists items t, lookup fs p = Some (FOk items) /\ In (IInc t) items /\ S (resolve p t).

Theorem pinned_diverges fs S : closed fs S -> forall fuel p, S p -> load_pinned fuel fs p = LOutOfFuel.
Proof.
  intros Hc. induction fuel as [|f IH]; intros p Hp; [reflexivity|].
  cbn [load_pinned]. destruct (Hc p Hp) as (items & t & Hl & Hin & Hs). rewrite Hl.
  apply load_items_fuel. exists t. split; [exact Hin|apply IH; exact Hs].
Qed.

Lemma repaired_not_ok fs S : closed fs S -> forall fuel anc p ds, S p -> load_file fuel fs anc p <> LOk ds.
Proof.
  intros Hc. induction fuel as [|f IH]; intros anc p ds Hp; [discriminate|].
  cbn [load_file]. destruct (mem_path p anc); [discriminate|].
  destruct (Hc p Hp) as (items & t & Hl & Hin & Hs). rewrite Hl.
  intros H. apply load_items_ok in H. destruct H as [H _].
  destruct (H t Hin) as (d' & Hd & _). revert Hd. apply IH. exact Hs.
Qed.

Theorem cycle_is_error fs S root : closed fs S -> S root -> exists e, load (fuel_for fs) fs root = LErr e.
Proof.
  intros Hc Hr. destruct (load (fuel_for fs) fs root) as [ds|e|] eqn:E.
  - exfalso. revert E. apply (repaired_not_ok fs S Hc). exact Hr.
  - exists e. reflexivity.
  - exfalso. revert E. apply load_terminates.
Qed.

(* ---------------------------------------------------------------- reachable files *)

Inductive reach (fs : fsys) (root : path) : path -> Prop :=
| reach_root : reach fs root root
| reach_inc p items t :
    reach fs root p -> lookup fs p = Some (FOk items) -> In (IInc t) items -> reach fs root (resolve p t).

Lemma load_file_ok_inv f fs anc p ds :
  load_file f fs anc p = LOk ds ->
  exists f' items, f = S f' /\ lookup fs p = Some (FOk items) /\
    load_items (fun t => load_file f' fs (p :: anc) (resolve p t)) items = LOk ds.
Proof.
  destruct f as [|f]; cbn [load_file]; [discriminate|].
  destruct (mem_path p anc); [discriminate|].
  destruct (lookup fs p) as [[items|]|]; try discriminate.
  intros H. exists f, items. auto.
Qed.

Lemma reach_loaded fs root f ds :
  load f fs root = LOk ds ->
  forall p, reach fs root p -> exists f' anc ds', load_file f' fs anc p = LOk ds' /\ incl ds' ds.
Proof.
  intros Hl p Hr. induction Hr as [|p items t Hr IH Hlk Hin].
  - exists f, [], ds. split; [exact Hl|apply incl_refl].
  - destruct IH as (f' & anc & ds' & Hp & Hi).
    apply load_file_ok_inv in Hp. destruct Hp as (f'' & items' & -> & Hlk' & Hit).
    rewrite Hlk in Hlk'. inversion Hlk'. subst items'.
    apply load_items_ok in Hit. destruct Hit as [H1 _].
    destruct (H1 t Hin) as (d' & Hd & Hi').
    exists f'', (p :: anc), d'. split; [exact Hd|]. intros x Hx. apply Hi. apply Hi'. exact Hx.
Qed.

(* a missing, unreadable or unparseable file anywhere in the include graph fails the load *)
Theorem included_error_fails_all fs root p :
  reach fs root p -> (lookup fs p = None \/ lookup fs p = Some FBad) ->
  forall f ds, load f fs root <> LOk ds.
Proof.
  intros Hr Hbad f ds Hl.
  destruct (reach_loaded fs root f ds Hl p Hr) as (f' & anc & ds' & Hp & _).
  apply load_file_ok_inv in Hp. destruct Hp as (_ & items & _ & Hlk & _).
  destruct Hbad as [Hb|Hb]; rewrite Hb in Hlk; discriminate.
Qed.

Theorem missing_root_fails fs root f : lookup fs root = None -> load (S f) fs root = LErr (EMissing root).
Proof. intros H. unfold load. cbn [load_file mem_path existsb]. rewrite H. reflexivity. Qed.

(* nothing is lost: every directive of every reachable file is in the result *)
Theorem included_directive_loaded fs root p items d :
  reach fs root p -> lookup fs p = Some (FOk items) -> In (IDir d) items ->
  forall f ds, load f fs root = LOk ds -> In d ds.
Proof.
  intros Hr Hlk Hin f ds Hl.
  destruct (reach_loaded fs root f ds Hl p Hr) as (f' & anc & ds' & Hp & Hi).
  apply load_file_ok_inv in Hp. destruct Hp as (f'' & items' & _ & Hlk' & Hit).
  rewrite Hlk in Hlk'. inversion Hlk'. subst items'.
  apply load_items_ok in Hit. apply Hi. apply Hit. exact Hin.
Qed.

(* model-level errors: a directive that lib/model rejects (or on which it panics) anywhere
   in the loaded list makes ParseDirectives fail for the whole list *)
Lemma parse_directives_ok_all l out :
  parse_directives l = MOk out -> forall d, In d l -> exists o, parse_directive d = MOk o.
Proof.
  revert out. induction l as [|x l IH]; intros out H d Hin; [destruct Hin|].
  cbn [parse_directives] in H. destruct (parse_directive x) as [o| |] eqn:Ex; cbn [mbind] in H; try discriminate.
  destruct (parse_directives l) as [o'| |] eqn:El; cbn [mbind] in H; try discriminate.
  destruct Hin as [<-|Hin]; [eauto|]. eapply IH; [reflexivity|exact Hin].
Qed.

(* ---------------------------------------------------------------- witnesses *)

(* "a" includes "a" *)
Definition fs_selfinclude : fsys := [([[97]], FOk [IInc [97]])].
(* "a" includes "s/b", "s/b" includes "../a" *)
Definition fs_mutual : fsys := [([[97]], FOk [IInc [115; 47; 98]]); ([[115]; [98]], FOk [IInc [46; 46; 47; 97]])].
(* a diamond: "a" includes "b" and "c", both include "d" *)
Definition fs_diamond (d : sdirective) : fsys :=
  [([[97]], FOk [IInc [98]; IInc [99]]); ([[98]], FOk [IInc [100]]); ([[99]], FOk [IInc [46; 47; 100]]);
   ([[100]], FOk [IDir d])].

Lemma selfinclude_closed : closed fs_selfinclude (fun p => p = [[97]]).
Proof. intros p ->. exists [IInc [97]], [97]. repeat split. left. reflexivity. Qed.

Lemma mutual_closed : closed fs_mutual (fun p => p = [[97]] \/ p = [[115]; [98]]).
Proof.
  intros p [->| ->].
  - exists [IInc [115; 47; 98]], [115; 47; 98]. split; [reflexivity|]. split; [left; reflexivity|]. right. reflexivity.
  - exists [IInc [46; 46; 47; 97]], [46; 46; 47; 97]. split; [reflexivity|]. split; [left; reflexivity|]. left. reflexivity.
Qed.

Lemma selfinclude_diverges : forall fuel, load_pinned fuel fs_selfinclude [[97]] = LOutOfFuel.
Proof. intros fuel. exact (pinned_diverges fs_selfinclude _ selfinclude_closed fuel [[97]] eq_refl). Qed.

Lemma mutual_diverges : forall fuel, load_pinned fuel fs_mutual [[97]] = LOutOfFuel.
Proof. intros fuel. exact (pinned_diverges fs_mutual _ mutual_closed fuel [[97]] (or_introl eq_refl)). Qed.

Lemma mutual_reach : reach fs_mutual [[97]] [[115]; [98]].
Proof. exact (reach_inc fs_mutual [[97]] [[97]] _ [115; 47; 98] (reach_root _ _) eq_refl (or_introl eq_refl)). Qed.

Lemma diamond_loads_twice d : load (fuel_for (fs_diamond d)) (fs_diamond d) [[97]] = LOk [d; d].
Proof. reflexivity. Qed.
