(* Layout of the text renderer over tables with percent cells (Model/WeightsTable.v): a table
   whose cells all fill their column (Spec.WeightsTableSpec.wtable_fits_b) is rendered
   rectangular; the weights report builds well-formed tables whose date columns are at least
   ten runes wide.  The line-level lemmas (aligned, sep_pos, lines, table_lines_concat,
   fold_widths_spec, widen_ge) are those of Proofs/TableProofs.v. *)
From Coq Require Import ZArith List Bool Lia Arith.
From Knut Require Import Model.Str Model.Dec Model.Date Model.Table Model.Report Model.F64 Model.Weights Model.WeightsTable
     Spec.TableSpec Spec.WeightsTableSpec Spec.BeancountLex
     Proofs.DecStringProofs Proofs.TableProofs Proofs.NumberProofs Proofs.BeancountRead.
Import ListNotations.
Open Scope bool_scope.
Open Scope Z_scope.

(* ------------------------------------------------------------------ lines => rectangular *)
(* lines without line breaks, all aligned on the same widths: the rendering is rectangular *)
Lemma rect_of_aligned (ws : list nat) (body : list str) :
  Forall (fun l => ~ In 10 l) body ->
  Forall (fun l => aligned ws (rune_starts l)) body ->
  rect_b (length ws) (concat (map (fun l => l ++ [10]) body) ++ [10]) = true.
Proof.
  intros Hnl Hal. unfold rect_b. rewrite (table_lines_concat body Hnl).
  destruct body as [|l0 body']; [reflexivity|].
  assert (Hline : forall l, In l (l0 :: body') ->
            Forall (fun p => is_sepchar (nth p (rune_starts l) 0) = true) (sep_pos ws 0) /\
            length (rune_starts l) = S (last (sep_pos ws 0) 0%nat)).
  { intros l Hl. rewrite Forall_forall in Hal. specialize (Hal l Hl).
    pose proof (aligned_seps ws (rune_starts l) Hal []) as H. cbn [app length] in H. exact H. }
  set (L := length (rune_starts l0)).
  assert (HL : L = S (last (sep_pos ws 0) 0%nat)) by (apply (Hline l0); left; reflexivity).
  assert (Hincl : incl (sep_pos ws 0) (sep_columns (l0 :: body'))).
  { intros p Hp. unfold sep_columns. cbn [map]. apply filter_In. split.
    - apply in_seq. pose proof (sep_pos_le_last ws 0) as Hle. rewrite Forall_forall in Hle.
      specialize (Hle p Hp). fold L. lia.
    - apply forallb_forall. intros r Hr.
      change (rune_starts l0 :: map rune_starts body') with (map rune_starts (l0 :: body')) in Hr.
      apply in_map_iff in Hr. destruct Hr as [l [<- Hl]].
      destruct (Hline l Hl) as [Hs _].
      rewrite Forall_forall in Hs. apply Hs. exact Hp. }
  apply andb_true_iff; split; [apply andb_true_iff; split; [apply andb_true_iff; split|]|].
  - apply forallb_forall. intros l Hl. apply Nat.eqb_eq. fold L. rewrite HL. apply (Hline l Hl).
  - apply Nat.leb_le. rewrite <- (sep_pos_length ws 0).
    apply NoDup_incl_length; [apply sep_pos_nodup|exact Hincl].
  - apply existsb_exists. exists 0%nat. split; [|reflexivity]. apply Hincl. apply sep_pos_head.
  - apply existsb_exists. exists (L - 1)%nat. split; [|apply Nat.eqb_refl].
    apply Hincl. rewrite HL. replace (S (last (sep_pos ws 0) 0) - 1)%nat with (last (sep_pos ws 0) 0%nat) by lia.
    apply sep_pos_last_in.
Qed.

(* ------------------------------------------------------------------ one cell *)
Lemma f64_switch_nan n : f64_is_nan n = true -> f64_ltz n = false /\ f64_gtz n = false /\ f64_eqz n = false.
Proof. destruct n; cbn; intros H; try discriminate H; repeat split. Qed.

Lemma f64_switch_number n : f64_is_nan n = false -> f64_ltz n || f64_gtz n || f64_eqz n = true.
Proof.
  destruct n as [|s|s m e]; cbn; intros H; try discriminate H.
  - destruct s; reflexivity.
  - destruct s; cbn; destruct (0 <? m) eqn:E1; destruct (m <=? 0) eqn:E2; try reflexivity; lia.
Qed.

(* the cell of a number: the switch takes one of its three cases, which write the same *)
Lemma wrender_pct_number round n l : f64_is_nan n = false -> wrender_cell round (WPct n) l = pct_text round n l.
Proof.
  intros H. pose proof (f64_switch_number n H) as Hs. cbn [wrender_cell].
  destruct (f64_ltz n); [reflexivity|]. destruct (f64_gtz n); [reflexivity|].
  destruct (f64_eqz n); [reflexivity|]. discriminate Hs.
Qed.

(* the cell of a NaN: nothing *)
Lemma wrender_pct_nan round n l : f64_is_nan n = true -> wrender_cell round (WPct n) l = [].
Proof.
  intros H. destruct (f64_switch_nan n H) as (H1 & H2 & H3). cbn [wrender_cell]. rewrite H1, H2, H3. reflexivity.
Qed.

Theorem wrender_cell_width round c l :
  pcell_indent_ok c -> wmin_length round c <= l -> pcell_fits_b round c l = true ->
  rune_count (wrender_cell round c l) = l.
Proof.
  intros Hi Hl Hf. destruct c as [b|n].
  - cbn [wrender_cell]. apply render_cell_width; assumption.
  - cbn [pcell_fits_b] in Hf. destruct (f64_is_nan n) eqn:En.
    + rewrite wrender_pct_nan by exact En. apply Z.eqb_eq in Hf. subst l. reflexivity.
    + rewrite wrender_pct_number by exact En.
      apply andb_prop in Hf. destruct Hf as [Hr Hp]. apply Z.leb_le in Hp.
      unfold pct_text. destruct (pct_badprec round); [discriminate Hr|]. cbn [app].
      unfold pct_len in Hp. rewrite rune_count_app, pad_left_width by lia.
      change (rune_count [37]) with 1. lia.
Qed.

(* a percent cell that does not fit is rendered to another number of runes *)
Theorem wrender_cell_misfit round n l :
  0 <= l -> pcell_fits_b round (WPct n) l = false -> rune_count (wrender_cell round (WPct n) l) <> l.
Proof.
  intros Hl Hf. cbn [pcell_fits_b] in Hf. destruct (f64_is_nan n) eqn:En.
  - rewrite wrender_pct_nan by exact En. apply Z.eqb_neq in Hf. cbn. lia.
  - rewrite wrender_pct_number by exact En. unfold pct_text, pct_len in *.
    rewrite !rune_count_app. change (rune_count [37]) with 1.
    pose proof (rune_count_nonneg (pct_num round n)) as Hn.
    unfold pad_left. rewrite rune_count_app. unfold spaces. rewrite rune_count_repeat_z_any by reflexivity.
    destruct (pct_badprec round) eqn:Er.
    + change (rune_count s_badprec) with 11. lia.
    + change (rune_count []) with 0.
      apply andb_false_iff in Hf. destruct Hf as [Hf|Hf]; [discriminate Hf|]. apply Z.leb_gt in Hf. lia.
Qed.

(* ------------------------------------------------------------------ widths *)
Definition wrows_full (t : wtable) : Prop := Forall (fun r => length r = wt_width t) (wt_rows t).

Theorem w_col_widths_ge round t :
  wrows_full t ->
  length (w_final_widths round t) = wt_width t /\
  Forall (fun r => Forall2 (fun c w => wmin_length round c <= w) r (w_final_widths round t)) (wt_rows t).
Proof.
  intros Hfull. unfold w_final_widths, w_col_widths.
  pose proof (fold_widths_spec (wmin_length round) (wt_rows t) (repeat 0 (wt_width t))) as H.
  rewrite repeat_length in H. specialize (H Hfull). cbv zeta in H.
  destruct H as [Hlen [_ Hall]].
  set (ws := fold_left _ (wt_rows t) _) in *.
  pose proof (widen_ge ws 0 (group_widths (wt_columns t) ws [])) as Hw.
  split.
  - rewrite <- (le_all_length _ _ Hw). exact Hlen.
  - eapply Forall_impl; [|exact Hall]. intros r Hr.
    pose proof (le_all_trans _ _ _ Hr Hw) as Hle.
    clear - Hle. remember (map (wmin_length round) r) as ms eqn:Em.
    revert r Em. induction Hle as [|m w ms ws' Hmw Hrest IH]; intros r Em.
    + destruct r; [constructor|discriminate].
    + destruct r as [|c r]; [discriminate|]. cbn [map] in Em. injection Em as -> ->.
      constructor; [exact Hmw|apply IH; reflexivity].
Qed.

(* ------------------------------------------------------------------ a line *)
Lemma wcreate_sep_shape c1 c2 :
  exists a m b, wcreate_sep c1 c2 = [a; m; b] /\ is_sepchar m = true /\
                (a = 32 \/ a = 45) /\ (b = 32 \/ b = 45).
Proof.
  unfold wcreate_sep. destruct (wis_sep c1), (wis_sep c2); do 3 eexists; (split; [reflexivity|]);
    repeat split; auto.
Qed.

Lemma wrender_cells_cons2 round c c2 rest w ws :
  wrender_cells round (c :: c2 :: rest) (w :: ws) =
  wrender_cell round c w ++ wcreate_sep c c2 ++ wrender_cells round (c2 :: rest) ws.
Proof. reflexivity. Qed.

Lemma wrender_cells_aligned round cs ws :
  Forall2 (fun c w => rune_count (wrender_cell round c w) = w) cs ws -> cs <> [] ->
  forall s x y s', is_sepchar s = true -> is_sepchar s' = true ->
  aligned (widths_nat ws) (s :: x :: rune_starts (wrender_cells round cs ws) ++ [y; s']).
Proof.
  intros H. induction H as [|c w cs ws Hcw Hrest IH]; intros Hne s x y s' Hs Hs'; [congruence|].
  destruct cs as [|c2 cs'].
  - inversion Hrest; subst. cbn [wrender_cells widths_nat map].
    replace (s :: x :: rune_starts (wrender_cell round c w) ++ [y; s'])
      with (s :: (x :: rune_starts (wrender_cell round c w) ++ [y]) ++ [s'])
      by (cbn [app]; rewrite <- app_assoc; reflexivity).
    constructor; [exact Hs| |constructor; exact Hs'].
    cbn [length]. rewrite app_length. cbn [length].
    rewrite rune_count_starts in Hcw. lia.
  - rewrite wrender_cells_cons2. cbn [widths_nat map].
    destruct (wcreate_sep_shape c c2) as [a [m [b [Esep [Hm [Ha Hb]]]]]]. rewrite Esep.
    rewrite !rune_starts_app.
    assert (Eabm : rune_starts [a; m; b] = [a; m; b]).
    { unfold rune_starts, is_sepchar in *. cbn [filter].
      assert (is_cont a = false) by (destruct Ha; subst; reflexivity).
      assert (is_cont b = false) by (destruct Hb; subst; reflexivity).
      assert (is_cont m = false).
      { apply orb_true_iff in Hm. destruct Hm as [E|E]; apply Z.eqb_eq in E; subst; reflexivity. }
      rewrite H, H0, H1. reflexivity. }
    rewrite Eabm.
    replace (s :: x :: (rune_starts (wrender_cell round c w) ++ [a; m; b] ++ rune_starts (wrender_cells round (c2 :: cs') ws)) ++ [y; s'])
      with (s :: (x :: rune_starts (wrender_cell round c w) ++ [a]) ++
              (m :: b :: rune_starts (wrender_cells round (c2 :: cs') ws) ++ [y; s'])).
    2:{ cbn [app]. rewrite <- !app_assoc. cbn [app]. reflexivity. }
    constructor; [exact Hs| |].
    + cbn [length]. rewrite app_length. cbn [length]. rewrite rune_count_starts in Hcw. lia.
    + apply (IH ltac:(discriminate) m b y s' Hm Hs').
Qed.

(* the line of a row: wrender_row without its final newline *)
Definition wrow_line (round : Z) (ws : list Z) (row : list pcell) : str :=
  match row with
  | [] => []
  | c0 :: _ =>
    (if wis_sep c0 then [43;45] else [124;32]) ++ wrender_cells round row ws ++
    (if wis_sep (last row (WBase CEmpty)) then [45;43] else [32;124])
  end.

Lemma wrender_row_line round ws row : row <> [] -> wrender_row round ws row = wrow_line round ws row ++ [10].
Proof.
  intros H. destruct row as [|c0 row]; [congruence|].
  unfold wrender_row, wrow_line. rewrite <- !app_assoc.
  destruct (wis_sep (last (c0 :: row) (WBase CEmpty))); reflexivity.
Qed.

Theorem wrow_line_aligned round ws row :
  row <> [] ->
  Forall2 (fun c w => rune_count (wrender_cell round c w) = w) row ws ->
  aligned (widths_nat ws) (rune_starts (wrow_line round ws row)).
Proof.
  intros Hne H. destruct row as [|c0 row]; [congruence|].
  unfold wrow_line. rewrite !rune_starts_app.
  destruct (wis_sep c0); destruct (wis_sep (last (c0 :: row) (WBase CEmpty)));
    change (rune_starts [43;45]) with [43;45]; change (rune_starts [124;32]) with [124;32];
    change (rune_starts [45;43]) with [45;43]; change (rune_starts [32;124]) with [32;124];
    cbn [app]; apply (wrender_cells_aligned round (c0 :: row) ws H); try discriminate; reflexivity.
Qed.

(* ------------------------------------------------------------------ no newline inside a line *)
Lemma fmt_f_no_nl p x : ~ In 10 (fmt_f p x).
Proof.
  destruct x as [|s|s m e]; cbn [fmt_f].
  - intros H. cbn in H. repeat destruct H as [H|H]; try discriminate H; exact H.
  - destruct s; intros H; cbn in H; repeat destruct H as [H|H]; try discriminate H; exact H.
  - intros H. apply in_app_or in H. destruct H as [H|H].
    + destruct s; cbn in H; [destruct H as [H|H]; [discriminate H|exact H]|exact H].
    + exact (to_string_gen_no_nl _ _ H).
Qed.

Lemma pct_text_no_nl round n l : ~ In 10 (pct_text round n l).
Proof.
  unfold pct_text, pad_left. intros H.
  apply in_app_or in H. destruct H as [H|H].
  - destruct (pct_badprec round); [|exact H]. cbn in H. repeat destruct H as [H|H]; try discriminate H; exact H.
  - apply in_app_or in H. destruct H as [H|H].
    + apply in_app_or in H. destruct H as [H|H]; [revert H; apply repeat_z_not_in; discriminate|].
      exact (fmt_f_no_nl _ _ H).
    + cbn in H. destruct H as [H|H]; [discriminate H|exact H].
Qed.

Lemma wrender_cell_no_nl round c l : pcell_no_nl c -> ~ In 10 (wrender_cell round c l).
Proof.
  intros Hc. destruct c as [b|n].
  - cbn [wrender_cell]. apply render_cell_no_nl; [apply num_str_no_nl|exact Hc].
  - cbn [wrender_cell].
    destruct (f64_ltz n); [apply pct_text_no_nl|]. destruct (f64_gtz n); [apply pct_text_no_nl|].
    destruct (f64_eqz n); [apply pct_text_no_nl|]. intros [].
Qed.

Lemma wrender_cells_no_nl round cs ws : Forall pcell_no_nl cs -> ~ In 10 (wrender_cells round cs ws).
Proof.
  revert ws. induction cs as [|c cs IH]; intros ws H; [intros []|].
  inversion H as [|c' cs' Hc Hcs]; subst.
  destruct cs as [|c2 cs'].
  - destruct ws; cbn [wrender_cells]; [intros []|apply wrender_cell_no_nl; exact Hc].
  - destruct ws as [|w ws]; cbn [wrender_cells]; [intros []|].
    intros Hin. apply in_app_or in Hin. destruct Hin as [Hin|Hin]; [exact (wrender_cell_no_nl round c w Hc Hin)|].
    apply in_app_or in Hin. destruct Hin as [Hin|Hin]; [|exact (IH ws Hcs Hin)].
    destruct (wcreate_sep_shape c c2) as [a [m [b [Esep [Hm [Ha Hb]]]]]]. rewrite Esep in Hin.
    unfold is_sepchar in Hm. apply orb_true_iff in Hm.
    cbn [In] in Hin. destruct Hin as [E|[E|[E|[]]]]; subst.
    + destruct Ha; discriminate.
    + destruct Hm as [E|E]; discriminate.
    + destruct Hb; discriminate.
Qed.

Lemma wrow_line_no_nl round ws row : Forall pcell_no_nl row -> ~ In 10 (wrow_line round ws row).
Proof.
  intros H. destruct row as [|c0 row]; [intros []|]. unfold wrow_line.
  intros Hin. apply in_app_or in Hin. destruct Hin as [Hin|Hin].
  - destruct (wis_sep c0); cbn [In] in Hin; destruct Hin as [E|[E|[]]]; discriminate.
  - apply in_app_or in Hin. destruct Hin as [Hin|Hin]; [exact (wrender_cells_no_nl _ _ ws H Hin)|].
    destruct (wis_sep (last (c0 :: row) (WBase CEmpty))); cbn [In] in Hin; destruct Hin as [E|[E|[]]]; discriminate.
Qed.

(* ------------------------------------------------------------------ rectangularity *)
Lemma forall2b_Forall2 {A B : Type} (f : A -> B -> bool) la lb :
  forall2b f la lb = true -> Forall2 (fun a b => f a b = true) la lb.
Proof.
  revert lb. induction la as [|a la IH]; intros [|b lb] H; cbn [forall2b] in H; try discriminate H.
  - constructor.
  - apply andb_prop in H. destruct H as [H1 H2]. constructor; [exact H1|apply IH; exact H2].
Qed.

Theorem wrender_text_lines round t :
  wtable_wf t ->
  wrender_text round t =
    concat (map (fun l => l ++ [10]) (map (wrow_line round (w_final_widths round t)) (wt_rows t))) ++ [10].
Proof.
  intros [Hw Hrows]. unfold wrender_text. f_equal. f_equal. rewrite map_map. apply map_ext_in.
  intros r Hr. apply wrender_row_line. rewrite Forall_forall in Hrows.
  destruct (Hrows r Hr) as [Hl _]. intros ->. cbn in Hl. lia.
Qed.

(* every line of a table whose cells fit is aligned on the final widths *)
Theorem wlines_aligned round t :
  wtable_wf t -> wtable_fits_b round t = true ->
  Forall (fun l => aligned (widths_nat (w_final_widths round t)) (rune_starts l))
         (map (wrow_line round (w_final_widths round t)) (wt_rows t)).
Proof.
  intros [Hw Hrows] Hfit.
  assert (Hfull : wrows_full t).
  { unfold wrows_full. eapply Forall_impl; [|exact Hrows]. cbn. intros r [H _]. exact H. }
  destruct (w_col_widths_ge round t Hfull) as [Hlen Hge].
  unfold wtable_fits_b in Hfit. cbv zeta in Hfit. rewrite forallb_forall in Hfit.
  apply Forall_forall. intros l Hl. apply in_map_iff in Hl. destruct Hl as [r [<- Hr]].
  rewrite Forall_forall in Hrows, Hge. destruct (Hrows r Hr) as [Hrl [Hind _]].
  apply wrow_line_aligned; [intros ->; cbn in Hrl; lia|].
  specialize (Hge r Hr). pose proof (forall2b_Forall2 _ _ _ (Hfit r Hr)) as Hf. clear - Hge Hind Hf.
  induction Hge as [|c w r ws Hcw Hrest IH]; [constructor|].
  inversion Hind as [|c' r' Hc Hr']; subst.
  inversion Hf as [|c'' w'' r'' ws'' Hcf Hrf]; subst.
  constructor; [apply wrender_cell_width; assumption|apply IH; assumption].
Qed.

Theorem wrender_text_rect round t :
  wtable_wf t -> wtable_fits_b round t = true -> rect_b (wt_width t) (wrender_text round t) = true.
Proof.
  intros Hwf Hfit. rewrite (wrender_text_lines round t Hwf).
  pose proof (wlines_aligned round t Hwf Hfit) as Hal.
  destruct Hwf as [Hw Hrows].
  assert (Hfull : wrows_full t).
  { unfold wrows_full. eapply Forall_impl; [|exact Hrows]. cbn. intros r [H _]. exact H. }
  destruct (w_col_widths_ge round t Hfull) as [Hlen _].
  replace (wt_width t) with (length (widths_nat (w_final_widths round t)))
    by (unfold widths_nat; rewrite map_length; exact Hlen).
  apply rect_of_aligned; [|exact Hal].
  apply Forall_forall. intros l Hl. apply in_map_iff in Hl. destruct Hl as [r [<- Hr]].
  apply wrow_line_no_nl. rewrite Forall_forall in Hrows. apply (Hrows r Hr).
Qed.

(* ------------------------------------------------------------------ tables without percent cells *)
(* on a table of Model/Table.v the renderer of this file is TextRenderer of Model/Table.v *)
Lemma wmin_length_base round row : map (wmin_length round) (map WBase row) = map (min_length_cell (wcfg round)) row.
Proof. rewrite map_map. reflexivity. Qed.

Lemma w_col_widths_base round t : w_col_widths round (wtable_of_table t) = col_widths (wcfg round) t.
Proof.
  unfold w_col_widths, col_widths, wtable_of_table, wt_width, t_width. cbn [wt_rows wt_columns].
  generalize (repeat 0 (length (t_columns t))). induction (t_rows t) as [|r rows IH]; intros ws0; [reflexivity|].
  cbn [map fold_left]. rewrite wmin_length_base. apply IH.
Qed.

Lemma wrender_cells_base round row ws : wrender_cells round (map WBase row) ws = render_cells (wcfg round) row ws.
Proof.
  revert ws. induction row as [|c row IH]; intros ws; [reflexivity|].
  destruct row as [|c2 row']; destruct ws as [|w ws']; try reflexivity.
  change (map WBase (c :: c2 :: row')) with (WBase c :: WBase c2 :: map WBase row').
  rewrite wrender_cells_cons2, render_cells_cons2.
  change (WBase c2 :: map WBase row') with (map WBase (c2 :: row')). rewrite IH. reflexivity.
Qed.

Lemma last_map_base row : wis_sep (last (map WBase row) (WBase CEmpty)) = is_sep (last row CEmpty).
Proof.
  induction row as [|c row IH]; [reflexivity|]. destruct row as [|c2 row']; [reflexivity|].
  change (map WBase (c :: c2 :: row')) with (WBase c :: map WBase (c2 :: row')).
  change (last (c :: c2 :: row') CEmpty) with (last (c2 :: row') CEmpty).
  rewrite <- IH. reflexivity.
Qed.

Theorem wrender_text_base round t : wrender_text round (wtable_of_table t) = render_text (wcfg round) t.
Proof.
  unfold wrender_text, render_text, w_final_widths, final_widths. rewrite w_col_widths_base.
  cbn [wtable_of_table wt_rows wt_columns]. f_equal. f_equal. rewrite map_map. apply map_ext.
  intros row. destruct row as [|c0 row]; [reflexivity|].
  unfold wrender_row, render_row. change (map WBase (c0 :: row)) with (WBase c0 :: map WBase row).
  change (WBase c0 :: map WBase row) with (map WBase (c0 :: row)).
  rewrite wrender_cells_base, last_map_base. reflexivity.
Qed.

(* ------------------------------------------------------------------ the weights report *)
Lemma columns_of_weights n : length (columns_of [1; Z.of_nat n] 0) = S n.
Proof.
  cbn [columns_of]. rewrite !app_length, !repeat_length, Nat2Z.id. cbn. lia.
Qed.

Lemma weights_wtable_width dates rows : wt_width (weights_wtable dates rows) = S (length dates).
Proof. unfold weights_wtable, wt_width. cbn [wt_columns]. apply columns_of_weights. Qed.

Lemma rune_count_ascii s : Forall (fun c => c = 45 \/ 48 <= c <= 57) s -> rune_count s = Z.of_nat (length s).
Proof.
  intros H. unfold rune_count. f_equal. induction H as [|c s Hc Hs IH]; [reflexivity|].
  cbn [filter length].
  replace ((128 <=? c) && (c <? 192)) with false
    by (symmetry; apply andb_false_iff; left; apply Z.leb_gt; lia).
  cbn [negb length]. rewrite IH. reflexivity.
Qed.

Lemma format_date_runes d : date_lex_b d = true -> rune_count (format_date d) = 10.
Proof.
  intros Hd. rewrite (rune_count_ascii _ (format_date_chars d Hd)).
  unfold format_date. destruct (civil d) as [[y m] dd]. reflexivity.
Qed.

Lemma sep_row_props n :
  length (wsep_row n) = n /\ Forall pcell_indent_ok (wsep_row n) /\ Forall pcell_no_nl (wsep_row n).
Proof.
  unfold wsep_row. split; [apply repeat_length|].
  split; apply Forall_forall; intros c Hc; apply repeat_spec in Hc; subst c; exact I.
Qed.

Lemma header_props dates :
  Forall (fun d => date_lex_b d = true) dates ->
  length (weights_header dates) = S (length dates) /\
  Forall pcell_indent_ok (weights_header dates) /\ Forall pcell_no_nl (weights_header dates).
Proof.
  intros Hd. unfold weights_header. split; [cbn [length]; rewrite map_length; reflexivity|].
  split.
  - constructor; [cbn; lia|]. apply Forall_forall. intros c Hc. apply in_map_iff in Hc.
    destruct Hc as [d [<- _]]. cbn. lia.
  - constructor.
    + cbn. intros H. repeat destruct H as [H|H]; try discriminate H; exact H.
    + apply Forall_forall. intros c Hc. apply in_map_iff in Hc. destruct Hc as [d [<- Hin]].
      cbn. rewrite Forall_forall in Hd. apply format_date_no; [apply Hd; exact Hin|lia].
Qed.

Lemma body_row_props n r :
  frow_ok n r ->
  length (weights_row r) = S n /\ Forall pcell_indent_ok (weights_row r) /\ Forall pcell_no_nl (weights_row r).
Proof.
  destruct r as [[ind s] cells]. intros (Hl & Hi & Hs). unfold weights_row.
  split; [cbn [length]; rewrite map_length, Hl; reflexivity|].
  split.
  - constructor; [exact Hi|]. apply Forall_forall. intros c Hc. apply in_map_iff in Hc.
    destruct Hc as [[x|] [<- _]]; exact I.
  - constructor; [exact Hs|]. apply Forall_forall. intros c Hc. apply in_map_iff in Hc.
    destruct Hc as [[x|] [<- _]]; exact I.
Qed.

Theorem weights_wtable_wf dates rows :
  Forall (fun d => date_lex_b d = true) dates ->
  Forall (frow_ok (length dates)) rows ->
  wtable_wf (weights_wtable dates rows).
Proof.
  intros Hd Hr. split; [rewrite weights_wtable_width; lia|].
  rewrite weights_wtable_width. unfold weights_wtable. cbn [wt_rows]. rewrite columns_of_weights.
  destruct (sep_row_props (S (length dates))) as (S1 & S2 & S3).
  destruct (header_props dates Hd) as (H1 & H2 & H3).
  repeat (apply Forall_cons; [repeat split; assumption|]). cbn [app].
  apply Forall_app. split.
  - apply Forall_forall. intros row Hrow. apply in_map_iff in Hrow. destruct Hrow as [r [<- Hin]].
    rewrite Forall_forall in Hr. destruct (body_row_props _ r (Hr r Hin)) as (B1 & B2 & B3).
    repeat split; assumption.
  - constructor; [repeat split; assumption|constructor].
Qed.

(* a percent cell that fits into ten runes fits into every wider column *)
Lemma pcell_fits_mono round n w w' : pcell_fits_b round (WPct n) w = true -> 0 < w <= w' -> pcell_fits_b round (WPct n) w' = true.
Proof.
  cbn [pcell_fits_b]. destruct (f64_is_nan n).
  - intros H Hw. apply Z.eqb_eq in H. lia.
  - intros H Hw. apply andb_prop in H. destruct H as [H1 H2]. apply Z.leb_le in H2.
    rewrite H1. cbn [andb]. apply Z.leb_le. lia.
Qed.

Lemma forall2b_all_base round row ws :
  length row = length ws -> Forall (fun c => exists b, c = WBase b) row -> forall2b (pcell_fits_b round) row ws = true.
Proof.
  revert ws. induction row as [|c row IH]; intros [|w ws] Hl Hb; cbn [length] in Hl; try discriminate Hl; [reflexivity|].
  inversion Hb as [|c' r' [b ->] Hr]; subst. cbn [forall2b pcell_fits_b andb]. apply IH; [lia|exact Hr].
Qed.

Lemma sep_row_base n : Forall (fun c => exists b, c = WBase b) (wsep_row n).
Proof. apply Forall_forall. intros c Hc. apply repeat_spec in Hc. subst c. eexists. reflexivity. Qed.

Lemma header_base dates : Forall (fun c => exists b, c = WBase b) (weights_header dates).
Proof.
  unfold weights_header. constructor; [eexists; reflexivity|].
  apply Forall_forall. intros c Hc. apply in_map_iff in Hc. destruct Hc as [d [<- _]]. eexists. reflexivity.
Qed.

(* the date columns of a weights table are at least ten runes wide: the header *)
Lemma weights_date_widths round dates rows :
  Forall (fun d => date_lex_b d = true) dates ->
  Forall (frow_ok (length dates)) rows ->
  exists w0 wds, w_final_widths round (weights_wtable dates rows) = w0 :: wds /\
                 length wds = length dates /\ Forall (fun w => 10 <= w) wds.
Proof.
  intros Hd Hr. pose proof (weights_wtable_wf dates rows Hd Hr) as [_ Hrows].
  assert (Hfull : wrows_full (weights_wtable dates rows)).
  { unfold wrows_full. eapply Forall_impl; [|exact Hrows]. cbn. intros r [H _]. exact H. }
  destruct (w_col_widths_ge round _ Hfull) as [Hlen Hge].
  rewrite weights_wtable_width in Hlen.
  rewrite Forall_forall in Hge.
  assert (Hin : In (weights_header dates) (wt_rows (weights_wtable dates rows))).
  { unfold weights_wtable. cbn [wt_rows app]. right. left. reflexivity. }
  specialize (Hge _ Hin).
  destruct (w_final_widths round (weights_wtable dates rows)) as [|w0 wds]; [discriminate Hlen|].
  exists w0, wds. split; [reflexivity|]. cbn [length] in Hlen. split; [lia|].
  unfold weights_header in Hge. inversion Hge as [|c w r ws _ Hrest]; subst.
  clear - Hrest Hd. revert wds Hrest. induction dates as [|d dates IH]; intros wds Hrest.
  - inversion Hrest. constructor.
  - cbn [map] in Hrest. inversion Hrest as [|c w r ws Hcw Hr']; subst.
    inversion Hd as [|d' ds' Hd1 Hd2]; subst.
    constructor; [|apply IH; assumption].
    cbn [wmin_length min_length_cell] in Hcw. rewrite format_date_runes in Hcw by exact Hd1. exact Hcw.
Qed.

Theorem weights_wtable_fits round dates rows :
  Forall (fun d => date_lex_b d = true) dates ->
  Forall (frow_ok (length dates)) rows ->
  Forall (frow_fits round 10) rows ->
  wtable_fits_b round (weights_wtable dates rows) = true.
Proof.
  intros Hd Hr Hf.
  destruct (weights_date_widths round dates rows Hd Hr) as (w0 & wds & Ews & Hlw & Hw10).
  unfold wtable_fits_b. cbv zeta. rewrite Ews. apply forallb_forall. intros row Hrow.
  unfold weights_wtable in Hrow. cbn [wt_rows app] in Hrow. rewrite columns_of_weights in Hrow.
  assert (Hsep : forall2b (pcell_fits_b round) (wsep_row (S (length dates))) (w0 :: wds) = true).
  { apply forall2b_all_base; [unfold wsep_row; rewrite repeat_length; cbn [length]; lia|apply sep_row_base]. }
  destruct Hrow as [<-|[<-|[<-|Hrow]]]; try exact Hsep.
  - apply forall2b_all_base; [|apply header_base].
    unfold weights_header. cbn [length]. rewrite map_length. lia.
  - apply in_app_or in Hrow. destruct Hrow as [Hrow|[<-|[]]]; [|exact Hsep].
    apply in_map_iff in Hrow. destruct Hrow as [r [<- Hin]].
    rewrite Forall_forall in Hr, Hf. specialize (Hr r Hin). specialize (Hf r Hin).
    destruct r as [[ind s] cells]. destruct Hr as (Hl & _ & _). cbn [frow_fits] in Hf.
    unfold weights_row. cbn [forall2b pcell_fits_b andb].
    rewrite <- Hlw in Hl. clear - Hl Hf Hw10. revert wds Hl Hw10.
    induction cells as [|c cells IH]; intros [|w wds] Hl Hw10; cbn [length] in Hl; try discriminate Hl; [reflexivity|].
    inversion Hf as [|c' cs' Hc Hcs]; subst. inversion Hw10 as [|w' ws' Hw Hws]; subst.
    cbn [map forall2b]. apply andb_true_iff. split; [|apply IH; [exact Hcs|lia|exact Hws]].
    destruct c as [n|]; [|reflexivity]. apply (pcell_fits_mono round n 10 w Hc). lia.
Qed.

(* the weights report is rectangular whenever every weight is printed in at most ten runes *)
Theorem weights_text_rect round dates rows :
  Forall (fun d => date_lex_b d = true) dates ->
  Forall (frow_ok (length dates)) rows ->
  Forall (frow_fits round 10) rows ->
  rect_b (S (length dates)) (weights_text round dates rows) = true.
Proof.
  intros Hd Hr Hf. unfold weights_text. rewrite <- (weights_wtable_width dates rows).
  apply wrender_text_rect; [apply weights_wtable_wf; assumption|apply weights_wtable_fits; assumption].
Qed.
