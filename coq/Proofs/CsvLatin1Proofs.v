(* Model/CsvLatin1.v: the ISO 8859-1 decoder in front of ch.supercard's csv reader and the reader whose FieldsPerRecord
   is assigned between the calls of Read. *)
From Coq Require Import ZArith List Bool Lia.
From Knut Require Import Model.Bytes Model.Csv Model.ImpCommonA Model.CsvImp Model.CsvLatin1 Proofs.CsvProofs.
Import ListNotations.
Open Scope Z_scope.

Ltac Zify.zify_post_hook ::= Z.div_mod_to_equations.

(* ---------------------------------------------------------------- the decoder *)

(* every byte decodes to the UTF-8 encoding of the code point with the byte's number: itself below 0x80, else the two
   bytes 110000xx 10xxxxxx (lead 0xC2 or 0xC3, one continuation byte) that carry the number *)
Lemma latin1_byte_spec : forall b, 0 <= b < 256 ->
  (b < 128 /\ latin1_byte b = [b]) \/
  (128 <= b /\ exists c1 c2, latin1_byte b = [c1; c2] /\ 194 <= c1 <= 195 /\ 128 <= c2 < 192 /\
                            (c1 - 192) * 64 + (c2 - 128) = b).
Proof.
  intros b Hb. unfold latin1_byte.
  destruct (Z.ltb_spec b 128) as [Hlt|Hge]; [left; split; [lia|reflexivity]|].
  right. split; [lia|]. exists (192 + b / 64), (128 + b mod 64).
  split; [reflexivity|]. lia.
Qed.

Lemma list1_eq : forall x y : Z, [x] = [y] -> x = y.
Proof. intros x y E. injection E as E1. exact E1. Qed.
Lemma list2_eq : forall x y x' y' : Z, [x; y] = [x'; y'] -> x = x' /\ y = y'.
Proof. intros x y x' y' E. injection E as E1 E2. split; assumption. Qed.

Lemma latin1_byte_inj : forall a b, 0 <= a < 256 -> 0 <= b < 256 -> latin1_byte a = latin1_byte b -> a = b.
Proof.
  intros a b Ha Hb. unfold latin1_byte.
  destruct (Z.ltb_spec a 128) as [Ha1|Ha1]; destruct (Z.ltb_spec b 128) as [Hb1|Hb1]; intro E;
    try discriminate E.
  - apply list1_eq in E. exact E.
  - apply list2_eq in E. destruct E as [E1 E2]. lia.
Qed.

(* ASCII text is unchanged *)
Lemma latin1_decode_ascii : forall s, Forall (fun b => b < 128) s -> latin1_decode s = s.
Proof.
  induction s as [|b t IH]; intro H; [reflexivity|].
  inversion H as [|x l Hb Ht]; subst.
  cbn [latin1_decode]. unfold latin1_byte.
  destruct (Z.ltb_spec b 128) as [_|Hge]; [|lia].
  cbn [app]. rewrite (IH Ht). reflexivity.
Qed.

(* total on byte strings: the result is a byte string again, between one and two bytes per input byte *)
Lemma latin1_decode_bytes : forall s, Forall (fun b => 0 <= b < 256) s ->
  Forall (fun c => 0 <= c < 256) (latin1_decode s) /\
  (length s <= length (latin1_decode s) <= 2 * length s)%nat.
Proof.
  induction s as [|b t IH]; intro H; [split; [constructor|cbn; lia]|].
  inversion H as [|x l Hb Ht]; subst.
  destruct (IH Ht) as [IH1 IH2].
  cbn [latin1_decode]. rewrite app_length.
  destruct (latin1_byte_spec b Hb) as [[_ E]|[_ [c1 [c2 [E [H1 [H2 _]]]]]]]; rewrite E; cbn [app length].
  - split; [constructor; [lia|exact IH1]|lia].
  - split; [constructor; [lia|constructor; [lia|exact IH1]]|lia].
Qed.

Lemma latin1_decode_app : forall s t, latin1_decode (s ++ t) = latin1_decode s ++ latin1_decode t.
Proof.
  induction s as [|b s IH]; intro t; [reflexivity|].
  cbn [latin1_decode app]. rewrite IH, app_assoc. reflexivity.
Qed.

(* the decoder loses nothing: different byte strings decode to different texts *)
Lemma latin1_decode_inj : forall s t, Forall (fun b => 0 <= b < 256) s -> Forall (fun b => 0 <= b < 256) t ->
  latin1_decode s = latin1_decode t -> s = t.
Proof.
  induction s as [|a s IH]; intros t Hs Ht E.
  - destruct t as [|b t]; [reflexivity|]. exfalso.
    inversion Ht as [|x l Hb _]; subst. cbn [latin1_decode] in E.
    destruct (latin1_byte_spec b Hb) as [[_ Eb]|[_ [c1 [c2 [Eb _]]]]]; rewrite Eb in E; discriminate.
  - inversion Hs as [|x l Ha Hs']; subst.
    destruct t as [|b t].
    + exfalso. cbn [latin1_decode] in E.
      destruct (latin1_byte_spec a Ha) as [[_ Ea]|[_ [c1 [c2 [Ea _]]]]]; rewrite Ea in E; discriminate.
    + inversion Ht as [|x l Hb Ht']; subst. cbn [latin1_decode] in E.
      destruct (latin1_byte_spec a Ha) as [[Ha1 Ea]|[Ha1 [c1 [c2 [Ea [Hc1 [Hc2 Hv]]]]]]];
        destruct (latin1_byte_spec b Hb) as [[Hb1 Eb]|[Hb1 [d1 [d2 [Eb [Hd1 [Hd2 Hw]]]]]]];
        rewrite Ea, Eb in E; cbn [app] in E.
      * inversion E as [[E1 E2]]. f_equal. exact (IH t Hs' Ht' E2).
      * exfalso. inversion E as [[E1 E2]]. lia.
      * exfalso. inversion E as [[E1 E2]]. lia.
      * inversion E as [[E1 E2 E3]]. f_equal; [lia|]. exact (IH t Hs' Ht' E3).
Qed.

(* ---------------------------------------------------------------- FieldsPerRecord assigned between calls *)

(* without assignments the reader is Csv.read_all *)
Lemma read_all_set_nil : forall cfg fuel fpr s, read_all_set cfg fuel [] fpr s = read_all cfg fuel fpr s.
Proof.
  induction fuel as [|fuel IH]; intros fpr s; [reflexivity|].
  cbn [read_all_set read_all tl].
  destruct (skip_lines cfg false s) as [|a s']; [reflexivity|].
  destruct (parse_fields cfg (S (length (a :: s'))) (a :: s')) as [fs rest|e|]; try reflexivity.
  destruct (count_bad fpr fs); [reflexivity|]. rewrite IH. reflexivity.
Qed.

Lemma csv_read_all_set_nil : forall cfg input, csv_read_all_set cfg [] input = csv_read_all cfg input.
Proof.
  intros cfg input. unfold csv_read_all_set, csv_read_all.
  destruct (delims_ok cfg); [|reflexivity]. apply read_all_set_nil.
Qed.

Lemma read_all_set_fuel_ok : forall cfg fuel sets fpr s, (length s < fuel)%nat ->
  read_all_set cfg fuel sets fpr s <> CsvOutOfFuel.
Proof.
  induction fuel as [|fuel IH]; intros sets fpr s Hl; [lia|].
  cbn [read_all_set].
  pose proof (skip_lines_len cfg s false) as K.
  destruct (skip_lines cfg false s) as [|a s']; [discriminate|].
  destruct (parse_fields cfg (S (length (a :: s'))) (a :: s')) as [fs rest|e|] eqn:P.
  - destruct (count_bad _ fs); [discriminate|].
    apply parse_fields_ok_len in P. destruct P as [_ [P2 _]]. specialize (P2 ltac:(discriminate)).
    match goal with |- context [read_all_set cfg fuel ?a ?b rest] =>
      assert (Hr : read_all_set cfg fuel a b rest <> CsvOutOfFuel) by (apply IH; lia);
      destruct (read_all_set cfg fuel a b rest); congruence end.
  - discriminate.
  - exfalso. revert P. apply parse_fields_fuel_ok. lia.
Qed.

Lemma csv_read_all_set_total : forall cfg sets input,
  (exists rs, csv_read_all_set cfg sets input = CsvRecords rs) \/
  (exists before e, csv_read_all_set cfg sets input = CsvError before e).
Proof.
  intros cfg sets input. unfold csv_read_all_set.
  destruct (delims_ok cfg); [|right; eauto].
  pose proof (read_all_set_fuel_ok cfg (S (length (csv_normalize input))) sets (cc_fpr cfg) (csv_normalize input)
                ltac:(lia)) as H.
  destruct (read_all_set cfg (S (length (csv_normalize input))) sets (cc_fpr cfg) (csv_normalize input));
    [left|right|congruence]; eauto.
Qed.

Lemma csv_items_supercard_shape : forall file,
  exists rs, csv_items_supercard file = map CRec rs \/ csv_items_supercard file = map CRec rs ++ [CBad].
Proof.
  intro file. unfold csv_items_supercard.
  destruct (csv_read_all_set_total cfg_supercard sets_supercard (latin1_decode file)) as [[rs H]|[b [e H]]];
    rewrite H; cbn [items_of_result]; eauto.
Qed.
